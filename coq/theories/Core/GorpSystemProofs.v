(* Core/GorpSystemProofs.v — the system invariant [coh]: committed index state is a function of
   the committed table, every live delta mirrors its transaction's write set; it holds in the
   state OpenTable produces and is preserved by every operation whose commit and flush are not
   crossed with another transaction's. From it: the index answers seen by any reader are complete
   and duplicate-free for that reader's view. *)
From Coq Require Import NArith ZArith List Lia.
From stdpp Require Import gmap.
From Synnax Require Import Core.Gorp Core.GorpSpec Core.GorpListProofs Core.GorpLookupProofs
     Core.GorpSortedProofs Core.GorpDeltaProofs Core.GorpFilterProofs.
Import ListNotations.
Local Open Scope Z_scope.

(* ---- write sets ---- *)
Definition wmap (b : batch) : wset := fold_left (fun acc w => <[w.1 := w.2]> acc) b ∅.

Lemma ov_apply_lookup (w : wset) (m : table) k :
  ov_apply w m !! k = match w !! k with Some x => x | None => m !! k end.
Proof. unfold ov_apply. rewrite lookup_merge. destruct (w !! k) as [[?|]|], (m !! k); done. Qed.
Lemma ov_apply_empty (m : table) : ov_apply ∅ m = m.
Proof. apply map_eq. intros k. by rewrite ov_apply_lookup, lookup_empty. Qed.

Lemma wmap_snoc b w : wmap (b ++ [w]) = <[w.1 := w.2]> (wmap b).
Proof. unfold wmap. by rewrite fold_left_app. Qed.
Lemma apply1_ov (acc : wset) (m0 : table) w :
  apply1 (ov_apply acc m0) w = ov_apply (<[w.1 := w.2]> acc) m0.
Proof.
  apply map_eq. intros k. unfold apply1. rewrite ov_apply_lookup.
  destruct w as [k' [r|]]; simpl.
  - destruct (decide (k = k')) as [->|Hne]; [by rewrite !lookup_insert|].
    by rewrite !lookup_insert_ne, ov_apply_lookup by done.
  - destruct (decide (k = k')) as [->|Hne]; [by rewrite lookup_delete, lookup_insert|].
    by rewrite lookup_delete_ne, lookup_insert_ne, ov_apply_lookup by done.
Qed.
Lemma apply_batch_acc b (acc : wset) (m0 : table) :
  apply_batch b (ov_apply acc m0) = ov_apply (fold_left (fun a w => <[w.1 := w.2]> a) b acc) m0.
Proof.
  revert acc. induction b as [|w b IH]; intros acc; simpl; [done|].
  by rewrite apply1_ov, IH.
Qed.
Lemma apply_batch_wmap b (m : table) : apply_batch b m = ov_apply (wmap b) m.
Proof. rewrite <- (ov_apply_empty m) at 1. apply apply_batch_acc. Qed.
Lemma wmap_nil : wmap [] = ∅.
Proof. done. Qed.

(* every row written carries the key it is written under *)
Definition batch_ok (b : batch) : Prop := forall k r, (k, Some r) ∈ b -> rk r = k.
Lemma wmap_key_ok b k r : batch_ok b -> wmap b !! k = Some (Some r) -> rk r = k.
Proof.
  induction b as [|w b IH] using rev_ind; intros Hb.
  - by rewrite wmap_nil, lookup_empty.
  - rewrite wmap_snoc. destruct (decide (k = w.1)) as [->|Hne].
    + rewrite lookup_insert. intros [= E]. apply Hb. apply elem_of_app. right.
      destruct w as [k' o]; simpl in *. subst o. by left.
    + rewrite lookup_insert_ne by done. apply IH. intros k' r' Hin. apply Hb. apply elem_of_app. by left.
Qed.
Lemma ov_apply_key_ok (w : wset) (m : table) :
  key_ok m -> (forall k r, w !! k = Some (Some r) -> rk r = k) -> key_ok (ov_apply w m).
Proof.
  intros Hm Hw k r. rewrite ov_apply_lookup. destruct (w !! k) as [[r'|]|] eqn:E.
  - intros [= <-]. by apply Hw.
  - done.
  - apply Hm.
Qed.

(* ---- dedupZ ---- *)
Lemma dedupZ_elem seen vs v : v ∈ dedupZ seen vs <-> v ∈ vs /\ v ∉ seen.
Proof.
  revert seen. induction vs as [|x t IH]; intros seen; simpl.
  - rewrite elem_of_nil. naive_solver.
  - destruct (inZ x seen) eqn:E.
    + apply inZ_spec in E. rewrite IH, elem_of_cons. naive_solver.
    + apply inZ_false in E. rewrite elem_of_cons, IH, elem_of_cons, elem_of_app, elem_of_list_singleton.
      destruct (decide (v = x)); naive_solver.
Qed.
Lemma dedupZ_nodup seen vs : NoDup (dedupZ seen vs).
Proof.
  revert seen. induction vs as [|x t IH]; intros seen; simpl; [constructor|].
  destruct (inZ x seen) eqn:E; [apply IH|].
  apply NoDup_cons. split; [|apply IH].
  rewrite dedupZ_elem, elem_of_app, elem_of_list_singleton. naive_solver.
Qed.

(* committed Get of either index: complete for the reverse map and duplicate-free *)
Lemma flat_map_elem {A B} (g : A -> list B) l y : y ∈ flat_map g l <-> exists x, x ∈ l /\ y ∈ g x.
Proof.
  rewrite elem_of_list_In, in_flat_map. split; intros (x & H1 & H2); exists x.
  - apply elem_of_list_In in H1, H2. done.
  - apply elem_of_list_In in H1, H2. done.
Qed.
Lemma flat_map_nodup {A B} (g : A -> list B) l :
  NoDup l -> (forall x, NoDup (g x)) -> (forall x x' y, x ≠ x' -> y ∈ g x -> y ∉ g x') ->
  NoDup (flat_map g l).
Proof.
  intros Hl Hg Hd. induction l as [|x t IH]; simpl; [constructor|].
  apply NoDup_cons in Hl as [Hx Hl]. apply NoDup_app. split; [apply Hg|]. split; [|by apply IH].
  intros y Hy Hy'. apply flat_map_elem in Hy' as (x' & Hx' & Hy').
  apply (Hd x x' y); [|done|done]. intros ->. done.
Qed.
Lemma l_get_committed_elem vs l k :
  l_wf l -> k ∈ l_get_committed true vs l <-> exists v, v ∈ vs /\ l_rev l !! k = Some v.
Proof.
  intros Hwf. unfold l_get_committed, get_vals. rewrite flat_map_elem. split.
  - intros (v & Hv & Hk). exists v. apply dedupZ_elem in Hv as [Hv _]. split; [done|]. by apply l_get1_spec.
  - intros (v & Hv & Hk). exists v. split; [|by apply l_get1_spec].
    apply dedupZ_elem. split; [done|]. apply not_elem_of_nil.
Qed.
Lemma l_get_committed_nodup vs l : l_wf l -> NoDup (l_get_committed true vs l).
Proof.
  intros Hwf. apply flat_map_nodup; [apply dedupZ_nodup|intros; by apply l_get1_nodup|].
  intros x x' y Hne Hy Hy'. apply l_get1_spec in Hy, Hy'; [|done..]. congruence.
Qed.
Lemma s_get_committed_elem vs x k :
  s_wf x -> k ∈ s_get_committed true vs x <-> exists v, v ∈ vs /\ s_rev x !! k = Some v.
Proof.
  intros Hwf. unfold s_get_committed, get_vals. rewrite flat_map_elem. split.
  - intros (v & Hv & Hk). exists v. apply dedupZ_elem in Hv as [Hv _]. split; [done|]. by apply s_get1_spec.
  - intros (v & Hv & Hk). exists v. split; [|by apply s_get1_spec].
    apply dedupZ_elem. split; [done|]. apply not_elem_of_nil.
Qed.
Lemma s_get_committed_nodup vs x : s_wf x -> NoDup (s_get_committed true vs x).
Proof.
  intros Hwf. apply flat_map_nodup; [apply dedupZ_nodup|intros; by apply s_get1_nodup|].
  intros v v' y Hne Hy Hy'. apply s_get1_spec in Hy, Hy'; [|done..]. congruence.
Qed.

(* ---- the invariant ---- *)
(* delta [o !! t] mirrors, for indexed column [col], the write set of transaction t *)
Definition ocol (col : row -> Z) (o : option row) : option Z := col <$> o.
Definition ov_ok (col : row -> Z) (o : overlay) (tx : gmap nat batch) : Prop :=
  forall t, match o !! t with
            | Some d => d_wf d /\ exists b, tx !! t = Some b /\ d_state d = ocol col <$> wmap b
            | None => forall b, tx !! t = Some b -> b = []
            end.

Record coh (s : st) : Prop := {
  coh_key : key_ok (rows s);
  coh_bkey : forall t b, txs s !! t = Some b -> batch_ok b;
  coh_t0 : txs s !! O = None;
  coh_lwf : l_wf (li s);
  coh_lrev : l_rev (li s) = ra <$> rows s;
  coh_swf : s_wf (si s);
  coh_srev : s_rev (si s) = rb <$> rows s;
  coh_lov : ov_ok ra (lov s) (txs s);
  coh_sov : ov_ok rb (sov s) (txs s);
  coh_dedup : dedup s = true;
  coh_valid : lbad s = false /\ sbad s = false
}.

(* the view of a reader is keyed consistently *)
Lemma view_wmap s t : view s t = match t with O => rows s | _ => ov_apply (wmap (default [] (txs s !! t))) (rows s) end.
Proof. unfold view. destruct t; [done|]. apply apply_batch_wmap. Qed.
Lemma view_key_ok s t : coh s -> key_ok (view s t).
Proof.
  intros H. rewrite view_wmap. destruct t as [|t]; [apply (coh_key _ H)|].
  apply ov_apply_key_ok; [apply (coh_key _ H)|]. intros k r Hw.
  destruct (txs s !! S t) as [b|] eqn:E; simpl in Hw.
  - eapply wmap_key_ok; [|done]. by eapply (coh_bkey _ H).
  - by rewrite wmap_nil, lookup_empty in Hw.
Qed.

(* ---- the index answers any reader gets are complete and duplicate-free for its view ---- *)
Lemma resolve_ok (col : row -> Z) s t (o : overlay) committed (rev0 : gmap N Z) vs :
  coh s -> ov_ok col o (txs s) -> rev0 = col <$> rows s ->
  (forall k, k ∈ committed <-> exists v, v ∈ vs /\ rev0 !! k = Some v) ->
  forall r, view s t !! rk r = Some r -> inZ (col r) vs = true -> rk r ∈ ov_resolve t committed vs o.
Proof.
  intros Hc Ho -> Hcm r Hv Hin. apply inZ_spec in Hin.
  assert (Hbase : rows s !! rk r = Some r -> rk r ∈ committed).
  { intros Hr. apply Hcm. exists (col r). split; [done|]. by rewrite lookup_fmap, Hr. }
  rewrite view_wmap in Hv. destruct t as [|t]; [by apply Hbase|]. simpl in *.
  specialize (Ho (S t)). destruct (o !! S t) as [d|] eqn:Eo.
  - destruct Ho as (Hwf & b & Hb & Hst). rewrite Hb in Hv. simpl in Hv.
    rewrite ov_apply_lookup in Hv. apply d_merge_spec; [done|]. unfold overlay_sees.
    rewrite Hst, lookup_fmap. destruct (wmap b !! rk r) as [[r'|]|] eqn:Ew; simpl.
    + by injection Hv as ->.
    + done.
    + by apply Hbase.
  - destruct (txs s !! S t) as [b|] eqn:Eb; simpl in Hv.
    + rewrite (Ho b eq_refl), wmap_nil, ov_apply_empty in Hv. by apply Hbase.
    + rewrite wmap_nil, ov_apply_empty in Hv. by apply Hbase.
Qed.
Lemma resolve_nodup t (o : overlay) committed vs :
  NoDup committed -> NoDup (ov_resolve t committed vs o).
Proof.
  intros Hnd. unfold ov_resolve. destruct t; [done|]. destruct (o !! S t); [|done]. by apply d_merge_nodup.
Qed.

Theorem coh_env_ok s t : coh s -> env_ok (renv_of s t) (view s t).
Proof.
  intros Hc i vs. unfold renv_of. destruct vs as [|v0 vs']; [done|]. set (vs := v0 :: vs').
  eexists. split; [done|]. intros r Hv Hin. unfold idx_get. rewrite (coh_dedup _ Hc). destruct i.
  - eapply (resolve_ok ra); [done|apply (coh_lov _ Hc)|apply (coh_lrev _ Hc)| |done|done].
    intros k. apply l_get_committed_elem, (coh_lwf _ Hc).
  - eapply (resolve_ok rb); [done|apply (coh_sov _ Hc)|apply (coh_srev _ Hc)| |done|done].
    intros k. apply s_get_committed_elem, (coh_swf _ Hc).
Qed.
Theorem coh_env_nodup s t : coh s -> env_nodup (renv_of s t).
Proof.
  intros Hc i vs ks. unfold renv_of. destruct vs as [|v0 vs']; [done|]. intros [= <-].
  unfold idx_get. rewrite (coh_dedup _ Hc). destruct i.
  - apply resolve_nodup. apply l_get_committed_nodup, (coh_lwf _ Hc).
  - apply resolve_nodup. apply s_get_committed_nodup, (coh_swf _ Hc).
Qed.

(* ---- overlays under staging / transaction end ---- *)
Lemma ocol_fmap_insert col (m : wset) k (w : option row) :
  ocol col <$> <[k := w]> m = <[k := ocol col w]> (ocol col <$> m).
Proof. apply fmap_insert. Qed.

Lemma ov_ok_stage col (o : overlay) (tx : gmap nat batch) t b k (w : option row) :
  ov_ok col o tx -> tx !! t = Some b ->
  ov_ok col (<[t := match w with
                    | Some r => d_stage_set k (col r) (default d_empty (o !! t))
                    | None => d_stage_del k (default d_empty (o !! t))
                    end]> o)
        (<[t := b ++ [(k, w)]]> tx).
Proof.
  intros Ho Hb t1. destruct (decide (t1 = t)) as [->|Hne].
  - rewrite !lookup_insert.
    assert (Hd0 : d_wf (default d_empty (o !! t)) /\ d_state (default d_empty (o !! t)) = ocol col <$> wmap b).
    { specialize (Ho t). destruct (o !! t) as [d|]; simpl.
      - destruct Ho as (Hwf & b' & Hb' & Hst). rewrite Hb in Hb'. by injection Hb' as <-.
      - split; [apply d_wf_empty|]. rewrite (Ho b Hb), wmap_nil. simpl. by rewrite fmap_empty. }
    destruct Hd0 as [Hwf Hst]. destruct w as [r|].
    + split; [by apply d_stage_set_wf|]. eexists. split; [done|].
      rewrite wmap_snoc, ocol_fmap_insert. simpl. by rewrite Hst.
    + split; [by apply d_stage_del_wf|]. eexists. split; [done|].
      rewrite wmap_snoc, ocol_fmap_insert. simpl. by rewrite Hst.
  - rewrite !lookup_insert_ne by done. apply Ho.
Qed.
Lemma ov_ok_delete col (o : overlay) (tx : gmap nat batch) t :
  ov_ok col o tx -> ov_ok col (delete t o) (delete t tx).
Proof.
  intros Ho t1. destruct (decide (t1 = t)) as [->|Hne].
  - rewrite !lookup_delete. done.
  - rewrite !lookup_delete_ne by done. apply Ho.
Qed.
Lemma ov_ok_begin col (o : overlay) (tx : gmap nat batch) t :
  ov_ok col o tx -> tx !! t = None -> ov_ok col o (<[t := []]> tx).
Proof.
  intros Ho Ht t1. destruct (decide (t1 = t)) as [->|Hne].
  - specialize (Ho t). destruct (o !! t) as [d|].
    + destruct Ho as (_ & b & Hb & _). congruence.
    + rewrite lookup_insert. by intros b [= <-].
  - rewrite lookup_insert_ne by done. apply Ho.
Qed.
Lemma ov_ok_empty col : ov_ok col ∅ ∅.
Proof. intros t. rewrite lookup_empty. intros b. by rewrite lookup_empty. Qed.

Lemma is_open_S s t : is_open s (S t) = true -> exists b, txs s !! S t = Some b.
Proof. unfold is_open. intros H. apply bool_decide_eq_true in H as [b Hb]. by exists b. Qed.

(* ---- writes ---- *)
Lemma coh_w_set s t r : coh s -> is_open s t = true -> coh (w_set t r s).
Proof.
  intros Hc Ho. destruct Hc as [Hk Hbk Ht0 Hlw Hlr Hsw Hsr Hlo Hso Hdd Hva].
  destruct t as [|t]; simpl.
  - assert (Hk' : key_ok (<[rk r := r]> (rows s))).
    { intros k r'. destruct (decide (k = rk r)) as [->|Hne].
      - rewrite lookup_insert. by intros [= <-].
      - rewrite lookup_insert_ne by done. apply Hk. }
    destruct (mode1 s); simpl; split; simpl; try done;
      rewrite ?l_rev_put, ?s_rev_set, ?insert_insert, ?fmap_insert, ?Hlr, ?Hsr;
      try done; repeat (apply l_put_wf || apply s_set_wf); done.
  - apply is_open_S in Ho as [b Hb]. rewrite Hb. simpl.
    split; simpl; try done.
    + intros t1 b1. destruct (decide (t1 = S t)) as [->|Hne].
      * rewrite lookup_insert. intros [= <-] k r' Hin.
        apply elem_of_app in Hin as [Hin|Hin]; [by eapply Hbk|].
        apply elem_of_list_singleton in Hin. by injection Hin as -> ->.
      * rewrite lookup_insert_ne by done. apply Hbk.
    + by rewrite lookup_insert_ne.
    + apply (ov_ok_stage ra _ _ _ b (rk r) (Some r)); done.
    + apply (ov_ok_stage rb _ _ _ b (rk r) (Some r)); done.
Qed.
Lemma coh_w_del s t k : coh s -> is_open s t = true -> coh (w_del t k s).
Proof.
  intros Hc Ho. destruct Hc as [Hk Hbk Ht0 Hlw Hlr Hsw Hsr Hlo Hso Hdd Hva].
  destruct t as [|t]; simpl.
  - assert (Hk' : key_ok (delete k (rows s))).
    { intros k' r'. destruct (decide (k' = k)) as [->|Hne].
      - by rewrite lookup_delete.
      - rewrite lookup_delete_ne by done. apply Hk. }
    destruct (mode1 s); simpl; split; simpl; try done;
      rewrite ?l_rev_del, ?s_rev_del, ?delete_idemp, ?fmap_delete, ?Hlr, ?Hsr;
      try done; repeat (apply l_del_wf || apply s_del_wf); done.
  - apply is_open_S in Ho as [b Hb]. rewrite Hb. simpl.
    split; simpl; try done.
    + intros t1 b1. destruct (decide (t1 = S t)) as [->|Hne].
      * rewrite lookup_insert. intros [= <-] k' r' Hin.
        apply elem_of_app in Hin as [Hin|Hin]; [by eapply Hbk|].
        apply elem_of_list_singleton in Hin. done.
      * rewrite lookup_insert_ne by done. apply Hbk.
    + by rewrite lookup_insert_ne.
    + apply (ov_ok_stage ra _ _ _ b k None); done.
    + apply (ov_ok_stage rb _ _ _ b k None); done.
Qed.
Lemma is_open_w_set s t r t' : is_open s t' = true -> is_open (w_set t r s) t' = true.
Proof.
  destruct t' as [|t']; [done|]. unfold is_open. intros H. apply bool_decide_eq_true in H.
  apply bool_decide_eq_true. destruct t as [|t]; simpl; [by destruct (mode1 s)|].
  destruct (decide (S t' = S t)) as [->|Hne]; [by rewrite lookup_insert|by rewrite lookup_insert_ne].
Qed.
Lemma is_open_w_del s t k t' : is_open s t' = true -> is_open (w_del t k s) t' = true.
Proof.
  destruct t' as [|t']; [done|]. unfold is_open. intros H. apply bool_decide_eq_true in H.
  apply bool_decide_eq_true. destruct t as [|t]; simpl; [by destruct (mode1 s)|].
  destruct (decide (S t' = S t)) as [->|Hne]; [by rewrite lookup_insert|by rewrite lookup_insert_ne].
Qed.
Lemma coh_fold_w_set {A} (g : A -> row) l : forall s t,
  coh s -> is_open s t = true -> coh (fold_left (fun acc x => w_set t (g x) acc) l s).
Proof.
  induction l as [|x l IH]; intros s t Hc Ho; simpl; [done|].
  apply IH; [by apply coh_w_set|by apply is_open_w_set].
Qed.
Lemma coh_fold_w_del {A} (g : A -> N) l : forall s t,
  coh s -> is_open s t = true -> coh (fold_left (fun acc x => w_del t (g x) acc) l s).
Proof.
  induction l as [|x l IH]; intros s t Hc Ho; simpl; [done|].
  apply IH; [by apply coh_w_del|by apply is_open_w_del].
Qed.

(* ---- the observer ---- *)
Lemma observe_spec b : forall s (m0 : table),
  l_wf (li s) -> l_rev (li s) = ra <$> m0 -> s_wf (si s) -> s_rev (si s) = rb <$> m0 ->
  l_wf (li (observe b s)) /\ l_rev (li (observe b s)) = ra <$> apply_batch b m0 /\
  s_wf (si (observe b s)) /\ s_rev (si (observe b s)) = rb <$> apply_batch b m0 /\
  rows (observe b s) = rows s /\ lov (observe b s) = lov s /\ sov (observe b s) = sov s /\
  txs (observe b s) = txs s /\ mode1 (observe b s) = mode1 s /\ dedup (observe b s) = dedup s /\
  lbad (observe b s) = lbad s /\ sbad (observe b s) = sbad s.
Proof.
  induction b as [|[k [r|]] b IH]; intros s m0 Hlw Hlr Hsw Hsr; simpl.
  - done.
  - destruct (IH (obs1 s (k, Some r)) (apply1 m0 (k, Some r))) as (H1 & H2 & H3 & H4 & H5 & H6 & H7 & H8 & H9 & H10 & H11 & H12);
      simpl; [by apply l_put_wf|by rewrite l_rev_put, Hlr; unfold apply1; simpl; rewrite fmap_insert|by apply s_set_wf
             |by rewrite s_rev_set, Hsr; unfold apply1; simpl; rewrite fmap_insert|].
    unfold observe in *. simpl in *. done.
  - destruct (IH (obs1 s (k, None)) (apply1 m0 (k, None))) as (H1 & H2 & H3 & H4 & H5 & H6 & H7 & H8 & H9 & H10 & H11 & H12);
      simpl; [by apply l_del_wf|by rewrite l_rev_del, Hlr; unfold apply1; simpl; rewrite fmap_delete|by apply s_del_wf
             |by rewrite s_rev_del, Hsr; unfold apply1; simpl; rewrite fmap_delete|].
    unfold observe in *. simpl in *. done.
Qed.

(* ---- commit / abort ---- *)
Lemma fmap_ocol_empty col (m : wset) : ocol col <$> m = ∅ -> m = ∅.
Proof. apply fmap_empty_inv. Qed.

Lemma flush_target col (m : wset) (rows0 : table) (rev1 : gmap N Z) (final : gmap N Z) :
  (rev1 = col <$> rows0 \/ rev1 = col <$> ov_apply m rows0) ->
  (forall k, final !! k = flushed (ocol col <$> m) rev1 k) ->
  final = col <$> ov_apply m rows0.
Proof.
  intros Hr Hf. apply map_eq. intros k. rewrite Hf. unfold flushed.
  rewrite !lookup_fmap, ov_apply_lookup. destruct (m !! k) as [w|] eqn:E; simpl; [done|].
  destruct Hr as [-> | ->]; rewrite lookup_fmap; [done|]. by rewrite ov_apply_lookup, E.
Qed.

Lemma coh_commit s t : coh s -> is_open s (S t) = true -> coh (commit (S t) s).
Proof.
  intros Hc Ho. destruct Hc as [Hk Hbk Ht0 Hlw Hlr Hsw Hsr Hlo Hso Hdd Hva].
  apply is_open_S in Ho as [b Hb].
  unfold commit. set (s1 := kv_commit (S t) s).
  (* the state after the kv commit *)
  assert (H1 : rows s1 = ov_apply (wmap b) (rows s) /\
               l_wf (li s1) /\ (l_rev (li s1) = ra <$> rows s \/ l_rev (li s1) = ra <$> ov_apply (wmap b) (rows s)) /\
               s_wf (si s1) /\ (s_rev (si s1) = rb <$> rows s \/ s_rev (si s1) = rb <$> ov_apply (wmap b) (rows s)) /\
               lov s1 = lov s /\ sov s1 = sov s /\ txs s1 = txs s /\ mode1 s1 = mode1 s /\ dedup s1 = dedup s /\
               (b = [] -> li s1 = li s /\ si s1 = si s)).
  { unfold s1, kv_commit. rewrite Hb. simpl. destruct (mode1 s) eqn:Em.
    - destruct (observe_spec b (St (apply_batch b (rows s)) (li s) (si s) (lov s) (sov s) (txs s) true (dedup s) (lbad s) (sbad s)) (rows s))
        as (A1 & A2 & A3 & A4 & A5 & A6 & A7 & A8 & A9 & A10 & A11 & A12); simpl; try done.
      rewrite A5, A6, A7, A8, A9, A10. simpl. rewrite <- apply_batch_wmap.
      split; [done|]. split; [done|]. split; [by right|]. split; [done|]. split; [by right|].
      repeat (split; [done|]). by intros ->.
    - simpl. rewrite <- apply_batch_wmap. split; [done|]. split; [done|]. split; [by left|].
      split; [done|]. split; [by left|]. repeat (split; [done|]). done. }
  assert (Hbad1 : lbad s1 = lbad s /\ sbad s1 = sbad s).
  { unfold s1, kv_commit. destruct (mode1 s); [|done].
    destruct (observe_spec (default [] (txs s !! S t))
       (St (apply_batch (default [] (txs s !! S t)) (rows s)) (li s) (si s) (lov s) (sov s) (txs s) true (dedup s) (lbad s) (sbad s)) (rows s))
      as (_ & _ & _ & _ & _ & _ & _ & _ & _ & _ & A11 & A12); simpl; done. }
  destruct H1 as (Hr1 & Hlw1 & Hlr1 & Hsw1 & Hsr1 & Hlo1 & Hso1 & Htx1 & Hm1 & Hd1 & Hnil).
  assert (Hbok : batch_ok b) by (by eapply Hbk).
  (* the lookup index after the flush *)
  assert (HL : l_wf (li (cleanups true (S t) s1)) /\ l_rev (li (cleanups true (S t) s1)) = ra <$> rows s1).
  { unfold cleanups. simpl. rewrite Hlo1, Hr1. specialize (Hlo (S t)).
    destruct (lov s !! S t) as [d|] eqn:Ed.
    - destruct Hlo as (Hdw & b' & Hb' & Hst). rewrite Hb in Hb'. injection Hb' as <-.
      destruct (bool_decide (d_state d = ∅)) eqn:Ee; simpl.
      + apply bool_decide_eq_true in Ee. rewrite Hst in Ee. apply fmap_ocol_empty in Ee.
        split; [done|]. rewrite Ee, ov_apply_empty in *. by destruct Hlr1.
      + destruct (l_flush_spec d (li s1) Hlw1) as [Hw Hf]. split; [done|].
        eapply (flush_target ra); [exact Hlr1|]. intros k. by rewrite Hf, Hst.
    - rewrite (Hlo b Hb) in *. rewrite wmap_nil, ov_apply_empty in *.
      destruct (Hnil eq_refl) as [-> _]. done. }
  assert (HS : s_wf (si (cleanups true (S t) s1)) /\ s_rev (si (cleanups true (S t) s1)) = rb <$> rows s1).
  { unfold cleanups. simpl. rewrite Hso1, Hr1. specialize (Hso (S t)).
    destruct (sov s !! S t) as [d|] eqn:Ed.
    - destruct Hso as (Hdw & b' & Hb' & Hst). rewrite Hb in Hb'. injection Hb' as <-.
      destruct (bool_decide (d_state d = ∅)) eqn:Ee; simpl.
      + apply bool_decide_eq_true in Ee. rewrite Hst in Ee. apply fmap_ocol_empty in Ee.
        split; [done|]. rewrite Ee, ov_apply_empty in *. by destruct Hsr1.
      + destruct (s_flush_spec d (si s1) Hsw1) as [Hw Hf]. split; [done|].
        eapply (flush_target rb); [exact Hsr1|]. intros k. by rewrite Hf, Hst.
    - rewrite (Hso b Hb) in *. rewrite wmap_nil, ov_apply_empty in *.
      destruct (Hnil eq_refl) as [_ ->]. done. }
  destruct HL as [HL1 HL2]. destruct HS as [HS1 HS2].
  split; try done.
  - simpl. rewrite Hr1. apply ov_apply_key_ok; [done|]. intros k r. by apply wmap_key_ok.
  - simpl. rewrite Htx1. intros t1 b1. destruct (decide (t1 = S t)) as [->|Hne];
      [by rewrite lookup_delete|rewrite lookup_delete_ne by done; apply Hbk].
  - simpl. rewrite Htx1. by rewrite lookup_delete_ne.
  - simpl. rewrite Hlo1, Htx1. by apply ov_ok_delete.
  - simpl. rewrite Hso1, Htx1. by apply ov_ok_delete.
  - simpl. by rewrite Hd1.
  - simpl. destruct Hbad1 as [-> ->]. done.
Qed.

Lemma coh_abort s t : coh s -> coh (abort t s).
Proof.
  intros [Hk Hbk Ht0 Hlw Hlr Hsw Hsr Hlo Hso Hdd Hva]. unfold abort, cleanups. simpl.
  assert (E1 : match lov s !! t with Some _ => li s | None => li s end = li s) by (by destruct (lov s !! t)).
  assert (E2 : match sov s !! t with Some _ => si s | None => si s end = si s) by (by destruct (sov s !! t)).
  rewrite E1, E2. split; simpl; try done.
  - intros t1 b1. destruct (decide (t1 = t)) as [->|Hne];
      [by rewrite lookup_delete|rewrite lookup_delete_ne by done; apply Hbk].
  - destruct (decide (t = O)) as [->|Hne]; [by rewrite lookup_delete|by rewrite lookup_delete_ne].
  - by apply ov_ok_delete.
  - by apply ov_ok_delete.
Qed.

(* ---- replicated writes ---- *)
Lemma coh_replicate s b : coh s -> batch_ok b -> coh (replicate b s).
Proof.
  intros [Hk Hbk Ht0 Hlw Hlr Hsw Hsr Hlo Hso Hdd Hva] Hb. unfold replicate.
  destruct (observe_spec b (St (apply_batch b (rows s)) (li s) (si s) (lov s) (sov s) (txs s) (mode1 s) (dedup s) (lbad s) (sbad s)) (rows s))
    as (A1 & A2 & A3 & A4 & A5 & A6 & A7 & A8 & A9 & A10 & A11 & A12); simpl; try done.
  split; try done.
  - rewrite A5. simpl. rewrite apply_batch_wmap. apply ov_apply_key_ok; [done|]. intros k r. by apply wmap_key_ok.
  - by rewrite A8.
  - by rewrite A8.
  - by rewrite A2, A5.
  - by rewrite A4, A5.
  - by rewrite A6, A8.
  - by rewrite A7, A8.
  - by rewrite A10.
  - by rewrite A11, A12.
Qed.

(* ---- bulk populate (OpenTable over pre-existing rows) ---- *)
Lemma fold_insert_lookup {V} (g : row -> V) rs : forall (m0 : gmap N V),
  NoDup (map rk rs) ->
  (forall r, r ∈ rs -> fold_left (fun m r => <[rk r := g r]> m) rs m0 !! rk r = Some (g r)) /\
  (forall k, k ∉ map rk rs -> fold_left (fun m r => <[rk r := g r]> m) rs m0 !! k = m0 !! k).
Proof.
  induction rs as [|x t IH]; intros m0 Hnd; simpl.
  - split; [intros r Hr; by apply elem_of_nil in Hr|done].
  - apply NoDup_cons in Hnd as [Hx Hnd]. destruct (IH (<[rk x := g x]> m0) Hnd) as [I1 I2]. split.
    + intros r Hr. apply elem_of_cons in Hr as [->|Hr]; [|by apply I1].
      rewrite I2 by done. by rewrite lookup_insert.
    + intros k Hk. rewrite I2.
      * rewrite lookup_insert_ne; [done|]. intros <-. apply Hk. by left.
      * intros Hin. apply Hk. by right.
Qed.
Lemma fold_insert_fmap {V} (g : row -> V) (m : table) :
  key_ok m -> fold_left (fun acc r => <[rk r := g r]> acc) (sorted_rows m) ∅ = g <$> m.
Proof.
  intros Hk. destruct (fold_insert_lookup g (sorted_rows m) ∅ (sorted_rows_keys_nodup m Hk)) as [I1 I2].
  apply map_eq. intros k. rewrite lookup_fmap. destruct (m !! k) as [r|] eqn:E; simpl.
  - assert (Hr : r ∈ sorted_rows m) by (apply elem_of_sorted_rows; by exists k).
    specialize (I1 r Hr). by rewrite (Hk _ _ E) in I1.
  - rewrite I2; [by rewrite lookup_empty|]. intros Hin.
    apply elem_of_list_fmap in Hin as (r & -> & Hr). apply in_view_iff in Hr; [|done]. congruence.
Qed.

Lemma l_populate_fold rs : forall l,
  l_wf l ->
  l_wf (fold_left (fun l r => l_put (rk r) (ra r) l) rs l) /\
  l_rev (fold_left (fun l r => l_put (rk r) (ra r) l) rs l) =
  fold_left (fun m r => <[rk r := ra r]> m) rs (l_rev l).
Proof.
  induction rs as [|x t IH]; intros l Hw; simpl; [done|].
  destruct (IH (l_put (rk x) (ra x) l) (l_put_wf _ _ _ Hw)) as [H1 H2].
  split; [done|]. by rewrite H2, l_rev_put.
Qed.
Lemma l_populate_spec (m : table) : key_ok m -> l_wf (l_populate m) /\ l_rev (l_populate m) = ra <$> m.
Proof.
  intros Hk. unfold l_populate. destruct (l_populate_fold (sorted_rows m) l_empty l_wf_empty) as [H1 H2].
  split; [done|]. rewrite H2. simpl. by apply fold_insert_fmap.
Qed.

Lemma vleb_total a b : vleb a b = false -> vleb b a = true.
Proof. unfold vleb. rewrite Z.leb_gt, Z.leb_le. lia. Qed.
Lemma vleb_trans a b c : vleb a b = true -> vleb b c = true -> vleb a c = true.
Proof. unfold vleb. rewrite !Z.leb_le. lia. Qed.

Lemma option_eq_iff {A} (x y : option A) : (forall v, x = Some v <-> y = Some v) -> x = y.
Proof.
  intros H. destruct x as [a|], y as [b|]; try done.
  - by apply H.
  - assert (None = Some a) by (by apply H). done.
  - assert (None = Some b) by (by apply H). done.
Qed.

Lemma s_populate_spec (m : table) : key_ok m -> s_wf (s_populate m) /\ s_rev (s_populate m) = rb <$> m.
Proof.
  intros Hk. unfold s_populate. set (rs := sorted_rows m).
  assert (Hnd : NoDup (map rk rs)) by (by apply sorted_rows_keys_nodup).
  assert (Hfst : NoDup ((map (fun r => (rk r, rb r)) rs).*1)).
  { replace ((map (fun r => (rk r, rb r)) rs).*1) with (map rk rs); [done|].
    clear. induction rs as [|x t IH]; simpl; [done|]. by f_equal. }
  assert (Hrev : list_to_map (map (fun r => (rk r, rb r)) rs) = rb <$> m).
  { apply map_eq. intros k. apply option_eq_iff. intros v.
    rewrite <- elem_of_list_to_map by done. rewrite lookup_fmap, elem_of_list_fmap. split.
    - intros (r & [= -> ->] & Hr). apply in_view_iff in Hr; [|done]. by rewrite Hr.
    - intros Hv. destruct (m !! k) as [r|] eqn:E; [|done]. simpl in Hv. injection Hv as <-.
      exists r. rewrite (Hk _ _ E). split; [done|]. apply elem_of_sorted_rows. by exists k. }
  split; [|done]. split; simpl.
  - apply (isort_sorted vleb vleb_total vleb_trans).
  - assert (P : map snd (isort (fun a b : Z * N => Z.leb a.1 b.1) (map (fun r => (rb r, rk r)) rs))
                ≡ₚ map snd (map (fun r => (rb r, rk r)) rs)) by apply Permutation_map, isort_perm.
    rewrite P, map_map. done.
  - intros v k. rewrite elem_of_isort, Hrev, lookup_fmap, elem_of_list_fmap. split.
    + intros (r & [= -> ->] & Hr). apply in_view_iff in Hr; [|done]. by rewrite Hr.
    + intros Hv. destruct (m !! k) as [r|] eqn:E; [|done]. simpl in Hv. injection Hv as <-.
      exists r. rewrite (Hk _ _ E). split; [done|]. apply elem_of_sorted_rows. by exists k.
Qed.

Lemma coh_reopen s : coh s -> coh (reopen s).
Proof.
  intros [Hk Hbk Ht0 Hlw Hlr Hsw Hsr Hlo Hso Hdd Hva]. unfold reopen.
  destruct (l_populate_spec (rows s) Hk) as [L1 L2]. destruct (s_populate_spec (rows s) Hk) as [S1 S2].
  split; simpl; try done; try apply ov_ok_empty.
  all: try (intros t b; by rewrite lookup_empty).
Qed.

Lemma seed_key_ok (seed : list row) :
  key_ok (list_to_map (map (fun r => (rk r, r)) seed)).
Proof.
  intros k r Hl. apply elem_of_list_to_map_2 in Hl. apply elem_of_list_fmap in Hl as (r' & [= -> ->] & _). done.
Qed.
Theorem coh_init m1 seed : coh (init m1 true seed).
Proof.
  unfold init. set (m := list_to_map _).
  assert (Hk : key_ok m) by apply seed_key_ok.
  destruct (l_populate_spec m Hk) as [L1 L2]. destruct (s_populate_spec m Hk) as [S1 S2].
  split; simpl; try done; try apply ov_ok_empty.
  all: try (intros t b; by rewrite lookup_empty).
Qed.

Lemma coh_begin s t : coh s -> is_open s (S t) = false ->
  coh (St (rows s) (li s) (si s) (lov s) (sov s) (<[S t := []]> (txs s)) (mode1 s) (dedup s) (lbad s) (sbad s)).
Proof.
  intros [Hk Hbk Ht0 Hlw Hlr Hsw Hsr Hlo Hso Hdd Hva] Ho.
  assert (Hn : txs s !! S t = None).
  { unfold is_open in Ho. apply bool_decide_eq_false in Ho. by apply eq_None_not_Some. }
  split; simpl; try done.
  - intros t1 b1. destruct (decide (t1 = S t)) as [->|Hne].
    + rewrite lookup_insert. intros [= <-] k r Hin. by apply elem_of_nil in Hin.
    + rewrite lookup_insert_ne by done. apply Hbk.
  - by rewrite lookup_insert_ne.
  - by apply ov_ok_begin.
  - by apply ov_ok_begin.
Qed.

(* ---- every operation other than the crossed commit preserves the invariant ---- *)
Definition op_ok (o : op) : Prop :=
  match o with
  | Commit2 _ _ => False              (* kv commits and flushes of two transactions crossed: F22 *)
  | ReopenFault _ => False            (* storage fault during the populate scan: outside C17's quantifier *)
  | Repl b => batch_ok b              (* a replicated row is stored under its own key *)
  | _ => True
  end.

Lemma upd_key a b c r : rk (upd a b c r) = rk r.
Proof. done. Qed.

Theorem coh_step s o : coh s -> op_ok o -> coh (step s o).1.
Proof.
  intros Hc Ho. destruct o; simpl in *.
  - destruct t as [|t]; [done|]. destruct (is_open s (S t)) eqn:E; [done|]. simpl. by apply coh_begin.
  - destruct (is_open s t) eqn:E; [|done]. simpl. by apply (coh_fold_w_set (fun r => r)).
  - destruct (is_open s t) eqn:E; [|done]. destruct (N.eqb _ _); [|done]. simpl. by apply coh_fold_w_set.
  - destruct (is_open s t) eqn:E; [|done]. destruct (N.eqb _ _); [|done]. simpl. by apply coh_fold_w_set.
  - destruct (is_open s t) eqn:E; [|done]. simpl. by apply coh_fold_w_del.
  - destruct (is_open s t) eqn:E; [|done]. simpl. by apply coh_fold_w_del.
  - by destruct (is_open s t).
  - by destruct (is_open s t).
  - destruct t as [|t]; [done|]. destruct (is_open s (S t)) eqn:E; [|done]. simpl. by apply coh_commit.
  - done.
  - destruct t as [|t]; [done|]. destruct (is_open s (S t)) eqn:E; [|done]. simpl. by apply coh_abort.
  - by apply coh_reopen.
  - by apply coh_replicate.
  - by destruct (is_open s t).
  - destruct t as [|t]; [done|]. destruct (is_open s (S t)) eqn:E; [|done]. simpl. by apply coh_abort.
  - done.
Qed.

Theorem coh_run ops : forall s, coh s -> Forall op_ok ops -> coh (run s ops).
Proof.
  induction ops as [|o ops IH]; intros s Hc Ho; simpl; [done|].
  apply Forall_cons in Ho as [Ho Hos]. apply IH; [by apply coh_step|done].
Qed.
