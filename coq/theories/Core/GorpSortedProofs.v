(* Core/GorpSortedProofs.v — SortedIndex: the binary-search bounds against their meaning,
   sortedness / key uniqueness / reverse-map agreement inductive over setCommitted and
   deleteCommitted, exact-match get, ordered walk. *)
From Coq Require Import NArith ZArith List Lia.
From stdpp Require Import gmap.
From Synnax Require Import Core.Gorp Core.GorpListProofs.
Import ListNotations.
Local Open Scope Z_scope.

Definition vleb (a b : Z * N) : bool := Z.leb a.1 b.1.
Notation vsorted := (lsorted vleb).

Lemma nthv_lookup e i p : e !! i = Some p -> nthv e i = p.1.
Proof. unfold nthv. rewrite nth_error_lookup. by intros ->. Qed.

Lemma vsorted_le e i j a b :
  vsorted e -> (i <= j)%nat -> e !! i = Some a -> e !! j = Some b -> a.1 <= b.1.
Proof.
  intros Hs Hij Hi Hj. destruct (decide (i = j)) as [->|Hne].
  - rewrite Hi in Hj. injection Hj as <-. lia.
  - apply Z.leb_le. eapply (lsorted_lookup vleb); [done| |done|done]. lia.
Qed.

(* lowerBound / upperBound *)
Lemma lower_bound_spec v e :
  vsorted e ->
  let lo := lower_bound v e in
  (lo <= length e)%nat /\ (forall p, p ∈ take lo e -> p.1 < v) /\ (forall p, p ∈ drop lo e -> v <= p.1).
Proof.
  intros Hs. cbv zeta. unfold lower_bound.
  destruct (search_spec (fun i => Z.leb v (nthv e i)) (length e)) as (H1 & H2 & H3).
  { intros x y Hxy Hx.
    destruct (lookup_lt_is_Some_2 e x) as [a Ha]; [lia|].
    destruct (lookup_lt_is_Some_2 e y) as [b Hb]; [lia|].
    rewrite (nthv_lookup _ _ _ Ha) in Hx. rewrite (nthv_lookup _ _ _ Hb).
    apply Z.leb_le in Hx. apply Z.leb_le.
    pose proof (vsorted_le e x y a b Hs ltac:(lia) Ha Hb). lia. }
  split; [done|]. split.
  - intros p Hp. apply elem_of_list_lookup in Hp as [i Hi].
    apply lookup_take_Some in Hi as [Hi Hlt].
    specialize (H2 i Hlt). rewrite (nthv_lookup _ _ _ Hi) in H2. apply Z.leb_gt in H2. done.
  - intros p Hp. apply elem_of_list_lookup in Hp as [i Hi].
    rewrite lookup_drop in Hi.
    assert (Hlt : (search (length e) (fun i => Z.leb v (nthv e i)) + i < length e)%nat)
      by (by eapply lookup_lt_Some).
    specialize (H3 (search (length e) (fun i => Z.leb v (nthv e i)) + i)%nat ltac:(lia)).
    rewrite (nthv_lookup _ _ _ Hi) in H3.
    by apply Z.leb_le in H3.
Qed.
Lemma upper_bound_spec v e :
  vsorted e ->
  let hi := upper_bound v e in
  (hi <= length e)%nat /\ (forall p, p ∈ take hi e -> p.1 <= v) /\ (forall p, p ∈ drop hi e -> v < p.1).
Proof.
  intros Hs. cbv zeta. unfold upper_bound.
  destruct (search_spec (fun i => Z.ltb v (nthv e i)) (length e)) as (H1 & H2 & H3).
  { intros x y Hxy Hx.
    destruct (lookup_lt_is_Some_2 e x) as [a Ha]; [lia|].
    destruct (lookup_lt_is_Some_2 e y) as [b Hb]; [lia|].
    rewrite (nthv_lookup _ _ _ Ha) in Hx. rewrite (nthv_lookup _ _ _ Hb).
    apply Z.ltb_lt in Hx. apply Z.ltb_lt.
    pose proof (vsorted_le e x y a b Hs ltac:(lia) Ha Hb). lia. }
  split; [done|]. split.
  - intros p Hp. apply elem_of_list_lookup in Hp as [i Hi].
    apply lookup_take_Some in Hi as [Hi Hlt].
    specialize (H2 i Hlt). rewrite (nthv_lookup _ _ _ Hi) in H2. apply Z.ltb_ge in H2. done.
  - intros p Hp. apply elem_of_list_lookup in Hp as [i Hi].
    rewrite lookup_drop in Hi.
    assert (Hlt : (search (length e) (fun i => Z.ltb v (nthv e i)) + i < length e)%nat)
      by (by eapply lookup_lt_Some).
    specialize (H3 (search (length e) (fun i => Z.ltb v (nthv e i)) + i)%nat ltac:(lia)).
    rewrite (nthv_lookup _ _ _ Hi) in H3.
    by apply Z.ltb_lt in H3.
Qed.

Lemma bounds_le v e : vsorted e -> (lower_bound v e <= upper_bound v e)%nat.
Proof.
  intros Hs. destruct (lower_bound_spec v e Hs) as (Hl1 & Hl2 & Hl3).
  destruct (upper_bound_spec v e Hs) as (Hu1 & Hu2 & Hu3).
  destruct (decide (lower_bound v e <= upper_bound v e)%nat) as [|Hgt]; [done|].
  destruct (lookup_lt_is_Some_2 e (upper_bound v e)) as [p Hp]; [lia|].
  assert (p.1 < v).
  { apply Hl2. apply elem_of_list_lookup. exists (upper_bound v e).
    apply lookup_take_Some. split; [done|lia]. }
  assert (v < p.1).
  { apply Hu3. apply elem_of_list_lookup. exists 0%nat. rewrite lookup_drop.
    by rewrite Nat.add_0_r. }
  lia.
Qed.

(* the three-way split  < v | = v | > v *)
Definition mid v e := take (upper_bound v e - lower_bound v e) (drop (lower_bound v e) e).
Lemma split3 v e :
  vsorted e ->
  e = take (lower_bound v e) e ++ mid v e ++ drop (upper_bound v e) e /\
  (forall p, p ∈ take (lower_bound v e) e -> p.1 < v) /\
  (forall p, p ∈ mid v e -> p.1 = v) /\
  (forall p, p ∈ drop (upper_bound v e) e -> v < p.1).
Proof.
  intros Hs. pose proof (bounds_le v e Hs) as Hle.
  destruct (lower_bound_spec v e Hs) as (Hl1 & Hl2 & Hl3).
  destruct (upper_bound_spec v e Hs) as (Hu1 & Hu2 & Hu3).
  split; [|split; [done|split; [|done]]].
  - unfold mid.
    rewrite <- (take_drop (lower_bound v e) e) at 1. f_equal.
    rewrite <- (take_drop (upper_bound v e - lower_bound v e) (drop (lower_bound v e) e)) at 1.
    f_equal. rewrite drop_drop. f_equal. lia.
  - intros p Hp. unfold mid in Hp.
    assert (Hd : p ∈ drop (lower_bound v e) e).
    { apply elem_of_list_lookup in Hp as [i Hi]. apply lookup_take_Some in Hi as [Hi _].
      by eapply elem_of_list_lookup_2. }
    assert (Ht : p ∈ take (upper_bound v e) e).
    { rewrite take_drop_commute in Hp.
      replace (lower_bound v e + (upper_bound v e - lower_bound v e))%nat with (upper_bound v e) in Hp by lia.
      apply elem_of_list_lookup in Hp as [i Hi]. rewrite lookup_drop in Hi.
      by eapply elem_of_list_lookup_2. }
    specialize (Hl3 _ Hd). specialize (Hu2 _ Ht). lia.
Qed.

(* ---- remove_first_key ---- *)
Lemma elem_of_remove_first_key k x l :
  NoDup (map snd l) -> x ∈ remove_first_key k l <-> x ∈ l /\ x.2 ≠ k.
Proof.
  induction l as [|y t IH]; simpl; intros Hnd.
  - rewrite elem_of_nil. naive_solver.
  - apply NoDup_cons in Hnd as [Hy Hnd].
    destruct (decide (y.2 = k)) as [E|Hne].
    + split.
      * intros Hx. split; [by right|]. intros Hk. apply Hy.
        rewrite E, <- Hk. apply elem_of_list_fmap. by exists x.
      * intros [Hx Hxk]. apply elem_of_cons in Hx as [->|Hx]; done.
    + rewrite elem_of_cons, IH by done. rewrite elem_of_cons. naive_solver.
Qed.
Lemma remove_first_key_nodup k l : NoDup (map snd l) -> NoDup (map snd (remove_first_key k l)).
Proof.
  induction l as [|y t IH]; simpl; intros Hnd; [constructor|].
  apply NoDup_cons in Hnd as [Hy Hnd].
  destruct (decide (y.2 = k)); [done|]. simpl. apply NoDup_cons. split; [|by apply IH].
  intros Hin. apply Hy. apply elem_of_list_fmap in Hin as (z & -> & Hz).
  apply elem_of_remove_first_key in Hz as [Hz _]; [|done]. apply elem_of_list_fmap. by exists z.
Qed.

Lemma vsorted_const v l : (forall p, p ∈ l -> p.1 = v) -> vsorted l.
Proof.
  induction l as [|a t IH]; simpl; intros H; [done|]. split.
  - intros b Hb. unfold vleb. apply Z.leb_le.
    rewrite (H a) by (by left). rewrite (H b) by (by right). lia.
  - apply IH. intros p Hp. apply H. by right.
Qed.

(* ---- put ---- *)
Lemma s_put_elem k v e x : x ∈ s_put k v e <-> x = (v, k) \/ x ∈ e.
Proof.
  unfold s_put, insert_at. rewrite elem_of_app, elem_of_cons.
  assert (H : x ∈ e <-> x ∈ take (upper_bound v e) e \/ x ∈ drop (upper_bound v e) e)
    by (by rewrite <- elem_of_app, take_drop).
  rewrite H. naive_solver.
Qed.
Lemma s_put_sorted k v e : vsorted e -> vsorted (s_put k v e).
Proof.
  intros Hs. destruct (upper_bound_spec v e Hs) as (_ & Hu2 & Hu3).
  unfold s_put, insert_at.
  rewrite <- (take_drop (upper_bound v e) e) in Hs.
  apply lsorted_app in Hs as (H1 & H2 & H3).
  apply lsorted_app. split; [done|]. split.
  - simpl. split; [|done]. intros b Hb. unfold vleb. simpl. apply Z.leb_le.
    specialize (Hu3 _ Hb). lia.
  - intros a b Ha Hb. apply elem_of_cons in Hb as [->|Hb]; [|by apply H3].
    unfold vleb. simpl. apply Z.leb_le. by apply Hu2.
Qed.
Lemma s_put_keys k v e : map snd (s_put k v e) ≡ₚ k :: map snd e.
Proof.
  unfold s_put, insert_at. rewrite map_app. simpl.
  rewrite <- Permutation_middle. rewrite <- map_app, take_drop. done.
Qed.

(* ---- remove ---- *)
Lemma s_remove_spec k v e :
  vsorted e -> NoDup (map snd e) -> (v, k) ∈ e ->
  vsorted (s_remove k v e) /\ NoDup (map snd (s_remove k v e)) /\
  forall x, x ∈ s_remove k v e <-> x ∈ e /\ x.2 ≠ k.
Proof.
  intros Hs Hnd Hin. destruct (split3 v e Hs) as (He & HL & HM & HR).
  pose proof (bounds_le v e Hs) as Hle.
  assert (HinM : (v, k) ∈ mid v e).
  { rewrite He in Hin. apply elem_of_app in Hin as [H|H]; [specialize (HL _ H); simpl in HL; lia|].
    apply elem_of_app in H as [H|H]; [done|]. specialize (HR _ H); simpl in HR; lia. }
  unfold s_remove.
  destruct (upper_bound v e <=? lower_bound v e)%nat eqn:E.
  { apply Nat.leb_le in E. unfold mid in HinM.
    replace (upper_bound v e - lower_bound v e)%nat with 0%nat in HinM by lia.
    rewrite take_0 in HinM. by apply elem_of_nil in HinM. }
  fold (mid v e).
  assert (Hxe : forall x, x ∈ e <-> x ∈ take (lower_bound v e) e \/ x ∈ mid v e \/ x ∈ drop (upper_bound v e) e).
  { intros x. rewrite He at 1. by rewrite !elem_of_app. }
  rewrite He in Hnd, Hs. rewrite !map_app in Hnd.
  apply NoDup_app in Hnd as (N1 & N12 & N23). apply NoDup_app in N23 as (N2 & N23 & N3).
  apply lsorted_app in Hs as (S1 & S23 & S1x). apply lsorted_app in S23 as (S2 & S3 & S23).
  assert (Hsub : forall x, x ∈ remove_first_key k (mid v e) <-> x ∈ mid v e /\ x.2 ≠ k)
    by (intros x; by apply elem_of_remove_first_key).
  split; [|split].
  - apply lsorted_app. split; [done|]. split.
    + apply lsorted_app. split; [|split; [done|]].
      * apply (vsorted_const v). intros p Hp. apply HM. by apply Hsub in Hp as [? _].
      * intros a b Ha Hb. apply S23; [by apply Hsub in Ha as [? _]|done].
    + intros a b Ha Hb. apply S1x; [done|].
      apply elem_of_app in Hb as [Hb|Hb]; apply elem_of_app; [left; by apply Hsub in Hb as [? _]|by right].
  - rewrite !map_app. apply NoDup_app. split; [done|]. split.
    + intros x Hx Hx'. apply (N12 x Hx). apply elem_of_app in Hx' as [Hx'|Hx']; apply elem_of_app; [left|by right].
      apply elem_of_list_fmap in Hx' as (y & -> & Hy). apply elem_of_list_fmap. exists y.
      split; [done|]. by apply Hsub in Hy as [? _].
    + apply NoDup_app. split; [|split; [|done]].
      * by apply remove_first_key_nodup.
      * intros x Hx. apply N23. apply elem_of_list_fmap in Hx as (y & -> & Hy).
        apply elem_of_list_fmap. exists y. split; [done|]. by apply Hsub in Hy as [? _].
  - intros x. rewrite Hxe. rewrite !elem_of_app, Hsub. split.
    + intros [H|[[H1 H2]|H]].
      * split; [by left|]. intros Hk. apply (N12 x.2); [apply elem_of_list_fmap; by exists x|].
        apply elem_of_app. left. rewrite Hk. apply elem_of_list_fmap. by exists (v, k).
      * split; [right; by left|done].
      * split; [right; by right|]. intros Hk. apply (N23 x.2); [|apply elem_of_list_fmap; by exists x].
        rewrite Hk. apply elem_of_list_fmap. by exists (v, k).
    + intros [[H|[H|H]] Hk]; [by left|right; left; by split|right; by right].
Qed.

(* ---- the invariant ---- *)
Record s_wf (s : sidx) : Prop := {
  swf_sorted : vsorted (s_ents s);
  swf_nodup : NoDup (map snd (s_ents s));
  swf_iff : forall v k, (v, k) ∈ s_ents s <-> s_rev s !! k = Some v
}.

Lemma s_wf_empty : s_wf s_empty.
Proof.
  split; simpl; [done|constructor|].
  intros v k. rewrite elem_of_nil, lookup_empty. naive_solver.
Qed.

Lemma s_rev_set k v s : s_rev (s_set k v s) = <[k := v]> (s_rev s).
Proof.
  unfold s_set. destruct (s_rev s !! k) as [old|] eqn:E; [|done].
  destruct (decide (old = v)) as [->|]; [|done]. by rewrite insert_id.
Qed.
Lemma s_rev_del k s : s_rev (s_del k s) = delete k (s_rev s).
Proof.
  unfold s_del. destruct (s_rev s !! k) eqn:E; [done|]. by rewrite delete_notin.
Qed.

Lemma s_put_wf_aux k v e (r : gmap N Z) :
  vsorted e -> NoDup (map snd e) -> (forall w k', (w, k') ∈ e <-> r !! k' = Some w) ->
  r !! k = None ->
  vsorted (s_put k v e) /\ NoDup (map snd (s_put k v e)) /\
  forall w k', (w, k') ∈ s_put k v e <-> <[k := v]> r !! k' = Some w.
Proof.
  intros Hs Hnd Hiff Hk. split; [by apply s_put_sorted|]. split.
  - rewrite s_put_keys. apply NoDup_cons. split; [|done].
    intros Hin. apply elem_of_list_fmap in Hin as ([w k'] & E & Hin). simpl in E. subst k'.
    apply Hiff in Hin. congruence.
  - intros w k'. rewrite s_put_elem, Hiff.
    destruct (decide (k' = k)) as [->|Hne].
    + rewrite lookup_insert, Hk. naive_solver.
    + rewrite lookup_insert_ne by done. naive_solver.
Qed.

Lemma s_set_wf k v s : s_wf s -> s_wf (s_set k v s).
Proof.
  intros [Hs Hnd Hiff]. unfold s_set.
  destruct (s_rev s !! k) as [old|] eqn:E.
  - destruct (decide (old = v)) as [->|Hov]; [by split|].
    destruct (s_remove_spec k old (s_ents s) Hs Hnd) as (Hs' & Hnd' & Hel); [by apply Hiff|].
    destruct (s_put_wf_aux k v (s_remove k old (s_ents s)) (delete k (s_rev s)) Hs' Hnd')
      as (H1 & H2 & H3).
    + intros w k'. rewrite Hel, Hiff. simpl.
      destruct (decide (k' = k)) as [->|Hne].
      * rewrite lookup_delete. naive_solver.
      * rewrite lookup_delete_ne by done. naive_solver.
    + apply lookup_delete.
    + split; simpl; [done|done|]. intros w k'. rewrite H3. by rewrite insert_delete_insert.
  - destruct (s_put_wf_aux k v (s_ents s) (s_rev s) Hs Hnd Hiff E) as (H1 & H2 & H3).
    by split.
Qed.

Lemma s_del_wf k s : s_wf s -> s_wf (s_del k s).
Proof.
  intros [Hs Hnd Hiff]. unfold s_del.
  destruct (s_rev s !! k) as [old|] eqn:E; [|by split].
  destruct (s_remove_spec k old (s_ents s) Hs Hnd) as (Hs' & Hnd' & Hel); [by apply Hiff|].
  split; simpl; [done|done|].
  intros w k'. rewrite Hel, Hiff. simpl.
  destruct (decide (k' = k)) as [->|Hne].
  - rewrite lookup_delete. naive_solver.
  - rewrite lookup_delete_ne by done. naive_solver.
Qed.

(* ---- get ---- *)
Lemma s_get1_spec s v k : s_wf s -> k ∈ s_get1 v s <-> s_rev s !! k = Some v.
Proof.
  intros [Hs Hnd Hiff]. rewrite <- Hiff. unfold s_get1. fold (mid v (s_ents s)).
  destruct (split3 v (s_ents s) Hs) as (He & HL & HM & HR).
  rewrite elem_of_list_fmap. split.
  - intros ([w k'] & -> & Hp). simpl. specialize (HM _ Hp) as Hw. simpl in Hw. subst w.
    rewrite He. apply elem_of_app. right. apply elem_of_app. by left.
  - intros Hin. exists (v, k). split; [done|].
    rewrite He in Hin. apply elem_of_app in Hin as [H|H]; [specialize (HL _ H); simpl in HL; lia|].
    apply elem_of_app in H as [H|H]; [done|]. specialize (HR _ H); simpl in HR; lia.
Qed.
Lemma s_get1_nodup s v : s_wf s -> NoDup (s_get1 v s).
Proof.
  intros [Hs Hnd Hiff]. unfold s_get1. fold (mid v (s_ents s)).
  destruct (split3 v (s_ents s) Hs) as (He & _).
  rewrite He, !map_app in Hnd. apply NoDup_app in Hnd as (_ & _ & Hnd).
  by apply NoDup_app in Hnd as (? & _ & _).
Qed.

(* histories of committed-state mutations *)
Inductive smut := SPut (k : N) (v : Z) | SDel (k : N).
Definition s_apply (s : sidx) (m : smut) : sidx :=
  match m with SPut k v => s_set k v s | SDel k => s_del k s end.
Lemma s_history_wf ms : forall s, s_wf s -> s_wf (fold_left s_apply ms s).
Proof.
  induction ms as [|m ms IH]; simpl; intros s H; [done|].
  apply IH. destruct m; simpl; [by apply s_set_wf|by apply s_del_wf].
Qed.

(* ---- ordered walk ---- *)
(* the entries an ordered walk visits, in visiting order, before the limit is applied *)
Definition walk_full (desc : bool) (cursor : option Z) (e : list (Z * N)) : list (Z * N) :=
  if desc then rev (take (match cursor with None => length e | Some c => lower_bound c e end) e)
  else drop (match cursor with None => O | Some c => upper_bound c e end) e.
Definition past_cursor (desc : bool) (cursor : option Z) (v : Z) : Prop :=
  match cursor with
  | None => True
  | Some c => if desc then v < c else c < v
  end.

Lemma s_walk_full desc cursor limit s :
  s_walk desc cursor limit s = lim_take limit (map snd (walk_full desc cursor (s_ents s))).
Proof.
  unfold s_walk, walk_full. destruct (s_ents s) as [|a t] eqn:E.
  - destruct desc, cursor; simpl; rewrite ?take_nil, ?drop_nil; by destruct limit.
  - cbv zeta. by destruct desc.
Qed.

Lemma elem_of_split_at {A} (x : A) n l : x ∈ l <-> x ∈ take n l \/ x ∈ drop n l.
Proof. by rewrite <- elem_of_app, take_drop. Qed.
Lemma walk_full_elem desc cursor e p :
  vsorted e -> p ∈ walk_full desc cursor e <-> p ∈ e /\ past_cursor desc cursor p.1.
Proof.
  intros Hs. unfold walk_full, past_cursor. destruct desc, cursor as [c|].
  - rewrite elem_of_rev. destruct (lower_bound_spec c e Hs) as (_ & H2 & H3).
    rewrite (elem_of_split_at p (lower_bound c e) e). split.
    + intros H. split; [by left|by apply H2].
    + intros [[H|H] Hc]; [done|]. specialize (H3 _ H). lia.
  - rewrite elem_of_rev, firstn_all. naive_solver.
  - destruct (upper_bound_spec c e Hs) as (_ & H2 & H3).
    rewrite (elem_of_split_at p (upper_bound c e) e). split.
    + intros H. split; [by right|by apply H3].
    + intros [[H|H] Hc]; [|done]. specialize (H2 _ H). lia.
  - rewrite drop_0. naive_solver.
Qed.

(* visiting order is ascending (descending) in the indexed value *)
Definition dir_leb (desc : bool) (a b : Z * N) : bool := if desc then vleb b a else vleb a b.
Lemma lsorted_rev_flip e : vsorted e -> lsorted (fun a b => vleb b a) (rev e).
Proof.
  induction e as [|a t IH]; simpl; intros Hs; [done|]. destruct Hs as [Ha Hs].
  apply lsorted_app. split; [by apply IH|]. split.
  { simpl. split; [|done]. intros b Hb. by apply elem_of_nil in Hb. }
  intros x y Hx Hy. apply elem_of_list_singleton in Hy. subst y. apply Ha. by apply elem_of_rev.
Qed.
Lemma walk_full_sorted desc cursor e :
  vsorted e -> lsorted (dir_leb desc) (walk_full desc cursor e).
Proof.
  intros Hs. unfold walk_full, dir_leb. destruct desc.
  - apply lsorted_rev_flip.
    rewrite <- (take_drop (match cursor with Some c => lower_bound c e | None => length e end) e) in Hs.
    by apply lsorted_app in Hs as (? & _).
  - rewrite <- (take_drop (match cursor with Some c => upper_bound c e | None => 0%nat end) e) in Hs.
    by apply lsorted_app in Hs as (_ & ? & _).
Qed.
Lemma walk_full_nodup desc cursor e :
  NoDup (map snd e) -> NoDup (map snd (walk_full desc cursor e)).
Proof.
  intros Hnd. unfold walk_full. destruct desc.
  - rewrite map_rev. apply NoDup_rev'.
    rewrite <- (take_drop (match cursor with Some c => lower_bound c e | None => length e end) e), map_app in Hnd.
    by apply NoDup_app in Hnd as (? & _).
  - rewrite <- (take_drop (match cursor with Some c => upper_bound c e | None => 0%nat end) e), map_app in Hnd.
    by apply NoDup_app in Hnd as (_ & _ & ?).
Qed.
