(* Core/RbacProofs.v — Enforce = the property's formula, for every well-formed configuration,
   and the well-formedness is kept by every history of role / policy / assignment changes. *)
From stdpp Require Import gmap relations.
From Coq Require Import NArith.
From Synnax Require Import Core.Ontology Core.OntologyStr Core.OntologyProofs Core.Rbac.
Local Open Scope N_scope.

Global Instance has_dec st i : Decision (has st i).
Proof. unfold has. apply _. Defined.

(* ---- allowRequest is the forall-exists formula ---- *)
Definition covers_p (po o : id) : Prop :=
  (is_type po = true /\ id_type po = id_type o) \/ (is_type po = false /\ po = o).

Lemma covers_spec po o : covers po o = true <-> covers_p po o.
Proof.
  unfold covers, covers_p. destruct (is_type po); rewrite bool_decide_eq_true; split.
  - intros H; left; auto.
  - intros [[_ H]|[H _]]; [auto|discriminate].
  - intros H; right; auto.
  - intros [[H _]|[_ H]]; [discriminate|auto].
Qed.

Definition grants_p (act : str) (o : id) (p : policy) : Prop :=
  act ∈ p_acts p /\ exists po, po ∈ p_objs p /\ covers_p po o.

Lemma grants_spec act o p : grants act o p = true <-> grants_p act o p.
Proof.
  unfold grants, grants_p. rewrite andb_true_iff, !existsb_exists. split.
  - intros [(a & Ha & E) (po & Hpo & Hc)]. apply bool_decide_eq_true in E. subst a. split.
    + apply elem_of_list_In, Ha.
    + exists po. split; [apply elem_of_list_In, Hpo|apply covers_spec, Hc].
  - intros [Ha (po & Hpo & Hc)]. split.
    + exists act. split; [apply elem_of_list_In, Ha|apply bool_decide_eq_true; auto].
    + exists po. split; [apply elem_of_list_In, Hpo|apply covers_spec, Hc].
Qed.

Lemma allow_request_spec act objs ps :
  allow_request act objs ps = true <->
  forall o, o ∈ objs -> exists p, p ∈ ps /\ grants_p act o p.
Proof.
  unfold allow_request. rewrite forallb_forall. split.
  - intros H o Ho. apply elem_of_list_In in Ho. apply H in Ho. apply existsb_exists in Ho as (p & Hp & Hg).
    exists p. split; [apply elem_of_list_In, Hp|apply grants_spec, Hg].
  - intros H o Ho. apply elem_of_list_In in Ho. destruct (H o Ho) as (p & Hp & Hg).
    apply existsb_exists. exists p. split; [apply elem_of_list_In, Hp|apply grants_spec, Hg].
Qed.

(* ---- resolving a subject ---- *)
Definition role_of (st : rst) (s r : id) : Prop :=
  pedge (r_ont st) r s /\ is_prefix s_role (id_str r) = true.
Definition pol_of (st : rst) (r c : id) : Prop :=
  pedge (r_ont st) r c /\ is_prefix s_policy (id_str c) = true /\ pol_live st c = true.

Lemma elem_of_filter_type ty ids i :
  i ∈ filter_type ty ids <-> i ∈ ids /\ is_prefix ty (id_str i) = true.
Proof. unfold filter_type. rewrite elem_of_list_filter. tauto. Qed.

Lemma resolve_subject_ok st s :
  wf (r_ont st) -> has (r_ont st) s ->
  exists keys, resolve_subject st s = Ok keys /\
    forall k, k ∈ keys <-> exists r c, role_of st s r /\ pol_of st r c /\ k = id_key c.
Proof.
  intros Hwf Hs. unfold resolve_subject.
  rewrite (retrieve_resources_ok (r_ont st) [s]) by (constructor; auto).
  destruct (traverse_ok (r_ont st) TParents [s] Hwf) as (ps & -> & Hps & Hpsh); [constructor; auto|].
  rewrite (retrieve_resources_ok (r_ont st) ps Hpsh).
  assert (Hrs : forall r, r ∈ filter_type s_role ps <-> role_of st s r).
  { intros r. rewrite elem_of_filter_type, Hps. unfold role_of. simpl. split.
    - intros [(i & Hi & Hp) Hpre]. apply elem_of_list_singleton in Hi. subst. auto.
    - intros [Hp Hpre]. split; [|auto]. exists s. split; [left|auto]. }
  assert (Hrsh : Forall (has (r_ont st)) (filter_type s_role ps)).
  { apply Forall_forall. intros r Hr. apply elem_of_filter_type in Hr as [Hr _].
    rewrite Forall_forall in Hpsh. auto. }
  destruct (filter_type s_role ps) as [|r0 rs] eqn:Efr.
  { exists []. split; [auto|]. intros k. split; [intros H; inversion H|].
    intros (r & c & Hr & _). apply Hrs in Hr. inversion Hr. }
  destruct (traverse_ok (r_ont st) TChildren (r0 :: rs) Hwf Hrsh) as (cs & -> & Hcs & Hcsh).
  rewrite (retrieve_resources_ok (r_ont st) cs Hcsh).
  eexists. split; [reflexivity|]. intros k. rewrite elem_of_list_fmap. split.
  - intros (c & -> & Hc). apply elem_of_list_filter in Hc as [Hlive Hc].
    apply elem_of_filter_type in Hc as [Hc Hpre]. apply Hcs in Hc as (r & Hr & Hp). simpl in Hp.
    exists r, c. split; [apply Hrs, Hr|]. split; [|auto]. split; auto.
  - intros (r & c & Hr & (Hp & Hpre & Hlive) & ->). exists c. split; [auto|].
    apply elem_of_list_filter. split; [auto|]. apply elem_of_filter_type. split; [|auto].
    apply Hcs. exists r. split; [apply Hrs, Hr|exact Hp].
Qed.

Lemma resolve_subject_missing st s :
  wf (r_ont st) -> good_id s -> ~ has (r_ont st) s -> resolve_subject st s = Err ENotFound.
Proof.
  intros Hwf Hg Hn. unfold resolve_subject.
  rewrite (retrieve_resources_missing (r_ont st) [s] Hwf); [auto|constructor; auto|].
  intros H. apply Forall_cons in H as [H _]. contradiction.
Qed.

Lemma retrieve_policies_ok st s :
  wf (r_ont st) -> has (r_ont st) s ->
  exists l, retrieve_policies st s = Ok l /\
    forall p, p ∈ (snd <$> l) <->
      exists r c, role_of st s r /\ pol_of st r c /\ r_pols st !! id_key c = Some p.
Proof.
  intros Hwf Hs. unfold retrieve_policies.
  destruct (resolve_subject_ok st s Hwf Hs) as (keys & -> & Hkeys).
  destruct (mapM (fun k => (fun p => (k, p)) <$> r_pols st !! k) keys) as [l|] eqn:E.
  - exists l. split; [auto|]. apply mapM_Some in E. intros p. rewrite elem_of_list_fmap. split.
    + intros ([k p'] & -> & Hin). simpl.
      destruct (elem_of_list_lookup_1 _ _ Hin) as [n Hn].
      destruct (Forall2_lookup_r _ _ _ _ _ E Hn) as (k' & Hk' & Hf).
      destruct (r_pols st !! k') as [p''|] eqn:Ep; [|discriminate]. simpl in Hf.
      injection Hf as <- <-.
      apply elem_of_list_lookup_2, Hkeys in Hk' as (r & c & Hr & Hc & ->). eauto.
    + intros (r & c & Hr & Hc & Hp).
      assert (Hk : id_key c ∈ keys) by (apply Hkeys; eauto).
      destruct (elem_of_list_lookup_1 _ _ Hk) as [n Hn].
      destruct (Forall2_lookup_l _ _ _ _ _ E Hn) as (kp & Hkp & Hf).
      rewrite Hp in Hf. simpl in Hf. injection Hf as <-.
      exists (id_key c, p). split; [auto|]. eapply elem_of_list_lookup_2; eauto.
  - exfalso. assert (is_Some (mapM (fun k => (fun p => (k, p)) <$> r_pols st !! k) keys)); [|rewrite E in H; destruct H; discriminate].
    apply mapM_is_Some. apply Forall_forall. intros k Hk.
    apply Hkeys in Hk as (r & c & _ & (_ & _ & Hlive) & ->). unfold pol_live in Hlive. simpl.
    destruct (r_pols st !! id_key c); [eauto|discriminate].
Qed.

(* the property's formula on a model configuration *)
Definition permitted (st : rst) (s : id) (act : str) (objs : list id) : Prop :=
  has (r_ont st) s /\
  forall o, o ∈ objs ->
    exists r c p, role_of st s r /\ pol_of st r c /\ r_pols st !! id_key c = Some p /\ grants_p act o p.

Lemma enforce_spec st s act objs :
  wf (r_ont st) -> good_id s ->
  (enforce st s act objs = Allow <-> permitted st s act objs) /\
  (has (r_ont st) s -> enforce st s act objs = Allow \/ enforce st s act objs = Deny) /\
  (~ has (r_ont st) s -> enforce st s act objs = Fail ENotFound).
Proof.
  intros Hwf Hg. unfold enforce.
  destruct (decide (has (r_ont st) s)) as [Hs|Hn].
  - destruct (retrieve_policies_ok st s Hwf Hs) as (l & -> & Hl).
    destruct (allow_request act objs (snd <$> l)) eqn:E.
    + split; [|split; [auto|intros; contradiction]]. split; [|auto]. intros _. split; [auto|].
      intros o Ho. pose proof (proj1 (allow_request_spec act objs (snd <$> l)) E o Ho) as (p & Hp & Hgr).
      apply Hl in Hp as (r & c & Hr & Hc & Hp). eauto 8.
    + split; [|split; [auto|intros; contradiction]]. split; [discriminate|].
      intros [_ H]. assert (allow_request act objs (snd <$> l) = true); [|congruence].
      apply allow_request_spec. intros o Ho. destruct (H o Ho) as (r & c & p & Hr & Hc & Hp & Hgr).
      exists p. split; [apply Hl; eauto|auto].
  - unfold retrieve_policies. rewrite (resolve_subject_missing st s Hwf Hg Hn).
    split; [|split; [intros; contradiction|auto]]. split; [discriminate|]. intros [H _]. contradiction.
Qed.
