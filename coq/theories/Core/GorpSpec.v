(* Core/GorpSpec.v — the abstract specification C17 is stated against: a table plus, per open
   transaction, a write set. No index, no delta, no filter machinery: a query is the list of
   rows of the reader's view that satisfy the filter's denotation [holds].
   A reader's view is the committed table overlaid with the reader's own uncommitted writes
   (read-committed + read-your-own-writes, the semantics of the kv layer under gorp).
   No proofs in this file. *)
From stdpp Require Import gmap.
From Coq Require Import NArith ZArith List.
From Synnax Require Import Core.Gorp.
Import ListNotations.
Local Open Scope Z_scope.

Notation wset := (gmap N (option row)).

Definition ov_apply (w : wset) (m : table) : table :=
  merge (fun wo ro => match wo with Some x => x | None => ro end) w m.

Record sst := SSt { sp_rows : table; sp_txs : gmap nat wset }.

Definition sp_view (s : sst) (t : nat) : table :=
  match t with
  | O => sp_rows s
  | _ => ov_apply (default ∅ (sp_txs s !! t)) (sp_rows s)
  end.
Definition sp_open (s : sst) (t : nat) : bool :=
  match t with O => true | _ => bool_decide (is_Some (sp_txs s !! t)) end.

(* the answer to every query form: rows of the view satisfying the predicate, in key order *)
Definition sp_select (s : sst) (t : nat) (p : row -> bool) : list row :=
  List.filter p (sorted_rows (sp_view s t)).

Definition sp_write (t : nat) (k : N) (w : option row) (s : sst) : sst :=
  match t with
  | O => SSt (match w with Some r => <[k := r]> (sp_rows s) | None => delete k (sp_rows s) end) (sp_txs s)
  | _ => SSt (sp_rows s) (<[t := <[k := w]> (default ∅ (sp_txs s !! t))]> (sp_txs s))
  end.

Definition sp_commit (t : nat) (s : sst) : sst :=
  SSt (ov_apply (default ∅ (sp_txs s !! t)) (sp_rows s)) (delete t (sp_txs s)).

Definition sp_step (s : sst) (o : op) : sst :=
  match o with
  | Begin t =>
      match t with
      | O => s
      | _ => if sp_open s t then s else SSt (sp_rows s) (<[t := ∅]> (sp_txs s))
      end
  | Create t rs =>
      if sp_open s t then fold_left (fun acc r => sp_write t (rk r) (Some r) acc) rs s else s
  | UpdateK t k a b c =>
      if sp_open s t then
        match sp_view s t !! k with
        | Some r => sp_write t k (Some (upd a b c r)) s
        | None => s
        end
      else s
  | UpdateF t f a b c =>
      if sp_open s t
      then fold_left (fun acc r => sp_write t (rk r) (Some (upd a b c r)) acc) (sp_select s t (holds f)) s
      else s
  | DeleteK t ks =>
      if sp_open s t
      then fold_left (fun acc k => match sp_view s t !! k with
                                   | Some _ => sp_write t k None acc
                                   | None => acc end) ks s
      else s
  | DeleteF t f =>
      if sp_open s t
      then fold_left (fun acc r => sp_write t (rk r) None acc) (sp_select s t (holds f)) s
      else s
  | Query _ _ | OQuery _ _ _ _ _ | Get _ _ _ => s
  | Commit t =>
      match t with
      | O => s
      | _ => if sp_open s t then sp_commit t s else s
      end
  | Commit2 t u =>
      match t, u with
      | O, _ | _, O => s
      | _, _ => if sp_open s t && sp_open s u && negb (Nat.eqb t u)
                then sp_commit u (sp_commit t s) else s
      end
  | Abort t | CommitFail t =>   (* a failed commit leaves everything as before begin *)
      match t with
      | O => s
      | _ => SSt (sp_rows s) (delete t (sp_txs s))
      end
  | Reopen | ReopenFault _ => SSt (sp_rows s) ∅
  | Repl b => SSt (apply_batch b (sp_rows s)) (sp_txs s)
  end.

Fixpoint sp_run (s : sst) (ops : list op) : sst :=
  match ops with
  | [] => s
  | o :: tl => sp_run (sp_step s o) tl
  end.

Definition sp_init (seed : list row) : sst :=
  SSt (list_to_map (map (fun r => (rk r, r)) (rev seed))) ∅.

(* keys of the rows of a table whose indexed column equals v, ascending *)
Definition keys_with (i : iid) (v : Z) (m : table) : list N :=
  map rk (List.filter (fun r => Z.eqb (ext i r) v) (sorted_rows m)).

(* syntactic classes of filter trees *)
Fixpoint has_idx (f : ftree) : bool :=
  match f with
  | FIdx _ _ => true
  | FAnd fs | FOr fs => existsb has_idx fs
  | FNot c => has_idx c
  | _ => false
  end.
Fixpoint nodupZ (l : list Z) : bool :=
  match l with [] => true | x :: t => negb (inZ x t) && nodupZ t end.
Fixpoint nodupN (l : list N) : bool :=
  match l with [] => true | x :: t => negb (inN x t) && nodupN t end.
(* every idx.Filter(values...) leaf lists pairwise distinct values *)
Fixpoint nodup_vals (f : ftree) : bool :=
  match f with
  | FIdx _ vs => nodupZ vs
  | FAnd fs | FOr fs => forallb nodup_vals fs
  | FNot c => nodup_vals c
  | _ => true
  end.
(* every MatchKeys(keys...) leaf lists pairwise distinct keys (a key requested twice is
   fetched twice: the caller's multiset, not the index's doing) *)
Fixpoint nodup_keys (f : ftree) : bool :=
  match f with
  | FKeys ks => nodupN ks
  | FAnd fs | FOr fs => forallb nodup_keys fs
  | FNot c => nodup_keys c
  | _ => true
  end.
