(* Core/ChannelConsCreate.v — a successful create without the overwrite option keeps
   metadata = engines. *)
From stdpp Require Import gmap strings sorting.
From Coq Require Import NArith Lia.
From Synnax Require Import Generated.Consts_C15 Core.Channel Core.ChannelKeys Core.ChannelAssign Core.ChannelInv
  Core.ChannelShrink Core.ChannelCreate Core.ChannelHistory Core.ChannelCons.
Local Open Scope N_scope.
Notation length := List.length.

Lemma tab_insert_spec : forall (l : list chan) (t : table),
  NoDup (chan_key <$> l) ->
  (forall c, c ∈ l -> tab_insert t l !! chan_key c = Some c) /\
  (forall k, k ∉ (chan_key <$> l) -> tab_insert t l !! k = t !! k).
Proof.
  unfold tab_insert. induction l as [|x l IH]; intros t Hnd; cbn [foldl fmap list_fmap].
  - split; [intros c H; inversion H|reflexivity].
  - cbn [fmap list_fmap] in Hnd. apply NoDup_cons in Hnd as [Hx Hnd].
    destruct (IH (<[chan_key x := x]> t) Hnd) as [A B]. split.
    + intros c Hc. apply elem_of_cons in Hc as [Heq|Hc]; [|apply A, Hc]. subst c.
      rewrite (B (chan_key x) Hx). apply lookup_insert.
    + intros k Hk. rewrite B.
      * apply lookup_insert_ne. intros Heq. apply Hk. rewrite <- Heq. left.
      * intros H. apply Hk. right. exact H.
Qed.

(* a state that differs from a consistent one only in rows of free channels is consistent *)
Lemma Cons_free_rows s s' :
  Inv s -> Cons s ->
  (forall n, eng_of s' n = eng_of s n) ->
  (forall k, leaseholder k <> node_free -> s_tab s' !! k = s_tab s !! k) ->
  (forall k c, s_tab s' !! k = Some c -> leaseholder k = node_free -> c_lease c = node_free) ->
  Cons s'.
Proof.
  intros I C He Ht Hf. constructor.
  - intros k c Hk Hl. rewrite He.
    destruct (decide (leaseholder k = node_free)) as [Ef|Nf]; [exfalso; apply Hl, (Hf k c Hk Ef)|].
    rewrite Ht in Hk by exact Nf. apply (cons_tab _ C k c Hk Hl).
  - intros n k e Hk. rewrite He in Hk. destruct (cons_eng _ C n k e Hk) as (c & Hc & Hl & Hs).
    exists c. split; [|auto]. rewrite Ht; [exact Hc|].
    assert (Hk' : is_Some (eng_of s n !! k)) by (exists e; exact Hk).
    destruct (Inv_engine_lease s n k I Hk') as [-> Hnode]. destruct (inv_nodes _ I n Hnode). lia.
Qed.

Lemma new_key_pos lease lkey : lease <= node_free -> lkey <= max_local -> 0 < lkey -> 0 < new_key lease lkey.
Proof.
  intros Hl Hk Hp. rewrite new_key_val by assumption. pose proof pow_shift_pos. nia.
Qed.

(* what cesium stores for a freshly keyed channel is [stored] *)
Lemma ts_norm_stored c :
  c_lease c <= node_free -> c_lkey c <= max_local -> 0 < c_lkey c ->
  (c_isidx c = true -> c_lidx c = c_lkey c) ->
  ts_valid (chan_key c) (to_echan c) = true -> ts_norm (chan_key c) (to_echan c) = stored c.
Proof.
  intros Hl Hk Hp Hidx Hv. unfold ts_norm, stored, to_echan. cbn [e_name e_dt e_isidx e_index e_virt].
  unfold ts_valid, to_echan in Hv. cbn [e_name e_dt e_isidx e_index e_virt] in Hv.
  destruct (c_virt c) eqn:Ev.
  - destruct (c_isidx c) eqn:Ei; [|reflexivity]. exfalso.
    apply andb_true_iff in Hv as [_ Hv]. apply N.eqb_eq in Hv.
    unfold chan_index in Hv. rewrite (Hidx eq_refl) in Hv.
    destruct (c_lkey c =? 0) eqn:E0; [apply N.eqb_eq in E0; lia|].
    pose proof (new_key_pos (c_lease c) (c_lkey c) Hl Hk Hp). lia.
  - destruct (c_isidx c); reflexivity.
Qed.

Lemma created_keys_nodup host ctr ctr' (chs created : list chan) :
  host <= node_free -> ctr' <= max_local ->
  (forall j c, created !! j = Some c ->
     exists c0, c0 ∈ chs /\ keyed_from c0 c (ctr + N.of_nat j + 1) /\ ctr + N.of_nat j + 1 <= ctr') ->
  (forall c0, c0 ∈ chs -> c_lkey c0 = 0 -> c_lease c0 = host) ->
  NoDup (chan_key <$> created).
Proof.
  intros Hh Hmax Hj Hlease. apply NoDup_alt. intros i j k Hi Hjj.
  rewrite list_lookup_fmap in Hi, Hjj.
  destruct (created !! i) as [ci|] eqn:Ei; [|discriminate]. destruct (created !! j) as [cj|] eqn:Ej; [|discriminate].
  cbn in Hi, Hjj. injection Hi as <-. injection Hjj as Heq.
  destruct (Hj i ci Ei) as (c0 & H0 & (Hz0 & Hk0 & Hl0 & _) & Hle0).
  destruct (Hj j cj Ej) as (c1 & H1 & (Hz1 & Hk1 & Hl1 & _) & Hle1).
  unfold chan_key in Heq. rewrite Hl0, Hl1, (Hlease c0 H0 Hz0), (Hlease c1 H1 Hz1), Hk0, Hk1 in Heq.
  apply new_key_inj in Heq as [_ Heq]; lia.
Qed.

Lemma create_gateway_cons host s chs o s' out :
  Inv s -> Cons s -> is_Some (s_eng s !! host) -> Forall (fun c => c_lease c = host) chs ->
  o_over o = false ->
  create_gateway true host s chs o = (s', EOk, out) -> Cons s'.
Proof.
  intros I C Hn Hall Hover. unfold create_gateway. rewrite Hover. cbn [is_ok negb bool_decide decide_rel].
  destruct (negb (is_ok EOk)) eqn:E0; [discriminate|]. clear E0.
  destruct (negb (names_required chs)); [discriminate|].
  assert (Hnf : host <> node_free) by (destruct (inv_nodes _ I host Hn); lia).
  assert (Hhost : host <= node_free) by (destruct (inv_nodes _ I host Hn); lia).
  destruct (retrieve_assign true (s_tab s) _ chs (o_retr o)) as [[[[er2 ctr'] chs2] created] amb] eqn:E2.
  destruct (retrieve_assign_spec _ _ _ _ _ _ _ _ _ (Inv_tab_pos _ I) E2) as [_ Hgood].
  set (ctr := default 0 (s_ctr s !! host)) in *.
  destruct (negb (is_ok er2)) eqn:Eo2; [intros [= _ -> _]; discriminate|]. apply is_ok_false in Eo2. subst er2.
  destruct (Hgood eq_refl) as (Hle & Hmax & Hj).
  set (s2 := upd_amb (St (s_tab s) (s_eng s) (<[host:=ctr']> (s_ctr s)) (s_free s) (s_amb s)) amb).
  destruct (ts_create (eng_of s2 host) _) as [e' er3] eqn:E3.
  destruct (negb (is_ok er3)) eqn:Eo3; [intros [= _ -> _]; discriminate|]. apply is_ok_false in Eo3. subst er3.
  intros [= <- _].
  change (eng_of s2 host) with (eng_of s host) in E3.
  destruct (ts_create_ok _ _ _ E3) as (Hnd & Hfresh & Hin & Hout).
  rewrite <- list_fmap_compose in Hnd, Hfresh, Hout. cbn [compose fst] in Hnd, Hfresh, Hout.
  assert (Hlease : forall c0, c0 ∈ chs -> c_lkey c0 = 0 -> c_lease c0 = host).
  { intros c0 H0 _. rewrite Forall_forall in Hall. apply Hall, H0. }
  assert (Hprops : forall c, c ∈ created ->
            c_lease c = host /\ c_lkey c <= max_local /\ 0 < c_lkey c /\ (c_isidx c = true -> c_lidx c = c_lkey c)).
  { intros c Hc. apply elem_of_list_lookup in Hc as (j & Hjc).
    destruct (Hj j c Hjc) as (c0 & H0 & (Hz & Hk & Hl & _ & _ & Hi & _ & _ & _ & Hlidx) & Hle').
    split; [rewrite Hl; apply Hlease; assumption|]. split; [lia|]. split; [lia|].
    intros Hisidx. rewrite Hi in Hisidx. rewrite Hlidx, Hisidx, Hk. reflexivity. }
  assert (Hstored : forall c, c ∈ created -> e' !! chan_key c = Some (stored c)).
  { intros c Hc. destruct (Hprops c Hc) as (Hl & Hk & Hp & Hi).
    destruct (Hin (chan_key c) (to_echan c)) as [Hv ->].
    - apply elem_of_list_fmap. exists c. auto.
    - f_equal. apply ts_norm_stored; try assumption. rewrite Hl. exact Hhost. }
  assert (Htabfresh : forall c, c ∈ created -> s_tab s !! chan_key c = None).
  { intros c Hc. destruct (s_tab s !! chan_key c) as [r|] eqn:Er; [|reflexivity]. exfalso.
    pose proof (Inv_row_lease s _ r I Er) as Hlr. destruct (Hprops c Hc) as (Hl & Hk & Hp & _).
    assert (Hlk : leaseholder (chan_key c) = host).
    { unfold chan_key. rewrite Hl. apply leaseholder_new_key; assumption. }
    assert (Hrl : c_lease r <> node_free) by (rewrite <- Hlr, Hlk; exact Hnf).
    pose proof (cons_tab _ C _ r Er Hrl) as He. rewrite <- Hlr, Hlk in He.
    rewrite (Hfresh (chan_key c)) in He; [discriminate|]. apply elem_of_list_fmap. eauto. }
  destruct (tab_insert_spec created (s_tab s) Hnd) as [Tin Tout].
  assert (Heng : forall n k, eng_of (upd_tab (upd_eng s2 host e') (tab_insert (s_tab (upd_eng s2 host e')) created)) n !! k =
                 if decide (n = host) then e' !! k else eng_of s n !! k).
  { intros n k. change (eng_of (upd_tab (upd_eng s2 host e') _) n) with (eng_of (upd_eng s2 host e') n).
    rewrite eng_of_upd_eng. destruct (decide (n = host)); reflexivity. }
  constructor.
  - intros k c Hk Hl. cbn [upd_tab s_tab upd_eng s2 upd_amb] in Hk. rewrite Heng.
    destruct (decide (k ∈ (chan_key <$> created))) as [Hkin|Hkout].
    + apply elem_of_list_fmap in Hkin as (c' & -> & Hc'). rewrite (Tin c' Hc') in Hk. injection Hk as <-.
      destruct (Hprops c' Hc') as (Hl' & _). rewrite Hl'. destruct (decide (host = host)); [|congruence].
      apply Hstored, Hc'.
    + rewrite Tout in Hk by exact Hkout. destruct (decide (c_lease c = host)) as [Eh|Hne].
      * rewrite Hout by exact Hkout. rewrite <- Eh. apply (cons_tab _ C k c Hk Hl).
      * apply (cons_tab _ C k c Hk Hl).
  - intros n k e0 Hk. rewrite Heng in Hk. cbn [upd_tab s_tab upd_eng s2 upd_amb].
    destruct (decide (n = host)) as [->|Hne].
    + destruct (decide (k ∈ (chan_key <$> created))) as [Hkin|Hkout].
      * apply elem_of_list_fmap in Hkin as (c' & -> & Hc'). rewrite (Hstored c' Hc') in Hk. injection Hk as <-.
        exists c'. rewrite (Tin c' Hc'). destruct (Hprops c' Hc') as (Hl' & _). auto.
      * rewrite Hout in Hk by exact Hkout. destruct (cons_eng _ C host k e0 Hk) as (c & Hc & Hl & He).
        exists c. rewrite Tout by exact Hkout. auto.
    + destruct (cons_eng _ C n k e0 Hk) as (c & Hc & Hl & He). exists c. rewrite Tout; [auto|].
      intros Hkin. apply elem_of_list_fmap in Hkin as (c' & -> & Hc'). rewrite (Htabfresh c' Hc') in Hc. discriminate.
Qed.

Lemma tab_insert_other : forall (l : list chan) (t : table) k,
  k ∉ (chan_key <$> l) -> tab_insert t l !! k = t !! k.
Proof.
  unfold tab_insert. induction l as [|x l IH]; intros t k Hk; cbn [foldl]; [reflexivity|].
  cbn [fmap list_fmap] in Hk. rewrite IH.
  - apply lookup_insert_ne. intros Heq. apply Hk. rewrite <- Heq. left.
  - intros H. apply Hk. right. exact H.
Qed.

Lemma filter_none {A} (p : A -> bool) (l : list A) :
  (forall x, x ∈ l -> p x = false) -> filter (fun x => p x) l = [].
Proof.
  induction l as [|x l IH]; intros H; [reflexivity|]. rewrite filter_cons, (H x) by left.
  destruct (decide (Is_true false)); [simpl in *; tauto|]. apply IH. intros y Hy. apply H. right. exact Hy.
Qed.
Lemma indices_where_none {A} (p : A -> bool) : forall (l : list A) i,
  (forall x, x ∈ l -> p x = false) -> indices_where p l i = [].
Proof.
  induction l as [|x l IH]; intros i H; [reflexivity|]. cbn [indices_where]. rewrite (H x) by left.
  apply IH. intros y Hy. apply H. right. exact Hy.
Qed.

Lemma create_free_body_cons host s chs o s' out :
  Inv s -> Cons s -> Forall (fun c => c_lease c = node_free) chs -> Forall (fun c => c_lkey c = 0) chs ->
  o_over o = false ->
  create_free_body true host s chs o = (s', EOk, out) -> Cons s'.
Proof.
  intros I C Hall Hzero Hover. unfold create_free_body. cbv zeta. rewrite Hover.
  destruct (negb (is_ok EOk)) eqn:E0; [discriminate|]. clear E0.
  assert (Hec : forall c, c ∈ chs -> negb (c_lkey c =? 0) && needs_link c = false).
  { intros c Hc. rewrite Forall_forall in Hzero. rewrite (Hzero c Hc). reflexivity. }
  rewrite (filter_none (fun c => negb (c_lkey c =? 0) && needs_link c) chs Hec).
  rewrite (indices_where_none (fun c => negb (c_lkey c =? 0) && needs_link c) chs 0 Hec).
  cbn [fmap list_fmap]. rewrite app_nil_r.
  destruct (retrieve_assign true (s_tab s) (s_free s) chs (o_retr o)) as [[[[er2 ctr'] chs2] created] amb] eqn:E2.
  destruct (retrieve_assign_spec _ _ _ _ _ _ _ _ _ (Inv_tab_pos _ I) E2) as [_ Hgood].
  destruct (negb (is_ok er2)) eqn:Eo2; [intros [= _ -> _]; discriminate|]. apply is_ok_false in Eo2. subst er2.
  destruct (Hgood eq_refl) as (Hle & Hmax & Hj).
  cbn [foldl]. destruct (negb (is_ok EOk)) eqn:E0; [discriminate|]. clear E0.
  intros [= <- _].
  match goal with |- Cons (upd_tab ?x (tab_insert _ ?l)) => set (created' := l); set (s2 := x) end.
  assert (Hcr : forall c', c' ∈ created' -> c_lease c' = node_free /\ c_lkey c' <= max_local).
  { intros c' Hc'. unfold created' in Hc'. apply elem_of_list_fmap in Hc' as (c & -> & Hc).
    apply elem_of_list_lookup in Hc as (j & Hjc).
    destruct (Hj j c Hjc) as (c0 & H0 & (Hz & Hk & Hl & _) & Hle').
    assert (c_lease c = node_free /\ c_lkey c <= max_local).
    { split; [rewrite Hl; rewrite Forall_forall in Hall; apply Hall, H0|lia]. }
    destruct (needs_link c); [|assumption]. destruct (find_auto_index created c); [|assumption].
    destruct c; assumption. }
  apply (Cons_free_rows s); try assumption.
  - intros n. reflexivity.
  - intros k Hk. cbn [upd_tab s_tab]. rewrite tab_insert_other; [reflexivity|].
    intros Hin. apply elem_of_list_fmap in Hin as (c' & -> & Hc'). destruct (Hcr c' Hc') as [Hl Hb].
    apply Hk. unfold chan_key. rewrite Hl. apply leaseholder_new_key; [lia|exact Hb].
  - intros k c Hk Hfree. cbn [upd_tab s_tab] in Hk.
    destruct (tab_insert_lookup _ _ _ _ Hk) as [H0|[Hin _]]; [|apply (Hcr c Hin)].
    change (s_tab s2) with (s_tab s) in H0. rewrite <- (Inv_row_lease s k c I H0). exact Hfree.
Qed.

(* entries without a key never match a row: the update-by-key step does nothing *)
Lemma update_existing_zero s chs retr :
  Inv s -> Forall (fun c => c_lease c = node_free) chs -> Forall (fun c => c_lkey c = 0) chs ->
  update_existing s chs retr = (s, chs).
Proof.
  intros I Hall Hzero. unfold update_existing.
  set (keys := chan_key <$> chs). destruct (filter (fun k => negb (k =? 0)) keys) as [|e0 ex] eqn:Eex; [reflexivity|].
  destruct (forallb _ (e0 :: ex)) eqn:Ef; [|reflexivity]. exfalso.
  rewrite forallb_forall in Ef. assert (Hin : e0 ∈ e0 :: ex) by left.
  specialize (Ef e0 (proj1 (elem_of_list_In _ _) Hin)). apply bool_decide_eq_true in Ef as [r Hr].
  rewrite <- Eex in Hin. apply elem_of_list_filter in Hin as [_ Hin].
  unfold keys in Hin. apply elem_of_list_fmap in Hin as (c & -> & Hc).
  rewrite Forall_forall in Hall, Hzero. pose proof (Hall c Hc) as Hl. pose proof (Hzero c Hc) as Hz.
  destruct (inv_tab _ I _ r Hr) as (Hkey & Hlr & Hpos & Hle).
  unfold chan_key in Hkey. rewrite Hl, Hz in Hkey.
  pose proof (inv_ctr _ I (c_lease r)).
  assert (B1 : c_lease r <= node_free) by (destruct Hlr as [->|Hn]; [lia|]; destruct (inv_nodes _ I _ Hn); lia).
  assert (B2 : c_lkey r <= max_local) by lia.
  assert (B3 : node_free <= node_free) by lia.
  assert (B4 : 0 <= max_local) by lia.
  destruct (new_key_inj _ _ _ _ B3 B4 B1 B2 Hkey) as [_ Hk]. lia.
Qed.

Lemma create_free_cons host s chs o s' out :
  Inv s -> Cons s -> Forall (fun c => c_lease c = node_free) chs -> Forall (fun c => c_lkey c = 0) chs ->
  o_over o = false ->
  create_free true host s chs o = (s', EOk, out) -> Cons s'.
Proof.
  intros I C Hall Hzero Hover. unfold create_free.
  destruct (negb (names_required chs)); [discriminate|].
  rewrite update_existing_zero by assumption. apply create_free_body_cons; assumption.
Qed.

(* ---- create as a whole *)
Definition zero_keys (chs : list chan) : Prop := Forall (fun c => c_lkey c = 0) chs.

Lemma normalise_zero host : forall chs chs1, zero_keys chs -> normalise host chs = Some chs1 -> zero_keys chs1.
Proof.
  induction chs as [|c chs IH]; intros chs1 Hz; cbn [normalise]; [intros [= <-]; constructor|].
  apply Forall_cons in Hz as [Hc Hz]. destruct (is_calc c).
  - destruct (negb (c_lidx c =? 0) && (c_lkey c =? 0)); [discriminate|].
    destruct (normalise host chs) as [r|] eqn:Er; [|discriminate]. cbn. intros [= <-].
    constructor; [|apply IH; auto]. destruct (c_lease c =? 0); destruct c; exact Hc.
  - destruct (normalise host chs) as [r|] eqn:Er; [|discriminate]. cbn. intros [= <-].
    constructor; [|apply IH; auto].
    destruct (negb (c_lkey c =? 0)); destruct (c_lease c =? 0); destruct c; cbn in *; try reflexivity; exact Hc.
Qed.

Lemma zero_keys_filter (p : chan -> bool) chs : zero_keys chs -> zero_keys (filter (fun c => p c) chs).
Proof.
  intros H. apply Forall_forall. intros c Hc. apply elem_of_list_filter in Hc as [_ Hc].
  unfold zero_keys in H. rewrite Forall_forall in H. apply H, Hc.
Qed.

Definition remote_cons (remote : N -> st -> list chan -> copts -> st * res) : Prop :=
  forall p s chs o s' out, Inv s -> Cons s -> o_over o = false -> zero_keys chs ->
    remote p s chs o = (s', (EOk, out)) -> Cons s'.

Lemma create_peers_cons remote : remote_ext remote -> remote_cons remote ->
  forall peers s chs o acc s' out, Inv s -> Cons s -> o_over o = false -> zero_keys chs ->
  create_peers remote s peers chs o acc = (s', EOk, out) -> Cons s' /\ ext s s'.
Proof.
  intros HE HC. induction peers as [|p peers IH]; intros s chs o acc s' out I C Ho Hz; cbn [create_peers].
  - intros [= <- _]. split; [exact C|apply ext_refl].
  - destruct (remote p s _ o) as [s1 [er1 out1]] eqn:E1.
    destruct (is_ok er1) eqn:Eo; [|intros [= _ -> _]; discriminate].
    unfold is_ok in Eo. apply bool_decide_eq_true in Eo. subst er1. intros H.
    pose proof (HE _ _ _ _ _ _ I E1) as X1.
    assert (C1 : Cons s1) by (eapply HC; [exact I|exact C|exact Ho|apply zero_keys_filter, Hz|exact E1]).
    destruct (IH _ _ _ _ _ _ (Inv_ext _ _ I X1) C1 Ho Hz H) as [C2 X2].
    split; [exact C2|eapply ext_trans; eassumption].
Qed.

Lemma create_on_cons validate remote host s chs o s' out :
  remote_ext remote -> remote_cons remote -> Inv s -> Cons s -> is_Some (s_eng s !! host) ->
  o_over o = false -> zero_keys chs ->
  create_on true validate remote host s chs o = (s', (EOk, out)) -> Cons s'.
Proof.
  intros HE HC I C Hn Ho Hz. unfold create_on.
  destruct (if validate then _ else _) as [er0 amb0].
  set (s0 := upd_amb s amb0). assert (E0 : ext s s0) by apply ext_upd_amb.
  destruct (negb (is_ok er0)) eqn:Eo0; [intros [= _ -> _]; discriminate|].
  destruct (normalise host chs) as [chs1|] eqn:En; [|discriminate].
  pose proof (normalise_zero _ _ _ Hz En) as Hz1.
  match goal with |- context [upd_amb s0 ?b] => set (sa := upd_amb s0 b) end.
  assert (Ea : ext s sa) by (eapply ext_trans; [exact E0|apply ext_upd_amb]).
  pose proof (Inv_ext _ _ I Ea) as Ia.
  assert (Ca : Cons sa) by (apply Cons_upd_amb, Cons_upd_amb, C).
  match goal with |- context [create_peers remote sa ?ps ?cs o []] =>
    destruct (create_peers remote sa ps cs o []) as [[s1 er1] out1] eqn:E1; set (chs2 := cs) in * end.
  assert (Hz2 : zero_keys chs2).
  { unfold chs2. apply Forall_app. split; [exact Hz1|]. apply Forall_forall. intros c Hc.
    apply elem_of_list_fmap in Hc as (x & -> & _). reflexivity. }
  destruct (negb (is_ok er1)) eqn:Eo1; [intros [= _ -> _]; discriminate|]. apply is_ok_false in Eo1. subst er1.
  destruct (create_peers_cons _ HE HC _ _ _ _ _ _ _ Ia Ca Ho Hz2 E1) as [C1 X1].
  match goal with |- context [upd_amb s1 ?b] => set (s1' := upd_amb s1 b) end.
  assert (E1' : ext s s1') by (eapply ext_trans; [exact Ea|]; eapply ext_trans; [exact X1|apply ext_upd_amb]).
  pose proof (Inv_ext _ _ I E1') as I1.
  assert (C1' : Cons s1') by (apply Cons_upd_amb, C1).
  destruct (match filter is_free chs2 with [] => _ | _ => _ end) as [[s2 er2] out2] eqn:E2.
  destruct (negb (is_ok er2)) eqn:Eo2; [intros [= _ -> _]; discriminate|]. apply is_ok_false in Eo2. subst er2.
  assert (X2 : ext s1' s2 /\ Cons s2).
  { destruct (filter is_free chs2) as [|f fs] eqn:Ef; [assert (s2 = s1') as -> by congruence; split; [apply ext_refl|exact C1']|].
    assert (Hzf : zero_keys (f :: fs)) by (rewrite <- Ef; apply (zero_keys_filter is_free), Hz2).
    assert (Hlf : Forall (fun c => c_lease c = node_free) (f :: fs)).
    { rewrite <- Ef. apply Forall_filter_lease. intros c Hc. unfold is_free in Hc. apply N.eqb_eq in Hc. exact Hc. }
    destruct (host =? node_boot) eqn:Eb.
    - split.
      + eapply create_free_ext; [exact I1| |exact Hlf|exact E2]. apply (ext_nodes _ _ E1'), Hn.
      + eapply create_free_cons; [exact I1|exact C1'|exact Hlf|exact Hzf|exact Ho|exact E2].
    - destruct (remote node_boot s1' (f :: fs) o) as [sx [erx outx]] eqn:Ex.
      assert (sx = s2 /\ erx = EOk) as [-> ->] by (split; congruence). split.
      + eapply HE; [exact I1|exact Ex].
      + eapply HC; [exact I1|exact C1'|exact Ho|exact Hzf|exact Ex]. }
  destruct X2 as [X2 C2]. assert (E2' : ext s s2) by (eapply ext_trans; eassumption).
  destruct (create_gateway true host s2 _ o) as [[s3 er3] out3] eqn:E3.
  destruct (negb (is_ok er3)) eqn:Eo3; [intros [= _ -> _]; discriminate|]. apply is_ok_false in Eo3. subst er3.
  intros [= <- _].
  eapply create_gateway_cons; [eapply Inv_ext; eassumption|exact C2| | |exact Ho|exact E3].
  - apply (ext_nodes _ _ E2'), Hn.
  - apply Forall_filter_lease. intros c Hc. apply N.eqb_eq in Hc. exact Hc.
Qed.

Lemma remote0_cons : remote_cons remote0.
Proof. intros p s chs o s' out _ _ _ _ H. discriminate. Qed.

Lemma create_remote_cons validate : remote_cons (create_remote true validate).
Proof.
  intros p s chs o s' out I C Ho Hz. unfold create_remote.
  destruct (is_node s p) eqn:En; cbn [negb]; [|discriminate].
  destruct (create_on true validate remote0 p s chs o) as [s1 [er out1]] eqn:E1. intros [= <- -> _].
  rewrite rollback_ok.
  eapply create_on_cons; [apply remote0_ext|apply remote0_cons|exact I|exact C|apply is_node_true; exact En|exact Ho|exact Hz|exact E1].
Qed.

Lemma create_cons validate host s chs o s' out :
  Inv s -> Cons s -> is_Some (s_eng s !! host) -> o_over o = false -> zero_keys chs ->
  create true validate host s chs o = (s', (EOk, out)) -> Cons s'.
Proof.
  intros I C Hn Ho Hz. apply create_on_cons; try assumption; [apply create_remote_ext|apply create_remote_cons].
Qed.

(* ---- every plain operation *)
Definition plain_op (o : op) : Prop :=
  match o with
  | Create _ chs _ over => over = false /\ zero_keys chs   (* no overwrite; callers do not pass local keys *)
  | Rename _ keys _ => NoDup keys                            (* every key listed once *)
  | CreatePair _ a b => zero_keys a /\ zero_keys b
  | FaultedCreate _ _ _ | FaultedRename _ _ _ _ => False     (* never succeed: see the next theorem *)
  | _ => True
  end.

Theorem step_Cons validate s o s' out :
  Inv s -> Cons s -> op_wf s o -> plain_op o -> step true validate s o = (s', (EOk, out)) -> Cons s'.
Proof.
  intros I C Hwf Hp. destruct o as [gw chs retr over|gw keys names|gw keys|gw names|n|n free delta|gw a b|n gw chs|n gw keys names];
    unfold op_wf in Hwf; cbn [gateway_of] in Hwf; cbn [step plain_op] in *; try contradiction.
  - destruct Hp as [-> Hz]. apply create_cons; try assumption. reflexivity.
  - apply rename_keys_cons; assumption.
  - intros H. apply (delete_keys_cons _ _ _ _ _ I C Hwf H).
  - apply delete_by_name_cons; assumption.
  - intros [= <- _]. exact C.
  - destruct free.
    + destruct (n =? node_boot); [|intros [= <- _]; exact C].
      destruct (ctr_add (s_free s) delta); [intros [= <- _]|discriminate].
      destruct C as [A B]. constructor; [exact A|exact B].
    + destruct (ctr_add _ delta); [intros [= <- _]|discriminate].
      destruct C as [A B]. constructor; [exact A|exact B].
  - destruct Hp as [Ha Hb].
    destruct (create true validate gw s a (COpts false false)) as [s1 [e1 o1]] eqn:E1.
    destruct (negb (is_ok e1)) eqn:Eo1; [intros [= _ -> _]; discriminate|]. apply is_ok_false in Eo1. subst e1.
    pose proof (create_ext _ _ _ _ _ _ _ I Hwf E1) as X1.
    assert (C1 : Cons s1) by (apply (create_cons validate gw s a (COpts false false) s1 o1 I C Hwf eq_refl Ha E1)).
    destruct (create true validate gw s1 b (COpts false false)) as [s2 [e2 o2]] eqn:E2.
    destruct (negb (is_ok e2)) eqn:Eo2; [intros [= _ -> _]; discriminate|]. apply is_ok_false in Eo2. subst e2.
    intros [= <- _].
    apply (create_cons validate gw s1 b (COpts false false) s2 o2 (Inv_ext _ _ I X1) C1 (proj2 (ext_nodes _ _ X1 gw) Hwf) eq_refl Hb E2).
Qed.

(* a request hit by a storage fault (the engine cannot persist a channel's meta file), in the
   situations the model decides (every entry leased to the faulty node, the request otherwise
   acceptable — anything else is flagged [s_amb]): it fails and leaves every metadata row and every
   engine exactly as they were; only counters may have moved *)
Theorem faulted_no_effect validate s o s' r :
  match o with FaultedCreate _ _ _ | FaultedRename _ _ _ _ => True | _ => False end ->
  step true validate s o = (s', r) -> s_amb s' = false ->
  r.1 = EFault /\ s_tab s' = s_tab s /\ s_eng s' = s_eng s.
Proof.
  destruct o as [| | | | | | |n gw chs|n gw keys names]; try contradiction; intros _; cbn [step].
  - destruct (create true validate gw s chs (COpts false false)) as [s1 [e1 o1]].
    destruct (is_ok e1 && all_leased_to n gw chs && is_node s n); intros [= <- <-]; [auto|].
    cbn. rewrite orb_true_r. discriminate.
  - destruct (rename_keys true validate gw s keys names) as [s1 [e1 o1]].
    destruct (is_ok e1 && _); intros [= <- <-]; [auto|].
    cbn. rewrite orb_true_r. discriminate.
Qed.

(* after a successful delete the listed keys are in use nowhere *)
Theorem delete_gone validate s gw keys s' out :
  Inv s -> Cons s -> is_Some (s_eng s !! gw) ->
  step true validate s (Delete gw keys) = (s', (EOk, out)) ->
  forall k, k ∈ keys -> ~ seen s' k.
Proof. intros I C Hn H. apply (delete_keys_cons _ _ _ _ _ I C Hn H). Qed.

(* histories of successful plain operations *)
Fixpoint all_ok_run (validate : bool) (s : st) (ops : list op) : Prop :=
  match ops with
  | [] => True
  | o :: r => (step true validate s o).2.1 = EOk /\ all_ok_run validate (step true validate s o).1 r
  end.

Theorem run_Cons validate : forall ops s,
  Inv s -> Cons s -> Forall (op_wf s) ops -> Forall plain_op ops -> all_ok_run validate s ops ->
  Cons (run true validate s ops).
Proof.
  induction ops as [|o ops IH]; intros s I C Hwf Hp Hok; cbn [run]; [exact C|].
  apply Forall_cons in Hwf as [Ho Hwf]. apply Forall_cons in Hp as [Hpo Hp]. destruct Hok as [Hok1 Hok].
  destruct (step true validate s o) as [s1 [er out]] eqn:E1. cbn [fst snd] in *. subst er.
  pose proof (step_ext _ _ _ _ _ I Ho E1) as X1.
  apply IH; [eapply Inv_ext; eassumption|eapply step_Cons; eassumption| |exact Hp|exact Hok].
  eapply Forall_impl; [exact Hwf|]. intros o' Ho'. eapply op_wf_ext; eassumption.
Qed.

(* the decidable check used by the witnesses is implied by the relation *)
Lemma Cons_consistent_b s : Cons s -> consistent_b s = true.
Proof.
  intros [A B]. unfold consistent_b. apply andb_true_iff. split.
  - apply forallb_forall. intros [k c] Hin. apply elem_of_list_In, elem_of_map_to_list in Hin. cbn [fst snd].
    unfold is_free. destruct (c_lease c =? node_free) eqn:E; [reflexivity|]. apply N.eqb_neq in E.
    cbn [orb]. apply bool_decide_eq_true. apply (A k c Hin E).
  - apply forallb_forall. intros [n e] Hin. apply elem_of_list_In, elem_of_map_to_list in Hin. cbn [fst snd].
    apply forallb_forall. intros [k x] Hk. apply elem_of_list_In, elem_of_map_to_list in Hk. cbn [fst snd].
    assert (He : eng_of s n !! k = Some x) by (unfold eng_of; rewrite Hin; exact Hk).
    destruct (B n k x He) as (c & Hc & Hl & ->). rewrite Hc, Hl, N.eqb_refl. cbn [andb].
    apply bool_decide_eq_true. reflexivity.
Qed.
Lemma not_consistent_b s : consistent_b s = false -> ~ Cons s.
Proof. intros H C. rewrite (Cons_consistent_b s C) in H. discriminate. Qed.
