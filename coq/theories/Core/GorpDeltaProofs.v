(* Core/GorpDeltaProofs.v — the per-transaction delta: forward map mirrors the staged state;
   specification of merge / resolve; flush of a delta into committed index state. *)
From Coq Require Import NArith ZArith List Lia.
From stdpp Require Import gmap.
From Synnax Require Import Core.Gorp Core.GorpListProofs Core.GorpLookupProofs Core.GorpSortedProofs.
Import ListNotations.
Local Open Scope Z_scope.

Definition dbk (f : gmap Z (gset N)) (v : Z) : gset N := default ∅ (f !! v).

Lemma dbk_rm_fwd k pv f v k' :
  k' ∈ dbk (d_rm_fwd k pv f) v <-> k' ∈ dbk f v /\ ~ (v = pv /\ k' = k).
Proof.
  unfold d_rm_fwd, dbk. destruct (f !! pv) as [b|] eqn:E.
  - destruct (decide (b ∖ {[k]} = ∅)) as [Hemp|Hne].
    + destruct (decide (v = pv)) as [->|Hv].
      * rewrite lookup_delete, E. simpl. split; [set_solver|].
        intros [Hin Hn]. assert (k' ∈ b ∖ {[k]}) by set_solver. set_solver.
      * rewrite lookup_delete_ne by done. naive_solver.
    + destruct (decide (v = pv)) as [->|Hv].
      * rewrite lookup_insert, E. simpl. set_solver.
      * rewrite lookup_insert_ne by done. naive_solver.
  - destruct (decide (v = pv)) as [->|Hv]; [rewrite E; simpl; set_solver|naive_solver].
Qed.
Lemma dbk_add_fwd k v f w k' :
  k' ∈ dbk (d_add_fwd k v f) w <-> k' ∈ dbk f w \/ (w = v /\ k' = k).
Proof.
  unfold d_add_fwd, dbk. destruct (decide (w = v)) as [->|Hw].
  - rewrite lookup_insert. simpl. set_solver.
  - rewrite lookup_insert_ne by done. naive_solver.
Qed.

(* the forward map of a delta mirrors exactly its live staged entries *)
Definition d_wf (d : delta) : Prop :=
  forall v k, k ∈ dbk (d_fwd d) v <-> d_state d !! k = Some (Some v).

Lemma d_wf_empty : d_wf d_empty.
Proof. intros v k. unfold dbk. simpl. rewrite !lookup_empty. simpl. set_solver. Qed.

Lemma dbk_unlink k d w k' :
  d_wf d -> k' ∈ dbk (d_unlink k d) w <-> k' ∈ dbk (d_fwd d) w /\ k' ≠ k.
Proof.
  intros Hwf. unfold d_unlink. destruct (d_state d !! k) as [[pv|]|] eqn:E.
  - rewrite dbk_rm_fwd. split.
    + intros [Hin Hn]. split; [done|]. intros Heq. subst k'. apply Hwf in Hin. rewrite E in Hin.
      injection Hin as Hin. subst w. naive_solver.
    + naive_solver.
  - split; [|naive_solver]. intros Hin. split; [done|]. intros Heq. subst k'. apply Hwf in Hin. congruence.
  - split; [|naive_solver]. intros Hin. split; [done|]. intros Heq. subst k'. apply Hwf in Hin. congruence.
Qed.

Lemma d_stage_set_wf k v d : d_wf d -> d_wf (d_stage_set k v d).
Proof.
  intros Hwf w k'. unfold d_stage_set. simpl.
  rewrite dbk_add_fwd, dbk_unlink by done. rewrite (Hwf w k').
  destruct (decide (k' = k)) as [->|Hne].
  - rewrite lookup_insert. naive_solver.
  - rewrite lookup_insert_ne by done. naive_solver.
Qed.
Lemma d_stage_del_wf k d : d_wf d -> d_wf (d_stage_del k d).
Proof.
  intros Hwf w k'. unfold d_stage_del. simpl.
  rewrite dbk_unlink by done. rewrite (Hwf w k').
  destruct (decide (k' = k)) as [->|Hne].
  - rewrite lookup_insert. naive_solver.
  - rewrite lookup_insert_ne by done. naive_solver.
Qed.

(* what a reader holding delta d sees for key k, given whether the committed index lists it *)
Definition overlay_sees (d : delta) (vs : list Z) (k : N) (committed : Prop) : Prop :=
  match d_state d !! k with
  | None => committed
  | Some None => False
  | Some (Some v) => v ∈ vs
  end.

Lemma merge_fold_state (r0 : gset N) (vs : list Z) (m : gmap N (option Z)) k :
  k ∈ map_fold (fun k e (acc : gset N) =>
                  match e with
                  | None => acc ∖ {[k]}
                  | Some v => if inZ v vs then acc else acc ∖ {[k]}
                  end) r0 m
  <-> k ∈ r0 /\ match m !! k with
                | None => True
                | Some None => False
                | Some (Some v) => v ∈ vs
                end.
Proof.
  revert k. apply (map_fold_ind (fun r m => forall k, k ∈ r <-> k ∈ r0 /\
      match m !! k with None => True | Some None => False | Some (Some v) => v ∈ vs end)).
  - intros k. rewrite lookup_empty. naive_solver.
  - intros i x m' r Hi IH k. destruct (decide (k = i)) as [->|Hne].
    + rewrite lookup_insert. destruct x as [v|].
      * destruct (inZ v vs) eqn:E.
        -- apply inZ_spec in E. rewrite IH, Hi. naive_solver.
        -- apply inZ_false in E. set_solver.
      * set_solver.
    + rewrite lookup_insert_ne by done. destruct x as [v|]; [destruct (inZ v vs)|]; rewrite <- IH; set_solver.
Qed.
Lemma merge_fold_fwd (f : gmap Z (gset N)) (vs : list Z) (acc : gset N) k :
  k ∈ fold_left (fun (acc : gset N) v => acc ∪ default ∅ (f !! v)) vs acc
  <-> k ∈ acc \/ exists v, v ∈ vs /\ k ∈ dbk f v.
Proof.
  revert acc. induction vs as [|v vs IH]; intros acc; simpl.
  - split; [by left|]. intros [H|(v & Hv & _)]; [done|by apply elem_of_nil in Hv].
  - rewrite IH. rewrite elem_of_union. fold (dbk f v). split.
    + intros [[H|H]|(w & Hw & H)]; [by left|right; exists v; split; [by left|done]|right; exists w; split; [by right|done]].
    + intros [H|(w & Hw & H)]; [left; by left|].
      apply elem_of_cons in Hw as [->|Hw]; [left; by right|right; by exists w].
Qed.

(* merge: a key staged in the delta is decided by the delta alone; any other key by the
   committed result *)
Lemma d_merge_spec committed vs d k :
  d_wf d -> k ∈ d_merge committed vs d <-> overlay_sees d vs k (k ∈ committed).
Proof.
  intros Hwf. unfold d_merge, overlay_sees.
  destruct (bool_decide (d_state d = ∅)) eqn:E.
  - apply bool_decide_eq_true in E. rewrite E, lookup_empty. done.
  - rewrite elem_of_elements, merge_fold_fwd, merge_fold_state, elem_of_list_to_set.
    destruct (d_state d !! k) as [[v|]|] eqn:Ek.
    + split.
      * intros [[_ H]|(w & Hw & H)]; [done|]. apply Hwf in H. rewrite Ek in H. by injection H as ->.
      * intros Hv. right. exists v. split; [done|]. by apply Hwf.
    + split; [|done]. intros [[_ []]|(w & Hw & H)]. apply Hwf in H. congruence.
    + split; [|naive_solver]. intros [[H _]|(w & Hw & H)]; [done|]. apply Hwf in H. congruence.
Qed.
Lemma d_merge_nodup committed vs d : NoDup committed -> NoDup (d_merge committed vs d).
Proof.
  intros Hnd. unfold d_merge. destruct (bool_decide (d_state d = ∅)); [done|]. apply NoDup_elements.
Qed.

(* ---- flush ---- *)
(* reverse map after flushing the delta: staged entries win, everything else is kept *)
Definition flushed (st : gmap N (option Z)) (r : gmap N Z) (k : N) : option Z :=
  match st !! k with
  | Some e => e
  | None => r !! k
  end.

Lemma l_flush_spec d l :
  l_wf l -> l_wf (l_flush d l) /\ forall k, l_rev (l_flush d l) !! k = flushed (d_state d) (l_rev l) k.
Proof.
  intros Hwf. unfold l_flush, flushed.
  apply (map_fold_ind (fun acc m => l_wf acc /\ forall k, l_rev acc !! k =
            match m !! k with Some e => e | None => l_rev l !! k end)).
  - split; [done|]. intros k. by rewrite lookup_empty.
  - intros i x m r Hi [Hw IH]. destruct x as [v|].
    + split; [by apply l_put_wf|]. intros k. rewrite l_rev_put.
      destruct (decide (k = i)) as [->|Hne]; [by rewrite !lookup_insert|].
      rewrite !lookup_insert_ne by done. apply IH.
    + split; [by apply l_del_wf|]. intros k. rewrite l_rev_del.
      destruct (decide (k = i)) as [->|Hne]; [by rewrite lookup_delete, lookup_insert|].
      rewrite lookup_delete_ne, lookup_insert_ne by done. apply IH.
Qed.
Lemma s_flush_spec d s :
  s_wf s -> s_wf (s_flush d s) /\ forall k, s_rev (s_flush d s) !! k = flushed (d_state d) (s_rev s) k.
Proof.
  intros Hwf. unfold s_flush, flushed.
  apply (map_fold_ind (fun acc m => s_wf acc /\ forall k, s_rev acc !! k =
            match m !! k with Some e => e | None => s_rev s !! k end)).
  - split; [done|]. intros k. by rewrite lookup_empty.
  - intros i x m r Hi [Hw IH]. destruct x as [v|].
    + split; [by apply s_set_wf|]. intros k. rewrite s_rev_set.
      destruct (decide (k = i)) as [->|Hne]; [by rewrite !lookup_insert|].
      rewrite !lookup_insert_ne by done. apply IH.
    + split; [by apply s_del_wf|]. intros k. rewrite s_rev_del.
      destruct (decide (k = i)) as [->|Hne]; [by rewrite lookup_delete, lookup_insert|].
      rewrite lookup_delete_ne, lookup_insert_ne by done. apply IH.
Qed.
