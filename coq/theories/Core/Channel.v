(* Core/Channel.v — executable model of cluster channel management (C15).
   Copies, as they are:
     core/pkg/distribution/channel/channel.go   NewKey / Leaseholder / LocalKey / Index / Storage / Equals
     core/pkg/distribution/channel/name.go      ValidateName
     core/pkg/distribution/channel/counter.go   counter.add (MaxUint20 limit)
     core/pkg/distribution/channel/lease_proxy.go  create / createGateway / createAndUpdateFreeVirtual /
        validateChannelNames / validateFreeVirtual / retrieveExistingAndAssignKeys / deleteOverwritten /
        delete / deleteGateway / deleteFreeVirtual / deleteByName / rename / renameGateway /
        renameFreeVirtual, the create/delete/rename transport handlers (transaction, commit only on success)
     core/pkg/distribution/proxy/proxy.go       BatchFactory.Batch (peers / gateway / free)
     cesium/channel.go  createChannel / validateNewChannel / renameChannel,  cesium/internal/channel Validate
     cesium/delete.go   DeleteChannels / removeChannel
   State: ONE metadata table (the harness lets the aspen gossip settle between operations, so
   every node reads the same table at the start of an operation), one time-series engine and one
   leased counter per node, the free counter of the bootstrapper.
   No proofs in this file: it must keep evaluating when a proof breaks. *)
From stdpp Require Import gmap strings sorting.
From Coq Require Import NArith Ascii String.
From Synnax Require Import Generated.Consts_C15.
Local Open Scope N_scope.
Notation length := List.length.

(* ------------------------------------------------------------------ keys *)
Definition two32 : N := 4294967296.
(* NewKey: uint32(nodeKey) << 20 | uint32(localKey), in uint32 arithmetic *)
Definition new_key (lease lkey : N) : N :=
  N.lor (N.shiftl lease key_shift mod two32) (lkey mod two32).
Definition leaseholder (k : N) : N := N.shiftr k leaseholder_shift.
Definition local_key (k : N) : N := N.land k local_mask.

(* ------------------------------------------------------------------ channels *)
(* data types are small codes: 0 = "" (unset), 1 = timestamp, others opaque *)
Definition dt_timestamp : N := 1.

Record chan := Chan {
  c_name : string; c_lease : N; c_dt : N; c_isidx : bool; c_lkey : N; c_lidx : N;
  c_virt : bool; c_int : bool; c_expr : N (* 0 = not calculated, else an expression id *) }.
Global Instance chan_eq_dec : EqDecision chan.
Proof. solve_decision. Defined.

Definition chan_key (c : chan) : N := new_key (c_lease c) (c_lkey c).
Definition chan_index (c : chan) : N := if c_lidx c =? 0 then 0 else new_key (c_lease c) (c_lidx c).
Definition is_calc (c : chan) : bool := negb (c_expr c =? 0).
Definition is_free (c : chan) : bool := c_lease c =? node_free.

Definition set_lease (c : chan) (l : N) : chan :=
  Chan (c_name c) l (c_dt c) (c_isidx c) (c_lkey c) (c_lidx c) (c_virt c) (c_int c) (c_expr c).
Definition set_lkey (c : chan) (k : N) : chan :=
  Chan (c_name c) (c_lease c) (c_dt c) (c_isidx c) k (c_lidx c) (c_virt c) (c_int c) (c_expr c).
Definition set_lidx (c : chan) (k : N) : chan :=
  Chan (c_name c) (c_lease c) (c_dt c) (c_isidx c) (c_lkey c) k (c_virt c) (c_int c) (c_expr c).
Definition set_virt (c : chan) (v : bool) : chan :=
  Chan (c_name c) (c_lease c) (c_dt c) (c_isidx c) (c_lkey c) (c_lidx c) v (c_int c) (c_expr c).
Definition set_name (c : chan) (n : string) : chan :=
  Chan n (c_lease c) (c_dt c) (c_isidx c) (c_lkey c) (c_lidx c) (c_virt c) (c_int c) (c_expr c).

(* Channel.Equals(other, "LocalKey", "LocalIndex", "Leaseholder"); Concurrency and Operations are
   not varied by the harness (always zero values) *)
Definition equal_props (a b : chan) : bool :=
  bool_decide (c_name a = c_name b) && (c_dt a =? c_dt b) && Bool.eqb (c_isidx a) (c_isidx b) &&
  Bool.eqb (c_virt a) (c_virt b) && Bool.eqb (c_int a) (c_int b) && (c_expr a =? c_expr b).

(* ------------------------------------------------------------------ names *)
Definition is_alpha_us (a : ascii) : bool :=
  let n := N_of_ascii a in
  ((65 <=? n) && (n <=? 90)) || ((97 <=? n) && (n <=? 122)) || (n =? 95).
Definition is_alnum_us (a : ascii) : bool :=
  let n := N_of_ascii a in is_alpha_us a || ((48 <=? n) && (n <=? 57)).
Fixpoint all_chars (p : ascii -> bool) (s : string) : bool :=
  match s with EmptyString => true | String a r => p a && all_chars p r end.
(* name.go validNamePattern ^[a-zA-Z_][a-zA-Z0-9_]*$ (also retrieve.go literalNamePattern) *)
Definition valid_name (s : string) : bool :=
  match s with EmptyString => false | String a r => is_alpha_us a && all_chars is_alnum_us r end.
Definition name_eqb (a b : string) : bool := bool_decide (a = b).

(* ------------------------------------------------------------------ errors *)
Inductive err :=
| EOk | EInvalidName | EDupInRequest | ENameExists | ECalcIndex | ENoNode | ENameRequired
| ECounterOverflow | ETsInvalid | ETsExists | EIndexNotFound | ENotAnIndex | EIndexHasDependants
| EInternal | ELenMismatch | ENotFound | EFsRename | EUnreachable
| EFault.   (* an injected storage error (the engine could not persist a channel's meta file) *)
Global Instance err_eq_dec : EqDecision err.
Proof. solve_decision. Defined.
Definition is_ok (e : err) : bool := bool_decide (e = EOk).

(* ------------------------------------------------------------------ time-series engine (cesium) *)
Record echan := EChan { e_name : string; e_dt : N; e_isidx : bool; e_index : N; e_virt : bool }.
Global Instance echan_eq_dec : EqDecision echan.
Proof. solve_decision. Defined.
Notation engine := (gmap N echan).

(* Channel.Storage() *)
Definition to_echan (c : chan) : echan :=
  EChan (c_name c) (c_dt c) (c_isidx c) (chan_index c) (c_virt c).

(* cesium/internal/channel Channel.Validate *)
Definition ts_valid (k : N) (c : echan) : bool :=
  (0 <? k) && negb (e_dt c =? 0) && negb (name_eqb (e_name c) "") &&
  (if e_virt c then e_index c =? 0
   else if e_isidx c then (e_dt c =? dt_timestamp) && ((e_index c =? 0) || (e_index c =? k))
   else negb (e_index c =? 0)).

(* DB.createChannel = validateNewChannel + openVirtualOrUnary *)
Definition ts_create1 (e : engine) (k : N) (c : echan) : engine * err :=
  if negb (ts_valid k c) then (e, ETsInvalid) else
  match e !! k with
  | Some _ => (e, ETsExists)
  | None =>
      if e_virt c then (<[k := c]> e, EOk) else
      if negb (e_index c =? 0) && negb (e_isidx c) then
        match e !! e_index c with
        | Some ic =>
            if e_virt ic then (e, EIndexNotFound)      (* only unary DBs are searched *)
            else if e_isidx ic then (<[k := c]> e, EOk) else (e, ENotAnIndex)
        | None => (e, EIndexNotFound)
        end
      else
        (<[k := EChan (e_name c) (e_dt c) (e_isidx c) (if e_isidx c then k else e_index c) (e_virt c)]> e, EOk)
  end.

(* DB.CreateChannel(chs...): sequential, stops at the first error, earlier ones stay *)
Fixpoint ts_create (e : engine) (l : list (N * echan)) : engine * err :=
  match l with
  | [] => (e, EOk)
  | (k, c) :: r => let '(e', er) := ts_create1 e k c in
                   if is_ok er then ts_create e' r else (e', er)
  end.

(* removeChannel on a unary index channel fails when another unary channel is indexed by it *)
Definition has_dependants (e : engine) (k : N) : bool :=
  existsb (fun kc => negb (kc.1 =? k) && negb (e_virt kc.2) && (e_index kc.2 =? k)) (map_to_list e).

(* DeleteChannels, first pass: non-index unary channels are removed, index channels collected.
   [fixed = false] is the pinned upstream code: a key that is not a unary channel (so every virtual
   channel) is skipped.  [fixed = true] (tree after fix F9) removes virtual channels here, as
   DeleteChannel does. Throughout this file [fixed] selects between the pinned upstream tree and
   /repo after the fix: commits of this property (F9 here, F40 in create, F44 in
   retrieveExistingAndAssignKeys, F45 in rename). *)
Fixpoint ts_del_pass1 (fixed : bool) (e : engine) (keys : list N) (idxs : list N) : engine * list N :=
  match keys with
  | [] => (e, idxs)
  | k :: r =>
      match e !! k with
      | Some c =>
          if e_virt c then ts_del_pass1 fixed (if fixed then delete k e else e) r idxs
          else if e_isidx c then ts_del_pass1 fixed e r (idxs ++ [k])
          else ts_del_pass1 fixed (delete k e) r idxs
      | None => ts_del_pass1 fixed e r idxs
      end
  end.
(* second pass: index channels; a key listed twice is gone the second time and the directory
   rename fails *)
Fixpoint ts_del_pass2 (e : engine) (idxs : list N) : engine * err :=
  match idxs with
  | [] => (e, EOk)
  | k :: r =>
      match e !! k with
      | Some _ => if has_dependants e k then (e, EIndexHasDependants) else ts_del_pass2 (delete k e) r
      | None => (e, EFsRename)
      end
  end.
Definition ts_delete (fixed : bool) (e : engine) (keys : list N) : engine * err :=
  let '(e1, idxs) := ts_del_pass1 fixed e keys [] in ts_del_pass2 e1 idxs.

(* DeleteChannel (singular): an index channel with dependants is refused, anything else — unary or
   virtual — is removed; an unknown key is not an error *)
Definition ts_delete1 (e : engine) (k : N) : engine * err :=
  match e !! k with
  | Some c => if negb (e_virt c) && e_isidx c && has_dependants e k then (e, EIndexHasDependants)
              else (delete k e, EOk)
  | None => (e, EOk)
  end.

(* RenameChannels: sequential *)
Fixpoint ts_rename (e : engine) (kn : list (N * string)) : engine * err :=
  match kn with
  | [] => (e, EOk)
  | (k, n) :: r =>
      match e !! k with
      | Some c => if name_eqb n "" then (e, ENameRequired)   (* the channel's meta file is validated *)
                  else ts_rename (<[k := EChan n (e_dt c) (e_isidx c) (e_index c) (e_virt c)]> e) r
      | None => (e, ENotFound)
      end
  end.

(* ------------------------------------------------------------------ cluster state *)
Notation table := (gmap N chan).
Record st := St {
  s_tab : table;            (* cluster metadata: key -> channel *)
  s_eng : gmap N engine;    (* node -> its time-series engine; dom = the nodes of the cluster *)
  s_ctr : gmap N N;         (* node -> leased local-key counter (persisted in the cluster KV) *)
  s_free : N;               (* free local-key counter (bootstrapper) *)
  s_amb : bool              (* set when the Go code's outcome depends on map iteration order or
                               on which of several same-named channels a lookup returns first *)
}.
Definition upd_tab (s : st) (t : table) : st := St t (s_eng s) (s_ctr s) (s_free s) (s_amb s).
Definition upd_amb (s : st) (b : bool) : st := St (s_tab s) (s_eng s) (s_ctr s) (s_free s) (s_amb s || b).
Definition eng_of (s : st) (n : N) : engine := default ∅ (s_eng s !! n).
Definition upd_eng (s : st) (n : N) (e : engine) : st :=
  St (s_tab s) (<[n := e]> (s_eng s)) (s_ctr s) (s_free s) (s_amb s).
Definition is_node (s : st) (n : N) : bool := bool_decide (is_Some (s_eng s !! n)).

Definition key_le (a b : N * chan) : Prop := (a.1 <= b.1)%N.
Global Instance key_le_dec a b : Decision (key_le a b) := decide (a.1 <= b.1)%N.
Definition sorted_tab (t : table) : list (N * chan) := merge_sort key_le (map_to_list t).

(* channels currently holding a name, ascending key *)
Definition holders (t : table) (n : string) : list (N * chan) :=
  filter (fun kc => c_name kc.2 = n) (sorted_tab t).
Definition count_name (n : string) (names : list string) : nat :=
  length (filter (fun m => m = n) names).
(* MatchNames: through the name index when every name is a literal (result in request order),
   else a table scan (table order). [amb]: some requested name has several holders, or is requested
   twice and held. *)
Definition lookup_names (t : table) (names : list string) : list (N * chan) * bool :=
  let amb := existsb (fun n => (2 <=? length (holders t n))%nat ||
                               ((2 <=? count_name n names)%nat && (1 <=? length (holders t n))%nat)) names in
  if (match names with [] => false | _ => true end) && forallb valid_name names
  then (flat_map (holders t) (remove_dups names), amb)   (* the name index returns each listed value's bucket once *)
  else (filter (fun kc => existsb (name_eqb (c_name kc.2)) names) (sorted_tab t), amb).

Fixpoint first_dup (seen : list string) (names : list string) : bool :=
  match names with
  | [] => false
  | n :: r => if existsb (name_eqb n) seen then true else first_dup (n :: seen) r
  end.

(* validateChannelNames *)
Fixpoint name_conflict (t : table) (kn : list (N * string)) : err * bool :=
  match kn with
  | [] => (EOk, false)
  | (k, n) :: r =>
      match reverse (holders t n) with
      | [] => name_conflict t r
      | (hk, _) :: more =>
          let amb := match more with [] => false | _ => true end in
          if hk =? k then let '(e, a) := name_conflict t r in (e, a || amb)
          else (ENameExists, amb)
      end
  end.
Definition validate_names (t : table) (keys : list N) (names : list string) (skip : bool) : err * bool :=
  if negb (forallb valid_name names) then (EInvalidName, false) else
  if first_dup [] names then (EDupInRequest, false) else
  if skip then (EOk, false) else name_conflict t (zip keys names).

(* ------------------------------------------------------------------ create *)
Record copts := COpts { o_retr : bool; o_over : bool }.

Fixpoint index_where {A} (p : A -> bool) (l : list A) : option nat :=
  match l with
  | [] => None
  | x :: r => if p x then Some 0%nat else S <$> index_where p r
  end.

(* counter.add *)
Definition ctr_add (v delta : N) : option N := if max_local <? v + delta then None else Some (v + delta).

(* retrieveExistingAndAssignKeys *)
Fixpoint assign_keys (orig : N) (chs : list chan) (created : list chan) : list chan * list chan :=
  match chs with
  | [] => ([], created)
  | c :: r =>
      if c_lkey c =? 0 then
        let k := orig + N.of_nat (length created) + 1 in
        let c1 := set_lkey c k in
        let c2 := if c_isidx c1 then set_lidx c1 k else c1 in
        let '(r', cr) := assign_keys orig r (created ++ [c2]) in (c2 :: r', cr)
      else
        let c2 := if c_isidx c then set_lidx c (c_lkey c) else c in
        let '(r', cr) := assign_keys orig r created in (c2 :: r', cr)
  end.
(* [fixed] (fix F44): the number of keys to reserve is decremented once per replaced request
   entry; the pinned upstream code decremented once per existing channel of that name *)
Fixpoint apply_existing (fixed : bool) (names : list string) (existing : list (N * chan)) (chs : list chan)
         (inc : N) (replaced : list nat) : list chan * N :=
  match existing with
  | [] => (chs, inc)
  | (_, e) :: r =>
      match index_where (name_eqb (c_name e)) names with
      | Some i =>
          if fixed && bool_decide (i ∈ replaced)
          then apply_existing fixed names r (<[i := e]> chs) inc replaced
          else apply_existing fixed names r (<[i := e]> chs) (if inc =? 0 then 0 else inc - 1) (i :: replaced)
      | None => apply_existing fixed names r chs inc replaced
      end
  end.
(* returns (error, counter', channels', toCreate, ambiguous) *)
Definition retrieve_assign (fixed : bool) (t : table) (ctr : N) (chs : list chan) (retr : bool)
  : err * N * list chan * list chan * bool :=
  let names := c_name <$> chs in
  let '(chs1, inc, amb) :=
    if retr then let '(ex, amb) := lookup_names t names in
                 let '(c1, i1) := apply_existing fixed names ex chs (N.of_nat (length chs)) [] in (c1, i1, amb)
    else (chs, N.of_nat (length chs), false) in
  match ctr_add ctr inc with
  | None => (ECounterOverflow, ctr, chs1, [], amb)
  | Some next =>
      let '(chs2, created) := assign_keys (next - inc) chs1 [] in (EOk, next, chs2, created, amb)
  end.

(* deleteOverwritten, the loop over the existing same-named channels *)
Fixpoint over_loop (existing : list (N * chan)) (chs : list chan) (del : list N) : list chan * list N :=
  match existing with
  | [] => (chs, del)
  | (ek, ex) :: r =>
      match index_where (fun c => name_eqb (c_name c) (c_name ex) && negb (chan_key c =? ek)) chs with
      | None => over_loop r chs del
      | Some i =>
          match chs !! i with
          | Some c => if equal_props c ex then over_loop r (<[i := ex]> chs) del
                      else over_loop r chs (del ++ [ek])
          | None => over_loop r chs del
          end
      end
  end.
Definition tab_delete (t : table) (keys : list N) : table := foldr delete t keys.
(* runs on [host]: table delete, then host's engine DeleteChannels *)
Definition delete_overwritten (fixed : bool) (host : N) (s : st) (chs : list chan) : st * err * list chan :=
  match chs with
  | [] => (s, EOk, chs)
  | _ =>
      let '(ex, amb) := lookup_names (s_tab s) (c_name <$> chs) in
      let '(chs', del) := over_loop ex chs [] in
      let s1 := upd_amb (upd_tab s (tab_delete (s_tab s) del)) amb in
      let '(e', er) := ts_delete fixed (eng_of s1 host) del in
      (upd_eng s1 host e', er, chs')
  end.

Definition tab_insert (t : table) (chs : list chan) : table :=
  foldl (fun t c => <[chan_key c := c]> t) t chs.

(* validateFreeVirtual *)
Definition names_required (chs : list chan) : bool := forallb (fun c => negb (name_eqb (c_name c) "")) chs.

(* createGateway on [host] *)
Definition create_gateway (fixed : bool) (host : N) (s : st) (chs : list chan) (o : copts)
  : st * err * list chan :=
  let '(s1, er1, chs1) := if o_over o then delete_overwritten fixed host s chs else (s, EOk, chs) in
  if negb (is_ok er1) then (s1, er1, []) else
  if negb (names_required chs1) then (s1, ENameRequired, []) else
  let '(er2, ctr', chs2, created, amb) :=
      retrieve_assign fixed (s_tab s1) (default 0 (s_ctr s1 !! host)) chs1 (o_retr o) in
  let s2 := upd_amb (St (s_tab s1) (s_eng s1) (<[host := ctr']> (s_ctr s1)) (s_free s1) (s_amb s1)) amb in
  if negb (is_ok er2) then (s2, er2, []) else
  let '(e', er3) := ts_create (eng_of s2 host) ((fun c => (chan_key c, to_echan c)) <$> created) in
  let s3 := upd_eng s2 host e' in
  if negb (is_ok er3) then (s3, er3, []) else
  (upd_tab s3 (tab_insert (s_tab s3) created), EOk, chs2).

Definition auto_index (c : chan) : chan :=
  Chan (c_name c +:+ calc_suffix) node_free dt_timestamp true 0 0 true (c_int c) 0.

(* first channel of [pool] that is the auto index of calculated channel [c] (by name) *)
Definition find_auto_index (pool : list chan) (c : chan) : option chan :=
  snd <$> list_find (fun p => name_eqb (c_name p) (c_name c +:+ calc_suffix) && c_isidx p) pool.
Definition needs_link (c : chan) : bool := is_calc c && (c_lidx c =? 0).

(* indices of the elements satisfying p *)
Fixpoint indices_where {A} (p : A -> bool) (l : list A) (i : nat) : list nat :=
  match l with
  | [] => []
  | x :: r => if p x then i :: indices_where p r (S i) else indices_where p r (S i)
  end.

(* createAndUpdateFreeVirtual, first step: request entries that carry the key of an existing row
   (clients re-submit a calculated channel WITH its key to change name / expression). gorp's
   Update over the bare key list finds nothing unless EVERY key of the request exists — a single
   entry without a key (its key is NewKey(free, 0), never a row) makes the whole update a no-op,
   which the Go code accepts (not-found is skipped). With retrieve-if-exists the request entry is
   reset to the stored row instead. *)
Definition update_row (c ic : chan) : chan :=
  if is_calc c && is_calc ic
  then Chan (c_name ic) (c_lease c) (c_dt ic) (c_isidx c) (c_lkey c) (c_lidx ic) (c_virt c) (c_int c) (c_expr ic)
  else set_name c (c_name ic).
Definition update_existing (s : st) (chs : list chan) (retr : bool) : st * list chan :=
  let keys := chan_key <$> chs in
  let ex := filter (fun k => negb (k =? 0)) keys in
  match ex with
  | [] => (s, chs)
  | _ =>
      if forallb (fun k => bool_decide (is_Some (s_tab s !! k))) ex then
        foldl (fun '(s', chs') k =>
                 match s_tab s !! k, index_where (N.eqb k) keys with
                 | Some c, Some i =>
                     match chs !! i with
                     | Some ic => if retr then (s', <[i := c]> chs')
                                  else (upd_tab s' (<[k := update_row c ic]> (s_tab s')), chs')
                     | None => (s', chs')
                     end
                 | _, _ => (s', chs')
                 end) (s, chs) ex
      else (s, chs)
  end.

(* createAndUpdateFreeVirtual on the bootstrapper, after the update-by-key step *)
Definition create_free_body (fixed : bool) (host : N) (s : st) (chs : list chan) (o : copts)
  : st * err * list chan :=
  let '(s1, er1, chs1) := if o_over o then delete_overwritten fixed host s chs else (s, EOk, chs) in
  if negb (is_ok er1) then (s1, er1, []) else
  (* existing calculated channels (substituted by deleteOverwritten) that have no index yet *)
  let existing_calc (c : chan) := negb (c_lkey c =? 0) && needs_link c in
  let need_idx := indices_where existing_calc chs1 0 in
  let chs1b := chs1 ++ (auto_index <$> filter existing_calc chs1) in
  let '(er2, ctr', chs2, created, amb) := retrieve_assign fixed (s_tab s1) (s_free s1) chs1b (o_retr o) in
  let s2 := upd_amb (St (s_tab s1) (s_eng s1) (s_ctr s1) ctr' (s_amb s1)) amb in
  if negb (is_ok er2) then (s2, er2, []) else
  (* link new calculated channels to their index, in toCreate ... *)
  let created' := (fun c => if needs_link c then
                              match find_auto_index created c with Some p => set_lidx c (c_lkey p) | None => c end
                            else c) <$> created in
  (* ... and in the caller's slice: the first calculated channel of that name *)
  let chs3 := foldl (fun acc c =>
                 if needs_link c then
                   match find_auto_index created c with
                   | Some p =>
                       match index_where (fun q => name_eqb (c_name q) (c_name c) && is_calc q) acc with
                       | Some k => alter (fun q => set_lidx q (c_lkey p)) k acc
                       | None => acc
                       end
                   | None => acc
                   end
                 else acc) chs2 created in
  (* existing calculated channels are linked to the first index of that name in the whole slice *)
  let '(chs4, upd) := foldl (fun '(acc, upd) i =>
                 match acc !! i with
                 | Some c =>
                     match find_auto_index acc c with
                     | Some p => let c' := set_lidx c (c_lkey p) in (<[i := c']> acc, upd ++ [c'])
                     | None => (acc, upd)
                     end
                 | None => (acc, upd)
                 end) (chs3, []) need_idx in
  let t1 := tab_insert (s_tab s2) created' in
  let '(t2, er3) := foldl (fun '(t, er) c =>
                      if negb (is_ok er) then (t, er) else
                      match t !! chan_key c with
                      | Some old => (<[chan_key c := set_lidx old (c_lidx c)]> t, EOk)
                      | None => (t, ENotFound) end) (t1, EOk) upd in
  if negb (is_ok er3) then (upd_tab s2 t2, er3, []) else (upd_tab s2 t2, EOk, chs4).

Definition create_free (fixed : bool) (host : N) (s : st) (chs : list chan) (o : copts)
  : st * err * list chan :=
  if negb (names_required chs) then (s, ENameRequired, []) else
  let '(s0, chs0) := update_existing s chs (o_retr o) in
  create_free_body fixed host s0 chs0 o.

(* create(): defaulting / calculated normalisation, may fail on a calculated channel with an index *)
Fixpoint normalise (host : N) (chs : list chan) : option (list chan) :=
  match chs with
  | [] => Some []
  | c :: r =>
      let c1 := if c_lease c =? 0 then set_lease c host else c in
      if is_calc c then
        if negb (c_lidx c =? 0) && (c_lkey c =? 0) then None
        else (fun r' => set_virt (set_lease c1 node_free) true :: r') <$> normalise host r
      else (fun r' => (if negb (c_lkey c =? 0) then set_lkey c1 0 else c1) :: r') <$> normalise host r
  end.

(* hasCalculatedIndex *)
Definition has_auto_index (chs : list chan) (c : chan) : bool :=
  existsb (fun p => name_eqb (c_name p) (c_name c +:+ calc_suffix) && c_isidx p && c_virt p && is_free p &&
                    (c_lkey p =? 0)) chs.

Definition nodup_N (l : list N) : list N := remove_dups l.
Definition nle (a b : N) : Prop := (a <= b)%N.
Global Instance nle_dec a b : Decision (nle a b) := decide (a <= b)%N.
Definition peers_of (host : N) (leases : list N) : list N :=
  merge_sort nle (nodup_N (filter (fun l => negb (l =? node_free) && negb (l =? host)) leases)).

Definition res := (err * list chan)%type.

(* tx semantics of a transport handler: metadata writes are committed only on success; engine
   and counter writes are immediate *)
Definition rollback (before after : st) (er : err) : st :=
  if is_ok er then after else St (s_tab before) (s_eng after) (s_ctr after) (s_free after) (s_amb after).

Section create.
  Context (fixed validate : bool).
  (* [remote target s chs o]: createRemote *)
  Context (remote : N -> st -> list chan -> copts -> st * res).

  Fixpoint create_peers (s : st) (peers : list N) (chs : list chan) (o : copts) (acc : list chan)
    : st * err * list chan :=
    match peers with
    | [] => (s, EOk, acc)
    | p :: r =>
        let mine := filter (fun c => c_lease c =? p) chs in
        let '(s', (er, out)) := remote p s mine o in
        if is_ok er then create_peers s' r chs o (acc ++ out) else (s', er, [])
    end.

  Definition create_on (host : N) (s : st) (chs0 : list chan) (o : copts) : st * res :=
    let '(er0, amb0) :=
      if validate then validate_names (s_tab s) (chan_key <$> chs0) (c_name <$> chs0) (o_retr o || o_over o)
      else (EOk, false) in
    let s := upd_amb s amb0 in
    if negb (is_ok er0) then (s, (er0, [])) else
    match normalise host chs0 with
    | None => (s, (ECalcIndex, []))
    | Some chs1 =>
        (* [fixed]: a request forwarded by another node already carries the index (fix F40);
           the pinned upstream code appended a second one *)
        let chs := chs1 ++ (auto_index <$> filter (fun c => is_calc c && (c_lkey c =? 0) &&
                                                            negb (fixed && has_auto_index chs1 c)) chs1) in
        (* the same name twice in the extended list (only possible through a generated index name
           or with validation off): the handlers of different nodes look names up in replicas that
           may or may not have received each other's writes yet *)
        let s := upd_amb s (first_dup [] (c_name <$> chs) && (validate || o_retr o || o_over o)) in
        let peers := peers_of host (c_lease <$> chs) in
        let '(s1, er1, out1) := create_peers s peers chs o [] in
        (* several peers and a failure: Go iterates a map, the set of peers served is arbitrary *)
        let s1 := upd_amb s1 (negb (is_ok er1) && (2 <=? length peers)%nat) in
        if negb (is_ok er1) then (s1, (er1, [])) else
        let free := filter is_free chs in
        let '(s2, er2, out2) :=
          match free with
          | [] => (s1, EOk, [])
          | _ => if host =? node_boot then create_free fixed host s1 free o
                 else let '(s', (er, out)) := remote node_boot s1 free o in (s', er, out)
          end in
        if negb (is_ok er2) then (s2, (er2, [])) else
        let '(s3, er3, out3) := create_gateway fixed host s2 (filter (fun c => c_lease c =? host) chs) o in
        if negb (is_ok er3) then (s3, (er3, [])) else (s3, (EOk, out1 ++ out2 ++ out3))
    end.
End create.

(* createRemote: Resolve(target) then the handler on the target (tx, commit on success only).
   On the target no channel can be routed further (all leased to the target, or free on the
   bootstrapper), so the nested remote is unreachable. *)
Definition remote0 (p : N) (s : st) (chs : list chan) (o : copts) : st * res := (s, (EUnreachable, [])).
Definition create_remote (fixed validate : bool) (p : N) (s : st) (chs : list chan) (o : copts) : st * res :=
  if negb (is_node s p) then (s, (ENoNode, [])) else
  let '(s', (er, out)) := create_on fixed validate remote0 p s chs o in
  (rollback s s' er, (er, out)).
Definition create (fixed validate : bool) (host : N) (s : st) (chs : list chan) (o : copts) : st * res :=
  create_on fixed validate (create_remote fixed validate) host s chs o.

(* ------------------------------------------------------------------ delete *)
Definition any_internal (t : table) (keys : list N) : bool :=
  existsb (fun k => match t !! k with Some c => c_int c | None => false end) keys.

(* deleteGateway on [host] *)
Definition delete_gateway (fixed : bool) (host : N) (s : st) (keys : list N) : st * err :=
  let s1 := upd_tab s (tab_delete (s_tab s) keys) in
  let '(e', er) := ts_delete fixed (eng_of s1 host) keys in
  (upd_eng s1 host e', er).

(* deleteHandler on a peer: s.delete(tx, keys, false): all keys are leased to the peer *)
Definition delete_remote (fixed : bool) (p : N) (s : st) (keys : list N) : st * err :=
  if negb (is_node s p) then (s, ENoNode) else
  if any_internal (s_tab s) keys then (s, EInternal) else
  let '(s', er) := delete_gateway fixed p s keys in (rollback s s' er, er).

Fixpoint delete_peers (fixed : bool) (s : st) (peers : list N) (keys : list N) : st * err :=
  match peers with
  | [] => (s, EOk)
  | p :: r =>
      let '(s', er) := delete_remote fixed p s (filter (fun k => leaseholder k =? p) keys) in
      if is_ok er then delete_peers fixed s' r keys else (s', er)
  end.

Definition delete_keys (fixed : bool) (host : N) (s : st) (keys : list N) : st * res :=
  if any_internal (s_tab s) keys then (s, (EInternal, [])) else
  let peers := peers_of host (leaseholder <$> keys) in
  let '(s1, er1) := delete_peers fixed s peers keys in
  let s1 := upd_amb s1 (negb (is_ok er1) && (2 <=? length peers)%nat) in
  if negb (is_ok er1) then (s1, (er1, [])) else
  let free := filter (fun k => leaseholder k =? node_free) keys in
  let s2 := upd_tab s1 (tab_delete (s_tab s1) free) in
  let '(s3, er3) := delete_gateway fixed host s2 (filter (fun k => leaseholder k =? host) keys) in
  (s3, (er3, [])).

Definition delete_by_name (fixed : bool) (host : N) (s : st) (names : list string) : st * res :=
  let '(ex, _) := lookup_names (s_tab s) names in
  (* a name requested twice yields its holder twice; harmless for a delete except on index keys *)
  delete_keys fixed host s (fst <$> ex).

(* ------------------------------------------------------------------ rename *)
(* gorp Update Where MatchKeys: all keys must exist; channelNameUpdater (first index of the key) *)
Definition tab_rename (t : table) (keys : list N) (names : list string) : table * err :=
  if negb (forallb (fun k => bool_decide (is_Some (t !! k))) keys) then (t, ENotFound) else
  if any_internal t keys then (t, EInternal) else
  (foldl (fun t' k => match t !! k, index_where (N.eqb k) keys with
                      | Some c, Some i => <[k := set_name c (default "" (names !! i))]> t'
                      | _, _ => t' end) t keys, EOk).

Definition rename_gateway (host : N) (s : st) (keys : list N) (names : list string) : st * err :=
  let '(t', er) := tab_rename (s_tab s) keys names in
  if negb (is_ok er) then (s, er) else
  let s1 := upd_tab s t' in
  let '(e', er2) := ts_rename (eng_of s1 host) (zip keys names) in
  (upd_eng s1 host e', er2).

Section rename.
  Context (fixed validate : bool).
  (* [fixed] (fix F91): a name is required even with validation off; the pinned upstream code let the
     empty name through to the engine, which refused it after the metadata row had been renamed *)
  Definition rename_checks (s : st) (keys : list N) (names : list string) : err * bool :=
    if negb (length keys =? length names)%nat then (ELenMismatch, false) else
    if fixed && existsb (fun n => name_eqb n "") names then (ENameRequired, false) else
    if validate then validate_names (s_tab s) keys names false else (EOk, false).

  (* renameFreeVirtual: metadata only *)
  Definition rename_free (s : st) (free : list (N * string)) : st * err :=
    match free with
    | [] => (s, EOk)
    | _ => let '(t', er) := tab_rename (s_tab s) (fst <$> free) (snd <$> free) in
           (if is_ok er then upd_tab s t' else s, er)
    end.

  (* renameHandler on node p (tx): s.rename there; the entries are leased to p or, on the
     bootstrapper, free *)
  Definition rename_remote (p : N) (s : st) (kn : list (N * string)) : st * err :=
    if negb (is_node s p) then (s, ENoNode) else
    let keys := fst <$> kn in let names := snd <$> kn in
    let '(er0, amb) := rename_checks s keys names in
    let s := upd_amb s amb in
    if negb (is_ok er0) then (s, er0) else
    let free := filter (fun x => leaseholder x.1 =? node_free) kn in
    let own := filter (fun x => leaseholder x.1 =? p) kn in
    let '(s1, er1) := if p =? node_boot then rename_free s free
                      else match free with [] => (s, EOk) | _ => (s, EUnreachable) end in
    if negb (is_ok er1) then (rollback s s1 er1, er1) else
    match own with
    | [] => (s1, EOk)
    | _ => let '(s2, er2) := rename_gateway p s1 (fst <$> own) (snd <$> own) in (rollback s s2 er2, er2)
    end.

  Fixpoint rename_peers (s : st) (peers : list N) (kn : list (N * string)) : st * err :=
    match peers with
    | [] => (s, EOk)
    | p :: r =>
        let '(s', er) := rename_remote p s (filter (fun x => leaseholder x.1 =? p) kn) in
        if is_ok er then rename_peers s' r kn else (s', er)
    end.

  Definition rename_keys (host : N) (s : st) (keys : list N) (names : list string) : st * res :=
    let '(er0, amb) := rename_checks s keys names in
    let s := upd_amb s amb in
    if negb (is_ok er0) then (s, (er0, [])) else
    let kn := zip keys names in
    let peers := peers_of host (leaseholder <$> keys) in
    let '(s1, er1) := rename_peers s peers kn in
    let s1 := upd_amb s1 (negb (is_ok er1) && (2 <=? length peers)%nat) in
    if negb (is_ok er1) then (s1, (er1, [])) else
    let free := filter (fun x => leaseholder x.1 =? node_free) kn in
    (* [fixed] (fix F45): free renames are executed by the bootstrapper's handler; the pinned
       upstream code wrote from the gateway (and left the bootstrapper's name index stale, which
       this model does not reproduce) *)
    let '(s2, er2) :=
      match free with
      | [] => (s1, EOk)
      | _ => if fixed && negb (host =? node_boot) then rename_remote node_boot s1 free
             else rename_free s1 free
      end in
    if negb (is_ok er2) then (s2, (er2, [])) else
    let gw := filter (fun x => leaseholder x.1 =? host) kn in
    match gw with
    | [] => (s2, (EOk, []))
    | _ => let '(s3, er3) := rename_gateway host s2 (fst <$> gw) (snd <$> gw) in (s3, (er3, []))
    end.
End rename.

(* ------------------------------------------------------------------ operations *)
Inductive op :=
| Create (gw : N) (chs : list chan) (retr over : bool)
| Rename (gw : N) (keys : list N) (names : list string)
| Delete (gw : N) (keys : list N)
| DeleteByName (gw : N) (names : list string)
| Restart (node : N)                    (* channel service reopened over the same stores *)
| Bump (node : N) (free : bool) (delta : N)   (* counter.add(delta) on a node's leased/free counter *)
(* two creates issued in two overlapping transactions through one node: A is assigned its keys
   first, B second, B's transaction commits first, then A's *)
| CreatePair (gw : N) (a b : list chan)
(* the request runs in a transaction (as every API request does) while node n's engine fails the
   next time it persists a channel's meta file *)
| FaultedCreate (n gw : N) (chs : list chan)
| FaultedRename (n gw : N) (keys : list N) (names : list string).

(* every entry of the request is leased to n *)
Definition all_leased_to (n gw : N) (chs : list chan) : bool :=
  match chs with [] => false | _ => forallb (fun c => negb (is_calc c) && ((if c_lease c =? 0 then gw else c_lease c) =? n)) chs end.

Definition step (fixed validate : bool) (s : st) (o : op) : st * res :=
  match o with
  | Create gw chs retr over => create fixed validate gw s chs (COpts retr over)
  | Rename gw keys names => rename_keys fixed validate gw s keys names
  | Delete gw keys => delete_keys fixed gw s keys
  | DeleteByName gw names => delete_by_name fixed gw s names
  | Restart _ => (s, (EOk, []))
  | Bump n free delta =>
      if free then
        if n =? node_boot then
          match ctr_add (s_free s) delta with
          | Some v => (St (s_tab s) (s_eng s) (s_ctr s) v (s_amb s), (EOk, []))
          | None => (s, (ECounterOverflow, []))
          end
        else (s, (EOk, []))
      else
        match ctr_add (default 0 (s_ctr s !! n)) delta with
        | Some v => (St (s_tab s) (s_eng s) (<[n := v]> (s_ctr s)) (s_free s) (s_amb s), (EOk, []))
        | None => (s, (ECounterOverflow, []))
        end
  | CreatePair gw a b =>
      (* counters are written when the keys are reserved, not when the transaction commits, so
         the two requests behave like A then B; anything but two successes is not compared *)
      let '(s1, (e1, o1)) := create fixed validate gw s a (COpts false false) in
      if negb (is_ok e1) then (upd_amb s1 true, (e1, [])) else
      let '(s2, (e2, o2)) := create fixed validate gw s1 b (COpts false false) in
      if negb (is_ok e2) then (upd_amb s2 true, (e2, [])) else (s2, (EOk, o1 ++ o2))
  | FaultedCreate n gw chs =>
      (* all entries leased to n, the request would succeed: n's engine fails on the first channel,
         the handler / request transaction is abandoned: nothing is created anywhere; the keys
         reserved for the request stay reserved *)
      let '(s', (e, _)) := create fixed validate gw s chs (COpts false false) in
      if is_ok e && all_leased_to n gw chs && is_node s n
      then (St (s_tab s) (s_eng s) (s_ctr s') (s_free s') (s_amb s'), (EFault, []))
      else (upd_amb s' true, (e, []))
  | FaultedRename n gw keys names =>
      (* all keys leased to n, the request would succeed: n's engine fails on the first channel and
         keeps the old name, the metadata update is abandoned: nothing changes *)
      let '(s', (e, _)) := rename_keys fixed validate gw s keys names in
      if is_ok e && match keys with [] => false | _ => forallb (fun k => leaseholder k =? n) keys end
      then (upd_amb s (s_amb s'), (EFault, []))
      else (upd_amb s' true, (e, []))
  end.

Fixpoint run (fixed validate : bool) (s : st) (ops : list op) : st :=
  match ops with [] => s | o :: r => run fixed validate (step fixed validate s o).1 r end.

(* ------------------------------------------------------------------ decidable state predicates *)
(* how the engine stores a metadata row: an index channel is indexed by itself *)
Definition stored (c : chan) : echan :=
  EChan (c_name c) (c_dt c) (c_isidx c) (if c_isidx c then chan_key c else chan_index c) (c_virt c).

(* metadata of leased channels = union of the engines, row by row, each on its leaseholder *)
Definition consistent_b (s : st) : bool :=
  forallb (fun kc => is_free kc.2 ||
                     bool_decide (eng_of s (c_lease kc.2) !! kc.1 = Some (stored kc.2))) (map_to_list (s_tab s)) &&
  forallb (fun ne => forallb (fun ke =>
      match s_tab s !! ke.1 with
      | Some c => (c_lease c =? ne.1) && bool_decide (ke.2 = stored c)
      | None => false end) (map_to_list ne.2)) (map_to_list (s_eng s)).

Fixpoint nodup_names_b (l : list string) : bool :=
  match l with [] => true | x :: r => negb (existsb (name_eqb x) r) && nodup_names_b r end.
Definition names_ok_b (s : st) : bool :=
  let names := (fun kc => c_name kc.2) <$> map_to_list (s_tab s) in
  forallb valid_name names && nodup_names_b names.

Definition key_in_use_b (s : st) (k : N) : bool :=
  bool_decide (is_Some (s_tab s !! k)) ||
  existsb (fun ne => bool_decide (is_Some (ne.2 !! k))) (map_to_list (s_eng s)).
