(* Core/GorpListProofs.v — list lemmas shared by the C17 proofs: stable insertion sort,
   sort.Search (binary search) against its specification, membership helpers. *)
From Coq Require Import NArith ZArith List Lia.
From stdpp Require Import gmap.
From Synnax Require Import Core.Gorp.
Import ListNotations.
Local Open Scope Z_scope.

(* ---- boolean membership ---- *)
Lemma inZ_spec v vs : inZ v vs = true <-> v ∈ vs.
Proof.
  unfold inZ. rewrite existsb_exists. split.
  - intros (x & Hx & E). apply Z.eqb_eq in E as ->. by apply elem_of_list_In.
  - intros H. exists v. split; [by apply elem_of_list_In|apply Z.eqb_refl].
Qed.
Lemma inN_spec k ks : inN k ks = true <-> k ∈ ks.
Proof.
  unfold inN. rewrite existsb_exists. split.
  - intros (x & Hx & E). apply N.eqb_eq in E as ->. by apply elem_of_list_In.
  - intros H. exists k. split; [by apply elem_of_list_In|apply N.eqb_refl].
Qed.
Lemma inZ_false v vs : inZ v vs = false <-> v ∉ vs.
Proof. rewrite <- inZ_spec. destruct (inZ v vs); naive_solver. Qed.
Lemma inN_false k ks : inN k ks = false <-> k ∉ ks.
Proof. rewrite <- inN_spec. destruct (inN k ks); naive_solver. Qed.

(* ---- insertion sort ---- *)
Section isort.
  Context {A : Type} (leb : A -> A -> bool).

  Lemma ins_perm x l : ins leb x l ≡ₚ x :: l.
  Proof.
    induction l as [|y t IH]; simpl; [done|].
    destruct (leb y x); [|done]. rewrite IH. apply Permutation_swap.
  Qed.
  Lemma fold_ins_perm l acc : fold_left (fun a x => ins leb x a) l acc ≡ₚ l ++ acc.
  Proof.
    revert acc. induction l as [|x t IH]; intros acc; simpl; [done|].
    rewrite IH, ins_perm. by rewrite Permutation_middle.
  Qed.
  Lemma isort_perm l : isort leb l ≡ₚ l.
  Proof. unfold isort. rewrite fold_ins_perm. by rewrite app_nil_r. Qed.
  Lemma elem_of_isort x l : x ∈ isort leb l <-> x ∈ l.
  Proof. by rewrite isort_perm. Qed.
  Lemma isort_length l : length (isort leb l) = length l.
  Proof. by rewrite isort_perm. Qed.
  Lemma isort_nodup l : NoDup l -> NoDup (isort leb l).
  Proof. by rewrite isort_perm. Qed.

  Fixpoint lsorted (l : list A) : Prop :=
    match l with
    | [] => True
    | a :: t => (forall b, b ∈ t -> leb a b = true) /\ lsorted t
    end.

  Hypothesis total : forall a b, leb a b = false -> leb b a = true.
  Hypothesis trans : forall a b c, leb a b = true -> leb b c = true -> leb a c = true.

  Lemma ins_sorted x l : lsorted l -> lsorted (ins leb x l).
  Proof.
    induction l as [|y t IH]; simpl; intros Hs; [split; [intros b Hb; by apply elem_of_nil in Hb|done]|].
    destruct Hs as [Hy Hs]. destruct (leb y x) eqn:E; simpl.
    - split; [|by apply IH].
      intros b Hb. rewrite ins_perm in Hb. apply elem_of_cons in Hb as [->|Hb]; [done|by apply Hy].
    - split; [|by split].
      intros b Hb. apply elem_of_cons in Hb as [->|Hb]; [by apply total|].
      eapply trans; [by apply total|by apply Hy].
  Qed.
  Lemma fold_ins_sorted l acc : lsorted acc -> lsorted (fold_left (fun a x => ins leb x a) l acc).
  Proof. revert acc. induction l as [|x t IH]; intros acc H; simpl; [done|]. apply IH. by apply ins_sorted. Qed.
  Lemma isort_sorted l : lsorted (isort leb l).
  Proof. by apply fold_ins_sorted. Qed.
End isort.

(* ---- sort.Search ---- *)
Lemma half_bounds (i j : nat) : (i < j)%nat -> (i <= (i + j) / 2 < j)%nat.
Proof.
  intros H. pose proof (Nat.div_mod (i + j) 2%nat ltac:(lia)).
  pose proof (Nat.mod_upper_bound (i + j) 2%nat ltac:(lia)). lia.
Qed.

Lemma search_go_S fu f i j :
  search_go (S fu) f i j =
  if (i <? j)%nat
  then if f ((i + j) / 2)%nat then search_go fu f i ((i + j) / 2)%nat
       else search_go fu f (S ((i + j) / 2)) j
  else i.
Proof. reflexivity. Qed.

Lemma search_go_spec (f : nat -> bool) (n : nat) :
  (forall x y, (x <= y < n)%nat -> f x = true -> f y = true) ->
  forall fuel i j, (i <= j <= n)%nat -> (j - i < fuel)%nat ->
    (forall x, (x < i)%nat -> f x = false) ->
    (forall x, (j <= x < n)%nat -> f x = true) ->
    let r := search_go fuel f i j in
    (i <= r <= j)%nat /\ (forall x, (x < r)%nat -> f x = false) /\ (forall x, (r <= x < n)%nat -> f x = true).
Proof.
  intros mono. induction fuel as [|fu IH]; intros i j Hij Hfu Hlo Hhi; [lia|]. cbv zeta in *. rewrite search_go_S.
  destruct (i <? j)%nat eqn:E.
  - apply Nat.ltb_lt in E. pose proof (half_bounds i j E) as Hh.
    destruct (f ((i + j) / 2)%nat) eqn:Fh.
    + destruct (IH i ((i + j) / 2)%nat) as (H1 & H2 & H3); [lia|lia|done| |].
      { intros x Hx. apply (mono ((i + j) / 2)%nat); [lia|done]. }
      split; [lia|]. by split.
    + destruct (IH (S ((i + j) / 2)) j) as (H1 & H2 & H3); [lia|lia| |done|].
      { intros x Hx. destruct (f x) eqn:Fx; [|done].
        rewrite (mono x ((i + j) / 2)%nat) in Fh; [done|lia|done]. }
      split; [lia|]. by split.
  - apply Nat.ltb_ge in E. assert (i = j) by lia. subst. split; [lia|]. by split.
Qed.

(* search n f is the least index at which a monotone predicate holds (n if none) *)
Lemma search_spec (f : nat -> bool) (n : nat) :
  (forall x y, (x <= y < n)%nat -> f x = true -> f y = true) ->
  let r := search n f in
  (r <= n)%nat /\ (forall x, (x < r)%nat -> f x = false) /\ (forall x, (r <= x < n)%nat -> f x = true).
Proof.
  intros mono. unfold search. cbv zeta.
  destruct (search_go_spec f n mono (S n) 0%nat n) as (H1 & H2 & H3); [lia|lia|lia|lia|].
  split; [lia|]. by split.
Qed.

(* ---- sortedness over concatenation / by index ---- *)
Section lsorted_more.
  Context {A : Type} (leb : A -> A -> bool).
  Lemma lsorted_app l1 l2 :
    lsorted leb (l1 ++ l2) <->
    lsorted leb l1 /\ lsorted leb l2 /\ forall a b, a ∈ l1 -> b ∈ l2 -> leb a b = true.
  Proof.
    induction l1 as [|x t IH]; simpl.
    - split; [intros H; split; [done|split; [done|]]; intros a b Ha; by apply elem_of_nil in Ha|tauto].
    - rewrite IH. split.
      + intros (Hx & H1 & H2 & H3). split; [split; [|done]|split; [done|]].
        * intros b Hb. apply Hx. apply elem_of_app. by left.
        * intros a b Ha Hb. apply elem_of_cons in Ha as [->|Ha]; [|by apply H3].
          apply Hx. apply elem_of_app. by right.
      + intros ((Hx & H1) & H2 & H3). split; [|split; [done|split; [done|]]].
        * intros b Hb. apply elem_of_app in Hb as [Hb|Hb]; [by apply Hx|].
          apply H3; [by left|done].
        * intros a b Ha Hb. apply H3; [by right|done].
  Qed.
  Lemma lsorted_lookup l i j a b :
    lsorted leb l -> (i < j)%nat -> l !! i = Some a -> l !! j = Some b -> leb a b = true.
  Proof.
    revert i j. induction l as [|x t IH]; intros i j Hs Hij Hi Hj; [done|].
    destruct Hs as [Hx Hs]. destruct i as [|i], j as [|j]; try lia; simpl in *.
    - injection Hi as <-. apply Hx. by eapply elem_of_list_lookup_2.
    - eapply IH; [done| |done|done]. lia.
  Qed.
End lsorted_more.

Lemma nth_error_lookup {A} (l : list A) i : nth_error l i = l !! i.
Proof. revert i. induction l as [|x t IH]; intros [|i]; simpl; try done. Qed.

(* ---- List.rev ---- *)
Lemma elem_of_rev {A} (x : A) l : x ∈ rev l <-> x ∈ l.
Proof. rewrite !elem_of_list_In. symmetry. apply in_rev. Qed.
Lemma rev_perm {A} (l : list A) : rev l ≡ₚ l.
Proof. symmetry. apply Permutation_rev. Qed.
Lemma NoDup_rev' {A} (l : list A) : NoDup l -> NoDup (rev l).
Proof. by rewrite rev_perm. Qed.
