(* Core/GorpFilterProofs.v — the filter machinery (And/Or/Not composition, materializeFilters,
   intersectKeys/unionKeys, resolveFilter, execKeys/execFilter) computes the denotation [holds]:
   an indexed execution returns exactly the rows a full scan with the equivalent predicate
   returns, for every filter tree, given only that the index answers are complete. *)
From Coq Require Import NArith ZArith List Lia.
From stdpp Require Import gmap.
From Synnax Require Import Core.Gorp Core.GorpSpec Core.GorpListProofs.
Import ListNotations.
Local Open Scope Z_scope.

(* ---- induction over filter trees (nested lists) ---- *)
Lemma ftree_ind' (P : ftree -> Prop) :
  (forall ks, P (FKeys ks)) -> (forall c m v, P (FPred c m v)) -> (forall i vs, P (FIdx i vs)) ->
  (forall fs, Forall P fs -> P (FAnd fs)) -> (forall fs, Forall P fs -> P (FOr fs)) ->
  (forall f, P f -> P (FNot f)) -> forall f, P f.
Proof.
  intros HK HP HI HA HO HN. fix IH 1. intros f.
  destruct f as [ks|c m v|i vs|fs|fs|f].
  - apply HK.
  - apply HP.
  - apply HI.
  - apply HA. revert fs. fix IHl 1. intros [|x t]; constructor; [apply IH|apply IHl].
  - apply HO. revert fs. fix IHl 1. intros [|x t]; constructor; [apply IH|apply IHl].
  - apply HN, IH.
Qed.

(* ---- boolean plumbing ---- *)
Lemma bool_eq_iff (a b : bool) : (a = true <-> b = true) -> a = b.
Proof. destruct a, b; naive_solver. Qed.
Lemma forallb_elem {A} (p : A -> bool) l : forallb p l = true <-> forall x, x ∈ l -> p x = true.
Proof. rewrite forallb_forall. split; intros H x Hx; apply H; by apply elem_of_list_In. Qed.
Lemma existsb_elem {A} (p : A -> bool) l : existsb p l = true <-> exists x, x ∈ l /\ p x = true.
Proof. rewrite existsb_exists. split; intros (x & Hx & H); exists x; split; try done; by apply elem_of_list_In. Qed.
Lemma existsb_false_elem {A} (p : A -> bool) l : existsb p l = false <-> forall x, x ∈ l -> p x = false.
Proof.
  split.
  - intros H x Hx. destruct (p x) eqn:E; [|done].
    assert (existsb p l = true) by (apply existsb_elem; by exists x). congruence.
  - intros H. destruct (existsb p l) eqn:E; [|done].
    apply existsb_elem in E as (x & Hx & Hp). rewrite H in Hp; done.
Qed.
Lemma elem_of_lfilter {A} (p : A -> bool) l x : x ∈ List.filter p l <-> x ∈ l /\ p x = true.
Proof. rewrite !elem_of_list_In. apply filter_In. Qed.
Lemma NoDup_lfilter {A} (p : A -> bool) l : NoDup l -> NoDup (List.filter p l).
Proof.
  induction l as [|x t IH]; simpl; intros Hnd; [constructor|].
  apply NoDup_cons in Hnd as [Hx Hnd]. destruct (p x); [|by apply IH].
  apply NoDup_cons. split; [|by apply IH]. rewrite elem_of_lfilter. naive_solver.
Qed.

(* ---- evalChild ---- *)
Definition key_part (f : filt) (r : row) : bool :=
  match f_keys f with Some ks => inN (rk r) ks | None => true end.
Definition eval_part (f : filt) (r : row) : bool :=
  match f_eval f with Some e => e r | None => true end.
Lemma eval_child_parts f r : eval_child f r = key_part f r && eval_part f r.
Proof. unfold eval_child, key_part, eval_part. destruct (f_keys f); [destruct (inN _ _)|]; done. Qed.
Lemma and_eval_forallb fs r : and_eval fs r = forallb (fun c => eval_child c r) fs.
Proof. reflexivity. Qed.
Lemma contains_key_spec f k : contains_key f k = true <-> k ∈ keys_of f.
Proof.
  unfold contains_key, keys_of. destruct (f_keys f); simpl; [apply inN_spec|].
  rewrite elem_of_nil. naive_solver.
Qed.
Lemma key_part_spec f r : key_part f r = true <-> (forall ks, f_keys f = Some ks -> rk r ∈ ks).
Proof.
  unfold key_part. destruct (f_keys f) as [ks|].
  - rewrite inN_spec. naive_solver.
  - naive_solver.
Qed.

Lemma key_part_elim f r ks : key_part f r = true -> f_keys f = Some ks -> rk r ∈ ks.
Proof. intros H. by apply key_part_spec. Qed.

(* ---- intersectKeys ---- *)
Lemma bounded_elem fs c : c ∈ List.filter has_keys fs <-> c ∈ fs /\ exists ks, f_keys c = Some ks.
Proof.
  rewrite elem_of_lfilter. unfold has_keys. destruct (f_keys c); naive_solver.
Qed.
Lemma intersect_none fs : intersect_keys fs = None <-> forall c, c ∈ fs -> f_keys c = None.
Proof.
  unfold intersect_keys. destruct (List.filter has_keys fs) as [|b [|b' t]] eqn:E.
  - split; [|done]. intros _ c Hc. destruct (f_keys c) as [ks|] eqn:Ek; [|done].
    assert (c ∈ List.filter has_keys fs) by (apply bounded_elem; naive_solver).
    rewrite E in H. by apply elem_of_nil in H.
  - assert (Hb : b ∈ List.filter has_keys fs) by (rewrite E; by left).
    apply bounded_elem in Hb as (Hb & ks & Hk). rewrite Hk. split; [done|]. intros H. rewrite H in Hk; done.
  - assert (Hb : b ∈ List.filter has_keys fs) by (rewrite E; by left).
    apply bounded_elem in Hb as (Hb & ks & Hk). split; [done|]. intros H. rewrite H in Hk; done.
Qed.
Lemma intersect_some fs ks :
  intersect_keys fs = Some ks ->
  forall k, k ∈ ks <-> forall c ksc, c ∈ fs -> f_keys c = Some ksc -> k ∈ ksc.
Proof.
  unfold intersect_keys. destruct (List.filter has_keys fs) as [|b [|b' t]] eqn:E; [done| |].
  - intros Hk k. assert (Hb : forall c, c ∈ List.filter has_keys fs <-> c = b).
    { intros c. rewrite E. apply elem_of_list_singleton. }
    split.
    + intros Hin c ksc Hc Hkc. assert (c = b) as -> by (apply Hb, bounded_elem; naive_solver). congruence.
    + intros H. apply (H b); [|done]. assert (b ∈ List.filter has_keys fs) by (by apply Hb).
      by apply bounded_elem in H0 as [? _].
  - set (bd := b :: b' :: t) in *. intros [= <-] k.
    set (sorted := isort by_len bd).
    assert (Hne : sorted ≠ []).
    { intros Hs. assert (length sorted = length bd) by apply isort_length. rewrite Hs in H. done. }
    assert (Hsp : sorted = removelast sorted ++ [List.last sorted f_zero]) by (by apply app_removelast_last).
    assert (Hel : forall c, c ∈ sorted <-> c ∈ fs /\ exists ksc, f_keys c = Some ksc).
    { intros c. unfold sorted. rewrite elem_of_isort, <- E. apply bounded_elem. }
    rewrite elem_of_lfilter, forallb_elem. split.
    + intros [Hc Hr] c ksc Hcin Hkc.
      assert (Hcs : c ∈ sorted) by (apply Hel; naive_solver).
      rewrite Hsp in Hcs. apply elem_of_app in Hcs as [Hcs|Hcs].
      * specialize (Hr c Hcs). apply contains_key_spec in Hr. unfold keys_of in Hr. by rewrite Hkc in Hr.
      * apply elem_of_list_singleton in Hcs. subst c. unfold keys_of in Hc. by rewrite Hkc in Hc.
    + intros H.
      assert (Hall : forall c, c ∈ sorted -> k ∈ keys_of c).
      { intros c Hc. apply Hel in Hc as (Hc & ksc & Hkc). unfold keys_of. rewrite Hkc. simpl. by eapply H. }
      split.
      * apply Hall. rewrite Hsp at 2. apply elem_of_app. right. by left.
      * intros c Hc. apply contains_key_spec, Hall. rewrite Hsp. apply elem_of_app. by left.
Qed.
Lemma intersect_nodup fs ks :
  (forall c ksc, c ∈ fs -> f_keys c = Some ksc -> NoDup ksc) ->
  intersect_keys fs = Some ks -> NoDup ks.
Proof.
  intros Hnd. unfold intersect_keys. destruct (List.filter has_keys fs) as [|b [|b' t]] eqn:E; [done| |].
  - intros Hk. assert (Hb : b ∈ List.filter has_keys fs) by (rewrite E; by left).
    apply bounded_elem in Hb as (Hb & _). by eapply Hnd.
  - set (bd := b :: b' :: t) in *. intros [= <-]. apply NoDup_lfilter.
    set (sorted := isort by_len bd).
    assert (Hne : sorted ≠ []).
    { intros Hs. assert (length sorted = length bd) by apply isort_length. rewrite Hs in H. done. }
    assert (Hl : List.last sorted f_zero ∈ sorted).
    { rewrite (app_removelast_last f_zero Hne) at 2. apply elem_of_app. right. by left. }
    unfold sorted in Hl at 2. rewrite elem_of_isort, <- E in Hl. apply bounded_elem in Hl as (Hl & ksc & Hk).
    unfold keys_of. rewrite Hk. simpl. by eapply Hnd.
Qed.

(* ---- unionKeys ---- *)
Lemma union_walk_elem prior rest k :
  k ∈ union_walk prior rest <->
  (exists c, c ∈ rest /\ k ∈ keys_of c) /\ forall p, p ∈ prior -> k ∉ keys_of p.
Proof.
  revert prior. induction rest as [|f tl IH]; intros prior; simpl.
  - rewrite elem_of_nil. split; [done|]. intros [(c & Hc & _) _]. by apply elem_of_nil in Hc.
  - rewrite elem_of_app, elem_of_lfilter, IH. rewrite negb_true_iff, existsb_false_elem.
    assert (Hp : (forall p, p ∈ prior -> contains_key p k = false) <-> (forall p, p ∈ prior -> k ∉ keys_of p)).
    { split; intros H p Hp; specialize (H p Hp).
      - intros Hin. apply contains_key_spec in Hin. congruence.
      - destruct (contains_key p k) eqn:E; [|done]. apply contains_key_spec in E. done. }
    rewrite Hp. split.
    + intros [[Hk Hpr]|[(c & Hc & Hk) Hpr]].
      * split; [exists f; split; [by left|done]|done].
      * split; [exists c; split; [by right|done]|]. intros p Hpin. apply Hpr. apply elem_of_app. by left.
    + intros [(c & Hc & Hk) Hpr]. destruct (decide (k ∈ keys_of f)) as [Hkf|Hkf]; [by left|right].
      apply elem_of_cons in Hc as [->|Hc]; [done|].
      split; [by exists c|]. intros p Hpin. apply elem_of_app in Hpin as [Hpin|Hpin]; [by apply Hpr|].
      apply elem_of_list_singleton in Hpin. by subst p.
Qed.
Lemma union_walk_nodup prior rest :
  (forall c, c ∈ rest -> NoDup (keys_of c)) -> NoDup (union_walk prior rest).
Proof.
  revert prior. induction rest as [|f tl IH]; intros prior Hnd; simpl; [constructor|].
  apply NoDup_app. split; [apply NoDup_lfilter, Hnd; by left|]. split.
  - intros k Hk Hk'. apply elem_of_lfilter in Hk as [Hk _].
    apply union_walk_elem in Hk' as [_ Hpr]. apply (Hpr f); [|done]. apply elem_of_app. right. by left.
  - apply IH. intros c Hc. apply Hnd. by right.
Qed.
Lemma union_some fs ks :
  union_keys fs = Some ks ->
  fs ≠ [] /\ (forall c, c ∈ fs -> exists ksc, f_keys c = Some ksc) /\
  forall k, k ∈ ks <-> exists c, c ∈ fs /\ k ∈ keys_of c.
Proof.
  unfold union_keys. destruct fs as [|f0 tl]; [done|]. set (fs := f0 :: tl).
  destruct (forallb has_keys fs) eqn:E; [|done]. intros [= <-].
  split; [done|]. split.
  - intros c Hc. rewrite forallb_elem in E. specialize (E c Hc). unfold has_keys in E.
    destruct (f_keys c); [by eexists|done].
  - intros k. rewrite union_walk_elem. split.
    + intros [(c & Hc & Hk) _]. exists c. split; [|done]. by apply elem_of_isort in Hc.
    + intros (c & Hc & Hk). split; [exists c; split; [by apply elem_of_isort|done]|].
      intros p Hp. by apply elem_of_nil in Hp.
Qed.
Lemma union_none fs : union_keys fs = None -> fs = [] \/ exists c, c ∈ fs /\ f_keys c = None.
Proof.
  unfold union_keys. destruct fs as [|f0 tl]; [by left|]. set (fs := f0 :: tl).
  destruct (forallb has_keys fs) eqn:E; [done|]. intros _. right.
  destruct (existsb (fun c => negb (has_keys c)) fs) eqn:E2.
  - apply existsb_elem in E2 as (c & Hc & Hk). exists c. split; [done|].
    unfold has_keys in Hk. by destruct (f_keys c).
  - rewrite existsb_false_elem in E2.
    assert (forallb has_keys fs = true); [|congruence].
    apply forallb_elem. intros c Hc. specialize (E2 c Hc). by apply negb_false_iff in E2.
Qed.
Lemma union_nodup fs ks :
  (forall c ksc, c ∈ fs -> f_keys c = Some ksc -> NoDup ksc) -> union_keys fs = Some ks -> NoDup ks.
Proof.
  intros Hnd. unfold union_keys. destruct fs as [|f0 tl]; [done|]. set (fs := f0 :: tl) in *.
  destruct (forallb has_keys fs) eqn:E; [|done]. intros [= <-].
  apply union_walk_nodup. intros c Hc. apply elem_of_isort in Hc.
  unfold keys_of. destruct (f_keys c) eqn:Ek; simpl; [by eapply Hnd|constructor].
Qed.

(* ---- structure of built filters ---- *)
Lemma has_res_build f : has_res (build f) = has_idx f.
Proof.
  induction f as [ks|c m v|i vs|fs IH|fs IH|f IH] using ftree_ind'; simpl; try done.
  - unfold mk_and. assert (E : existsb has_res (map build fs) = existsb has_idx fs).
    { induction IH as [|x t Hx _ IHt]; simpl; [done|]. by rewrite Hx, IHt. }
    rewrite E. by destruct (existsb has_idx fs).
  - unfold mk_or. assert (E : existsb has_res (map build fs) = existsb has_idx fs).
    { induction IH as [|x t Hx _ IHt]; simpl; [done|]. by rewrite Hx, IHt. }
    rewrite E. by destruct (existsb has_idx fs).
  - unfold mk_not. rewrite <- IH. unfold has_res. by destruct (f_res (build f)).
Qed.
(* a filter that carries a resolver always carries an eval *)
Lemma res_has_eval f : has_res (build f) = true -> has_eval (build f) = true.
Proof.
  induction f as [ks|c m v|i vs|fs IH|fs IH|f IH] using ftree_ind'; simpl; try done.
  - unfold mk_and. destruct (existsb has_res (map build fs)) eqn:E; [|done]. intros _.
    assert (existsb has_eval (map build fs) = true) as ->; [|done].
    apply existsb_elem in E as (c & Hc & Hr). apply existsb_elem. exists c. split; [done|].
    apply elem_of_list_fmap in Hc as (x & -> & Hx). rewrite Forall_forall in IH. by apply IH.
  - unfold mk_or. by destruct (existsb has_res (map build fs)).
  - unfold mk_not. by destruct (f_res (build f)).
Qed.

(* ---- (S) construction-time filters evaluate the denotation ---- *)
Lemma eval_child_static f r : eval_child (build f) r = holds f r.
Proof.
  induction f as [ks|c m v|i vs|fs IH|fs IH|f IH] using ftree_ind'; simpl.
  - unfold eval_child. simpl. by destruct (inN (rk r) ks).
  - done.
  - done.
  - (* And *)
    assert (HA : forallb (fun c => eval_child c r) (map build fs) = forallb (fun c => holds c r) fs).
    { induction IH as [|x t Hx _ IHt]; simpl; [done|]. by rewrite Hx, IHt. }
    rewrite <- HA. set (fs' := map build fs) in *. unfold mk_and.
    destruct (existsb has_res fs') eqn:Er.
    + assert (existsb has_eval fs' = true) as ->.
      { apply existsb_elem in Er as (c & Hc & Hr). apply existsb_elem. exists c. split; [done|].
        apply elem_of_list_fmap in Hc as (x & -> & Hx). by apply res_has_eval. }
      rewrite eval_child_parts. unfold key_part, eval_part. simpl. apply and_eval_forallb.
    + rewrite eval_child_parts. unfold key_part, eval_part. simpl.
      apply bool_eq_iff. rewrite andb_true_iff, forallb_elem.
      destruct (existsb has_eval fs') eqn:Ee.
      * rewrite and_eval_forallb, forallb_elem. split; [naive_solver|]. intros H. split; [|done].
        destruct (intersect_keys fs') as [ks|] eqn:Ei; [|done].
        apply inN_spec. apply (intersect_some _ _ Ei). intros c ksc Hc Hk.
        specialize (H c Hc). rewrite eval_child_parts in H. apply andb_true_iff in H as [H _].
        by eapply key_part_elim.
      * rewrite existsb_false_elem in Ee.
        assert (Hec : forall c, c ∈ fs' -> eval_child c r = key_part c r).
        { intros c Hc. rewrite eval_child_parts. unfold eval_part. specialize (Ee c Hc).
          unfold has_eval in Ee. destruct (f_eval c); [done|]. apply andb_true_r. }
        destruct (intersect_keys fs') as [ks|] eqn:Ei.
        -- rewrite inN_spec, (intersect_some _ _ Ei). split.
           ++ intros [H _] c Hc. rewrite Hec by done. apply key_part_spec. intros ksc Hk. by eapply H.
           ++ intros H. split; [|done]. intros c ksc Hc Hk. specialize (H c Hc). rewrite Hec in H by done.
              by eapply key_part_elim.
        -- split; [|done]. intros _ c Hc. rewrite Hec by done. apply key_part_spec.
           intros ksc Hk. rewrite (proj1 (intersect_none _) Ei c Hc) in Hk. done.
  - (* Or *)
    assert (HO : existsb (fun c => eval_child c r) (map build fs) = existsb (fun c => holds c r) fs).
    { induction IH as [|x t Hx _ IHt]; simpl; [done|]. by rewrite Hx, IHt. }
    rewrite <- HO. set (fs' := map build fs) in *. unfold mk_or.
    destruct (existsb has_res fs') eqn:Er.
    + rewrite eval_child_parts. unfold key_part, eval_part. simpl. done.
    + rewrite eval_child_parts. unfold key_part, eval_part. simpl.
      apply bool_eq_iff. rewrite andb_true_iff, existsb_elem.
      destruct (union_keys fs') as [ks|] eqn:Eu.
      * destruct (union_some _ _ Eu) as (Hne & Hall & Hel).
        destruct (forallb (fun c => negb (has_eval c)) fs') eqn:Ee.
        -- rewrite forallb_elem in Ee.
           assert (Hec : forall c, c ∈ fs' -> eval_child c r = key_part c r).
           { intros c Hc. rewrite eval_child_parts. unfold eval_part. specialize (Ee c Hc).
             unfold has_eval in Ee. destruct (f_eval c); [done|]. apply andb_true_r. }
           rewrite inN_spec, Hel. split.
           ++ intros [(c & Hc & Hk) _]. exists c. split; [done|]. rewrite Hec by done.
              apply key_part_spec. intros ksc Hksc. unfold keys_of in Hk. by rewrite Hksc in Hk.
           ++ intros (c & Hc & He). split; [|done]. exists c. split; [done|]. rewrite Hec in He by done.
              destruct (Hall c Hc) as [ksc Hksc]. unfold keys_of. rewrite Hksc. simpl.
              by eapply key_part_elim.
        -- unfold or_eval. rewrite existsb_elem. split; [naive_solver|]. intros (c & Hc & He). split; [|by exists c].
           apply inN_spec, Hel. exists c. split; [done|]. rewrite eval_child_parts in He.
           apply andb_true_iff in He as [He _]. destruct (Hall c Hc) as [ksc Hksc].
           unfold keys_of. rewrite Hksc. simpl. by eapply key_part_elim.
      * unfold or_eval. rewrite existsb_elem. naive_solver.
  - (* Not *)
    unfold mk_not. rewrite <- IH. destruct (f_res (build f)); rewrite eval_child_parts; unfold key_part, eval_part; done.
Qed.

(* ---- (R) filters materialized against an index view ---- *)
Definition key_ok (v : table) : Prop := forall k r, v !! k = Some r -> rk r = k.
(* the index answer for (i, vs) misses no row of the view whose indexed value is listed *)
Definition env_ok (env : renv) (v : table) : Prop :=
  forall i vs,
    match vs with
    | [] => env i vs = None
    | _ => exists ks, env i vs = Some ks /\
                      forall r, v !! rk r = Some r -> inZ (ext i r) vs = true -> rk r ∈ ks
    end.
Definition env_nodup (env : renv) : Prop := forall i vs ks, env i vs = Some ks -> NoDup ks.

Lemma materialize1_nores env F : f_res F = None -> materialize1 env F = F.
Proof. unfold materialize1. by intros ->. Qed.
Lemma has_res_false F : has_res F = false -> f_res F = None.
Proof. unfold has_res. by destruct (f_res F). Qed.

Lemma eval_child_mat env v f r :
  env_ok env v -> v !! rk r = Some r ->
  eval_child (materialize1 env (build f)) r = holds f r.
Proof.
  intros Henv Hr. induction f as [ks|c m v0|i vs|fs IH|fs IH|f IH] using ftree_ind'.
  - rewrite materialize1_nores by done. apply eval_child_static.
  - rewrite materialize1_nores by done. apply eval_child_static.
  - (* idx leaf *)
    simpl. unfold materialize1. simpl. rewrite eval_child_parts. unfold key_part, eval_part. simpl.
    specialize (Henv i vs). destruct vs as [|v1 vs'].
    + rewrite Henv. done.
    + destruct Henv as (ks & -> & Hc). apply bool_eq_iff. rewrite andb_true_iff, inN_spec.
      split; [naive_solver|]. intros H. split; [by apply Hc|done].
  - (* And *)
    destruct (has_res (build (FAnd fs))) eqn:Eres;
      [|rewrite materialize1_nores by (by apply has_res_false); apply eval_child_static].
    simpl in *. unfold mk_and in *.
    destruct (existsb has_res (map build fs)) eqn:Er; [|done].
    assert (existsb has_eval (map build fs) = true) as ->.
    { apply existsb_elem in Er as (c & Hc & Hrs). apply existsb_elem. exists c. split; [done|].
      apply elem_of_list_fmap in Hc as (x & -> & Hx). by apply res_has_eval. }
    unfold materialize1. simpl. rewrite eval_child_parts. unfold key_part, eval_part. simpl.
    rewrite and_eval_forallb.
    assert (HA : forallb (fun c => eval_child c r) (map build fs) = forallb (fun c => holds c r) fs).
    { clear. induction fs as [|x t IHt]; simpl; [done|]. by rewrite eval_child_static, IHt. }
    rewrite HA. apply bool_eq_iff. rewrite andb_true_iff. split; [naive_solver|]. intros H. split; [|done].
    destruct (intersect_keys (materialize env (map build fs))) as [ks|] eqn:Ei; [|done].
    apply inN_spec, (intersect_some _ _ Ei). intros c ksc Hc Hk.
    unfold materialize in Hc. apply elem_of_list_fmap in Hc as (c0 & -> & Hc0).
    apply elem_of_list_fmap in Hc0 as (x & -> & Hx).
    rewrite Forall_forall in IH. specialize (IH x Hx).
    rewrite forallb_elem in H. rewrite (H x Hx) in IH.
    rewrite eval_child_parts in IH. apply andb_true_iff in IH as [IH _]. by eapply key_part_elim.
  - (* Or *)
    destruct (has_res (build (FOr fs))) eqn:Eres;
      [|rewrite materialize1_nores by (by apply has_res_false); apply eval_child_static].
    simpl in *. unfold mk_or in *.
    destruct (existsb has_res (map build fs)) eqn:Er; [|by destruct (union_keys _)].
    unfold materialize1. simpl. rewrite eval_child_parts. unfold key_part, eval_part. simpl.
    assert (HO : or_eval (materialize env (map build fs)) r = existsb (fun c => holds c r) fs).
    { unfold or_eval, materialize. clear Er Eres. induction IH as [|x t Hx _ IHt]; simpl; [done|].
      by rewrite Hx, IHt. }
    rewrite HO. apply bool_eq_iff. rewrite andb_true_iff. split; [naive_solver|]. intros H. split; [|done].
    destruct (union_keys (materialize env (map build fs))) as [ks|] eqn:Eu; [|done].
    destruct (union_some _ _ Eu) as (_ & Hall & Hel).
    apply inN_spec, Hel. apply existsb_elem in H as (x & Hx & Hh).
    exists (materialize1 env (build x)). split.
    { unfold materialize. apply elem_of_list_fmap. exists (build x). split; [done|].
      apply elem_of_list_fmap. by exists x. }
    rewrite Forall_forall in IH. specialize (IH x Hx). rewrite Hh in IH.
    rewrite eval_child_parts in IH. apply andb_true_iff in IH as [IH _].
    assert (Hin : materialize1 env (build x) ∈ materialize env (map build fs)).
    { unfold materialize. apply elem_of_list_fmap. exists (build x). split; [done|].
      apply elem_of_list_fmap. by exists x. }
    destruct (Hall _ Hin) as [ksc Hksc]. unfold keys_of. rewrite Hksc. simpl. by eapply key_part_elim.
  - (* Not *)
    simpl. unfold mk_not. destruct (f_res (build f)) as [rf|] eqn:Erf.
    + unfold materialize1 at 1. simpl. rewrite eval_child_parts. unfold key_part, eval_part. simpl.
      unfold not_eval. f_equal. rewrite <- IH. unfold materialize1. by rewrite Erf.
    + rewrite materialize1_nores by done. rewrite eval_child_parts. unfold key_part, eval_part. simpl.
      unfold not_eval. f_equal. rewrite <- IH. by rewrite materialize1_nores.
Qed.

(* keys carried by a (materialized) filter are duplicate-free when no leaf repeats a key *)
Lemma keys_nodup env f ks :
  env_nodup env -> nodup_keys f = true ->
  f_keys (materialize1 env (build f)) = Some ks -> NoDup ks.
Proof.
  intros Hen. revert ks. induction f as [ks0|c m v0|i vs|fs IH|fs IH|f IH] using ftree_ind'; intros ks Hnd.
  - simpl. unfold materialize1. simpl. intros [= <-]. simpl in Hnd.
    clear -Hnd. induction ks0 as [|x t IHt]; [constructor|]. simpl in Hnd.
    apply andb_true_iff in Hnd as [Hx Ht]. apply NoDup_cons. split; [|by apply IHt].
    apply negb_true_iff, inN_false in Hx. done.
  - done.
  - simpl. unfold materialize1. simpl. apply Hen.
  - simpl in Hnd. rewrite forallb_elem in Hnd. rewrite Forall_forall in IH.
    simpl. unfold mk_and. destruct (existsb has_res (map build fs)) eqn:Er.
    + unfold materialize1. simpl. apply intersect_nodup. intros c ksc Hc Hk.
      unfold materialize in Hc. apply elem_of_list_fmap in Hc as (c0 & -> & Hc0).
      apply elem_of_list_fmap in Hc0 as (x & -> & Hx). by eapply IH; [|apply Hnd|].
    + rewrite materialize1_nores by done. simpl. apply intersect_nodup. intros c ksc Hc Hk.
      apply elem_of_list_fmap in Hc as (x & -> & Hx). eapply (IH x Hx); [by apply Hnd|].
      rewrite existsb_false_elem in Er.
      rewrite materialize1_nores; [done|]. apply has_res_false, Er. apply elem_of_list_fmap. by exists x.
  - simpl in Hnd. rewrite forallb_elem in Hnd. rewrite Forall_forall in IH.
    simpl. unfold mk_or. destruct (existsb has_res (map build fs)) eqn:Er.
    + unfold materialize1. simpl. apply union_nodup. intros c ksc Hc Hk.
      unfold materialize in Hc. apply elem_of_list_fmap in Hc as (c0 & -> & Hc0).
      apply elem_of_list_fmap in Hc0 as (x & -> & Hx). by eapply IH; [|apply Hnd|].
    + rewrite materialize1_nores by (by destruct (union_keys _)).
      simpl. destruct (union_keys (map build fs)) as [ks'|] eqn:Eu; [|done].
      intros [= <-]. eapply union_nodup; [|done]. intros c ksc Hc Hk.
      apply elem_of_list_fmap in Hc as (x & -> & Hx). eapply (IH x Hx); [by apply Hnd|].
      rewrite existsb_false_elem in Er.
      rewrite materialize1_nores; [done|]. apply has_res_false, Er. apply elem_of_list_fmap. by exists x.
  - simpl. unfold mk_not. destruct (f_res (build f)); [unfold materialize1|rewrite materialize1_nores by done]; done.
Qed.

(* ---- table scans ---- *)
Lemma elem_of_sorted_rows (v : table) r : r ∈ sorted_rows v <-> exists k, v !! k = Some r.
Proof.
  unfold sorted_rows. rewrite elem_of_isort, elem_of_list_fmap. split.
  - intros ([k r'] & -> & H). exists k. by apply elem_of_map_to_list in H.
  - intros (k & H). exists (k, r). split; [done|]. by apply elem_of_map_to_list.
Qed.
Lemma sorted_rows_keys_nodup (v : table) : key_ok v -> NoDup (map rk (sorted_rows v)).
Proof.
  intros Hk. unfold sorted_rows.
  assert (P : map rk (isort (fun a b : row => N.leb (rk a) (rk b)) (map snd (map_to_list v)))
               ≡ₚ map rk (map snd (map_to_list v))) by apply Permutation_map, isort_perm.
  rewrite P. rewrite map_map.
  assert (E : map (fun x : N * row => rk x.2) (map_to_list v) = map fst (map_to_list v)).
  { apply map_ext_in. intros [k r] Hin. simpl. apply Hk.
    apply elem_of_list_In in Hin. by apply elem_of_map_to_list in Hin. }
  rewrite E. apply NoDup_fst_map_to_list.
Qed.
Lemma NoDup_of_keys (l : list row) : NoDup (map rk l) -> NoDup l.
Proof. apply NoDup_fmap_1. Qed.
Lemma sorted_rows_nodup (v : table) : key_ok v -> NoDup (sorted_rows v).
Proof. intros H. by apply NoDup_of_keys, sorted_rows_keys_nodup. Qed.
Lemma in_view_iff (v : table) r : key_ok v -> r ∈ sorted_rows v <-> v !! rk r = Some r.
Proof.
  intros Hk. rewrite elem_of_sorted_rows. split; [|by exists (rk r)].
  intros (k & H). by rewrite (Hk _ _ H).
Qed.

(* ---- Retrieve ---- *)
Lemma rmatch_eval_child F r : rmatch F r = eval_child F r.
Proof.
  unfold rmatch, present, eval_child, has_eval, has_keys, has_res.
  destruct (f_keys F), (f_eval F), (f_res F); simpl; try done; by destruct (inN _ _).
Qed.

Lemma exec_keys_elem F (v : table) ks r :
  r ∈ (exec_keys F v ks).1 <-> exists k, k ∈ ks /\ v !! k = Some r /\ rmatch F r = true.
Proof.
  induction ks as [|k tl IH]; simpl.
  - rewrite elem_of_nil. split; [done|]. intros (k & Hk & _). by apply elem_of_nil in Hk.
  - destruct (exec_keys F v tl) as [rs nf] eqn:E. simpl in IH.
    destruct (v !! k) as [r0|] eqn:Ev; simpl.
    + destruct (rmatch F r0) eqn:Em.
      * rewrite elem_of_cons, IH. split.
        -- intros [->|(k' & Hk' & H)]; [exists k; split; [by left|done]|exists k'; split; [by right|done]].
        -- intros (k' & Hk' & Hv & Hm). apply elem_of_cons in Hk' as [->|Hk']; [left; congruence|right; by exists k'].
      * rewrite IH. split.
        -- intros (k' & Hk' & H). exists k'. split; [by right|done].
        -- intros (k' & Hk' & Hv & Hm). apply elem_of_cons in Hk' as [->|Hk']; [congruence|by exists k'].
    + rewrite IH. split.
      * intros (k' & Hk' & H). exists k'. split; [by right|done].
      * intros (k' & Hk' & Hv & Hm). apply elem_of_cons in Hk' as [->|Hk']; [congruence|by exists k'].
Qed.
Lemma exec_keys_nodup F (v : table) ks :
  key_ok v -> NoDup ks -> NoDup (map rk (exec_keys F v ks).1).
Proof.
  intros Hk. induction ks as [|k tl IH]; simpl; intros Hnd; [constructor|].
  apply NoDup_cons in Hnd as [Hn Hnd]. specialize (IH Hnd).
  destruct (exec_keys F v tl) as [rs nf] eqn:E. simpl in IH.
  destruct (v !! k) as [r0|] eqn:Ev; simpl; [|done].
  destruct (rmatch F r0); [|done]. simpl. apply NoDup_cons. split; [|done].
  intros Hin. apply elem_of_list_fmap in Hin as (r1 & E1 & H1).
  assert (H1' : r1 ∈ (exec_keys F v tl).1) by (by rewrite E).
  apply exec_keys_elem in H1' as (k' & Hk' & Hv & _).
  apply Hk in Hv. apply Hk in Ev. congruence.
Qed.

Section exec.
  Context (env : renv) (v : table) (f : ftree).
  Hypothesis Hkey : key_ok v.
  Hypothesis Henv : env_ok env v.

  Lemma rmatch_resolved r :
    v !! rk r = Some r -> rmatch (resolve_filter env (build f)) r = holds f r.
  Proof. intros Hr. rewrite rmatch_eval_child. exact (eval_child_mat env v f r Henv Hr). Qed.

  (* the indexed execution and the full scan return the same rows *)
  Theorem exec_query_rows r :
    r ∈ q_rows (exec_query env v (build f)) <-> r ∈ List.filter (holds f) (sorted_rows v).
  Proof.
    rewrite elem_of_lfilter, in_view_iff by done.
    unfold exec_query. set (F := resolve_filter env (build f)).
    assert (HF : forall r, v !! rk r = Some r -> rmatch F r = holds f r) by apply rmatch_resolved.
    destruct (f_keys F) as [ks|] eqn:Ek.
    - destruct (exec_keys F v ks) as [rs nf] eqn:E. simpl.
      assert (Hel := exec_keys_elem F v ks r). rewrite E in Hel. simpl in Hel. rewrite Hel. split.
      + intros (k & Hk & Hv & Hm). pose proof (Hkey _ _ Hv) as Hrk. subst k.
        split; [done|]. by rewrite <- (HF r Hv).
      + intros [Hv Hh]. exists (rk r). split; [|split; [done|by rewrite (HF r Hv)]].
        rewrite <- (HF r Hv) in Hh. rewrite rmatch_eval_child, eval_child_parts in Hh.
        apply andb_true_iff in Hh as [Hh _]. by eapply key_part_elim.
    - simpl. unfold exec_scan. rewrite elem_of_lfilter, in_view_iff by done. split.
      + intros [Hv Hm]. split; [done|]. by rewrite <- (HF r Hv).
      + intros [Hv Hh]. split; [done|]. by rewrite (HF r Hv).
  Qed.

  (* ... and each exactly once, when the index answers are duplicate-free and the caller
     lists no key twice *)
  Theorem exec_query_perm :
    env_nodup env -> nodup_keys f = true ->
    q_rows (exec_query env v (build f)) ≡ₚ List.filter (holds f) (sorted_rows v).
  Proof.
    intros Hen Hnk. apply NoDup_Permutation.
    - unfold exec_query. set (F := resolve_filter env (build f)).
      destruct (f_keys F) as [ks|] eqn:Ek.
      + pose proof (exec_keys_nodup F v ks Hkey (keys_nodup env f ks Hen Hnk Ek)) as H.
        destruct (exec_keys F v ks) as [rs nf]. simpl in *. by apply NoDup_of_keys.
      + simpl. apply NoDup_lfilter. by apply sorted_rows_nodup.
    - apply NoDup_lfilter. by apply sorted_rows_nodup.
    - apply exec_query_rows.
  Qed.

  Lemma exec_query_cnt : q_cnt (exec_query env v (build f)) = length (q_rows (exec_query env v (build f))).
  Proof.
    unfold exec_query. destruct (f_keys _); [destruct (exec_keys _ _ _)|]; done.
  Qed.
  (* a query with an index leaf never takes the bare-keys form: no NotFound, Exists = non-empty *)
  Lemma exec_query_idx_shape :
    has_idx f = true ->
    q_err (exec_query env v (build f)) = 0%N /\
    q_ex (exec_query env v (build f)) = negb (Nat.eqb (length (q_rows (exec_query env v (build f)))) 0).
  Proof.
    intros Hi. unfold exec_query. set (F := resolve_filter env (build f)).
    assert (Hb : is_bare_keys F = false).
    { unfold is_bare_keys. assert (has_res F = true) as ->; [|by rewrite andb_false_r].
      unfold F, resolve_filter. pose proof (has_res_build f) as Hr. rewrite Hi in Hr.
      unfold has_res in *. by destruct (f_res (build f)). }
    destruct (f_keys F) as [ks|] eqn:Ek; [|done].
    destruct (exec_keys F v ks) as [rs nf] eqn:E. rewrite Hb. simpl. split; [done|].
    destruct ks as [|k tl]; [|done]. simpl in E. by injection E as <- <-.
  Qed.
End exec.
