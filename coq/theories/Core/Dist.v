(* Core/Dist.v — executable model of the routing done by the distribution layer's framer (C07).
   Copies, as they are:
     core/pkg/distribution/framer/frame/frame.go   SplitByHost, SplitByLeaseholder
     core/pkg/distribution/proxy/proxy.go          BatchFactory.Batch (peers / gateway / free)
     core/pkg/distribution/framer/writer/service.go  NewStream (validateChannelKeys, which targets exist),
        switch.go (peerGatewayFreeSwitch, peerSwitchSender), validator.go (key membership),
        synchronizer.go (one response per sequence number after nodeCount responses, End = max,
        Authorized = conjunction)
     core/pkg/distribution/framer/iterator/service.go NewStream (validateChannelKeys, free channels
        refused), broadcaster.go (every involved node gets every command), synchronizer.go (data
        responses pass through, the acknowledgements of one command are combined)
   The per-node store is abstract: key -> committed samples in commit order; what a node's own
   storage iterator answers to a command is an input of the model (observed on each node's engine),
   so nothing here depends on how cesium reads.
   No proofs in this file. *)
From stdpp Require Import gmap.
From Coq Require Import NArith.
From Synnax Require Import Generated.Consts_C15 Core.Channel.
Local Open Scope N_scope.
Notation length := List.length.

Notation series := (list N).
(* a frame: (channel key, series) entries in order; a key may occur more than once *)
Notation frame := (list (N * series)).

Definition lease_of (k : N) : N := leaseholder k.   (* Key.Leaseholder *)
Definition is_free_key (k : N) : bool := lease_of k =? node_free.

(* Frame.SplitByHost *)
Definition split_by_host (host : N) (f : frame) : frame * frame * frame :=
  foldl (fun '(l, r, fr) e =>
           if lease_of e.1 =? host then (l ++ [e], r, fr)
           else if is_free_key e.1 then (l, r, fr ++ [e])
           else (l, r ++ [e], fr)) ([], [], []) f.

(* Frame.SplitByLeaseholder: a map node -> frame filled by appending in frame order *)
Definition split_by_leaseholder (f : frame) : gmap N frame :=
  foldl (fun m e => <[lease_of e.1 := default [] (m !! lease_of e.1) ++ [e]]> m) ∅ f.

(* ------------------------------------------------------------------ writer *)
Record writer := Writer {
  w_gw : N;                 (* node the writer was opened on *)
  w_keys : list N;
  w_buf : gmap N frame;     (* leaseholder -> entries received and not yet committed *)
  w_auto : bool             (* EnableAutoCommit: every leaseholder commits after each write *)
}.
Record cluster := Cluster {
  cl_chans : list N;                    (* keys present in cluster metadata *)
  cl_store : gmap N (gmap N series);    (* node -> key -> committed samples *)
  cl_writers : gmap N writer
}.

Inductive dop :=
| OpenW (id gw : N) (keys : list N) (auto : bool)
| WriteW (id : N) (f : frame)
(* a frame that carries a key mask (Frame.KeepKeys / ExcludeKeys): the masked entries are still in the
   backing slices but every reader — Entries(), the validator, the storage writer — skips them *)
| WriteMasked (id : N) (f : frame) (keep : bool) (ks : list N)
| CommitW (id : N)
| CloseW (id : N)
(* a writer is opened through gw while gw cannot reach node p (transport fault on gw's writer
   client): when one of the keys is leased to p the open fails and leaves nothing behind — the peers
   dialed before p are closed again (openManyPeers / closePeerClients); when no stream to p is needed
   the fault goes unnoticed and the writer opens *)
| OpenCut (id gw p : N) (keys : list N) (auto : bool).
Inductive dres := DOk | DEmptyKeys | DMissing | DInvalidKey | DNoWriter | DAck | DUnreachable.
Global Instance dres_eq_dec : EqDecision dres.
Proof. solve_decision. Defined.

Definition memb (k : N) (l : list N) : bool := existsb (N.eqb k) l.

(* which of the three targets the open writer has (proxy.Batch of its keys) *)
Definition has_peer (gw : N) (keys : list N) : bool :=
  existsb (fun k => negb (lease_of k =? gw) && negb (is_free_key k)) keys.
Definition has_gateway (gw : N) (keys : list N) : bool := existsb (fun k => lease_of k =? gw) keys.

(* peerGatewayFreeSwitch + peerSwitchSender: what each leaseholder's storage writer receives for
   one write request. The free part goes to the relay and is not stored. *)
Definition route (gw : N) (keys : list N) (f : frame) : gmap N frame :=
  let '(local, remote, free) := split_by_host gw f in
  let peers := if has_peer gw keys then split_by_leaseholder remote else ∅ in
  if has_gateway gw keys then <[gw := local]> peers else peers.

Definition buf_append (buf : gmap N frame) (parts : gmap N frame) : gmap N frame :=
  union_with (fun a b => Some (a ++ b)) buf parts.

(* a leaseholder commits: its buffered entries are appended, key by key, in arrival order *)
Definition commit_node (st : gmap N series) (buf : frame) : gmap N series :=
  foldl (fun m e => <[e.1 := default [] (m !! e.1) ++ e.2]> m) st buf.
(* every leaseholder that has a buffer commits it to its own store *)
Definition commit_all (store : gmap N (gmap N series)) (buf : gmap N frame) : gmap N (gmap N series) :=
  merge (fun st b => match b with
                     | Some b => Some (commit_node (default ∅ st) b)
                     | None => st
                     end) store buf.

(* Frame.Entries() of a masked frame *)
Definition mask_frame (keep : bool) (ks : list N) (f : frame) : frame :=
  filter (fun e => Bool.eqb keep (memb e.1 ks) = true) f.
(* a masked write is the write of its visible entries: SplitByHost / SplitByLeaseholder iterate
   Entries(), the validator skips masked positions *)
(* does opening [keys] through gw need a stream to node p *)
Definition cut_hits (gw p : N) (keys : list N) : bool :=
  negb (p =? gw) && existsb (fun k => (lease_of k =? p) && negb (is_free_key k)) keys.
Definition eff_op (o : dop) : dop :=
  match o with
  | WriteMasked id f keep ks => WriteW id (mask_frame keep ks f)
  | OpenCut id gw p keys auto => if cut_hits gw p keys then o else OpenW id gw keys auto
  | _ => o
  end.

Definition dstep0 (c : cluster) (o : dop) : cluster * dres :=
  match o with
  | OpenW id gw keys auto =>
      match keys with
      | [] => (c, DEmptyKeys)
      | _ => if forallb (fun k => memb k (cl_chans c)) keys
             then (Cluster (cl_chans c) (cl_store c) (<[id := Writer gw keys ∅ auto]> (cl_writers c)), DOk)
             else (c, DMissing)     (* validateChannelKeys *)
      end
  | WriteW id f =>
      match cl_writers c !! id with
      | None => (c, DNoWriter)
      | Some w =>
          if forallb (fun e => memb e.1 (w_keys w)) f
          then let buf := buf_append (w_buf w) (route (w_gw w) (w_keys w) f) in
               if w_auto w
               then (Cluster (cl_chans c) (commit_all (cl_store c) buf)
                             (<[id := Writer (w_gw w) (w_keys w) ∅ true]> (cl_writers c)), DOk)
               else (Cluster (cl_chans c) (cl_store c)
                             (<[id := Writer (w_gw w) (w_keys w) buf false]> (cl_writers c)), DOk)
          (* the validator rejects the request: the writer fails, what it had not committed is lost *)
          else (Cluster (cl_chans c) (cl_store c) (delete id (cl_writers c)), DInvalidKey)
      end
  | CommitW id =>
      match cl_writers c !! id with
      | None => (c, DNoWriter)
      | Some w =>
          (Cluster (cl_chans c) (commit_all (cl_store c) (w_buf w))
                   (<[id := Writer (w_gw w) (w_keys w) ∅ (w_auto w)]> (cl_writers c)), DAck)
      end
  | CloseW id =>
      match cl_writers c !! id with
      | None => (c, DNoWriter)
      | Some _ => (Cluster (cl_chans c) (cl_store c) (delete id (cl_writers c)), DOk)
      end
  | WriteMasked _ _ _ _ => (c, DNoWriter)    (* not reached: see eff_op *)
  | OpenCut _ _ _ keys _ =>                  (* reached only when the cut is hit: see eff_op *)
      match keys with
      | [] => (c, DEmptyKeys)
      | _ => if forallb (fun k => memb k (cl_chans c)) keys then (c, DUnreachable) else (c, DMissing)
      end
  end.
Definition dstep (c : cluster) (o : dop) : cluster * dres := dstep0 c (eff_op o).

Fixpoint drun (c : cluster) (ops : list dop) : cluster :=
  match ops with [] => c | o :: r => drun (dstep c o).1 r end.

(* ------------------------------------------------------------------ the single store (specification) *)
Record swriter := SWriter { sw_keys : list N; sw_buf : frame; sw_auto : bool }.
Record single := Single { sg_chans : list N; sg_store : gmap N series; sg_writers : gmap N swriter }.

Definition keep_leased (f : frame) : frame := filter (fun e => negb (is_free_key e.1)) f.

Definition sstep0 (s : single) (o : dop) : single * dres :=
  match o with
  | OpenW id _ keys auto =>
      match keys with
      | [] => (s, DEmptyKeys)
      | _ => if forallb (fun k => memb k (sg_chans s)) keys
             then (Single (sg_chans s) (sg_store s) (<[id := SWriter keys [] auto]> (sg_writers s)), DOk)
             else (s, DMissing)
      end
  | WriteW id f =>
      match sg_writers s !! id with
      | None => (s, DNoWriter)
      | Some w =>
          if forallb (fun e => memb e.1 (sw_keys w)) f
          then if sw_auto w
               then (Single (sg_chans s) (commit_node (sg_store s) (sw_buf w ++ keep_leased f))
                            (<[id := SWriter (sw_keys w) [] true]> (sg_writers s)), DOk)
               else (Single (sg_chans s) (sg_store s)
                            (<[id := SWriter (sw_keys w) (sw_buf w ++ keep_leased f) false]> (sg_writers s)), DOk)
          else (Single (sg_chans s) (sg_store s) (delete id (sg_writers s)), DInvalidKey)
      end
  | CommitW id =>
      match sg_writers s !! id with
      | None => (s, DNoWriter)
      | Some w =>
          (Single (sg_chans s) (commit_node (sg_store s) (sw_buf w))
                  (<[id := SWriter (sw_keys w) [] (sw_auto w)]> (sg_writers s)), DAck)
      end
  | CloseW id =>
      match sg_writers s !! id with
      | None => (s, DNoWriter)
      | Some _ => (Single (sg_chans s) (sg_store s) (delete id (sg_writers s)), DOk)
      end
  | WriteMasked _ _ _ _ => (s, DNoWriter)
  (* the specification of a request that cannot be served: refused, as if it had not been made *)
  | OpenCut _ _ _ keys _ =>
      match keys with
      | [] => (s, DEmptyKeys)
      | _ => if forallb (fun k => memb k (sg_chans s)) keys then (s, DUnreachable) else (s, DMissing)
      end
  end.
(* the single store sees the same masked frame: cesium's writer skips the masked entries *)
Definition sstep (s : single) (o : dop) : single * dres := sstep0 s (eff_op o).
Fixpoint srun (s : single) (ops : list dop) : single :=
  match ops with [] => s | o :: r => srun (sstep s o).1 r end.

(* what the cluster holds for key k: on its leaseholder *)
Definition cluster_read (c : cluster) (k : N) : series :=
  default [] (default ∅ (cl_store c !! lease_of k) !! k).
Definition single_read (s : single) (k : N) : series := default [] (sg_store s !! k).
(* samples of k held by a node other than its leaseholder *)
Definition stray (c : cluster) (n k : N) : series := default [] (default ∅ (cl_store c !! n) !! k).

(* ------------------------------------------------------------------ writer synchronizer *)
Record wresp := WResp { wr_seq : N; wr_commit : bool; wr_end : N; wr_auth : bool }.
Record wsync := WSync { ws_cur : wresp; ws_count : nat }.
Definition wsync0 : wsync := WSync (WResp 0 false 0 true) 0.
(* synchronizer.sync: returns the new state and, when the cycle is fulfilled, the response that is
   forwarded. [fixed = false] is the pinned upstream code: it forwards the LAST response received
   ([res]) — the accumulated End / Authorized of [cycle.res] are computed and dropped.
   [fixed = true] (tree after the fix) forwards the accumulated response. *)
Definition wsync_step (fixed : bool) (node_count : nat) (s : wsync) (r : wresp) : wsync * option wresp :=
  if wr_seq r =? 0 then (s, None) else
  let start := Nat.eqb (ws_count s) 0 in
  if negb start && negb (wr_seq (ws_cur s) =? wr_seq r) then (s, None) else
  let cur := if start then r else ws_cur s in
  let cur := WResp (wr_seq cur) (wr_commit cur) (wr_end cur) (wr_auth cur && wr_auth r) in
  let cur := if wr_commit r && (wr_end cur <? wr_end r)
             then WResp (wr_seq cur) (wr_commit cur) (wr_end r) (wr_auth cur) else cur in
  let n := S (ws_count s) in
  if Nat.eqb n node_count then (WSync cur 0, Some (if fixed then cur else r)) else (WSync cur n, None).
(* the forwarded response (or none) for every response received *)
Fixpoint wsync_run (fixed : bool) (node_count : nat) (s : wsync) (rs : list wresp) : list (option wresp) :=
  match rs with
  | [] => []
  | r :: rest => let '(s', o) := wsync_step fixed node_count s r in o :: wsync_run fixed node_count s' rest
  end.

(* ------------------------------------------------------------------ iterator *)
Inductive ires := IOk | IEmptyKeys | IFreeKey | INotFound.
Global Instance ires_eq_dec : EqDecision ires.
Proof. solve_decision. Defined.
(* iterator.validateChannelKeys *)
Definition iter_open (chans : list N) (keys : list N) : ires :=
  match keys with
  | [] => IEmptyKeys
  | _ => if existsb is_free_key keys then IFreeKey
         else if forallb (fun k => memb k chans) keys then IOk else INotFound
  end.

(* What one channel's storage iterator answers to the commands of a traversal is a parameter:
   [ans k i] = (samples returned for channel k by the i-th command, acknowledgement). A storage
   iterator over several channels returns the union of the samples and the disjunction of the
   acknowledgements (cesium streamIterator.execWithResponse). *)
Definition chan_answers := N -> nat -> series * bool.

Definition store_iter (ans : chan_answers) (keys : list N) (i : nat) : frame * bool :=
  ((fun k => (k, (ans k i).1)) <$> keys, existsb (fun k => (ans k i).2) keys).

(* Keys.UniqueLeaseholders in first-appearance order *)
Definition unique_leaseholders (keys : list N) : list N := remove_dups (lease_of <$> keys).

(* the cluster iterator opened on any gateway: every involved node runs the command on its own
   keys; frames are forwarded as they are, the acknowledgements are combined by the synchronizer
   (tree after fix F15: disjunction; [or_acks = false] is the conjunction the upstream code
   accumulates — and then drops, see isync_step). *)
Definition cluster_iter (or_acks : bool) (ans : chan_answers) (keys : list N) (i : nat) : frame * bool :=
  let nodes := unique_leaseholders keys in
  let per := (fun n => store_iter ans (filter (fun k => lease_of k =? n) keys) i) <$> nodes in
  (flat_map fst per,
   if or_acks then existsb snd per else forallb snd per).

(* iterator synchronizer on a stream of responses: data passes through; the acknowledgements of one
   sequence number are counted and combined *)
Record iresp := IResp { ir_data : bool; ir_seq : N; ir_ack : bool }.
Record isync := ISync { is_cur : iresp; is_count : nat }.
Definition isync0 : isync := ISync (IResp false 0 true) 0.
(* [fixed = false]: pinned upstream code — the acknowledgements are AND-ed into cycle.res but the
   LAST response is what is forwarded. [fixed = true]: tree after fix F15 — the acknowledgements
   are OR-ed (as a storage iterator does over its channels) and the accumulated one is forwarded. *)
Definition isync_step (fixed : bool) (node_count : nat) (s : isync) (r : iresp) : isync * option iresp :=
  if ir_data r then (s, Some r) else
  let cur := if Nat.eqb (is_count s) 0 then r else is_cur s in
  if negb (ir_seq r =? ir_seq cur) then (ISync cur (is_count s), None) else
  let cur := IResp false (ir_seq cur)
                   (if fixed then ir_ack cur || ir_ack r else ir_ack cur && ir_ack r) in
  let n := S (is_count s) in
  if Nat.eqb n node_count then (ISync cur 0, Some (if fixed then cur else r)) else (ISync cur n, None).
Fixpoint isync_run (fixed : bool) (node_count : nat) (s : isync) (rs : list iresp) : list (option iresp) :=
  match rs with
  | [] => []
  | r :: rest => let '(s', o) := isync_step fixed node_count s r in o :: isync_run fixed node_count s' rest
  end.
