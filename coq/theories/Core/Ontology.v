(* Core/Ontology.v — executable model of the synnax ontology graph store.
   Copies: core/pkg/distribution/ontology/resource.go (ID.Validate, ID.String, ParseID),
           relationship.go (GorpKey, ParseRelationship),
           writer_dag.go (DefineResource, DeleteResource, DefineRelationship,
             DefineFromOneToManyRelationships, DeleteRelationship, DeleteManyResources,
             DefineManyResources, checkRelationshipExists,
             validateResourcesExist, retrieveOutgoingRelationships, retrieveResources,
             retrieveDescendants, deleteIncomingRelationships, deleteOutgoingRelationships),
           retrieve.go (Retrieve.Exec clause loop, ParentsTraverser via the by-To lookup index
             + ParseRelationship, ChildrenTraverser via the key prefix "id->parent->"),
           x/go/gorp/retrieve.go (bare MatchKeys => ErrNotFound when a key is missing;
             WherePrefix; raw suffix filter), gorp transactions as copy-on-write views.
   Identifiers are byte strings (lists of N): prefix / suffix collisions are part of the
   behaviour. No proofs in this file: it must keep evaluating when a proof breaks. *)
From stdpp Require Import gmap.
From Coq Require Import NArith.
Local Open Scope N_scope.

Notation str := (list N).

Definition c_colon : N := 58.   (* ":" *)
Definition c_dash : N := 45.    (* "-" *)
Definition c_gt : N := 62.      (* ">" *)
Definition sep : str := [c_dash; c_gt].                  (* relationshipKeySep "->" *)
Definition s_parent : str := [112; 97; 114; 101; 110; 116].   (* RelationshipTypeParentOf *)
Definition s_builtin : str := [98; 117; 105; 108; 116; 105; 110].
Definition s_root : str := [114; 111; 111; 116].

(* ---- byte-string helpers ---- *)
Fixpoint is_prefix (p s : str) : bool :=
  match p, s with
  | [], _ => true
  | x :: p', y :: s' => (x =? y) && is_prefix p' s'
  | _ :: _, [] => false
  end.
Definition is_suffix (p s : str) : bool := is_prefix (rev p) (rev s).

(* split at the first occurrence of the two-byte separator [c1;c2] *)
Fixpoint split2 (c1 c2 : N) (s : str) : option (str * str) :=
  match s with
  | [] => None
  | x :: s' =>
      match s' with
      | [] => None
      | y :: s'' =>
          if (x =? c1) && (y =? c2) then Some ([], s'')
          else match split2 c1 c2 s' with
               | Some (a, b) => Some (x :: a, b)
               | None => None
               end
      end
  end.
Definition split_sep : str -> option (str * str) := split2 c_dash c_gt.
Definition no_sep (s : str) : bool := match split_sep s with None => true | Some _ => false end.

(* strings.SplitN(s, ":", 2) *)
Fixpoint split_colon (s : str) : option (str * str) :=
  match s with
  | [] => None
  | x :: s' =>
      if x =? c_colon then Some ([], s')
      else match split_colon s' with
           | Some (a, b) => Some (x :: a, b)
           | None => None
           end
  end.

(* ---- identifiers and relationships ---- *)
Record id := Id { id_type : str; id_key : str }.
Global Instance id_eq_dec : EqDecision id.
Proof. solve_decision. Defined.

Definition id_str (i : id) : str := id_type i ++ c_colon :: id_key i.      (* ID.String *)
Definition root_id : id := Id s_builtin s_root.

(* ID.Validate *)
Definition id_valid (i : id) : bool :=
  match id_key i, id_type i with
  | [], _ => false
  | _, [] => false
  | _, _ => true
  end.

(* ParseID *)
Definition parse_id (s : str) : option id :=
  match split_colon s with
  | None => None
  | Some ([], _) => None
  | Some (t, k) => Some (Id t k)
  end.

Record rel := Rel { r_from : id; r_type : str; r_to : id }.
Global Instance rel_eq_dec : EqDecision rel.
Proof. solve_decision. Defined.

(* Relationship.GorpKey *)
Definition rel_key (r : rel) : str :=
  id_str (r_from r) ++ sep ++ r_type r ++ sep ++ id_str (r_to r).

(* ParseRelationship: strings.Split(key, "->") must give exactly three parts *)
Definition parse_rel (k : str) : option rel :=
  match split_sep k with
  | None => None
  | Some (p0, k1) =>
      match split_sep k1 with
      | None => None
      | Some (p1, k2) =>
          match split_sep k2 with
          | Some _ => None
          | None =>
              match parse_id p0, parse_id k2 with
              | Some f, Some t => Some (Rel f p1 t)
              | _, _ => None
              end
          end
      end
  end.

(* ---- store ---- *)
Notation resmap := (gmap (list N) id).
Notation relmap := (gmap (list N) rel).
Record ost := OSt { o_res : resmap; o_rels : relmap }.

Inductive err := EOk | ENotFound | ECyclic | EValidation | EFuel.
Global Instance err_eq_dec : EqDecision err.
Proof. solve_decision. Defined.

Inductive result (A : Type) := Ok (a : A) | Err (e : err).
Arguments Ok {A} a.
Arguments Err {A} e.

(* which repairs the tree carries:
   f10: retrieveOutgoingRelationships scans with prefix id.String()+"->" (pinned: id.String())
   f11: DefineRelationship / DefineFromOneToMany reject from == to     (pinned: accepted) *)
Record cfg := Cfg { f10 : bool; f11 : bool }.
Definition pinned : cfg := Cfg false false.
Definition fixed : cfg := Cfg true true.

Definition has_res (st : ost) (i : id) : bool :=
  match o_res st !! id_str i with Some _ => true | None => false end.
Definition has_rel (st : ost) (r : rel) : bool :=
  match o_rels st !! rel_key r with Some _ => true | None => false end.

(* gorp Retrieve with bare MatchKeys over the resource table: stored entries in key order of
   the request, ErrNotFound when any key is missing *)
Definition retrieve_resources (st : ost) (ids : list id) : result (list id) :=
  match mapM (fun i => o_res st !! id_str i) ids with
  | Some l => Ok l
  | None => Err ENotFound
  end.

Definition scan_prefix (st : ost) (p : str) : list rel :=
  snd <$> filter (fun kr => is_prefix p kr.1 = true) (map_to_list (o_rels st)).

(* retrieveOutgoingRelationships *)
Definition outgoing (c : cfg) (st : ost) (i : id) : result (list id) :=
  let p := if f10 c then id_str i ++ sep else id_str i in
  retrieve_resources st (r_to <$> scan_prefix st p).

Fixpoint collect (f : id -> result (list id)) (cs : list id) : result (list id) :=
  match cs with
  | [] => Ok []
  | ch :: cs' =>
      match f ch with
      | Err e => Err e
      | Ok d => match collect f cs' with
                | Err e => Err e
                | Ok rest => Ok (d ++ ch :: rest)
                end
      end
  end.

(* retrieveDescendants; Go recurses without bound, the model stops with EFuel *)
Fixpoint desc (c : cfg) (fuel : nat) (st : ost) (i : id) : result (list id) :=
  match fuel with
  | O => Err EFuel
  | S f =>
      match outgoing c st i with
      | Err e => Err e
      | Ok children => collect (desc c f st) children
      end
  end.

Definition fuel_of (st : ost) : nat := S (size (o_rels st)).
Definition descendants (c : cfg) (st : ost) (i : id) : result (list id) :=
  desc c (fuel_of st) st i.

Definition memb (i : id) (l : list id) : bool := existsb (fun j => bool_decide (i = j)) l.

Definition define_resource (st : ost) (i : id) : ost * err :=
  if id_valid i then (OSt (<[id_str i := i]> (o_res st)) (o_rels st), EOk)
  else (st, EValidation).

Definition del_incoming (i : id) (m : relmap) : relmap :=
  filter (fun kr => is_suffix (sep ++ id_str i) kr.1 = false) m.
Definition del_outgoing (i : id) (m : relmap) : relmap :=
  filter (fun kr => is_prefix (id_str i ++ sep) kr.1 = false) m.

Definition delete_resource (st : ost) (i : id) : ost * err :=
  (OSt (delete (id_str i) (o_res st)) (del_outgoing i (del_incoming i (o_rels st))), EOk).

(* DeleteManyResources: incoming and outgoing relationships of every id, then the resource rows
   (the relationship scans do not read the resource table, so the result equals deleting the
   ids one after the other) *)
Definition delete_resources (o : ost) (ids : list id) : ost :=
  fold_left (fun o i => (delete_resource o i).1) ids o.
Definition delete_many_resources (st : ost) (ids : list id) : ost * err :=
  (delete_resources st ids, EOk).

(* DefineManyResources: every id is validated first, then all rows are written *)
Definition define_many_resources (st : ost) (ids : list id) : ost * err :=
  if forallb id_valid ids
  then (fold_left (fun o i => (define_resource o i).1) ids st, EOk)
  else (st, EValidation).

Definition define_relationship (c : cfg) (st : ost) (f : id) (ty : str) (t : id) : ost * err :=
  if f11 c && bool_decide (f = t) then (st, ECyclic) else
  (* checkRelationshipExists: the reverse edge wins over the existing edge *)
  if has_rel st (Rel t ty f) then (st, ECyclic) else
  if has_rel st (Rel f ty t) then (st, EOk) else
  if negb (has_res st f && has_res st t) then (st, ENotFound) else
  match descendants c st t with
  | Err e => (st, e)
  | Ok d =>
      if memb f d then (st, ECyclic)
      else (OSt (o_res st) (<[rel_key (Rel f ty t) := Rel f ty t]> (o_rels st)), EOk)
  end.

Fixpoint check_many (c : cfg) (st : ost) (f : id) (ts : list id) : err :=
  match ts with
  | [] => EOk
  | t :: ts' =>
      match descendants c st t with
      | Err e => e
      | Ok d => if memb f d then ECyclic else check_many c st f ts'
      end
  end.

Definition insert_rels (f : id) (ty : str) (ts : list id) (m : relmap) : relmap :=
  foldr (fun t m => <[rel_key (Rel f ty t) := Rel f ty t]> m) m ts.

Definition define_many (c : cfg) (st : ost) (f : id) (ty : str) (ts : list id) : ost * err :=
  if f11 c && memb f ts then (st, ECyclic) else
  if negb (has_res st f) then (st, ENotFound) else
  if negb (forallb (has_res st) ts) then (st, ENotFound) else
  match check_many c st f ts with
  | EOk => (OSt (o_res st) (insert_rels f ty ts (o_rels st)), EOk)
  | e => (st, e)
  end.

Definition delete_relationship (st : ost) (f : id) (ty : str) (t : id) : ost * err :=
  (OSt (o_res st) (delete (rel_key (Rel f ty t)) (o_rels st)), EOk).

(* ---- Retrieve.Exec with traversal clauses ---- *)
Inductive trav := TParents | TChildren.

(* ChildrenTraverser: prefix scan "id->parent->", emits the To of the stored value *)
Definition children_of (st : ost) (i : id) : list id :=
  r_to <$> scan_prefix st (id_str i ++ sep ++ s_parent ++ sep).

(* ParentsTraverser through the by-To lookup index: keys of the relationships whose To is
   the id, each parsed back with ParseRelationship *)
Fixpoint parse_parents (ks : list str) : result (list id) :=
  match ks with
  | [] => Ok []
  | k :: ks' =>
      match parse_rel k with
      | None => Err EValidation
      | Some r =>
          match parse_parents ks' with
          | Err e => Err e
          | Ok rest => Ok (if bool_decide (r_type r = s_parent) then r_from r :: rest else rest)
          end
      end
  end.
Definition parents_of (st : ost) (i : id) : result (list id) :=
  parse_parents (fst <$> filter (fun kr => bool_decide (r_to kr.2 = i)) (map_to_list (o_rels st))).

Fixpoint traverse_all (f : id -> result (list id)) (ids : list id) : result (list id) :=
  match ids with
  | [] => Ok []
  | i :: ids' =>
      match f i with
      | Err e => Err e
      | Ok l => match traverse_all f ids' with
                | Err e => Err e
                | Ok rest => Ok (l ++ rest)
                end
      end
  end.

Definition traverse (st : ost) (t : trav) (ids : list id) : result (list id) :=
  match t with
  | TChildren => traverse_all (fun i => Ok (children_of st i)) ids
  | TParents => traverse_all (parents_of st) ids
  end.

(* clauses after the first: MatchKeys(nextIDs) executed against the resource table, then
   the clause's traverser. An intermediate clause that matches nothing ends the query. *)
Fixpoint exec_clauses (st : ost) (ids : list id) (ts : list trav) : result (list id) :=
  match ts with
  | [] => Ok ids
  | t :: ts' =>
      match ids with
      | [] => Ok []
      | _ =>
          match traverse st t ids with
          | Err e => Err e
          | Ok next =>
              match retrieve_resources st next with
              | Err e => Err e
              | Ok found => exec_clauses st found ts'
              end
          end
      end
  end.

Definition query (st : ost) (start : id) (ts : list trav) : result (list id) :=
  match retrieve_resources st [start] with
  | Err e => Err e
  | Ok ids => exec_clauses st ids ts
  end.

(* ---- transactions: one open transaction at a time, copy-on-write view ---- *)
Record sys := Sys { s_db : ost; s_tx : option ost }.

Inductive op :=
| DefRes (i : id)
| DelRes (i : id)
| DefRel (f : id) (ty : str) (t : id)
| DefMany (f : id) (ty : str) (ts : list id)
| DelRel (f : id) (ty : str) (t : id)
| DelMany (xs : list id)
| DefManyRes (xs : list id)
| Begin | Commit | Abort.

Definition cur (s : sys) : ost := default (s_db s) (s_tx s).
Definition set_cur (s : sys) (st : ost) : sys :=
  match s_tx s with
  | Some _ => Sys (s_db s) (Some st)
  | None => Sys st None
  end.

Definition apply (c : cfg) (st : ost) (o : op) : ost * err :=
  match o with
  | DefRes i => define_resource st i
  | DelRes i => delete_resource st i
  | DefRel f ty t => define_relationship c st f ty t
  | DefMany f ty ts => define_many c st f ty ts
  | DelRel f ty t => delete_relationship st f ty t
  | DelMany xs => delete_many_resources st xs
  | DefManyRes xs => define_many_resources st xs
  | _ => (st, EOk)
  end.

Definition step (c : cfg) (s : sys) (o : op) : sys * err :=
  match o with
  | Begin => (match s_tx s with None => Sys (s_db s) (Some (s_db s)) | Some _ => s end, EOk)
  | Commit => (match s_tx s with Some st => Sys st None | None => s end, EOk)
  | Abort => (Sys (s_db s) None, EOk)
  | _ => let '(st, e) := apply c (cur s) o in (set_cur s st, e)
  end.

Definition init_ost : ost := OSt {[ id_str root_id := root_id ]} ∅.
Definition init : sys := Sys init_ost None.

Definition run (c : cfg) (s : sys) (ops : list op) : sys :=
  fold_left (fun s o => (step c s o).1) ops s.
