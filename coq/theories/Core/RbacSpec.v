(* Core/RbacSpec.v — the set-based reference for C18: a configuration is a set of subjects, a
   set of live roles, a table of live policies, the role assignments and the policy
   attachments; [permitted_a] is the property's forall-exists formula; [a_apply] says what each
   of assign / unassign / create / delete means for the configuration. Independent of the
   ontology encoding. Executable, no proofs. *)
From stdpp Require Import gmap.
From Coq Require Import NArith.
From Synnax Require Import Core.Ontology Core.Rbac.
Local Open Scope N_scope.

Record acfg := ACfg {
  a_subj : list id;                 (* defined subjects *)
  a_roles : list str;               (* live roles *)
  a_pols : list (str * policy);     (* live policies *)
  a_assign : list (str * id);       (* role assigned to subject *)
  a_attach : list (str * str) }.    (* policy attached to role *)

Definition a_empty : acfg := ACfg [] [] [] [] [].

Definition in_b {A} `{EqDecision A} (x : A) (l : list A) : bool := bool_decide (x ∈ l).

(* the property's formula *)
Definition permitted_a (c : acfg) (s : id) (act : str) (objs : list id) : bool :=
  in_b s (a_subj c) &&
  forallb (fun o =>
    existsb (fun r =>
      in_b (r, s) (a_assign c) &&
      existsb (fun kp => in_b (r, kp.1) (a_attach c) && grants act o kp.2) (a_pols c))
    (a_roles c)) objs.

Fixpoint a_attach_all (c : acfg) (r : str) (ps : list str) : acfg :=
  match ps with
  | [] => c
  | p :: ps' =>
      if in_b r (a_roles c) && in_b p (fst <$> a_pols c)
      then a_attach_all (ACfg (a_subj c) (a_roles c) (a_pols c) (a_assign c) ((r, p) :: a_attach c)) r ps'
      else c
  end.

Definition a_apply (c : acfg) (o : rop) (ok : bool) : acfg :=
  match o with
  | RSubject s => if ok then ACfg (s :: a_subj c) (a_roles c) (a_pols c) (a_assign c) (a_attach c) else c
  | RDelSubject s =>
      ACfg (filter (fun x => x <> s) (a_subj c)) (a_roles c) (a_pols c)
           (filter (fun rs => rs.2 <> s) (a_assign c)) (a_attach c)
  | RCreateRole k _ _ =>
      if ok then ACfg (a_subj c) (k :: a_roles c) (a_pols c) (a_assign c) (a_attach c) else c
  | RDeleteRole k _ =>
      if ok then ACfg (a_subj c) (filter (fun x => x <> k) (a_roles c)) (a_pols c)
                      (filter (fun rs => rs.1 <> k) (a_assign c))
                      (filter (fun rp => rp.1 <> k) (a_attach c))
      else c
  | RCreatePolicy k p _ =>
      if ok then ACfg (a_subj c) (a_roles c) ((k, p) :: filter (fun kp => kp.1 <> k) (a_pols c))
                      (a_assign c) (a_attach c)
      else c
  | RDeletePolicies ks =>
      ACfg (a_subj c) (a_roles c) (filter (fun kp => kp.1 ∉ ks) (a_pols c)) (a_assign c)
           (filter (fun rp => rp.2 ∉ ks) (a_attach c))
  | RSetOnRole r ps => a_attach_all c r ps
  | RAssign s r =>
      if ok then ACfg (a_subj c) (a_roles c) (a_pols c) ((r, s) :: a_assign c) (a_attach c) else c
  | RUnassign s r =>
      ACfg (a_subj c) (a_roles c) (a_pols c) (filter (fun rs => rs <> (r, s)) (a_assign c)) (a_attach c)
  | _ => c
  end.

Record asys := ASys { as_db : acfg; as_tx : option acfg }.
Definition acur (s : asys) : acfg := default (as_db s) (as_tx s).

Definition is_ok (out : outcome) : bool := bool_decide (out = OErr EOk).

(* one observed step: returns (acceptable, next reference state) *)
Definition a_step (s : asys) (o : rop) (out : outcome) : bool * asys :=
  match o with
  | RBegin => (true, match as_tx s with None => ASys (as_db s) (Some (as_db s)) | Some _ => s end)
  | RCommit => (true, match as_tx s with Some c => ASys c None | None => s end)
  | RAbort => (true, ASys (as_db s) None)
  | REnforce sub act objs committed =>
      let c := if committed then as_db s else acur s in
      (bool_decide (bool_decide (out = OVerdict Allow) = permitted_a c sub act objs), s)
  | _ =>
      let c' := a_apply (acur s) o (is_ok out) in
      (true, match as_tx s with Some _ => ASys (as_db s) (Some c') | None => ASys c' None end)
  end.

