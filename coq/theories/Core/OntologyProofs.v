(* Core/OntologyProofs.v — the ontology model refines a plain digraph with reachability:
   invariant (well-formed keys, no dangling edges, acyclic), exact characterisation of
   DefineRelationship / DefineFromOneToMany / DeleteResource, fuel sufficiency of the
   descendants recursion under acyclicity, traversals = graph search. *)
From stdpp Require Import gmap relations.
From Coq Require Import NArith.
From Synnax Require Import Core.Ontology Core.OntologyStr.
Local Open Scope N_scope.

(* ---- the digraph a store denotes ---- *)
Definition has (st : ost) (i : id) : Prop := o_res st !! id_str i = Some i.
Definition edge (st : ost) (a b : id) : Prop :=
  exists k r, o_rels st !! k = Some r /\ r_from r = a /\ r_to r = b.
Definition reach (st : ost) : relation id := tc (edge st).
Definition acyclic (st : ost) : Prop := forall a, ~ reach st a a.

Record wf (st : ost) : Prop := Wf {
  wf_res : forall k i, o_res st !! k = Some i -> k = id_str i /\ good_id i;
  wf_rels : forall k r, o_rels st !! k = Some r -> k = rel_key r /\ good_rel r;
  wf_nodangling : forall k r, o_rels st !! k = Some r -> has st (r_from r) /\ has st (r_to r);
  wf_acyclic : acyclic st }.

(* ---- generic facts on relations ---- *)
Section rel.
  Context {A : Type} `{!EqDecision A}.
  Implicit Types R : relation A.

  Lemma tc_inv_l R x z : tc R x z -> exists y, R x y /\ (y = z \/ tc R y z).
  Proof. intros H. destruct H as [x z H|x y z H1 H2]; eauto. Qed.

  Lemma tc_mono R R' x y : (forall a b, R a b -> R' a b) -> tc R x y -> tc R' x y.
  Proof. intros H. induction 1; [apply tc_once|eapply tc_l]; eauto. Qed.

  Lemma rtc_inv_tc R x y : rtc R x y -> x = y \/ tc R x y.
  Proof. intros H. destruct H as [|x y z H1 H2]; [auto|right]. eapply tc_rtc_r; [apply tc_once|]; eauto. Qed.

  (* adding the edge f -> t *)
  Lemma tc_add R f t a b :
    tc (fun x y => R x y \/ (x = f /\ y = t)) a b -> tc R a b \/ (rtc R a f /\ rtc R t b).
  Proof.
    induction 1 as [a b [H|[-> ->]]|a c b [H|[-> ->]] _ IH].
    - left. apply tc_once, H.
    - right. split; apply rtc_refl.
    - destruct IH as [IH|[I1 I2]].
      + left. eapply tc_l; eauto.
      + right. split; [eapply rtc_l; eauto|exact I2].
    - destruct IH as [IH|[I1 I2]].
      + right. split; [apply rtc_refl|apply tc_rtc, IH].
      + right. split; [apply rtc_refl|exact I2].
  Qed.

  Lemma acyclic_add R f t :
    (forall a, ~ tc R a a) -> ~ rtc R t f ->
    forall a, ~ tc (fun x y => R x y \/ (x = f /\ y = t)) a a.
  Proof.
    intros Hac Hn a H. apply tc_add in H as [H|[H1 H2]].
    - exact (Hac a H).
    - apply Hn. etrans; eauto.
  Qed.

  (* edges that all leave f do not help reaching f *)
  Lemma rtc_to_source R R' f a :
    (forall x y, R' x y -> R x y \/ x = f) -> rtc R' a f -> rtc R a f.
  Proof.
    intros H. induction 1 as [|a b c H1 _ IH]; [apply rtc_refl|].
    destruct (H _ _ H1) as [Hr| ->]; [eapply rtc_l; eauto|apply rtc_refl].
  Qed.

  (* walks and the pigeonhole argument *)
  Inductive walk R : A -> list A -> Prop :=
  | walk_nil x : walk R x []
  | walk_cons x y l : R x y -> walk R y l -> walk R x (y :: l).

  Lemma walk_tc R x l y : walk R x l -> y ∈ l -> tc R x y.
  Proof.
    induction 1 as [|x z l H _ IH]; intros Hin.
    - inversion Hin.
    - apply elem_of_cons in Hin as [->|Hin]; [apply tc_once, H|].
      eapply tc_l; eauto.
  Qed.

  Lemma walk_dup_cycle R x l : walk R x l -> ~ NoDup l -> exists a, tc R a a.
  Proof.
    induction 1 as [|x y l H Hw IH]; intros Hnd.
    - exfalso. apply Hnd. constructor.
    - destruct (decide (y ∈ l)) as [Hin|Hnin].
      + exists y. eapply walk_tc; eauto.
      + apply IH. intros Hl. apply Hnd. constructor; auto.
  Qed.
End rel.

(* ---- lookups ---- *)
Lemma has_res_has st i : wf st -> good_id i -> has_res st i = true <-> has st i.
Proof.
  intros Hwf Hi. unfold has_res, has. destruct (o_res st !! id_str i) as [j|] eqn:E.
  - destruct (wf_res st Hwf _ _ E) as [Hk Hj].
    rewrite (id_str_inj i j Hi Hj Hk). tauto.
  - split; discriminate.
Qed.

Lemma has_good st i : wf st -> has st i -> good_id i.
Proof. intros Hwf H. exact (proj2 (wf_res st Hwf _ _ H)). Qed.

Lemma has_rel_edge st r :
  wf st -> good_rel r -> has_rel st r = true <-> o_rels st !! rel_key r = Some r.
Proof.
  intros Hwf Hr. unfold has_rel. destruct (o_rels st !! rel_key r) as [r'|] eqn:E.
  - destruct (wf_rels st Hwf _ _ E) as [Hk Hr'].
    rewrite (rel_key_inj r r' Hr Hr' Hk). tauto.
  - split; discriminate.
Qed.

Lemma edge_has st a b : wf st -> edge st a b -> has st a /\ has st b.
Proof. intros Hwf (k & r & H & <- & <-). exact (wf_nodangling st Hwf _ _ H). Qed.

Lemma reach_has st a b : wf st -> reach st a b -> has st a /\ has st b.
Proof.
  intros Hwf. induction 1 as [a b H|a c b H _ IH].
  - eapply edge_has; eauto.
  - split; [exact (proj1 (edge_has _ _ _ Hwf H))|exact (proj2 IH)].
Qed.

Lemma retrieve_resources_ok st ids :
  Forall (has st) ids -> retrieve_resources st ids = Ok ids.
Proof.
  intros H. unfold retrieve_resources.
  assert (E : mapM (fun i => o_res st !! id_str i) ids = Some ids).
  { apply mapM_Some. induction H; constructor; auto. }
  rewrite E. reflexivity.
Qed.

Lemma retrieve_resources_missing st ids :
  wf st -> Forall good_id ids -> ~ Forall (has st) ids -> retrieve_resources st ids = Err ENotFound.
Proof.
  intros Hwf Hg Hn. unfold retrieve_resources.
  destruct (mapM (fun i => o_res st !! id_str i) ids) as [l|] eqn:E; [|reflexivity].
  exfalso. apply Hn. apply mapM_Some in E.
  induction E as [|i j ids l H _ IH]; [constructor|].
  apply Forall_cons in Hg as [Hi Hg].
  constructor.
  - apply has_res_has; auto. unfold has_res. rewrite H. reflexivity.
  - apply IH; auto. intros HF. apply Hn. constructor; auto.
    apply has_res_has; auto. unfold has_res. rewrite H. reflexivity.
Qed.

Lemma elem_of_scan_prefix st p r :
  r ∈ scan_prefix st p <-> exists k, o_rels st !! k = Some r /\ is_prefix p k = true.
Proof.
  unfold scan_prefix. rewrite elem_of_list_fmap. split.
  - intros ([k r'] & -> & H). apply elem_of_list_filter in H as [H1 H2].
    apply elem_of_map_to_list in H2. eauto.
  - intros (k & H1 & H2). exists (k, r). split; [reflexivity|].
    apply elem_of_list_filter. split; [exact H2|]. apply elem_of_map_to_list, H1.
Qed.

Definition kids (st : ost) (i : id) : list id := r_to <$> scan_prefix st (id_str i ++ sep).

Lemma elem_of_kids st i y : wf st -> good_id i -> y ∈ kids st i <-> edge st i y.
Proof.
  intros Hwf Hi. unfold kids. rewrite elem_of_list_fmap. split.
  - intros (r & -> & H). apply elem_of_scan_prefix in H as (k & H1 & H2).
    destruct (wf_rels st Hwf _ _ H1) as [-> Hr].
    apply prefix_from in H2; auto. exists (rel_key r), r. auto.
  - intros (k & r & H & Hf & Ht). exists r. split; [auto|].
    apply elem_of_scan_prefix. exists k. split; [exact H|].
    destruct (wf_rels st Hwf _ _ H) as [-> Hr]. apply prefix_from; auto.
Qed.

Lemma outgoing_ok c st i :
  f10 c = true -> wf st -> good_id i -> outgoing c st i = Ok (kids st i).
Proof.
  intros Hc Hwf Hi. unfold outgoing. rewrite Hc. apply retrieve_resources_ok.
  apply Forall_forall. intros y Hy. apply elem_of_kids in Hy; auto.
  exact (proj2 (edge_has _ _ _ Hwf Hy)).
Qed.

(* ---- the descendants recursion ---- *)
Lemma collect_ok g cs l :
  collect g cs = Ok l ->
  Forall (fun ch => exists d, g ch = Ok d) cs /\
  forall y, y ∈ l <-> exists ch, ch ∈ cs /\ (y = ch \/ exists d, g ch = Ok d /\ y ∈ d).
Proof.
  revert l. induction cs as [|ch cs IH]; intros l; simpl.
  - intros [= <-]. split; [constructor|]. intros y. split.
    + intros H; inversion H.
    + intros (ch & H & _); inversion H.
  - destruct (g ch) as [d|e] eqn:E; [|discriminate].
    destruct (collect g cs) as [rest|e]; [|discriminate].
    intros [= <-]. destruct (IH rest eq_refl) as [IH1 IH2]. split.
    + constructor; eauto.
    + intros y. rewrite elem_of_app, elem_of_cons, IH2. split.
      * intros [H|[->|(ch' & H1 & H2)]].
        -- exists ch. split; [left|]. right. eauto.
        -- exists ch. split; [left|]. auto.
        -- exists ch'. split; [right; auto|auto].
      * intros (ch' & H1 & H2). apply elem_of_cons in H1 as [->|H1].
        -- destruct H2 as [->|(d' & Hd & Hy)]; [auto|]. rewrite E in Hd. injection Hd as <-. auto.
        -- right. right. eauto.
Qed.

Lemma collect_err g cs e : collect g cs = Err e -> exists ch, ch ∈ cs /\ g ch = Err e.
Proof.
  induction cs as [|ch cs IH]; simpl; [discriminate|].
  destruct (g ch) as [d|e'] eqn:E.
  - destruct (collect g cs) as [rest|e'']; [discriminate|].
    intros [= <-]. destruct (IH eq_refl) as (ch' & H1 & H2). exists ch'. split; [right; auto|auto].
  - intros [= <-]. exists ch. split; [left|auto].
Qed.

Lemma collect_all_ok g cs :
  Forall (fun ch => exists d, g ch = Ok d) cs -> exists l, collect g cs = Ok l.
Proof.
  induction 1 as [|ch cs [d Hd] _ [l IH]]; simpl; [eauto|].
  rewrite Hd, IH. eauto.
Qed.

Section desc.
  Variable c : cfg.
  Hypothesis Hc : f10 c = true.
  Variable st : ost.
  Hypothesis Hwf : wf st.

  Lemma desc_sound fuel i l :
    good_id i -> desc c fuel st i = Ok l -> forall y, y ∈ l <-> reach st i y.
  Proof.
    revert i l. induction fuel as [|fuel IH]; intros i l Hi; simpl; [discriminate|].
    rewrite (outgoing_ok c st i Hc Hwf Hi). intros H y.
    destruct (collect_ok _ _ _ H) as [_ H2]. rewrite H2. split.
    - intros (ch & Hch & Hy). apply elem_of_kids in Hch; auto.
      destruct Hy as [->|(d & Hd & Hy)]; [apply tc_once, Hch|].
      eapply tc_l; [exact Hch|].
      apply (IH ch d (has_good _ _ Hwf (proj2 (edge_has _ _ _ Hwf Hch))) Hd y), Hy.
    - intros Hr. apply tc_inv_l in Hr as (ch & He & Hr). exists ch.
      split; [apply elem_of_kids; auto|].
      destruct Hr as [->|Hr]; [auto|]. right.
      destruct (collect_ok _ _ _ H) as [H1 _]. rewrite Forall_forall in H1.
      destruct (H1 ch) as [d Hd]; [apply elem_of_kids; auto|].
      exists d. split; [auto|].
      apply (IH ch d (has_good _ _ Hwf (proj2 (edge_has _ _ _ Hwf He))) Hd y), Hr.
  Qed.

  (* an error can only be exhaustion of the fuel, and then a walk of that length exists *)
  Lemma desc_err fuel i e :
    good_id i -> desc c fuel st i = Err e ->
    e = EFuel /\ exists l, walk (edge st) i l /\ length l = fuel.
  Proof.
    revert i. induction fuel as [|fuel IH]; intros i Hi; simpl.
    - intros [= <-]. split; [auto|]. exists []. split; [constructor|auto].
    - rewrite (outgoing_ok c st i Hc Hwf Hi). intros H.
      apply collect_err in H as (ch & Hch & H). apply elem_of_kids in Hch; auto.
      destruct (IH ch) with (1 := has_good _ _ Hwf (proj2 (edge_has _ _ _ Hwf Hch))) (2 := H)
        as (-> & l & Hw & Hl).
      split; [auto|]. exists (ch :: l). split; [constructor; auto|simpl; auto].
  Qed.

  Lemma walk_targets i l : walk (edge st) i l -> l ⊆ (r_to ∘ snd) <$> map_to_list (o_rels st).
  Proof.
    induction 1 as [|x y l (k & r & H & _ & <-) _ IH]; intros z Hz.
    - inversion Hz.
    - apply elem_of_cons in Hz as [->|Hz]; [|auto].
      apply elem_of_list_fmap. exists (k, r). split; [reflexivity|].
      apply elem_of_map_to_list, H.
  Qed.

  Lemma descendants_ok i :
    good_id i -> exists l, descendants c st i = Ok l /\ forall y, y ∈ l <-> reach st i y.
  Proof.
    intros Hi. unfold descendants. destruct (desc c (fuel_of st) st i) as [l|e] eqn:E.
    - exists l. split; [auto|]. eapply desc_sound; eauto.
    - exfalso. apply desc_err in E as (_ & l & Hw & Hl); auto.
      destruct (walk_dup_cycle _ _ _ Hw) as [a Ha].
      + intros Hnd. pose proof (walk_targets _ _ Hw) as Hsub.
        pose proof (submseteq_length _ _ (NoDup_submseteq _ _ Hnd Hsub)) as Hlen.
        rewrite fmap_length in Hlen.
        unfold fuel_of, size, map_size in Hl. lia.
      + exact (wf_acyclic st Hwf a Ha).
  Qed.
End desc.

(* ---- adding a relationship ---- *)
Definition add_rel (st : ost) (r : rel) : ost :=
  OSt (o_res st) (<[rel_key r := r]> (o_rels st)).

Lemma edge_add_rel st r a b :
  wf st -> good_rel r ->
  edge (add_rel st r) a b <-> edge st a b \/ (a = r_from r /\ b = r_to r).
Proof.
  intros Hwf Hr. unfold edge, add_rel; simpl. split.
  - intros (k & r' & H & Ha & Hb).
    apply lookup_insert_Some in H as [[<- <-]|[Hne H]]; [right; auto|left; eauto].
  - intros [(k & r' & H & Ha & Hb)|[-> ->]].
    + destruct (decide (k = rel_key r)) as [->|Hne].
      * destruct (wf_rels _ Hwf _ _ H) as [Hk Hr'].
        assert (r' = r) by (apply rel_key_inj; auto). subst r'.
        exists (rel_key r), r. rewrite lookup_insert. auto.
      * exists k, r'. rewrite lookup_insert_ne by auto. auto.
    + exists (rel_key r), r. rewrite lookup_insert; auto.
Qed.

Lemma wf_add_rel st r :
  wf st -> good_rel r -> has st (r_from r) -> has st (r_to r) ->
  ~ rtc (edge st) (r_to r) (r_from r) -> wf (add_rel st r).
Proof.
  intros Hwf Hr Hf Ht Hn. split.
  - exact (wf_res st Hwf).
  - intros k r' H. simpl in H. apply lookup_insert_Some in H as [[<- <-]|[_ H]]; [auto|].
    exact (wf_rels st Hwf _ _ H).
  - intros k r' H. simpl in H. apply lookup_insert_Some in H as [[<- <-]|[_ H]]; [auto|].
    exact (wf_nodangling st Hwf _ _ H).
  - intros a Ha. eapply (acyclic_add (edge st) (r_from r) (r_to r) (wf_acyclic st Hwf) Hn a).
    eapply tc_mono; [|exact Ha]. intros x y Hxy. apply edge_add_rel in Hxy; auto.
Qed.

Lemma memb_spec i l : memb i l = true <-> i ∈ l.
Proof.
  unfold memb. rewrite existsb_exists. split.
  - intros (j & Hj & E). apply bool_decide_eq_true in E. subst. apply elem_of_list_In, Hj.
  - intros H. exists i. split; [apply elem_of_list_In, H|apply bool_decide_eq_true; auto].
Qed.

(* the edge f -> t may be added: both ends exist and t does not reach f (reflexively) *)
Definition legal (st : ost) (f t : id) : Prop :=
  has st f /\ has st t /\ ~ rtc (edge st) t f.

Lemma define_relationship_spec c st f ty t :
  f10 c = true -> f11 c = true -> wf st -> good_id f -> good_id t -> good_ty ty ->
  (legal st f t /\
   define_relationship c st f ty t =
     (if has_rel st (Rel f ty t) then st else add_rel st (Rel f ty t), EOk)) \/
  (~ legal st f t /\
   exists e, define_relationship c st f ty t = (st, e) /\ (e = ENotFound \/ e = ECyclic)).
Proof.
  intros H10 H11 Hwf Hf Ht Hty. unfold define_relationship. rewrite H11. simpl.
  assert (Hr : good_rel (Rel f ty t)) by (split; [|split]; auto).
  assert (Hr' : good_rel (Rel t ty f)) by (split; [|split]; auto).
  destruct (bool_decide (f = t)) eqn:Eft.
  { apply bool_decide_eq_true in Eft. subst t. right. split; [|eauto].
    intros (_ & _ & Hn). apply Hn. apply rtc_refl. }
  apply bool_decide_eq_false in Eft.
  destruct (has_rel st (Rel t ty f)) eqn:Erev.
  { right. split; [|eauto]. intros (_ & _ & Hn). apply Hn.
    apply has_rel_edge in Erev; auto. apply rtc_once. exists (rel_key (Rel t ty f)), (Rel t ty f). auto. }
  destruct (has_rel st (Rel f ty t)) eqn:Eex.
  { left. split; [|reflexivity]. apply has_rel_edge in Eex; auto.
    destruct (wf_nodangling st Hwf _ _ Eex) as [H1 H2]. simpl in *.
    split; [auto|split; [auto|]]. intros Hn. apply (wf_acyclic st Hwf f).
    eapply tc_rtc_r; [apply tc_once|exact Hn]. exists (rel_key (Rel f ty t)), (Rel f ty t). auto. }
  destruct (has_res st f && has_res st t) eqn:Eres; simpl.
  2:{ right. split; [|eauto]. intros (H1 & H2 & _).
      apply has_res_has in H1, H2; auto. rewrite H1, H2 in Eres. discriminate. }
  apply andb_true_iff in Eres as [H1 H2]. apply has_res_has in H1, H2; auto.
  destruct (descendants_ok c H10 st Hwf t Ht) as (d & -> & Hd).
  destruct (memb f d) eqn:Em.
  { right. split; [|eauto]. intros (_ & _ & Hn). apply Hn.
    apply memb_spec, Hd in Em. apply tc_rtc, Em. }
  left. split; [|reflexivity]. split; [auto|split; [auto|]].
  intros Hn. apply rtc_inv_tc in Hn as [->|Hn]; [contradiction|].
  apply Hd, memb_spec in Hn. congruence.
Qed.

Lemma define_relationship_wf c st f ty t :
  f10 c = true -> f11 c = true -> wf st -> good_id f -> good_id t -> good_ty ty ->
  wf (define_relationship c st f ty t).1.
Proof.
  intros H10 H11 Hwf Hf Ht Hty.
  destruct (define_relationship_spec c st f ty t H10 H11 Hwf Hf Ht Hty)
    as [[(L1 & L2 & L3) ->]|[_ (e & -> & _)]]; simpl; [|auto].
  destruct (has_rel st (Rel f ty t)); [auto|].
  apply wf_add_rel; auto. split; [|split]; auto.
Qed.

(* ---- one-to-many ---- *)
Definition add_rels (st : ost) (f : id) (ty : str) (ts : list id) : ost :=
  OSt (o_res st) (insert_rels f ty ts (o_rels st)).

Definition legal_many (st : ost) (f : id) (ts : list id) : Prop :=
  has st f /\ forall t, t ∈ ts -> has st t /\ ~ rtc (edge st) t f.

Lemma check_many_spec c st f ts :
  f10 c = true -> wf st -> Forall good_id ts ->
  (check_many c st f ts = EOk /\ forall t, t ∈ ts -> ~ reach st t f) \/
  (check_many c st f ts = ECyclic /\ exists t, t ∈ ts /\ reach st t f).
Proof.
  intros H10 Hwf. induction 1 as [|t ts Ht _ IH]; simpl.
  - left. split; [auto|]. intros t Ht; inversion Ht.
  - destruct (descendants_ok c H10 st Hwf t Ht) as (d & -> & Hd).
    destruct (memb f d) eqn:Em.
    + right. split; [auto|]. exists t. split; [left|]. apply Hd, memb_spec, Em.
    + destruct IH as [[-> IH]|[-> (t' & H1 & H2)]].
      * left. split; [auto|]. intros t' [->|Hin]%elem_of_cons; [|auto].
        intros Hr. apply Hd, memb_spec in Hr. congruence.
      * right. split; [auto|]. exists t'. split; [right; auto|auto].
Qed.

Lemma add_rels_wf st f ty ts :
  wf st -> good_id f -> good_ty ty -> Forall good_id ts -> legal_many st f ts ->
  wf (add_rels st f ty ts) /\
  forall x y, edge (add_rels st f ty ts) x y <-> edge st x y \/ (x = f /\ y ∈ ts).
Proof.
  intros Hwf Hf Hty Hts [Hhf Hl]. induction Hts as [|t ts Ht Hts IH].
  - split; [destruct st; exact Hwf|]. intros x y. destruct st; simpl. split; [auto|].
    intros [H|[_ H]]; [auto|inversion H].
  - destruct IH as [IHwf IHe].
    { intros t' Hin. apply Hl. right; auto. }
    destruct (Hl t) as [Hht Hnt]; [left|].
    assert (Hr : good_rel (Rel f ty t)) by (split; [|split]; auto).
    change (add_rels st f ty (t :: ts)) with (add_rel (add_rels st f ty ts) (Rel f ty t)).
    split.
    + apply wf_add_rel; auto. simpl. intros Hn. apply Hnt.
      eapply rtc_to_source; [|exact Hn]. intros x y Hxy. apply IHe in Hxy as [H|[-> _]]; auto.
    + intros x y. rewrite edge_add_rel by auto. rewrite IHe. simpl.
      rewrite elem_of_cons. split.
      * intros [[H|[-> H]]|[-> ->]]; auto.
      * intros [H|[-> [->|H]]]; auto.
Qed.

Lemma define_many_spec c st f ty ts :
  f10 c = true -> f11 c = true -> wf st -> good_id f -> good_ty ty -> Forall good_id ts ->
  (legal_many st f ts /\ define_many c st f ty ts = (add_rels st f ty ts, EOk)) \/
  (~ legal_many st f ts /\
   exists e, define_many c st f ty ts = (st, e) /\ (e = ENotFound \/ e = ECyclic)).
Proof.
  intros H10 H11 Hwf Hf Hty Hts. unfold define_many. rewrite H11. simpl.
  destruct (memb f ts) eqn:Em.
  { right. split; [|eauto]. intros [_ Hl]. apply memb_spec in Em.
    destruct (Hl f Em) as [_ Hn]. apply Hn, rtc_refl. }
  destruct (has_res st f) eqn:Ehf; simpl.
  2:{ right. split; [|eauto]. intros [H _]. apply has_res_has in H; auto. congruence. }
  apply has_res_has in Ehf; auto.
  destruct (forallb (has_res st) ts) eqn:Eall; simpl.
  2:{ right. split; [|eauto]. intros [_ Hl].
      assert (forallb (has_res st) ts = true); [|congruence].
      apply forallb_forall. intros t Hin. apply elem_of_list_In in Hin.
      rewrite Forall_forall in Hts. apply has_res_has; auto. apply Hl, Hin. }
  assert (Hall : forall t, t ∈ ts -> has st t).
  { intros t Hin. rewrite Forall_forall in Hts. apply has_res_has; auto.
    rewrite forallb_forall in Eall. apply Eall, elem_of_list_In, Hin. }
  destruct (check_many_spec c st f ts H10 Hwf Hts) as [[-> Hok]|[-> (t & Hin & Hr)]].
  - left. split; [|reflexivity]. split; [auto|]. intros t Hin. split; [auto|].
    intros Hn. apply rtc_inv_tc in Hn as [->|Hn].
    + apply memb_spec in Hin. congruence.
    + exact (Hok t Hin Hn).
  - right. split; [|eauto]. intros [_ Hl]. destruct (Hl t Hin) as [_ Hn]. apply Hn, tc_rtc, Hr.
Qed.

(* ---- deleting ---- *)
Lemma id_str_ne i j : good_id i -> good_id j -> i <> j -> id_str i <> id_str j.
Proof. intros Hi Hj Hne E. apply Hne. apply id_str_inj; auto. Qed.

Lemma delete_resource_rels st x k r :
  wf st -> good_id x ->
  o_rels (delete_resource st x).1 !! k = Some r <->
  o_rels st !! k = Some r /\ r_from r <> x /\ r_to r <> x.
Proof.
  intros Hwf Hx. unfold delete_resource. cbn [fst o_rels]. unfold del_outgoing, del_incoming.
  rewrite !map_filter_lookup_Some. cbn [fst]. split.
  - intros [[H Hs] Hp]. destruct (wf_rels st Hwf _ _ H) as [-> Hr].
    split; [auto|]. split.
    + intros E. apply (prefix_from x r Hx Hr) in E. congruence.
    + intros E. apply (suffix_to x r Hx Hr) in E. congruence.
  - intros (H & Hf & Ht). destruct (wf_rels st Hwf _ _ H) as [-> Hr].
    split; [split; [auto|]|].
    + destruct (is_suffix (sep ++ id_str x) (rel_key r)) eqn:E; [|auto].
      apply (suffix_to x r Hx Hr) in E. contradiction.
    + destruct (is_prefix (id_str x ++ sep) (rel_key r)) eqn:E; [|auto].
      apply (prefix_from x r Hx Hr) in E. contradiction.
Qed.

Lemma delete_resource_wf st x : wf st -> good_id x -> wf (delete_resource st x).1.
Proof.
  intros Hwf Hx.
  assert (Hsub : forall a b, edge (delete_resource st x).1 a b -> edge st a b).
  { intros a b (k & r & H & Ha & Hb). apply delete_resource_rels in H as (H & _); auto.
    exists k, r. auto. }
  split.
  - intros k i H. simpl in H. apply lookup_delete_Some in H as [_ H]. exact (wf_res st Hwf _ _ H).
  - intros k r H. apply delete_resource_rels in H as (H & _); auto. exact (wf_rels st Hwf _ _ H).
  - intros k r H. apply delete_resource_rels in H as (H & Hf & Ht); auto.
    destruct (wf_nodangling st Hwf _ _ H) as [H1 H2].
    unfold has; simpl. rewrite !lookup_delete_ne; auto.
    + apply id_str_ne; auto. eapply has_good; eauto.
    + apply id_str_ne; auto. eapply has_good; eauto.
  - intros a Ha. apply (wf_acyclic st Hwf a). eapply tc_mono; [|exact Ha]. exact Hsub.
Qed.

Lemma delete_relationship_rels st f ty t k r :
  wf st -> good_rel (Rel f ty t) ->
  o_rels (delete_relationship st f ty t).1 !! k = Some r <->
  o_rels st !! k = Some r /\ r <> Rel f ty t.
Proof.
  intros Hwf Hr. simpl. rewrite lookup_delete_Some. split.
  - intros [Hne H]. split; [auto|]. intros ->. destruct (wf_rels st Hwf _ _ H) as [-> _]. auto.
  - intros [H Hne]. split; [|auto]. intros <-. apply Hne.
    destruct (wf_rels st Hwf _ _ H) as [Hk Hr']. symmetry. apply rel_key_inj; auto.
Qed.

Lemma delete_relationship_wf st f ty t : wf st -> wf (delete_relationship st f ty t).1.
Proof.
  intros Hwf. split.
  - exact (wf_res st Hwf).
  - intros k r H. simpl in H. apply lookup_delete_Some in H as [_ H]. exact (wf_rels st Hwf _ _ H).
  - intros k r H. simpl in H. apply lookup_delete_Some in H as [_ H].
    exact (wf_nodangling st Hwf _ _ H).
  - intros a Ha. apply (wf_acyclic st Hwf a). eapply tc_mono; [|exact Ha].
    intros x y (k & r & H & Hx & Hy). simpl in H. apply lookup_delete_Some in H as [_ H].
    exists k, r. auto.
Qed.

Lemma define_resource_wf st i : wf st -> good_id i -> wf (define_resource st i).1.
Proof.
  intros Hwf Hi. unfold define_resource. destruct (id_valid i); [|exact Hwf]. simpl.
  assert (Hhas : forall j, has st j -> has (OSt (<[id_str i:=i]> (o_res st)) (o_rels st)) j).
  { intros j Hj. unfold has; simpl. destruct (decide (id_str i = id_str j)) as [E|E].
    - rewrite E, lookup_insert. f_equal. apply id_str_inj; auto. eapply has_good; eauto.
    - rewrite lookup_insert_ne; auto. }
  split.
  - intros k j H. simpl in H. apply lookup_insert_Some in H as [[<- <-]|[_ H]]; [auto|].
    exact (wf_res st Hwf _ _ H).
  - exact (wf_rels st Hwf).
  - intros k r H. destruct (wf_nodangling st Hwf _ _ H). auto.
  - exact (wf_acyclic st Hwf).
Qed.

(* ---- traversals ---- *)
Definition pedge (st : ost) (a b : id) : Prop :=
  exists k r, o_rels st !! k = Some r /\ r_from r = a /\ r_type r = s_parent /\ r_to r = b.

Lemma good_ty_parent : good_ty s_parent.
Proof. reflexivity. Qed.

Lemma pedge_edge st a b : pedge st a b -> edge st a b.
Proof. intros (k & r & H & Ha & _ & Hb). exists k, r. auto. Qed.

Lemma elem_of_children_of st i y : wf st -> good_id i -> y ∈ children_of st i <-> pedge st i y.
Proof.
  intros Hwf Hi. unfold children_of. rewrite elem_of_list_fmap. split.
  - intros (r & -> & H). apply elem_of_scan_prefix in H as (k & H1 & H2).
    destruct (wf_rels st Hwf _ _ H1) as [-> Hr].
    apply prefix_from_ty in H2 as [H2 H3]; auto using good_ty_parent.
    exists (rel_key r), r. auto.
  - intros (k & r & H & Hf & Hty & Ht). exists r. split; [auto|].
    apply elem_of_scan_prefix. exists k. split; [exact H|].
    destruct (wf_rels st Hwf _ _ H) as [-> Hr]. apply prefix_from_ty; auto using good_ty_parent.
Qed.

Lemma parse_parents_rels rs :
  Forall good_rel rs ->
  parse_parents (rel_key <$> rs) = Ok (r_from <$> filter (fun r => r_type r = s_parent) rs).
Proof.
  induction 1 as [|r rs Hr _ IH]; [reflexivity|].
  rewrite fmap_cons. cbn [parse_parents]. rewrite (parse_rel_key r Hr), IH, filter_cons.
  destruct (decide (r_type r = s_parent)) as [E|E].
  - rewrite (bool_decide_eq_true_2 _ E). reflexivity.
  - rewrite (bool_decide_eq_false_2 _ E). reflexivity.
Qed.

Lemma parents_of_ok st i :
  wf st -> exists l, parents_of st i = Ok l /\ forall y, y ∈ l <-> pedge st y i.
Proof.
  intros Hwf. unfold parents_of.
  set (sel := filter (fun kr : str * rel => bool_decide (r_to kr.2 = i)) (map_to_list (o_rels st))).
  assert (Hsel : forall k r, (k, r) ∈ sel <-> o_rels st !! k = Some r /\ r_to r = i).
  { intros k r. unfold sel. rewrite elem_of_list_filter, elem_of_map_to_list. simpl.
    rewrite bool_decide_spec. tauto. }
  assert (Hkeys : fst <$> sel = rel_key <$> (snd <$> sel)).
  { rewrite <- list_fmap_compose. apply Forall_fmap_ext, Forall_forall.
    intros [k r] Hin. apply Hsel in Hin as [H _]. simpl.
    exact (proj1 (wf_rels st Hwf _ _ H)). }
  rewrite Hkeys, parse_parents_rels.
  2:{ apply Forall_forall. intros r Hin. apply elem_of_list_fmap in Hin as ([k r'] & -> & Hin).
      apply Hsel in Hin as [H _]. exact (proj2 (wf_rels st Hwf _ _ H)). }
  eexists. split; [reflexivity|]. intros y. rewrite elem_of_list_fmap. split.
  - intros (r & -> & Hin). apply elem_of_list_filter in Hin as [Hty Hin].
    apply elem_of_list_fmap in Hin as ([k r'] & -> & Hin). apply Hsel in Hin as [H Hto].
    exists k, r'. auto.
  - intros (k & r & H & Hf & Hty & Hto). exists r. split; [auto|].
    apply elem_of_list_filter. split; [auto|]. apply elem_of_list_fmap. exists (k, r).
    split; [auto|]. apply Hsel. auto.
Qed.

Lemma traverse_all_ok (f : id -> result (list id)) ids :
  (forall i, i ∈ ids -> exists l, f i = Ok l) ->
  exists l, traverse_all f ids = Ok l /\
            forall y, y ∈ l <-> exists i li, i ∈ ids /\ f i = Ok li /\ y ∈ li.
Proof.
  induction ids as [|i ids IH]; intros H; simpl.
  - exists []. split; [auto|]. intros y. split; [intros Hy; inversion Hy|].
    intros (i & li & Hi & _). inversion Hi.
  - destruct (H i) as [li Hli]; [left|]. rewrite Hli.
    destruct IH as (rest & -> & Hrest); [intros j Hj; apply H; right; auto|].
    eexists. split; [reflexivity|]. intros y. rewrite elem_of_app, Hrest. split.
    + intros [Hy|(j & lj & Hj & Hfj & Hy)].
      * exists i, li. split; [left|auto].
      * exists j, lj. split; [right; auto|auto].
    + intros (j & lj & Hj & Hfj & Hy). apply elem_of_cons in Hj as [->|Hj].
      * left. congruence.
      * right. eauto.
Qed.

Definition tstep (st : ost) (t : trav) (a b : id) : Prop :=
  match t with TChildren => pedge st a b | TParents => pedge st b a end.

Fixpoint tpath (st : ost) (ts : list trav) (a b : id) : Prop :=
  match ts with
  | [] => a = b
  | t :: ts' => exists z, tstep st t a z /\ tpath st ts' z b
  end.

Lemma traverse_ok st t ids :
  wf st -> Forall (has st) ids ->
  exists l, traverse st t ids = Ok l /\
            (forall y, y ∈ l <-> exists i, i ∈ ids /\ tstep st t i y) /\ Forall (has st) l.
Proof.
  intros Hwf Hids. rewrite Forall_forall in Hids. destruct t; simpl.
  - destruct (traverse_all_ok (parents_of st) ids) as (l & -> & Hl).
    { intros i _. destruct (parents_of_ok st i Hwf) as (l & -> & _). eauto. }
    assert (Hy : forall y, y ∈ l <-> exists i, i ∈ ids /\ pedge st y i).
    { intros y. rewrite Hl. split.
      - intros (i & li & Hi & Hf & Hy). destruct (parents_of_ok st i Hwf) as (l' & E & Hl').
        rewrite E in Hf. injection Hf as <-. exists i. split; [auto|]. apply Hl', Hy.
      - intros (i & Hi & Hp). destruct (parents_of_ok st i Hwf) as (l' & E & Hl').
        exists i, l'. split; [auto|split; [auto|]]. apply Hl', Hp. }
    exists l. split; [auto|split; [exact Hy|]].
    apply Forall_forall. intros y Hin. apply Hy in Hin as (i & _ & Hp).
    exact (proj1 (edge_has _ _ _ Hwf (pedge_edge _ _ _ Hp))).
  - destruct (traverse_all_ok (fun i => Ok (children_of st i)) ids) as (l & -> & Hl); [eauto|].
    assert (Hy : forall y, y ∈ l <-> exists i, i ∈ ids /\ pedge st i y).
    { intros y. rewrite Hl. split.
      - intros (i & li & Hi & [= <-] & Hy). exists i. split; [auto|].
        apply elem_of_children_of in Hy; auto. eapply has_good; eauto.
      - intros (i & Hi & Hp). exists i, (children_of st i). split; [auto|split; [auto|]].
        apply elem_of_children_of; auto. eapply has_good; eauto. }
    exists l. split; [auto|split; [exact Hy|]].
    apply Forall_forall. intros y Hin. apply Hy in Hin as (i & _ & Hp).
    exact (proj2 (edge_has _ _ _ Hwf (pedge_edge _ _ _ Hp))).
Qed.

Lemma exec_clauses_ok st ts : forall ids,
  wf st -> Forall (has st) ids ->
  exists l, exec_clauses st ids ts = Ok l /\
            (forall y, y ∈ l <-> exists i, i ∈ ids /\ tpath st ts i y) /\ Forall (has st) l.
Proof.
  induction ts as [|t ts IH]; intros ids Hwf Hids; simpl.
  - exists ids. split; [auto|split; [|auto]]. intros y. split; [eauto|]. intros (i & Hi & <-). auto.
  - destruct ids as [|i0 ids].
    { exists []. split; [auto|split; [|constructor]]. intros y.
      split; [intros H; inversion H|]. intros (i & Hi & _). inversion Hi. }
    destruct (traverse_ok st t (i0 :: ids) Hwf Hids) as (next & -> & Hnext & Hhas).
    rewrite (retrieve_resources_ok st next Hhas).
    destruct (IH next Hwf Hhas) as (l & -> & Hl & Hlh).
    exists l. split; [auto|split; [|auto]]. intros y. rewrite Hl. split.
    + intros (z & Hz & Hp). apply Hnext in Hz as (i & Hi & Hs). exists i. split; [auto|]. exists z. auto.
    + intros (i & Hi & z & Hs & Hp). exists z. split; [|auto]. apply Hnext. eauto.
Qed.

Lemma query_ok st x ts :
  wf st -> has st x ->
  exists l, query st x ts = Ok l /\ (forall y, y ∈ l <-> tpath st ts x y) /\ Forall (has st) l.
Proof.
  intros Hwf Hx. unfold query.
  rewrite (retrieve_resources_ok st [x]) by (constructor; auto).
  destruct (exec_clauses_ok st ts [x] Hwf) as (l & -> & Hl & Hh); [constructor; auto|].
  exists l. split; [auto|split; [|auto]]. intros y. rewrite Hl. split.
  - intros (i & Hi & Hp). apply elem_of_list_singleton in Hi. subst. auto.
  - intros Hp. exists x. split; [left|auto].
Qed.

Lemma query_missing st x ts : wf st -> good_id x -> ~ has st x -> query st x ts = Err ENotFound.
Proof.
  intros Hwf Hx Hn. unfold query.
  rewrite (retrieve_resources_missing st [x] Hwf); [auto|constructor; auto|].
  intros H. apply Forall_cons in H as [H _]. contradiction.
Qed.

(* ---- batches ---- *)
Lemma has_delete_resource_iff o x j :
  good_id x -> good_id j -> has (delete_resource o x).1 j <-> has o j /\ j <> x.
Proof.
  intros Hx Hj. unfold has; simpl. rewrite lookup_delete_Some. split.
  - intros [Hne H]. split; [auto|]. intros ->. auto.
  - intros [H Hne]. split; [|auto]. intros E. apply Hne. symmetry. apply id_str_inj; auto.
Qed.

Lemma delete_resources_char ids : forall o,
  wf o -> Forall good_id ids ->
  wf (delete_resources o ids) /\
  (forall j, good_id j -> has (delete_resources o ids) j <-> has o j /\ j ∉ ids) /\
  (forall k r, o_rels (delete_resources o ids) !! k = Some r <->
               o_rels o !! k = Some r /\ r_from r ∉ ids /\ r_to r ∉ ids).
Proof.
  induction ids as [|x ids IH]; intros o Hwf Hg.
  - cbn [delete_resources fold_left]. split; [auto|]. split.
    + intros j _. rewrite elem_of_nil. tauto.
    + intros k r. rewrite !elem_of_nil. tauto.
  - apply Forall_cons in Hg as [Hx Hg]. unfold delete_resources. cbn [fold_left].
    fold (delete_resources (delete_resource o x).1 ids).
    destruct (IH (delete_resource o x).1 (delete_resource_wf o x Hwf Hx) Hg) as (I1 & I2 & I3).
    split; [auto|]. split.
    + intros j Hj. rewrite I2, has_delete_resource_iff, elem_of_cons by auto. tauto.
    + intros k r. rewrite I3, delete_resource_rels, !elem_of_cons by auto. tauto.
Qed.

Lemma define_resources_wf ids : forall o,
  wf o -> Forall good_id ids -> wf (fold_left (fun o i => (define_resource o i).1) ids o).
Proof.
  induction ids as [|x ids IH]; intros o Hwf Hg; [exact Hwf|].
  apply Forall_cons in Hg as [Hx Hg]. cbn [fold_left]. apply IH; auto. apply define_resource_wf; auto.
Qed.

(* ---- histories ---- *)
Definition good_op (o : op) : Prop :=
  match o with
  | DefRes i | DelRes i => good_id i
  | DefRel f ty t | DelRel f ty t => good_id f /\ good_ty ty /\ good_id t
  | DefMany f ty ts => good_id f /\ good_ty ty /\ Forall good_id ts
  | DelMany xs | DefManyRes xs => Forall good_id xs
  | Begin | Commit | Abort => True
  end.

Global Instance good_op_dec o : Decision (good_op o).
Proof. destruct o; simpl; apply _. Defined.

Lemma apply_wf c st o :
  f10 c = true -> f11 c = true -> wf st -> good_op o -> wf (apply c st o).1.
Proof.
  intros H10 H11 Hwf Ho. destruct o; simpl in *; auto.
  - apply define_resource_wf; auto.
  - apply delete_resource_wf; auto.
  - destruct Ho as (Hf & Hty & Ht). apply define_relationship_wf; auto.
  - destruct Ho as (Hf & Hty & Hts).
    destruct (define_many_spec c st f ty ts H10 H11 Hwf Hf Hty Hts)
      as [[Hl ->]|[_ (e & -> & _)]]; simpl; [|auto].
    apply add_rels_wf; auto.
  - apply delete_relationship_wf; auto.
  - apply delete_resources_char; auto.
  - unfold define_many_resources. destruct (forallb id_valid xs); [|exact Hwf]. apply define_resources_wf; auto.
Qed.

Definition wf_sys (s : sys) : Prop :=
  wf (s_db s) /\ forall st, s_tx s = Some st -> wf st.

Lemma good_root : good_id root_id.
Proof.
  split; [discriminate|split; [|reflexivity]].
  apply (bool_decide_unpack _). vm_compute. exact I.
Qed.

Lemma wf_init_ost : wf init_ost.
Proof.
  split.
  - intros k i H. unfold init_ost in H. cbn [o_res] in H.
    apply lookup_singleton_Some in H as [<- <-]. split; [auto|apply good_root].
  - intros k r H. simpl in H. rewrite lookup_empty in H. discriminate.
  - intros k r H. simpl in H. rewrite lookup_empty in H. discriminate.
  - intros a Ha. apply tc_inv_l in Ha as (y & (k & r & H & _) & _). simpl in H.
    rewrite lookup_empty in H. discriminate.
Qed.

Lemma wf_sys_init : wf_sys init.
Proof. split; [apply wf_init_ost|]. intros st H. discriminate. Qed.

Lemma wf_cur s : wf_sys s -> wf (cur s).
Proof. intros [H1 H2]. unfold cur. destruct (s_tx s) as [st|]; simpl; auto. Qed.

Lemma step_data c s o :
  match o with
  | Begin | Commit | Abort => True
  | _ => (step c s o).1 = set_cur s (apply c (cur s) o).1
  end.
Proof.
  destruct o; cbv [step]; auto; destruct (apply c (cur s) _); reflexivity.
Qed.

Lemma step_wf c s o :
  f10 c = true -> f11 c = true -> wf_sys s -> good_op o -> wf_sys (step c s o).1.
Proof.
  intros H10 H11 Hs Ho.
  assert (Hdata : wf_sys (set_cur s (apply c (cur s) o).1)).
  { pose proof (apply_wf c (cur s) o H10 H11 (wf_cur s Hs) Ho) as Hw.
    destruct Hs as [H1 H2]. unfold set_cur. destruct (s_tx s) as [st|] eqn:E.
    - split; simpl; [exact H1|]. intros st' [= <-]. exact Hw.
    - split; simpl; [exact Hw|]. intros st' H; discriminate. }
  pose proof (step_data c s o) as Hstep.
  destruct o; try (rewrite Hstep; exact Hdata).
  - destruct Hs as [H1 H2]. simpl. destruct (s_tx s) as [st|] eqn:E.
    + split; simpl; [auto|]. rewrite E. auto.
    + split; simpl; [auto|]. intros st' [= <-]. auto.
  - destruct Hs as [H1 H2]. simpl. destruct (s_tx s) as [st|] eqn:E.
    + split; simpl; [auto|]. intros st' H; discriminate.
    + split; simpl; [auto|]. rewrite E. auto.
  - destruct Hs as [H1 H2]. split; simpl; auto. intros st' H; discriminate.
Qed.

Lemma run_wf c ops : forall s,
  f10 c = true -> f11 c = true -> wf_sys s -> Forall good_op ops -> wf_sys (run c s ops).
Proof.
  induction ops as [|o ops IH]; intros s H10 H11 Hs Hops; [exact Hs|].
  apply Forall_cons in Hops as [Ho Hops]. simpl. apply IH; auto. apply step_wf; auto.
Qed.
