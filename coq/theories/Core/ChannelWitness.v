(* Core/ChannelWitness.v — concrete histories (vm_compute): the defects found, on the model instance
   of the pinned upstream tree ([fixed = false]) and, for the findings that remain, on the model of
   the current tree ([fixed = true]); and a non-trivial history for the non-vacuity example. *)
From stdpp Require Import gmap strings.
From Coq Require Import NArith.
From Synnax Require Import Generated.Consts_C15 Core.Channel Core.ChannelInv Core.ChannelCreate Core.ChannelCons
  Core.ChannelConsCreate.
Local Open Scope N_scope.

(* an empty cluster of two nodes *)
Definition w_s0 : st :=
  St ∅ (list_to_map [(1, ∅ : engine); (2, ∅ : engine)]) (list_to_map [(1, 0); (2, 0)]) 0 false.
(* request entry: name lease datatype is_index local_index virtual expression *)
Definition w_ch n l d i x v e : chan := Chan n l d i 0 x v false e.

Definition all_ok (fixed validate : bool) (s : st) (ops : list op) : bool :=
  (fix go s ops := match ops with
                   | [] => true
                   | o :: r => let '(s', (er, _)) := step fixed validate s o in is_ok er && go s' r
                   end) s ops.

(* F9: delete of a leased virtual channel *)
Definition w_f9 : list op :=
  [Create 1 [w_ch "v" 2 2 false 0 true 0] false false; Delete 1 [new_key 2 1]].
Lemma f9_unfixed :
  all_ok false true w_s0 w_f9 = true /\
  consistent_b (run false true w_s0 w_f9) = false /\ key_in_use_b (run false true w_s0 w_f9) (new_key 2 1) = true.
Proof. vm_compute. auto. Qed.
Lemma f9_fixed :
  all_ok true true w_s0 w_f9 = true /\
  consistent_b (run true true w_s0 w_f9) = true /\ key_in_use_b (run true true w_s0 w_f9) (new_key 2 1) = false.
Proof. vm_compute. auto. Qed.

(* F40: calculated channel through a non-bootstrapper node *)
Definition w_f40 : list op := [Create 2 [w_ch "c" 0 7 false 0 false 1] false false].
Lemma f40_unfixed : all_ok false true w_s0 w_f40 = true /\ names_ok_b (run false true w_s0 w_f40) = false.
Proof. vm_compute. auto. Qed.
Lemma f40_fixed : all_ok true true w_s0 w_f40 = true /\ names_ok_b (run true true w_s0 w_f40) = true.
Proof. vm_compute. auto. Qed.

(* F44: retrieve-if-exists with two holders of the name: the next create reuses a key in use *)
Definition w_f44 : list op :=
  [Create 1 [w_ch "x" node_free 2 false 0 true 0] false false;
   Create 1 [w_ch "x" node_free 2 false 0 true 0] false false;
   Create 1 [w_ch "x" node_free 2 false 0 true 0; w_ch "y" node_free 2 false 0 true 0] true false].
Definition w_f44_next : op := Create 1 [w_ch "z" node_free 2 false 0 true 0] false false.
Definition reuses (fixed : bool) : bool :=
  let s3 := run fixed false w_s0 w_f44 in
  match step fixed false s3 w_f44_next with
  | (_, (er, [c])) => is_ok er && key_in_use_b s3 (chan_key c)
  | _ => false
  end.
Lemma f44_unfixed : all_ok false false w_s0 w_f44 = true /\ reuses false = true.
Proof. vm_compute. auto. Qed.
Lemma f44_fixed : all_ok true false w_s0 w_f44 = true /\ reuses true = false.
Proof. vm_compute. auto. Qed.

(* findings that remain in the current tree *)
(* F41: the generated index name is not validated on the bootstrapper *)
Definition w_f41 : list op :=
  [Create 1 [w_ch "c_time" 1 2 false 0 true 0] false false; Create 1 [w_ch "c" 0 7 false 0 false 1] false false].
Lemma f41_current : all_ok true true w_s0 w_f41 = true /\ names_ok_b (run true true w_s0 w_f41) = false.
Proof. vm_compute. auto. Qed.
(* F42: overwrite of a channel leased to another node *)
Definition w_f42 : list op :=
  [Create 1 [w_ch "v" 1 2 false 0 true 0] false false; Create 1 [w_ch "v" 2 4 false 0 true 0] false true].
Lemma f42_current : all_ok true true w_s0 w_f42 = true /\ consistent_b (run true true w_s0 w_f42) = false.
Proof. vm_compute. auto. Qed.
(* F43: the same key twice in one rename *)
Definition w_f43 : list op :=
  [Create 1 [w_ch "v" 1 2 false 0 true 0] false false; Rename 1 [new_key 1 1; new_key 1 1] ["a"; "b"]].
Lemma f43_current : all_ok true true w_s0 w_f43 = true /\ consistent_b (run true true w_s0 w_f43) = false.
Proof. vm_compute. auto. Qed.
(* a FAILING request may leave the two stores apart (metadata removed first, engine refuses):
   the reason the metadata = engines clause is about successful operations *)
Definition w_fail : list op :=
  [Create 1 [w_ch "t" 1 1 true 0 false 0] false false; Create 1 [w_ch "d" 1 2 false 1 false 0] false false;
   Delete 1 [new_key 1 1]].
Lemma failed_delete_diverges :
  all_ok true true w_s0 w_fail = false /\ consistent_b (run true true w_s0 w_fail) = false.
Proof. vm_compute. auto. Qed.

(* a non-trivial history: three kinds of leaseholder, remote gateway, index + data, rename, delete *)
Definition w_ops : list op :=
  [Create 2 [w_ch "t" 1 1 true 0 false 0; w_ch "v" 2 2 false 0 true 0; w_ch "f" node_free 2 false 0 true 0;
             w_ch "c" 0 7 false 0 false 1] false false;
   Create 1 [w_ch "d" 1 2 false 1 false 0] false false;
   Rename 2 [new_key 1 2] ["e"];
   Delete 1 [new_key 2 1];
   Create 2 [w_ch "w" 0 3 false 0 true 0] true false].
Lemma w_ops_facts :
  all_ok true true w_s0 w_ops = true /\
  consistent_b (run true true w_s0 w_ops) = true /\ names_ok_b (run true true w_s0 w_ops) = true /\
  key_in_use_b (run true true w_s0 w_ops) (new_key 2 1) = false /\
  key_in_use_b (run true true w_s0 w_ops) (new_key 2 2) = true /\
  bool_decide (dom (s_tab (run true true w_s0 w_ops)) =
               {[new_key 1 1; new_key 1 2; new_key 2 2; new_key node_free 1; new_key node_free 2; new_key node_free 3]}) = true.
Proof. vm_compute. repeat split; reflexivity. Qed.

Lemma w_s0_nodes n e : s_eng w_s0 !! n = Some e -> (n = 1 \/ n = 2) /\ e = ∅.
Proof.
  unfold w_s0. cbn [s_eng list_to_map foldr fst snd]. intros H.
  apply lookup_insert_Some in H as [[<- <-]|[? H]]; [auto|].
  apply lookup_insert_Some in H as [[<- <-]|[? H]]; [auto|].
  rewrite lookup_empty in H. discriminate.
Qed.

Lemma w_s0_Inv : Inv w_s0.
Proof.
  constructor.
  - intros k c H. cbn [s_tab w_s0] in H. rewrite lookup_empty in H. discriminate.
  - intros n k [e H]. unfold eng_of in H. destruct (s_eng w_s0 !! n) as [en|] eqn:En.
    + apply w_s0_nodes in En as [_ ->]. simpl in H. rewrite lookup_empty in H. discriminate.
    + simpl in H. rewrite lookup_empty in H. discriminate.
  - intros n [e H]. apply w_s0_nodes in H as [[-> | ->] _]; vm_compute; auto.
  - intros l. unfold ctr_of. destruct (l =? node_free); [vm_compute; discriminate|].
    destruct (s_ctr w_s0 !! l) as [v|] eqn:Ev; [|vm_compute; discriminate].
    unfold w_s0 in Ev. cbn [s_ctr list_to_map foldr fst snd] in Ev.
    apply lookup_insert_Some in Ev as [[_ <-]|[? Ev]]; [vm_compute; discriminate|].
    apply lookup_insert_Some in Ev as [[_ <-]|[? Ev]]; [vm_compute; discriminate|].
    rewrite lookup_empty in Ev. discriminate.
  - vm_compute. eauto.
Qed.

Lemma w_s0_Cons : Cons w_s0.
Proof.
  constructor.
  - intros k c H. cbn [s_tab w_s0] in H. rewrite lookup_empty in H. discriminate.
  - intros n k e H. unfold eng_of in H. destruct (s_eng w_s0 !! n) as [en|] eqn:En.
    + apply w_s0_nodes in En as [_ ->]. simpl in H. rewrite lookup_empty in H. discriminate.
    + simpl in H. rewrite lookup_empty in H. discriminate.
Qed.

Lemma w_ops_plain : Forall plain_op w_ops /\ all_ok_run true w_s0 w_ops.
Proof.
  split.
  - repeat constructor; try (vm_compute; reflexivity); try (apply NoDup_singleton); try (intros H; inversion H).
  - vm_compute. tauto.
Qed.

(* a client re-submits an existing calculated channel WITH its key next to a new channel
   (retrieve-if-exists), then creates one more free channel: three different keys *)
Definition w_resubmit : list op :=
  [Create 1 [w_ch "c" 0 7 false 0 false 1] false false;
   Create 1 [Chan "c" node_free 7 false 1 2 true false 1; w_ch "y" node_free 2 false 0 true 0] true false;
   Create 1 [w_ch "z" node_free 2 false 0 true 0] false false].
Lemma w_resubmit_facts :
  all_ok true true w_s0 w_resubmit = true /\
  bool_decide (dom (s_tab (run true true w_s0 w_resubmit)) =
               {[new_key node_free 1; new_key node_free 2; new_key node_free 3; new_key node_free 4]}) = true /\
  s_free (run true true w_s0 w_resubmit) = 4.
Proof. vm_compute. repeat split; reflexivity. Qed.

(* F91: rename to the empty name with validation off (gateway path): upstream, the metadata row is
   renamed before the engine refuses; the current tree rejects the request before writing *)
Definition w_f91 : list op :=
  [Create 1 [w_ch "v" 1 2 false 0 true 0] false false; Rename 1 [new_key 1 1] [""]].
Lemma f91_unfixed : consistent_b (run false false w_s0 w_f91) = false.
Proof. vm_compute. reflexivity. Qed.
Lemma f91_fixed : consistent_b (run true false w_s0 w_f91) = true /\
  (step true false (run true false w_s0 [Create 1 [w_ch "v" 1 2 false 0 true 0] false false])
        (Rename 1 [new_key 1 1] [""])).2.1 = ENameRequired.
Proof. vm_compute. auto. Qed.
