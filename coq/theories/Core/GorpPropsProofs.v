(* Core/GorpPropsProofs.v — corollaries stated by Properties/C17.v: isolation, commit visibility,
   abort leaves nothing, no residue, populate equivalence, and the two refutation witnesses. *)
From Coq Require Import NArith ZArith List Lia.
From stdpp Require Import gmap.
From Synnax Require Import Core.Gorp Core.GorpSpec Core.GorpListProofs Core.GorpLookupProofs
     Core.GorpSortedProofs Core.GorpDeltaProofs Core.GorpFilterProofs Core.GorpSystemProofs
     Core.GorpRefineProofs Core.GorpOrderedProofs.
Import ListNotations.
Local Open Scope Z_scope.

(* ---- reachable states ---- *)
Lemma reach_coh m1 seed ops :
  Forall op_in_scope ops ->
  coh (run (init m1 true seed) ops) /\
  abs (run (init m1 true seed) ops) = sp_run (sp_init seed) ops.
Proof.
  intros Ho. destruct (run_refines ops (init m1 true seed) (coh_init m1 seed) Ho) as [H1 H2].
  split; [done|]. rewrite H2. f_equal. unfold abs, init, sp_init. simpl. by rewrite fmap_empty.
Qed.

(* indexed execution = scan execution, every reachable state, every reader, every filter tree *)
Theorem index_eq_scan m1 seed ops t f :
  Forall op_in_scope ops ->
  let s := run (init m1 true seed) ops in
  (forall r, r ∈ q_rows (run_query s t (build f)) <-> r ∈ q_rows (run_query s t (mk_pred (holds f)))) /\
  (nodup_keys f = true ->
   q_rows (run_query s t (build f)) ≡ₚ q_rows (run_query s t (mk_pred (holds f))) /\
   q_cnt (run_query s t (build f)) = q_cnt (run_query s t (mk_pred (holds f)))) /\
  (has_idx f = true ->
   q_err (run_query s t (build f)) = 0%N /\
   q_ex (run_query s t (build f)) = negb (Nat.eqb (length (q_rows (run_query s t (build f)))) 0)).
Proof.
  intros Ho s. destruct (reach_coh m1 seed ops Ho) as [Hc _]. fold s in Hc.
  rewrite (scan_query s t). simpl. split; [intros r; by apply query_rows|]. split.
  - intros Hn. split; [by apply query_perm|].
    destruct (query_shape s t f) as [-> _]. by rewrite (query_perm s t Hc f Hn).
  - intros Hi. by apply query_shape.
Qed.

(* every answer is the specification's answer over the reader's own view *)
Theorem answers_spec m1 seed ops t f :
  Forall op_in_scope ops ->
  let s := run (init m1 true seed) ops in
  let sp := sp_run (sp_init seed) ops in
  (forall r, r ∈ q_rows (run_query s t (build f)) <-> r ∈ sp_select sp t (holds f)) /\
  (nodup_keys f = true -> q_rows (run_query s t (build f)) ≡ₚ sp_select sp t (holds f)).
Proof.
  intros Ho s sp. destruct (reach_coh m1 seed ops Ho) as [Hc Ha]. fold s in Hc, Ha. unfold sp. rewrite <- Ha.
  split; [intros r; by apply query_rows|]. intros Hn. by apply query_perm.
Qed.

(* ---- isolation and commit visibility, on the specification the model refines ---- *)
Lemma sp_view_lookup sp t k :
  sp_view sp t !! k =
  match t with
  | O => sp_rows sp !! k
  | _ => match default ∅ (sp_txs sp !! t) !! k with Some w => w | None => sp_rows sp !! k end
  end.
Proof. unfold sp_view. destruct t; [done|]. apply ov_apply_lookup. Qed.

(* a reader's answers are a function of the committed table and its own write set only *)
Theorem isolation_frame sp sp' t p :
  sp_rows sp = sp_rows sp' -> sp_txs sp !! t = sp_txs sp' !! t ->
  sp_select sp t p = sp_select sp' t p.
Proof. intros Hr Ht. unfold sp_select, sp_view. rewrite Hr, Ht. done. Qed.

(* own uncommitted write visible to the writer; invisible to every other reader *)
Theorem own_write_visible sp t k w :
  sp_view (sp_write (S t) k w sp) (S t) !! k = w.
Proof.
  rewrite sp_view_lookup. simpl. rewrite lookup_insert. simpl. by rewrite lookup_insert.
Qed.
Theorem others_write_invisible sp t u k w :
  u ≠ S t -> sp_view (sp_write (S t) k w sp) u = sp_view sp u.
Proof.
  intros Hne. unfold sp_view. destruct u as [|u]; [done|]. simpl. by rewrite lookup_insert_ne.
Qed.
(* after commit every other reader sees the writes, unless it has overwritten the key itself *)
Theorem commit_visible sp t u k :
  u ≠ S t ->
  sp_view (sp_commit (S t) sp) u !! k =
  match (match u with O => None | _ => default ∅ (sp_txs sp !! u) !! k end) with
  | Some own => own
  | None => match default ∅ (sp_txs sp !! S t) !! k with
            | Some w => w
            | None => sp_rows sp !! k
            end
  end.
Proof.
  intros Hne. rewrite sp_view_lookup. unfold sp_commit. simpl. destruct u as [|u].
  - apply ov_apply_lookup.
  - rewrite lookup_delete_ne by done. destruct (default ∅ (sp_txs sp !! S u) !! k); [done|].
    apply ov_apply_lookup.
Qed.
(* after abort the transaction's writes are seen by nobody *)
Theorem abort_invisible sp t u :
  sp_rows (sp_step sp (Abort (S t))) = sp_rows sp /\
  (u ≠ S t -> sp_view (sp_step sp (Abort (S t))) u = sp_view sp u) /\
  sp_view (sp_step sp (Abort (S t))) (S t) = sp_rows sp.
Proof.
  simpl. split; [done|]. split.
  - intros Hne. unfold sp_view. destruct u as [|u]; [done|]. simpl. by rewrite lookup_delete_ne.
  - unfold sp_view. simpl. rewrite lookup_delete. simpl. apply ov_apply_empty.
Qed.

(* ---- abort: nothing of the transaction is left in the index machinery ---- *)
Definition by_tx (t : nat) (o : op) : Prop :=
  match o with
  | Create u _ | UpdateK u _ _ _ _ | UpdateF u _ _ _ _ | DeleteK u _ | DeleteF u _
  | Query u _ | OQuery u _ _ _ _ | Get u _ _ => u = t
  | _ => False
  end.
Definition committed_part (s : st) := (rows s, li s, si s, mode1 s, dedup s).
Definition others (t : nat) (s : st) := (delete t (lov s), delete t (sov s), delete t (txs s)).

Lemma w_set_local t r s :
  committed_part (w_set (S t) r s) = committed_part s /\ others (S t) (w_set (S t) r s) = others (S t) s.
Proof.
  unfold committed_part, others. simpl. unfold ov_stage. split; [done|]. by rewrite !delete_insert_delete.
Qed.
Lemma w_del_local t k s :
  committed_part (w_del (S t) k s) = committed_part s /\ others (S t) (w_del (S t) k s) = others (S t) s.
Proof.
  unfold committed_part, others. simpl. unfold ov_unstage. split; [done|]. by rewrite !delete_insert_delete.
Qed.
Lemma fold_w_set_local {A} (g : A -> row) t l : forall s,
  committed_part (fold_left (fun acc x => w_set (S t) (g x) acc) l s) = committed_part s /\
  others (S t) (fold_left (fun acc x => w_set (S t) (g x) acc) l s) = others (S t) s.
Proof.
  induction l as [|x l IH]; intros s; cbn [fold_left]; [done|].
  destruct (IH (w_set (S t) (g x) s)) as [E1 E2]. rewrite E1, E2. apply w_set_local.
Qed.
Lemma fold_w_del_local {A} (g : A -> N) t l : forall s,
  committed_part (fold_left (fun acc x => w_del (S t) (g x) acc) l s) = committed_part s /\
  others (S t) (fold_left (fun acc x => w_del (S t) (g x) acc) l s) = others (S t) s.
Proof.
  induction l as [|x l IH]; intros s; cbn [fold_left]; [done|].
  destruct (IH (w_del (S t) (g x) s)) as [E1 E2]. rewrite E1, E2. apply w_del_local.
Qed.

Lemma tx_step_local t o s :
  by_tx (S t) o ->
  committed_part (step s o).1 = committed_part s /\ others (S t) (step s o).1 = others (S t) s.
Proof.
  destruct o; simpl; try done; intros ->.
  - destruct (is_open s (S t)); [|done]. apply (fold_w_set_local (fun r => r)).
  - destruct (is_open s (S t)); [|done]. destruct (N.eqb _ _); [|done]. apply fold_w_set_local.
  - destruct (is_open s (S t)); [|done]. destruct (N.eqb _ _); [|done]. apply fold_w_set_local.
  - destruct (is_open s (S t)); [|done]. apply fold_w_del_local.
  - destruct (is_open s (S t)); [|done]. apply fold_w_del_local.
  - by destruct (is_open s (S t)).
  - by destruct (is_open s (S t)).
  - by destruct (is_open s (S t)).
Qed.
Lemma tx_run_local t ops : forall s,
  Forall (by_tx (S t)) ops ->
  committed_part (run s ops) = committed_part s /\ others (S t) (run s ops) = others (S t) s.
Proof.
  induction ops as [|o ops IH]; intros s Ho; cbn [run]; [done|].
  apply Forall_cons in Ho as [Ho Hos]. destruct (IH (step s o).1 Hos) as [E1 E2]. rewrite E1, E2.
  by apply tx_step_local.
Qed.

(* whatever a transaction did, after its abort the committed table and both committed indexes
   are what they were, every other transaction's batch and deltas are untouched, and nothing
   of the aborted transaction remains *)
Theorem abort_leaves_nothing t ops s :
  Forall (by_tx (S t)) ops ->
  let s' := abort (S t) (run s ops) in
  committed_part s' = committed_part s /\
  (lov s', sov s', txs s') = others (S t) s /\
  lov s' !! S t = None /\ sov s' !! S t = None /\ txs s' !! S t = None.
Proof.
  intros Ho. destruct (tx_run_local t ops s Ho) as [H1 H2]. cbv zeta.
  unfold abort, cleanups. simpl.
  assert (E1 : match lov (run s ops) !! S t with Some _ => li (run s ops) | None => li (run s ops) end = li (run s ops))
    by (by destruct (lov (run s ops) !! S t)).
  assert (E2 : match sov (run s ops) !! S t with Some _ => si (run s ops) | None => si (run s ops) end = si (run s ops))
    by (by destruct (sov (run s ops) !! S t)).
  rewrite E1, E2. unfold committed_part, others in *. simpl.
  injection H1 as -> -> -> -> ->. split; [done|]. split; [done|]. by rewrite !lookup_delete.
Qed.

(* ---- no residue ---- *)
Theorem no_residue s :
  coh s ->
  (forall k v, k ∈ l_get1 v (li s) <-> exists r, rows s !! k = Some r /\ ra r = v) /\
  (forall v, l_fwd (li s) !! v ≠ Some []) /\
  (forall k, l_rev (li s) !! k = ra <$> rows s !! k) /\
  (forall k v, (v, k) ∈ s_ents (si s) <-> exists r, rows s !! k = Some r /\ rb r = v) /\
  (forall k, s_rev (si s) !! k = rb <$> rows s !! k) /\
  (forall t, is_Some (lov s !! t) \/ is_Some (sov s !! t) -> is_Some (txs s !! t)).
Proof.
  intros Hc. pose proof (coh_lwf _ Hc) as Hl. pose proof (coh_swf _ Hc) as Hs.
  assert (R1 : forall k, l_rev (li s) !! k = ra <$> rows s !! k) by (intros k; by rewrite (coh_lrev _ Hc), lookup_fmap).
  assert (R2 : forall k, s_rev (si s) !! k = rb <$> rows s !! k) by (intros k; by rewrite (coh_srev _ Hc), lookup_fmap).
  split; [|split; [apply (lwf_nonempty _ Hl)|split; [done|split; [|split; [done|]]]]].
  - intros k v. rewrite l_get1_spec, R1 by done. destruct (rows s !! k) as [r|]; simpl; naive_solver.
  - intros k v. rewrite (swf_iff _ Hs), R2. destruct (rows s !! k) as [r|]; simpl; naive_solver.
  - intros t [[d Hd]|[d Hd]].
    + pose proof (coh_lov _ Hc t) as H. rewrite Hd in H. destruct H as (_ & b & Hb & _). by eexists.
    + pose proof (coh_sov _ Hc t) as H. rewrite Hd in H. destruct H as (_ & b & Hb & _). by eexists.
Qed.

(* ---- populate equivalence ---- *)
(* an index bulk-loaded from the table answers every Get as the index maintained through the
   history that produced the table *)
Theorem populate_eq s :
  coh s ->
  (forall v k, k ∈ l_get1 v (l_populate (rows s)) <-> k ∈ l_get1 v (li s)) /\
  (forall v k, k ∈ s_get1 v (s_populate (rows s)) <-> k ∈ s_get1 v (si s)) /\
  (forall desc cursor, map snd (walk_full desc cursor (s_ents (s_populate (rows s)))) ≡ₚ
                       map snd (walk_full desc cursor (s_ents (si s)))).
Proof.
  intros Hc. destruct (l_populate_spec (rows s) (coh_key _ Hc)) as [L1 L2].
  destruct (s_populate_spec (rows s) (coh_key _ Hc)) as [S1 S2].
  split; [|split].
  - intros v k. rewrite !l_get1_spec by (done || apply (coh_lwf _ Hc)). by rewrite L2, (coh_lrev _ Hc).
  - intros v k. rewrite !s_get1_spec by (done || apply (coh_swf _ Hc)). by rewrite S2, (coh_srev _ Hc).
  - intros desc cursor. apply NoDup_Permutation.
    + apply walk_full_nodup, (swf_nodup _ S1).
    + apply walk_full_nodup, (swf_nodup _ (coh_swf _ Hc)).
    + intros k. rewrite !elem_of_list_fmap. split.
      * intros ([v k'] & -> & Hp). apply walk_full_elem in Hp as [Hp Hcur]; [|apply (swf_sorted _ S1)].
        exists (v, k'). split; [done|]. apply walk_full_elem; [apply (swf_sorted _ (coh_swf _ Hc))|]. split; [|done].
        apply (swf_iff _ (coh_swf _ Hc)). apply (swf_iff _ S1) in Hp. by rewrite (coh_srev _ Hc), <- S2.
      * intros ([v k'] & -> & Hp). apply walk_full_elem in Hp as [Hp Hcur]; [|apply (swf_sorted _ (coh_swf _ Hc))].
        exists (v, k'). split; [done|]. apply walk_full_elem; [apply (swf_sorted _ S1)|]. split; [|done].
        apply (swf_iff _ S1). apply (swf_iff _ (coh_swf _ Hc)) in Hp. by rewrite S2, <- (coh_srev _ Hc).
Qed.

(* ---- refutation witnesses ---- *)
(* F21: the pinned upstream Get (dedup = false) answers a value listed twice twice *)
Definition f21_seed : list row := [Row 6 3 0 2; Row 4000000000 2 4 2; Row 2 0 3 0].
Definition f21_filter : ftree := FIdx IB [4; 4].
Lemma dup_values_refuted :
  let s := init false false f21_seed in
  q_cnt (run_query s O (build f21_filter)) = 2%nat /\
  q_cnt (run_query s O (mk_pred (holds f21_filter))) = 1%nat.
Proof. vm_compute. done. Qed.

(* F22: U commits entirely between T's kv commit and T's index flush *)
Definition f22_seed : list row := [Row 1 1 1 0].
Definition f22_ops : list op :=
  [Begin 1; Begin 2; UpdateK 1 1 (Some 2) (Some 2) None; UpdateK 2 1 (Some 3) (Some 3) None; Commit2 1 2].
Lemma crossed_commit_refuted :
  let s := run (init false true f22_seed) f22_ops in
  q_rows (run_query s O (build (FIdx IA [3]))) = [] /\
  q_rows (run_query s O (mk_pred (holds (FIdx IA [3])))) = [Row 1 3 3 0] /\
  l_rev (li s) !! 1%N = Some 2 /\ (ra <$> rows s !! 1%N) = Some 3.
Proof. vm_compute. done. Qed.

(* ---- the observable itself: rows sorted by key ---- *)
Definition kleb (a b : row) : bool := N.leb (rk a) (rk b).
Lemma kleb_total a b : kleb a b = false -> kleb b a = true.
Proof. unfold kleb. rewrite N.leb_gt, N.leb_le. lia. Qed.
Lemma kleb_trans a b c : kleb a b = true -> kleb b c = true -> kleb a c = true.
Proof. unfold kleb. rewrite !N.leb_le. lia. Qed.

Lemma lsorted_lfilter {A} (leb : A -> A -> bool) (p : A -> bool) l :
  lsorted leb l -> lsorted leb (List.filter p l).
Proof.
  induction l as [|x t IH]; simpl; [done|]. intros [Hx Ht]. destruct (p x); simpl; [|by apply IH].
  split; [|by apply IH]. intros b Hb. apply Hx. by apply elem_of_lfilter in Hb as [? _].
Qed.

(* two key-sorted lists without repeated keys that are permutations of each other are equal *)
Lemma sorted_perm_eq (l1 l2 : list row) :
  lsorted kleb l1 -> lsorted kleb l2 -> NoDup (map rk l1) -> l1 ≡ₚ l2 -> l1 = l2.
Proof.
  revert l2. induction l1 as [|a t1 IH]; intros l2 S1 S2 Hnd Hp.
  - by apply Permutation_nil_l in Hp.
  - destruct l2 as [|b t2]; [by apply Permutation_nil_r in Hp|].
    destruct S1 as [Ha S1]. destruct S2 as [Hb S2].
    assert (Hab : a = b).
    { assert (Hbin : b ∈ a :: t1) by (rewrite Hp; by left).
      assert (Hain : a ∈ b :: t2) by (rewrite <- Hp; by left).
      apply elem_of_cons in Hbin as [->|Hbin]; [done|].
      apply elem_of_cons in Hain as [->|Hain]; [done|].
      specialize (Ha b Hbin). specialize (Hb a Hain). unfold kleb in Ha, Hb.
      apply N.leb_le in Ha, Hb. assert (Hk : rk a = rk b) by lia.
      simpl in Hnd. apply NoDup_cons in Hnd as [Hn _]. exfalso. apply Hn.
      rewrite Hk. apply elem_of_list_fmap. by exists b. }
    subst b. f_equal. apply IH; [done|done| |by apply Permutation_cons_inv in Hp].
    simpl in Hnd. by apply NoDup_cons in Hnd as [_ ?].
Qed.

Lemma sorted_rows_lsorted (v : table) : lsorted kleb (sorted_rows v).
Proof. apply (isort_sorted kleb kleb_total kleb_trans). Qed.

(* the canonical form the correspondence compares: the indexed answer sorted by key IS the
   scan's answer (which is produced in key order) *)
Theorem index_eq_scan_sorted m1 seed ops t f :
  Forall op_in_scope ops -> nodup_keys f = true ->
  let s := run (init m1 true seed) ops in
  sort_rows (q_rows (run_query s t (build f))) = q_rows (run_query s t (mk_pred (holds f))).
Proof.
  intros Ho Hn s. destruct (reach_coh m1 seed ops Ho) as [Hc _]. fold s in Hc.
  rewrite (scan_query s t). simpl.
  pose proof (query_perm s t Hc f Hn) as Hp.
  apply sorted_perm_eq.
  - apply (isort_sorted kleb kleb_total kleb_trans).
  - rewrite select_view. apply lsorted_lfilter, sorted_rows_lsorted.
  - assert (P : map rk (sort_rows (q_rows (run_query s t (build f)))) ≡ₚ map rk (sp_select (abs s) t (holds f))).
    { apply Permutation_map. unfold sort_rows. by rewrite isort_perm. }
    rewrite P, select_view.
    assert (Hnd := sorted_rows_keys_nodup (view s t) (view_key_ok s t Hc)).
    revert Hnd. generalize (sorted_rows (view s t)). intros l. induction l as [|x l IH]; simpl; intros Hnd; [constructor|].
    apply NoDup_cons in Hnd as [Hx Hnd]. destruct (holds f x); simpl; [|by apply IH].
    apply NoDup_cons. split; [|by apply IH]. intros Hin. apply Hx.
    apply elem_of_list_fmap in Hin as (y & -> & Hy). apply elem_of_lfilter in Hy as [Hy _].
    apply elem_of_list_fmap. by exists y.
  - unfold sort_rows. by rewrite isort_perm.
Qed.
