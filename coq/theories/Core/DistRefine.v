(* Core/DistRefine.v — committing, and the refinement of the single store by the routed cluster. *)
From stdpp Require Import gmap.
From Coq Require Import NArith Lia.
From Synnax Require Import Generated.Consts_C15 Core.Channel Core.Dist Core.DistProofs.
Local Open Scope N_scope.
Notation length := List.length.

(* ---- committing *)
Definition key_is (k : N) (e : N * series) : bool := e.1 =? k.
Definition samples_of (k : N) (f : frame) : series := flat_map snd (sel (key_is k) f).

Lemma samples_of_app k f g : samples_of k (f ++ g) = samples_of k f ++ samples_of k g.
Proof. unfold samples_of. rewrite sel_app, flat_map_app. reflexivity. Qed.

Lemma commit_node_spec : forall (buf : frame) (st : gmap N series) k,
  default [] (commit_node st buf !! k) = default [] (st !! k) ++ samples_of k buf.
Proof.
  unfold commit_node. induction buf as [|e buf IH]; intros st k; cbn [foldl].
  - unfold samples_of. rewrite sel_nil. simpl. rewrite app_nil_r. reflexivity.
  - rewrite IH. unfold samples_of at 2. rewrite sel_cons. unfold key_is at 1.
    destruct (e.1 =? k) eqn:Ek.
    + apply N.eqb_eq in Ek. subst k. rewrite lookup_insert. simpl. fold (samples_of e.1 buf).
      rewrite <- app_assoc. reflexivity.
    + apply N.eqb_neq in Ek. rewrite lookup_insert_ne by congruence. reflexivity.
Qed.
Lemma commit_node_dom : forall (buf : frame) (st : gmap N series) k,
  is_Some (commit_node st buf !! k) -> is_Some (st !! k) \/ exists e, e ∈ buf /\ e.1 = k.
Proof.
  unfold commit_node. induction buf as [|e buf IH]; intros st k; cbn [foldl]; [auto|].
  intros H. destruct (IH _ _ H) as [H1|(x & Hx & Hk)].
  - destruct (decide (e.1 = k)) as [<-|Hne]; [right; exists e; split; [left|reflexivity]|].
    rewrite lookup_insert_ne in H1 by congruence. auto.
  - right. exists x. split; [right; exact Hx|exact Hk].
Qed.

Lemma commit_all_lookup store buf n :
  default ∅ (commit_all store buf !! n) =
  match buf !! n with
  | Some b => commit_node (default ∅ (store !! n)) b
  | None => default ∅ (store !! n)
  end.
Proof.
  unfold commit_all. rewrite lookup_merge. destruct (store !! n), (buf !! n); reflexivity.
Qed.

Lemma samples_of_sel_node k n f :
  lease_of k = n -> samples_of k (sel (at_node n) f) = samples_of k f.
Proof.
  intros Hl. unfold samples_of. rewrite sel_sel. f_equal. apply sel_ext. intros e He.
  unfold key_is, at_node. destruct (e.1 =? k) eqn:Ek; [|reflexivity].
  apply N.eqb_eq in Ek. rewrite Ek, Hl, N.eqb_refl. reflexivity.
Qed.
Lemma keep_leased_sel f : keep_leased f = sel (fun e => negb (is_free_key e.1)) f.
Proof.
  unfold keep_leased, sel. induction f as [|e f IH]; [reflexivity|].
  rewrite !filter_cons, IH.
  destruct (decide (Is_true (negb (is_free_key e.1)))) as [H|H],
           (decide (negb (is_free_key e.1) = true)) as [H'|H']; try reflexivity.
  - exfalso. apply H'. apply Is_true_eq_true. exact H.
  - exfalso. apply H. rewrite H'. exact I.
Qed.
Lemma samples_of_keep_leased k f : is_free_key k = false -> samples_of k (keep_leased f) = samples_of k f.
Proof.
  intros Hf. unfold samples_of. rewrite keep_leased_sel, sel_sel. f_equal. apply sel_ext. intros e He.
  unfold key_is. destruct (e.1 =? k) eqn:Ek; [|reflexivity]. apply N.eqb_eq in Ek. rewrite Ek, Hf. reflexivity.
Qed.

(* ---- the refinement relation between the routed cluster and the single store *)
Definition buf_of (w : writer) (n : N) : frame := default [] (w_buf w !! n).

Record wrel (w : writer) (sw : swriter) : Prop := {
  wr_keys : w_keys w = sw_keys sw;
  wr_auto : w_auto w = sw_auto sw;
  (* what leaseholder n has buffered for key k (leased to n) = what the single writer buffered *)
  wr_buf : forall k, is_free_key k = false ->
           samples_of k (buf_of w (lease_of k)) = samples_of k (sw_buf sw);
  (* a leaseholder only buffers its own channels *)
  wr_own : forall n e, e ∈ buf_of w n -> lease_of e.1 = n
}.

Record crel (c : cluster) (s : single) : Prop := {
  cr_chans : cl_chans c = sg_chans s;
  cr_read : forall k, is_free_key k = false -> cluster_read c k = single_read s k;
  cr_own : forall n k, is_Some (default ∅ (cl_store c !! n) !! k) -> lease_of k = n;
  cr_writers : forall id, match cl_writers c !! id, sg_writers s !! id with
                          | Some w, Some sw => wrel w sw
                          | None, None => True
                          | _, _ => False
                          end
}.

Lemma crel_init chans : crel (Cluster chans ∅ ∅) (Single chans ∅ ∅).
Proof.
  constructor.
  - reflexivity.
  - intros k _. reflexivity.
  - intros n k [x H]. cbn [cl_store] in H. rewrite lookup_empty in H. cbn [default] in H.
    rewrite lookup_empty in H. discriminate.
  - intros id. cbn [cl_writers sg_writers]. rewrite !lookup_empty. exact I.
Qed.

Lemma buf_append_lookup buf parts n :
  default [] (buf_append buf parts !! n) = default [] (buf !! n) ++ default [] (parts !! n).
Proof.
  unfold buf_append. rewrite lookup_union_with.
  destruct (buf !! n), (parts !! n); simpl; rewrite ?app_nil_r; reflexivity.
Qed.

(* committing related buffers keeps the stores related *)
Lemma commit_related c s (buf : gmap N frame) (sbuf : frame) :
  (forall k, is_free_key k = false -> cluster_read c k = single_read s k) ->
  (forall n k, is_Some (default ∅ (cl_store c !! n) !! k) -> lease_of k = n) ->
  (forall k, is_free_key k = false -> samples_of k (default [] (buf !! lease_of k)) = samples_of k sbuf) ->
  (forall n e, e ∈ default [] (buf !! n) -> lease_of e.1 = n) ->
  (forall k, is_free_key k = false ->
     default [] (default ∅ (commit_all (cl_store c) buf !! lease_of k) !! k) =
     default [] (commit_node (sg_store s) sbuf !! k)) /\
  (forall n k, is_Some (default ∅ (commit_all (cl_store c) buf !! n) !! k) -> lease_of k = n).
Proof.
  intros Hread Hown Hbuf Hbown. split.
  - intros k Hk. rewrite commit_all_lookup, commit_node_spec.
    specialize (Hread k Hk). unfold cluster_read, single_read in Hread.
    specialize (Hbuf k Hk). destruct (buf !! lease_of k) as [b|] eqn:Eb; simpl in Hbuf.
    + rewrite commit_node_spec, Hread, Hbuf. reflexivity.
    + rewrite Hread, <- Hbuf. unfold samples_of. rewrite sel_nil. simpl. rewrite app_nil_r. reflexivity.
  - intros n k H. rewrite commit_all_lookup in H. destruct (buf !! n) as [b|] eqn:Eb; [|apply Hown, H].
    destruct (commit_node_dom _ _ _ H) as [H1|(e & He & <-)]; [apply Hown, H1|].
    apply Hbown. rewrite Eb. exact He.
Qed.

Lemma memb_forall_eq (l1 l2 : list N) (keys : list N) : l1 = l2 ->
  forallb (fun k => memb k l1) keys = forallb (fun k => memb k l2) keys.
Proof. intros ->. reflexivity. Qed.

Definition writers_rel (W : gmap N writer) (SW : gmap N swriter) : Prop :=
  forall id, match W !! id, SW !! id with
             | Some w, Some sw => wrel w sw
             | None, None => True
             | _, _ => False
             end.

Lemma crel_build chans schans store sstore W SW :
  chans = schans ->
  (forall k, is_free_key k = false ->
     default [] (default ∅ (store !! lease_of k) !! k) = default [] (sstore !! k)) ->
  (forall n k, is_Some (default ∅ (store !! n) !! k) -> lease_of k = n) ->
  writers_rel W SW ->
  crel (Cluster chans store W) (Single schans sstore SW).
Proof. intros H1 H2 H3 H4. constructor; assumption. Qed.

Lemma writers_rel_insert W SW id w sw :
  writers_rel W SW -> wrel w sw -> writers_rel (<[id := w]> W) (<[id := sw]> SW).
Proof.
  intros H Hw id'. destruct (decide (id' = id)) as [->|Hne].
  - rewrite !lookup_insert. exact Hw.
  - rewrite !lookup_insert_ne by congruence. apply H.
Qed.
Lemma writers_rel_delete W SW id : writers_rel W SW -> writers_rel (delete id W) (delete id SW).
Proof.
  intros H id'. destruct (decide (id' = id)) as [->|Hne].
  - rewrite !lookup_delete. exact I.
  - rewrite !lookup_delete_ne by congruence. apply H.
Qed.
Lemma wrel_empty gw keys auto : wrel (Writer gw keys ∅ auto) (SWriter keys [] auto).
Proof.
  constructor; try reflexivity.
  intros n e He. unfold buf_of in He. cbn [w_buf] in He. rewrite lookup_empty in He. inversion He.
Qed.

Lemma dstep0_refines c s o :
  crel c s -> (dstep0 c o).2 = (sstep0 s o).2 /\ crel (dstep0 c o).1 (sstep0 s o).1.
Proof.
  intros R. pose proof R as [Hch Hread Hown Hwr]. fold (writers_rel (cl_writers c) (sg_writers s)) in Hwr.
  destruct o as [id gw keys auto|id f|id f keep ks|id|id|id gw p keys auto]; cbn [dstep0 sstep0];
    [| |split; [reflexivity|exact R]| | |].
  5: { destruct keys as [|k0 keys']; [split; [reflexivity|exact R]|].
       rewrite Hch. destruct (forallb _ (k0 :: keys')); split; try reflexivity; exact R. }
  - (* open *)
    destruct keys as [|k0 keys']; [split; [reflexivity|exact R]|].
    rewrite Hch. destruct (forallb _ (k0 :: keys')); cbn [fst snd]; [|split; [reflexivity|exact R]].
    split; [reflexivity|]. apply crel_build; try assumption; try reflexivity.
    apply writers_rel_insert; [exact Hwr|apply wrel_empty].
  - (* write *)
    pose proof (Hwr id) as Hw.
    destruct (cl_writers c !! id) as [w|] eqn:Ew, (sg_writers s !! id) as [sw|] eqn:Es; try contradiction;
      [|split; [reflexivity|exact R]].
    destruct Hw as [Hk Ha Hb Ho]. rewrite <- Hk.
    destruct (forallb (fun e => memb e.1 (w_keys w)) f) eqn:Hval.
    + set (buf := buf_append (w_buf w) (route (w_gw w) (w_keys w) f)).
      assert (Hbuf : forall k, is_free_key k = false ->
                samples_of k (default [] (buf !! lease_of k)) = samples_of k (sw_buf sw ++ keep_leased f)).
      { intros k Hkf. unfold buf. rewrite buf_append_lookup, !samples_of_app.
        fold (buf_of w (lease_of k)). rewrite (Hb k Hkf). f_equal.
        rewrite route_spec; [|exact Hval|].
        - rewrite samples_of_sel_node by reflexivity. rewrite samples_of_keep_leased by exact Hkf. reflexivity.
        - unfold is_free_key in Hkf. apply N.eqb_neq in Hkf. exact Hkf. }
      assert (Hbown : forall n e, e ∈ default [] (buf !! n) -> lease_of e.1 = n).
      { intros n e He. unfold buf in He. rewrite buf_append_lookup in He.
        apply elem_of_app in He as [He|He]; [apply (Ho n e He)|eapply route_only; exact He]. }
      rewrite <- Ha. destruct (w_auto w) eqn:Eauto; cbn [fst snd].
      * split; [reflexivity|].
        destruct (commit_related c s buf (sw_buf sw ++ keep_leased f) Hread Hown Hbuf Hbown) as [C1 C2].
        apply crel_build; try assumption; try reflexivity.
        apply writers_rel_insert; [exact Hwr|]. rewrite Hk. apply wrel_empty.
      * split; [reflexivity|]. apply crel_build; try assumption; try reflexivity.
        apply writers_rel_insert; [exact Hwr|].
        constructor; cbn [w_keys sw_keys w_auto sw_auto]; try assumption; try reflexivity.
    + cbn [fst snd]. split; [reflexivity|]. apply crel_build; try assumption; try reflexivity.
      apply writers_rel_delete, Hwr.
  - (* commit *)
    pose proof (Hwr id) as Hw.
    destruct (cl_writers c !! id) as [w|] eqn:Ew, (sg_writers s !! id) as [sw|] eqn:Es; try contradiction;
      [|split; [reflexivity|exact R]].
    destruct Hw as [Hk Ha Hb Ho]. cbn [fst snd]. split; [reflexivity|].
    destruct (commit_related c s (w_buf w) (sw_buf sw) Hread Hown Hb Ho) as [C1 C2].
    apply crel_build; try assumption; try reflexivity.
    apply writers_rel_insert; [exact Hwr|]. rewrite Hk, Ha. apply wrel_empty.
  - (* close *)
    pose proof (Hwr id) as Hw.
    destruct (cl_writers c !! id) as [w|] eqn:Ew, (sg_writers s !! id) as [sw|] eqn:Es; try contradiction;
      [|split; [reflexivity|exact R]].
    cbn [fst snd]. split; [reflexivity|]. apply crel_build; try assumption; try reflexivity.
    apply writers_rel_delete, Hwr.
Qed.

Theorem dstep_refines c s o :
  crel c s -> (dstep c o).2 = (sstep s o).2 /\ crel (dstep c o).1 (sstep s o).1.
Proof. intros R. unfold dstep, sstep. apply dstep0_refines, R. Qed.

Fixpoint dresults (c : cluster) (ops : list dop) : list dres :=
  match ops with [] => [] | o :: r => (dstep c o).2 :: dresults (dstep c o).1 r end.
Fixpoint sresults (s : single) (ops : list dop) : list dres :=
  match ops with [] => [] | o :: r => (sstep s o).2 :: sresults (sstep s o).1 r end.

Lemma drun_refines : forall ops c s, crel c s ->
  crel (drun c ops) (srun s ops) /\ dresults c ops = sresults s ops.
Proof.
  induction ops as [|o ops IH]; intros c s R; cbn [drun srun dresults sresults]; [auto|].
  destruct (dstep_refines c s o R) as [E R']. destruct (IH _ _ R') as [R'' E'].
  split; [exact R''|]. rewrite E, E'. reflexivity.
Qed.

(* location transparency: any placement (the leaseholder is part of each key), any gateway per
   writer (an argument of OpenW), any script *)
Theorem location_transparent chans ops :
  let c := drun (Cluster chans ∅ ∅) ops in
  let s := srun (Single chans ∅ ∅) ops in
  (forall k, is_free_key k = false -> cluster_read c k = single_read s k) /\
  (forall n k, n <> lease_of k -> stray c n k = []) /\
  dresults (Cluster chans ∅ ∅) ops = sresults (Single chans ∅ ∅) ops.
Proof.
  intros c s. destruct (drun_refines ops _ _ (crel_init chans)) as [R E]. fold c s in R.
  split; [apply (cr_read _ _ R)|]. split; [|exact E].
  intros n k Hne. unfold stray. destruct (default ∅ (cl_store c !! n) !! k) as [x|] eqn:Ex; [|reflexivity].
  exfalso. apply Hne. symmetry. apply (cr_own _ _ R n k). rewrite Ex. eauto.
Qed.

(* ---- transport faults: an open that fails because a leaseholder cannot be reached leaves nothing
   behind, so the rest of the script runs exactly as if the open had not been attempted *)
Definition is_cut (o : dop) : bool :=
  match o with OpenCut _ gw p keys _ => cut_hits gw p keys | _ => false end.
Lemma cut_open_no_effect c o : is_cut o = true -> (dstep c o).1 = c.
Proof.
  destruct o as [| | | | |id gw p keys auto]; cbn [is_cut]; try discriminate. intros H.
  unfold dstep. cbn [eff_op]. rewrite H. cbn [dstep0].
  destruct keys as [|k0 keys']; [reflexivity|]. destruct (forallb _ (k0 :: keys')); reflexivity.
Qed.
Lemma cut_open_result c id gw p keys auto :
  cut_hits gw p keys = true -> keys <> [] -> Forall (fun k => k ∈ cl_chans c) keys ->
  dstep c (OpenCut id gw p keys auto) = (c, DUnreachable).
Proof.
  intros H Hne Hall. unfold dstep. cbn [eff_op]. rewrite H. cbn [dstep0].
  destruct keys as [|k0 keys']; [congruence|].
  assert (E : forallb (fun k => memb k (cl_chans c)) (k0 :: keys') = true).
  { apply forallb_forall. intros k Hk. apply elem_of_list_In in Hk.
    rewrite Forall_forall in Hall. specialize (Hall k Hk).
    unfold memb. apply existsb_exists. exists k. split; [apply elem_of_list_In, Hall|apply N.eqb_refl]. }
  rewrite E. reflexivity.
Qed.
Lemma drun_skips_cut : forall ops c,
  drun c ops = drun c (List.filter (fun o => negb (is_cut o)) ops).
Proof.
  induction ops as [|o ops IH]; intros c; [reflexivity|]. cbn [List.filter].
  destruct (is_cut o) eqn:E; cbn [negb drun].
  - rewrite (cut_open_no_effect c o E). apply IH.
  - apply IH.
Qed.

(* ---- unknown channels *)
Lemma open_writer_unknown c id gw keys auto k :
  k ∈ keys -> ~ k ∈ cl_chans c -> dstep c (OpenW id gw keys auto) = (c, DMissing).
Proof.
  intros Hin Hnot. unfold dstep. cbn [eff_op dstep0]. destruct keys as [|k0 keys']; [inversion Hin|].
  destruct (forallb (fun k1 => memb k1 (cl_chans c)) (k0 :: keys')) eqn:E; [|reflexivity].
  exfalso. apply Hnot. rewrite forallb_forall in E. apply memb_true, E, elem_of_list_In, Hin.
Qed.
Lemma open_iterator_unknown chans keys k :
  k ∈ keys -> (~ k ∈ chans \/ is_free_key k = true) -> iter_open chans keys <> IOk.
Proof.
  intros Hin Hbad. unfold iter_open. destruct keys as [|k0 keys']; [inversion Hin|].
  destruct (existsb is_free_key (k0 :: keys')) eqn:Ef; [discriminate|].
  destruct (forallb (fun k1 => memb k1 chans) (k0 :: keys')) eqn:E; [|discriminate].
  exfalso. destruct Hbad as [Hnot|Hfree].
  - apply Hnot. rewrite forallb_forall in E. apply memb_true, E, elem_of_list_In, Hin.
  - assert (existsb is_free_key (k0 :: keys') = true); [|congruence].
    apply existsb_exists. exists k. split; [apply elem_of_list_In, Hin|exact Hfree].
Qed.

(* ---- a concrete script: three nodes, a gateway that holds none of the channels *)
Definition x_t1 := new_key 1 2. Definition x_d1 := new_key 1 3.
Definition x_t3 := new_key 3 2. Definition x_d3 := new_key 3 3.
Definition x_free := new_key node_free 5.
Definition x_chans := [x_t1; x_d1; x_t3; x_d3; x_free].
Definition x_ops : list dop :=
  [OpenW 0 2 [x_t1; x_d1; x_t3; x_d3; x_free] false;
   WriteW 0 [(x_t1, [10; 11]); (x_d1, [5; 6]); (x_free, [9])];
   WriteW 0 [(x_d3, [1; 2; 3]); (x_t3, [10; 11; 12])];
   CommitW 0;
   WriteW 0 [(x_t1, [12]); (x_d1, [7])];
   CloseW 0;
   OpenW 1 1 [x_t3; 77] true;
   OpenW 2 3 [x_t1; x_d1] true;
   WriteW 2 [(x_d1, [8]); (x_t1, [20])]].
Lemma x_facts :
  let c := drun (Cluster x_chans ∅ ∅) x_ops in
  cluster_read c x_t1 = [10; 11; 20] /\ cluster_read c x_d1 = [5; 6; 8] /\
  cluster_read c x_d3 = [1; 2; 3] /\ stray c 2 x_t1 = [] /\ stray c 3 x_d1 = [] /\
  dresults (Cluster x_chans ∅ ∅) x_ops = [DOk; DOk; DOk; DAck; DOk; DOk; DMissing; DOk; DOk].
Proof. vm_compute. repeat split; reflexivity. Qed.
