(* Core/ChannelNames.v — what an accepted name validation guarantees (validateChannelNames). *)
From stdpp Require Import gmap strings sorting.
From Coq Require Import NArith Lia.
From Synnax Require Import Generated.Consts_C15 Core.Channel Core.ChannelAssign.
Local Open Scope N_scope.
Notation length := List.length.

Lemma first_dup_false : forall names seen,
  first_dup seen names = false -> NoDup names /\ forall n, n ∈ names -> n ∉ seen.
Proof.
  induction names as [|n names IH]; intros seen; cbn [first_dup].
  - intros _. split; [constructor|]. intros n H; inversion H.
  - destruct (existsb (name_eqb n) seen) eqn:Ex; [discriminate|]. intros H.
    destruct (IH _ H) as [Hnd Hout].
    assert (Hn : n ∉ seen).
    { intros Hin. assert (existsb (name_eqb n) seen = true); [|congruence].
      apply existsb_exists. exists n. split; [apply elem_of_list_In, Hin|].
      unfold name_eqb. apply bool_decide_eq_true. reflexivity. }
    split.
    + constructor; [|exact Hnd]. intros Hin. apply (Hout n Hin). left.
    + intros m Hm. apply elem_of_cons in Hm as [->|Hm]; [exact Hn|].
      intros Hs. apply (Hout m Hm). right. exact Hs.
Qed.

Lemma holders_complete t n k c : t !! k = Some c -> c_name c = n -> (k, c) ∈ holders t n.
Proof.
  intros Hk Hn. unfold holders. apply elem_of_list_filter. split; [exact Hn|]. apply sorted_tab_elem, Hk.
Qed.

Lemma name_conflict_ok t : forall kn amb,
  name_conflict t kn = (EOk, amb) ->
  forall k n, (k, n) ∈ kn -> amb = false ->
  forall k' c, t !! k' = Some c -> c_name c = n -> k' = k.
Proof.
  induction kn as [|[k0 n0] kn IH]; intros amb; cbn [name_conflict].
  - intros _ k n H. inversion H.
  - destruct (reverse (holders t n0)) as [|[hk hc] more] eqn:Er.
    + intros H k n Hin Hamb k' c Hk' Hn. apply elem_of_cons in Hin as [[= -> ->]|Hin].
      * exfalso. pose proof (holders_complete t n0 k' c Hk' Hn) as Hh.
        assert (Hnil : holders t n0 = []) by (rewrite <- (reverse_involutive (holders t n0)), Er; reflexivity).
        rewrite Hnil in Hh. inversion Hh.
      * eapply IH; eassumption.
    + destruct (hk =? k0) eqn:Ek; [|discriminate].
      destruct (name_conflict t kn) as [e a] eqn:En. intros [= -> <-] k n Hin Hamb k' c Hk' Hn.
      apply orb_false_iff in Hamb as [Ha Hm]. destruct more; [|discriminate].
      apply elem_of_cons in Hin as [[= -> ->]|Hin]; [|eapply (IH a eq_refl); eassumption].
      apply N.eqb_eq in Ek. subst hk.
      pose proof (holders_complete t n0 k' c Hk' Hn) as Hh.
      assert (Hone : holders t n0 = [(k0, hc)]) by (rewrite <- (reverse_involutive (holders t n0)), Er; reflexivity).
      rewrite Hone in Hh. apply elem_of_list_singleton in Hh. congruence.
Qed.

(* an accepted validation (no lookup ambiguity): every name matches ^[a-zA-Z_][a-zA-Z0-9_]*$, the
   names of the request are pairwise different, and no row other than the request's own key holds
   any of them *)
Theorem validate_names_sound t keys names :
  length keys = length names ->
  validate_names t keys names false = (EOk, false) ->
  Forall (fun n => valid_name n = true) names /\ NoDup names /\
  forall i k n, keys !! i = Some k -> names !! i = Some n ->
    forall k' c, t !! k' = Some c -> c_name c = n -> k' = k.
Proof.
  intros Hlen. unfold validate_names.
  destruct (forallb valid_name names) eqn:Ev; cbn [negb]; [|discriminate].
  destruct (first_dup [] names) eqn:Ed; [discriminate|]. intros Hc.
  split; [apply Forall_forall; intros n Hn; rewrite forallb_forall in Ev; apply Ev, elem_of_list_In, Hn|].
  split; [apply (first_dup_false names [] Ed)|].
  intros i k n Hk Hn k' c Hk' Hcn. eapply (name_conflict_ok t _ false Hc k n); try eassumption; [|reflexivity].
  apply elem_of_list_lookup. exists i. apply lookup_zip_with_Some. eauto.
Qed.

(* the name pattern itself *)
Lemma valid_name_examples :
  valid_name "a" = true /\ valid_name "_x9" = true /\ valid_name "Temp_1" = true /\
  valid_name "" = false /\ valid_name "1x" = false /\ valid_name "a b" = false /\ valid_name "a-b" = false.
Proof. vm_compute. repeat split; reflexivity. Qed.
