(* Core/Gorp.v — executable model of x/go/gorp secondary indexes and indexed retrieval.
   Copies: index.go   (LookupIndex putLocked/deleteLocked/removeFromForward/getLocked/flush/
                       populate/set/delete/Get/Filter; SortedIndex lowerBound/upperBound/put/
                       remove/get/sortBulk/setCommitted/deleteCommitted/flushTx/Get/Filter),
           delta.go   (delta stageSet/stageDelete/addToForward/removeFromForward/merge,
                       deltaOverlay stage/unstage/resolve/loadOrCreate cleanup),
           filter.go  (Match, MatchKeys, And, Or, orEval, Not, notEval, evalChild,
                       materializeFilters, intersectKeys, unionKeys, containsKey),
           retrieve.go(Where, resolveFilter, Exec, execKeys, execFilter, execOrdered, match,
                       Count, Exists, isBareKeys),
           order_by.go(walkOrder, walkSorted), writer.go (set/delete + staging),
           create.go / update.go / delete.go (Exec), gorp.go (tx Commit/Close + runCleanups),
           table.go   (OpenTable populate, attachIndexObserver), observe.go,
           kv/pebblekv (indexed batch: reads see own writes, then the current committed data;
                        commit applies the batch and notifies observers synchronously).
   Not modelled: raw (pre-decode) filters, prefix scans, offset, validators, populate failure
   (ErrIndexInvalid fallback), lazy membership maps (containsKey is list membership),
   pdqsort instability beyond 12 elements, encoding.
   No proofs in this file: it must keep evaluating when a proof breaks. *)
From stdpp Require Import gmap.
From Coq Require Import NArith ZArith List.
Import ListNotations.
Local Open Scope Z_scope.

(* ------------------------------------------------------------------ entries *)
Record row := Row { rk : N; ra : Z; rb : Z; rc : Z }.
Global Instance row_eq_dec : EqDecision row.
Proof. solve_decision. Defined.

(* the two registered indexes: IA = LookupIndex on column a, IB = SortedIndex on column b *)
Inductive iid := IA | IB.
Global Instance iid_eq_dec : EqDecision iid.
Proof. solve_decision. Defined.
Definition ext (i : iid) (r : row) : Z := match i with IA => ra r | IB => rb r end.

(* stable insertion sort (Go: slices.SortFunc on <= 12 elements is insertionSortCmpFunc) *)
Fixpoint ins {A} (leb : A -> A -> bool) (x : A) (l : list A) : list A :=
  match l with
  | [] => [x]
  | y :: t => if leb y x then y :: ins leb x t else x :: y :: t
  end.
Definition isort {A} (leb : A -> A -> bool) (l : list A) : list A :=
  fold_left (fun acc x => ins leb x acc) l [].

Definition sort_keys (l : list N) : list N := isort N.leb l.
Definition sorted_rows (m : gmap N row) : list row :=
  isort (fun a b => N.leb (rk a) (rk b)) (map snd (map_to_list m)).
Definition sort_rows (l : list row) : list row := isort (fun a b => N.leb (rk a) (rk b)) l.

Fixpoint remove_first (k : N) (l : list N) : list N :=
  match l with
  | [] => []
  | x :: t => if decide (x = k) then t else x :: remove_first k t
  end.

(* ------------------------------------------------------------------ LookupIndex *)
Record lidx := LIdx { l_fwd : gmap Z (list N); l_rev : gmap N Z }.
Definition l_empty : lidx := LIdx ∅ ∅.

(* removeFromForward *)
Definition l_rm_fwd (k : N) (v : Z) (fwd : gmap Z (list N)) : gmap Z (list N) :=
  match remove_first k (default [] (fwd !! v)) with
  | [] => delete v fwd
  | ks => <[v := ks]> fwd
  end.
(* putLocked *)
Definition l_put (k : N) (v : Z) (l : lidx) : lidx :=
  match l_rev l !! k with
  | Some old =>
      if decide (old = v) then l
      else let f := l_rm_fwd k old (l_fwd l) in
           LIdx (<[v := default [] (f !! v) ++ [k]]> f) (<[k := v]> (l_rev l))
  | None => LIdx (<[v := default [] (l_fwd l !! v) ++ [k]]> (l_fwd l)) (<[k := v]> (l_rev l))
  end.
(* deleteLocked *)
Definition l_del (k : N) (l : lidx) : lidx :=
  match l_rev l !! k with
  | None => l
  | Some old => LIdx (l_rm_fwd k old (l_fwd l)) (delete k (l_rev l))
  end.
(* getLocked *)
Definition l_get1 (v : Z) (l : lidx) : list N := default [] (l_fwd l !! v).

(* ------------------------------------------------------------------ SortedIndex *)
Record sidx := SIdx { s_ents : list (Z * N); s_rev : gmap N Z }.
Definition s_empty : sidx := SIdx [] ∅.

(* sort.Search(n, f): i, j := 0, n; for i < j { h := (i+j)/2; if !f(h) {i = h+1} else {j = h} } *)
Fixpoint search_go (fuel : nat) (f : nat -> bool) (i j : nat) : nat :=
  match fuel with
  | O => i
  | S fu => if (i <? j)%nat
            then let h := ((i + j) / 2)%nat in
                 if f h then search_go fu f i h else search_go fu f (S h) j
            else i
  end.
Definition search (n : nat) (f : nat -> bool) : nat := search_go (S n) f O n.

Definition nthv (e : list (Z * N)) (i : nat) : Z :=
  match nth_error e i with Some p => p.1 | None => 0 end.
(* lowerBound: first i with entries[i].value >= value ; upperBound: first i with > value *)
Definition lower_bound (v : Z) (e : list (Z * N)) : nat :=
  search (length e) (fun i => Z.leb v (nthv e i)).
Definition upper_bound (v : Z) (e : list (Z * N)) : nat :=
  search (length e) (fun i => Z.ltb v (nthv e i)).

Definition insert_at {A} (i : nat) (x : A) (l : list A) : list A := take i l ++ x :: drop i l.
(* put *)
Definition s_put (k : N) (v : Z) (e : list (Z * N)) : list (Z * N) :=
  insert_at (upper_bound v e) (v, k) e.
Fixpoint remove_first_key (k : N) (l : list (Z * N)) : list (Z * N) :=
  match l with
  | [] => []
  | x :: t => if decide (x.2 = k) then t else x :: remove_first_key k t
  end.
(* remove: scans [lowerBound, upperBound) for the key *)
Definition s_remove (k : N) (v : Z) (e : list (Z * N)) : list (Z * N) :=
  let lo := lower_bound v e in
  let hi := upper_bound v e in
  if (hi <=? lo)%nat then e
  else take lo e ++ remove_first_key k (take (hi - lo) (drop lo e)) ++ drop hi e.
(* setCommitted / deleteCommitted *)
Definition s_set (k : N) (v : Z) (s : sidx) : sidx :=
  match s_rev s !! k with
  | Some old =>
      if decide (old = v) then s
      else SIdx (s_put k v (s_remove k old (s_ents s))) (<[k := v]> (s_rev s))
  | None => SIdx (s_put k v (s_ents s)) (<[k := v]> (s_rev s))
  end.
Definition s_del (k : N) (s : sidx) : sidx :=
  match s_rev s !! k with
  | None => s
  | Some old => SIdx (s_remove k old (s_ents s)) (delete k (s_rev s))
  end.
(* get *)
Definition s_get1 (v : Z) (s : sidx) : list N :=
  let lo := lower_bound v (s_ents s) in
  let hi := upper_bound v (s_ents s) in
  map snd (take (hi - lo) (drop lo (s_ents s))).

(* walkOrder + walkSorted. dir: false = Asc, true = Desc. limit 0 = unbounded. *)
Definition lim_take {A} (limit : nat) (l : list A) : list A :=
  match limit with O => l | _ => take limit l end.
Definition s_walk (desc : bool) (cursor : option Z) (limit : nat) (s : sidx) : list N :=
  let e := s_ents s in
  match e with
  | [] => []
  | _ =>
    if desc then
      let n := match cursor with None => length e | Some c => lower_bound c e end in
      (* start = n - 1, walking down to 0: the first n entries reversed *)
      lim_take limit (map snd (rev (take n e)))
    else
      let start := match cursor with None => O | Some c => upper_bound c e end in
      lim_take limit (map snd (drop start e))
  end.

(* ------------------------------------------------------------------ per-transaction delta *)
(* state: Some v = staged live with value v, None = staged delete *)
Record delta := Delta { d_state : gmap N (option Z); d_fwd : gmap Z (gset N) }.
Definition d_empty : delta := Delta ∅ ∅.

Definition d_rm_fwd (k : N) (v : Z) (f : gmap Z (gset N)) : gmap Z (gset N) :=
  match f !! v with
  | None => f
  | Some b => let b' := b ∖ {[k]} in
              if decide (b' = ∅) then delete v f else <[v := b']> f
  end.
Definition d_add_fwd (k : N) (v : Z) (f : gmap Z (gset N)) : gmap Z (gset N) :=
  <[v := default ∅ (f !! v) ∪ {[k]}]> f.
Definition d_unlink (k : N) (d : delta) : gmap Z (gset N) :=
  match d_state d !! k with
  | Some (Some pv) => d_rm_fwd k pv (d_fwd d)
  | _ => d_fwd d
  end.
Definition d_stage_set (k : N) (v : Z) (d : delta) : delta :=
  Delta (<[k := Some v]> (d_state d)) (d_add_fwd k v (d_unlink k d)).
Definition d_stage_del (k : N) (d : delta) : delta :=
  Delta (<[k := None]> (d_state d)) (d_unlink k d).

Definition inZ (v : Z) (vs : list Z) : bool := existsb (Z.eqb v) vs.
Definition inN (k : N) (ks : list N) : bool := existsb (N.eqb k) ks.

(* delta.merge; the Go result is set.Slice() (arbitrary order): here [elements] *)
Definition d_merge (committed : list N) (vs : list Z) (d : delta) : list N :=
  if bool_decide (d_state d = ∅) then committed
  else
    let r0 : gset N := list_to_set committed in
    let r1 := map_fold (fun k e (acc : gset N) =>
                 match e with
                 | None => acc ∖ {[k]}
                 | Some v => if inZ v vs then acc else acc ∖ {[k]}
                 end) r0 (d_state d) in
    let r2 := fold_left (fun (acc : gset N) v => acc ∪ default ∅ (d_fwd d !! v)) vs r1 in
    elements r2.

(* deltaOverlay: transaction id 0 is "no per-tx identity" (a DB used directly) *)
Notation overlay := (gmap nat delta).
Definition ov_stage (t : nat) (k : N) (v : Z) (o : overlay) : overlay :=
  <[t := d_stage_set k v (default d_empty (o !! t))]> o.
Definition ov_unstage (t : nat) (k : N) (o : overlay) : overlay :=
  <[t := d_stage_del k (default d_empty (o !! t))]> o.
Definition ov_resolve (t : nat) (committed : list N) (vs : list Z) (o : overlay) : list N :=
  match t with
  | O => committed
  | _ => match o !! t with
         | None => committed
         | Some d => d_merge committed vs d
         end
  end.

(* ------------------------------------------------------------------ key-value layer *)
Notation table := (gmap N row).
Notation batch := (list (N * option row)).
Definition apply1 (m : table) (w : N * option row) : table :=
  match w.2 with Some r => <[w.1 := r]> m | None => delete w.1 m end.
Definition apply_batch (b : batch) (m : table) : table := fold_left apply1 b m.

(* ------------------------------------------------------------------ database state *)
Record st := St {
  rows : table;              (* committed table *)
  li : lidx; si : sidx;      (* committed index state *)
  lov : overlay; sov : overlay;
  txs : gmap nat batch;      (* open transactions *)
  mode1 : bool;              (* true: the DB itself is the index observable; false: a separate
                                observable that only carries replicated writes (core wiring) *)
  dedup : bool;              (* Get skips a value listed twice (tree after fix F16); false = the
                                pinned upstream code, which appends the bucket once per listing *)
  lbad : bool; sbad : bool   (* populateErr of the lookup / sorted index: the bulk populate scan
                                failed; sticky until the table is opened again *)
}.

Definition view (s : st) (t : nat) : table :=
  match t with
  | O => rows s
  | _ => apply_batch (default [] (txs s !! t)) (rows s)
  end.
Definition is_open (s : st) (t : nat) : bool :=
  match t with O => true | _ => bool_decide (is_Some (txs s !! t)) end.

(* Index.Get(tx, values...) of each index *)
(* values[:i] already contains v: skipped by the fixed Get *)
Fixpoint dedupZ (seen vs : list Z) : list Z :=
  match vs with
  | [] => []
  | v :: tl => if inZ v seen then dedupZ seen tl else v :: dedupZ (seen ++ [v]) tl
  end.
Definition get_vals (dd : bool) (vs : list Z) : list Z := if dd then dedupZ [] vs else vs.
Definition l_get_committed (dd : bool) (vs : list Z) (l : lidx) : list N :=
  flat_map (fun v => l_get1 v l) (get_vals dd vs).
Definition s_get_committed (dd : bool) (vs : list Z) (x : sidx) : list N :=
  flat_map (fun v => s_get1 v x) (get_vals dd vs).
Definition idx_get (s : st) (t : nat) (i : iid) (vs : list Z) : list N :=
  match i with
  | IA => ov_resolve t (l_get_committed (dedup s) vs (li s)) vs (lov s)
  | IB => ov_resolve t (s_get_committed (dedup s) vs (si s)) vs (sov s)
  end.
(* what idx.Filter's resolver hands to the filter machinery: nil for no values *)
Definition renv := iid -> list Z -> option (list N).
Definition renv_of (s : st) (t : nat) : renv :=
  fun i vs => match vs with [] => None | _ => Some (idx_get s t i vs) end.

(* ------------------------------------------------------------------ filters *)
Inductive pcol := CK | CA | CB | CC.
Inductive pcmp := PEq | PLt.
Definition col_of (c : pcol) (r : row) : Z :=
  match c with CK => Z.of_N (rk r) | CA => ra r | CB => rb r | CC => rc r end.
Definition pred_holds (c : pcol) (m : pcmp) (v : Z) (r : row) : bool :=
  match m with PEq => Z.eqb (col_of c r) v | PLt => Z.ltb (col_of c r) v end.

Inductive ftree :=
| FKeys (ks : list N)
| FPred (c : pcol) (m : pcmp) (v : Z)
| FIdx (i : iid) (vs : list Z)
| FAnd (fs : list ftree)
| FOr (fs : list ftree)
| FNot (f : ftree).

(* denotation: the predicate a full scan applies *)
Fixpoint holds (f : ftree) (r : row) : bool :=
  match f with
  | FKeys ks => inN (rk r) ks
  | FPred c m v => pred_holds c m v r
  | FIdx i vs => inZ (ext i r) vs
  | FAnd fs => forallb (fun c => holds c r) fs
  | FOr fs => existsb (fun c => holds c r) fs
  | FNot c => negb (holds c r)
  end.

(* gorp.Filter without the raw / membership fields *)
Record resolved := Res { r_keys : option (list N); r_eval : option (row -> bool) }.
Record filt := Filt {
  f_eval : option (row -> bool);
  f_keys : option (list N);
  f_res : option (renv -> resolved)
}.
Definition f_zero : filt := Filt None None None.

Definition contains_key (f : filt) (k : N) : bool :=
  match f_keys f with Some ks => inN k ks | None => false end.
(* evalChild *)
Definition eval_child (f : filt) (r : row) : bool :=
  match f_keys f with
  | Some ks => if inN (rk r) ks
               then match f_eval f with Some e => e r | None => true end
               else false
  | None => match f_eval f with Some e => e r | None => true end
  end.
Definition or_eval (fs : list filt) (r : row) : bool := existsb (fun c => eval_child c r) fs.
Definition not_eval (f : filt) (r : row) : bool := negb (eval_child f r).
(* the eval closure And installs *)
Definition and_eval (fs : list filt) (r : row) : bool :=
  forallb (fun c =>
     match f_keys c with
     | Some ks => if inN (rk r) ks
                  then match f_eval c with Some e => e r | None => true end
                  else false
     | None => match f_eval c with Some e => e r | None => true end
     end) fs.

Definition has_eval (f : filt) : bool := match f_eval f with Some _ => true | None => false end.
Definition has_res (f : filt) : bool := match f_res f with Some _ => true | None => false end.
Definition has_keys (f : filt) : bool := match f_keys f with Some _ => true | None => false end.

(* materializeFilters *)
Definition materialize1 (env : renv) (c : filt) : filt :=
  match f_res c with
  | None => c
  | Some rf => let res := rf env in
               Filt (match r_eval res with Some e => Some e | None => f_eval c end)
                    (r_keys res) (f_res c)
  end.
Definition materialize (env : renv) (fs : list filt) : list filt := map (materialize1 env) fs.

Definition keys_of (f : filt) : list N := default [] (f_keys f).
Definition by_len (a b : filt) : bool := (length (keys_of a) <=? length (keys_of b))%nat.

(* intersectKeys *)
Definition intersect_keys (fs : list filt) : option (list N) :=
  let bounded := List.filter has_keys fs in
  match bounded with
  | [] => None
  | [b] => f_keys b
  | _ => let sorted := isort by_len bounded in
         let cands := keys_of (List.last sorted f_zero) in
         let rest := removelast sorted in
         Some (List.filter (fun c => forallb (fun f => contains_key f c) rest) cands)
  end.
(* unionKeys *)
Fixpoint union_walk (prior : list filt) (rest : list filt) : list N :=
  match rest with
  | [] => []
  | f :: tl =>
      List.filter (fun k => negb (existsb (fun p => contains_key p k) prior)) (keys_of f)
      ++ union_walk (prior ++ [f]) tl
  end.
Definition union_keys (fs : list filt) : option (list N) :=
  match fs with
  | [] => None
  | _ => if forallb has_keys fs then Some (union_walk [] (isort by_len fs)) else None
  end.

(* MatchKeys, Match, idx.Filter, And, Or, Not *)
Definition mk_keys (ks : list N) : filt := Filt None (Some ks) None.
Definition mk_pred (p : row -> bool) : filt := Filt (Some p) None None.
Definition mk_idx (i : iid) (vs : list Z) : filt :=
  Filt (Some (fun r => inZ (ext i r) vs)) None
       (Some (fun env => Res (env i vs) None)).
Definition mk_and (fs : list filt) : filt :=
  let ev := if existsb has_eval fs then Some (and_eval fs) else None in
  if existsb has_res fs
  then Filt ev None (Some (fun env => Res (intersect_keys (materialize env fs)) None))
  else Filt ev (intersect_keys fs) None.
Definition mk_or (fs : list filt) : filt :=
  if existsb has_res fs
  then Filt (Some (or_eval fs)) None
            (Some (fun env => let m := materialize env fs in
                              Res (union_keys m) (Some (or_eval m))))
  else let ks := union_keys fs in
       let all_keys_only := match ks with
                            | Some _ => forallb (fun c => negb (has_eval c)) fs
                            | None => false
                            end in
       Filt (if all_keys_only then None else Some (or_eval fs)) ks None.
Definition mk_not (f : filt) : filt :=
  match f_res f with
  | Some rf =>
      Filt (Some (not_eval f)) None
           (Some (fun env => let res := rf env in
                             let m := Filt (match r_eval res with Some e => Some e | None => f_eval f end)
                                           (r_keys res) (f_res f) in
                             Res None (Some (not_eval m))))
  | None => Filt (Some (not_eval f)) None None
  end.

Fixpoint build (f : ftree) : filt :=
  match f with
  | FKeys ks => mk_keys ks
  | FPred c m v => mk_pred (pred_holds c m v)
  | FIdx i vs => mk_idx i vs
  | FAnd fs => mk_and (map build fs)
  | FOr fs => mk_or (map build fs)
  | FNot c => mk_not (build c)
  end.

(* ------------------------------------------------------------------ Retrieve *)
Definition present (f : filt) : bool := has_eval f || has_keys f || has_res f.
(* Retrieve.Where on a fresh query: a present filter is installed as is *)
(* resolveFilter *)
Definition resolve_filter (env : renv) (f : filt) : filt :=
  match f_res f with
  | None => f
  | Some rf => let res := rf env in
               Filt (match r_eval res with Some e => Some e | None => f_eval f end)
                    (r_keys res) (f_res f)
  end.
(* Retrieve.match *)
Definition rmatch (f : filt) (r : row) : bool :=
  if present f then
    match f_keys f with
    | Some ks => if inN (rk r) ks
                 then match f_eval f with Some e => e r | None => true end
                 else false
    | None => match f_eval f with Some e => e r | None => true end
    end
  else true.
Definition is_bare_keys (f : filt) : bool :=
  has_keys f && negb (has_eval f) && negb (has_res f).

(* error classes: 0 ok, 1 query.ErrNotFound *)
Record qout := QOut { q_err : N; q_rows : list row; q_cnt : nat; q_ex : bool }.

(* execKeys: matched entries in key-list order, and the keys not found *)
Fixpoint exec_keys (f : filt) (v : table) (ks : list N) : list row * list N :=
  match ks with
  | [] => ([], [])
  | k :: tl =>
      let '(rs, nf) := exec_keys f v tl in
      match v !! k with
      | None => (rs, k :: nf)
      | Some r => (if rmatch f r then r :: rs else rs, nf)
      end
  end.
(* execFilter: scan in key order *)
Definition exec_scan (f : filt) (v : table) : list row := List.filter (rmatch f) (sorted_rows v).

(* Exec + Count + Exists of one Retrieve (no OrderBy) *)
Definition exec_query (env : renv) (v : table) (f0 : filt) : qout :=
  let f := resolve_filter env f0 in
  match f_keys f with
  | Some ks =>
      let '(rs, nf) := exec_keys f v ks in
      let bare := is_bare_keys f in
      QOut (if bare && negb (Nat.eqb (length nf) 0) then 1%N else 0%N)
           rs (length rs)
           (match ks with
            | [] => false
            | _ => if bare then Nat.eqb (length rs) (length ks) else negb (Nat.eqb (length rs) 0)
            end)
  | None =>
      let rs := exec_scan f v in
      QOut 0%N rs (length rs) (negb (Nat.eqb (length rs) 0))
  end.

(* execOrdered: walk the committed sorted index, fetch through the tx, post-filter *)
Definition exec_ordered (env : renv) (v : table) (x : sidx) (desc : bool) (cursor : option Z)
           (limit : nat) (f0 : option filt) : list row :=
  let f := match f0 with Some f => resolve_filter env f | None => f_zero end in
  let ks := s_walk desc cursor limit x in
  flat_map (fun k => match v !! k with
                     | Some r => if rmatch f r then [r] else []
                     | None => []
                     end) ks.

(* the predicate of the scan form of an ordered query *)
Definition ord_holds (desc : bool) (cursor : option Z) (f : option ftree) (r : row) : bool :=
  (match cursor with
   | None => true
   | Some c => if desc then Z.ltb (rb r) c else Z.ltb c (rb r)
   end) && (match f with Some f => holds f r | None => true end).

(* ------------------------------------------------------------------ writes *)
(* index observer (attachIndexObserver): set / delete on every registered index *)
Definition obs1 (s : st) (w : N * option row) : st :=
  match w.2 with
  | Some r => St (rows s) (l_put w.1 (ra r) (li s)) (s_set w.1 (rb r) (si s))
                 (lov s) (sov s) (txs s) (mode1 s) (dedup s) (lbad s) (sbad s)
  | None => St (rows s) (l_del w.1 (li s)) (s_del w.1 (si s)) (lov s) (sov s) (txs s) (mode1 s) (dedup s) (lbad s) (sbad s)
  end.
Definition observe (b : batch) (s : st) : st := fold_left obs1 b s.

(* Writer.set / Writer.delete through transaction t (0 = the DB itself) *)
Definition w_set (t : nat) (r : row) (s : st) : st :=
  let k := rk r in
  match t with
  | O =>
      (* db.Set = one-op transaction: apply, notify (mode 1), then stage with nil identity *)
      let s1 := St (<[k := r]> (rows s)) (li s) (si s) (lov s) (sov s) (txs s) (mode1 s) (dedup s) (lbad s) (sbad s) in
      let s2 := if mode1 s then obs1 s1 (k, Some r) else s1 in
      St (rows s2) (l_put k (ra r) (li s2)) (s_set k (rb r) (si s2)) (lov s2) (sov s2) (txs s2) (mode1 s2) (dedup s2) (lbad s2) (sbad s2)
  | _ =>
      St (rows s) (li s) (si s) (ov_stage t k (ra r) (lov s)) (ov_stage t k (rb r) (sov s))
         (<[t := default [] (txs s !! t) ++ [(k, Some r)]]> (txs s)) (mode1 s) (dedup s) (lbad s) (sbad s)
  end.
Definition w_del (t : nat) (k : N) (s : st) : st :=
  match t with
  | O =>
      let s1 := St (delete k (rows s)) (li s) (si s) (lov s) (sov s) (txs s) (mode1 s) (dedup s) (lbad s) (sbad s) in
      let s2 := if mode1 s then obs1 s1 (k, None) else s1 in
      St (rows s2) (l_del k (li s2)) (s_del k (si s2)) (lov s2) (sov s2) (txs s2) (mode1 s2) (dedup s2) (lbad s2) (sbad s2)
  | _ =>
      St (rows s) (li s) (si s) (ov_unstage t k (lov s)) (ov_unstage t k (sov s))
         (<[t := default [] (txs s !! t) ++ [(k, None)]]> (txs s)) (mode1 s) (dedup s) (lbad s) (sbad s)
  end.

(* flush of one delta into committed index state *)
Definition l_flush (d : delta) (l : lidx) : lidx :=
  map_fold (fun k e acc => match e with None => l_del k acc | Some v => l_put k v acc end) l (d_state d).
Definition s_flush (d : delta) (x : sidx) : sidx :=
  map_fold (fun k e acc => match e with None => s_del k acc | Some v => s_set k v acc end) x (d_state d).

(* kv commit of t: apply the batch; in mode 1 the index observer replays it *)
Definition kv_commit (t : nat) (s : st) : st :=
  let b := default [] (txs s !! t) in
  let s1 := St (apply_batch b (rows s)) (li s) (si s) (lov s) (sov s) (txs s) (mode1 s) (dedup s) (lbad s) (sbad s) in
  if mode1 s then observe b s1 else s1.
(* runCleanups(committed): drop the deltas; flush them when committed *)
Definition cleanups (committed : bool) (t : nat) (s : st) : st :=
  let l := match lov s !! t with
           | Some d => if committed && negb (bool_decide (d_state d = ∅)) then l_flush d (li s) else li s
           | None => li s end in
  let x := match sov s !! t with
           | Some d => if committed && negb (bool_decide (d_state d = ∅)) then s_flush d (si s) else si s
           | None => si s end in
  St (rows s) l x (delete t (lov s)) (delete t (sov s)) (delete t (txs s)) (mode1 s) (dedup s) (lbad s) (sbad s).

Definition commit (t : nat) (s : st) : st := cleanups true t (kv_commit t s).
Definition abort (t : nat) (s : st) : st := cleanups false t s.
(* u commits entirely between t's kv commit and t's cleanups *)
Definition commit_nested (t u : nat) (s : st) : st :=
  cleanups true t (commit u (kv_commit t s)).

(* OpenTable over existing rows: bulk populate both indexes *)
Definition l_populate (m : table) : lidx :=
  fold_left (fun l r => l_put (rk r) (ra r) l) (sorted_rows m) l_empty.
Definition s_populate (m : table) : sidx :=
  let rs := sorted_rows m in
  SIdx (isort (fun a b => Z.leb a.1 b.1) (map (fun r => (rb r, rk r)) rs))
       (list_to_map (map (fun r => (rk r, rb r)) rs)).
Definition reopen (s : st) : st :=
  St (rows s) (l_populate (rows s)) (s_populate (rows s)) ∅ ∅ ∅ (mode1 s) (dedup s) false false.
(* OpenTable whose populate scan dies after j rows (the iterator turns invalid and reports the error
   from Error()/Close()): every index keeps the rows seen so far (the sorted slice unsorted: sortBulk
   is skipped) and is flagged invalid. A scan that ends before the fault is an ordinary populate. *)
Definition reopen_fault (j : nat) (s : st) : st :=
  let rs := sorted_rows (rows s) in
  if (j <? length rs)%nat then
    let seen := take j rs in
    St (rows s)
       (fold_left (fun l r => l_put (rk r) (ra r) l) seen l_empty)
       (SIdx (map (fun r => (rb r, rk r)) seen) (list_to_map (map (fun r => (rk r, rb r)) seen)))
       ∅ ∅ ∅ (mode1 s) (dedup s) true true
  else reopen s.

(* a write applied to the kv store outside any gorp writer, announced through the observable *)
Definition replicate (b : batch) (s : st) : st :=
  observe b (St (apply_batch b (rows s)) (li s) (si s) (lov s) (sov s) (txs s) (mode1 s) (dedup s) (lbad s) (sbad s)).

(* ------------------------------------------------------------------ operations *)
Inductive op :=
| Begin (t : nat)
| Create (t : nat) (rs : list row)
| UpdateK (t : nat) (k : N) (a b c : option Z)
| UpdateF (t : nat) (f : ftree) (a b c : option Z)
| DeleteK (t : nat) (ks : list N)
| DeleteF (t : nat) (f : ftree)
| Query (t : nat) (f : ftree)
| OQuery (t : nat) (desc : bool) (cursor : option Z) (limit : nat) (f : option ftree)
| Commit (t : nat)
| Commit2 (t u : nat)
| Abort (t : nat)
| Reopen
| Repl (b : batch)
| Get (t : nat) (i : iid) (vs : list Z)
(* tx.Commit whose underlying kv commit returns an error: cleanups run with committed=false *)
| CommitFail (t : nat)
(* close + OpenTable with a storage fault j rows into the populate scan *)
| ReopenFault (j : nat).

Inductive out :=
| OSkip
| ODone (e : N)
| OQ (qi qs : qout)
| OOrd (qi : list row) (qs : qout)
| OKeys (ks : list N).

Definition upd (a b c : option Z) (r : row) : row :=
  Row (rk r) (default (ra r) a) (default (rb r) b) (default (rc r) c).

Definition run_query (s : st) (t : nat) (f : filt) : qout :=
  exec_query (renv_of s t) (view s t) f.

(* an invalid index makes its Filter's resolver return ErrIndexInvalid; the error passes through
   every And/Or/Not resolver above it and Retrieve.resolveFilter swallows it: keys and membership are
   cleared, the construction-time eval stays — a sequential scan *)
Fixpoint uses_bad (lb sb : bool) (f : ftree) : bool :=
  match f with
  | FIdx IA _ => lb
  | FIdx IB _ => sb
  | FAnd fs | FOr fs => existsb (uses_bad lb sb) fs
  | FNot c => uses_bad lb sb c
  | _ => false
  end.
Definition qbuild (s : st) (f : ftree) : filt :=
  let F := build f in
  if uses_bad (lbad s) (sbad s) f then Filt (f_eval F) None None else F.

Definition step (s : st) (o : op) : st * out :=
  match o with
  | Begin t =>
      match t with
      | O => (s, OSkip)
      | _ => if is_open s t then (s, OSkip)
             else (St (rows s) (li s) (si s) (lov s) (sov s) (<[t := []]> (txs s)) (mode1 s) (dedup s) (lbad s) (sbad s), ODone 0)
      end
  | Create t rs =>
      if is_open s t then (fold_left (fun acc r => w_set t r acc) rs s, ODone 0) else (s, OSkip)
  | UpdateK t k a b c =>
      if is_open s t then
        let q := run_query s t (mk_keys [k]) in
        if N.eqb (q_err q) 0
        then (fold_left (fun acc r => w_set t (upd a b c r) acc) (q_rows q) s, ODone 0)
        else (s, ODone (q_err q))
      else (s, OSkip)
  | UpdateF t f a b c =>
      if is_open s t then
        let q := run_query s t (qbuild s f) in
        if N.eqb (q_err q) 0
        then (fold_left (fun acc r => w_set t (upd a b c r) acc) (q_rows q) s, ODone 0)
        else (s, ODone (q_err q))
      else (s, OSkip)
  | DeleteK t ks =>
      if is_open s t then
        let q := run_query s t (mk_keys ks) in
        (fold_left (fun acc r => w_del t (rk r) acc) (q_rows q) s, ODone 0)
      else (s, OSkip)
  | DeleteF t f =>
      if is_open s t then
        let q := run_query s t (qbuild s f) in
        (fold_left (fun acc r => w_del t (rk r) acc) (q_rows q) s, ODone 0)
      else (s, OSkip)
  | Query t f =>
      if is_open s t
      then (s, OQ (run_query s t (qbuild s f)) (run_query s t (mk_pred (holds f))))
      else (s, OSkip)
  | OQuery t desc cursor limit f =>
      if is_open s t
      then (s, OOrd (if sbad s then []    (* walkOrder treats an invalid index as empty *)
                     else exec_ordered (renv_of s t) (view s t) (si s) desc cursor limit
                                       (option_map (qbuild s) f))
                    (run_query s t (mk_pred (ord_holds desc cursor f))))
      else (s, OSkip)
  | Commit t =>
      match t with
      | O => (s, OSkip)
      | _ => if is_open s t then (commit t s, ODone 0) else (s, OSkip)
      end
  | Commit2 t u =>
      match t, u with
      | O, _ | _, O => (s, OSkip)
      | _, _ => if is_open s t && is_open s u && negb (Nat.eqb t u)
                then (commit_nested t u s, ODone 0) else (s, OSkip)
      end
  | Abort t =>
      match t with
      | O => (s, OSkip)
      | _ => if is_open s t then (abort t s, ODone 0) else (s, OSkip)
      end
  | Reopen => (reopen s, ODone 0)
  | Repl b => (replicate b s, ODone 0)
  | Get t i vs =>
      if is_open s t
      then (s, match vs with
               | [] => OKeys []
               | _ => if (match i with IA => lbad s | IB => sbad s end) then ODone 2   (* ErrIndexInvalid *)
                      else OKeys (idx_get s t i vs)
               end)
      else (s, OSkip)
  | CommitFail t =>
      match t with
      | O => (s, OSkip)
      | _ => if is_open s t then (abort t s, ODone 2) else (s, OSkip)
      end
  | ReopenFault j => (reopen_fault j s, ODone 0)
  end.

Fixpoint run (s : st) (ops : list op) : st :=
  match ops with
  | [] => s
  | o :: tl => run (step s o).1 tl
  end.

(* the state OpenTable produces over pre-existing rows *)
Definition init (m1 dd : bool) (seed : list row) : st :=
  let m : table := list_to_map (map (fun r => (rk r, r)) (rev seed)) in
  St m (l_populate m) (s_populate m) ∅ ∅ ∅ m1 dd false false.
