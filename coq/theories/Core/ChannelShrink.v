(* Core/ChannelShrink.v — delete and rename only remove or relabel: they extend the state trivially. *)
From stdpp Require Import gmap strings sorting.
From Coq Require Import NArith Lia.
From Synnax Require Import Generated.Consts_C15 Core.Channel Core.ChannelKeys Core.ChannelAssign Core.ChannelInv.
Local Open Scope N_scope.
Notation length := List.length.

(* ---- delete / rename paths only shrink *)
Lemma nodes_upd_tab s t n : is_Some (s_eng (upd_tab s t) !! n) <-> is_Some (s_eng s !! n).
Proof. reflexivity. Qed.

Lemma delete_gateway_ext fixed host s keys s' er :
  is_Some (s_eng s !! host) -> delete_gateway fixed host s keys = (s', er) -> ext s s'.
Proof.
  intros Hn. unfold delete_gateway.
  destruct (ts_delete fixed _ keys) as [e' er'] eqn:Ed. intros [= <- <-].
  eapply ext_trans; [apply ext_upd_tab_sub, tab_delete_sub|].
  apply ext_upd_eng_sub; [exact Hn|]. eapply ts_delete_sub; eassumption.
Qed.

Lemma is_node_true s n : is_node s n = true <-> is_Some (s_eng s !! n).
Proof. unfold is_node. apply bool_decide_eq_true. Qed.

Lemma delete_remote_ext fixed p s keys s' er : delete_remote fixed p s keys = (s', er) -> ext s s'.
Proof.
  unfold delete_remote. destruct (is_node s p) eqn:En; cbn [negb]; [|intros [= <- <-]; apply ext_refl].
  destruct (any_internal (s_tab s) keys); [intros [= <- <-]; apply ext_refl|].
  destruct (delete_gateway fixed p s keys) as [s1 er1] eqn:Ed. intros [= <- <-].
  apply ext_rollback. eapply delete_gateway_ext; [apply is_node_true; eassumption|eassumption].
Qed.

Lemma delete_peers_ext fixed : forall peers s keys s' er, delete_peers fixed s peers keys = (s', er) -> ext s s'.
Proof.
  induction peers as [|p peers IH]; intros s keys s' er; cbn [delete_peers]; [intros [= <- <-]; apply ext_refl|].
  destruct (delete_remote fixed p s _) as [s1 er1] eqn:E1. apply delete_remote_ext in E1.
  destruct (is_ok er1); [|intros [= <- <-]; assumption].
  intros H. eapply ext_trans; [eassumption|]. eapply IH; eassumption.
Qed.

Lemma delete_keys_ext fixed host s keys s' r :
  is_Some (s_eng s !! host) -> delete_keys fixed host s keys = (s', r) -> ext s s'.
Proof.
  intros Hn. unfold delete_keys. destruct (any_internal _ _); [intros [= <- <-]; apply ext_refl|].
  destruct (delete_peers fixed s _ keys) as [s1 er1] eqn:E1. apply delete_peers_ext in E1.
  set (s1' := upd_amb s1 _). assert (E1' : ext s s1') by (eapply ext_trans; [exact E1|apply ext_upd_amb]).
  destruct (negb (is_ok er1)); [intros [= <- <-]; exact E1'|].
  destruct (delete_gateway fixed host _ _) as [s3 er3] eqn:E3. intros [= <- <-].
  eapply ext_trans; [exact E1'|].
  eapply ext_trans; [apply ext_upd_tab_sub, tab_delete_sub|].
  eapply delete_gateway_ext; [|exact E3]. apply nodes_upd_tab, (ext_nodes _ _ E1'), Hn.
Qed.

Lemma delete_by_name_ext fixed host s names s' r :
  is_Some (s_eng s !! host) -> delete_by_name fixed host s names = (s', r) -> ext s s'.
Proof.
  intros Hn. unfold delete_by_name. destruct (lookup_names _ _). apply delete_keys_ext, Hn.
Qed.

Lemma rename_gateway_ext host s keys names s' er :
  is_Some (s_eng s !! host) -> rename_gateway host s keys names = (s', er) -> ext s s'.
Proof.
  intros Hn. unfold rename_gateway. destruct (tab_rename _ keys names) as [t' er1] eqn:Et.
  destruct (negb (is_ok er1)); [intros [= <- <-]; apply ext_refl|].
  destruct (ts_rename _ _) as [e' er2] eqn:Er. intros [= <- <-].
  eapply ext_trans; [apply ext_upd_tab_sub; eapply tab_rename_sub; eassumption|].
  apply ext_upd_eng_sub; [exact Hn|]. eapply ts_rename_sub; eassumption.
Qed.

Lemma rename_free_ext s free s' er : rename_free s free = (s', er) -> ext s s'.
Proof.
  unfold rename_free. destruct free; [intros [= <- <-]; apply ext_refl|].
  destruct (tab_rename _ _ _) as [t' er1] eqn:Et. intros [= <- <-].
  destruct (is_ok er1); [|apply ext_refl]. apply ext_upd_tab_sub. eapply tab_rename_sub; eassumption.
Qed.

Lemma rename_remote_ext fixed validate p s kn s' er : rename_remote fixed validate p s kn = (s', er) -> ext s s'.
Proof.
  unfold rename_remote. destruct (is_node s p) eqn:En; cbn [negb]; [|intros [= <- <-]; apply ext_refl].
  apply is_node_true in En.
  destruct (rename_checks fixed validate s _ _) as [er0 amb]. 
  destruct (negb (is_ok er0)); [intros [= <- <-]; apply ext_upd_amb|].
  set (s0 := upd_amb s amb).
  assert (E0 : ext s s0) by apply ext_upd_amb.
  destruct (if p =? node_boot then _ else _) as [s1 er1] eqn:E1.
  assert (X1 : ext s0 s1).
  { destruct (p =? node_boot); [eapply rename_free_ext; eassumption|].
    destruct (filter _ kn); injection E1 as <- <-; apply ext_refl. }
  destruct (negb (is_ok er1)).
  - intros [= <- <-]. eapply ext_trans; [exact E0|]. apply ext_rollback. exact X1.
  - destruct (filter (fun x => leaseholder x.1 =? p) kn) eqn:Eown.
    + intros [= <- <-]. eapply ext_trans; eassumption.
    + destruct (rename_gateway p s1 _ _) as [s2 er2] eqn:E2. intros [= <- <-].
      eapply ext_trans; [exact E0|]. apply ext_rollback. eapply ext_trans; [exact X1|].
      eapply rename_gateway_ext; [|eassumption]. apply (ext_nodes _ _ X1). exact En.
Qed.

Lemma rename_peers_ext fixed validate : forall peers s kn s' er,
  rename_peers fixed validate s peers kn = (s', er) -> ext s s'.
Proof.
  induction peers as [|p peers IH]; intros s kn s' er; cbn [rename_peers]; [intros [= <- <-]; apply ext_refl|].
  destruct (rename_remote fixed validate p s _) as [s1 er1] eqn:E1. apply rename_remote_ext in E1.
  destruct (is_ok er1); [|intros [= <- <-]; assumption].
  intros H. eapply ext_trans; [eassumption|]. eapply IH; eassumption.
Qed.

Lemma rename_keys_ext fixed validate host s keys names s' r :
  is_Some (s_eng s !! host) -> rename_keys fixed validate host s keys names = (s', r) -> ext s s'.
Proof.
  intros Hn. unfold rename_keys.
  destruct (rename_checks fixed validate s keys names) as [er0 amb].
  destruct (negb (is_ok er0)); [intros [= <- <-]; apply ext_upd_amb|].
  set (s0 := upd_amb s amb). assert (E0 : ext s s0) by apply ext_upd_amb.
  destruct (rename_peers fixed validate s0 _ _) as [s1 er1] eqn:E1. apply rename_peers_ext in E1.
  set (s1' := upd_amb s1 _). assert (E1' : ext s s1').
  { eapply ext_trans; [exact E0|]. eapply ext_trans; [exact E1|]. apply ext_upd_amb. }
  destruct (negb (is_ok er1)); [intros [= <- <-]; exact E1'|].
  destruct (match filter _ (zip keys names) with [] => _ | _ => _ end) as [s2 er2] eqn:E2.
  assert (X2 : ext s1' s2).
  { destruct (filter (fun x => leaseholder x.1 =? node_free) (zip keys names)); [injection E2 as <- <-; apply ext_refl|].
    destruct (fixed && negb (host =? node_boot)); [eapply rename_remote_ext|eapply rename_free_ext]; eassumption. }
  destruct (negb (is_ok er2)); [intros [= <- <-]; eapply ext_trans; eassumption|].
  destruct (filter (fun x => leaseholder x.1 =? host) (zip keys names)).
  - intros [= <- <-]. eapply ext_trans; eassumption.
  - destruct (rename_gateway host s2 _ _) as [s3 er3] eqn:E3. intros [= <- <-].
    eapply ext_trans; [exact E1'|]. eapply ext_trans; [exact X2|].
    eapply rename_gateway_ext; [|eassumption].
    apply (ext_nodes _ _ X2), (ext_nodes _ _ E1'), Hn.
Qed.
