(* Core/GorpLookupProofs.v — LookupIndex: forward/reverse invariant, inductive over put/delete. *)
From Coq Require Import NArith ZArith List Lia.
From stdpp Require Import gmap.
From Synnax Require Import Core.Gorp.
Import ListNotations.
Local Open Scope Z_scope.

(* ---- remove_first ---- *)
Lemma remove_first_notin k l : k ∉ l -> remove_first k l = l.
Proof.
  induction l as [|x t IH]; simpl; [done|]. intros Hn.
  destruct (decide (x = k)) as [->|]; [exfalso; apply Hn; left|].
  f_equal. apply IH. intros H; apply Hn; by right.
Qed.
Lemma elem_of_remove_first k x l : NoDup l -> x ∈ remove_first k l <-> x ∈ l /\ x ≠ k.
Proof.
  induction l as [|y t IH]; simpl; intros Hnd.
  - rewrite elem_of_nil. naive_solver.
  - apply NoDup_cons in Hnd as [Hy Hnd].
    destruct (decide (y = k)) as [->|Hne].
    + split.
      * intros Hx. split; [by right|]. intros ->. done.
      * intros [Hx Hxk]. apply elem_of_cons in Hx as [->|Hx]; done.
    + rewrite elem_of_cons, IH by done. rewrite elem_of_cons. naive_solver.
Qed.
Lemma NoDup_remove_first k l : NoDup l -> NoDup (remove_first k l).
Proof.
  induction l as [|y t IH]; simpl; intros Hnd; [constructor|].
  apply NoDup_cons in Hnd as [Hy Hnd].
  destruct (decide (y = k)); [done|].
  apply NoDup_cons. split; [|by apply IH].
  rewrite elem_of_remove_first by done. naive_solver.
Qed.

(* ---- buckets ---- *)
Definition bk (f : gmap Z (list N)) (v : Z) : list N := default [] (f !! v).

Lemma bk_rm_fwd k old f v :
  bk (l_rm_fwd k old f) v = if decide (v = old) then remove_first k (bk f old) else bk f v.
Proof.
  unfold l_rm_fwd, bk.
  destruct (remove_first k (default [] (f !! old))) as [|a t] eqn:E.
  - destruct (decide (v = old)) as [->|Hne].
    + by rewrite lookup_delete.
    + by rewrite lookup_delete_ne.
  - destruct (decide (v = old)) as [->|Hne].
    + by rewrite lookup_insert.
    + by rewrite lookup_insert_ne.
Qed.
Lemma rm_fwd_no_empty k old f :
  (forall v, f !! v ≠ Some []) -> forall v, l_rm_fwd k old f !! v ≠ Some [].
Proof.
  intros Hf v. unfold l_rm_fwd.
  destruct (remove_first k (default [] (f !! old))) as [|a t] eqn:E.
  - destruct (decide (v = old)) as [->|Hne];
      [rewrite lookup_delete; done|rewrite lookup_delete_ne by done; apply Hf].
  - destruct (decide (v = old)) as [->|Hne];
      [rewrite lookup_insert; done|rewrite lookup_insert_ne by done; apply Hf].
Qed.

(* the invariant: a key is in the bucket of v exactly when the reverse map sends it to v;
   buckets are duplicate-free; no empty bucket is kept *)
Record l_wf (l : lidx) : Prop := {
  lwf_nodup : forall v, NoDup (bk (l_fwd l) v);
  lwf_iff : forall k v, k ∈ bk (l_fwd l) v <-> l_rev l !! k = Some v;
  lwf_nonempty : forall v, l_fwd l !! v ≠ Some []
}.

Lemma l_wf_empty : l_wf l_empty.
Proof.
  split; simpl.
  - intros v. unfold bk. rewrite lookup_empty. constructor.
  - intros k v. unfold bk. rewrite !lookup_empty. simpl. split; [inversion 1|done].
  - intros v. by rewrite lookup_empty.
Qed.

Lemma l_rev_put k v l : l_rev (l_put k v l) = <[k := v]> (l_rev l).
Proof.
  unfold l_put. destruct (l_rev l !! k) as [old|] eqn:E; [|done].
  destruct (decide (old = v)) as [->|]; [|done].
  by rewrite insert_id.
Qed.
Lemma l_rev_del k l : l_rev (l_del k l) = delete k (l_rev l).
Proof.
  unfold l_del. destruct (l_rev l !! k) eqn:E; [done|]. by rewrite delete_notin.
Qed.

Lemma bk_insert_app f v k w :
  bk (<[v := bk f v ++ [k]]> f) w = if decide (w = v) then bk f v ++ [k] else bk f w.
Proof.
  unfold bk at 1. destruct (decide (w = v)) as [->|Hne].
  - by rewrite lookup_insert.
  - by rewrite lookup_insert_ne.
Qed.

Lemma l_put_wf k v l : l_wf l -> l_wf (l_put k v l).
Proof.
  intros [Hnd Hiff Hne]. unfold l_put.
  destruct (l_rev l !! k) as [old|] eqn:E.
  - destruct (decide (old = v)) as [->|Hov]; [by split|].
    assert (Hk : forall w, k ∈ bk (l_fwd l) w <-> w = old).
    { intros w. rewrite Hiff, E. naive_solver. }
    split; simpl.
    + intros w. fold (bk (l_rm_fwd k old (l_fwd l)) v). rewrite bk_insert_app.
      destruct (decide (w = v)) as [->|Hwv].
      * rewrite bk_rm_fwd. destruct (decide (v = old)); [congruence|].
        apply NoDup_app. split; [apply Hnd|]. split; [|apply NoDup_singleton].
        intros x Hx Hx'. apply elem_of_list_singleton in Hx' as ->.
        apply Hk in Hx. congruence.
      * rewrite bk_rm_fwd. destruct (decide (w = old)); [apply NoDup_remove_first|]; apply Hnd.
    + intros k' w. fold (bk (l_rm_fwd k old (l_fwd l)) v). rewrite bk_insert_app.
      destruct (decide (w = v)) as [->|Hwv].
      * rewrite bk_rm_fwd. destruct (decide (v = old)); [congruence|].
        rewrite elem_of_app, elem_of_list_singleton, Hiff.
        destruct (decide (k' = k)) as [->|Hkk].
        -- rewrite lookup_insert. naive_solver.
        -- rewrite lookup_insert_ne by done. naive_solver.
      * rewrite bk_rm_fwd. destruct (decide (w = old)) as [->|Hwo].
        -- rewrite elem_of_remove_first by apply Hnd. rewrite Hiff.
           destruct (decide (k' = k)) as [->|Hkk].
           ++ rewrite lookup_insert. naive_solver.
           ++ rewrite lookup_insert_ne by done. naive_solver.
        -- rewrite Hiff. destruct (decide (k' = k)) as [->|Hkk].
           ++ rewrite lookup_insert, E. naive_solver.
           ++ rewrite lookup_insert_ne by done. done.
    + intros w. fold (bk (l_rm_fwd k old (l_fwd l)) v).
      destruct (decide (w = v)) as [->|Hwv].
      * rewrite lookup_insert. intros [=H]. by apply app_eq_nil in H as [_ ?].
      * rewrite lookup_insert_ne by done. by apply rm_fwd_no_empty.
  - assert (Hk : forall w, k ∉ bk (l_fwd l) w).
    { intros w. rewrite Hiff, E. done. }
    split; simpl.
    + intros w. fold (bk (l_fwd l) v). rewrite bk_insert_app.
      destruct (decide (w = v)) as [->|Hwv]; [|apply Hnd].
      apply NoDup_app. split; [apply Hnd|]. split; [|apply NoDup_singleton].
      intros x Hx Hx'. apply elem_of_list_singleton in Hx' as ->. by apply Hk in Hx.
    + intros k' w. fold (bk (l_fwd l) v). rewrite bk_insert_app.
      destruct (decide (w = v)) as [->|Hwv].
      * rewrite elem_of_app, elem_of_list_singleton, Hiff.
        destruct (decide (k' = k)) as [->|Hkk].
        -- rewrite lookup_insert. naive_solver.
        -- rewrite lookup_insert_ne by done. naive_solver.
      * rewrite Hiff. destruct (decide (k' = k)) as [->|Hkk].
        -- rewrite lookup_insert, E. naive_solver.
        -- rewrite lookup_insert_ne by done. done.
    + intros w. fold (bk (l_fwd l) v).
      destruct (decide (w = v)) as [->|Hwv].
      * rewrite lookup_insert. intros [=H]. by apply app_eq_nil in H as [_ ?].
      * rewrite lookup_insert_ne by done. apply Hne.
Qed.

Lemma l_del_wf k l : l_wf l -> l_wf (l_del k l).
Proof.
  intros [Hnd Hiff Hne]. unfold l_del.
  destruct (l_rev l !! k) as [old|] eqn:E; [|by split].
  split; simpl.
  - intros w. rewrite bk_rm_fwd. destruct (decide (w = old)); [apply NoDup_remove_first|]; apply Hnd.
  - intros k' w. rewrite bk_rm_fwd. destruct (decide (w = old)) as [->|Hwo].
    + rewrite elem_of_remove_first by apply Hnd. rewrite Hiff.
      destruct (decide (k' = k)) as [->|Hkk].
      * rewrite lookup_delete. naive_solver.
      * rewrite lookup_delete_ne by done. naive_solver.
    + rewrite Hiff. destruct (decide (k' = k)) as [->|Hkk].
      * rewrite lookup_delete, E. naive_solver.
      * rewrite lookup_delete_ne by done. done.
  - by apply rm_fwd_no_empty.
Qed.

(* getLocked answers exactly the keys the reverse map sends to v, without duplicates *)
Lemma l_get1_spec l v k : l_wf l -> k ∈ l_get1 v l <-> l_rev l !! k = Some v.
Proof. intros H. apply (lwf_iff _ H). Qed.
Lemma l_get1_nodup l v : l_wf l -> NoDup (l_get1 v l).
Proof. intros H. apply (lwf_nodup _ H). Qed.

(* any sequence of committed-state mutations *)
Inductive imut := IPut (k : N) (v : Z) | IDel (k : N).
Definition l_apply (l : lidx) (m : imut) : lidx :=
  match m with IPut k v => l_put k v l | IDel k => l_del k l end.
Definition rev_apply (r : gmap N Z) (m : imut) : gmap N Z :=
  match m with IPut k v => <[k := v]> r | IDel k => delete k r end.

Lemma l_history_wf ms : forall l, l_wf l -> l_wf (fold_left l_apply ms l).
Proof.
  induction ms as [|m ms IH]; simpl; intros l H; [done|].
  apply IH. destruct m; simpl; [by apply l_put_wf|by apply l_del_wf].
Qed.
Lemma l_history_rev ms : forall l, l_rev (fold_left l_apply ms l) = fold_left rev_apply ms (l_rev l).
Proof.
  induction ms as [|m ms IH]; simpl; intros l; [done|].
  rewrite IH. f_equal. destruct m; simpl; [apply l_rev_put|apply l_rev_del].
Qed.
