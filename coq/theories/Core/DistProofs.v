(* Core/DistProofs.v — the routed cluster refines the single store (C07). *)
From stdpp Require Import gmap.
From Coq Require Import NArith Lia.
From Synnax Require Import Generated.Consts_C15 Core.Channel Core.Dist.
Local Open Scope N_scope.
Notation length := List.length.

(* ---- the frame splitters partition the frame: nothing lost, nothing duplicated, order kept *)
Definition at_node (n : N) (e : N * series) : bool := lease_of e.1 =? n.
Definition is_remote (host : N) (e : N * series) : bool :=
  negb (lease_of e.1 =? host) && negb (is_free_key e.1).
Definition sel (p : N * series -> bool) (f : frame) : frame := filter (fun e => p e = true) f.

Lemma sel_app p f g : sel p (f ++ g) = sel p f ++ sel p g.
Proof. unfold sel. apply filter_app. Qed.
Lemma sel_cons p e f : sel p (e :: f) = if p e then e :: sel p f else sel p f.
Proof. unfold sel. rewrite filter_cons. destruct (p e); simpl.
  - destruct (decide (true = true)); [reflexivity|congruence].
  - destruct (decide (false = true)); [congruence|reflexivity]. Qed.
Lemma sel_nil p : sel p [] = [].
Proof. reflexivity. Qed.

Lemma split_by_host_spec host f :
  split_by_host host f =
  (sel (at_node host) f, sel (is_remote host) f, sel (fun e => negb (at_node host e) && is_free_key e.1) f).
Proof.
  unfold split_by_host.
  assert (G : forall f l r fr,
    foldl (fun '(l, r, fr) e =>
             if lease_of e.1 =? host then (l ++ [e], r, fr)
             else if is_free_key e.1 then (l, r, fr ++ [e]) else (l, r ++ [e], fr)) (l, r, fr) f =
    (l ++ sel (at_node host) f, r ++ sel (is_remote host) f,
     fr ++ sel (fun e => negb (at_node host e) && is_free_key e.1) f)).
  { clear f. induction f as [|e f IH]; intros l r fr; cbn [foldl].
    - rewrite !sel_nil, !app_nil_r. reflexivity.
    - rewrite !sel_cons. unfold at_node, is_remote.
      destruct (lease_of e.1 =? host) eqn:Eh; cbn [negb andb].
      + rewrite IH, <- app_assoc. reflexivity.
      + destruct (is_free_key e.1) eqn:Ef; cbn [negb andb]; rewrite IH, <- app_assoc; reflexivity. }
  rewrite G. reflexivity.
Qed.

Lemma split_by_leaseholder_spec f n :
  default [] (split_by_leaseholder f !! n) = sel (at_node n) f.
Proof.
  unfold split_by_leaseholder.
  assert (G : forall f (m : gmap N frame),
    default [] (foldl (fun m e => <[lease_of e.1 := default [] (m !! lease_of e.1) ++ [e]]> m) m f !! n) =
    default [] (m !! n) ++ sel (at_node n) f).
  { clear f. induction f as [|e f IH]; intros m; cbn [foldl].
    - rewrite sel_nil, app_nil_r. reflexivity.
    - rewrite IH, sel_cons. unfold at_node at 2. destruct (lease_of e.1 =? n) eqn:En.
      + apply N.eqb_eq in En. rewrite En, lookup_insert. simpl. rewrite <- app_assoc. reflexivity.
      + apply N.eqb_neq in En. rewrite lookup_insert_ne by congruence. reflexivity. }
  rewrite G, lookup_empty. reflexivity.
Qed.

Lemma split_by_leaseholder_only f n e :
  e ∈ default [] (split_by_leaseholder f !! n) -> lease_of e.1 = n.
Proof.
  rewrite split_by_leaseholder_spec. unfold sel. rewrite elem_of_list_filter.
  unfold at_node. intros [H _]. apply N.eqb_eq, H.
Qed.

(* ---- routing of one validated write request *)
Lemma memb_true k l : memb k l = true <-> k ∈ l.
Proof.
  unfold memb. rewrite existsb_exists. split.
  - intros (x & Hin & He). apply N.eqb_eq in He. subst. apply elem_of_list_In, Hin.
  - intros H. exists k. split; [apply elem_of_list_In, H|apply N.eqb_refl].
Qed.

Lemma sel_sel p q f : sel p (sel q f) = sel (fun e => p e && q e) f.
Proof.
  induction f as [|e f IH]; [reflexivity|].
  rewrite !sel_cons. destruct (q e) eqn:Eq; rewrite ?sel_cons; destruct (p e); simpl; rewrite ?IH; reflexivity.
Qed.
Lemma sel_ext p q f : (forall e, e ∈ f -> p e = q e) -> sel p f = sel q f.
Proof.
  induction f as [|e f IH]; intros H; [reflexivity|].
  rewrite !sel_cons, (H e) by left. rewrite IH; [reflexivity|]. intros x Hx. apply H. right. exact Hx.
Qed.
Lemma sel_none p f : (forall e, e ∈ f -> p e = false) -> sel p f = [].
Proof.
  induction f as [|e f IH]; intros H; [reflexivity|].
  rewrite sel_cons, (H e) by left. apply IH. intros x Hx. apply H. right. exact Hx.
Qed.

(* every leaseholder other than "free" receives exactly its own entries, in frame order *)
Lemma route_spec gw keys f n :
  forallb (fun e => memb e.1 keys) f = true -> n <> node_free ->
  default [] (route gw keys f !! n) = sel (at_node n) f.
Proof.
  intros Hval Hnf. unfold route. rewrite split_by_host_spec.
  assert (Hin : forall e, e ∈ f -> e.1 ∈ keys).
  { intros e He. rewrite forallb_forall in Hval. apply memb_true, Hval, elem_of_list_In, He. }
  set (peers := if has_peer gw keys then split_by_leaseholder (sel (is_remote gw) f) else ∅).
  assert (Hpeers : n <> gw -> default [] (peers !! n) = sel (at_node n) f).
  { intros Hne. unfold peers. destruct (has_peer gw keys) eqn:Hp.
    - rewrite split_by_leaseholder_spec, sel_sel. apply sel_ext. intros e He.
      unfold at_node, is_remote, is_free_key. destruct (lease_of e.1 =? n) eqn:En; [|reflexivity].
      apply N.eqb_eq in En. rewrite En. simpl.
      destruct (n =? gw) eqn:E1; [apply N.eqb_eq in E1; congruence|].
      destruct (n =? node_free) eqn:E2; [apply N.eqb_eq in E2; congruence|]. reflexivity.
    - rewrite lookup_empty. simpl. symmetry. apply sel_none. intros e He.
      unfold at_node. destruct (lease_of e.1 =? n) eqn:En; [|reflexivity]. exfalso.
      apply N.eqb_eq in En. unfold has_peer in Hp.
      assert (existsb (fun k => negb (lease_of k =? gw) && negb (is_free_key k)) keys = true); [|congruence].
      apply existsb_exists. exists e.1. split; [apply elem_of_list_In, Hin, He|].
      unfold is_free_key. rewrite En.
      destruct (n =? gw) eqn:E1; [apply N.eqb_eq in E1; congruence|].
      destruct (n =? node_free) eqn:E2; [apply N.eqb_eq in E2; congruence|]. reflexivity. }
  destruct (has_gateway gw keys) eqn:Hg.
  - destruct (decide (n = gw)) as [->|Hne].
    + rewrite lookup_insert. reflexivity.
    + rewrite lookup_insert_ne by congruence. apply Hpeers, Hne.
  - destruct (decide (n = gw)) as [->|Hne]; [|apply Hpeers, Hne].
    (* no key of the writer is leased to the gateway: the frame has no such entry either *)
    assert (Hnone : sel (at_node gw) f = []).
    { apply sel_none. intros e He. unfold at_node. destruct (lease_of e.1 =? gw) eqn:En; [|reflexivity]. exfalso.
      unfold has_gateway in Hg.
      assert (existsb (fun k => lease_of k =? gw) keys = true); [|congruence].
      apply existsb_exists. exists e.1. split; [apply elem_of_list_In, Hin, He|exact En]. }
    rewrite Hnone. unfold peers. destruct (has_peer gw keys).
    + rewrite split_by_leaseholder_spec, sel_sel. apply sel_none. intros e He.
      unfold at_node, is_remote. destruct (lease_of e.1 =? gw); reflexivity.
    + rewrite lookup_empty. reflexivity.
Qed.

(* nothing is routed to a node that is not the entry's leaseholder *)
Lemma route_only gw keys f n e : e ∈ default [] (route gw keys f !! n) -> lease_of e.1 = n.
Proof.
  unfold route. rewrite split_by_host_spec.
  set (peers := if has_peer gw keys then split_by_leaseholder (sel (is_remote gw) f) else ∅).
  assert (Hp : e ∈ default [] (peers !! n) -> lease_of e.1 = n).
  { unfold peers. destruct (has_peer gw keys); [apply split_by_leaseholder_only|].
    rewrite lookup_empty. simpl. intros H. inversion H. }
  destruct (has_gateway gw keys); [|exact Hp].
  destruct (decide (n = gw)) as [->|Hne].
  - rewrite lookup_insert. simpl. unfold sel. rewrite elem_of_list_filter. unfold at_node.
    intros [H _]. apply N.eqb_eq, H.
  - rewrite lookup_insert_ne by congruence. exact Hp.
Qed.

(* ---- committing *)
Definition key_is (k : N) (e : N * series) : bool := e.1 =? k.
Definition samples_of (k : N) (f : frame) : series := flat_map snd (sel (key_is k) f).

Lemma samples_of_app k f g : samples_of k (f ++ g) = samples_of k f ++ samples_of k g.
Proof. unfold samples_of. rewrite sel_app, flat_map_app. reflexivity. Qed.

Lemma commit_node_spec : forall (buf : frame) (st : gmap N series) k,
  default [] (commit_node st buf !! k) = default [] (st !! k) ++ samples_of k buf.
Proof.
  unfold commit_node. induction buf as [|e buf IH]; intros st k; cbn [foldl].
  - unfold samples_of. rewrite sel_nil. simpl. rewrite app_nil_r. reflexivity.
  - rewrite IH. unfold samples_of at 2. rewrite sel_cons. unfold key_is at 1.
    destruct (e.1 =? k) eqn:Ek.
    + apply N.eqb_eq in Ek. subst k. rewrite lookup_insert. simpl. fold (samples_of e.1 buf).
      rewrite <- app_assoc. reflexivity.
    + apply N.eqb_neq in Ek. rewrite lookup_insert_ne by congruence. reflexivity.
Qed.
Lemma commit_node_dom : forall (buf : frame) (st : gmap N series) k,
  is_Some (commit_node st buf !! k) -> is_Some (st !! k) \/ exists e, e ∈ buf /\ e.1 = k.
Proof.
  unfold commit_node. induction buf as [|e buf IH]; intros st k; cbn [foldl]; [auto|].
  intros H. destruct (IH _ _ H) as [H1|(x & Hx & Hk)].
  - destruct (decide (e.1 = k)) as [<-|Hne]; [right; exists e; split; [left|reflexivity]|].
    rewrite lookup_insert_ne in H1 by congruence. auto.
  - right. exists x. split; [right; exact Hx|exact Hk].
Qed.

Lemma commit_all_lookup store buf n :
  default ∅ (commit_all store buf !! n) =
  match buf !! n with
  | Some b => commit_node (default ∅ (store !! n)) b
  | None => default ∅ (store !! n)
  end.
Proof.
  unfold commit_all. rewrite lookup_merge. destruct (store !! n), (buf !! n); reflexivity.
Qed.

Lemma samples_of_sel_node k n f :
  lease_of k = n -> samples_of k (sel (at_node n) f) = samples_of k f.
Proof.
  intros Hl. unfold samples_of. rewrite sel_sel. f_equal. apply sel_ext. intros e He.
  unfold key_is, at_node. destruct (e.1 =? k) eqn:Ek; [|reflexivity].
  apply N.eqb_eq in Ek. rewrite Ek, Hl, N.eqb_refl. reflexivity.
Qed.
Lemma samples_of_keep_leased k f : is_free_key k = false -> samples_of k (keep_leased f) = samples_of k f.
Proof.
  intros Hf. unfold samples_of, keep_leased.
  change (filter (fun e : N * series => negb (is_free_key e.1)) f) with
         (filter (fun e : N * series => Is_true (negb (is_free_key e.1))) f).
  assert (G : filter (fun e : N * series => Is_true (negb (is_free_key e.1))) f =
              sel (fun e => negb (is_free_key e.1)) f).
  { induction f as [|e f IH]; [reflexivity|]. rewrite sel_cons, filter_cons.
    destruct (negb (is_free_key e.1)); simpl.
    - destruct (decide True); [|tauto]. rewrite IH. reflexivity.
    - destruct (decide False); [tauto|]. exact IH. }
  rewrite G, sel_sel. f_equal. apply sel_ext. intros e He. unfold key_is.
  destruct (e.1 =? k) eqn:Ek; [|reflexivity]. apply N.eqb_eq in Ek. rewrite Ek, Hf. reflexivity.
Qed.

(* ---- the refinement relation between the routed cluster and the single store *)
Definition buf_of (w : writer) (n : N) : frame := default [] (w_buf w !! n).

Record wrel (w : writer) (sw : swriter) : Prop := {
  wr_keys : w_keys w = sw_keys sw;
  wr_auto : w_auto w = sw_auto sw;
  (* what leaseholder n has buffered for key k (leased to n) = what the single writer buffered *)
  wr_buf : forall k, is_free_key k = false ->
           samples_of k (buf_of w (lease_of k)) = samples_of k (sw_buf sw);
  (* a leaseholder only buffers its own channels *)
  wr_own : forall n e, e ∈ buf_of w n -> lease_of e.1 = n
}.

Record crel (c : cluster) (s : single) : Prop := {
  cr_chans : cl_chans c = sg_chans s;
  cr_read : forall k, is_free_key k = false -> cluster_read c k = single_read s k;
  cr_own : forall n k, is_Some (default ∅ (cl_store c !! n) !! k) -> lease_of k = n;
  cr_writers : forall id, match cl_writers c !! id, sg_writers s !! id with
                          | Some w, Some sw => wrel w sw
                          | None, None => True
                          | _, _ => False
                          end
}.

Lemma crel_init chans : crel (Cluster chans ∅ ∅) (Single chans ∅ ∅).
Proof.
  constructor; simpl; try reflexivity.
  - intros n k [x H]. rewrite lookup_empty in H. simpl in H. rewrite lookup_empty in H. discriminate.
  - intros id. rewrite !lookup_empty. exact I.
Qed.

Lemma buf_append_lookup buf parts n :
  default [] (buf_append buf parts !! n) = default [] (buf !! n) ++ default [] (parts !! n).
Proof.
  unfold buf_append. rewrite lookup_union_with.
  destruct (buf !! n), (parts !! n); simpl; rewrite ?app_nil_r; reflexivity.
Qed.

(* committing related buffers keeps the stores related *)
Lemma commit_related c s (buf : gmap N frame) (sbuf : frame) :
  (forall k, is_free_key k = false -> cluster_read c k = single_read s k) ->
  (forall n k, is_Some (default ∅ (cl_store c !! n) !! k) -> lease_of k = n) ->
  (forall k, is_free_key k = false -> samples_of k (default [] (buf !! lease_of k)) = samples_of k sbuf) ->
  (forall n e, e ∈ default [] (buf !! n) -> lease_of e.1 = n) ->
  (forall k, is_free_key k = false ->
     default [] (default ∅ (commit_all (cl_store c) buf !! lease_of k) !! k) =
     default [] (commit_node (sg_store s) sbuf !! k)) /\
  (forall n k, is_Some (default ∅ (commit_all (cl_store c) buf !! n) !! k) -> lease_of k = n).
Proof.
  intros Hread Hown Hbuf Hbown. split.
  - intros k Hk. rewrite commit_all_lookup, commit_node_spec.
    specialize (Hread k Hk). unfold cluster_read, single_read in Hread.
    specialize (Hbuf k Hk). destruct (buf !! lease_of k) as [b|] eqn:Eb; simpl in Hbuf.
    + rewrite commit_node_spec, Hread, Hbuf. reflexivity.
    + rewrite Hread, <- Hbuf. unfold samples_of. rewrite sel_nil. simpl. rewrite app_nil_r. reflexivity.
  - intros n k H. rewrite commit_all_lookup in H. destruct (buf !! n) as [b|] eqn:Eb; [|apply Hown, H].
    destruct (commit_node_dom _ _ _ H) as [H1|(e & He & <-)]; [apply Hown, H1|].
    apply Hbown. rewrite Eb. exact He.
Qed.

Lemma memb_forall_eq (l1 l2 : list N) (keys : list N) : l1 = l2 ->
  forallb (fun k => memb k l1) keys = forallb (fun k => memb k l2) keys.
Proof. intros ->. reflexivity. Qed.

Theorem dstep_refines c s o :
  crel c s -> (dstep c o).2 = (sstep s o).2 /\ crel (dstep c o).1 (sstep s o).1.
Proof.
  intros R. destruct R as [Hch Hread Hown Hwr].
  destruct o as [id gw keys auto|id f|id|id]; cbn [dstep sstep].
  - (* open *)
    destruct keys as [|k0 keys']; [split; [reflexivity|constructor; assumption]|].
    rewrite Hch. destruct (forallb _ (k0 :: keys')); cbn [fst snd]; [|split; [reflexivity|constructor; assumption]].
    split; [reflexivity|]. constructor; cbn [cl_chans sg_chans cl_store sg_store cl_writers sg_writers]; try assumption.
    intros id'. destruct (decide (id' = id)) as [->|Hne].
    + rewrite !lookup_insert. constructor; cbn; try reflexivity.
      * intros k _. unfold buf_of. cbn. rewrite lookup_empty. reflexivity.
      * intros n e He. unfold buf_of in He. cbn in He. rewrite lookup_empty in He. inversion He.
    + rewrite !lookup_insert_ne by congruence. apply Hwr.
  - (* write *)
    pose proof (Hwr id) as Hw.
    destruct (cl_writers c !! id) as [w|] eqn:Ew, (sg_writers s !! id) as [sw|] eqn:Es; try contradiction;
      [|split; [reflexivity|constructor; assumption]].
    destruct Hw as [Hk Ha Hb Ho]. rewrite <- Hk.
    destruct (forallb (fun e => memb e.1 (w_keys w)) f) eqn:Hval.
    + set (buf := buf_append (w_buf w) (route (w_gw w) (w_keys w) f)).
      assert (Hbuf : forall k, is_free_key k = false ->
                samples_of k (default [] (buf !! lease_of k)) = samples_of k (sw_buf sw ++ keep_leased f)).
      { intros k Hkf. unfold buf. rewrite buf_append_lookup, !samples_of_app.
        fold (buf_of w (lease_of k)). rewrite (Hb k Hkf). f_equal.
        rewrite route_spec; [|exact Hval|].
        - rewrite samples_of_sel_node by reflexivity. rewrite samples_of_keep_leased by exact Hkf. reflexivity.
        - unfold is_free_key in Hkf. apply N.eqb_neq in Hkf. exact Hkf. }
      assert (Hbown : forall n e, e ∈ default [] (buf !! n) -> lease_of e.1 = n).
      { intros n e He. unfold buf in He. rewrite buf_append_lookup in He.
        apply elem_of_app in He as [He|He]; [apply (Ho n e He)|eapply route_only; exact He]. }
      rewrite <- Ha. destruct (w_auto w); cbn [fst snd].
      * split; [reflexivity|].
        destruct (commit_related c s buf (sw_buf sw ++ keep_leased f) Hread Hown Hbuf Hbown) as [C1 C2].
        constructor; cbn [cl_chans sg_chans cl_store sg_store cl_writers sg_writers]; try assumption.
        -- intros k Hkf. unfold cluster_read, single_read. cbn. apply C1, Hkf.
        -- intros id'. destruct (decide (id' = id)) as [->|Hne].
           ++ rewrite !lookup_insert. constructor; cbn; try reflexivity; try assumption.
              ** intros k _. unfold buf_of. cbn. rewrite lookup_empty. reflexivity.
              ** intros n e He. unfold buf_of in He. cbn in He. rewrite lookup_empty in He. inversion He.
           ++ rewrite !lookup_insert_ne by congruence. apply Hwr.
      * split; [reflexivity|].
        constructor; cbn [cl_chans sg_chans cl_store sg_store cl_writers sg_writers]; try assumption.
        intros id'. destruct (decide (id' = id)) as [->|Hne].
        -- rewrite !lookup_insert. constructor; cbn; try reflexivity; try assumption.
        -- rewrite !lookup_insert_ne by congruence. apply Hwr.
    + cbn [fst snd]. split; [reflexivity|].
      constructor; cbn [cl_chans sg_chans cl_store sg_store cl_writers sg_writers]; try assumption.
      intros id'. destruct (decide (id' = id)) as [->|Hne].
      * rewrite !lookup_delete. exact I.
      * rewrite !lookup_delete_ne by congruence. apply Hwr.
  - (* commit *)
    pose proof (Hwr id) as Hw.
    destruct (cl_writers c !! id) as [w|] eqn:Ew, (sg_writers s !! id) as [sw|] eqn:Es; try contradiction;
      [|split; [reflexivity|constructor; assumption]].
    destruct Hw as [Hk Ha Hb Ho]. cbn [fst snd]. split; [reflexivity|].
    destruct (commit_related c s (w_buf w) (sw_buf sw) Hread Hown Hb Ho) as [C1 C2].
    constructor; cbn [cl_chans sg_chans cl_store sg_store cl_writers sg_writers]; try assumption.
    + intros k Hkf. unfold cluster_read, single_read. cbn. apply C1, Hkf.
    + intros id'. destruct (decide (id' = id)) as [->|Hne].
      * rewrite !lookup_insert. constructor; cbn; try reflexivity; try assumption.
        -- intros k _. unfold buf_of. cbn. rewrite lookup_empty. reflexivity.
        -- intros n e He. unfold buf_of in He. cbn in He. rewrite lookup_empty in He. inversion He.
      * rewrite !lookup_insert_ne by congruence. apply Hwr.
  - (* close *)
    pose proof (Hwr id) as Hw.
    destruct (cl_writers c !! id) as [w|] eqn:Ew, (sg_writers s !! id) as [sw|] eqn:Es; try contradiction;
      [|split; [reflexivity|constructor; assumption]].
    cbn [fst snd]. split; [reflexivity|].
    constructor; cbn [cl_chans sg_chans cl_store sg_store cl_writers sg_writers]; try assumption.
    intros id'. destruct (decide (id' = id)) as [->|Hne].
    + rewrite !lookup_delete. exact I.
    + rewrite !lookup_delete_ne by congruence. apply Hwr.
Qed.

Fixpoint dresults (c : cluster) (ops : list dop) : list dres :=
  match ops with [] => [] | o :: r => (dstep c o).2 :: dresults (dstep c o).1 r end.
Fixpoint sresults (s : single) (ops : list dop) : list dres :=
  match ops with [] => [] | o :: r => (sstep s o).2 :: sresults (sstep s o).1 r end.

Lemma drun_refines : forall ops c s, crel c s ->
  crel (drun c ops) (srun s ops) /\ dresults c ops = sresults s ops.
Proof.
  induction ops as [|o ops IH]; intros c s R; cbn [drun srun dresults sresults]; [auto|].
  destruct (dstep_refines c s o R) as [E R']. destruct (IH _ _ R') as [R'' E'].
  split; [exact R''|]. rewrite E, E'. reflexivity.
Qed.

(* location transparency: any placement (the leaseholder is part of each key), any gateway per
   writer (an argument of OpenW), any script *)
Theorem location_transparent chans ops :
  let c := drun (Cluster chans ∅ ∅) ops in
  let s := srun (Single chans ∅ ∅) ops in
  (forall k, is_free_key k = false -> cluster_read c k = single_read s k) /\
  (forall n k, n <> lease_of k -> stray c n k = []) /\
  dresults (Cluster chans ∅ ∅) ops = sresults (Single chans ∅ ∅) ops.
Proof.
  intros c s. destruct (drun_refines ops _ _ (crel_init chans)) as [R E]. fold c s in R.
  split; [apply (cr_read _ _ R)|]. split; [|exact E].
  intros n k Hne. unfold stray. destruct (default ∅ (cl_store c !! n) !! k) as [x|] eqn:Ex; [|reflexivity].
  exfalso. apply Hne. symmetry. apply (cr_own _ _ R n k). rewrite Ex. eauto.
Qed.
