(* Core/DistProofs.v — the routed cluster refines the single store (C07). *)
From stdpp Require Import gmap.
From Coq Require Import NArith Lia.
From Synnax Require Import Generated.Consts_C15 Core.Channel Core.Dist.
Local Open Scope N_scope.
Notation length := List.length.

(* ---- the frame splitters partition the frame: nothing lost, nothing duplicated, order kept *)
Definition at_node (n : N) (e : N * series) : bool := lease_of e.1 =? n.
Definition is_remote (host : N) (e : N * series) : bool :=
  negb (lease_of e.1 =? host) && negb (is_free_key e.1).
Definition sel (p : N * series -> bool) (f : frame) : frame := filter (fun e => p e = true) f.

Lemma sel_app p f g : sel p (f ++ g) = sel p f ++ sel p g.
Proof. unfold sel. apply filter_app. Qed.
Lemma sel_cons p e f : sel p (e :: f) = if p e then e :: sel p f else sel p f.
Proof. unfold sel. rewrite filter_cons. destruct (p e); simpl.
  - destruct (decide (true = true)); [reflexivity|congruence].
  - destruct (decide (false = true)); [congruence|reflexivity]. Qed.
Lemma sel_nil p : sel p [] = [].
Proof. reflexivity. Qed.

Lemma split_by_host_spec host f :
  split_by_host host f =
  (sel (at_node host) f, sel (is_remote host) f, sel (fun e => negb (at_node host e) && is_free_key e.1) f).
Proof.
  unfold split_by_host.
  assert (G : forall f l r fr,
    foldl (fun '(l, r, fr) e =>
             if lease_of e.1 =? host then (l ++ [e], r, fr)
             else if is_free_key e.1 then (l, r, fr ++ [e]) else (l, r ++ [e], fr)) (l, r, fr) f =
    (l ++ sel (at_node host) f, r ++ sel (is_remote host) f,
     fr ++ sel (fun e => negb (at_node host e) && is_free_key e.1) f)).
  { clear f. induction f as [|e f IH]; intros l r fr; cbn [foldl].
    - rewrite !sel_nil, !app_nil_r. reflexivity.
    - rewrite !sel_cons. unfold at_node, is_remote.
      destruct (lease_of e.1 =? host) eqn:Eh; cbn [negb andb].
      + rewrite IH, <- app_assoc. reflexivity.
      + destruct (is_free_key e.1) eqn:Ef; cbn [negb andb]; rewrite IH, <- app_assoc; reflexivity. }
  rewrite G. reflexivity.
Qed.

Lemma split_by_leaseholder_spec f n :
  default [] (split_by_leaseholder f !! n) = sel (at_node n) f.
Proof.
  unfold split_by_leaseholder.
  assert (G : forall f (m : gmap N frame),
    default [] (foldl (fun m e => <[lease_of e.1 := default [] (m !! lease_of e.1) ++ [e]]> m) m f !! n) =
    default [] (m !! n) ++ sel (at_node n) f).
  { clear f. induction f as [|e f IH]; intros m; cbn [foldl].
    - rewrite sel_nil, app_nil_r. reflexivity.
    - rewrite IH, sel_cons. unfold at_node at 2. destruct (lease_of e.1 =? n) eqn:En.
      + apply N.eqb_eq in En. rewrite En, lookup_insert. simpl. rewrite <- app_assoc. reflexivity.
      + apply N.eqb_neq in En. rewrite lookup_insert_ne by congruence. reflexivity. }
  rewrite G, lookup_empty. reflexivity.
Qed.

Lemma split_by_leaseholder_only f n e :
  e ∈ default [] (split_by_leaseholder f !! n) -> lease_of e.1 = n.
Proof.
  rewrite split_by_leaseholder_spec. unfold sel. rewrite elem_of_list_filter.
  unfold at_node. intros [H _]. apply N.eqb_eq, H.
Qed.

(* ---- routing of one validated write request *)
Lemma memb_true k l : memb k l = true <-> k ∈ l.
Proof.
  unfold memb. rewrite existsb_exists. split.
  - intros (x & Hin & He). apply N.eqb_eq in He. subst. apply elem_of_list_In, Hin.
  - intros H. exists k. split; [apply elem_of_list_In, H|apply N.eqb_refl].
Qed.

Lemma sel_sel p q f : sel p (sel q f) = sel (fun e => p e && q e) f.
Proof.
  induction f as [|e f IH]; [reflexivity|].
  rewrite !sel_cons. destruct (q e) eqn:Eq; rewrite ?sel_cons; destruct (p e); simpl; rewrite ?IH; reflexivity.
Qed.
Lemma sel_ext p q f : (forall e, e ∈ f -> p e = q e) -> sel p f = sel q f.
Proof.
  induction f as [|e f IH]; intros H; [reflexivity|].
  rewrite !sel_cons, (H e) by left. rewrite IH; [reflexivity|]. intros x Hx. apply H. right. exact Hx.
Qed.
Lemma sel_none p f : (forall e, e ∈ f -> p e = false) -> sel p f = [].
Proof.
  induction f as [|e f IH]; intros H; [reflexivity|].
  rewrite sel_cons, (H e) by left. apply IH. intros x Hx. apply H. right. exact Hx.
Qed.

(* every leaseholder other than "free" receives exactly its own entries, in frame order *)
Lemma route_spec gw keys f n :
  forallb (fun e => memb e.1 keys) f = true -> n <> node_free ->
  default [] (route gw keys f !! n) = sel (at_node n) f.
Proof.
  intros Hval Hnf. unfold route. rewrite split_by_host_spec.
  assert (Hin : forall e, e ∈ f -> e.1 ∈ keys).
  { intros e He. rewrite forallb_forall in Hval. apply memb_true, Hval, elem_of_list_In, He. }
  set (peers := if has_peer gw keys then split_by_leaseholder (sel (is_remote gw) f) else ∅).
  assert (Hpeers : n <> gw -> default [] (peers !! n) = sel (at_node n) f).
  { intros Hne. unfold peers. destruct (has_peer gw keys) eqn:Hp.
    - rewrite split_by_leaseholder_spec, sel_sel. apply sel_ext. intros e He.
      unfold at_node, is_remote, is_free_key. destruct (lease_of e.1 =? n) eqn:En; [|reflexivity].
      apply N.eqb_eq in En. rewrite En. simpl.
      destruct (n =? gw) eqn:E1; [apply N.eqb_eq in E1; congruence|].
      destruct (n =? node_free) eqn:E2; [apply N.eqb_eq in E2; congruence|]. reflexivity.
    - rewrite lookup_empty. simpl. symmetry. apply sel_none. intros e He.
      unfold at_node. destruct (lease_of e.1 =? n) eqn:En; [|reflexivity]. exfalso.
      apply N.eqb_eq in En. unfold has_peer in Hp.
      assert (existsb (fun k => negb (lease_of k =? gw) && negb (is_free_key k)) keys = true); [|congruence].
      apply existsb_exists. exists e.1. split; [apply elem_of_list_In, Hin, He|].
      unfold is_free_key. rewrite En.
      destruct (n =? gw) eqn:E1; [apply N.eqb_eq in E1; congruence|].
      destruct (n =? node_free) eqn:E2; [apply N.eqb_eq in E2; congruence|]. reflexivity. }
  destruct (has_gateway gw keys) eqn:Hg.
  - destruct (decide (n = gw)) as [->|Hne].
    + rewrite lookup_insert. reflexivity.
    + rewrite lookup_insert_ne by congruence. apply Hpeers, Hne.
  - destruct (decide (n = gw)) as [->|Hne]; [|apply Hpeers, Hne].
    (* no key of the writer is leased to the gateway: the frame has no such entry either *)
    assert (Hnone : sel (at_node gw) f = []).
    { apply sel_none. intros e He. unfold at_node. destruct (lease_of e.1 =? gw) eqn:En; [|reflexivity]. exfalso.
      unfold has_gateway in Hg.
      assert (existsb (fun k => lease_of k =? gw) keys = true); [|congruence].
      apply existsb_exists. exists e.1. split; [apply elem_of_list_In, Hin, He|exact En]. }
    rewrite Hnone. unfold peers. destruct (has_peer gw keys).
    + rewrite split_by_leaseholder_spec, sel_sel. apply sel_none. intros e He.
      unfold at_node, is_remote. destruct (lease_of e.1 =? gw); reflexivity.
    + rewrite lookup_empty. reflexivity.
Qed.

(* nothing is routed to a node that is not the entry's leaseholder *)
Lemma route_only gw keys f n e : e ∈ default [] (route gw keys f !! n) -> lease_of e.1 = n.
Proof.
  unfold route. rewrite split_by_host_spec.
  set (peers := if has_peer gw keys then split_by_leaseholder (sel (is_remote gw) f) else ∅).
  assert (Hp : e ∈ default [] (peers !! n) -> lease_of e.1 = n).
  { unfold peers. destruct (has_peer gw keys); [apply split_by_leaseholder_only|].
    rewrite lookup_empty. simpl. intros H. inversion H. }
  destruct (has_gateway gw keys); [|exact Hp].
  destruct (decide (n = gw)) as [->|Hne].
  - rewrite lookup_insert. simpl. unfold sel. rewrite elem_of_list_filter. unfold at_node.
    intros [H _]. apply N.eqb_eq, H.
  - rewrite lookup_insert_ne by congruence. exact Hp.
Qed.

