(* Core/ChannelInv.v — the key/counter invariant of the cluster state and the extension relation
   every operation obeys: counters only grow, rows and engine channels only disappear or are new
   with a local key strictly above the previous counter value of their leaseholder. *)
From stdpp Require Import gmap strings sorting.
From Coq Require Import NArith Lia.
From Synnax Require Import Generated.Consts_C15 Core.Channel Core.ChannelKeys Core.ChannelAssign.
Local Open Scope N_scope.
Notation length := List.length.

Definition ctr_of (s : st) (l : N) : N :=
  if l =? node_free then s_free s else default 0 (s_ctr s !! l).
Definition lease_ok (s : st) (l : N) : Prop := l = node_free \/ is_Some (s_eng s !! l).
Definition fresh_in (s s' : st) (l k : N) : Prop :=
  lease_ok s l /\ ctr_of s l < k /\ k <= ctr_of s' l.
Definition kf (c : chan) : N * N := (c_lease c, c_lkey c).

Record ext (s s' : st) : Prop := {
  ext_ctr : forall l, ctr_of s l <= ctr_of s' l;
  ext_max : (forall l, ctr_of s l <= max_local) -> forall l, ctr_of s' l <= max_local;
  ext_nodes : forall n, is_Some (s_eng s' !! n) <-> is_Some (s_eng s !! n);
  ext_tab : forall k c, s_tab s' !! k = Some c ->
      (exists c0, s_tab s !! k = Some c0 /\ kf c0 = kf c) \/
      (k = chan_key c /\ fresh_in s s' (c_lease c) (c_lkey c));
  ext_eng : forall n k, is_Some (eng_of s' n !! k) ->
      is_Some (eng_of s n !! k) \/
      (is_Some (s_eng s !! n) /\ exists lk, k = new_key n lk /\ fresh_in s s' n lk)
}.

Record Inv (s : st) : Prop := {
  inv_tab : forall k c, s_tab s !! k = Some c ->
      k = chan_key c /\ lease_ok s (c_lease c) /\ 0 < c_lkey c /\ c_lkey c <= ctr_of s (c_lease c);
  inv_eng : forall n k, is_Some (eng_of s n !! k) ->
      is_Some (s_eng s !! n) /\ exists lk, k = new_key n lk /\ 0 < lk /\ lk <= ctr_of s n;
  inv_nodes : forall n, is_Some (s_eng s !! n) -> 0 < n /\ n < node_free;
  inv_ctr : forall l, ctr_of s l <= max_local;
  inv_boot : is_Some (s_eng s !! node_boot)
}.

Lemma ext_refl s : ext s s.
Proof.
  constructor; try tauto; try (intros; lia).
  - intros k c H. left. eauto.
Qed.

Lemma lease_ok_ext s s' l : ext s s' -> lease_ok s l <-> lease_ok s' l.
Proof. intros E. unfold lease_ok. rewrite (ext_nodes _ _ E l). tauto. Qed.

Lemma ext_trans s1 s2 s3 : ext s1 s2 -> ext s2 s3 -> ext s1 s3.
Proof.
  intros A B. constructor.
  - intros l. pose proof (ext_ctr _ _ A l). pose proof (ext_ctr _ _ B l). lia.
  - intros H. apply (ext_max _ _ B), (ext_max _ _ A), H.
  - intros n. rewrite (ext_nodes _ _ B), (ext_nodes _ _ A). tauto.
  - intros k c H. destruct (ext_tab _ _ B k c H) as [(c0 & H0 & Hk)|(Hk & Hl & Hlo & Hhi)].
    + destruct (ext_tab _ _ A k c0 H0) as [(c1 & H1 & Hk1)|(Hk1 & Hl & Hlo & Hhi)].
      * left. exists c1. split; [assumption|congruence].
      * right. unfold kf in Hk. injection Hk as El Ek. unfold chan_key in *. rewrite <- El, <- Ek.
        split; [assumption|]. split; [assumption|]. split; [assumption|].
        pose proof (ext_ctr _ _ B (c_lease c0)). lia.
    + right. split; [assumption|]. split; [apply (lease_ok_ext _ _ _ A); assumption|].
      pose proof (ext_ctr _ _ A (c_lease c)). split; lia.
  - intros n k H. destruct (ext_eng _ _ B n k H) as [H0|(Hn & lk & -> & Hl & Hlo & Hhi)].
    + destruct (ext_eng _ _ A n k H0) as [H1|(Hn & lk & -> & Hl & Hlo & Hhi)]; [left; assumption|].
      right. split; [assumption|]. exists lk. split; [reflexivity|]. split; [assumption|].
      pose proof (ext_ctr _ _ B n). split; lia.
    + right. split; [apply (ext_nodes _ _ A); assumption|]. exists lk. split; [reflexivity|].
      split; [apply (lease_ok_ext _ _ _ A); assumption|]. pose proof (ext_ctr _ _ A n). split; lia.
Qed.

Lemma Inv_ext s s' : Inv s -> ext s s' -> Inv s'.
Proof.
  intros I E. constructor.
  - intros k c H. destruct (ext_tab _ _ E k c H) as [(c0 & H0 & Hk)|(Hk & Hl & Hlo & Hhi)].
    + destruct (inv_tab _ I k c0 H0) as (Hkey & Hl & Hpos & Hle).
      unfold kf in Hk. injection Hk as El Ek. unfold chan_key in *. rewrite <- El, <- Ek.
      split; [assumption|]. split; [apply (lease_ok_ext _ _ _ E); assumption|]. split; [assumption|].
      pose proof (ext_ctr _ _ E (c_lease c0)). lia.
    + split; [assumption|]. split; [apply (lease_ok_ext _ _ _ E); assumption|]. split; lia.
  - intros n k H. destruct (ext_eng _ _ E n k H) as [H0|(Hn & lk & -> & Hl & Hlo & Hhi)].
    + destruct (inv_eng _ I n k H0) as (Hn & lk & -> & Hpos & Hle).
      split; [apply (ext_nodes _ _ E); assumption|]. exists lk. split; [reflexivity|]. split; [assumption|].
      pose proof (ext_ctr _ _ E n). lia.
    + split; [apply (ext_nodes _ _ E); assumption|]. exists lk. split; [reflexivity|]. split; lia.
  - intros n Hn. apply (inv_nodes _ I), (ext_nodes _ _ E), Hn.
  - apply (ext_max _ _ E), (inv_ctr _ I).
  - apply (ext_nodes _ _ E), (inv_boot _ I).
Qed.

(* ---- states that only lose rows / engine channels *)
Definition tab_sub (t' t : table) : Prop :=
  forall k c, t' !! k = Some c -> exists c0, t !! k = Some c0 /\ kf c0 = kf c.
Definition eng_sub (e' e : engine) : Prop := forall k, is_Some (e' !! k) -> is_Some (e !! k).

Lemma tab_sub_refl t : tab_sub t t.
Proof. intros k c H; eauto. Qed.
Lemma tab_sub_trans a b c : tab_sub a b -> tab_sub b c -> tab_sub a c.
Proof. intros A B k x H. destruct (A k x H) as (y & Hy & E1). destruct (B k y Hy) as (z & Hz & E2).
  exists z. split; [assumption|congruence]. Qed.
Lemma tab_delete_sub t keys : tab_sub (tab_delete t keys) t.
Proof.
  induction keys as [|k keys IH]; simpl; [apply tab_sub_refl|].
  intros k' c H. apply lookup_delete_Some in H as [_ H]. apply IH, H.
Qed.

Lemma ext_same s s' :
  s_ctr s' = s_ctr s -> s_free s' = s_free s ->
  (forall n, is_Some (s_eng s' !! n) <-> is_Some (s_eng s !! n)) ->
  tab_sub (s_tab s') (s_tab s) -> (forall n, eng_sub (eng_of s' n) (eng_of s n)) -> ext s s'.
Proof.
  intros Hc Hf Hn Ht He.
  assert (Hctr : forall l, ctr_of s' l = ctr_of s l) by (intros l; unfold ctr_of; rewrite Hc, Hf; reflexivity).
  constructor.
  - intros l. rewrite Hctr. lia.
  - intros H l. rewrite Hctr. apply H.
  - assumption.
  - intros k c H. left. apply Ht, H.
  - intros n k H. left. apply He, H.
Qed.

Lemma eng_of_upd_eng s n e m : eng_of (upd_eng s n e) m = if decide (m = n) then e else eng_of s m.
Proof.
  unfold eng_of, upd_eng. simpl. destruct (decide (m = n)) as [->|Hne].
  - rewrite lookup_insert. reflexivity.
  - rewrite lookup_insert_ne by congruence. reflexivity.
Qed.

Lemma nodes_upd_eng s n e m : is_Some (s_eng s !! n) ->
  is_Some (s_eng (upd_eng s n e) !! m) <-> is_Some (s_eng s !! m).
Proof.
  intros Hn. unfold upd_eng. simpl. destruct (decide (m = n)) as [->|Hne].
  - rewrite lookup_insert. split; eauto.
  - rewrite lookup_insert_ne by congruence. tauto.
Qed.

Lemma ext_upd_eng_sub s n e : is_Some (s_eng s !! n) -> eng_sub e (eng_of s n) -> ext s (upd_eng s n e).
Proof.
  intros Hn He. apply ext_same; try reflexivity.
  - intros m. apply nodes_upd_eng, Hn.
  - apply tab_sub_refl.
  - intros m. rewrite eng_of_upd_eng. destruct (decide (m = n)) as [->|]; [assumption|]. intros k H; exact H.
Qed.

Lemma ext_upd_tab_sub s t : tab_sub t (s_tab s) -> ext s (upd_tab s t).
Proof.
  intros Ht. apply ext_same; try reflexivity; try tauto. intros n k H; exact H.
Qed.

Lemma ext_upd_amb s b : ext s (upd_amb s b).
Proof.
  apply ext_same; try reflexivity; try tauto; [apply tab_sub_refl|]. intros n k H; exact H.
Qed.

Lemma ext_rollback s s' er : ext s s' -> ext s (rollback s s' er).
Proof.
  intros E. unfold rollback. destruct (is_ok er); [assumption|].
  constructor; simpl.
  - apply (ext_ctr _ _ E).
  - apply (ext_max _ _ E).
  - apply (ext_nodes _ _ E).
  - intros k c H. left. eauto.
  - intros n k H. destruct (ext_eng _ _ E n k H) as [?|(Hn & lk & -> & Hl & Hlo & Hhi)]; [left; assumption|].
    right. split; [assumption|]. exists lk. split; [reflexivity|]. split; [assumption|]. split; assumption.
Qed.

(* ---- the engine primitives *)
Lemma ts_del_pass1_sub fixed : forall keys e idxs e' idxs',
  ts_del_pass1 fixed e keys idxs = (e', idxs') -> eng_sub e' e.
Proof.
  induction keys as [|k keys IH]; intros e idxs e' idxs'; simpl.
  - intros [= <- <-] x H; exact H.
  - destruct (e !! k) as [c|] eqn:Ek; [|apply IH].
    destruct (e_virt c).
    + intros H. apply IH in H. destruct fixed; [|assumption].
      intros x Hx. specialize (H x Hx). apply lookup_delete_is_Some in H. tauto.
    + destruct (e_isidx c); [apply IH|].
      intros H. apply IH in H. intros x Hx. specialize (H x Hx). apply lookup_delete_is_Some in H. tauto.
Qed.
Lemma ts_del_pass2_sub : forall idxs e e' er, ts_del_pass2 e idxs = (e', er) -> eng_sub e' e.
Proof.
  induction idxs as [|k idxs IH]; intros e e' er; simpl.
  - intros [= <- <-] x H; exact H.
  - destruct (e !! k); [|intros [= <- <-] x H; exact H].
    destruct (has_dependants e k); [intros [= <- <-] x H; exact H|].
    intros H. apply IH in H. intros x Hx. specialize (H x Hx). apply lookup_delete_is_Some in H. tauto.
Qed.
Lemma ts_delete_sub fixed e keys e' er : ts_delete fixed e keys = (e', er) -> eng_sub e' e.
Proof.
  unfold ts_delete. destruct (ts_del_pass1 fixed e keys []) as [e1 idxs] eqn:E1. intros E2.
  apply ts_del_pass1_sub in E1. apply ts_del_pass2_sub in E2. intros x Hx. apply E1, E2, Hx.
Qed.
Lemma ts_rename_sub : forall kn e e' er, ts_rename e kn = (e', er) -> eng_sub e' e.
Proof.
  induction kn as [|[k n] kn IH]; intros e e' er; simpl.
  - intros [= <- <-] x H; exact H.
  - destruct (e !! k) as [c|] eqn:Ek; [|intros [= <- <-] x H; exact H].
    destruct (name_eqb n ""); [intros [= <- <-] x H; exact H|].
    intros H. apply IH in H. intros x Hx. specialize (H x Hx).
    destruct (decide (x = k)) as [->|Hne]; [eauto|]. rewrite lookup_insert_ne in H by congruence. exact H.
Qed.
Lemma ts_create1_keys e k c e' er : ts_create1 e k c = (e', er) ->
  forall x, is_Some (e' !! x) -> is_Some (e !! x) \/ x = k.
Proof.
  unfold ts_create1. intros H x Hx.
  assert (Hins : forall v, is_Some (<[k:=v]> e !! x) -> is_Some (e !! x) \/ x = k).
  { intros v Hv. destruct (decide (x = k)); [right; assumption|]. rewrite lookup_insert_ne in Hv by congruence. auto. }
  repeat match type of H with
  | (if ?b then _ else _) = _ => destruct b
  | match ?o with Some _ => _ | None => _ end = _ => destruct o
  end; injection H as <- <-; eauto.
Qed.
Lemma ts_create_keys : forall l e e' er, ts_create e l = (e', er) ->
  forall x, is_Some (e' !! x) -> is_Some (e !! x) \/ x ∈ (fst <$> l).
Proof.
  induction l as [|[k c] l IH]; intros e e' er; simpl.
  - intros [= <- <-] x H. auto.
  - destruct (ts_create1 e k c) as [e1 er1] eqn:E1. destruct (is_ok er1).
    + intros H x Hx. destruct (IH _ _ _ H x Hx) as [H1|H1].
      * destruct (ts_create1_keys _ _ _ _ _ E1 x H1) as [?| ->]; [auto|]. right. left.
      * right. right. assumption.
    + intros [= <- <-] x Hx. destruct (ts_create1_keys _ _ _ _ _ E1 x Hx) as [?| ->]; [auto|]. right. left.
Qed.

(* ---- table primitives *)
Lemma tab_rename_sub t keys names t' er : tab_rename t keys names = (t', er) -> tab_sub t' t.
Proof.
  unfold tab_rename. destruct (negb _); [intros [= <- <-]; apply tab_sub_refl|].
  destruct (any_internal t keys); [intros [= <- <-]; apply tab_sub_refl|].
  intros [= <- <-].
  assert (G : forall l t0, tab_sub t0 t ->
     tab_sub (foldl (fun t' k => match t !! k, index_where (N.eqb k) keys with
                                 | Some c, Some i => <[k := set_name c (default "" (names !! i))]> t'
                                 | _, _ => t' end) t0 l) t).
  { induction l as [|k l IH]; intros t0 H0; simpl; [assumption|]. apply IH.
    destruct (t !! k) as [c|] eqn:Ek; [|assumption].
    destruct (index_where (N.eqb k) keys); [|assumption].
    intros x y Hx. destruct (decide (x = k)) as [->|Hne].
    - rewrite lookup_insert in Hx. injection Hx as <-. exists c. split; [assumption|]. destruct c; reflexivity.
    - rewrite lookup_insert_ne in Hx by congruence. apply H0, Hx. }
  apply G, tab_sub_refl.
Qed.

