(* Core/RbacSim.v — every history of role / policy / assignment changes keeps the model in
   simulation with the set-based reference configuration of Core/RbacSpec.v, and in related
   states Enforce allows exactly when the reference formula [permitted_a] holds. *)
From stdpp Require Import gmap relations.
From Coq Require Import NArith.
From Synnax Require Import Core.Ontology Core.OntologyStr Core.OntologyProofs
  Core.Rbac Core.RbacProofs Core.RbacSpec.
Local Open Scope N_scope.

(* subjects: good identifiers that cannot be mistaken for roles, policies, the group or root *)
Definition sub_ok (s : id) : Prop :=
  good_id s /\ is_prefix s_role (id_str s) = false /\ is_prefix s_policy (id_str s) = false /\
  id_type s <> s_group /\ id_type s <> s_builtin.
Definition good_key (k : str) : Prop :=
  k <> [] /\ good_id (role_id k) /\ good_id (policy_id k).

Global Instance sub_ok_dec s : Decision (sub_ok s).
Proof. unfold sub_ok. apply _. Defined.
Global Instance good_key_dec k : Decision (good_key k).
Proof. unfold good_key. apply _. Defined.

Inductive shape : rel -> Prop :=
| sh_root : shape (Rel root_id s_parent group_id)
| sh_grp k : good_key k -> shape (Rel group_id s_parent (role_id k))
| sh_att r p : good_key r -> good_key p -> shape (Rel (role_id r) s_parent (policy_id p))
| sh_asg r s : good_key r -> sub_ok s -> shape (Rel (role_id r) s_parent s)
| sh_gsub s : sub_ok s -> shape (Rel group_id s_parent s)
| sh_gpol p : good_key p -> shape (Rel group_id s_parent (policy_id p)).

(* keyed form of a "parent" edge *)
Definition lk (o : ost) (a b : id) : Prop :=
  o_rels o !! rel_key (Rel a s_parent b) = Some (Rel a s_parent b).

Lemma good_group : good_id group_id.
Proof.
  split; [discriminate|split; [|reflexivity]]. apply (bool_decide_unpack _). vm_compute. exact I.
Qed.

Lemma role_prefix k : is_prefix s_role (id_str (role_id k)) = true.
Proof. unfold id_str, role_id. simpl id_type. apply is_prefix_app. Qed.
Lemma policy_prefix k : is_prefix s_policy (id_str (policy_id k)) = true.
Proof. unfold id_str, policy_id. simpl id_type. apply is_prefix_app. Qed.
Lemma role_not_policy_prefix k : is_prefix s_policy (id_str (role_id k)) = false.
Proof. reflexivity. Qed.
Lemma policy_not_role_prefix k : is_prefix s_role (id_str (policy_id k)) = false.
Proof. reflexivity. Qed.

Lemma sub_ne_role s k : sub_ok s -> s <> role_id k.
Proof. intros (_ & H & _) ->. rewrite role_prefix in H. discriminate. Qed.
Lemma sub_ne_policy s k : sub_ok s -> s <> policy_id k.
Proof. intros (_ & _ & H & _) ->. rewrite policy_prefix in H. discriminate. Qed.
Lemma sub_ne_group s : sub_ok s -> s <> group_id.
Proof. intros (_ & _ & _ & H & _) ->. apply H. reflexivity. Qed.
Lemma sub_ne_root s : sub_ok s -> s <> root_id.
Proof. intros (_ & _ & _ & _ & H) ->. apply H. reflexivity. Qed.
Lemma role_id_inj a b : role_id a = role_id b -> a = b.
Proof. intros [= ->]. reflexivity. Qed.
Lemma policy_id_inj a b : policy_id a = policy_id b -> a = b.
Proof. intros [= ->]. reflexivity. Qed.

Lemma lk_pedge o a b : wf o -> lk o a b <-> pedge o a b.
Proof.
  intros Hwf. unfold lk, pedge. split.
  - intros H. exists (rel_key (Rel a s_parent b)), (Rel a s_parent b). auto.
  - intros (k & r & H & <- & Hty & <-). destruct (wf_rels o Hwf _ _ H) as [-> _].
    destruct r as [f ty t]; simpl in *. subst ty. exact H.
Qed.

Lemma lk_edge o a b : lk o a b -> edge o a b.
Proof. intros H. exists (rel_key (Rel a s_parent b)), (Rel a s_parent b). auto. Qed.

(* ---- how the ontology primitives change [has] and [lk] ---- *)
Lemma has_define_resource o i j :
  wf o -> good_id i -> good_id j -> id_valid i = true ->
  has (define_resource o i).1 j <-> has o j \/ j = i.
Proof.
  intros Hwf Hi Hj Hv. unfold define_resource. rewrite Hv. unfold has; simpl.
  destruct (decide (id_str i = id_str j)) as [E|E].
  - rewrite E, lookup_insert. assert (i = j) by (apply id_str_inj; auto). subst. split; [auto|].
    intros _. reflexivity.
  - rewrite lookup_insert_ne by auto. split; [auto|]. intros [H| ->]; [auto|contradiction].
Qed.

Lemma define_resource_rels o i : o_rels (define_resource o i).1 = o_rels o.
Proof. unfold define_resource. destruct (id_valid i); reflexivity. Qed.

Lemma define_resource_err o i : (define_resource o i).2 = if id_valid i then EOk else EValidation.
Proof. unfold define_resource. destruct (id_valid i); reflexivity. Qed.

Lemma define_resource_invalid o i : id_valid i = false -> (define_resource o i).1 = o.
Proof. unfold define_resource. intros ->. reflexivity. Qed.

Lemma lk_add_rel o f t a b :
  wf o -> good_rel (Rel f s_parent t) -> good_id a -> good_id b ->
  lk (add_rel o (Rel f s_parent t)) a b <-> lk o a b \/ (a = f /\ b = t).
Proof.
  intros Hwf Hr Ha Hb. unfold lk, add_rel; simpl. rewrite lookup_insert_Some. split.
  - intros [[_ [= -> ->]]|[_ H]]; auto.
  - intros [H|[-> ->]]; [|left; auto].
    destruct (decide (rel_key (Rel f s_parent t) = rel_key (Rel a s_parent b))) as [E|E]; [|auto].
    left. split; [auto|]. apply rel_key_inj in E; auto.
    split; [|split]; auto using good_ty_parent.
Qed.

Lemma has_delete_resource o x j :
  good_id x -> good_id j -> has (delete_resource o x).1 j <-> has o j /\ j <> x.
Proof.
  intros Hx Hj. unfold has; simpl. rewrite lookup_delete_Some. split.
  - intros [Hne H]. split; [auto|]. intros ->. auto.
  - intros [H Hne]. split; [|auto]. intros E. apply Hne. symmetry. apply id_str_inj; auto.
Qed.

Lemma lk_delete_resource o x a b :
  wf o -> good_id x ->
  lk (delete_resource o x).1 a b <-> lk o a b /\ a <> x /\ b <> x.
Proof. intros Hwf Hx. unfold lk. rewrite delete_resource_rels by auto. simpl. tauto. Qed.

Lemma lk_delete_relationship o f t a b :
  wf o -> good_rel (Rel f s_parent t) ->
  lk (delete_relationship o f s_parent t).1 a b <-> lk o a b /\ ~ (a = f /\ b = t).
Proof.
  intros Hwf Hr. unfold lk. rewrite delete_relationship_rels by auto. split.
  - intros [H Hne]. split; [auto|]. intros [-> ->]. auto.
  - intros [H Hne]. split; [auto|]. intros [= -> ->]. auto.
Qed.

(* ---- the simulation relation ---- *)
Record sim (st : rst) (c : acfg) : Prop := Sim {
  sim_wf : wf (r_ont st);
  sim_shape : forall k r, o_rels (r_ont st) !! k = Some r -> shape r;
  sim_group : has (r_ont st) group_id;
  sim_subj : forall s, sub_ok s -> (s ∈ a_subj c <-> has (r_ont st) s);
  sim_roles : forall k, good_key k -> (k ∈ a_roles c <-> has (r_ont st) (role_id k));
  sim_roles_good : forall k, k ∈ a_roles c -> good_key k;
  sim_pols : forall k p, (k, p) ∈ a_pols c <-> r_pols st !! k = Some p;
  sim_pols_good : forall k p, (k, p) ∈ a_pols c -> good_key k;
  sim_polres : forall k, good_key k -> (has (r_ont st) (policy_id k) <-> is_Some (r_pols st !! k));
  sim_assign : forall r s, good_key r -> sub_ok s ->
                 ((r, s) ∈ a_assign c <-> lk (r_ont st) (role_id r) s);
  sim_attach : forall r p, good_key r -> good_key p ->
                 ((r, p) ∈ a_attach c <-> lk (r_ont st) (role_id r) (policy_id p)) }.

(* ---- shapes: who has outgoing edges ---- *)
Section shapes.
  Variable o : ost.
  Hypothesis Hwf : wf o.
  Hypothesis Hsh : forall k r, o_rels o !! k = Some r -> shape r.

  Lemma edge_shape a b : edge o a b -> shape (Rel a s_parent b).
  Proof.
    intros (k & r & H & <- & <-). pose proof (Hsh _ _ H) as S.
    destruct S; simpl; [apply sh_root|apply sh_grp|apply sh_att|apply sh_asg|apply sh_gsub|apply sh_gpol]; auto.
  Qed.

  Lemma no_out_policy p b : ~ edge o (policy_id p) b.
  Proof. intros H. apply edge_shape in H. inversion H. Qed.

  Lemma no_out_sub s b : sub_ok s -> ~ edge o s b.
  Proof.
    intros Hs H. apply edge_shape in H. inversion H; subst.
    - exact (sub_ne_root _ Hs eq_refl).
    - exact (sub_ne_group _ Hs eq_refl).
    - exact (sub_ne_role _ _ Hs eq_refl).
    - exact (sub_ne_role _ _ Hs eq_refl).
    - exact (sub_ne_group _ Hs eq_refl).
    - exact (sub_ne_group _ Hs eq_refl).
  Qed.

  Lemma rtc_no_out t x : (forall b, ~ edge o t b) -> rtc (edge o) t x -> x = t.
  Proof. intros Hn H. destruct H as [|t y x H1 _]; [auto|]. exfalso. exact (Hn _ H1). Qed.

  Lemma shape_from_role k ty y :
    shape (Rel (role_id k) ty y) -> (exists p, y = policy_id p) \/ sub_ok y.
  Proof.
    intros S. remember (Rel (role_id k) ty y) as r eqn:E.
    destruct S; injection E as E1 E2 E3; try discriminate E1; subst; eauto.
  Qed.

  Lemma rtc_from_role k x :
    rtc (edge o) (role_id k) x -> x = role_id k \/ (exists p, x = policy_id p) \/ sub_ok x.
  Proof.
    intros H. apply rtc_inv in H as [<-|(y & H1 & H2)]; [auto|]. right.
    destruct (shape_from_role _ _ _ (edge_shape _ _ H1)) as [[p ->]|Hs].
    - left. exists p. eapply rtc_no_out; [|exact H2]. intros b. apply no_out_policy.
    - right. assert (x = y); [|subst; auto].
      eapply rtc_no_out; [|exact H2]. intros b. apply no_out_sub. auto.
  Qed.
End shapes.

Lemma define_rel_ok c o f t :
  f10 c = true -> f11 c = true -> wf o ->
  (forall k r, o_rels o !! k = Some r -> shape r) ->
  good_id f -> good_id t -> ~ rtc (edge o) t f ->
  let r := define_relationship c o f s_parent t in
  (has o f /\ has o t -> r.2 = EOk /\
     (r.1 = o /\ lk o f t \/ r.1 = add_rel o (Rel f s_parent t) /\ ~ lk o f t)) /\
  (~ (has o f /\ has o t) -> r.1 = o /\ r.2 <> EOk).
Proof.
  intros H10 H11 Hwf Hsh Hf Ht Hn r.
  assert (Hr : good_rel (Rel f s_parent t)) by (split; [|split]; auto using good_ty_parent).
  destruct (define_relationship_spec c o f s_parent t H10 H11 Hwf Hf Ht good_ty_parent)
    as [[Hl E]|[Hnl (e & E & He)]]; subst r; rewrite E; simpl.
  - split; [|intros Hx; exfalso; apply Hx; destruct Hl as (?&?&?); auto].
    intros _. split; [auto|]. destruct (has_rel o (Rel f s_parent t)) eqn:Eh.
    + left. split; [auto|]. apply has_rel_edge in Eh; auto.
    + right. split; [auto|]. intros Hlk. apply has_rel_edge in Hlk; auto. congruence.
  - split.
    + intros [H1 H2]. exfalso. apply Hnl. split; [auto|split; auto].
    + intros _. split; [auto|]. destruct He; congruence.
Qed.

(* ---- related states give the same verdicts ---- *)
Lemma in_b_true {A} `{EqDecision A} (x : A) l : in_b x l = true <-> x ∈ l.
Proof. unfold in_b. apply bool_decide_eq_true. Qed.

Lemma permitted_a_spec c s act objs :
  permitted_a c s act objs = true <->
  s ∈ a_subj c /\
  forall o, o ∈ objs ->
    exists r, r ∈ a_roles c /\ (r, s) ∈ a_assign c /\
      exists k p, (k, p) ∈ a_pols c /\ (r, k) ∈ a_attach c /\ grants_p act o p.
Proof.
  unfold permitted_a. rewrite andb_true_iff, in_b_true, forallb_forall. split.
  - intros [Hs H]. split; [auto|]. intros o Ho. apply elem_of_list_In in Ho.
    apply H, existsb_exists in Ho as (r & Hr & Hx). apply andb_true_iff in Hx as [Ha Hx].
    apply existsb_exists in Hx as ([k p] & Hkp & Hx). apply andb_true_iff in Hx as [Hat Hg].
    exists r. split; [apply elem_of_list_In, Hr|]. split; [apply in_b_true, Ha|].
    exists k, p. split; [apply elem_of_list_In, Hkp|]. split; [apply in_b_true, Hat|apply grants_spec, Hg].
  - intros [Hs H]. split; [auto|]. intros o Ho. apply elem_of_list_In in Ho.
    destruct (H o Ho) as (r & Hr & Ha & k & p & Hkp & Hat & Hg).
    apply existsb_exists. exists r. split; [apply elem_of_list_In, Hr|].
    apply andb_true_iff. split; [apply in_b_true, Ha|].
    apply existsb_exists. exists (k, p). split; [apply elem_of_list_In, Hkp|].
    apply andb_true_iff. split; [apply in_b_true, Hat|apply grants_spec, Hg].
Qed.

Lemma sim_permitted st c s act objs :
  sim st c -> sub_ok s ->
  permitted st s act objs <-> permitted_a c s act objs = true.
Proof.
  intros S Hs. rewrite permitted_a_spec. pose proof (sim_wf _ _ S) as Hwf. unfold permitted. split.
  - intros [Hh H]. split; [apply (sim_subj _ _ S); auto|]. intros o Ho.
    destruct (H o Ho) as (r & cc & p & [Hrs Hrpre] & (Hrc & Hpre & _) & Hp & Hg).
    destruct Hrs as (k1 & r1 & Hk1 & Hf1 & Hty1 & Ht1).
    pose proof (sim_shape _ _ S _ _ Hk1) as Sh1.
    assert (exists kr, good_key kr /\ r = role_id kr) as (kr & Hkr & ->).
    { destruct Sh1; cbn [r_from r_type r_to] in *; subst.
      - exfalso. exact (sub_ne_group _ Hs eq_refl).
      - exfalso. exact (sub_ne_role _ _ Hs eq_refl).
      - exfalso. exact (sub_ne_policy _ _ Hs eq_refl).
      - eauto.
      - exfalso. discriminate Hrpre.
      - exfalso. exact (sub_ne_policy _ _ Hs eq_refl). }
    assert (Hlk1 : lk (r_ont st) (role_id kr) s).
    { apply lk_pedge; auto. exists k1, r1. auto. }
    destruct Hrc as (k2 & r2 & Hk2 & Hf2 & Hty2 & Ht2).
    pose proof (sim_shape _ _ S _ _ Hk2) as Sh2.
    assert (exists kp, good_key kp /\ cc = policy_id kp) as (kp & Hkp & ->).
    { destruct r2 as [f2 ty2 t2]; cbn [r_from r_type r_to] in *; subst.
      destruct (shape_from_role _ _ _ Sh2) as [[kp ->]|Hsub].
      - exists kp. split; [|auto]. remember (Rel (role_id kr) s_parent (policy_id kp)) as rr eqn:E.
        destruct Sh2 as [|k' Hk'|r' p' Hr' Hp'|r' s' Hr' Hs'|s' Hs'|p' Hp']; injection E as E1 E3; try discriminate E1.
        + subst. auto.
        + exfalso. subst s'. exact (sub_ne_policy _ _ Hs' eq_refl).
      - exfalso. destruct Hsub as (_ & _ & Hx & _). congruence. }
    assert (Hlk2 : lk (r_ont st) (role_id kr) (policy_id kp)).
    { apply lk_pedge; auto. exists k2, r2. auto. }
    exists kr. split; [apply (sim_roles _ _ S); auto; exact (proj1 (edge_has _ _ _ Hwf (lk_edge _ _ _ Hlk1)))|].
    split; [apply (sim_assign _ _ S); auto|].
    exists kp, p. split; [apply (sim_pols _ _ S); exact Hp|].
    split; [apply (sim_attach _ _ S); auto|exact Hg].
  - intros [Hh H]. split; [apply (sim_subj _ _ S); auto|]. intros o Ho.
    destruct (H o Ho) as (r & Hr & Ha & k & p & Hkp & Hat & Hg).
    pose proof (sim_roles_good _ _ S _ Hr) as Hgr. pose proof (sim_pols_good _ _ S _ _ Hkp) as Hgk.
    apply (sim_assign _ _ S) in Ha; auto. apply (sim_attach _ _ S) in Hat; auto.
    apply (sim_pols _ _ S) in Hkp.
    exists (role_id r), (policy_id k), p. split; [|split; [|split]].
    + split; [apply lk_pedge; auto|apply role_prefix].
    + split; [apply lk_pedge; auto|]. split; [apply policy_prefix|].
      unfold pol_live. simpl. rewrite Hkp. reflexivity.
    + exact Hkp.
    + exact Hg.
Qed.

Lemma sim_enforce st c s act objs :
  sim st c -> sub_ok s ->
  (enforce st s act objs = Allow <-> permitted_a c s act objs = true) /\
  (enforce st s act objs <> Allow ->
   enforce st s act objs = Deny \/ enforce st s act objs = Fail ENotFound).
Proof.
  intros S Hs. pose proof (sim_wf _ _ S) as Hwf.
  destruct (enforce_spec st s act objs Hwf (proj1 Hs)) as (H1 & H2 & H3). split.
  - rewrite H1. apply sim_permitted; auto.
  - intros Hn. destruct (decide (has (r_ont st) s)) as [Hh|Hh].
    + destruct (H2 Hh); [contradiction|auto].
    + right. auto.
Qed.

(* ---- every operation keeps the simulation ---- *)
Definition good_rop (o : rop) : Prop :=
  match o with
  | RCreateRole k _ _ | RDeleteRole k _ | RCreatePolicy k _ _ => good_key k
  | RDeletePolicies ks => Forall good_key ks
  | RSetOnRole r ps => good_key r /\ Forall good_key ps
  | RAssign s r | RUnassign s r => sub_ok s /\ good_key r
  | RSubject s | RDelSubject s => sub_ok s
  | RGroupAdd b | RGroupRemove b => sub_ok b \/ (id_type b = s_policy /\ good_key (id_key b))
  | REnforce s _ _ _ => sub_ok s
  | RBegin | RCommit | RAbort => True
  end.

Global Instance good_rop_dec o : Decision (good_rop o).
Proof. destruct o; simpl; apply _. Defined.

Lemma bd_ok_true : bool_decide (EOk = EOk) = true.
Proof. reflexivity. Qed.

Lemma sim_same_ont st c r :
  sim st c -> sim (RSt (r_ont st) (r_pols st) r) c.
Proof. intros []. constructor; auto. Qed.

Lemma sim_subject st c s :
  sim st c -> sub_ok s ->
  sim (with_ont st (define_resource (r_ont st) s)).1
      (a_apply c (RSubject s) (bool_decide ((with_ont st (define_resource (r_ont st) s)).2 = EOk))).
Proof.
  intros S Hs. destruct S as [Hwf Hsh Hgrp Hsub Hrol Hrolg Hpol Hpolg Hpres Hasg Hatt].
  cbn [with_ont fst snd]. rewrite define_resource_err. destruct (id_valid s) eqn:Ev.
  - rewrite bd_ok_true. cbn [a_apply].
    assert (Hh : forall j, good_id j ->
              has (define_resource (r_ont st) s).1 j <-> has (r_ont st) j \/ j = s).
    { intros j Hj. apply has_define_resource; auto. apply Hs. }
    constructor; cbn [r_ont r_pols a_subj a_roles a_pols a_assign a_attach].
    + apply define_resource_wf; auto. apply Hs.
    + rewrite define_resource_rels. exact Hsh.
    + apply Hh; [apply good_group|auto].
    + intros s' Hs'. rewrite elem_of_cons, (Hh s') by apply Hs'. rewrite Hsub by auto. tauto.
    + intros k Hk. rewrite Hh by apply Hk. rewrite Hrol by auto. split; [auto|].
      intros [H|H]; [auto|]. exfalso. exact (sub_ne_role _ _ Hs (eq_sym H)).
    + exact Hrolg.
    + exact Hpol.
    + exact Hpolg.
    + intros k Hk. rewrite Hh by apply Hk. rewrite <- Hpres by auto. split; [|auto].
      intros [H|H]; [auto|]. exfalso. exact (sub_ne_policy _ _ Hs (eq_sym H)).
    + intros r s' Hr Hs'. unfold lk. rewrite define_resource_rels. apply Hasg; auto.
    + intros r p Hr Hp. unfold lk. rewrite define_resource_rels. apply Hatt; auto.
  - rewrite (bool_decide_eq_false_2 (EValidation = EOk)) by discriminate.
    rewrite define_resource_invalid by auto. cbn [a_apply]. destruct st. constructor; auto.
Qed.

Lemma sim_del_subject st c s :
  sim st c -> sub_ok s ->
  sim (with_ont st (delete_resource (r_ont st) s)).1 (a_apply c (RDelSubject s) true).
Proof.
  intros S Hs. destruct S as [Hwf Hsh Hgrp Hsub Hrol Hrolg Hpol Hpolg Hpres Hasg Hatt].
  pose proof (proj1 Hs) as Hgs.
  cbn [with_ont fst a_apply].
  constructor; cbn [r_ont r_pols a_subj a_roles a_pols a_assign a_attach].
  - apply delete_resource_wf; auto.
  - intros k r H. apply delete_resource_rels in H as (H & _); eauto.
  - apply has_delete_resource; auto using good_group. split; [auto|].
    intros E. exact (sub_ne_group _ Hs (eq_sym E)).
  - intros s' Hs'. rewrite elem_of_list_filter, has_delete_resource by (auto; apply Hs').
    rewrite Hsub by auto. tauto.
  - intros k Hk. rewrite has_delete_resource by (auto; apply Hk). rewrite Hrol by auto.
    split; [|tauto]. intros H. split; [auto|]. intros E. exact (sub_ne_role _ _ Hs (eq_sym E)).
  - exact Hrolg.
  - exact Hpol.
  - exact Hpolg.
  - intros k Hk. rewrite has_delete_resource by (auto; apply Hk). rewrite <- Hpres by auto.
    split; [tauto|]. intros H. split; [auto|]. intros E. exact (sub_ne_policy _ _ Hs (eq_sym E)).
  - intros r s' Hr Hs'. rewrite elem_of_list_filter, lk_delete_resource by auto.
    rewrite Hasg by auto. cbn [snd]. split.
    + intros [Hne H]. split; [auto|]. split; [|auto]. intros E. exact (sub_ne_role _ _ Hs (eq_sym E)).
    + intros (H & _ & Hne). auto.
  - intros r p Hr Hp. rewrite lk_delete_resource by auto. rewrite Hatt by auto.
    split; [|tauto]. intros H. split; [auto|]. split; intros E.
    + exact (sub_ne_role _ _ Hs (eq_sym E)).
    + exact (sub_ne_policy _ _ Hs (eq_sym E)).
Qed.

Lemma good_key_role k : good_key k -> good_id (role_id k).
Proof. intros (_ & H & _); exact H. Qed.
Lemma good_key_policy k : good_key k -> good_id (policy_id k).
Proof. intros (_ & _ & H); exact H. Qed.
Global Hint Resolve good_key_role good_key_policy good_group : rbac.

Lemma role_ne_policy a b : role_id a <> policy_id b.
Proof. discriminate. Qed.
Lemma role_ne_group a : role_id a <> group_id.
Proof. discriminate. Qed.
Lemma policy_ne_group a : policy_id a <> group_id.
Proof. discriminate. Qed.

Lemma sim_assign_role st c s r :
  sim st c -> sub_ok s -> good_key r ->
  sim (assign_role rfixed st s r).1
      (a_apply c (RAssign s r) (bool_decide ((assign_role rfixed st s r).2 = EOk))).
Proof.
  intros S Hs Hr. destruct S as [Hwf Hsh Hgrp Hsub Hrol Hrolg Hpol Hpolg Hpres Hasg Hatt].
  pose proof (proj1 Hs) as Hgs. pose proof (good_key_role _ Hr) as Hgr.
  unfold assign_role. cbn [with_ont fst snd rc_ont rfixed].
  assert (Hn : ~ rtc (edge (r_ont st)) s (role_id r)).
  { intros H. apply (rtc_no_out (r_ont st)) in H; [|intros b; apply no_out_sub; auto].
    exact (sub_ne_role _ _ Hs (eq_sym H)). }
  destruct (define_rel_ok fixed (r_ont st) (role_id r) s eq_refl eq_refl Hwf Hsh Hgr Hgs Hn) as [Hok Hno].
  assert (Hrel : good_rel (Rel (role_id r) s_parent s)) by (split; [|split]; auto using good_ty_parent).
  destruct (decide (has (r_ont st) (role_id r) /\ has (r_ont st) s)) as [Hboth|Hnb].
  - destruct (Hok Hboth) as [-> Hcase]. rewrite bd_ok_true. cbn [a_apply].
    destruct Hcase as [[-> Hlk]|[-> Hnlk]].
    + constructor; cbn [r_ont r_pols a_subj a_roles a_pols a_assign a_attach]; auto.
      intros r' s' Hr' Hs'. rewrite elem_of_cons, Hasg by auto. split; [|auto].
      intros [[= -> ->]|H]; auto.
    + constructor; cbn [r_ont r_pols a_subj a_roles a_pols a_assign a_attach]; auto.
      * apply wf_add_rel; auto; apply Hboth.
      * intros k r' H. cbn [add_rel o_rels] in H. apply lookup_insert_Some in H as [[_ <-]|[_ H]]; eauto.
        constructor; auto.
      * intros r' s' Hr' Hs'. rewrite elem_of_cons, lk_add_rel by (auto with rbac; apply Hs').
        rewrite Hasg by auto. split.
        -- intros [[= -> ->]|H]; auto.
        -- intros [H|[E ->]]; auto. apply role_id_inj in E. subst. auto.
      * intros r' p Hr' Hp. rewrite lk_add_rel by auto with rbac. rewrite Hatt by auto.
        split; [auto|]. intros [H|[_ E]]; [auto|]. exfalso. exact (sub_ne_policy _ _ Hs (eq_sym E)).
  - destruct (Hno Hnb) as [-> Hne]. rewrite bool_decide_eq_false_2 by auto. cbn [a_apply].
    destruct st. constructor; auto.
Qed.

Lemma sim_unassign_role st c s r :
  sim st c -> sub_ok s -> good_key r ->
  sim (unassign_role st s r).1 (a_apply c (RUnassign s r) true).
Proof.
  intros S Hs Hr. destruct S as [Hwf Hsh Hgrp Hsub Hrol Hrolg Hpol Hpolg Hpres Hasg Hatt].
  pose proof (proj1 Hs) as Hgs. pose proof (good_key_role _ Hr) as Hgr.
  assert (Hrel : good_rel (Rel (role_id r) s_parent s)) by (split; [|split]; auto using good_ty_parent).
  unfold unassign_role. cbn [with_ont fst a_apply].
  constructor; cbn [r_ont r_pols a_subj a_roles a_pols a_assign a_attach]; auto.
  - apply delete_relationship_wf; auto.
  - intros k r' H. cbn [delete_relationship fst o_rels] in H. apply lookup_delete_Some in H as [_ H]. eauto.
  - intros r' s' Hr' Hs'. rewrite elem_of_list_filter, lk_delete_relationship by auto.
    rewrite Hasg by auto. split.
    + intros [Hne H]. split; [auto|]. intros [E ->]. apply role_id_inj in E. subst. auto.
    + intros [H Hne]. split; [|auto]. intros [= -> ->]. auto.
  - intros r' p Hr' Hp. rewrite lk_delete_relationship by auto. rewrite Hatt by auto.
    split; [|tauto]. intros H. split; [auto|]. intros [_ E]. exact (sub_ne_policy _ _ Hs (eq_sym E)).
Qed.

Lemma in_pols_keys c k : k ∈ (fst <$> a_pols c) <-> exists p, (k, p) ∈ a_pols c.
Proof.
  rewrite elem_of_list_fmap. split.
  - intros ([k' p] & -> & H). eauto.
  - intros [p H]. exists (k, p). auto.
Qed.

Lemma sim_set_on_role r ps : forall st c,
  sim st c -> good_key r -> Forall good_key ps ->
  sim (set_on_role rfixed st r ps).1 (a_attach_all c r ps).
Proof.
  induction ps as [|p ps IH]; intros st c S Hr Hps; [exact S|].
  apply Forall_cons in Hps as [Hp Hps].
  pose proof S as [Hwf Hsh Hgrp Hsub Hrol Hrolg Hpol Hpolg Hpres Hasg Hatt].
  pose proof (good_key_role _ Hr) as Hgr. pose proof (good_key_policy _ Hp) as Hgp.
  assert (Hn : ~ rtc (edge (r_ont st)) (policy_id p) (role_id r)).
  { intros H. apply (rtc_no_out (r_ont st)) in H; [|intros b; apply no_out_policy; auto].
    exact (role_ne_policy _ _ H). }
  destruct (define_rel_ok fixed (r_ont st) (role_id r) (policy_id p) eq_refl eq_refl Hwf Hsh Hgr Hgp Hn)
    as [Hok Hno].
  assert (Hrel : good_rel (Rel (role_id r) s_parent (policy_id p)))
    by (split; [|split]; auto using good_ty_parent).
  assert (Hcond : in_b r (a_roles c) && in_b p (fst <$> a_pols c) = true <->
                  has (r_ont st) (role_id r) /\ has (r_ont st) (policy_id p)).
  { rewrite andb_true_iff, !in_b_true, Hrol, in_pols_keys, Hpres by auto. split.
    - intros [H [q Hq]]. split; [auto|]. apply Hpol in Hq. eauto.
    - intros [H [q Hq]]. split; [auto|]. exists q. apply Hpol, Hq. }
  cbn [set_on_role a_attach_all]. cbn [with_ont rc_ont rfixed].
  destruct (decide (has (r_ont st) (role_id r) /\ has (r_ont st) (policy_id p))) as [Hboth|Hnb].
  - rewrite (proj2 Hcond Hboth). destruct (Hok Hboth) as [He Hcase].
    destruct (define_relationship fixed (r_ont st) (role_id r) s_parent (policy_id p)) as [o1 e1].
    cbn [fst snd] in *. subst e1. apply IH; auto.
    destruct Hcase as [[-> Hlk]|[-> Hnlk]].
    + constructor; cbn [r_ont r_pols a_subj a_roles a_pols a_assign a_attach]; auto.
      intros r' p' Hr' Hp'. rewrite elem_of_cons, Hatt by auto. split; [|auto].
      intros [[= -> ->]|H]; auto.
    + constructor; cbn [r_ont r_pols a_subj a_roles a_pols a_assign a_attach]; auto.
      * apply wf_add_rel; auto; apply Hboth.
      * intros k r' H. cbn [add_rel o_rels] in H. apply lookup_insert_Some in H as [[_ <-]|[_ H]]; eauto.
        constructor; auto.
      * intros r' s' Hr' Hs'. rewrite lk_add_rel by (auto with rbac; apply Hs'). rewrite Hasg by auto.
        split; [auto|]. intros [H|[_ E]]; [auto|]. exfalso. exact (sub_ne_policy _ _ Hs' E).
      * intros r' p' Hr' Hp'. rewrite elem_of_cons, lk_add_rel by auto with rbac.
        rewrite Hatt by auto. split.
        -- intros [[= -> ->]|H]; auto.
        -- intros [H|[E1 E2]]; auto. apply role_id_inj in E1. apply policy_id_inj in E2. subst. auto.
  - destruct (in_b r (a_roles c) && in_b p (fst <$> a_pols c)) eqn:Ec.
    { exfalso. apply Hnb, Hcond. reflexivity. }
    destruct (Hno Hnb) as [Hst Hne].
    destruct (define_relationship fixed (r_ont st) (role_id r) s_parent (policy_id p)) as [o1 e1].
    cbn [fst snd] in *. subst o1. destruct e1; try contradiction; cbn [fst]; destruct st; exact S.
Qed.

Lemma role_valid k : k <> [] -> id_valid (role_id k) = true.
Proof. destruct k; [contradiction|reflexivity]. Qed.
Lemma policy_valid k : k <> [] -> id_valid (policy_id k) = true.
Proof. destruct k; [contradiction|reflexivity]. Qed.

Lemma has_add_rel o r j : has (add_rel o r) j <-> has o j.
Proof. reflexivity. Qed.

Lemma sim_create_role st c k internal allow :
  sim st c -> good_key k ->
  sim (create_role rfixed st k internal allow).1
      (a_apply c (RCreateRole k internal allow)
         (bool_decide ((create_role rfixed st k internal allow).2 = EOk))).
Proof.
  intros S Hk. pose proof S as [Hwf Hsh Hgrp Hsub Hrol Hrolg Hpol Hpolg Hpres Hasg Hatt].
  pose proof (good_key_role _ Hk) as Hgr.
  unfold create_role. destruct (internal && negb allow).
  { cbn [fst snd]. rewrite (bool_decide_eq_false_2 (EValidation = EOk)) by discriminate. exact S. }
  cbn [r_ont r_pols r_roles].
  set (o1 := OSt (<[id_str (role_id k):=role_id k]> (o_res (r_ont st))) (o_rels (r_ont st))).
  assert (Edr : define_resource (r_ont st) (role_id k) = (o1, EOk)).
  { unfold define_resource. rewrite (role_valid k) by apply Hk. reflexivity. }
  rewrite Edr.
  assert (Eo1 : o1 = (define_resource (r_ont st) (role_id k)).1) by (rewrite Edr; reflexivity).
  assert (Hh1 : forall j, good_id j -> has o1 j <-> has (r_ont st) j \/ j = role_id k).
  { intros j Hj. rewrite Eo1. apply has_define_resource; auto. apply role_valid, Hk. }
  assert (Hwf1 : wf o1) by (rewrite Eo1; apply define_resource_wf; auto).
  assert (Hsh1 : forall k0 r, o_rels o1 !! k0 = Some r -> shape r) by exact Hsh.
  assert (Hn : ~ rtc (edge o1) (role_id k) group_id).
  { intros H. apply (rtc_from_role o1 Hsh1) in H as [H|[[p H]|H]].
    - exact (role_ne_group _ (eq_sym H)).
    - exact (policy_ne_group _ (eq_sym H)).
    - exact (sub_ne_group _ H eq_refl). }
  destruct (define_rel_ok fixed o1 group_id (role_id k) eq_refl eq_refl Hwf1 Hsh1 good_group Hgr Hn)
    as [Hok _].
  destruct Hok as [He Hcase]; [split; apply Hh1; auto using good_group|].
  cbn [with_ont rc_ont rfixed fst snd r_pols r_roles]. rewrite He, bd_ok_true. cbn [a_apply].
  assert (Hrel : good_rel (Rel group_id s_parent (role_id k)))
    by (split; [|split]; auto using good_ty_parent, good_group).
  assert (Hlk1 : forall a b, lk o1 a b <-> lk (r_ont st) a b) by (intros; reflexivity).
  destruct Hcase as [[-> Hlk]|[-> Hnlk]].
  - constructor; cbn [r_ont r_pols a_subj a_roles a_pols a_assign a_attach]; auto.
    + apply Hh1; auto using good_group.
    + intros s Hs. rewrite Hh1 by apply Hs. rewrite Hsub by auto. split; [auto|].
      intros [H|H]; [auto|]. exfalso. exact (sub_ne_role _ _ Hs H).
    + intros k' Hk'. rewrite elem_of_cons, Hh1, Hrol by auto with rbac. split.
      * intros [->|H]; auto.
      * intros [H|H]; [auto|]. left. apply role_id_inj, H.
    + intros k' [->|H]%elem_of_cons; auto.
    + intros k' Hk'. rewrite Hh1 by auto with rbac. rewrite <- Hpres by auto. split; [|auto].
      intros [H|H]; [auto|]. exfalso. exact (role_ne_policy _ _ (eq_sym H)).
  - constructor; cbn [r_ont r_pols a_subj a_roles a_pols a_assign a_attach]; auto.
    + apply wf_add_rel; auto; apply Hh1; auto using good_group.
    + intros k0 r' H. cbn [add_rel o_rels] in H. apply lookup_insert_Some in H as [[_ <-]|[_ H]]; eauto.
      constructor; auto.
    + apply Hh1; auto using good_group.
    + intros s Hs. rewrite has_add_rel, Hh1 by apply Hs. rewrite Hsub by auto. split; [auto|].
      intros [H|H]; [auto|]. exfalso. exact (sub_ne_role _ _ Hs H).
    + intros k' Hk'. rewrite has_add_rel, elem_of_cons, Hh1, Hrol by auto with rbac. split.
      * intros [->|H]; auto.
      * intros [H|H]; [auto|]. left. apply role_id_inj, H.
    + intros k' [->|H]%elem_of_cons; auto.
    + intros k' Hk'. rewrite has_add_rel, Hh1 by auto with rbac. rewrite <- Hpres by auto. split; [|auto].
      intros [H|H]; [auto|]. exfalso. exact (role_ne_policy _ _ (eq_sym H)).
    + intros r' s' Hr' Hs'. rewrite lk_add_rel by (auto with rbac; apply Hs'). rewrite Hlk1, Hasg by auto.
      split; [auto|]. intros [H|[E _]]; [auto|]. exfalso. exact (role_ne_group _ E).
    + intros r' p' Hr' Hp'. rewrite lk_add_rel by auto with rbac. rewrite Hlk1, Hatt by auto.
      split; [auto|]. intros [H|[E _]]; [auto|]. exfalso. exact (role_ne_group _ E).
Qed.

Lemma sim_delete_role_ont st c k allow rr :
  sim st c -> good_key k ->
  sim (RSt (delete_resource (r_ont st) (role_id k)).1 (r_pols st) rr)
      (a_apply c (RDeleteRole k allow) true).
Proof.
  intros S Hk. destruct S as [Hwf Hsh Hgrp Hsub Hrol Hrolg Hpol Hpolg Hpres Hasg Hatt].
  pose proof (good_key_role _ Hk) as Hgr. cbn [a_apply].
  constructor; cbn [r_ont r_pols a_subj a_roles a_pols a_assign a_attach]; auto.
  - apply delete_resource_wf; auto.
  - intros k0 r H. apply delete_resource_rels in H as (H & _); eauto.
  - apply has_delete_resource; [exact Hgr|exact good_group|]. split; [exact Hgrp|].
    intros E. exact (role_ne_group _ (eq_sym E)).
  - intros s Hs. rewrite has_delete_resource by (auto; apply Hs). rewrite Hsub by auto.
    split; [|tauto]. intros H. split; [auto|]. exact (sub_ne_role _ _ Hs).
  - intros k' Hk'. rewrite elem_of_list_filter, has_delete_resource by auto with rbac.
    rewrite Hrol by auto. split.
    + intros [Hne H]. split; [auto|]. intros E. apply role_id_inj in E. auto.
    + intros [H Hne]. split; [|auto]. intros ->. auto.
  - intros k' H. apply elem_of_list_filter in H as [_ H]. auto.
  - intros k' Hk'. rewrite has_delete_resource by auto with rbac. rewrite <- Hpres by auto.
    split; [tauto|]. intros H. split; [auto|]. intros E. exact (role_ne_policy _ _ (eq_sym E)).
  - intros r s Hr Hs. rewrite elem_of_list_filter, lk_delete_resource by auto. cbn [fst].
    rewrite Hasg by auto. split.
    + intros [Hne H]. split; [auto|]. split; [|exact (sub_ne_role _ _ Hs)].
      intros E. apply role_id_inj in E. auto.
    + intros (H & Hne & _). split; [|auto]. intros ->. auto.
  - intros r p Hr Hp. rewrite elem_of_list_filter, lk_delete_resource by auto. cbn [fst].
    rewrite Hatt by auto. split.
    + intros [Hne H]. split; [auto|]. split; [|intros E; exact (role_ne_policy _ _ (eq_sym E))].
      intros E. apply role_id_inj in E. auto.
    + intros (H & Hne & _). split; [|auto]. intros ->. auto.
Qed.

Lemma sim_delete_role st c k allow :
  sim st c -> good_key k ->
  sim (delete_role rfixed st k allow).1
      (a_apply c (RDeleteRole k allow) (bool_decide ((delete_role rfixed st k allow).2 = EOk))).
Proof.
  intros S Hk. unfold delete_role. cbn [f12 rfixed].
  destruct (r_roles st !! k) as [[|]|]; [destruct allow| |]; cbn [with_ont fst snd r_ont r_pols r_roles];
    rewrite ?bd_ok_true; try (apply sim_delete_role_ont; auto).
  rewrite (bool_decide_eq_false_2 (EValidation = EOk)) by discriminate. exact S.
Qed.

Lemma sim_create_policy st c k p allow :
  sim st c -> good_key k ->
  sim (create_policy st k p allow).1
      (a_apply c (RCreatePolicy k p allow) (bool_decide ((create_policy st k p allow).2 = EOk))).
Proof.
  intros S Hk. pose proof S as [Hwf Hsh Hgrp Hsub Hrol Hrolg Hpol Hpolg Hpres Hasg Hatt].
  pose proof (good_key_policy _ Hk) as Hgp.
  unfold create_policy. destruct (p_internal p && negb allow).
  { cbn [fst snd]. rewrite (bool_decide_eq_false_2 (EValidation = EOk)) by discriminate. exact S. }
  cbn [with_ont fst snd r_ont r_pols r_roles]. rewrite define_resource_err, (policy_valid k) by apply Hk.
  rewrite bd_ok_true. cbn [a_apply].
  assert (Hh : forall j, good_id j ->
            has (define_resource (r_ont st) (policy_id k)).1 j <-> has (r_ont st) j \/ j = policy_id k).
  { intros j Hj. apply has_define_resource; auto. apply policy_valid, Hk. }
  constructor; cbn [r_ont r_pols a_subj a_roles a_pols a_assign a_attach]; auto.
  - apply define_resource_wf; auto.
  - rewrite define_resource_rels. exact Hsh.
  - apply Hh; auto using good_group.
  - intros s Hs. rewrite Hh by apply Hs. rewrite Hsub by auto. split; [auto|].
    intros [H|H]; [auto|]. exfalso. exact (sub_ne_policy _ _ Hs H).
  - intros k' Hk'. rewrite Hh by auto with rbac. rewrite Hrol by auto. split; [auto|].
    intros [H|H]; [auto|]. exfalso. exact (role_ne_policy _ _ H).
  - intros k' p'. rewrite elem_of_cons, elem_of_list_filter, lookup_insert_Some, Hpol. cbn [fst]. split.
    + intros [[= -> ->]|[Hne H]]; auto.
    + intros [[-> ->]|[Hne H]]; auto.
  - intros k' p' [[= -> ->]|H]%elem_of_cons; [auto|]. apply elem_of_list_filter in H as [_ H]. eauto.
  - intros k' Hk'. rewrite Hh by auto with rbac. rewrite Hpres by auto.
    destruct (decide (k = k')) as [->|Hne].
    + rewrite lookup_insert. split; eauto.
    + rewrite lookup_insert_ne by auto. split; [|auto]. intros [H|H]; [auto|].
      apply policy_id_inj in H. congruence.
  - intros r s Hr Hs. unfold lk. rewrite define_resource_rels. apply Hasg; auto.
  - intros r p' Hr Hp'. unfold lk. rewrite define_resource_rels. apply Hatt; auto.
Qed.

(* deleting several resources *)
Lemma delete_resources_spec ids : forall o,
  wf o -> Forall good_id ids ->
  wf (delete_resources o ids) /\
  (forall j, good_id j -> has (delete_resources o ids) j <-> has o j /\ j ∉ ids) /\
  (forall a b, lk (delete_resources o ids) a b <-> lk o a b /\ a ∉ ids /\ b ∉ ids) /\
  (forall k r, o_rels (delete_resources o ids) !! k = Some r -> o_rels o !! k = Some r).
Proof.
  induction ids as [|x ids IH]; intros o Hwf Hg.
  - cbn [delete_resources fold_left]. split; [auto|]. split; [|split; [|auto]].
    + intros j _. rewrite elem_of_nil. tauto.
    + intros a b. rewrite !elem_of_nil. tauto.
  - apply Forall_cons in Hg as [Hx Hg]. unfold delete_resources. cbn [fold_left].
    fold (delete_resources (delete_resource o x).1 ids).
    destruct (IH (delete_resource o x).1 (delete_resource_wf o x Hwf Hx) Hg) as (I1 & I2 & I3 & I4).
    split; [auto|]. split; [|split].
    + intros j Hj. rewrite I2, has_delete_resource, elem_of_cons by auto. tauto.
    + intros a b. rewrite I3, lk_delete_resource, !elem_of_cons by auto. tauto.
    + intros k r H. apply I4 in H. apply delete_resource_rels in H as (H & _); auto.
Qed.

Lemma lookup_foldr_delete {A} (m : gmap str A) ks k :
  foldr delete m ks !! k = if decide (k ∈ ks) then None else m !! k.
Proof.
  induction ks as [|x ks IH]; cbn [foldr].
  - rewrite decide_False by apply not_elem_of_nil. reflexivity.
  - destruct (decide (x = k)) as [->|Hne].
    + rewrite lookup_delete, decide_True by left. reflexivity.
    + rewrite lookup_delete_ne, IH by auto. destruct (decide (k ∈ ks)) as [Hin|Hnin].
      * rewrite decide_True by (right; auto). reflexivity.
      * rewrite decide_False; [reflexivity|]. intros [->|H]%elem_of_cons; auto.
Qed.

Lemma sim_delete_policies st c ks :
  sim st c -> Forall good_key ks ->
  sim (delete_policies rfixed st ks).1 (a_apply c (RDeletePolicies ks) true).
Proof.
  intros S Hks. destruct S as [Hwf Hsh Hgrp Hsub Hrol Hrolg Hpol Hpolg Hpres Hasg Hatt].
  unfold delete_policies. cbn [f26 rfixed fst a_apply].
  assert (Hg : Forall good_id (policy_id <$> ks)).
  { apply Forall_fmap. eapply Forall_impl; [exact Hks|]. intros k Hk. apply good_key_policy, Hk. }
  destruct (delete_resources_spec (policy_id <$> ks) (r_ont st) Hwf Hg) as (D1 & D2 & D3 & D4).
  assert (Hin : forall k, policy_id k ∈ policy_id <$> ks <-> k ∈ ks).
  { intros k. rewrite elem_of_list_fmap. split.
    - intros (k' & E & H). apply policy_id_inj in E. subst. auto.
    - intros H. eauto. }
  assert (Hnr : forall r, role_id r ∉ policy_id <$> ks).
  { intros r (k' & E & _)%elem_of_list_fmap. exact (role_ne_policy _ _ E). }
  constructor; cbn [r_ont r_pols a_subj a_roles a_pols a_assign a_attach]; auto.
  - intros k r H. apply D4 in H. eauto.
  - apply D2; auto using good_group. split; [auto|].
    intros (k' & E & _)%elem_of_list_fmap. exact (policy_ne_group _ (eq_sym E)).
  - intros s Hs. rewrite D2 by apply Hs. rewrite Hsub by auto. split; [|tauto]. intros H. split; [auto|].
    intros (k' & E & _)%elem_of_list_fmap. exact (sub_ne_policy _ _ Hs E).
  - intros k Hk. rewrite D2 by auto with rbac. rewrite Hrol by auto. split; [|tauto]. intros H. split; auto.
  - intros k p. rewrite elem_of_list_filter, lookup_foldr_delete, Hpol. cbn [fst].
    destruct (decide (k ∈ ks)); split; try tauto; try (intros [? ?]; tauto); intros H; try discriminate; auto.
  - intros k p H. apply elem_of_list_filter in H as [_ H]. eauto.
  - intros k Hk. rewrite D2 by auto with rbac. rewrite Hin, lookup_foldr_delete, Hpres by auto.
    destruct (decide (k ∈ ks)).
    + split; [tauto|]. intros [? H]; discriminate.
    + tauto.
  - intros r s Hr Hs. rewrite D3, Hasg by auto. split; [|tauto]. intros H. split; [auto|]. split; [auto|].
    intros (k' & E & _)%elem_of_list_fmap. exact (sub_ne_policy _ _ Hs E).
  - intros r p Hr Hp. rewrite elem_of_list_filter, D3, Hin, Hatt by auto. cbn [snd]. split.
    + intros [Hn H]. auto.
    + intros (H & _ & Hn). auto.
Qed.

(* the Users group as an additional (non-role) parent *)
Lemma sim_group_add st c b :
  sim st c -> good_id b -> shape (Rel group_id s_parent b) ->
  (forall x, ~ edge (r_ont st) b x) -> b <> group_id ->
  sim (with_ont st (define_relationship fixed (r_ont st) group_id s_parent b)).1 c.
Proof.
  intros S Hb Hshape Hno Hne. pose proof S as [Hwf Hsh Hgrp Hsub Hrol Hrolg Hpol Hpolg Hpres Hasg Hatt].
  assert (Hn : ~ rtc (edge (r_ont st)) b group_id).
  { intros H. apply (rtc_no_out (r_ont st)) in H; auto. }
  destruct (define_rel_ok fixed (r_ont st) group_id b eq_refl eq_refl Hwf Hsh good_group Hb Hn) as [Hok Hno'].
  assert (Hrel : good_rel (Rel group_id s_parent b))
    by (split; [|split]; auto using good_ty_parent, good_group).
  cbn [with_ont fst].
  destruct (decide (has (r_ont st) group_id /\ has (r_ont st) b)) as [Hboth|Hnb].
  - destruct (Hok Hboth) as [_ [[-> _]|[-> _]]]; [destruct st; exact S|].
    constructor; cbn [r_ont r_pols]; auto.
    + apply wf_add_rel; auto; apply Hboth.
    + intros k r' H. cbn [add_rel o_rels] in H. apply lookup_insert_Some in H as [[_ <-]|[_ H]]; eauto.
    + intros r s Hr Hs. rewrite lk_add_rel by (auto with rbac; apply Hs). rewrite Hasg by auto.
      split; [auto|]. intros [H|[E _]]; [auto|]. exfalso. exact (role_ne_group _ E).
    + intros r p Hr Hp. rewrite lk_add_rel by auto with rbac. rewrite Hatt by auto.
      split; [auto|]. intros [H|[E _]]; [auto|]. exfalso. exact (role_ne_group _ E).
  - destruct (Hno' Hnb) as [-> _]. destruct st; exact S.
Qed.

Lemma sim_group_remove st c b :
  sim st c -> good_id b ->
  sim (with_ont st (delete_relationship (r_ont st) group_id s_parent b)).1 c.
Proof.
  intros S Hb. destruct S as [Hwf Hsh Hgrp Hsub Hrol Hrolg Hpol Hpolg Hpres Hasg Hatt].
  assert (Hrel : good_rel (Rel group_id s_parent b))
    by (split; [|split]; auto using good_ty_parent, good_group).
  cbn [with_ont fst]. constructor; cbn [r_ont r_pols]; auto.
  - apply delete_relationship_wf; auto.
  - intros k r' H. cbn [delete_relationship fst o_rels] in H. apply lookup_delete_Some in H as [_ H]. eauto.
  - intros r s Hr Hs. rewrite lk_delete_relationship by auto. rewrite Hasg by auto.
    split; [|tauto]. intros H. split; [auto|]. intros [E _]. exact (role_ne_group _ E).
  - intros r p Hr Hp. rewrite lk_delete_relationship by auto. rewrite Hatt by auto.
    split; [|tauto]. intros H. split; [auto|]. intros [E _]. exact (role_ne_group _ E).
Qed.

Lemma group_target b :
  sub_ok b \/ (id_type b = s_policy /\ good_key (id_key b)) ->
  good_id b /\ shape (Rel group_id s_parent b) /\ b <> group_id /\
  forall o, (forall k r, o_rels o !! k = Some r -> shape r) -> forall x, ~ edge o b x.
Proof.
  intros [Hs|[Ht Hk]].
  - split; [apply Hs|]. split; [constructor; auto|]. split; [apply sub_ne_group; auto|].
    intros o Hsh x. apply no_out_sub; auto.
  - destruct b as [t k]. cbn [id_type id_key] in *. subst t. change (Id s_policy k) with (policy_id k).
    split; [apply good_key_policy, Hk|]. split; [apply sh_gpol; auto|].
    split; [apply policy_ne_group|]. intros o Hsh x. apply no_out_policy; auto.
Qed.

(* ---- histories ---- *)
Definition is_data (o : rop) : bool :=
  match o with RBegin | RCommit | RAbort | REnforce _ _ _ _ => false | _ => true end.

Lemma rapply_sim st c o :
  sim st c -> good_rop o -> is_data o = true ->
  sim (rapply rfixed st o).1 (a_apply c o (bool_decide ((rapply rfixed st o).2 = EOk))).
Proof.
  intros S Ho Hd. destruct o; try discriminate; cbn [rapply good_rop] in *.
  - apply sim_create_role; auto.
  - apply sim_delete_role; auto.
  - apply sim_create_policy; auto.
  - apply sim_delete_policies; auto.
  - destruct Ho. apply sim_set_on_role; auto.
  - destruct Ho. apply sim_assign_role; auto.
  - destruct Ho. apply sim_unassign_role; auto.
  - apply sim_subject; auto.
  - apply sim_del_subject; auto.
  - destruct (group_target b Ho) as (Hg & Hshp & Hne & Hno).
    apply sim_group_add; auto. apply Hno. apply S.
  - destruct (group_target b Ho) as (Hg & _). apply sim_group_remove; auto.
Qed.

Definition sim_sys (s : rsys) (a : asys) : Prop :=
  sim (rs_db s) (as_db a) /\
  match rs_tx s, as_tx a with
  | Some st, Some c => sim st c
  | None, None => True
  | _, _ => False
  end.

Lemma sim_cur s a : sim_sys s a -> sim (rcur s) (acur a).
Proof.
  intros [H1 H2]. unfold rcur, acur. destruct (rs_tx s), (as_tx a); simpl; auto; contradiction.
Qed.

Lemma is_ok_err e : is_ok (OErr e) = bool_decide (e = EOk).
Proof. destruct e; reflexivity. Qed.

Lemma rstep_data s o :
  is_data o = true ->
  rstep rfixed s o = (rset_cur s (rapply rfixed (rcur s) o).1, OErr (rapply rfixed (rcur s) o).2).
Proof.
  intros Hd. destruct o; try discriminate; cbv [rstep]; destruct (rapply rfixed (rcur s) _); reflexivity.
Qed.

Lemma a_step_data a o out :
  is_data o = true ->
  a_step a o out =
  (true, match as_tx a with
         | Some _ => ASys (as_db a) (Some (a_apply (acur a) o (is_ok out)))
         | None => ASys (a_apply (acur a) o (is_ok out)) None
         end).
Proof. intros Hd. destruct o; try discriminate; reflexivity. Qed.

Lemma rstep_sim s a o :
  sim_sys s a -> good_rop o ->
  (a_step a o (rstep rfixed s o).2).1 = true /\
  sim_sys (rstep rfixed s o).1 (a_step a o (rstep rfixed s o).2).2.
Proof.
  intros Hs Ho. destruct (is_data o) eqn:Hd.
  - rewrite (rstep_data s o Hd), (a_step_data a o _ Hd). cbn [fst snd]. split; [auto|].
    rewrite is_ok_err.
    pose proof (rapply_sim (rcur s) (acur a) o (sim_cur _ _ Hs) Ho Hd) as Hn.
    destruct Hs as [H1 H2]. unfold rset_cur. unfold rcur, acur in *.
    destruct (rs_tx s) as [st|], (as_tx a) as [c|]; try contradiction; cbn [default Datatypes.id] in *;
      split; cbn [rs_db rs_tx as_db as_tx]; auto.
  - destruct o; try discriminate; cbn [rstep a_step fst snd].
    + destruct Hs as [H1 H2]. split; [reflexivity|].
      destruct (rs_tx s) as [st|] eqn:E1, (as_tx a) as [c|] eqn:E2; try contradiction.
      * split; [auto|]. rewrite E1, E2. auto.
      * split; cbn [rs_db rs_tx as_db as_tx]; auto.
    + destruct Hs as [H1 H2]. split; [reflexivity|].
      destruct (rs_tx s) as [st|] eqn:E1, (as_tx a) as [c|] eqn:E2; try contradiction.
      * split; cbn [rs_db rs_tx as_db as_tx]; auto.
      * split; [auto|]. rewrite E1, E2. auto.
    + destruct Hs as [H1 H2]. split; [auto|]. split; cbn; auto.
    + split; [|exact Hs]. apply bool_decide_eq_true.
      assert (Hsim : sim (if committed then rs_db s else rcur s) (if committed then as_db a else acur a)).
      { destruct committed; [apply Hs|apply sim_cur, Hs]. }
      destruct (sim_enforce _ _ s0 act objs Hsim Ho) as [Hiff _].
      destruct (permitted_a _ s0 act objs) eqn:Ep.
      * apply bool_decide_eq_true. f_equal. apply Hiff. reflexivity.
      * apply bool_decide_eq_false. intros [= E]. apply Hiff in E. congruence.
Qed.

(* run the model and the reference side by side; every Enforce verdict must agree *)
Fixpoint a_run (s : rsys) (a : asys) (ops : list rop) : bool :=
  match ops with
  | [] => true
  | o :: rest =>
      let r := rstep rfixed s o in
      let r' := a_step a o r.2 in
      r'.1 && a_run r.1 r'.2 rest
  end.

Lemma a_run_ok ops : forall s a, sim_sys s a -> Forall good_rop ops -> a_run s a ops = true.
Proof.
  induction ops as [|o ops IH]; intros s a Hs Hops; [reflexivity|].
  apply Forall_cons in Hops as [Ho Hops]. cbn [a_run].
  destruct (rstep_sim s a o Hs Ho) as [H1 H2]. rewrite H1. simpl. apply IH; auto.
Qed.

Lemma wf_rinit_ont : wf rinit_ont.
Proof.
  assert (E : rinit_ont = add_rel (define_resource init_ost group_id).1 (Rel root_id s_parent group_id)).
  { unfold rinit_ont, add_rel, define_resource, init_ost. simpl. rewrite insert_empty. reflexivity. }
  rewrite E.
  assert (Hw : wf (define_resource init_ost group_id).1)
    by (apply define_resource_wf; [apply wf_init_ost|apply good_group]).
  apply wf_add_rel; auto.
  - split; [apply good_root|split; [apply good_ty_parent|apply good_group]].
  - apply has_define_resource; auto using wf_init_ost, good_group, good_root. left. reflexivity.
  - apply has_define_resource; auto using wf_init_ost, good_group.
  - intros H. apply rtc_inv in H as [H|(y & (k & r & Hk & _) & _)]; [discriminate|].
    simpl in Hk. rewrite lookup_empty in Hk. discriminate.
Qed.

Lemma sim_init : sim_sys rinit (ASys a_empty None).
Proof.
  split; [|exact I]. cbn [rs_db rinit as_db].
  assert (Hrels : forall k r, o_rels rinit_ont !! k = Some r -> r = Rel root_id s_parent group_id).
  { intros k r H. unfold rinit_ont in H. cbn [o_rels] in H.
    apply lookup_singleton_Some in H as [_ <-]. reflexivity. }
  assert (Hhas : forall j, has rinit_ont j -> j = group_id \/ j = root_id).
  { intros j H. unfold has, rinit_ont in H. cbn [o_res] in H.
    apply lookup_insert_Some in H as [[_ <-]|[_ H]]; [auto|].
    apply lookup_singleton_Some in H as [_ <-]. auto. }
  assert (Hlk : forall a b, lk rinit_ont a b -> a = root_id).
  { intros a b H. apply Hrels in H. injection H as -> _. reflexivity. }
  constructor; cbn [r_ont r_pols a_subj a_roles a_pols a_assign a_attach a_empty].
  - apply wf_rinit_ont.
  - intros k r H. apply Hrels in H. subst. constructor.
  - unfold has, rinit_ont. cbn [o_res]. apply lookup_insert.
  - intros s Hs. split; [intros H; inversion H|]. intros H. apply Hhas in H as [->| ->].
    + exfalso. exact (sub_ne_group _ Hs eq_refl).
    + exfalso. exact (sub_ne_root _ Hs eq_refl).
  - intros k Hk. split; [intros H; inversion H|]. intros H. apply Hhas in H as [H|H]; discriminate.
  - intros k H; inversion H.
  - intros k p. rewrite lookup_empty. split; [intros H; inversion H|discriminate].
  - intros k p H; inversion H.
  - intros k Hk. rewrite lookup_empty. split.
    + intros H. apply Hhas in H as [H|H]; discriminate.
    + intros [? H]; discriminate.
  - intros r s Hr Hs. split; [intros H; inversion H|]. intros H. apply Hlk in H. discriminate.
  - intros r p Hr Hp. split; [intros H; inversion H|]. intros H. apply Hlk in H. discriminate.
Qed.

Theorem history_agrees ops :
  Forall good_rop ops -> a_run rinit (ASys a_empty None) ops = true.
Proof. intros H. apply a_run_ok; [apply sim_init|exact H]. Qed.

(* the reference configuration a history leads to (driven by the model's own outcomes) *)
Fixpoint corun (s : rsys) (a : asys) (ops : list rop) : rsys * asys :=
  match ops with
  | [] => (s, a)
  | o :: rest => corun (rstep rfixed s o).1 (a_step a o (rstep rfixed s o).2).2 rest
  end.

Lemma corun_sim ops : forall s a,
  sim_sys s a -> Forall good_rop ops -> sim_sys (corun s a ops).1 (corun s a ops).2.
Proof.
  induction ops as [|o ops IH]; intros s a Hs Hops; [exact Hs|].
  apply Forall_cons in Hops as [Ho Hops]. cbn [corun]. apply IH; auto.
  apply rstep_sim; auto.
Qed.

Lemma corun_model ops : forall s a, (corun s a ops).1 = rrun rfixed s ops.
Proof. induction ops as [|o ops IH]; intros s a; [reflexivity|]. cbn [corun]. rewrite IH. reflexivity. Qed.

Theorem next_check ops sub act objs :
  Forall good_rop ops -> sub_ok sub ->
  let s := rrun rfixed rinit ops in
  let a := (corun rinit (ASys a_empty None) ops).2 in
  (enforce (rcur s) sub act objs = Allow <-> permitted_a (acur a) sub act objs = true) /\
  (enforce (rs_db s) sub act objs = Allow <-> permitted_a (as_db a) sub act objs = true).
Proof.
  intros Hops Hsub s a.
  pose proof (corun_sim ops rinit (ASys a_empty None) sim_init Hops) as Hs.
  rewrite corun_model in Hs. fold s a in Hs. split.
  - apply sim_enforce; auto. apply sim_cur, Hs.
  - apply sim_enforce; auto. apply Hs.
Qed.
