(* Core/GorpOrderedProofs.v — ordered cursor pagination (Retrieve.OrderBy over a SortedIndex):
   the unlimited walk visits exactly the rows a full scan with the cursor predicate returns, in
   the order of the indexed value; a page is the first [limit] of them; a Where filter is a
   post-filter of the page. Stated for readers without pending writes (the documented scope). *)
From Coq Require Import NArith ZArith List Lia.
From stdpp Require Import gmap.
From Synnax Require Import Core.Gorp Core.GorpSpec Core.GorpListProofs Core.GorpLookupProofs
     Core.GorpSortedProofs Core.GorpDeltaProofs Core.GorpFilterProofs Core.GorpSystemProofs
     Core.GorpRefineProofs.
Import ListNotations.
Local Open Scope Z_scope.

Definition rows_of (v : table) (ks : list N) : list row :=
  flat_map (fun k => match v !! k with Some r => [r] | None => [] end) ks.
Definition ent_of (r : row) : Z * N := (rb r, rk r).

Lemma exec_ordered_alt env v x desc cursor limit fo :
  exec_ordered env v x desc cursor limit fo =
  List.filter (rmatch (match fo with Some f => resolve_filter env f | None => f_zero end))
              (rows_of v (s_walk desc cursor limit x)).
Proof.
  unfold exec_ordered, rows_of. generalize (s_walk desc cursor limit x). intros ks.
  induction ks as [|k tl IH]; simpl; [done|]. rewrite List.filter_app, <- IH. f_equal.
  destruct (v !! k) as [r|]; simpl; [|done]. by destruct (rmatch _ r).
Qed.

(* every walked entry names a row of the table carrying that value *)
Definition ents_found (v : table) (w : list (Z * N)) : Prop :=
  forall p, p ∈ w -> exists r, v !! p.2 = Some r /\ ent_of r = p.
Lemma rows_of_ents v w : ents_found v w -> map ent_of (rows_of v (map snd w)) = w.
Proof.
  induction w as [|p tl IH]; intros Hf; simpl; [done|].
  destruct (Hf p) as (r & Hr & He); [by left|]. rewrite Hr. simpl. rewrite He. f_equal.
  apply IH. intros q Hq. apply Hf. by right.
Qed.
Lemma rows_of_take v w n :
  ents_found v w -> rows_of v (take n (map snd w)) = take n (rows_of v (map snd w)).
Proof.
  revert n. induction w as [|p tl IH]; intros n Hf; simpl.
  - by rewrite !take_nil.
  - destruct (Hf p) as (r & Hr & He); [by left|]. destruct n as [|n]; simpl; [done|].
    rewrite Hr. simpl. f_equal. apply IH. intros q Hq. apply Hf. by right.
Qed.
Lemma rows_of_lim_take v w limit :
  ents_found v w -> rows_of v (lim_take limit (map snd w)) = lim_take limit (rows_of v (map snd w)).
Proof. intros Hf. destruct limit; [done|]. by apply rows_of_take. Qed.

Lemma lsorted_map {A B} (g : A -> B) (leb : B -> B -> bool) l :
  lsorted leb (map g l) -> lsorted (fun a b => leb (g a) (g b)) l.
Proof.
  induction l as [|x t IH]; simpl; [done|]. intros [Hx Ht]. split; [|by apply IH].
  intros b Hb. apply Hx. apply elem_of_list_fmap. by exists b.
Qed.

Definition dir_rows_leb (desc : bool) (a b : row) : bool := dir_leb desc (ent_of a) (ent_of b).

Lemma past_cursor_b desc cursor v :
  past_cursor desc cursor v <->
  match cursor with None => true | Some c => if desc then Z.ltb v c else Z.ltb c v end = true.
Proof.
  unfold past_cursor. destruct cursor as [c|]; [|done]. destruct desc; by rewrite Z.ltb_lt.
Qed.

Section ordered.
  Context (s : st) (t : nat) (Hc : coh s) (Hview : view s t = rows s).
  Context (desc : bool) (cursor : option Z).

  Let w := walk_full desc cursor (s_ents (si s)).
  Definition full_walk : list row := rows_of (rows s) (map snd w).

  Lemma walk_found : ents_found (rows s) w.
  Proof.
    intros [val k] Hp. unfold w in Hp.
    apply walk_full_elem in Hp as [Hp _]; [|apply (swf_sorted _ (coh_swf _ Hc))].
    apply (swf_iff _ (coh_swf _ Hc)) in Hp. rewrite (coh_srev _ Hc), lookup_fmap in Hp.
    destruct (rows s !! k) as [r|] eqn:E; [|done]. simpl in Hp. injection Hp as <-.
    exists r. split; [done|]. unfold ent_of. by rewrite (coh_key _ Hc _ _ E).
  Qed.

  Lemma full_walk_ents : map ent_of full_walk = w.
  Proof. apply rows_of_ents, walk_found. Qed.

  (* exactly the rows a scan with the cursor predicate returns ... *)
  Theorem full_walk_perm : full_walk ≡ₚ sp_select (abs s) t (ord_holds desc cursor None).
  Proof.
    rewrite select_view, Hview. apply NoDup_Permutation.
    - apply NoDup_of_keys.
      assert (E : map rk full_walk = map snd (map ent_of full_walk)) by (rewrite map_map; by apply map_ext).
      rewrite E, full_walk_ents. apply walk_full_nodup, (swf_nodup _ (coh_swf _ Hc)).
    - apply NoDup_lfilter, sorted_rows_nodup, (coh_key _ Hc).
    - intros r. rewrite elem_of_lfilter, in_view_iff by apply (coh_key _ Hc).
      assert (Hin : r ∈ full_walk <-> ent_of r ∈ w /\ rows s !! rk r = Some r).
      { split.
        - intros Hr. split; [rewrite <- full_walk_ents; apply elem_of_list_fmap; by exists r|].
          unfold full_walk, rows_of in Hr. apply flat_map_elem in Hr as (k & Hk & Hr).
          destruct (rows s !! k) as [r'|] eqn:E; [|by apply elem_of_nil in Hr].
          apply elem_of_list_singleton in Hr. subst r'. by rewrite (coh_key _ Hc _ _ E).
        - intros [Hw Hr]. unfold full_walk, rows_of. apply flat_map_elem. exists (rk r).
          split; [apply elem_of_list_fmap; by exists (ent_of r)|]. rewrite Hr. by left. }
      rewrite Hin. unfold w. rewrite walk_full_elem by apply (swf_sorted _ (coh_swf _ Hc)).
      unfold ent_of. rewrite (swf_iff _ (coh_swf _ Hc)), (coh_srev _ Hc), lookup_fmap. simpl.
      unfold ord_holds. rewrite andb_true_r, past_cursor_b. split.
      + intros [[_ Hp] Hr]. by split.
      + intros [Hr Hp]. split; [|done]. split; [by rewrite Hr|done].
  Qed.
  (* ... in the order of the indexed value *)
  Theorem full_walk_sorted : lsorted (dir_rows_leb desc) full_walk.
  Proof.
    apply (lsorted_map ent_of (dir_leb desc)). rewrite full_walk_ents.
    apply walk_full_sorted, (swf_sorted _ (coh_swf _ Hc)).
  Qed.

  (* a page: the first [limit] walked rows, post-filtered by the Where filter *)
  Theorem page_spec limit fo :
    exec_ordered (renv_of s t) (view s t) (si s) desc cursor limit (option_map build fo) =
    List.filter (fun r => match fo with Some f => holds f r | None => true end)
                (lim_take limit full_walk).
  Proof.
    rewrite exec_ordered_alt, Hview, s_walk_full. fold w.
    rewrite rows_of_lim_take by apply walk_found. fold full_walk.
    apply List.filter_ext_in. intros r Hr.
    assert (Hv : rows s !! rk r = Some r).
    { assert (Hr' : r ∈ full_walk).
      { apply elem_of_list_In in Hr. destruct limit; simpl in Hr; [done|].
        apply elem_of_take in Hr as (i & Hi & _). by eapply elem_of_list_lookup_2. }
      unfold full_walk, rows_of in Hr'. apply flat_map_elem in Hr' as (k & Hk & Hr').
      destruct (rows s !! k) as [r'|] eqn:E; [|by apply elem_of_nil in Hr'].
      apply elem_of_list_singleton in Hr'. subst r'. by rewrite (coh_key _ Hc _ _ E). }
    destruct fo as [f|]; simpl; [|done].
    rewrite <- Hview in Hv. apply (rmatch_resolved _ _ f (coh_env_ok s t Hc)). done.
  Qed.
End ordered.
