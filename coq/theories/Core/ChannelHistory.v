(* Core/ChannelHistory.v — whole histories: the invariant holds after every operation, keys of new
   channels are new, embed their leaseholder, and a key that disappeared never comes back. *)
From stdpp Require Import gmap strings sorting.
From Coq Require Import NArith Lia.
From Synnax Require Import Generated.Consts_C15 Core.Channel Core.ChannelKeys Core.ChannelAssign Core.ChannelInv
  Core.ChannelShrink Core.ChannelCreate.
Local Open Scope N_scope.

(* a key is in use: a metadata row or a channel of some node's engine carries it *)
Definition seen (s : st) (k : N) : Prop :=
  is_Some (s_tab s !! k) \/ exists n, is_Some (eng_of s n !! k).

Lemma op_wf_ext s s' o : ext s s' -> op_wf s o -> op_wf s' o.
Proof. intros E H. unfold op_wf in *. apply (ext_nodes _ _ E), H. Qed.

Lemma run_ext validate : forall ops s,
  Inv s -> Forall (op_wf s) ops -> ext s (run true validate s ops) /\ Inv (run true validate s ops).
Proof.
  induction ops as [|o ops IH]; intros s I Hwf; cbn [run].
  - split; [apply ext_refl|exact I].
  - inversion Hwf as [|? ? Ho Hops]; subst.
    destruct (step true validate s o) as [s1 r] eqn:E1. cbn [fst].
    pose proof (step_ext _ _ _ _ _ I Ho E1) as X1.
    pose proof (Inv_ext _ _ I X1) as I1.
    destruct (IH s1 I1) as [X2 I2].
    { eapply Forall_impl; [exact Hops|]. intros o' Ho'. eapply op_wf_ext; eassumption. }
    split; [eapply ext_trans; eassumption|exact I2].
Qed.

Lemma run_app fixed validate ops1 ops2 s :
  run fixed validate s (ops1 ++ ops2) = run fixed validate (run fixed validate s ops1) ops2.
Proof. revert s; induction ops1 as [|o ops1 IH]; intros s; cbn [run app]; [reflexivity|apply IH]. Qed.

(* what the invariant says about a key in use *)
Lemma seen_decode s k : Inv s -> seen s k ->
  exists lease lkey, k = new_key lease lkey /\ lease <= node_free /\ 0 < lkey /\ lkey <= ctr_of s lease /\
                     lkey <= max_local /\ lease_ok s lease.
Proof.
  intros I [[c Hc]|[n Hn]].
  - destruct (inv_tab _ I k c Hc) as (-> & Hl & Hpos & Hle).
    exists (c_lease c), (c_lkey c). split; [reflexivity|]. split.
    + destruct Hl as [->|Hnode]; [lia|]. destruct (inv_nodes _ I _ Hnode). lia.
    + pose proof (inv_ctr _ I (c_lease c)). repeat split; try assumption; lia.
  - destruct (inv_eng _ I n k Hn) as (Hnode & lk & -> & Hpos & Hle).
    exists n, lk. split; [reflexivity|]. destruct (inv_nodes _ I _ Hnode).
    pose proof (inv_ctr _ I n). repeat split; try assumption; try lia. right. assumption.
Qed.

(* a key that appears was never handed out before: its local part is above the old counter *)
Lemma ext_new_key s s' k : Inv s -> ext s s' -> seen s' k -> ~ seen s k ->
  exists lease lkey, k = new_key lease lkey /\ lease <= node_free /\ lkey <= max_local /\
                     lease_ok s lease /\ ctr_of s lease < lkey /\ lkey <= ctr_of s' lease.
Proof.
  intros I E Hs' Hns. pose proof (Inv_ext _ _ I E) as I'.
  destruct Hs' as [[c Hc]|[n Hn]].
  - destruct (ext_tab _ _ E k c Hc) as [(c0 & H0 & _)|(-> & Hl & Hlo & Hhi)].
    + exfalso. apply Hns. left. eauto.
    + exists (c_lease c), (c_lkey c). pose proof (inv_ctr _ I' (c_lease c)).
      split; [reflexivity|]. split.
      * destruct Hl as [->|Hnode]; [lia|]. destruct (inv_nodes _ I _ Hnode). lia.
      * repeat split; try assumption; lia.
  - destruct (ext_eng _ _ E n k Hn) as [H0|(Hnode & lk & -> & Hl & Hlo & Hhi)].
    + exfalso. apply Hns. right. eauto.
    + exists n, lk. pose proof (inv_ctr _ I' n). destruct (inv_nodes _ I _ Hnode).
      split; [reflexivity|]. repeat split; try assumption; lia.
Qed.

Theorem new_keys_fresh validate s o s' r k :
  Inv s -> op_wf s o -> step true validate s o = (s', r) -> seen s' k -> ~ seen s k ->
  exists lease lkey, k = new_key lease lkey /\ leaseholder k = lease /\ local_key k = lkey /\
                     lease_ok s lease /\ ctr_of s lease < lkey /\ lkey <= ctr_of s' lease.
Proof.
  intros I Hwf E Hs' Hns.
  destruct (ext_new_key _ _ _ I (step_ext _ _ _ _ _ I Hwf E) Hs' Hns) as (l & lk & -> & Hl & Hk & Hok & Hlo & Hhi).
  exists l, lk. rewrite leaseholder_new_key, local_key_new_key by assumption. repeat split; assumption.
Qed.

(* once gone, a key is never used again, whatever happens afterwards *)
Theorem keys_never_reused validate s ops1 ops2 ops3 k :
  Inv s -> Forall (op_wf s) (ops1 ++ ops2 ++ ops3) ->
  let s1 := run true validate s ops1 in
  let s2 := run true validate s1 ops2 in
  let s3 := run true validate s2 ops3 in
  seen s1 k -> ~ seen s2 k -> ~ seen s3 k.
Proof.
  intros I Hwf s1 s2 s3 H1 H2 H3.
  apply Forall_app in Hwf as [Hw1 Hw23]. apply Forall_app in Hw23 as [Hw2 Hw3].
  destruct (run_ext validate ops1 s I Hw1) as [X1 I1]. fold s1 in X1, I1.
  assert (Hw2' : Forall (op_wf s1) ops2) by (eapply Forall_impl; [exact Hw2|]; intros o Ho; eapply op_wf_ext; eassumption).
  destruct (run_ext validate ops2 s1 I1 Hw2') as [X2 I2]. fold s2 in X2, I2.
  assert (Hw3' : Forall (op_wf s2) ops3).
  { eapply Forall_impl; [exact Hw3|]. intros o Ho. eapply op_wf_ext; [exact X2|]. eapply op_wf_ext; eassumption. }
  destruct (run_ext validate ops3 s2 I2 Hw3') as [X3 I3]. fold s3 in X3, I3.
  destruct (seen_decode _ _ I1 H1) as (l1 & k1 & -> & Hl1 & Hp1 & Hc1 & Hm1 & _).
  destruct (ext_new_key _ _ _ I2 X3 H3 H2) as (l3 & k3 & Heq & Hl3 & Hm3 & _ & Hlo & _).
  apply new_key_inj in Heq as [<- <-]; try assumption.
  pose proof (ext_ctr _ _ X2 l1). lia.
Qed.

(* two different rows never share a key, and a row's key is made of its own leaseholder and
   local key *)
Theorem rows_keyed s k1 k2 c1 c2 :
  Inv s -> s_tab s !! k1 = Some c1 -> s_tab s !! k2 = Some c2 ->
  (k1 = k2 <-> (c_lease c1 = c_lease c2 /\ c_lkey c1 = c_lkey c2)) /\
  leaseholder k1 = c_lease c1 /\ local_key k1 = c_lkey c1.
Proof.
  intros I H1 H2.
  destruct (inv_tab _ I _ _ H1) as (-> & Hl1 & Hp1 & Hc1).
  destruct (inv_tab _ I _ _ H2) as (-> & Hl2 & Hp2 & Hc2).
  assert (B1 : c_lease c1 <= node_free /\ c_lkey c1 <= max_local).
  { pose proof (inv_ctr _ I (c_lease c1)). split; [|lia].
    destruct Hl1 as [->|Hn]; [lia|]. destruct (inv_nodes _ I _ Hn). lia. }
  assert (B2 : c_lease c2 <= node_free /\ c_lkey c2 <= max_local).
  { pose proof (inv_ctr _ I (c_lease c2)). split; [|lia].
    destruct Hl2 as [->|Hn]; [lia|]. destruct (inv_nodes _ I _ Hn). lia. }
  destruct B1, B2. unfold chan_key. split; [split|].
  - intros He. apply new_key_inj in He; assumption.
  - intros [-> ->]. reflexivity.
  - split; [apply leaseholder_new_key|apply local_key_new_key]; assumption.
Qed.

(* every channel of node n's engine has n as the leaseholder part of its key *)
Theorem engine_keys_local s n k : Inv s -> is_Some (eng_of s n !! k) -> leaseholder k = n.
Proof.
  intros I H. destruct (inv_eng _ I n k H) as (Hn & lk & -> & Hp & Hle).
  destruct (inv_nodes _ I _ Hn). pose proof (inv_ctr _ I n).
  apply leaseholder_new_key; lia.
Qed.
