(* Core/OntologyStr.v — byte-string facts behind the relationship key layout
   from ++ "->" ++ type ++ "->" ++ to: for components that do not contain the separator, the
   prefix scan selects exactly the relationships leaving an id, the suffix scan exactly those
   entering it, the key is injective and ParseRelationship inverts it. *)
From stdpp Require Import gmap.
From Coq Require Import NArith.
From Synnax Require Import Core.Ontology.
Local Open Scope N_scope.

Lemma is_prefix_spec p s : is_prefix p s = true <-> exists r, s = p ++ r.
Proof.
  revert s; induction p as [|x p IH]; intros s; simpl.
  - split; eauto.
  - destruct s as [|y s].
    + split; [discriminate|]. intros [r Hr]; discriminate.
    + rewrite andb_true_iff, N.eqb_eq, IH. split.
      * intros [-> [r ->]]. eauto.
      * intros [r Hr]. injection Hr as -> ->. eauto.
Qed.

Lemma is_prefix_app p r : is_prefix p (p ++ r) = true.
Proof. apply is_prefix_spec; eauto. Qed.

Lemma is_suffix_spec p s : is_suffix p s = true <-> exists l, s = l ++ p.
Proof.
  unfold is_suffix. rewrite is_prefix_spec. split.
  - intros [r Hr]. exists (rev r).
    rewrite <- (rev_involutive s), Hr, rev_app_distr, rev_involutive. reflexivity.
  - intros [l ->]. exists (rev l). apply rev_app_distr.
Qed.

(* ---- adjacency of two bytes ---- *)
Definition has_adj (c1 c2 : N) (s : str) : Prop := exists l r, s = l ++ c1 :: c2 :: r.

Lemma has_adj_rev c1 c2 s : has_adj c1 c2 s -> has_adj c2 c1 (rev s).
Proof.
  intros (l & r & ->). exists (rev r), (rev l).
  rewrite rev_app_distr. simpl. rewrite <- !app_assoc. reflexivity.
Qed.

Lemma has_adj_cons c1 c2 x s :
  has_adj c1 c2 (x :: s) <-> (x = c1 /\ exists r, s = c2 :: r) \/ has_adj c1 c2 s.
Proof.
  split.
  - intros (l & r & H). destruct l as [|y l]; simpl in H.
    + injection H as -> ->. left; eauto.
    + injection H as -> ->. right. exists l, r; reflexivity.
  - intros [[-> [r ->]]|(l & r & ->)].
    + exists [], r; reflexivity.
    + exists (x :: l), r; reflexivity.
Qed.

Lemma split2_none c1 c2 s : split2 c1 c2 s = None <-> ~ has_adj c1 c2 s.
Proof.
  induction s as [|x s IH].
  - simpl. split; [|reflexivity]. intros _ (l & r & H). destruct l; discriminate.
  - rewrite has_adj_cons. destruct s as [|y s'].
    + simpl. split; [|reflexivity]. intros _ [[_ [r Hr]]|(l & r & H)]; [discriminate|].
      destruct l; discriminate.
    + change (split2 c1 c2 (x :: y :: s')) with
        (if (x =? c1) && (y =? c2) then Some ([], s')
         else match split2 c1 c2 (y :: s') with
              | Some (a, b) => Some (x :: a, b) | None => None end).
      destruct ((x =? c1) && (y =? c2)) eqn:E.
      * apply andb_true_iff in E as [->%N.eqb_eq ->%N.eqb_eq].
        split; [discriminate|]. intros H. exfalso. apply H. left; eauto.
      * destruct (split2 c1 c2 (y :: s')) as [[a b]|] eqn:E2.
        -- split; [discriminate|]. intros H. exfalso.
           assert (Hn : ~ has_adj c1 c2 (y :: s')) by tauto.
           apply IH in Hn. discriminate.
        -- split; [|reflexivity]. intros _ [[-> [r Hr]]|H].
           ++ injection Hr as -> ->. rewrite !N.eqb_refl in E. discriminate.
           ++ apply IH in H; auto.
Qed.

Lemma split2_app c1 c2 s r :
  c1 <> c2 -> split2 c1 c2 s = None -> split2 c1 c2 (s ++ c1 :: c2 :: r) = Some (s, r).
Proof.
  intros Hne. induction s as [|x s IH]; intros Hs.
  - simpl. rewrite !N.eqb_refl. reflexivity.
  - assert (Hs' : split2 c1 c2 s = None).
    { apply split2_none. intros H. apply split2_none in Hs. apply Hs.
      apply has_adj_cons. auto. }
    specialize (IH Hs').
    destruct s as [|y s'].
    + simpl. rewrite !N.eqb_refl. simpl.
      destruct (x =? c1) eqn:E1; simpl.
      * destruct (c1 =? c2) eqn:E2; [apply N.eqb_eq in E2; contradiction|]. reflexivity.
      * reflexivity.
    + change ((x :: y :: s') ++ c1 :: c2 :: r) with (x :: y :: (s' ++ c1 :: c2 :: r)).
      change (split2 c1 c2 (x :: y :: (s' ++ c1 :: c2 :: r))) with
        (if (x =? c1) && (y =? c2) then Some ([], s' ++ c1 :: c2 :: r)
         else match split2 c1 c2 (y :: (s' ++ c1 :: c2 :: r)) with
              | Some (a, b) => Some (x :: a, b) | None => None end).
      destruct ((x =? c1) && (y =? c2)) eqn:E.
      * apply andb_true_iff in E as [->%N.eqb_eq ->%N.eqb_eq].
        exfalso. apply split2_none in Hs. apply Hs. exists [], s'. reflexivity.
      * change (y :: (s' ++ c1 :: c2 :: r)) with ((y :: s') ++ c1 :: c2 :: r).
        rewrite IH. reflexivity.
Qed.

(* equal decompositions around the first separator *)
Lemma sep_split_inj c1 c2 a b x y :
  c1 <> c2 -> split2 c1 c2 a = None -> split2 c1 c2 b = None ->
  a ++ c1 :: c2 :: x = b ++ c1 :: c2 :: y -> a = b /\ x = y.
Proof.
  intros Hne Ha Hb H.
  pose proof (split2_app c1 c2 a x Hne Ha) as H1.
  pose proof (split2_app c1 c2 b y Hne Hb) as H2.
  rewrite H in H1. rewrite H1 in H2. injection H2 as -> ->. auto.
Qed.

Lemma dash_ne_gt : c_dash <> c_gt.
Proof. discriminate. Qed.
Lemma gt_ne_dash : c_gt <> c_dash.
Proof. discriminate. Qed.

Lemma no_sep_rev s : no_sep s = true -> split2 c_gt c_dash (rev s) = None.
Proof.
  unfold no_sep, split_sep. destruct (split2 c_dash c_gt s) eqn:E; [discriminate|]. intros _.
  apply split2_none. intros H. apply has_adj_rev in H. rewrite rev_involutive in H.
  apply split2_none in E. contradiction.
Qed.

Lemma no_sep_none s : no_sep s = true <-> split_sep s = None.
Proof. unfold no_sep. destruct (split_sep s); split; congruence. Qed.

Lemma split_sep_app s r : no_sep s = true -> split_sep (s ++ sep ++ r) = Some (s, r).
Proof. intros H. apply (split2_app c_dash c_gt s r dash_ne_gt). apply no_sep_none, H. Qed.

(* ---- identifiers ---- *)
Definition good_id (i : id) : Prop :=
  id_type i <> [] /\ c_colon ∉ id_type i /\ no_sep (id_str i) = true.
Definition good_ty (ty : str) : Prop := no_sep ty = true.
Definition good_rel (r : rel) : Prop := good_id (r_from r) /\ good_ty (r_type r) /\ good_id (r_to r).

Global Instance good_id_dec i : Decision (good_id i).
Proof. unfold good_id. apply _. Defined.
Global Instance good_ty_dec t : Decision (good_ty t).
Proof. unfold good_ty. apply _. Defined.

Lemma split_colon_app t k : c_colon ∉ t -> split_colon (t ++ c_colon :: k) = Some (t, k).
Proof.
  induction t as [|x t IH]; intros H; simpl.
  - reflexivity.
  - destruct (x =? c_colon) eqn:E.
    + apply N.eqb_eq in E. subst. exfalso. apply H. left.
    + rewrite IH; [reflexivity|]. intros Hin. apply H. right. exact Hin.
Qed.

Lemma parse_id_str i : good_id i -> parse_id (id_str i) = Some i.
Proof.
  intros (Hne & Hc & _). unfold parse_id, id_str. rewrite split_colon_app by exact Hc.
  destruct i as [t k]; simpl in *. destruct t; [contradiction|reflexivity].
Qed.

Lemma id_str_inj i j : good_id i -> good_id j -> id_str i = id_str j -> i = j.
Proof.
  intros Hi Hj H. apply parse_id_str in Hi, Hj. rewrite H in Hi. congruence.
Qed.

(* ---- relationship keys ---- *)
Lemma rel_key_split r :
  good_rel r ->
  split_sep (rel_key r) = Some (id_str (r_from r), r_type r ++ sep ++ id_str (r_to r)) /\
  split_sep (r_type r ++ sep ++ id_str (r_to r)) = Some (r_type r, id_str (r_to r)) /\
  split_sep (id_str (r_to r)) = None.
Proof.
  intros ((_ & _ & Hf) & Ht & (_ & _ & Hto)). unfold rel_key. split; [|split].
  - apply split_sep_app, Hf.
  - apply split_sep_app, Ht.
  - apply no_sep_none, Hto.
Qed.

Lemma parse_rel_key r : good_rel r -> parse_rel (rel_key r) = Some r.
Proof.
  intros H. destruct (rel_key_split r H) as (H1 & H2 & H3).
  unfold parse_rel. rewrite H1, H2, H3.
  destruct H as (Hf & _ & Ht). rewrite (parse_id_str _ Hf), (parse_id_str _ Ht).
  destruct r; reflexivity.
Qed.

Lemma rel_key_inj r r' : good_rel r -> good_rel r' -> rel_key r = rel_key r' -> r = r'.
Proof.
  intros H H' E. apply parse_rel_key in H, H'. rewrite E in H. congruence.
Qed.

(* the prefix scan id ++ "->" selects exactly the relationships leaving the id *)
Lemma prefix_from i r :
  good_id i -> good_rel r ->
  is_prefix (id_str i ++ sep) (rel_key r) = true <-> r_from r = i.
Proof.
  intros Hi Hr. split.
  - intros [x Hx]%is_prefix_spec. unfold rel_key in Hx. rewrite <- app_assoc in Hx.
    destruct Hi as (Hi1 & Hi2 & Hi3). destruct Hr as (Hf & _ & _).
    destruct (sep_split_inj c_dash c_gt _ _ _ _ dash_ne_gt
                (proj1 (no_sep_none _) (proj2 (proj2 Hf))) (proj1 (no_sep_none _) Hi3) Hx) as [E _].
    apply id_str_inj; auto. split; auto.
  - intros <-. unfold rel_key. rewrite app_assoc. apply is_prefix_app.
Qed.

(* the children scan id ++ "->parent->" selects the relationships of that type leaving the id *)
Lemma prefix_from_ty i ty r :
  good_id i -> good_ty ty -> good_rel r ->
  is_prefix (id_str i ++ sep ++ ty ++ sep) (rel_key r) = true <-> r_from r = i /\ r_type r = ty.
Proof.
  intros Hi Hty Hr. split.
  - intros [x Hx]%is_prefix_spec. unfold rel_key in Hx. rewrite <- !app_assoc in Hx.
    destruct Hr as (Hf & Ht & _).
    destruct (sep_split_inj c_dash c_gt _ _ _ _ dash_ne_gt
                (proj1 (no_sep_none _) (proj2 (proj2 Hf)))
                (proj1 (no_sep_none _) (proj2 (proj2 Hi))) Hx) as [E1 E2].
    destruct (sep_split_inj c_dash c_gt _ _ _ _ dash_ne_gt
                (proj1 (no_sep_none _) Ht) (proj1 (no_sep_none _) Hty) E2) as [E3 _].
    split; [apply id_str_inj; auto|exact E3].
  - intros [<- <-]. unfold rel_key. rewrite !app_assoc. apply is_prefix_app.
Qed.

(* the suffix scan "->" ++ id selects exactly the relationships entering the id *)
Lemma suffix_to i r :
  good_id i -> good_rel r ->
  is_suffix (sep ++ id_str i) (rel_key r) = true <-> r_to r = i.
Proof.
  intros Hi Hr. split.
  - intros [l Hl]%is_suffix_spec.
    apply (f_equal (@rev N)) in Hl. unfold rel_key in Hl.
    rewrite !rev_app_distr in Hl. simpl in Hl. rewrite <- !app_assoc in Hl. simpl in Hl.
    destruct Hr as (_ & _ & Ht).
    destruct (sep_split_inj c_gt c_dash _ _ _ _ gt_ne_dash
                (no_sep_rev _ (proj2 (proj2 Ht))) (no_sep_rev _ (proj2 (proj2 Hi))) Hl) as [E _].
    apply id_str_inj; auto. rewrite <- (rev_involutive (id_str (r_to r))), E. apply rev_involutive.
  - intros <-. apply is_suffix_spec. exists (id_str (r_from r) ++ sep ++ r_type r).
    unfold rel_key. rewrite <- !app_assoc. reflexivity.
Qed.
