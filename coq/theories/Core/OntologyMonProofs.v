(* Core/OntologyMonProofs.v — the graph search used by the C16 monitor is correct:
   [reachable E a] lists exactly the vertices reachable from [a] by one or more edges of the
   observed edge list [E] (any graph, cyclic or not), and [acyclic_obs] decides acyclicity. *)
From stdpp Require Import gmap relations.
From Coq Require Import NArith Lia.
From Synnax Require Import Common.Base Core.Ontology Core.OntologyProofs Monitors.Mon_C16.
Local Open Scope N_scope.

Definition ledge (E : list rel) (x y : id) : Prop :=
  exists r, r ∈ E /\ r_from r = x /\ r_to r = y.

Lemma elem_of_succs E a y : y ∈ succs E a <-> ledge E a y.
Proof.
  unfold succs, ledge. rewrite elem_of_list_fmap. split.
  - intros (r & -> & H). apply elem_of_list_filter in H as [H1 H2]. eauto.
  - intros (r & H & H1 & H2). exists r. split; [auto|]. apply elem_of_list_filter. auto.
Qed.

(* ---- walks ---- *)
Section walks.
  Context {A : Type} `{!EqDecision A} (R : relation A).

  Lemma walk_app a l1 v l2 :
    walk R a (l1 ++ [v]) -> walk R v l2 -> walk R a (l1 ++ v :: l2).
  Proof.
    revert a. induction l1 as [|x l1 IH]; intros a H1 H2; simpl in *.
    - inversion H1; subst. constructor; auto.
    - inversion H1; subst. constructor; auto.
  Qed.

  Lemma walk_app_inv a l1 v l2 :
    walk R a (l1 ++ v :: l2) -> walk R a (l1 ++ [v]) /\ walk R v l2.
  Proof.
    revert a. induction l1 as [|x l1 IH]; intros a H; simpl in *.
    - inversion H; subst. split; [constructor; [auto|constructor]|auto].
    - inversion H; subst. destruct (IH _ H4) as [I1 I2]. split; [constructor; auto|auto].
  Qed.

  Lemma walk_snoc a l z y : walk R a l -> last l = Some z -> R z y -> walk R a (l ++ [y]).
  Proof.
    intros Hw Hl Hr. destruct l as [|x l] using rev_ind; [discriminate|].
    rewrite last_snoc in Hl. injection Hl as ->. rewrite <- app_assoc. simpl.
    apply walk_app; [auto|]. constructor; [auto|constructor].
  Qed.

  Lemma dup_split (l : list A) : ~ NoDup l -> exists v l1 l2 l3, l = l1 ++ v :: l2 ++ v :: l3.
  Proof.
    induction l as [|x l IH]; intros H.
    - exfalso. apply H. constructor.
    - destruct (decide (x ∈ l)) as [Hin|Hnin].
      + apply elem_of_list_split in Hin as (l2 & l3 & ->). exists x, [], l2, l3. reflexivity.
      + destruct IH as (v & l1 & l2 & l3 & ->).
        { intros Hnd. apply H. constructor; auto. }
        exists v, (x :: l1), l2, l3. reflexivity.
  Qed.

  (* [conn k a y]: a walk of 1..k edges from a ends in y *)
  Definition conn (k : nat) (a y : A) : Prop :=
    exists l, walk R a l /\ (length l <= k)%nat /\ last l = Some y.

  Lemma conn_mono k k' a y : (k <= k')%nat -> conn k a y -> conn k' a y.
  Proof. intros Hk (l & H1 & H2 & H3). exists l. split; [auto|split; [lia|auto]]. Qed.

  Lemma conn_tc k a y : conn k a y -> tc R a y.
  Proof.
    intros (l & Hw & _ & Hl). eapply walk_tc; [exact Hw|].
    destruct l as [|x l] using rev_ind; [discriminate|].
    rewrite last_snoc in Hl. injection Hl as ->. apply elem_of_app. right. left.
  Qed.

  Lemma tc_conn a y : tc R a y -> exists k, conn k a y.
  Proof.
    induction 1 as [a y H|a b y H _ (k & l & Hw & Hk & Hl)].
    - exists 1%nat, [y]. split; [constructor; [auto|constructor]|split; [simpl; lia|reflexivity]].
    - exists (S k), (b :: l). split; [constructor; auto|split; [simpl; lia|]].
      destruct l; [discriminate|exact Hl].
  Qed.

  Lemma conn_step k a y :
    (1 <= k)%nat -> conn (S k) a y <-> conn k a y \/ exists z, conn k a z /\ R z y.
  Proof.
    intros Hk. split.
    - intros (l & Hw & Hlen & Hl). destruct (decide (length l <= k)%nat) as [Hle|Hgt].
      + left. exists l. auto.
      + right. destruct l as [|y' l'] using rev_ind; [discriminate|].
        rewrite last_snoc in Hl. injection Hl as ->. rewrite app_length in Hlen, Hgt. simpl in *.
        destruct l' as [|z l''] using rev_ind; [simpl in *; lia|].
        rewrite <- app_assoc in Hw. simpl in Hw. apply walk_app_inv in Hw as [Hw1 Hw2].
        inversion Hw2; subst. exists z. split; [|auto].
        exists (l'' ++ [z]). split; [auto|split; [rewrite app_length in *; simpl in *; lia|apply last_snoc]].
    - intros [H|(z & (l & Hw & Hlen & Hl) & Hr)].
      + eapply conn_mono; [|exact H]. lia.
      + exists (l ++ [y]). split; [eapply walk_snoc; eauto|].
        split; [rewrite app_length; simpl; lia|apply last_snoc].
  Qed.

  (* a walk longer than the number of possible targets can be shortened *)
  Lemma conn_shorten (T : list A) a y :
    (forall l, walk R a l -> l ⊆ T) -> forall k, conn k a y -> conn (length T) a y.
  Proof.
    intros HT k (l & Hw & _ & Hl). revert Hw Hl.
    induction l as [l IH] using (induction_ltof1 _ (@length A)). unfold ltof in IH. intros Hw Hl.
    destruct (decide (length l <= length T)%nat) as [Hle|Hgt]; [exists l; auto|].
    assert (Hnd : ~ NoDup l).
    { intros Hnd. pose proof (submseteq_length _ _ (NoDup_submseteq _ _ Hnd (HT l Hw))). lia. }
    apply dup_split in Hnd as (v & l1 & l2 & l3 & ->).
    apply walk_app_inv in Hw as [Hw1 Hw2].
    assert (Hw3 : walk R v l3) by exact (proj2 (walk_app_inv _ _ _ _ Hw2)).
    apply (IH (l1 ++ v :: l3)).
    - rewrite !app_length. simpl. rewrite app_length. simpl. lia.
    - apply walk_app; auto.
    - rewrite last_app_cons. rewrite last_app_cons in Hl.
      change (v :: l2 ++ v :: l3) with ((v :: l2) ++ v :: l3) in Hl. rewrite last_app_cons in Hl. exact Hl.
  Qed.
End walks.

Lemma elem_of_flat_map {A B} (f : A -> list B) l y :
  y ∈ flat_map f l <-> exists x, x ∈ l /\ y ∈ f x.
Proof.
  rewrite elem_of_list_In, in_flat_map. split; intros (x & H1 & H2); exists x;
    rewrite ?elem_of_list_In in *; auto.
Qed.

(* ---- the search ---- *)
Lemma reach_n_spec E a n : forall front k,
  (1 <= k)%nat -> (forall y, y ∈ front <-> conn (ledge E) k a y) ->
  forall y, y ∈ reach_n n E front <-> conn (ledge E) (k + n) a y.
Proof.
  induction n as [|n IH]; intros front k Hk Hf y; simpl.
  - rewrite Nat.add_0_r. apply Hf.
  - replace (k + S n)%nat with (S k + n)%nat by lia. apply IH; [lia|].
    intros z. rewrite elem_of_remove_dups, elem_of_app, elem_of_flat_map.
    rewrite (conn_step (ledge E) k a z Hk), Hf. split.
    + intros [H|(x & Hx & Hz)]; [auto|]. right. exists x. split; [apply Hf, Hx|apply elem_of_succs, Hz].
    + intros [H|(x & Hx & Hz)]; [auto|]. right. exists x. split; [apply Hf, Hx|apply elem_of_succs, Hz].
Qed.

Lemma walk_ledge_targets E a l : walk (ledge E) a l -> l ⊆ r_to <$> E.
Proof.
  induction 1 as [|x y l (r & Hr & _ & <-) _ IH]; intros z Hz.
  - inversion Hz.
  - apply elem_of_cons in Hz as [->|Hz]; [|auto]. apply elem_of_list_fmap. eauto.
Qed.

Theorem reachable_spec E a y : y ∈ reachable E a <-> tc (ledge E) a y.
Proof.
  unfold reachable.
  rewrite (reach_n_spec E a (length E) (succs E a) 1%nat); [|lia|].
  - split; [apply conn_tc|].
    intros H. apply tc_conn in H as [k H].
    eapply conn_mono; [|eapply (conn_shorten (ledge E) (r_to <$> E)); [|exact H]].
    + rewrite fmap_length. lia.
    + intros l Hl. eapply walk_ledge_targets; eauto.
  - intros z. rewrite elem_of_succs. split.
    + intros H. exists [z]. split; [constructor; [auto|constructor]|split; [simpl; lia|reflexivity]].
    + intros (l & Hw & Hlen & Hl). destruct l as [|x [|x' l]]; try discriminate; [|simpl in Hlen; lia].
      simpl in Hl. injection Hl as ->. inversion Hw; auto.
Qed.

Theorem acyclic_obs_spec E : acyclic_obs E = true <-> forall a, ~ tc (ledge E) a a.
Proof.
  unfold acyclic_obs. rewrite forallb_forall. split.
  - intros H a Ha. pose proof Ha as Ha'. apply tc_inv_l in Ha' as (b & (r & Hr & Hf & Ht) & _).
    apply elem_of_list_In, H in Hr. rewrite Hf in Hr.
    apply negb_true_iff in Hr. apply not_true_iff_false in Hr. apply Hr, memb_spec, reachable_spec, Ha.
  - intros H r Hr. apply negb_true_iff, not_true_iff_false. intros Hm.
    apply memb_spec, reachable_spec in Hm. exact (H _ Hm).
Qed.

Theorem closes_no_cycle_spec E f t :
  closes_no_cycle E f t = true <-> ~ rtc (ledge E) t f.
Proof.
  unfold closes_no_cycle. rewrite andb_true_iff, !negb_true_iff, bool_decide_eq_false. split.
  - intros [Hne Hm] Hr. apply rtc_inv_tc in Hr as [->|Hr]; [contradiction|].
    apply reachable_spec, memb_spec in Hr. congruence.
  - intros H. split.
    + intros ->. apply H, rtc_refl.
    + apply not_true_iff_false. intros Hm. apply memb_spec, reachable_spec in Hm. apply H, tc_rtc, Hm.
Qed.
