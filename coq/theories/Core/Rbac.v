(* Core/Rbac.v — executable model of role-based access control on top of the ontology model.
   Copies: core/pkg/service/access/rbac/service.go (Enforcer.Enforce, retrievePolicies,
             allowRequest),
           rbac/policy/retriever.go (ResolveSubjects: subject -> parents of type role ->
             children of type policy; the last clause resolves every resource through the policy
             service and drops the ones the service does not find),
           rbac/policy/writer.go (Create, Delete, SetOnRole),
           rbac/role/writer.go (Create incl. the Users-group edge, Delete, AssignRole,
             UnassignRole),
           ontology/retrieve.go WhereTypes (single type = key prefix WITHOUT the ':'),
           gorp bare MatchKeys (ErrNotFound when a key is missing).
   No proofs in this file. *)
From stdpp Require Import gmap.
From Coq Require Import NArith.
From Synnax Require Import Core.Ontology.
Local Open Scope N_scope.

Definition s_role : str := [114; 111; 108; 101].
Definition s_policy : str := [112; 111; 108; 105; 99; 121].
Definition s_group : str := [103; 114; 111; 117; 112].
(* the harness renames the random key of the "Users" group to this alias *)
Definition s_users_group : str := [117; 115; 101; 114; 115; 45; 103; 114; 111; 117; 112].

Definition role_id (k : str) : id := Id s_role k.
Definition policy_id (k : str) : id := Id s_policy k.
Definition group_id : id := Id s_group s_users_group.

Record policy := Pol { p_objs : list id; p_acts : list str; p_internal : bool }.
Global Instance policy_eq_dec : EqDecision policy.
Proof. solve_decision. Defined.

Notation polmap := (gmap (list N) policy).
Notation rolemap := (gmap (list N) bool).      (* role key |-> Internal *)

Record rst := RSt { r_ont : ost; r_pols : polmap; r_roles : rolemap }.

(* which repairs the tree carries:
   f12 = role.Delete also deletes the role's ontology resource (pinned: table row only)
   f26 = policy.Delete also deletes the policies' ontology resources (pinned: table rows only) *)
Record rcfg := RCfg { rc_ont : cfg; f12 : bool; f26 : bool }.
Definition rpinned : rcfg := RCfg fixed false false.
Definition rfixed : rcfg := RCfg fixed true true.

(* ---- enforcement ---- *)
(* ID.IsType *)
Definition is_type (i : id) : bool :=
  match id_type i, id_key i with
  | _ :: _, [] => true
  | _, _ => false
  end.

Definition covers (po o : id) : bool :=
  if is_type po then bool_decide (id_type po = id_type o) else bool_decide (po = o).

Definition grants (act : str) (o : id) (p : policy) : bool :=
  existsb (fun a => bool_decide (a = act)) (p_acts p) && existsb (fun po => covers po o) (p_objs p).

(* allowRequest *)
Definition allow_request (act : str) (objs : list id) (ps : list policy) : bool :=
  forallb (fun o => existsb (grants act o) ps) objs.

Definition filter_type (ty : str) (ids : list id) : list id :=
  filter (fun i => is_prefix ty (id_str i) = true) ids.

Definition pol_live (st : rst) (i : id) : bool :=
  match r_pols st !! id_key i with Some _ => true | None => false end.

(* policy.Service.ResolveSubjects for one subject *)
Definition resolve_subject (st : rst) (s : id) : result (list str) :=
  let ont := r_ont st in
  match retrieve_resources ont [s] with
  | Err e => Err e
  | Ok ids0 =>
      match traverse ont TParents ids0 with
      | Err e => Err e
      | Ok ps =>
          match retrieve_resources ont ps with
          | Err e => Err e
          | Ok rs0 =>
              match filter_type s_role rs0 with
              | [] => Ok []
              | rs =>
                  match traverse ont TChildren rs with
                  | Err e => Err e
                  | Ok cs =>
                      match retrieve_resources ont cs with
                      | Err e => Err e
                      | Ok ps0 => Ok (id_key <$> filter (fun i => pol_live st i = true)
                                                        (filter_type s_policy ps0))
                      end
                  end
              end
          end
      end
  end.

(* Enforcer.retrievePolicies *)
Definition retrieve_policies (st : rst) (s : id) : result (list (str * policy)) :=
  match resolve_subject st s with
  | Err e => Err e
  | Ok keys =>
      match mapM (fun k => (fun p => (k, p)) <$> r_pols st !! k) keys with
      | Some l => Ok l
      | None => Err ENotFound
      end
  end.

Inductive verdict := Allow | Deny | Fail (e : err).
Global Instance verdict_eq_dec : EqDecision verdict.
Proof. solve_decision. Defined.

Definition enforce (st : rst) (s : id) (act : str) (objs : list id) : verdict :=
  match retrieve_policies st s with
  | Err e => Fail e
  | Ok ps => if allow_request act objs (snd <$> ps) then Allow else Deny
  end.

(* ---- writers ---- *)
Definition with_ont (st : rst) (r : ost * err) : rst * err :=
  (RSt r.1 (r_pols st) (r_roles st), r.2).

Definition create_role (c : rcfg) (st : rst) (k : str) (internal allow : bool) : rst * err :=
  if internal && negb allow then (st, EValidation) else
  let st1 := RSt (r_ont st) (r_pols st) (<[k := internal]> (r_roles st)) in
  match define_resource (r_ont st1) (role_id k) with
  | (o1, EOk) =>
      with_ont (RSt o1 (r_pols st1) (r_roles st1))
               (define_relationship (rc_ont c) o1 group_id s_parent (role_id k))
  | (o1, e) => (RSt o1 (r_pols st1) (r_roles st1), e)
  end.

Definition delete_role (c : rcfg) (st : rst) (k : str) (allow : bool) : rst * err :=
  match r_roles st !! k with
  | Some true => if allow then
                   let st1 := RSt (r_ont st) (r_pols st) (delete k (r_roles st)) in
                   if f12 c then with_ont st1 (delete_resource (r_ont st1) (role_id k)) else (st1, EOk)
                 else (st, EValidation)
  | Some false =>
      let st1 := RSt (r_ont st) (r_pols st) (delete k (r_roles st)) in
      if f12 c then with_ont st1 (delete_resource (r_ont st1) (role_id k)) else (st1, EOk)
  | None => if f12 c then with_ont st (delete_resource (r_ont st) (role_id k)) else (st, EOk)
  end.

Definition create_policy (st : rst) (k : str) (p : policy) (allow : bool) : rst * err :=
  if p_internal p && negb allow then (st, EValidation) else
  let st1 := RSt (r_ont st) (<[k := p]> (r_pols st)) (r_roles st) in
  with_ont st1 (define_resource (r_ont st1) (policy_id k)).

Definition delete_policies (c : rcfg) (st : rst) (ks : list str) : rst * err :=
  (RSt (if f26 c then delete_resources (r_ont st) (policy_id <$> ks) else r_ont st)
       (foldr delete (r_pols st) ks) (r_roles st), EOk).

Fixpoint set_on_role (c : rcfg) (st : rst) (r : str) (ps : list str) : rst * err :=
  match ps with
  | [] => (st, EOk)
  | p :: ps' =>
      match with_ont st (define_relationship (rc_ont c) (r_ont st) (role_id r) s_parent (policy_id p)) with
      | (st1, EOk) => set_on_role c st1 r ps'
      | (st1, e) => (st1, e)
      end
  end.

Definition assign_role (c : rcfg) (st : rst) (s : id) (r : str) : rst * err :=
  with_ont st (define_relationship (rc_ont c) (r_ont st) (role_id r) s_parent s).
Definition unassign_role (st : rst) (s : id) (r : str) : rst * err :=
  with_ont st (delete_relationship (r_ont st) (role_id r) s_parent s).

(* ---- histories with transactions ---- *)
Inductive rop :=
| RCreateRole (k : str) (internal allow : bool)
| RDeleteRole (k : str) (allow : bool)
| RCreatePolicy (k : str) (p : policy) (allow : bool)
| RDeletePolicies (ks : list str)
| RSetOnRole (r : str) (ps : list str)
| RAssign (s : id) (r : str)
| RUnassign (s : id) (r : str)
| RSubject (s : id)
| RDelSubject (s : id)
| RGroupAdd (b : id)       (* ontology AddChildren(Users group, b): the group becomes a parent of b *)
| RGroupRemove (b : id)    (* ontology RemoveChildren(Users group, b) *)
| RBegin | RCommit | RAbort
| REnforce (s : id) (act : str) (objs : list id) (committed : bool).

Record rsys := RSys { rs_db : rst; rs_tx : option rst }.
Definition rcur (s : rsys) : rst := default (rs_db s) (rs_tx s).
Definition rset_cur (s : rsys) (st : rst) : rsys :=
  match rs_tx s with
  | Some _ => RSys (rs_db s) (Some st)
  | None => RSys st None
  end.

Definition rapply (c : rcfg) (st : rst) (o : rop) : rst * err :=
  match o with
  | RCreateRole k i a => create_role c st k i a
  | RDeleteRole k a => delete_role c st k a
  | RCreatePolicy k p a => create_policy st k p a
  | RDeletePolicies ks => delete_policies c st ks
  | RSetOnRole r ps => set_on_role c st r ps
  | RAssign s r => assign_role c st s r
  | RUnassign s r => unassign_role st s r
  | RSubject s => with_ont st (define_resource (r_ont st) s)
  | RDelSubject s => with_ont st (delete_resource (r_ont st) s)
  | RGroupAdd b => with_ont st (define_relationship (rc_ont c) (r_ont st) group_id s_parent b)
  | RGroupRemove b => with_ont st (delete_relationship (r_ont st) group_id s_parent b)
  | _ => (st, EOk)
  end.

(* the observable outcome of a step: a writer error class, or the verdict of an Enforce *)
Inductive outcome := OErr (e : err) | OVerdict (v : verdict).
Global Instance outcome_eq_dec : EqDecision outcome.
Proof. solve_decision. Defined.

Definition rstep (c : rcfg) (s : rsys) (o : rop) : rsys * outcome :=
  match o with
  | RBegin => (match rs_tx s with None => RSys (rs_db s) (Some (rs_db s)) | Some _ => s end, OErr EOk)
  | RCommit => (match rs_tx s with Some st => RSys st None | None => s end, OErr EOk)
  | RAbort => (RSys (rs_db s) None, OErr EOk)
  | REnforce sub act objs committed =>
      (s, OVerdict (enforce (if committed then rs_db s else rcur s) sub act objs))
  | _ => let '(st, e) := rapply c (rcur s) o in (rset_cur s st, OErr e)
  end.

Definition rrun (c : rcfg) (s : rsys) (ops : list rop) : rsys :=
  fold_left (fun s o => (rstep c s o).1) ops s.

(* configuration after opening the services: root, the Users group under it *)
Definition rinit_ont : ost :=
  OSt (<[id_str group_id := group_id]> {[ id_str root_id := root_id ]})
      {[ rel_key (Rel root_id s_parent group_id) := Rel root_id s_parent group_id ]}.
Definition rinit : rsys := RSys (RSt rinit_ont ∅ ∅) None.
