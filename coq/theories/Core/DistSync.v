(* Core/DistSync.v — the response synchronizers and the iterator's combination of per-node answers. *)
From stdpp Require Import gmap.
From Coq Require Import NArith Lia.
From Synnax Require Import Generated.Consts_C15 Core.Channel Core.Dist.
Local Open Scope N_scope.
Notation length := List.length.

(* ---- writer synchronizer *)
(* what synchronizer.sync accumulates in cycle.res when response r arrives *)
Definition wacc (cur r : wresp) : wresp :=
  let cur := WResp (wr_seq cur) (wr_commit cur) (wr_end cur) (wr_auth cur && wr_auth r) in
  if wr_commit r && (wr_end cur <? wr_end r) then WResp (wr_seq cur) (wr_commit cur) (wr_end r) (wr_auth cur) else cur.
Definition wsync_acc (rs : list wresp) : wresp :=
  match rs with [] => WResp 0 false 0 true | r :: rest => foldl wacc (wacc r r) rest end.

Lemma wsync_step_next fixed n cur c r :
  (0 < c)%nat -> wr_seq r = wr_seq cur -> wr_seq r <> 0 ->
  wsync_step fixed n (WSync cur c) r =
  if Nat.eqb (S c) n then (WSync (wacc cur r) 0, Some (if fixed then wacc cur r else r))
  else (WSync (wacc cur r) (S c), None).
Proof.
  intros Hpos Hr Hq0. unfold wsync_step. cbn [ws_count ws_cur].
  destruct (wr_seq r =? 0) eqn:E0; [apply N.eqb_eq in E0; congruence|].
  destruct (Nat.eqb c 0) eqn:Ec; [apply Nat.eqb_eq in Ec; lia|]. cbn [negb andb].
  rewrite Hr, N.eqb_refl. cbn [negb]. reflexivity.
Qed.
Lemma wsync_step_first fixed n r :
  wr_seq r <> 0 ->
  wsync_step fixed n wsync0 r =
  if Nat.eqb 1 n then (WSync (wacc r r) 0, Some (if fixed then wacc r r else r))
  else (WSync (wacc r r) 1, None).
Proof.
  intros Hq0. unfold wsync_step, wsync0. cbn [ws_count ws_cur Nat.eqb negb andb].
  destruct (wr_seq r =? 0) eqn:E0; [apply N.eqb_eq in E0; congruence|]. reflexivity.
Qed.
Lemma default_last {A} (a b : A) (l : list A) : l <> [] -> default a (last l) = default b (last l).
Proof. intros H. destruct (last l) eqn:E; [reflexivity|]. apply last_None in E. congruence. Qed.

Lemma wacc_seq cur r : wr_seq (wacc cur r) = wr_seq cur.
Proof. unfold wacc. destruct (wr_commit r && _); reflexivity. Qed.

(* one cycle: [rs] are the responses of the remaining leaseholders, all with cur's sequence number *)
Lemma wsync_cycle_from fixed n : forall rs cur c,
  wr_seq cur <> 0 -> (0 < c)%nat -> (c + length rs = n)%nat -> rs <> [] ->
  Forall (fun r => wr_seq r = wr_seq cur) rs ->
  wsync_run fixed n (WSync cur c) rs =
  replicate (length rs - 1) None ++ [Some (if fixed then foldl wacc cur rs else default cur (last rs))].
Proof.
  induction rs as [|r rs IH]; intros cur c Hq0 Hc Hlen Hne Hall; [congruence|].
  apply Forall_cons in Hall as [Hr Hall']. cbn [wsync_run].
  rewrite wsync_step_next by (try assumption; congruence).
  destruct rs as [|r2 rs].
  - assert (En : Nat.eqb (S c) n = true) by (apply Nat.eqb_eq; cbn [length] in Hlen; lia). rewrite En.
    cbn [wsync_run length Nat.sub replicate app foldl last default]. reflexivity.
  - assert (En : Nat.eqb (S c) n = false) by (apply Nat.eqb_neq; cbn [length] in Hlen; lia). rewrite En.
    rewrite IH.
    + cbn [length]. replace (S (S (length rs)) - 1)%nat with (S (S (length rs) - 1)) by lia.
      cbn [replicate app foldl]. repeat f_equal.
      destruct fixed; [reflexivity|]. rewrite last_cons_cons. apply default_last. discriminate.
    + rewrite wacc_seq. exact Hq0.
    + lia.
    + cbn [length] in *. lia.
    + discriminate.
    + rewrite wacc_seq. exact Hall'.
Qed.

Lemma wsync_cycle fixed n q rs :
  q <> 0 -> length rs = n -> rs <> [] -> Forall (fun r => wr_seq r = q) rs ->
  wsync_run fixed n wsync0 rs =
  replicate (n - 1) None ++ [Some (if fixed then wsync_acc rs else default (WResp 0 false 0 true) (last rs))].
Proof.
  intros Hq0 Hlen Hne Hall. destruct rs as [|r rs]; [congruence|].
  apply Forall_cons in Hall as [Hr Hall']. cbn [wsync_run].
  rewrite wsync_step_first by congruence. subst n.
  destruct rs as [|r2 rs].
  - cbn [length Nat.eqb wsync_run Nat.sub replicate app last default wsync_acc foldl]. reflexivity.
  - assert (En : Nat.eqb 1 (length (r :: r2 :: rs)) = false) by reflexivity. rewrite En.
    rewrite (wsync_cycle_from fixed (length (r :: r2 :: rs))).
    + cbn [length]. replace (S (S (length rs)) - 1)%nat with (S (S (length rs) - 1)) by lia.
      cbn [replicate app wsync_acc]. repeat f_equal. destruct fixed; [reflexivity|].
      rewrite last_cons_cons. apply default_last. discriminate.
    + rewrite wacc_seq. congruence.
    + lia.
    + reflexivity.
    + discriminate.
    + rewrite wacc_seq, Hr. exact Hall'.
Qed.

(* the accumulated response: authorized iff every leaseholder was, and, when all answer a commit,
   End is the largest End *)
Lemma foldl_wacc_auth : forall rs cur, wr_auth (foldl wacc cur rs) = wr_auth cur && forallb wr_auth rs.
Proof.
  induction rs as [|r rs IH]; intros cur; cbn [foldl forallb]; [rewrite andb_true_r; reflexivity|].
  rewrite IH. unfold wacc. destruct (wr_commit r && _); cbn; rewrite andb_assoc; reflexivity.
Qed.
Lemma wsync_acc_auth rs : rs <> [] -> wr_auth (wsync_acc rs) = forallb wr_auth rs.
Proof.
  destruct rs as [|r rs]; [congruence|]. intros _. cbn [wsync_acc forallb]. rewrite foldl_wacc_auth.
  unfold wacc. destruct (wr_commit r && _); cbn; rewrite andb_diag; reflexivity.
Qed.
Lemma foldl_wacc_end : forall rs cur, Forall (fun r => wr_commit r = true) rs ->
  wr_end (foldl wacc cur rs) = foldl N.max (wr_end cur) (wr_end <$> rs).
Proof.
  induction rs as [|r rs IH]; intros cur Hall; cbn [foldl fmap list_fmap]; [reflexivity|].
  apply Forall_cons in Hall as [Hc Hall']. rewrite IH by assumption. f_equal.
  unfold wacc. rewrite Hc. cbn [andb wr_end]. destruct (wr_end cur <? wr_end r) eqn:E; cbn.
  - apply N.ltb_lt in E. lia.
  - apply N.ltb_ge in E. lia.
Qed.
Lemma wsync_acc_end r rs : Forall (fun r => wr_commit r = true) rs ->
  wr_end (wsync_acc (r :: rs)) = foldl N.max (wr_end r) (wr_end <$> rs).
Proof.
  intros H. cbn [wsync_acc]. rewrite foldl_wacc_end by assumption. f_equal.
  unfold wacc. cbn. rewrite N.ltb_irrefl, andb_false_r. reflexivity.
Qed.

(* the pinned upstream synchronizer (still the tree's writer synchronizer) forwards the last
   response: two leaseholders commit up to 18 and 12, the acknowledgement says 12 *)
Lemma wsync_last_refuted :
  wsync_run false 2 wsync0 [WResp 1 true 18 true; WResp 1 true 12 false] =
    [None; Some (WResp 1 true 12 false)] /\
  wsync_run false 2 wsync0 [WResp 1 true 12 false; WResp 1 true 18 true] =
    [None; Some (WResp 1 true 18 true)] /\
  wsync_run true 2 wsync0 [WResp 1 true 12 false; WResp 1 true 18 true] =
    [None; Some (WResp 1 true 18 false)].
Proof. vm_compute. auto. Qed.

(* ---- iterator: combination of the per-node answers *)
Lemma existsb_filter_node (ans : chan_answers) keys i :
  existsb snd ((fun n => store_iter ans (filter (fun k => lease_of k =? n) keys) i) <$> unique_leaseholders keys) =
  existsb (fun k => (ans k i).2) keys.
Proof.
  apply eq_true_iff_eq. rewrite !existsb_exists. split.
  - intros (x & Hin & Hx). apply elem_of_list_In, elem_of_list_fmap in Hin as (n & -> & Hn).
    unfold store_iter in Hx. cbn [snd] in Hx. apply existsb_exists in Hx as (k & Hk & Hak).
    exists k. split; [|exact Hak]. apply elem_of_list_In in Hk. apply elem_of_list_filter in Hk as [_ Hk].
    apply elem_of_list_In, Hk.
  - intros (k & Hk & Hak). exists (store_iter ans (filter (fun k0 => lease_of k0 =? lease_of k) keys) i).
    split.
    + apply elem_of_list_In, elem_of_list_fmap. exists (lease_of k). split; [reflexivity|].
      unfold unique_leaseholders. apply elem_of_remove_dups, elem_of_list_fmap. exists k.
      split; [reflexivity|apply elem_of_list_In, Hk].
    + unfold store_iter. cbn [snd]. apply existsb_exists. exists k. split; [|exact Hak].
      apply elem_of_list_In, elem_of_list_filter. split; [rewrite N.eqb_refl; exact I|apply elem_of_list_In, Hk].
Qed.

Lemma flat_map_filter_perm {A} (f : A -> N) : forall (keys : list A) (nodes : list N),
  NoDup nodes -> (forall k, k ∈ keys -> f k ∈ nodes) ->
  flat_map (fun n => filter (fun k => f k =? n) keys) nodes ≡ₚ keys.
Proof.
  induction keys as [|k keys IH]; intros nodes Hnd Hcov.
  - induction nodes as [|n nodes IHn]; [reflexivity|]. cbn [flat_map]. rewrite filter_nil. simpl.
    apply IHn. inversion Hnd; assumption. intros x Hx. inversion Hx.
  - assert (Hk : f k ∈ nodes) by (apply Hcov; left).
    assert (G : forall nodes, NoDup nodes ->
              flat_map (fun n => filter (fun k0 => f k0 =? n) (k :: keys)) nodes ≡ₚ
              (if bool_decide (f k ∈ nodes) then [k] else []) ++
              flat_map (fun n => filter (fun k0 => f k0 =? n) keys) nodes).
    { clear. induction nodes as [|n nodes IHn]; intros Hnd; [reflexivity|].
      inversion Hnd as [|? ? Hni Hnd']; subst. cbn [flat_map]. rewrite filter_cons, (IHn Hnd').
      destruct (decide (f k = n)) as [->|Hne].
      - rewrite N.eqb_refl. destruct (decide (Is_true true)); [|simpl in *; tauto].
        rewrite (bool_decide_false (n ∈ nodes)) by exact Hni.
        rewrite (bool_decide_true (n ∈ n :: nodes)) by left. simpl.
        constructor. reflexivity.
      - destruct (f k =? n) eqn:E; [apply N.eqb_eq in E; congruence|].
        destruct (decide (Is_true false)); [simpl in *; tauto|].
        destruct (bool_decide (f k ∈ nodes)) eqn:Eb.
        + apply bool_decide_eq_true in Eb. rewrite bool_decide_true by (right; exact Eb).
          simpl. rewrite Permutation_middle. reflexivity.
        + apply bool_decide_eq_false in Eb. rewrite bool_decide_false.
          * reflexivity.
          * intros H. apply elem_of_cons in H as [?|?]; [congruence|tauto]. }
    rewrite (G nodes Hnd), bool_decide_true by exact Hk. simpl. constructor.
    apply IH; [exact Hnd|]. intros x Hx. apply Hcov. right. exact Hx.
Qed.

(* any placement: the cluster iterator with OR-ed acknowledgements returns, for every command, the
   entries and the acknowledgement of one storage iterator over all the channels *)
Theorem cluster_iter_transparent (ans : chan_answers) keys i :
  (cluster_iter true ans keys i).1 ≡ₚ (store_iter ans keys i).1 /\
  (cluster_iter true ans keys i).2 = (store_iter ans keys i).2.
Proof.
  unfold cluster_iter. cbn [fst snd]. split.
  - unfold store_iter at 2. cbn [fst].
    rewrite <- (flat_map_filter_perm lease_of keys (unique_leaseholders keys)) at 2.
    + induction (unique_leaseholders keys) as [|n ns IHn]; [reflexivity|].
      cbn [fmap list_fmap flat_map]. rewrite fmap_app. unfold store_iter at 1. cbn [fst].
      apply Permutation_app; [|exact IHn].
      assert (E : filter (fun k => Is_true (lease_of k =? n)) keys = filter (fun k => lease_of k =? n) keys)
        by reflexivity. reflexivity.
    + unfold unique_leaseholders. apply NoDup_remove_dups.
    + intros k Hk. unfold unique_leaseholders. apply elem_of_remove_dups, elem_of_list_fmap. eauto.
  - unfold store_iter at 2. cbn [snd]. apply existsb_filter_node.
Qed.

(* with the conjunction (what the upstream code accumulates) a short and a long channel on two
   nodes end the traversal early; and what it actually forwarded was the last node's answer *)
Definition w_ans : chan_answers := fun k i => if k =? new_key 1 2 then ([], false) else ([7], true).
Lemma cluster_iter_and_refuted :
  (cluster_iter false w_ans [new_key 1 2; new_key 2 2] 0).2 = false /\
  (store_iter w_ans [new_key 1 2; new_key 2 2] 0).2 = true /\
  isync_run false 2 isync0 [IResp false 3 true; IResp false 3 false] = [None; Some (IResp false 3 false)] /\
  isync_run true 2 isync0 [IResp false 3 true; IResp false 3 false] = [None; Some (IResp false 3 true)].
Proof. vm_compute. auto. Qed.

(* ---- iterator synchronizer, tree after the fix: one acknowledgement per command, after the
   answers of all nodes, carrying the disjunction *)
Definition iacc (cur r : iresp) : iresp := IResp false (ir_seq cur) (ir_ack cur || ir_ack r).

Lemma isync_step_next n cur c r :
  (0 < c)%nat -> ir_data r = false -> ir_seq r = ir_seq cur ->
  isync_step true n (ISync cur c) r =
  if Nat.eqb (S c) n then (ISync (iacc cur r) 0, Some (iacc cur r)) else (ISync (iacc cur r) (S c), None).
Proof.
  intros Hc Hd Hr. unfold isync_step. rewrite Hd. cbn [is_count is_cur].
  destruct (Nat.eqb c 0) eqn:Ec; [apply Nat.eqb_eq in Ec; lia|].
  rewrite Hr, N.eqb_refl. cbn [negb]. reflexivity.
Qed.
Lemma isync_step_first n r :
  ir_data r = false ->
  isync_step true n isync0 r =
  if Nat.eqb 1 n then (ISync (iacc r r) 0, Some (iacc r r)) else (ISync (iacc r r) 1, None).
Proof.
  intros Hd. unfold isync_step, isync0. rewrite Hd. cbn [is_count is_cur Nat.eqb].
  rewrite N.eqb_refl. cbn [negb]. reflexivity.
Qed.

Lemma isync_cycle_from n : forall rs cur c,
  (0 < c)%nat -> (c + length rs = n)%nat -> rs <> [] ->
  Forall (fun r => ir_seq r = ir_seq cur /\ ir_data r = false) rs ->
  isync_run true n (ISync cur c) rs =
  replicate (length rs - 1) None ++ [Some (IResp false (ir_seq cur) (ir_ack cur || existsb ir_ack rs))].
Proof.
  induction rs as [|r rs IH]; intros cur c Hc Hlen Hne Hall; [congruence|].
  apply Forall_cons in Hall as [[Hr Hrd] Hall']. cbn [isync_run].
  rewrite isync_step_next by assumption.
  destruct rs as [|r2 rs].
  - assert (En : Nat.eqb (S c) n = true) by (apply Nat.eqb_eq; cbn [length] in Hlen; lia). rewrite En.
    cbn [isync_run length Nat.sub replicate app existsb]. unfold iacc. rewrite orb_false_r. reflexivity.
  - assert (En : Nat.eqb (S c) n = false) by (apply Nat.eqb_neq; cbn [length] in Hlen; lia). rewrite En.
    rewrite IH.
    + cbn [length]. replace (S (S (length rs)) - 1)%nat with (S (S (length rs) - 1)) by lia.
      cbn [replicate app existsb]. unfold iacc. cbn [ir_seq ir_ack]. rewrite !orb_assoc. reflexivity.
    + lia.
    + cbn [length] in *. lia.
    + discriminate.
    + exact Hall'.
Qed.

Lemma isync_cycle n q rs :
  length rs = n -> rs <> [] -> Forall (fun r => ir_seq r = q /\ ir_data r = false) rs ->
  isync_run true n isync0 rs = replicate (n - 1) None ++ [Some (IResp false q (existsb ir_ack rs))].
Proof.
  intros Hlen Hne Hall. destruct rs as [|r rs]; [congruence|].
  apply Forall_cons in Hall as [[Hr Hrd] Hall']. cbn [isync_run].
  rewrite isync_step_first by assumption. subst n q.
  destruct rs as [|r2 rs].
  - cbn [length Nat.eqb isync_run Nat.sub replicate app existsb]. unfold iacc. rewrite orb_diag, orb_false_r. reflexivity.
  - assert (En : Nat.eqb 1 (length (r :: r2 :: rs)) = false) by reflexivity. rewrite En.
    rewrite (isync_cycle_from (length (r :: r2 :: rs))).
    + cbn [length]. replace (S (S (length rs)) - 1)%nat with (S (S (length rs) - 1)) by lia.
      cbn [replicate app existsb]. unfold iacc. cbn [ir_seq ir_ack]. rewrite orb_diag. reflexivity.
    + lia.
    + reflexivity.
    + discriminate.
    + exact Hall'.
Qed.
