(* Core/ChannelCons.v — metadata = engines: the consistency relation and its preservation by the
   storage-engine and table primitives when they SUCCEED (tree with the fixes). *)
From stdpp Require Import gmap strings sorting.
From Coq Require Import NArith Lia.
From Synnax Require Import Generated.Consts_C15 Core.Channel Core.ChannelKeys Core.ChannelAssign Core.ChannelInv
  Core.ChannelShrink Core.ChannelCreate Core.ChannelHistory.
Local Open Scope N_scope.
Notation length := List.length.

(* every leased row is in its leaseholder's engine as [stored row]; every engine channel is a row
   leased to that node *)
Record Cons (s : st) : Prop := {
  cons_tab : forall k c, s_tab s !! k = Some c -> c_lease c <> node_free ->
             eng_of s (c_lease c) !! k = Some (stored c);
  cons_eng : forall n k e, eng_of s n !! k = Some e ->
             exists c, s_tab s !! k = Some c /\ c_lease c = n /\ e = stored c
}.

(* ---- cesium create *)
Lemma ts_create1_ok e k c e' : ts_create1 e k c = (e', EOk) ->
  e !! k = None /\ ts_valid k c = true /\
  e' = <[k := EChan (e_name c) (e_dt c) (e_isidx c)
                    (if e_virt c then e_index c else if e_isidx c then k else e_index c) (e_virt c)]> e.
Proof.
  unfold ts_create1. destruct (ts_valid k c) eqn:Ev; cbn [negb]; [|discriminate].
  destruct (e !! k) eqn:Ek; [discriminate|].
  destruct (e_virt c) eqn:Evirt.
  - intros [= <-]. repeat split. destruct c; cbn in *. subst. reflexivity.
  - destruct (negb (e_index c =? 0) && negb (e_isidx c)) eqn:Ed.
    + destruct (e !! e_index c) as [ic|]; [|discriminate].
      destruct (e_virt ic); [discriminate|]. destruct (e_isidx ic); [|discriminate].
      intros [= <-]. repeat split. apply andb_true_iff in Ed as [_ Hi]. apply negb_true_iff in Hi.
      rewrite Hi. destruct c; cbn in *. subst. reflexivity.
    + intros [= <-]. repeat split.
Qed.

Definition ts_norm (k : N) (c : echan) : echan :=
  EChan (e_name c) (e_dt c) (e_isidx c)
        (if e_virt c then e_index c else if e_isidx c then k else e_index c) (e_virt c).

Lemma ts_create_ok : forall l e e', ts_create e l = (e', EOk) ->
  NoDup (fst <$> l) /\ (forall k, k ∈ (fst <$> l) -> e !! k = None) /\
  (forall k c, (k, c) ∈ l -> ts_valid k c = true /\ e' !! k = Some (ts_norm k c)) /\
  (forall k, k ∉ (fst <$> l) -> e' !! k = e !! k).
Proof.
  induction l as [|[k c] l IH]; intros e e'; cbn [ts_create].
  - intros [= <-]. split; [constructor|]. split; [intros k H; inversion H|].
    split; [intros k c H; inversion H|auto].
  - destruct (ts_create1 e k c) as [e1 er1] eqn:E1. destruct (is_ok er1) eqn:Eo; [|intros [= _ ->]; discriminate].
    unfold is_ok in Eo. apply bool_decide_eq_true in Eo. subst er1.
    apply ts_create1_ok in E1 as (Hk & Hv & ->). intros H.
    destruct (IH _ _ H) as (Hnd & Hfresh & Hin & Hout). cbn [fmap list_fmap fst].
    assert (Hkl : k ∉ (fst <$> l)).
    { intros Hkl. specialize (Hfresh k Hkl). rewrite lookup_insert in Hfresh. discriminate. }
    split; [constructor; assumption|]. split; [|split].
    + intros k' Hk'. apply elem_of_cons in Hk' as [->|Hk']; [exact Hk|].
      specialize (Hfresh k' Hk'). destruct (decide (k' = k)) as [->|Hne]; [exact Hk|].
      rewrite lookup_insert_ne in Hfresh by congruence. exact Hfresh.
    + intros k' c' Hin'. apply elem_of_cons in Hin' as [[= -> ->]|Hin']; [|apply Hin, Hin'].
      split; [exact Hv|]. rewrite Hout by exact Hkl. rewrite lookup_insert. reflexivity.
    + intros k' Hk'. rewrite Hout.
      * apply lookup_insert_ne. intros ->. apply Hk'. left.
      * intros H'. apply Hk'. right. exact H'.
Qed.

(* ---- cesium delete (with fix F9) *)
(* channels the first pass removes: virtual ones and unary non-index ones *)
Definition removable (e : engine) (k : N) : Prop :=
  exists c, e !! k = Some c /\ (e_virt c = true \/ e_isidx c = false).
Definition is_index_in (e : engine) (k : N) : Prop :=
  exists c, e !! k = Some c /\ e_virt c = false /\ e_isidx c = true.

Lemma removable_delete_ne e k x : x <> k -> removable (delete k e) x <-> removable e x.
Proof. intros H. unfold removable. rewrite lookup_delete_ne by congruence. tauto. Qed.
Lemma is_index_delete_ne e k x : x <> k -> is_index_in (delete k e) x <-> is_index_in e x.
Proof. intros H. unfold is_index_in. rewrite lookup_delete_ne by congruence. tauto. Qed.
Lemma not_removable_deleted e k : ~ removable (delete k e) k.
Proof. intros (c & H & _). rewrite lookup_delete in H. discriminate. Qed.

Lemma ts_del_pass1_spec : forall keys e idxs e' idxs',
  ts_del_pass1 true e keys idxs = (e', idxs') ->
  (forall k, k ∈ keys -> removable e k -> e' !! k = None) /\
  (forall k, (k ∉ keys \/ ~ removable e k) -> e' !! k = e !! k) /\
  (forall k, k ∈ idxs' <-> k ∈ idxs \/ (k ∈ keys /\ is_index_in e k)).
Proof.
  induction keys as [|k keys IH]; intros e idxs e' idxs'; cbn [ts_del_pass1].
  - intros [= <- <-]. split; [intros k H; inversion H|]. split; [auto|].
    intros k. split; [auto|]. intros [?|[H _]]; [assumption|inversion H].
  - assert (Hdel : forall idxs0, ts_del_pass1 true (delete k e) keys idxs0 = (e', idxs') ->
                   removable e k ->
      (forall x, x ∈ k :: keys -> removable e x -> e' !! x = None) /\
      (forall x, (x ∉ k :: keys \/ ~ removable e x) -> e' !! x = e !! x) /\
      (forall x, x ∈ idxs' <-> x ∈ idxs0 \/ (x ∈ k :: keys /\ is_index_in e x))).
    { intros idxs0 H Hrem. destruct (IH _ _ _ _ H) as (A & B & C). split; [|split].
      - intros x Hx Hr. destruct (decide (x = k)) as [->|Hne].
        + rewrite B; [apply lookup_delete|]. right. apply not_removable_deleted.
        + apply A; [apply elem_of_cons in Hx as [?|?]; [congruence|assumption]|].
          apply removable_delete_ne; assumption.
      - intros x Hx. destruct (decide (x = k)) as [->|Hne].
        + exfalso. destruct Hx as [Hx|Hx]; [apply Hx; left|apply Hx, Hrem].
        + rewrite B; [apply lookup_delete_ne; congruence|].
          destruct Hx as [Hx|Hx]; [left; intros H'; apply Hx; right; exact H'|].
          right. intros H'. apply Hx. apply removable_delete_ne in H'; assumption.
      - intros x. rewrite C. split.
        + intros [?|[Hin Hi]]; [auto|]. right.
          destruct (decide (x = k)) as [->|Hne];
            [destruct Hi as (c & Hc & _); rewrite lookup_delete in Hc; discriminate|].
          split; [right; exact Hin|apply is_index_delete_ne in Hi; assumption].
        + intros [?|[Hin Hi]]; [auto|].
          destruct (decide (x = k)) as [->|Hne].
          * exfalso. destruct Hrem as (c & Hc & Hr), Hi as (c' & Hc' & Hv & Hx).
            rewrite Hc in Hc'. injection Hc' as <-. destruct Hr; congruence.
          * right. split; [apply elem_of_cons in Hin as [?|?]; [congruence|assumption]|].
            apply is_index_delete_ne; assumption. }
    assert (Hkeep : forall idxs0, ts_del_pass1 true e keys idxs0 = (e', idxs') ->
                    ~ removable e k ->
      (forall x, x ∈ k :: keys -> removable e x -> e' !! x = None) /\
      (forall x, (x ∉ k :: keys \/ ~ removable e x) -> e' !! x = e !! x) /\
      (forall x, x ∈ idxs' <-> x ∈ idxs0 \/ (x ∈ keys /\ is_index_in e x))).
    { intros idxs0 H Hnr. destruct (IH _ _ _ _ H) as (A & B & C). split; [|split].
      - intros x Hx Hr. apply A; [|exact Hr]. apply elem_of_cons in Hx as [->|?]; [tauto|assumption].
      - intros x Hx. apply B. destruct Hx as [Hx|Hx]; [left; intros H'; apply Hx; right; exact H'|right; exact Hx].
      - exact C. }
    destruct (e !! k) as [c|] eqn:Ek.
    + destruct (e_virt c) eqn:Ev; [|destruct (e_isidx c) eqn:Ei].
      * intros H. apply (Hdel idxs H). exists c. auto.
      * intros H. destruct (Hkeep _ H) as (A & B & C).
        { intros (c' & Hc' & Hr). rewrite Ek in Hc'. injection Hc' as <-. destruct Hr; congruence. }
        split; [exact A|]. split; [exact B|]. intros x. rewrite C, elem_of_app, elem_of_list_singleton. split.
        -- intros [[?| ->]|[Hin Hi]]; [auto| |right; split; [right; exact Hin|exact Hi]].
           right. split; [left|]. exists c. auto.
        -- intros [?|[Hin Hi]]; [auto|]. apply elem_of_cons in Hin as [->|Hin]; [auto|right; auto].
      * intros H. apply (Hdel idxs H). exists c. auto.
    + intros H. destruct (Hkeep _ H) as (A & B & C).
      { intros (c' & Hc' & _). rewrite Ek in Hc'. discriminate. }
      split; [exact A|]. split; [exact B|]. intros x. rewrite C. split.
      * intros [?|[Hin Hi]]; [auto|right; split; [right; exact Hin|exact Hi]].
      * intros [?|[Hin Hi]]; [auto|]. apply elem_of_cons in Hin as [->|Hin]; [|right; auto].
        destruct Hi as (c' & Hc' & _). rewrite Ek in Hc'. discriminate.
Qed.

(* second pass on success: every collected index channel is removed *)
Lemma ts_del_pass2_ok : forall idxs e e', ts_del_pass2 e idxs = (e', EOk) ->
  forall k, e' !! k = if bool_decide (k ∈ idxs) then None else e !! k.
Proof.
  induction idxs as [|i idxs IH]; intros e e'; cbn [ts_del_pass2].
  - intros [= <-] k. rewrite bool_decide_false; [reflexivity|]. intros H; inversion H.
  - destruct (e !! i) eqn:Ei; [|discriminate]. destruct (has_dependants e i); [discriminate|].
    intros H k. rewrite (IH _ _ H k). destruct (decide (k = i)) as [->|Hne].
    + rewrite (bool_decide_true (i ∈ i :: idxs)) by left. rewrite lookup_delete. destruct (bool_decide _); reflexivity.
    + rewrite lookup_delete_ne by congruence.
      rewrite (bool_decide_ext (k ∈ idxs) (k ∈ i :: idxs)); [reflexivity|]. split.
      * intros H'. right. exact H'.
      * intros H'. apply elem_of_cons in H' as [?|?]; [congruence|assumption].
Qed.

(* a successful DeleteChannels removes exactly the listed channels *)
Lemma ts_delete_ok e keys e' : ts_delete true e keys = (e', EOk) ->
  forall k, e' !! k = if bool_decide (k ∈ keys) then None else e !! k.
Proof.
  unfold ts_delete. destruct (ts_del_pass1 true e keys []) as [e1 idxs] eqn:E1. intros E2 k.
  destruct (ts_del_pass1_spec _ _ _ _ _ E1) as (A & B & C).
  rewrite (ts_del_pass2_ok _ _ _ E2 k).
  destruct (decide (k ∈ keys)) as [Hin|Hnin].
  - rewrite (bool_decide_true (k ∈ keys)) by exact Hin.
    destruct (e !! k) as [c|] eqn:Ek.
    + destruct (e_virt c) eqn:Ev; [|destruct (e_isidx c) eqn:Ei].
      * rewrite (A k Hin) by (exists c; auto). destruct (bool_decide _); reflexivity.
      * rewrite bool_decide_true; [reflexivity|]. apply C. right. split; [exact Hin|]. exists c. auto.
      * rewrite (A k Hin) by (exists c; auto). destruct (bool_decide _); reflexivity.
    + rewrite B by (right; intros (c & Hc & _); congruence). rewrite Ek. destruct (bool_decide _); reflexivity.
  - rewrite (bool_decide_false (k ∈ keys)) by exact Hnin.
    rewrite bool_decide_false.
    + apply B. left. exact Hnin.
    + intros H. apply C in H as [H|[H _]]; [inversion H|tauto].
Qed.

(* ---- delete paths *)
Definition shrinks (s s' : st) : Prop := forall k, seen s' k -> seen s k.

Lemma shrinks_refl s : shrinks s s.
Proof. intros k H; exact H. Qed.
Lemma shrinks_trans a b c : shrinks a b -> shrinks b c -> shrinks a c.
Proof. intros A B k H. apply A, B, H. Qed.

Lemma tab_delete_lookup : forall keys (t : table) k,
  tab_delete t keys !! k = if bool_decide (k ∈ keys) then None else t !! k.
Proof.
  induction keys as [|x keys IH]; intros t k; cbn [tab_delete foldr].
  - rewrite bool_decide_false; [reflexivity|]. intros H; inversion H.
  - fold (tab_delete t keys). destruct (decide (k = x)) as [->|Hne].
    + rewrite lookup_delete, bool_decide_true by left. reflexivity.
    + rewrite lookup_delete_ne by congruence. rewrite IH.
      rewrite (bool_decide_ext (k ∈ keys) (k ∈ x :: keys)); [reflexivity|]. split.
      * intros H. right. exact H.
      * intros H. apply elem_of_cons in H as [?|?]; [congruence|assumption].
Qed.

Lemma Inv_engine_lease s n k : Inv s -> is_Some (eng_of s n !! k) -> leaseholder k = n /\ is_Some (s_eng s !! n).
Proof.
  intros I H. destruct (inv_eng _ I n k H) as (Hn & lk & -> & Hp & Hle).
  destruct (inv_nodes _ I _ Hn). pose proof (inv_ctr _ I n). split; [|exact Hn].
  apply leaseholder_new_key; lia.
Qed.
Lemma Inv_row_lease s k c : Inv s -> s_tab s !! k = Some c -> leaseholder k = c_lease c.
Proof.
  intros I H. destruct (inv_tab _ I k c H) as (-> & Hl & Hp & Hle).
  pose proof (inv_ctr _ I (c_lease c)). apply leaseholder_new_key; [|lia].
  destruct Hl as [->|Hn]; [lia|]. destruct (inv_nodes _ I _ Hn). lia.
Qed.

Lemma delete_gateway_cons host s keys s' :
  Inv s -> Cons s -> is_Some (s_eng s !! host) -> (forall k, k ∈ keys -> leaseholder k = host) ->
  delete_gateway true host s keys = (s', EOk) ->
  Cons s' /\ shrinks s s' /\ (forall k, k ∈ keys -> ~ seen s' k).
Proof.
  intros I C Hn Hkeys. unfold delete_gateway.
  destruct (ts_delete true _ keys) as [e' er] eqn:Ed. intros [= <- ->].
  pose proof (ts_delete_ok _ _ _ Ed) as He'.
  set (s1 := upd_tab s (tab_delete (s_tab s) keys)) in *.
  assert (Heng : forall n k, eng_of (upd_eng s1 host e') n !! k =
                 if decide (n = host) then (if bool_decide (k ∈ keys) then None else eng_of s host !! k)
                 else eng_of s n !! k).
  { intros n k. rewrite eng_of_upd_eng. destruct (decide (n = host)) as [->|]; [apply He'|reflexivity]. }
  assert (Htab : forall k, s_tab (upd_eng s1 host e') !! k = if bool_decide (k ∈ keys) then None else s_tab s !! k).
  { intros k. cbn. apply tab_delete_lookup. }
  split; [constructor|split].
  - intros k c Hk Hl. rewrite Htab in Hk. destruct (bool_decide (k ∈ keys)) eqn:Eb; [discriminate|].
    rewrite Heng. destruct (decide (c_lease c = host)) as [Eh|Hne].
    + rewrite Eb, <- Eh. apply (cons_tab _ C k c Hk Hl).
    + apply (cons_tab _ C k c Hk Hl).
  - intros n k e Hk. rewrite Heng in Hk. destruct (decide (n = host)) as [->|Hne].
    + destruct (bool_decide (k ∈ keys)) eqn:Eb; [discriminate|].
      destruct (cons_eng _ C host k e Hk) as (c & Hc & Hl & He). exists c. rewrite Htab, Eb. auto.
    + destruct (cons_eng _ C n k e Hk) as (c & Hc & Hl & He). exists c. rewrite Htab.
      rewrite bool_decide_false; [auto|]. intros Hin. apply Hne.
      rewrite <- (Hkeys k Hin). symmetry. apply (Inv_engine_lease s n k I). rewrite Hk. eauto.
  - intros k [Hk|[n Hk]].
    + rewrite Htab in Hk. destruct (bool_decide (k ∈ keys)); [destruct Hk; discriminate|left; exact Hk].
    + rewrite Heng in Hk. right. destruct (decide (n = host)) as [->|]; [|eauto].
      destruct (bool_decide (k ∈ keys)); [destruct Hk; discriminate|eauto].
  - intros k Hin [Hk|[n Hk]].
    + rewrite Htab, bool_decide_true in Hk by exact Hin. destruct Hk; discriminate.
    + rewrite Heng in Hk. destruct (decide (n = host)) as [->|Hne].
      * rewrite bool_decide_true in Hk by exact Hin. destruct Hk; discriminate.
      * apply Hne. rewrite <- (Hkeys k Hin). symmetry. apply (Inv_engine_lease s n k I Hk).
Qed.

Lemma rollback_ok s s' : rollback s s' EOk = s'.
Proof. reflexivity. Qed.

Lemma elem_of_filter_lease (p : N -> bool) (keys : list N) k : k ∈ filter (fun k => p k) keys <-> p k = true /\ k ∈ keys.
Proof. rewrite elem_of_list_filter. destruct (p k); simpl; intuition discriminate. Qed.

Lemma delete_remote_cons p s keys s' :
  Inv s -> Cons s -> (forall k, k ∈ keys -> leaseholder k = p) ->
  delete_remote true p s keys = (s', EOk) ->
  Cons s' /\ shrinks s s' /\ (forall k, k ∈ keys -> ~ seen s' k) /\ is_Some (s_eng s !! p).
Proof.
  intros I C Hkeys. unfold delete_remote. destruct (is_node s p) eqn:En; cbn [negb]; [|discriminate].
  apply is_node_true in En. destruct (any_internal _ keys); [discriminate|].
  destruct (delete_gateway true p s keys) as [s1 er1] eqn:Ed. intros [= <- ->]. rewrite rollback_ok.
  destruct (delete_gateway_cons _ _ _ _ I C En Hkeys Ed) as (A & B & D). auto.
Qed.

Lemma delete_peers_cons : forall peers s keys s',
  Inv s -> Cons s -> delete_peers true s peers keys = (s', EOk) ->
  Cons s' /\ shrinks s s' /\ ext s s' /\
  (forall k, k ∈ keys -> leaseholder k ∈ peers -> ~ seen s' k).
Proof.
  induction peers as [|p peers IH]; intros s keys s' I C; cbn [delete_peers].
  - intros [= <-]. split; [exact C|]. split; [apply shrinks_refl|]. split; [apply ext_refl|].
    intros k _ H. inversion H.
  - destruct (delete_remote true p s _) as [s1 er1] eqn:E1.
    destruct (is_ok er1) eqn:Eo; [|intros [= _ ->]; discriminate].
    unfold is_ok in Eo. apply bool_decide_eq_true in Eo. subst er1. intros H.
    pose proof (delete_remote_ext _ _ _ _ _ _ E1) as X1.
    destruct (delete_remote_cons _ _ _ _ I C
                (fun k Hk => proj1 (N.eqb_eq _ _) (proj1 (proj1 (elem_of_filter_lease (fun k => leaseholder k =? p) keys k) Hk))) E1)
      as (C1 & S1 & G1 & _).
    destruct (IH _ _ _ (Inv_ext _ _ I X1) C1 H) as (C2 & S2 & X2 & G2).
    split; [exact C2|]. split; [eapply shrinks_trans; eassumption|]. split; [eapply ext_trans; eassumption|].
    intros k Hin Hl. apply elem_of_cons in Hl as [Hl|Hl]; [|apply G2; assumption].
    intros Hs. apply (G1 k).
    + apply elem_of_filter_lease. split; [apply N.eqb_eq; exact Hl|exact Hin].
    + apply S2, Hs.
Qed.

Lemma Cons_upd_amb s b : Cons s -> Cons (upd_amb s b).
Proof. intros [A B]. constructor; [exact A|exact B]. Qed.
Lemma seen_upd_amb s b k : seen (upd_amb s b) k <-> seen s k.
Proof. reflexivity. Qed.

Lemma peers_of_elem host ls l :
  l ∈ peers_of host ls <-> l ∈ ls /\ l <> node_free /\ l <> host.
Proof.
  unfold peers_of, nodup_N. rewrite merge_sort_Permutation, elem_of_remove_dups, elem_of_list_filter.
  destruct (N.eqb_spec l node_free) as [E1|E1]; destruct (N.eqb_spec l host) as [E2|E2]; cbn [negb andb]; split.
  - intros [H _]. simpl in H. contradiction.
  - intros (_ & H1 & H2). congruence.
  - intros [H _]. simpl in H. contradiction.
  - intros (_ & H1 & H2). congruence.
  - intros [H _]. simpl in H. contradiction.
  - intros (_ & H1 & H2). congruence.
  - intros [_ H]. auto.
  - intros (H & _ & _). split; [exact I|exact H].
Qed.

Lemma delete_keys_cons host s keys s' out :
  Inv s -> Cons s -> is_Some (s_eng s !! host) ->
  delete_keys true host s keys = (s', (EOk, out)) ->
  Cons s' /\ (forall k, k ∈ keys -> ~ seen s' k).
Proof.
  intros I C Hn. unfold delete_keys. destruct (any_internal _ _); [discriminate|].
  destruct (delete_peers true s _ keys) as [s1 er1] eqn:E1.
  destruct (negb (is_ok er1)) eqn:Eo; [intros [= _ -> _]; discriminate|].
  apply negb_false_iff in Eo. unfold is_ok in Eo. apply bool_decide_eq_true in Eo. subst er1.
  destruct (delete_peers_cons _ _ _ _ I C E1) as (C1 & S1 & X1 & G1).
  pose proof (Inv_ext _ _ I X1) as I1.
  set (s1a := upd_amb s1 _).
  set (free := filter (fun k => leaseholder k =? node_free) keys).
  set (s2 := upd_tab s1a (tab_delete (s_tab s1a) free)).
  destruct (delete_gateway true host s2 _) as [s3 er3] eqn:E3. intros [= <- -> _].
  assert (I1a : Inv s1a) by (eapply Inv_ext; [exact I1|apply ext_upd_amb]).
  assert (X2 : ext s1a s2) by (apply ext_upd_tab_sub, tab_delete_sub).
  assert (I2 : Inv s2) by (eapply Inv_ext; eassumption).
  assert (Hfree : forall k, k ∈ free -> leaseholder k = node_free).
  { intros k Hk. apply elem_of_filter_lease in Hk as [Hk _]. apply N.eqb_eq, Hk. }
  assert (C2 : Cons s2).
  { constructor.
    - intros k c Hk Hl. cbn [s2 upd_tab s_tab] in Hk. rewrite tab_delete_lookup in Hk.
      destruct (bool_decide (k ∈ free)); [discriminate|]. apply (cons_tab _ C1 k c Hk Hl).
    - intros n k e Hk. destruct (cons_eng _ C1 n k e Hk) as (c & Hc & Hl & He). exists c.
      split; [|auto]. cbn [s2 upd_tab s_tab]. rewrite tab_delete_lookup, bool_decide_false; [exact Hc|].
      intros Hin. pose proof (Hfree k Hin) as Hf.
      assert (Hk' : is_Some (eng_of s1 n !! k)) by (exists e; exact Hk).
      destruct (Inv_engine_lease s1 n k I1 Hk') as [Hl' Hnode].
      destruct (inv_nodes _ I1 n Hnode). lia. }
  assert (S2 : shrinks s1 s2).
  { intros k [Hk|Hk]; [|right; exact Hk]. cbn [s2 upd_tab s_tab] in Hk. rewrite tab_delete_lookup in Hk.
    destruct (bool_decide (k ∈ free)); [destruct Hk; discriminate|left; exact Hk]. }
  assert (Hn2 : is_Some (s_eng s2 !! host)) by (apply (ext_nodes _ _ X1), Hn).
  destruct (delete_gateway_cons host s2 _ s3 I2 C2 Hn2
              (fun k Hk => proj1 (N.eqb_eq _ _) (proj1 (proj1 (elem_of_filter_lease (fun k => leaseholder k =? host) keys k) Hk))) E3)
    as (C3 & S3 & G3).
  split; [exact C3|]. intros k Hin Hs.
  destruct (decide (leaseholder k = host)) as [Eh|Nh].
  - apply (G3 k); [|exact Hs]. apply elem_of_filter_lease. split; [apply N.eqb_eq; exact Eh|exact Hin].
  - destruct (decide (leaseholder k = node_free)) as [Ef|Nf].
    + (* free: the row is gone, and no engine holds a free key *)
      apply S3 in Hs. destruct Hs as [Hk|[n Hk]].
      * cbn [s2 upd_tab s_tab] in Hk. rewrite tab_delete_lookup, bool_decide_true in Hk; [destruct Hk; discriminate|].
        apply elem_of_filter_lease. split; [apply N.eqb_eq; exact Ef|exact Hin].
      * destruct (Inv_engine_lease s2 n k I2 Hk) as [Hl Hnode]. destruct (inv_nodes _ I2 n Hnode). lia.
    + apply (G1 k Hin).
      * apply peers_of_elem. split; [apply elem_of_list_fmap; eauto|auto].
      * apply S2, S3, Hs.
Qed.

Lemma delete_by_name_cons host s names s' out :
  Inv s -> Cons s -> is_Some (s_eng s !! host) ->
  delete_by_name true host s names = (s', (EOk, out)) -> Cons s'.
Proof.
  intros I C Hn. unfold delete_by_name. destruct (lookup_names _ _) as [ex amb]. intros H.
  apply (delete_keys_cons _ _ _ _ _ I C Hn H).
Qed.

(* ---- rename paths (each key listed once) *)
Fixpoint look_name (k : N) (kn : list (N * string)) : option string :=
  match kn with [] => None | (k', n) :: r => if k' =? k then Some n else look_name k r end.

Definition rename_e (n : string) (c : echan) : echan := EChan n (e_dt c) (e_isidx c) (e_index c) (e_virt c).

Lemma look_name_None k kn : look_name k kn = None <-> k ∉ (fst <$> kn).
Proof.
  induction kn as [|[k' n] kn IH]; cbn [look_name fmap list_fmap fst].
  - split; [intros _ H; inversion H|reflexivity].
  - destruct (N.eqb_spec k' k) as [->|Hne].
    + split; [discriminate|]. intros H. exfalso. apply H. left.
    + rewrite IH. split.
      * intros H H'. apply elem_of_cons in H' as [?|?]; [congruence|tauto].
      * intros H H'. apply H. right. exact H'.
Qed.

Lemma ts_rename_ok : forall kn e e', NoDup (fst <$> kn) -> ts_rename e kn = (e', EOk) ->
  (forall k, k ∈ (fst <$> kn) -> is_Some (e !! k)) /\
  (forall k, e' !! k = match look_name k kn with Some n => rename_e n <$> (e !! k) | None => e !! k end).
Proof.
  induction kn as [|[k n] kn IH]; intros e e' Hnd; cbn [ts_rename].
  - intros [= <-]. split; [intros k H; inversion H|reflexivity].
  - destruct (e !! k) as [c|] eqn:Ek; [|discriminate]. destruct (name_eqb n ""); [discriminate|]. intros H.
    cbn [fmap list_fmap fst] in Hnd. apply NoDup_cons in Hnd as [Hk Hnd].
    destruct (IH _ _ Hnd H) as [A B]. split.
    + intros x Hx. apply elem_of_cons in Hx as [->|Hx]; [eauto|].
      specialize (A x Hx). destruct (decide (x = k)) as [->|Hne]; [eauto|].
      rewrite lookup_insert_ne in A by congruence. exact A.
    + intros x. rewrite B. cbn [look_name]. destruct (N.eqb_spec k x) as [->|Hne].
      * apply look_name_None in Hk. rewrite Hk, lookup_insert, Ek. reflexivity.
      * rewrite lookup_insert_ne by congruence. reflexivity.
Qed.

Lemma index_where_look : forall (keys : list N) (names : list string) k,
  length keys = length names ->
  match index_where (N.eqb k) keys with Some i => names !! i | None => None end = look_name k (zip keys names).
Proof.
  induction keys as [|x keys IH]; intros names k Hlen; [reflexivity|].
  destruct names as [|n names]; [discriminate|]. cbn [index_where zip zip_with look_name].
  rewrite (N.eqb_sym k x). destruct (x =? k); [reflexivity|].
  specialize (IH names k). cbn [length] in Hlen. injection Hlen as Hlen. rewrite <- (IH Hlen).
  destruct (index_where (N.eqb k) keys); reflexivity.
Qed.

Lemma tab_rename_ok t keys names t' :
  length keys = length names -> tab_rename t keys names = (t', EOk) ->
  (forall k, k ∈ keys -> exists c, t !! k = Some c /\ c_int c = false) /\
  (forall k, t' !! k = match look_name k (zip keys names) with
                       | Some n => (fun c => set_name c n) <$> (t !! k) | None => t !! k end).
Proof.
  intros Hlen. unfold tab_rename.
  destruct (forallb (fun k => bool_decide (is_Some (t !! k))) keys) eqn:Eall; cbn [negb]; [|discriminate].
  destruct (any_internal t keys) eqn:Eint; [discriminate|]. intros [= <-].
  assert (Hex : forall k, k ∈ keys -> exists c, t !! k = Some c /\ c_int c = false).
  { intros k Hk. rewrite forallb_forall in Eall. specialize (Eall k (proj1 (elem_of_list_In _ _) Hk)).
    apply bool_decide_eq_true in Eall as [c Hc]. exists c. split; [exact Hc|].
    destruct (c_int c) eqn:Ei; [|reflexivity]. exfalso.
    assert (any_internal t keys = true); [|congruence]. unfold any_internal. apply existsb_exists.
    exists k. split; [apply elem_of_list_In, Hk|]. rewrite Hc. exact Ei. }
  split; [exact Hex|].
  assert (G : forall l (t0 : table) k,
    (foldl (fun t' k => match t !! k, index_where (N.eqb k) keys with
                        | Some c, Some i => <[k := set_name c (default "" (names !! i))]> t'
                        | _, _ => t' end) t0 l) !! k =
    if bool_decide (k ∈ l) then
      match t !! k, index_where (N.eqb k) keys with
      | Some c, Some i => Some (set_name c (default "" (names !! i)))
      | _, _ => t0 !! k end
    else t0 !! k).
  { induction l as [|x l IHl]; intros t0 k; cbn [foldl].
    - rewrite bool_decide_false; [reflexivity|]. intros H; inversion H.
    - rewrite IHl. destruct (decide (k = x)) as [->|Hne].
      + rewrite (bool_decide_true (x ∈ x :: l)) by left.
        destruct (t !! x) as [c|]; [|destruct (bool_decide _); reflexivity].
        destruct (index_where (N.eqb x) keys) as [i|]; [|destruct (bool_decide _); reflexivity].
        rewrite lookup_insert. destruct (bool_decide _); reflexivity.
      + rewrite (bool_decide_ext (k ∈ l) (k ∈ x :: l)).
        * destruct (bool_decide (k ∈ x :: l)).
          -- destruct (t !! k); [|destruct (t !! x), (index_where (N.eqb x) keys); rewrite ?lookup_insert_ne by congruence; reflexivity].
             destruct (index_where (N.eqb k) keys); [reflexivity|].
             destruct (t !! x), (index_where (N.eqb x) keys); rewrite ?lookup_insert_ne by congruence; reflexivity.
          -- destruct (t !! x), (index_where (N.eqb x) keys); rewrite ?lookup_insert_ne by congruence; reflexivity.
        * split; [intros H; right; exact H|]. intros H. apply elem_of_cons in H as [?|?]; [congruence|assumption]. }
  intros k. rewrite G. rewrite <- (index_where_look keys names k Hlen).
  destruct (decide (k ∈ keys)) as [Hin|Hnin].
  - rewrite bool_decide_true by exact Hin. destruct (Hex k Hin) as (c & Hc & _). rewrite Hc.
    destruct (index_where (N.eqb k) keys) as [i|] eqn:Ei.
    + pose proof (index_where_lt _ _ _ Ei) as Hlt. rewrite Hlen in Hlt.
      destruct (lookup_lt_is_Some_2 names i Hlt) as [n Hn]. rewrite Hn. reflexivity.
    + exfalso. clear -Hin Ei. induction keys as [|x keys IH]; [inversion Hin|].
      cbn [index_where] in Ei. destruct (N.eqb_spec k x) as [->|Hne]; [discriminate|].
      destruct (index_where (N.eqb k) keys); [discriminate|]. apply IH; [|reflexivity].
      apply elem_of_cons in Hin as [?|?]; [congruence|assumption].
  - rewrite bool_decide_false by exact Hnin.
    destruct (index_where (N.eqb k) keys) as [i|] eqn:Ei; [|reflexivity].
    exfalso. apply Hnin. apply index_where_Some in Ei as (x & Hx & He). apply N.eqb_eq in He. subst x.
    eapply elem_of_list_lookup_2; eassumption.
Qed.

Lemma stored_set_name c n : stored (set_name c n) = rename_e n (stored c).
Proof. destruct c. reflexivity. Qed.

Lemma fst_zip_eq {A B} : forall (l : list A) (k : list B), length l = length k -> fst <$> zip l k = l.
Proof.
  induction l as [|x l IH]; intros [|y k] H; try discriminate; [reflexivity|].
  cbn. f_equal. apply IH. cbn in H. lia.
Qed.

Lemma rename_gateway_cons host s keys names s' :
  Inv s -> Cons s -> is_Some (s_eng s !! host) -> NoDup keys -> length keys = length names ->
  (forall k, k ∈ keys -> leaseholder k = host) ->
  rename_gateway host s keys names = (s', EOk) -> Cons s'.
Proof.
  intros I C Hn Hnd Hlen Hkeys. unfold rename_gateway.
  destruct (tab_rename (s_tab s) keys names) as [t' er1] eqn:Et.
  destruct (negb (is_ok er1)) eqn:Eo; [intros [= _ ->]; discriminate|].
  apply negb_false_iff in Eo. unfold is_ok in Eo. apply bool_decide_eq_true in Eo. subst er1.
  destruct (ts_rename _ (zip keys names)) as [e' er2] eqn:Er. intros [= <- ->].
  destruct (tab_rename_ok _ _ _ _ Hlen Et) as [Hex Ht'].
  assert (Hnd' : NoDup (fst <$> zip keys names)) by (rewrite fst_zip_eq by exact Hlen; exact Hnd).
  destruct (ts_rename_ok _ _ _ Hnd' Er) as [_ He'].
  change (eng_of (upd_tab s t') host) with (eng_of s host) in He'.
  assert (Hlook : forall k, look_name k (zip keys names) <> None -> k ∈ keys).
  { intros k H. destruct (decide (k ∈ keys)) as [?|Hnin]; [assumption|]. exfalso. apply H.
    apply look_name_None. rewrite fst_zip_eq by exact Hlen. exact Hnin. }
  assert (Heng : forall n k, eng_of (upd_eng (upd_tab s t') host e') n !! k =
                 if decide (n = host) then e' !! k else eng_of s n !! k).
  { intros n k. rewrite eng_of_upd_eng. destruct (decide (n = host)); reflexivity. }
  constructor.
  - intros k c' Hk Hl. cbn [upd_eng upd_tab s_tab] in Hk. rewrite Ht' in Hk. rewrite Heng.
    destruct (look_name k (zip keys names)) as [nm|] eqn:El.
    + destruct (s_tab s !! k) as [c|] eqn:Ec; [|discriminate]. cbn in Hk. injection Hk as <-.
      assert (Hin : k ∈ keys) by (apply Hlook; congruence).
      assert (Hlease : c_lease c = host) by (rewrite <- (Inv_row_lease s k c I Ec); apply Hkeys, Hin).
      replace (c_lease (set_name c nm)) with (c_lease c) by (destruct c; reflexivity).
      rewrite Hlease. destruct (decide (host = host)); [|congruence].
      rewrite He', El.
      assert (Hlf : c_lease c <> node_free) by (destruct c; exact Hl).
      pose proof (cons_tab _ C k c Ec Hlf) as Hs. rewrite Hlease in Hs. rewrite Hs.
      cbn. rewrite stored_set_name. reflexivity.
    + destruct (decide (c_lease c' = host)) as [Eh|Hne].
      * rewrite He', El. rewrite <- Eh. apply (cons_tab _ C k c' Hk Hl).
      * apply (cons_tab _ C k c' Hk Hl).
  - intros n k e0 Hk. rewrite Heng in Hk. cbn [upd_eng upd_tab s_tab]. rewrite Ht'.
    destruct (decide (n = host)) as [->|Hne].
    + rewrite He' in Hk. destruct (look_name k (zip keys names)) as [nm|] eqn:El.
      * destruct (eng_of s host !! k) as [x|] eqn:Ex; [|discriminate].
        cbn in Hk. injection Hk as <-.
        destruct (cons_eng _ C host k x Ex) as (c & Hc & Hl & ->). exists (set_name c nm).
        rewrite Hc. cbn. split; [reflexivity|]. split; [destruct c; exact Hl|]. symmetry. apply stored_set_name.
      * apply (cons_eng _ C host k e0 Hk).
    + destruct (cons_eng _ C n k e0 Hk) as (c & Hc & Hl & He). exists c.
      destruct (look_name k (zip keys names)) as [nm|] eqn:El; [|auto]. exfalso.
      assert (Hin : k ∈ keys) by (apply Hlook; congruence).
      apply Hne. rewrite <- (Hkeys k Hin), <- Hl. symmetry. apply (Inv_row_lease s k c I Hc).
Qed.

(* renaming free channels touches metadata only *)
Lemma rename_free_cons s free s' :
  Inv s -> Cons s -> length (fst <$> free) = length (snd <$> free) ->
  (forall k, k ∈ (fst <$> free) -> leaseholder k = node_free) ->
  rename_free s free = (s', EOk) -> Cons s'.
Proof.
  intros I C Hlen Hfree. unfold rename_free. destruct free as [|f0 fr]; [intros [= <-]; exact C|].
  set (free := f0 :: fr) in *.
  destruct (tab_rename (s_tab s) (fst <$> free) (snd <$> free)) as [t' er] eqn:Et.
  destruct (is_ok er) eqn:Eo; intros [= <- ->]; [|discriminate].
  destruct (tab_rename_ok _ _ _ _ Hlen Et) as [Hex Ht'].
  assert (Hlook : forall k, look_name k (zip (fst <$> free) (snd <$> free)) <> None -> k ∈ (fst <$> free)).
  { intros k H. destruct (decide (k ∈ (fst <$> free))) as [?|Hnin]; [assumption|]. exfalso. apply H.
    apply look_name_None. rewrite fst_zip_eq by exact Hlen. exact Hnin. }
  constructor.
  - intros k c' Hk Hl. cbn [upd_tab s_tab] in Hk. rewrite Ht' in Hk.
    destruct (look_name k _) as [nm|] eqn:El.
    + exfalso. destruct (s_tab s !! k) as [c|] eqn:Ec; [|discriminate]. cbn in Hk. injection Hk as <-.
      assert (Hin : k ∈ (fst <$> free)) by (apply Hlook; congruence).
      apply Hl. replace (c_lease (set_name c nm)) with (c_lease c) by (destruct c; reflexivity).
      rewrite <- (Inv_row_lease s k c I Ec). apply Hfree, Hin.
    + apply (cons_tab _ C k c' Hk Hl).
  - intros n k e0 Hk. destruct (cons_eng _ C n k e0 Hk) as (c & Hc & Hl & He). exists c.
    cbn [upd_tab s_tab]. rewrite Ht'. destruct (look_name k _) as [nm|] eqn:El; [|auto]. exfalso.
    assert (Hin : k ∈ (fst <$> free)) by (apply Hlook; congruence).
    assert (Hk' : is_Some (eng_of s n !! k)) by (exists e0; exact Hk).
    destruct (Inv_engine_lease s n k I Hk') as [Hl' Hnode]. destruct (inv_nodes _ I n Hnode).
    pose proof (Hfree k Hin). lia.
Qed.

Lemma NoDup_fst_filter {A} (p : N * A -> bool) (kn : list (N * A)) :
  NoDup (fst <$> kn) -> NoDup (fst <$> filter (fun x => p x) kn).
Proof.
  induction kn as [|[k a] kn IH]; intros H; [constructor|].
  cbn [fmap list_fmap fst] in H. apply NoDup_cons in H as [Hk H]. rewrite filter_cons.
  destruct (decide (Is_true (p (k, a)))); [|apply IH, H].
  cbn [fmap list_fmap fst]. apply NoDup_cons. split; [|apply IH, H].
  intros Hin. apply Hk. apply elem_of_list_fmap in Hin as (x & -> & Hx).
  apply elem_of_list_filter in Hx as [_ Hx]. apply elem_of_list_fmap. eauto.
Qed.
Lemma fst_filter_lease {A} (l : N) (kn : list (N * A)) k :
  k ∈ (fst <$> filter (fun x => leaseholder x.1 =? l) kn) -> leaseholder k = l.
Proof.
  intros H. apply elem_of_list_fmap in H as ([k' a] & -> & H). apply elem_of_list_filter in H as [H _].
  cbn [fst] in H |- *. apply N.eqb_eq. apply Is_true_eq_true in H. exact H.
Qed.
Lemma fst_snd_length {A B} (l : list (A * B)) : length (fst <$> l) = length (snd <$> l).
Proof. rewrite !fmap_length. reflexivity. Qed.

Lemma is_ok_false er : negb (is_ok er) = false -> er = EOk.
Proof. intros H. apply negb_false_iff in H. unfold is_ok in H. apply bool_decide_eq_true in H. exact H. Qed.

Lemma rename_remote_cons fixed validate p s kn s' :
  Inv s -> Cons s -> NoDup (fst <$> kn) ->
  rename_remote fixed validate p s kn = (s', EOk) -> Cons s'.
Proof.
  intros I C Hnd. unfold rename_remote. destruct (is_node s p) eqn:En; cbn [negb]; [|discriminate].
  apply is_node_true in En.
  destruct (rename_checks fixed validate s _ _) as [er0 amb].
  destruct (negb (is_ok er0)) eqn:Eo0; [intros [= _ ->]; discriminate|].
  set (s0 := upd_amb s amb).
  assert (I0 : Inv s0) by (eapply Inv_ext; [exact I|apply ext_upd_amb]).
  assert (C0 : Cons s0) by (apply Cons_upd_amb, C).
  set (free := filter (fun x => leaseholder x.1 =? node_free) kn).
  set (own := filter (fun x => leaseholder x.1 =? p) kn).
  destruct (if p =? node_boot then rename_free s0 free else _) as [s1 er1] eqn:E1.
  destruct (negb (is_ok er1)) eqn:Eo1; [intros [= _ ->]; discriminate|]. apply is_ok_false in Eo1. subst er1.
  assert (X1 : ext s0 s1).
  { destruct (p =? node_boot); [eapply rename_free_ext; exact E1|].
    destruct free; [injection E1 as <-; apply ext_refl|discriminate]. }
  assert (C1 : Cons s1).
  { destruct (p =? node_boot).
    - eapply rename_free_cons; [exact I0|exact C0|apply fst_snd_length| |exact E1].
      intros k Hk. eapply fst_filter_lease. exact Hk.
    - destruct free; [injection E1 as <-; exact C0|discriminate]. }
  destruct own as [|o0 own'] eqn:Eown; [intros [= <-]; exact C1|].
  destruct (rename_gateway p s1 _ _) as [s2 er2] eqn:E2. intros [= <- ->]. rewrite rollback_ok.
  eapply rename_gateway_cons; [eapply Inv_ext; eassumption|exact C1| | | | |exact E2].
  - apply (ext_nodes _ _ X1). exact En.
  - rewrite <- Eown. apply NoDup_fst_filter, Hnd.
  - apply fst_snd_length.
  - intros k Hk. rewrite <- Eown in Hk. eapply fst_filter_lease. exact Hk.
Qed.

Lemma rename_peers_cons fixed validate : forall peers s kn s',
  Inv s -> Cons s -> NoDup (fst <$> kn) ->
  rename_peers fixed validate s peers kn = (s', EOk) -> Cons s' /\ ext s s'.
Proof.
  induction peers as [|p peers IH]; intros s kn s' I C Hnd; cbn [rename_peers].
  - intros [= <-]. split; [exact C|apply ext_refl].
  - destruct (rename_remote fixed validate p s _) as [s1 er1] eqn:E1.
    destruct (is_ok er1) eqn:Eo; [|intros [= _ ->]; discriminate].
    unfold is_ok in Eo. apply bool_decide_eq_true in Eo. subst er1. intros H.
    pose proof (rename_remote_ext _ _ _ _ _ _ _ E1) as X1.
    assert (C1 : Cons s1) by (eapply rename_remote_cons; [exact I|exact C|apply NoDup_fst_filter, Hnd|exact E1]).
    destruct (IH _ _ _ (Inv_ext _ _ I X1) C1 Hnd H) as [C2 X2].
    split; [exact C2|eapply ext_trans; eassumption].
Qed.

Lemma rename_keys_cons validate host s keys names s' out :
  Inv s -> Cons s -> is_Some (s_eng s !! host) -> NoDup keys ->
  rename_keys true validate host s keys names = (s', (EOk, out)) -> Cons s'.
Proof.
  intros I C Hn Hnd. unfold rename_keys.
  destruct (rename_checks true validate s keys names) as [er0 amb] eqn:Ech.
  destruct (negb (is_ok er0)) eqn:Eo0; [intros [= _ -> _]; discriminate|]. apply is_ok_false in Eo0. subst er0.
  assert (Hlen : length keys = length names).
  { unfold rename_checks in Ech. destruct (length keys =? length names)%nat eqn:El; cbn [negb] in Ech; [|discriminate].
    apply Nat.eqb_eq, El. }
  set (s0 := upd_amb s amb).
  assert (I0 : Inv s0) by (eapply Inv_ext; [exact I|apply ext_upd_amb]).
  assert (C0 : Cons s0) by (apply Cons_upd_amb, C).
  set (kn := zip keys names).
  assert (Hndk : NoDup (fst <$> kn)) by (unfold kn; rewrite fst_zip_eq by exact Hlen; exact Hnd).
  destruct (rename_peers true validate s0 _ kn) as [s1 er1] eqn:E1.
  destruct (negb (is_ok er1)) eqn:Eo1; [intros [= _ -> _]; discriminate|]. apply is_ok_false in Eo1. subst er1.
  destruct (rename_peers_cons _ _ _ _ _ _ I0 C0 Hndk E1) as [C1 X1].
  set (s1' := upd_amb s1 _).
  assert (I1 : Inv s1') by (eapply Inv_ext; [eapply Inv_ext; [exact I0|exact X1]|apply ext_upd_amb]).
  assert (C1' : Cons s1') by (apply Cons_upd_amb, C1).
  set (free := filter (fun x => leaseholder x.1 =? node_free) kn).
  destruct (match free with [] => _ | _ => _ end) as [s2 er2] eqn:E2.
  destruct (negb (is_ok er2)) eqn:Eo2; [intros [= _ -> _]; discriminate|]. apply is_ok_false in Eo2. subst er2.
  assert (X2 : ext s1' s2 /\ Cons s2).
  { destruct free as [|f0 fr] eqn:Ef; [injection E2 as <-; split; [apply ext_refl|exact C1']|].
    destruct (true && negb (host =? node_boot)).
    - split; [eapply rename_remote_ext; exact E2|].
      eapply rename_remote_cons; [exact I1|exact C1'| |exact E2]. rewrite <- Ef. apply NoDup_fst_filter, Hndk.
    - split; [eapply rename_free_ext; exact E2|].
      eapply rename_free_cons; [exact I1|exact C1'|apply fst_snd_length| |exact E2].
      intros k Hk. rewrite <- Ef in Hk. eapply fst_filter_lease. exact Hk. }
  destruct X2 as [X2 C2].
  destruct (filter (fun x => leaseholder x.1 =? host) kn) as [|g0 gw] eqn:Eg; [intros [= <- _]; exact C2|].
  destruct (rename_gateway host s2 _ _) as [s3 er3] eqn:E3. intros [= <- -> _].
  eapply rename_gateway_cons; [eapply Inv_ext; eassumption|exact C2| | | | |exact E3].
  - apply (ext_nodes _ _ X2). cbn. apply (ext_nodes _ _ X1). exact Hn.
  - rewrite <- Eg. apply NoDup_fst_filter, Hndk.
  - apply fst_snd_length.
  - intros k Hk. rewrite <- Eg in Hk. eapply fst_filter_lease. exact Hk.
Qed.

(* ---- a rejected rename leaves both stores as they were *)
Lemma ts_rename_total : forall kn e, (forall k, k ∈ (fst <$> kn) -> is_Some (e !! k)) ->
  Forall (fun n => n <> "") (snd <$> kn) ->
  exists e', ts_rename e kn = (e', EOk).
Proof.
  induction kn as [|[k n] kn IH]; intros e H Hnames; cbn [ts_rename]; [eauto|].
  cbn [fmap list_fmap snd] in Hnames. apply Forall_cons in Hnames as [Hn Hnames].
  destruct (H k) as [c Hc]; [left|]. rewrite Hc.
  unfold name_eqb. rewrite bool_decide_false by exact Hn. apply IH; [|exact Hnames]. intros x Hx.
  destruct (decide (x = k)) as [->|Hne]; [rewrite lookup_insert; eauto|].
  rewrite lookup_insert_ne by congruence. apply H. right. exact Hx.
Qed.

(* renameGateway from a consistent state: the metadata update validates (every key exists, none
   internal) before anything is written, and once it passes the engine cannot refuse — so a rename
   that returns an error has changed neither metadata nor engine *)
Lemma snd_zip_eq {A B} : forall (l : list A) (k : list B), length l = length k -> snd <$> zip l k = k.
Proof.
  induction l as [|x l IH]; intros [|y k] H; try discriminate; [reflexivity|].
  cbn. f_equal. apply IH. cbn in H. lia.
Qed.

Theorem rename_gateway_rejected host s keys names s' er :
  Inv s -> Cons s -> is_Some (s_eng s !! host) -> length keys = length names ->
  Forall (fun n => n <> "") names ->
  (forall k, k ∈ keys -> leaseholder k = host) ->
  rename_gateway host s keys names = (s', er) -> er <> EOk -> s' = s.
Proof.
  intros I C Hn Hlen Hnames Hkeys. unfold rename_gateway.
  destruct (tab_rename (s_tab s) keys names) as [t' er1] eqn:Et.
  destruct (negb (is_ok er1)) eqn:Eo; [intros [= <- _] _; reflexivity|].
  apply is_ok_false in Eo. subst er1.
  destruct (tab_rename_ok _ _ _ _ Hlen Et) as [Hex _].
  destruct (ts_rename_total (zip keys names) (eng_of (upd_tab s t') host)) as [e' He'].
  { intros k Hk. rewrite fst_zip_eq in Hk by exact Hlen. destruct (Hex k Hk) as (c & Hc & _).
    change (eng_of (upd_tab s t') host) with (eng_of s host).
    assert (Hl : c_lease c = host) by (rewrite <- (Inv_row_lease s k c I Hc); apply Hkeys, Hk).
    assert (Hnf : c_lease c <> node_free) by (rewrite Hl; destruct (inv_nodes _ I host Hn); lia).
    pose proof (cons_tab _ C k c Hc Hnf) as H. rewrite Hl in H. rewrite H. eauto. }
  { rewrite snd_zip_eq by exact Hlen. exact Hnames. }
  rewrite He'. intros [= _ <-] H. congruence.
Qed.
