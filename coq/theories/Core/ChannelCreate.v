(* Core/ChannelCreate.v — create extends the state: new rows / engine channels carry keys above
   the previous counter value (tree with the fixes, [fixed = true]). *)
From stdpp Require Import gmap strings sorting.
From Coq Require Import NArith Lia.
From Synnax Require Import Generated.Consts_C15 Core.Channel Core.ChannelKeys Core.ChannelAssign Core.ChannelInv
  Core.ChannelShrink.
Local Open Scope N_scope.
Notation length := List.length.

Lemma Inv_tab_pos s : Inv s -> tab_pos (s_tab s).
Proof.
  intros I k c H. destruct (inv_tab _ I k c H) as (_ & _ & Hpos & _).
  unfold zero_key. apply N.eqb_neq. lia.
Qed.

Lemma over_loop_mem : forall existing chs del chs' del',
  over_loop existing chs del = (chs', del') ->
  forall c, c ∈ chs' -> c ∈ chs \/ c ∈ (snd <$> existing).
Proof.
  induction existing as [|[ek ex] existing IH]; intros chs del chs' del'; simpl.
  - intros [= <- <-] c H. auto.
  - destruct (index_where _ chs) as [i|] eqn:Ei.
    + destruct (chs !! i) as [c0|] eqn:Ec.
      * destruct (equal_props c0 ex).
        -- intros H c Hc. destruct (IH _ _ _ _ H c Hc) as [Hin|Hin]; [|right; right; assumption].
           apply elem_of_list_lookup in Hin as (j & Hj). destruct (decide (j = i)) as [->|Hne].
           ++ rewrite list_lookup_insert in Hj by (eapply lookup_lt_Some; eassumption).
              injection Hj as <-. right. left.
           ++ rewrite list_lookup_insert_ne in Hj by congruence. left. eapply elem_of_list_lookup_2; eassumption.
        -- intros H c Hc. destruct (IH _ _ _ _ H c Hc); [auto|right; right; assumption].
      * intros H c Hc. destruct (IH _ _ _ _ H c Hc); [auto|right; right; assumption].
    + intros H c Hc. destruct (IH _ _ _ _ H c Hc); [auto|right; right; assumption].
Qed.

Lemma delete_overwritten_ext fixed host s chs s' er chs' :
  is_Some (s_eng s !! host) -> delete_overwritten fixed host s chs = (s', er, chs') ->
  ext s s' /\ forall c, c ∈ chs' -> c ∈ chs \/ exists k, s_tab s !! k = Some c.
Proof.
  intros Hn. unfold delete_overwritten. destruct chs as [|c0 chs0]; [intros [= <- <- <-]; split; [apply ext_refl|auto]|].
  set (chs := c0 :: chs0).
  destruct (lookup_names (s_tab s) (c_name <$> chs)) as [ex amb] eqn:El.
  destruct (over_loop ex chs []) as [chs1 del] eqn:Eo.
  destruct (ts_delete fixed _ del) as [e' er'] eqn:Ed. intros [= <- <- <-]. split.
  - eapply ext_trans; [apply ext_upd_tab_sub, tab_delete_sub|].
    eapply ext_trans; [apply ext_upd_amb|].
    apply ext_upd_eng_sub; [exact Hn|]. eapply ts_delete_sub; eassumption.
  - intros c Hc. destruct (over_loop_mem _ _ _ _ _ Eo c Hc) as [?|Hin]; [auto|].
    right. apply elem_of_list_fmap in Hin as ([k c'] & -> & Hin). exists k.
    eapply lookup_names_sound; eassumption.
Qed.

Lemma tab_insert_lookup : forall l t k c,
  tab_insert t l !! k = Some c -> t !! k = Some c \/ (c ∈ l /\ k = chan_key c).
Proof.
  unfold tab_insert. induction l as [|x l IH]; intros t k c; simpl; [auto|].
  intros H. destruct (IH _ _ _ H) as [H1|[H1 H2]]; [|right; split; [right; assumption|assumption]].
  destruct (decide (k = chan_key x)) as [->|Hne].
  - rewrite lookup_insert in H1. injection H1 as <-. right. split; [left|reflexivity].
  - rewrite lookup_insert_ne in H1 by congruence. auto.
Qed.

(* a state built from [s] by advancing the leased counter of [host] and adding [created] *)
Lemma ext_created host s s' ctr' created :
  is_Some (s_eng s !! host) -> host <> node_free ->
  default 0 (s_ctr s !! host) <= ctr' -> ctr' <= max_local ->
  s_ctr s' = <[host := ctr']> (s_ctr s) -> s_free s' = s_free s ->
  (forall n, is_Some (s_eng s' !! n) <-> is_Some (s_eng s !! n)) ->
  (forall c, c ∈ created -> c_lease c = host /\ default 0 (s_ctr s !! host) < c_lkey c /\ c_lkey c <= ctr') ->
  (forall k c, s_tab s' !! k = Some c ->
     (exists c0, s_tab s !! k = Some c0 /\ kf c0 = kf c) \/ (c ∈ created /\ k = chan_key c)) ->
  (forall n k, is_Some (eng_of s' n !! k) ->
     is_Some (eng_of s n !! k) \/ (n = host /\ exists c, c ∈ created /\ k = chan_key c)) ->
  ext s s'.
Proof.
  intros Hn Hnf Hle Hmax Hc Hf Hnodes Hcr Htab Heng.
  assert (Hctr : forall l, ctr_of s' l = if decide (l = host) then ctr' else ctr_of s l).
  { intros l. unfold ctr_of. rewrite Hc, Hf. destruct (l =? node_free) eqn:El.
    - apply N.eqb_eq in El. subst l. destruct (decide (node_free = host)); [congruence|reflexivity].
    - destruct (decide (l = host)) as [->|Hne]; [rewrite lookup_insert; reflexivity|].
      rewrite lookup_insert_ne by congruence. reflexivity. }
  assert (Hhost : ctr_of s host = default 0 (s_ctr s !! host)).
  { unfold ctr_of. destruct (host =? node_free) eqn:El; [apply N.eqb_eq in El; congruence|reflexivity]. }
  assert (Hfresh : forall c, c ∈ created -> fresh_in s s' (c_lease c) (c_lkey c)).
  { intros c Hin. destruct (Hcr c Hin) as (-> & Hlo & Hhi). split; [right; assumption|].
    rewrite Hctr, Hhost. destruct (decide (host = host)); [|congruence]. split; assumption. }
  constructor.
  - intros l. rewrite Hctr. destruct (decide (l = host)) as [->|]; [rewrite Hhost; assumption|lia].
  - intros H l. rewrite Hctr. destruct (decide (l = host)); [assumption|apply H].
  - assumption.
  - intros k c H. destruct (Htab k c H) as [?|[Hin ->]]; [left; assumption|]. right. split; [reflexivity|auto].
  - intros n k H. destruct (Heng n k H) as [?|(-> & c & Hin & ->)]; [left; assumption|].
    right. split; [assumption|]. exists (c_lkey c). destruct (Hcr c Hin) as (El & _).
    split; [unfold chan_key; rewrite El; reflexivity|]. rewrite <- El at 1. auto.
Qed.

Lemma created_bounds ctr ctr' (chs created : list chan) :
  (forall j c, created !! j = Some c ->
     exists c0, c0 ∈ chs /\ keyed_from c0 c (ctr + N.of_nat j + 1) /\ ctr + N.of_nat j + 1 <= ctr') ->
  forall c, c ∈ created -> exists c0, c0 ∈ chs /\ c_lkey c0 = 0 /\ c_lease c = c_lease c0 /\
                                      ctr < c_lkey c /\ c_lkey c <= ctr'.
Proof.
  intros H c Hin. apply elem_of_list_lookup in Hin as (j & Hj).
  destruct (H j c Hj) as (c0 & Hc0 & Hk & Hle). exists c0. destruct Hk as (Hz & Hkey & Hl & _).
  repeat split; try assumption; lia.
Qed.

Lemma create_gateway_ext host s chs o s' er out :
  Inv s -> is_Some (s_eng s !! host) -> Forall (fun c => c_lease c = host) chs ->
  create_gateway true host s chs o = (s', er, out) -> ext s s'.
Proof.
  intros I Hn Hall. unfold create_gateway.
  destruct (if o_over o then _ else _) as [[s1 er1] chs1] eqn:E1.
  assert (X1 : ext s s1 /\ forall c, c ∈ chs1 -> c ∈ chs \/ exists k, s_tab s !! k = Some c).
  { destruct (o_over o); [eapply delete_overwritten_ext; eassumption|].
    injection E1 as <- <- <-. split; [apply ext_refl|auto]. }
  destruct X1 as [X1 Hmem].
  destruct (negb (is_ok er1)); [intros [= <- <- <-]; exact X1|].
  destruct (negb (names_required chs1)); [intros [= <- <- <-]; exact X1|].
  pose proof (Inv_ext _ _ I X1) as I1.
  assert (Hn1 : is_Some (s_eng s1 !! host)) by (apply (ext_nodes _ _ X1), Hn).
  assert (Hnf : host <> node_free) by (destruct (inv_nodes _ I host Hn); lia).
  destruct (retrieve_assign true (s_tab s1) _ chs1 (o_retr o)) as [[[[er2 ctr'] chs2] created] amb] eqn:E2.
  destruct (retrieve_assign_spec _ _ _ _ _ _ _ _ _ (Inv_tab_pos _ I1) E2) as [Hbad Hgood].
  set (ctr := default 0 (s_ctr s1 !! host)) in *.
  assert (Hmax : ctr <= max_local).
  { pose proof (inv_ctr _ I1 host) as H. unfold ctr_of in H.
    destruct (host =? node_free) eqn:El; [apply N.eqb_eq in El; congruence|exact H]. }
  assert (Hcr : er2 = EOk -> forall c, c ∈ created -> c_lease c = host /\ ctr < c_lkey c /\ c_lkey c <= ctr').
  { intros Hok c Hin. destruct (Hgood Hok) as (_ & _ & Hj).
    destruct (created_bounds _ _ _ _ Hj c Hin) as (c0 & Hc0 & Hz & Hl & Hlo & Hhi).
    split; [|split; assumption]. rewrite Hl.
    destruct (Hmem c0 Hc0) as [Hin0|(k & Hk)].
    - rewrite Forall_forall in Hall. apply Hall, Hin0.
    - destruct (inv_tab _ I k c0 Hk) as (_ & _ & Hpos & _). lia. }
  set (s2 := upd_amb (St (s_tab s1) (s_eng s1) (<[host:=ctr']> (s_ctr s1)) (s_free s1) (s_amb s1)) amb).
  destruct (negb (is_ok er2)) eqn:Eok2.
  { intros [= <- <- <-]. eapply ext_trans; [exact X1|].
    assert (er2 <> EOk) by (intros ->; discriminate).
    destruct (Hbad H) as [-> ->].
    apply (ext_created host s1 s2 ctr []); try assumption; try reflexivity; try lia; try tauto.
    - intros c Hc. inversion Hc.
    - intros k c Hk. left. eauto.
    - intros n k Hk. left. exact Hk. }
  assert (Hok2 : er2 = EOk).
  { unfold is_ok in Eok2. apply negb_false_iff, bool_decide_eq_true in Eok2. exact Eok2. }
  destruct (Hgood Hok2) as (Hle & Hmax' & _). specialize (Hcr Hok2).
  destruct (ts_create (eng_of s2 host) _) as [e' er3] eqn:E3.
  set (s3 := upd_eng s2 host e').
  assert (Heng3 : forall n k, is_Some (eng_of s3 n !! k) ->
            is_Some (eng_of s1 n !! k) \/ (n = host /\ exists c, c ∈ created /\ k = chan_key c)).
  { intros n k Hk. unfold s3 in Hk. rewrite eng_of_upd_eng in Hk.
    destruct (decide (n = host)) as [->|Hne]; [|left; exact Hk].
    destruct (ts_create_keys _ _ _ _ E3 k Hk) as [H0|Hin]; [left; exact H0|].
    right. split; [reflexivity|]. rewrite <- list_fmap_compose in Hin.
    apply elem_of_list_fmap in Hin as (c & -> & Hin). eauto. }
  assert (Hnodes3 : forall n, is_Some (s_eng s3 !! n) <-> is_Some (s_eng s1 !! n)).
  { intros n. unfold s3. rewrite nodes_upd_eng by exact Hn1. reflexivity. }
  destruct (negb (is_ok er3)).
  { intros [= <- <- <-]. eapply ext_trans; [exact X1|].
    apply (ext_created host s1 s3 ctr' created); try assumption; try reflexivity.
    intros k c Hk. left. eauto. }
  intros [= <- <- <-]. eapply ext_trans; [exact X1|].
  apply (ext_created host s1 _ ctr' created); try assumption; try reflexivity.
  intros k c Hk. simpl in Hk. destruct (tab_insert_lookup _ _ _ _ Hk) as [H0|[Hin ->]]; [left; eauto|right; auto].
Qed.
