(* Core/ChannelCreate.v — create extends the state: new rows / engine channels carry keys above
   the previous counter value (tree with the fixes, [fixed = true]). *)
From stdpp Require Import gmap strings sorting.
From Coq Require Import NArith Lia.
From Synnax Require Import Generated.Consts_C15 Core.Channel Core.ChannelKeys Core.ChannelAssign Core.ChannelInv
  Core.ChannelShrink.
Local Open Scope N_scope.
Notation length := List.length.

Lemma Inv_tab_pos s : Inv s -> tab_pos (s_tab s).
Proof.
  intros I k c H. destruct (inv_tab _ I k c H) as (_ & _ & Hpos & _).
  unfold zero_key. apply N.eqb_neq. lia.
Qed.

Lemma over_loop_mem : forall existing chs del chs' del',
  over_loop existing chs del = (chs', del') ->
  forall c, c ∈ chs' -> c ∈ chs \/ c ∈ (snd <$> existing).
Proof.
  induction existing as [|[ek ex] existing IH]; intros chs del chs' del'; simpl.
  - intros [= <- <-] c H. auto.
  - destruct (index_where _ chs) as [i|] eqn:Ei.
    + destruct (chs !! i) as [c0|] eqn:Ec.
      * destruct (equal_props c0 ex).
        -- intros H c Hc. destruct (IH _ _ _ _ H c Hc) as [Hin|Hin]; [|right; right; assumption].
           apply elem_of_list_lookup in Hin as (j & Hj). destruct (decide (j = i)) as [->|Hne].
           ++ rewrite list_lookup_insert in Hj by (eapply lookup_lt_Some; eassumption).
              injection Hj as <-. right. left.
           ++ rewrite list_lookup_insert_ne in Hj by congruence. left. eapply elem_of_list_lookup_2; eassumption.
        -- intros H c Hc. destruct (IH _ _ _ _ H c Hc); [auto|right; right; assumption].
      * intros H c Hc. destruct (IH _ _ _ _ H c Hc); [auto|right; right; assumption].
    + intros H c Hc. destruct (IH _ _ _ _ H c Hc); [auto|right; right; assumption].
Qed.

Lemma delete_overwritten_ext fixed host s chs s' er chs' :
  is_Some (s_eng s !! host) -> delete_overwritten fixed host s chs = (s', er, chs') ->
  ext s s' /\ forall c, c ∈ chs' -> c ∈ chs \/ exists k, s_tab s !! k = Some c.
Proof.
  intros Hn. unfold delete_overwritten. destruct chs as [|c0 chs0]; [intros [= <- <- <-]; split; [apply ext_refl|auto]|].
  set (chs := c0 :: chs0).
  destruct (lookup_names (s_tab s) (c_name <$> chs)) as [ex amb] eqn:El.
  destruct (over_loop ex chs []) as [chs1 del] eqn:Eo.
  destruct (ts_delete fixed _ del) as [e' er'] eqn:Ed. intros [= <- <- <-]. split.
  - eapply ext_trans; [apply ext_upd_tab_sub, tab_delete_sub|].
    eapply ext_trans; [apply ext_upd_amb|].
    apply ext_upd_eng_sub; [exact Hn|]. eapply ts_delete_sub; eassumption.
  - intros c Hc. destruct (over_loop_mem _ _ _ _ _ Eo c Hc) as [?|Hin]; [auto|].
    right. apply elem_of_list_fmap in Hin as ([k c'] & -> & Hin). exists k.
    eapply lookup_names_sound; eassumption.
Qed.

Lemma tab_insert_lookup : forall l t k c,
  tab_insert t l !! k = Some c -> t !! k = Some c \/ (c ∈ l /\ k = chan_key c).
Proof.
  unfold tab_insert. induction l as [|x l IH]; intros t k c; simpl; [auto|].
  intros H. destruct (IH _ _ _ H) as [H1|[H1 H2]]; [|right; split; [right; assumption|assumption]].
  destruct (decide (k = chan_key x)) as [->|Hne].
  - rewrite lookup_insert in H1. injection H1 as <-. right. split; [left|reflexivity].
  - rewrite lookup_insert_ne in H1 by congruence. auto.
Qed.

(* a state built from [s] by advancing the leased counter of [host] and adding [created] *)
Lemma ext_created host s s' ctr' (created : list chan) :
  is_Some (s_eng s !! host) -> host <> node_free ->
  default 0 (s_ctr s !! host) <= ctr' -> ctr' <= max_local ->
  s_ctr s' = <[host := ctr']> (s_ctr s) -> s_free s' = s_free s ->
  (forall n, is_Some (s_eng s' !! n) <-> is_Some (s_eng s !! n)) ->
  (forall c, c ∈ created -> c_lease c = host /\ default 0 (s_ctr s !! host) < c_lkey c /\ c_lkey c <= ctr') ->
  (forall k c, s_tab s' !! k = Some c ->
     (exists c0, s_tab s !! k = Some c0 /\ kf c0 = kf c) \/ (c ∈ created /\ k = chan_key c)) ->
  (forall n k, is_Some (eng_of s' n !! k) ->
     is_Some (eng_of s n !! k) \/ (n = host /\ exists c, c ∈ created /\ k = chan_key c)) ->
  ext s s'.
Proof.
  intros Hn Hnf Hle Hmax Hc Hf Hnodes Hcr Htab Heng.
  assert (Hctr : forall l, ctr_of s' l = if decide (l = host) then ctr' else ctr_of s l).
  { intros l. unfold ctr_of. rewrite Hc, Hf. destruct (l =? node_free) eqn:El.
    - apply N.eqb_eq in El. subst l. destruct (decide (node_free = host)); [congruence|reflexivity].
    - destruct (decide (l = host)) as [->|Hne]; [rewrite lookup_insert; reflexivity|].
      rewrite lookup_insert_ne by congruence. reflexivity. }
  assert (Hhost : ctr_of s host = default 0 (s_ctr s !! host)).
  { unfold ctr_of. destruct (host =? node_free) eqn:El; [apply N.eqb_eq in El; congruence|reflexivity]. }
  assert (Hfresh : forall c, c ∈ created -> fresh_in s s' (c_lease c) (c_lkey c)).
  { intros c Hin. destruct (Hcr c Hin) as (-> & Hlo & Hhi). split; [right; assumption|].
    rewrite Hctr, Hhost. destruct (decide (host = host)); [|congruence]. split; assumption. }
  constructor.
  - intros l. rewrite Hctr. destruct (decide (l = host)) as [->|]; [rewrite Hhost; assumption|lia].
  - intros H l. rewrite Hctr. destruct (decide (l = host)); [assumption|apply H].
  - assumption.
  - intros k c H. destruct (Htab k c H) as [?|[Hin ->]]; [left; assumption|]. right. split; [reflexivity|auto].
  - intros n k H. destruct (Heng n k H) as [?|(-> & c & Hin & ->)]; [left; assumption|].
    right. split; [assumption|]. exists (c_lkey c). destruct (Hcr c Hin) as (El & _).
    split; [unfold chan_key; rewrite El; reflexivity|]. rewrite <- El at 1. auto.
Qed.

Lemma created_bounds ctr ctr' (chs created : list chan) :
  (forall j c, created !! j = Some c ->
     exists c0, c0 ∈ chs /\ keyed_from c0 c (ctr + N.of_nat j + 1) /\ ctr + N.of_nat j + 1 <= ctr') ->
  forall c, c ∈ created -> exists c0, c0 ∈ chs /\ c_lkey c0 = 0 /\ c_lease c = c_lease c0 /\
                                      ctr < c_lkey c /\ c_lkey c <= ctr'.
Proof.
  intros H c Hin. apply elem_of_list_lookup in Hin as (j & Hj).
  destruct (H j c Hj) as (c0 & Hc0 & Hk & Hle). exists c0. destruct Hk as (Hz & Hkey & Hl & _).
  repeat split; try assumption; lia.
Qed.

Lemma create_gateway_ext host s chs o s' er out :
  Inv s -> is_Some (s_eng s !! host) -> Forall (fun c => c_lease c = host) chs ->
  create_gateway true host s chs o = (s', er, out) -> ext s s'.
Proof.
  intros I Hn Hall. unfold create_gateway.
  destruct (if o_over o then _ else _) as [[s1 er1] chs1] eqn:E1.
  assert (X1 : ext s s1 /\ forall c, c ∈ chs1 -> c ∈ chs \/ exists k, s_tab s !! k = Some c).
  { destruct (o_over o); [eapply delete_overwritten_ext; eassumption|].
    injection E1 as <- <- <-. split; [apply ext_refl|auto]. }
  destruct X1 as [X1 Hmem].
  destruct (negb (is_ok er1)); [intros [= <- <- <-]; exact X1|].
  destruct (negb (names_required chs1)); [intros [= <- <- <-]; exact X1|].
  pose proof (Inv_ext _ _ I X1) as I1.
  assert (Hn1 : is_Some (s_eng s1 !! host)) by (apply (ext_nodes _ _ X1), Hn).
  assert (Hnf : host <> node_free) by (destruct (inv_nodes _ I host Hn); lia).
  destruct (retrieve_assign true (s_tab s1) _ chs1 (o_retr o)) as [[[[er2 ctr'] chs2] created] amb] eqn:E2.
  destruct (retrieve_assign_spec _ _ _ _ _ _ _ _ _ (Inv_tab_pos _ I1) E2) as [Hbad Hgood].
  set (ctr := default 0 (s_ctr s1 !! host)) in *.
  assert (Hmax : ctr <= max_local).
  { pose proof (inv_ctr _ I1 host) as H. unfold ctr_of in H.
    destruct (host =? node_free) eqn:El; [apply N.eqb_eq in El; congruence|exact H]. }
  assert (Hcr : er2 = EOk -> forall c, c ∈ created -> c_lease c = host /\ ctr < c_lkey c /\ c_lkey c <= ctr').
  { intros Hok c Hin. destruct (Hgood Hok) as (_ & _ & Hj).
    destruct (created_bounds _ _ _ _ Hj c Hin) as (c0 & Hc0 & Hz & Hl & Hlo & Hhi).
    split; [|split; assumption]. rewrite Hl.
    destruct (Hmem c0 Hc0) as [Hin0|(k & Hk)].
    - rewrite Forall_forall in Hall. apply Hall, Hin0.
    - destruct (inv_tab _ I k c0 Hk) as (_ & _ & Hpos & _). lia. }
  set (s2 := upd_amb (St (s_tab s1) (s_eng s1) (<[host:=ctr']> (s_ctr s1)) (s_free s1) (s_amb s1)) amb).
  destruct (negb (is_ok er2)) eqn:Eok2.
  { intros [= <- <- <-]. eapply ext_trans; [exact X1|].
    assert (er2 <> EOk) by (intros ->; discriminate).
    destruct (Hbad H) as [-> ->].
    apply (ext_created host s1 s2 ctr []); try assumption; try reflexivity; try lia; try tauto.
    all: try (intros c Hc; inversion Hc; fail).
    all: try (intros k c Hk; left; eauto; fail).
    all: try (intros n k Hk; left; exact Hk). }
  assert (Hok2 : er2 = EOk).
  { unfold is_ok in Eok2. apply negb_false_iff, bool_decide_eq_true in Eok2. exact Eok2. }
  destruct (Hgood Hok2) as (Hle & Hmax' & _). specialize (Hcr Hok2).
  destruct (ts_create (eng_of s2 host) _) as [e' er3] eqn:E3.
  set (s3 := upd_eng s2 host e').
  assert (Heng3 : forall n k, is_Some (eng_of s3 n !! k) ->
            is_Some (eng_of s1 n !! k) \/ (n = host /\ exists c, c ∈ created /\ k = chan_key c)).
  { intros n k Hk. unfold s3 in Hk. rewrite eng_of_upd_eng in Hk.
    destruct (decide (n = host)) as [->|Hne]; [|left; exact Hk].
    destruct (ts_create_keys _ _ _ _ E3 k Hk) as [H0|Hin]; [left; exact H0|].
    right. split; [reflexivity|]. rewrite <- list_fmap_compose in Hin.
    apply elem_of_list_fmap in Hin as (c & -> & Hin). eauto. }
  assert (Hnodes3 : forall n, is_Some (s_eng s3 !! n) <-> is_Some (s_eng s1 !! n)).
  { intros n. unfold s3. rewrite nodes_upd_eng by exact Hn1. reflexivity. }
  destruct (negb (is_ok er3)).
  { intros [= <- <- <-]. eapply ext_trans; [exact X1|].
    apply (ext_created host s1 s3 ctr' created); try assumption; try reflexivity.
    intros k c Hk. left. eauto. }
  intros [= <- <- <-]. eapply ext_trans; [exact X1|].
  apply (ext_created host s1 _ ctr' created); try assumption; try reflexivity.
  intros k c Hk. simpl in Hk. destruct (tab_insert_lookup _ _ _ _ Hk) as [H0|[Hin ->]]; [left; eauto|right; auto].
Qed.

(* ---- free channels (bootstrapper) *)
Lemma ext_created_free s s' ctr' (created : list chan) :
  (forall n, is_Some (s_eng s !! n) -> n <> node_free) ->
  s_free s <= ctr' -> ctr' <= max_local -> s_ctr s' = s_ctr s -> s_free s' = ctr' ->
  (forall n, is_Some (s_eng s' !! n) <-> is_Some (s_eng s !! n)) ->
  (forall c, c ∈ created -> c_lease c = node_free /\ s_free s < c_lkey c /\ c_lkey c <= ctr') ->
  (forall k c, s_tab s' !! k = Some c ->
     (exists c0, s_tab s !! k = Some c0 /\ kf c0 = kf c) \/
     (exists c1, c1 ∈ created /\ kf c1 = kf c /\ k = chan_key c)) ->
  (forall n, eng_sub (eng_of s' n) (eng_of s n)) ->
  ext s s'.
Proof.
  intros Hnn Hle Hmax Hc Hf Hnodes Hcr Htab Heng.
  assert (Hctr : forall l, ctr_of s' l = if decide (l = node_free) then ctr' else ctr_of s l).
  { intros l. unfold ctr_of. rewrite Hc, Hf. destruct (l =? node_free) eqn:El.
    - apply N.eqb_eq in El. subst l. destruct (decide (node_free = node_free)); [reflexivity|congruence].
    - apply N.eqb_neq in El. destruct (decide (l = node_free)); [congruence|reflexivity]. }
  assert (Hfree : ctr_of s node_free = s_free s) by (unfold ctr_of; rewrite N.eqb_refl; reflexivity).
  constructor.
  - intros l. rewrite Hctr. destruct (decide (l = node_free)) as [->|]; [rewrite Hfree; assumption|lia].
  - intros H l. rewrite Hctr. destruct (decide (l = node_free)); [assumption|apply H].
  - assumption.
  - intros k c H. destruct (Htab k c H) as [?|(c1 & Hin & Hk & ->)]; [left; assumption|].
    right. split; [reflexivity|]. destruct (Hcr c1 Hin) as (El & Hlo & Hhi).
    unfold kf in Hk. injection Hk as E1 E2. rewrite <- E1, <- E2, El.
    split; [left; reflexivity|]. rewrite Hctr, Hfree.
    destruct (decide (node_free = node_free)); [split; assumption|congruence].
  - intros n k H. left. apply Heng, H.
Qed.

Lemma foldl_upd_kf (upd : list chan) : forall (t0 : table) t er,
  foldl (fun '(t, er) c =>
           if negb (is_ok er) then (t, er) else
           match t !! chan_key c with
           | Some old => (<[chan_key c := set_lidx old (c_lidx c)]> t, EOk)
           | None => (t, ENotFound) end) (t0, EOk) upd = (t, er) ->
  forall k c, t !! k = Some c -> exists c', t0 !! k = Some c' /\ kf c' = kf c.
Proof.
  assert (G : forall upd (t0 : table) er0 t er,
    foldl (fun '(t, er) c =>
           if negb (is_ok er) then (t, er) else
           match t !! chan_key c with
           | Some old => (<[chan_key c := set_lidx old (c_lidx c)]> t, EOk)
           | None => (t, ENotFound) end) (t0, er0) upd = (t, er) ->
    forall k c, t !! k = Some c -> exists c', t0 !! k = Some c' /\ kf c' = kf c).
  { clear upd. induction upd as [|u upd IH]; intros t0 er0 t er; cbn [foldl].
    - intros [= <- <-] k c H. eauto.
    - destruct (negb (is_ok er0)); [apply IH|].
      destruct (t0 !! chan_key u) as [old|] eqn:Eo; [|apply IH].
      intros H k c Hk. destruct (IH _ _ _ _ H k c Hk) as (c' & Hc' & Hkf).
      destruct (decide (k = chan_key u)) as [->|Hne].
      + rewrite lookup_insert in Hc'. injection Hc' as <-. exists old. split; [assumption|].
        rewrite <- Hkf. destruct old; reflexivity.
      + rewrite lookup_insert_ne in Hc' by congruence. eauto. }
  intros t0 t er. apply G.
Qed.

Lemma auto_index_lease c : c_lease (auto_index c) = node_free.
Proof. reflexivity. Qed.

Lemma create_free_body_ext host s chs o s' er out :
  Inv s -> is_Some (s_eng s !! host) -> (forall c, c ∈ chs -> c_lkey c = 0 -> c_lease c = node_free) ->
  create_free_body true host s chs o = (s', er, out) -> ext s s'.
Proof.
  intros I Hn Hall. unfold create_free_body. cbv zeta.
  destruct (if o_over o then _ else _) as [[s1 er1] chs1] eqn:E1.
  assert (X1 : ext s s1 /\ forall c, c ∈ chs1 -> c ∈ chs \/ exists k, s_tab s !! k = Some c).
  { destruct (o_over o); [eapply delete_overwritten_ext; eassumption|].
    injection E1 as <- <- <-. split; [apply ext_refl|auto]. }
  destruct X1 as [X1 Hmem].
  destruct (negb (is_ok er1)); [intros [= <- <- <-]; exact X1|].
  pose proof (Inv_ext _ _ I X1) as I1.
  set (chs1b := chs1 ++ (auto_index <$> filter (fun c : chan => negb (c_lkey c =? 0) && needs_link c) chs1)).
  destruct (retrieve_assign true (s_tab s1) (s_free s1) chs1b (o_retr o)) as [[[[er2 ctr'] chs2] created] amb] eqn:E2.
  destruct (retrieve_assign_spec _ _ _ _ _ _ _ _ _ (Inv_tab_pos _ I1) E2) as [Hbad Hgood].
  assert (Hnn : forall n, is_Some (s_eng s1 !! n) -> n <> node_free)
    by (intros n Hnode; destruct (inv_nodes _ I1 n Hnode); lia).
  assert (Hmax : s_free s1 <= max_local).
  { pose proof (inv_ctr _ I1 node_free) as H. unfold ctr_of in H. rewrite N.eqb_refl in H. exact H. }
  set (s2 := upd_amb (St (s_tab s1) (s_eng s1) (s_ctr s1) ctr' (s_amb s1)) amb).
  destruct (negb (is_ok er2)) eqn:Eok2.
  { intros [= <- <- <-]. eapply ext_trans; [exact X1|].
    assert (er2 <> EOk) by (intros ->; discriminate).
    destruct (Hbad H) as [-> ->].
    apply (ext_created_free s1 s2 (s_free s1) []); try assumption; try reflexivity; try lia; try tauto.
    all: try (intros c Hc; inversion Hc; fail).
    all: try (intros k c Hk; left; eauto; fail).
    all: try (intros n k Hk; exact Hk). }
  assert (Hok2 : er2 = EOk).
  { unfold is_ok in Eok2. apply negb_false_iff, bool_decide_eq_true in Eok2. exact Eok2. }
  destruct (Hgood Hok2) as (Hle & Hmax' & Hj).
  assert (Hcr : forall c, c ∈ created -> c_lease c = node_free /\ s_free s1 < c_lkey c /\ c_lkey c <= ctr').
  { intros c Hin.
    destruct (created_bounds _ _ _ _ Hj c Hin) as (c0 & Hc0 & Hz & Hl & Hlo & Hhi).
    split; [|split; assumption]. rewrite Hl.
    unfold chs1b in Hc0. apply elem_of_app in Hc0 as [Hc0|Hc0].
    - destruct (Hmem c0 Hc0) as [Hin0|(k & Hk)].
      + apply Hall; assumption.
      + destruct (inv_tab _ I k c0 Hk) as (_ & _ & Hpos & _). lia.
    - apply elem_of_list_fmap in Hc0 as (x & -> & _). reflexivity. }
  match goal with |- context [foldl ?f ?a created] => set (chs3 := foldl f a created) end.
  match goal with |- context [foldl ?f (chs3, []) ?l] => destruct (foldl f (chs3, []) l) as [chs4 upd] end.
  match goal with |- context [tab_insert (s_tab s2) ?l] => set (created' := l) end.
  destruct (foldl _ (tab_insert (s_tab s2) created', EOk) upd) as [t2 er3] eqn:E3.
  assert (Hfinal : ext s1 (upd_tab s2 t2)).
  { apply (ext_created_free s1 _ ctr' created); try assumption; try reflexivity; try tauto.
    - intros k c Hk. cbn [upd_tab s_tab] in Hk.
      destruct (foldl_upd_kf _ _ _ _ E3 k c Hk) as (c' & Hc' & Hkf).
      destruct (tab_insert_lookup _ _ _ _ Hc') as [H0|[Hin Hkey]].
      + left. exists c'. split; [exact H0|exact Hkf].
      + right. unfold created' in Hin. apply elem_of_list_fmap in Hin as (c1 & Hc1 & Hin1).
        exists c1. split; [assumption|].
        assert (Hk1 : kf c1 = kf c').
        { rewrite Hc1. destruct (needs_link c1); [|reflexivity].
          destruct (find_auto_index created c1); [|reflexivity]. destruct c1; reflexivity. }
        split; [congruence|].
        rewrite Hkey. unfold chan_key. unfold kf in Hkf. injection Hkf as -> ->. reflexivity.
    - intros n k Hk. exact Hk. }
  destruct (negb (is_ok er3)); intros [= <- <- <-]; (eapply ext_trans; [exact X1|exact Hfinal]).
Qed.

(* the update-by-key step only rewrites rows in place (same key, same leaseholder and local key) *)
Lemma update_row_kf c ic : kf (update_row c ic) = kf c.
Proof. unfold update_row. destruct (is_calc c && is_calc ic); destruct c; reflexivity. Qed.

Lemma update_existing_ext s chs retr s0 chs0 :
  update_existing s chs retr = (s0, chs0) ->
  ext s s0 /\ (forall c, c ∈ chs0 -> c ∈ chs \/ exists k, s_tab s !! k = Some c) /\ length chs0 = length chs.
Proof.
  unfold update_existing.
  set (keys := chan_key <$> chs). set (ex := filter (fun k => negb (k =? 0)) keys).
  assert (G : forall l s1 chs1,
     (ext s s1 /\ tab_sub (s_tab s1) (s_tab s) /\ s_eng s1 = s_eng s /\ s_ctr s1 = s_ctr s /\ s_free s1 = s_free s) ->
     (forall c, c ∈ chs1 -> c ∈ chs \/ exists k, s_tab s !! k = Some c) -> length chs1 = length chs ->
     forall s2 chs2,
     foldl (fun '(s', chs') k =>
              match s_tab s !! k, index_where (N.eqb k) keys with
              | Some c, Some i =>
                  match chs !! i with
                  | Some ic => if retr then (s', <[i := c]> chs')
                               else (upd_tab s' (<[k := update_row c ic]> (s_tab s')), chs')
                  | None => (s', chs')
                  end
              | _, _ => (s', chs')
              end) (s1, chs1) l = (s2, chs2) ->
     ext s s2 /\ (forall c, c ∈ chs2 -> c ∈ chs \/ exists k, s_tab s !! k = Some c) /\ length chs2 = length chs).
  { induction l as [|k l IH]; intros s1 chs1 Hs Hm Hl s2 chs2; cbn [foldl].
    - intros [= <- <-]. destruct Hs as [Hs _]. auto.
    - destruct (s_tab s !! k) as [c|] eqn:Ek; [|apply IH; assumption].
      destruct (index_where (N.eqb k) keys) as [i|]; [|apply IH; assumption].
      destruct (chs !! i) as [ic|]; [|apply IH; assumption].
      destruct retr.
      + apply IH; [assumption| |rewrite insert_length; assumption].
        intros x Hx. apply elem_of_list_lookup in Hx as (j & Hj).
        destruct (decide (j = i)) as [->|Hne].
        * destruct (decide (i < length chs1)%nat) as [Hlt|Hge].
          -- rewrite list_lookup_insert in Hj by exact Hlt. injection Hj as <-. right. eauto.
          -- rewrite list_insert_ge in Hj by lia. apply Hm. eapply elem_of_list_lookup_2; eassumption.
        * rewrite list_lookup_insert_ne in Hj by congruence. apply Hm. eapply elem_of_list_lookup_2; eassumption.
      + apply IH; [|assumption|assumption].
        destruct Hs as (_ & Hsub & He & Hc & Hf).
        assert (Hsub' : tab_sub (<[k:=update_row c ic]> (s_tab s1)) (s_tab s)).
        { intros x y Hx. destruct (decide (x = k)) as [->|Hne].
          - rewrite lookup_insert in Hx. injection Hx as <-. exists c. split; [exact Ek|].
            symmetry. apply update_row_kf.
          - rewrite lookup_insert_ne in Hx by congruence. apply Hsub, Hx. }
        split; [|repeat split; assumption].
        apply ext_same; cbn [upd_tab s_tab s_eng s_ctr s_free]; try assumption.
        * rewrite He. tauto.
        * intros n x Hx. unfold eng_of in *. cbn [upd_tab s_eng] in Hx. rewrite He in Hx. exact Hx. }
  destruct ex as [|e0 ex'] eqn:Eex; [intros [= <- <-]; split; [apply ext_refl|auto]|].
  destruct (forallb _ (e0 :: ex')); [|intros [= <- <-]; split; [apply ext_refl|auto]].
  apply G; auto. split; [apply ext_refl|]. split; [apply tab_sub_refl|auto].
Qed.

Lemma create_free_ext host s chs o s' er out :
  Inv s -> is_Some (s_eng s !! host) -> Forall (fun c => c_lease c = node_free) chs ->
  create_free true host s chs o = (s', er, out) -> ext s s'.
Proof.
  intros I Hn Hall. unfold create_free.
  destruct (negb (names_required chs)); [intros [= <- <- <-]; apply ext_refl|].
  destruct (update_existing s chs (o_retr o)) as [s0 chs0] eqn:E0.
  destruct (update_existing_ext _ _ _ _ _ E0) as (X0 & Hm0 & _). intros H.
  eapply ext_trans; [exact X0|].
  eapply create_free_body_ext; [eapply Inv_ext; eassumption|apply (ext_nodes _ _ X0), Hn| |exact H].
  intros c Hc Hz. destruct (Hm0 c Hc) as [Hin|(k & Hk)].
  - rewrite Forall_forall in Hall. apply Hall, Hin.
  - destruct (inv_tab _ I k c Hk) as (_ & _ & Hpos & _). lia.
Qed.

(* ---- create as a whole *)
Definition remote_ext (remote : N -> st -> list chan -> copts -> st * res) : Prop :=
  forall p s chs o s' r, Inv s -> remote p s chs o = (s', r) -> ext s s'.

Lemma create_peers_ext remote : remote_ext remote ->
  forall peers s chs o acc s' er out, Inv s ->
  create_peers remote s peers chs o acc = (s', er, out) -> ext s s'.
Proof.
  intros HR. induction peers as [|p peers IH]; intros s chs o acc s' er out I; cbn [create_peers].
  - intros [= <- <- <-]. apply ext_refl.
  - destruct (remote p s _ o) as [s1 [er1 out1]] eqn:E1. apply HR in E1; [|exact I].
    destruct (is_ok er1); [|intros [= <- <- <-]; exact E1].
    intros H. eapply ext_trans; [exact E1|]. eapply IH; [|exact H]. eapply Inv_ext; eassumption.
Qed.

Lemma Forall_filter_lease (p : chan -> bool) (l : list chan) (P : chan -> Prop) :
  (forall c, p c = true -> P c) -> Forall P (filter (fun c => p c) l).
Proof.
  intros H. apply Forall_forall. intros c Hc. apply elem_of_list_filter in Hc as [Hp _].
  apply H. destruct (p c); [reflexivity|contradiction].
Qed.

Lemma create_on_ext validate remote host s chs o s' r :
  remote_ext remote -> Inv s -> is_Some (s_eng s !! host) ->
  create_on true validate remote host s chs o = (s', r) -> ext s s'.
Proof.
  intros HR I Hn. unfold create_on.
  destruct (if validate then _ else _) as [er0 amb0].
  set (s0 := upd_amb s amb0). assert (E0 : ext s s0) by apply ext_upd_amb.
  destruct (negb (is_ok er0)); [intros [= <- <-]; exact E0|].
  destruct (normalise host chs) as [chs1|]; [|intros [= <- <-]; exact E0].
  match goal with |- context [upd_amb s0 ?b] => set (sa := upd_amb s0 b) end.
  assert (Ea : ext s sa) by (eapply ext_trans; [exact E0|apply ext_upd_amb]).
  pose proof (Inv_ext _ _ I Ea) as Ia.
  match goal with |- context [create_peers remote sa ?ps ?cs o []] =>
    destruct (create_peers remote sa ps cs o []) as [[s1 er1] out1] eqn:E1; set (chs2 := cs) in * end.
  apply (create_peers_ext _ HR) in E1; [|exact Ia].
  match goal with |- context [upd_amb s1 ?b] => set (s1' := upd_amb s1 b) end.
  assert (E1' : ext s s1') by (eapply ext_trans; [exact Ea|]; eapply ext_trans; [exact E1|apply ext_upd_amb]).
  pose proof (Inv_ext _ _ I E1') as I1.
  destruct (negb (is_ok er1)); [intros [= <- <-]; exact E1'|].
  destruct (match filter is_free chs2 with [] => _ | _ => _ end) as [[s2 er2] out2] eqn:E2.
  assert (X2 : ext s1' s2).
  { destruct (filter is_free chs2) as [|f fs] eqn:Ef; [injection E2 as <- <- <-; apply ext_refl|].
    destruct (host =? node_boot) eqn:Eb.
    - rewrite <- Ef in E2. eapply create_free_ext; [exact I1| | |exact E2].
      + apply (ext_nodes _ _ E1'), Hn.
      + apply Forall_filter_lease. intros c Hc. unfold is_free in Hc. apply N.eqb_eq in Hc. exact Hc.
    - destruct (remote node_boot s1' (f :: fs) o) as [sx [erx outx]] eqn:Ex. injection E2 as <- <- <-.
      eapply HR; [exact I1|exact Ex]. }
  assert (E2' : ext s s2) by (eapply ext_trans; eassumption).
  destruct (negb (is_ok er2)); [intros [= <- <-]; exact E2'|].
  destruct (create_gateway true host s2 _ o) as [[s3 er3] out3] eqn:E3.
  assert (X3 : ext s2 s3).
  { eapply create_gateway_ext; [eapply Inv_ext; eassumption| | |exact E3].
    - apply (ext_nodes _ _ E2'), Hn.
    - apply Forall_filter_lease. intros c Hc. apply N.eqb_eq in Hc. exact Hc. }
  destruct (negb (is_ok er3)); intros [= <- <-]; (eapply ext_trans; [exact E2'|exact X3]).
Qed.

Lemma remote0_ext : remote_ext remote0.
Proof. intros p s chs o s' r _ [= <- <-]. apply ext_refl. Qed.

Lemma create_remote_ext validate : remote_ext (create_remote true validate).
Proof.
  intros p s chs o s' r I. unfold create_remote.
  destruct (is_node s p) eqn:En; cbn [negb]; [|intros [= <- <-]; apply ext_refl].
  destruct (create_on true validate remote0 p s chs o) as [s1 [er out]] eqn:E1. intros [= <- <-].
  apply ext_rollback. eapply create_on_ext; [apply remote0_ext|exact I|apply is_node_true; exact En|exact E1].
Qed.

Lemma create_ext validate host s chs o s' r :
  Inv s -> is_Some (s_eng s !! host) -> create true validate host s chs o = (s', r) -> ext s s'.
Proof. intros I Hn. apply create_on_ext; [apply create_remote_ext|exact I|exact Hn]. Qed.

(* ---- every operation *)
Definition gateway_of (o : op) : N :=
  match o with
  | Create gw _ _ _ | Rename gw _ _ | Delete gw _ | DeleteByName gw _ | Restart gw | Bump gw _ _
  | CreatePair gw _ _ | FaultedCreate _ gw _ | FaultedRename _ gw _ _ => gw
  end.
(* operations are issued through a node of the cluster *)
Definition op_wf (s : st) (o : op) : Prop := is_Some (s_eng s !! gateway_of o).

Lemma ext_bump_free s v : s_free s <= v -> v <= max_local ->
  ext s (St (s_tab s) (s_eng s) (s_ctr s) v (s_amb s)).
Proof.
  intros Hle Hmax.
  assert (Hctr : forall l, ctr_of (St (s_tab s) (s_eng s) (s_ctr s) v (s_amb s)) l =
                           if l =? node_free then v else ctr_of s l).
  { intros l. unfold ctr_of. simpl. destruct (l =? node_free); reflexivity. }
  constructor.
  - intros l. rewrite Hctr. unfold ctr_of. destruct (l =? node_free); lia.
  - intros H l. rewrite Hctr. destruct (l =? node_free); [assumption|apply H].
  - intros n. simpl. tauto.
  - intros k c H. left. eauto.
  - intros n k H. left. exact H.
Qed.
Lemma ext_bump_leased s n v : default 0 (s_ctr s !! n) <= v -> v <= max_local -> n <> node_free ->
  ext s (St (s_tab s) (s_eng s) (<[n:=v]> (s_ctr s)) (s_free s) (s_amb s)).
Proof.
  intros Hle Hmax Hnf.
  assert (Hctr : forall l, ctr_of (St (s_tab s) (s_eng s) (<[n:=v]> (s_ctr s)) (s_free s) (s_amb s)) l =
                           if decide (l = n) then v else ctr_of s l).
  { intros l. unfold ctr_of. simpl. destruct (l =? node_free) eqn:El.
    - apply N.eqb_eq in El. subst. destruct (decide (node_free = n)); [congruence|reflexivity].
    - destruct (decide (l = n)) as [->|]; [rewrite lookup_insert; reflexivity|].
      rewrite lookup_insert_ne by congruence. reflexivity. }
  assert (Hn : ctr_of s n = default 0 (s_ctr s !! n)).
  { unfold ctr_of. destruct (n =? node_free) eqn:El; [apply N.eqb_eq in El; congruence|reflexivity]. }
  constructor.
  - intros l. rewrite Hctr. destruct (decide (l = n)) as [->|]; [rewrite Hn; assumption|lia].
  - intros H l. rewrite Hctr. destruct (decide (l = n)); [assumption|apply H].
  - intros n0. simpl. tauto.
  - intros k c H. left. eauto.
  - intros n0 k H. left. exact H.
Qed.

(* a state that keeps rows and engines of s and takes the (grown) counters of an extension of s *)
Lemma ext_counters_only s s' b : ext s s' -> ext s (St (s_tab s) (s_eng s) (s_ctr s') (s_free s') b).
Proof.
  intros E.
  assert (Hc : forall l, ctr_of (St (s_tab s) (s_eng s) (s_ctr s') (s_free s') b) l = ctr_of s' l) by reflexivity.
  constructor.
  - intros l. rewrite Hc. apply (ext_ctr _ _ E).
  - intros H l. rewrite Hc. apply (ext_max _ _ E H).
  - intros n. cbn. tauto.
  - intros k c H. left. eauto.
  - intros n k H. left. exact H.
Qed.

Theorem step_ext validate s o s' r :
  Inv s -> op_wf s o -> step true validate s o = (s', r) -> ext s s'.
Proof.
  intros I Hwf. destruct o as [gw chs retr over|gw keys names|gw keys|gw names|n|n free delta|gw a b|n gw chs|n gw keys names];
    unfold op_wf in Hwf; cbn [gateway_of] in Hwf; cbn [step].
  - apply create_ext; assumption.
  - apply rename_keys_ext; assumption.
  - apply delete_keys_ext; assumption.
  - apply delete_by_name_ext; assumption.
  - intros [= <- <-]. apply ext_refl.
  - assert (Hnf : n <> node_free) by (destruct (inv_nodes _ I n Hwf); lia).
    destruct free.
    + destruct (n =? node_boot); [|intros [= <- <-]; apply ext_refl].
      destruct (ctr_add (s_free s) delta) as [v|] eqn:Ec; intros [= <- <-]; [|apply ext_refl].
      apply ctr_add_spec in Ec as [-> Hmax]. apply ext_bump_free; lia.
    + destruct (ctr_add _ delta) as [v|] eqn:Ec; intros [= <- <-]; [|apply ext_refl].
      apply ctr_add_spec in Ec as [-> Hmax]. apply ext_bump_leased; [lia|assumption|assumption].
  - destruct (create true validate gw s a (COpts false false)) as [s1 [e1 o1]] eqn:E1.
    pose proof (create_ext _ _ _ _ _ _ _ I Hwf E1) as X1.
    destruct (negb (is_ok e1)); [intros [= <- <-]; eapply ext_trans; [exact X1|apply ext_upd_amb]|].
    destruct (create true validate gw s1 b (COpts false false)) as [s2 [e2 o2]] eqn:E2.
    assert (X2 : ext s1 s2).
    { eapply create_ext; [eapply Inv_ext; eassumption|apply (ext_nodes _ _ X1), Hwf|exact E2]. }
    destruct (negb (is_ok e2)); intros [= <- <-].
    + eapply ext_trans; [exact X1|]. eapply ext_trans; [exact X2|apply ext_upd_amb].
    + eapply ext_trans; eassumption.
  - destruct (create true validate gw s chs (COpts false false)) as [s1 [e1 o1]] eqn:E1.
    pose proof (create_ext _ _ _ _ _ _ _ I Hwf E1) as X1.
    destruct (is_ok e1 && all_leased_to n gw chs && is_node s n); intros [= <- <-].
    + apply ext_counters_only, X1.
    + eapply ext_trans; [exact X1|apply ext_upd_amb].
  - destruct (rename_keys true validate gw s keys names) as [s1 [e1 o1]] eqn:E1.
    pose proof (rename_keys_ext _ _ _ _ _ _ _ _ Hwf E1) as X1.
    destruct (is_ok e1 && _); intros [= <- <-].
    + apply ext_upd_amb.
    + eapply ext_trans; [exact X1|apply ext_upd_amb].
Qed.

Theorem step_Inv validate s o : Inv s -> op_wf s o -> Inv (step true validate s o).1.
Proof.
  intros I Hwf. destruct (step true validate s o) as [s' r] eqn:E. simpl.
  eapply Inv_ext; [exact I|]. eapply step_ext; eassumption.
Qed.
