(* Cesium/Distance.v — index.Domain.Distance, return site by return site. *)
From Coq Require Import ZArith List Bool.
From Synnax Require Import Cesium.Store Cesium.IndexSearch.
Import ListNotations.
Local Open Scope Z_scope.

(* DistanceApproximation *)
Record dapprox := DA { da_lo : Z; da_hi : Z; da_se : bool; da_ee : bool }.
Definition da_exact (a : dapprox) : bool := da_lo a =? da_hi a.
Definition da_zero : dapprox := DA 0 0 false false.

(* the traversal loop after the first domain.  [legacy = true] is the loop of the pinned
   upstream tree, which only stopped in a domain CONTAINING the end of the range; /repo
   (after the fix) also stops in a domain that ends exactly there, as the first domain
   always did. *)
Fixpoint dist_loop (legacy : bool) (fuel : nat) (P : list dom) (it : diter) (t eff : tr) (cont : bool)
         (s2f : approx) (tot : Z) (se : bool) : res dapprox :=
  match fuel with
  | O => Err EPanic
  | S f =>
      let '(it', ok) := di_next P it in
      if negb ok || (cont && negb (contains_range eff (di_tr it'))) then
        if cont then Err EDisc
        else Ok (DA (a_lo s2f + tot) (a_hi s2f + tot) se false)
      else if contains_stamp (di_tr it') (t_e t) || (negb legacy && (t_e t =? t_e (di_tr it'))) then
        do e <- isearch (t_e t) (d_data (di_cur it'));
        Ok (DA (a_lo s2f + tot + a_lo e) (a_hi s2f + tot + a_hi e) se (a_exact e))
      else dist_loop legacy f P it' t eff cont s2f (tot + dlen (di_cur it')) se
  end.

Definition distance_gen (legacy : bool) (P : list dom) (t : tr) (cont : bool) : res dapprox :=
  let '(it, ok) := di_seek_first P (di_open t) in
  if negb ok then Err EDisc else
  let '(it1, eff, _) := fwd_eff P it in
  let '(it, ok) := di_seek_first P it1 in
  if negb ok then Ok da_zero (* DPanic site: logs and returns the zero value, nil error *) else
  if negb (contains_range eff t) && cont then Err EDisc else
  if tspan t =? 0 then Ok da_zero else
  let r := d_data (di_cur it) in
  do s <- isearch (t_s t) r;
  let se := a_exact s in
  if contains_stamp (di_tr it) (t_e t) || (t_e t =? t_e (di_tr it)) then
    do e <- isearch (t_e t) r;
    Ok (DA (a_lo e - a_hi s) (a_hi e - a_lo s) se (a_exact e))
  else if cont && negb (contains_stamp eff (t_e t)) && negb (t_e eff =? t_e t) then Err EDisc
  else
    let n := zlen r in
    dist_loop legacy (S (length P)) P it t eff cont (AP (n - a_hi s) (n - a_lo s)) 0 se.

(* index.Domain.Distance as /repo carries it *)
Definition distance (P : list dom) (t : tr) (cont : bool) : res dapprox := distance_gen false P t cont.
Definition distance_legacy (P : list dom) (t : tr) (cont : bool) : res dapprox := distance_gen true P t cont.
