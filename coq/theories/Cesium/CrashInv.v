(* Cesium/CrashInv.v — the invariant of the persistence protocol and, for every operation,
   that each of its cut points outside the three windows shows the state before or after it. *)
From Coq Require Import List NArith ZArith Bool Arith Lia.
From Synnax Require Import Cesium.FsLog Cesium.Crash Cesium.CrashProofs Generated.Consts_C02.
Import ListNotations.

Definition widx (d : dirst) : N :=
  match dget d FIndex with Some b => N.of_nat (length b) | None => 0%N end.

Definition mem_inr (s : st) : Prop := forall p, In p (s_ptrs s) -> inrb (s_fs s) p = true.

(* what a writer has tracked (start offset + bytes written) lies inside its file *)
Definition wr_ok (s : st) : Prop :=
  forall id x, assoc (s_ws s) id = Some x ->
    exists data, dget (s_fs s) (FData (w_file x)) = Some data /\
                 (w_off x + w_len x <= N.of_nat (length data))%N.

(* the index file is the canonical encoding of representable pointers that designate
   bytes inside existing files *)
Definition index_ok (d : dirst) : Prop :=
  match d with
  | None => True
  | Some fs => exists D, fget fs FIndex = Some (encode_ptrs D) /\ forallb wf_ptr D = true /\
                         forall p, In p D -> inrb d p = true
  end.

Record Inv (s : st) (w : win) : Prop := mkInv {
  inv_head : s_head s = O;
  inv_out : s_out s = [];
  inv_index : index_ok (s_fs s);
  inv_mem : mem_inr s;
  inv_wf : forallb wf_ptr (s_ptrs s) = true;
  inv_wr : wr_ok s;
  inv_widx : wi_idxlen w = widx (s_fs s)
}.

Lemma index_ok_disk : forall fs D,
  fget fs FIndex = Some (encode_ptrs D) -> forallb wf_ptr D = true -> disk_ptrs (Some fs) = D.
Proof. intros. unfold disk_ptrs. simpl. rewrite H. apply decode_encode. auto. Qed.

Lemma index_ok_inr : forall fs, index_ok (Some fs) -> disk_inr (Some fs).
Proof.
  intros fs [D [H1 [H2 H3]]] p Hp. rewrite (index_ok_disk fs D H1 H2) in Hp. auto.
Qed.

(* ------------------------------------------------------------------ legal_step projections *)
Lemma legal_post : forall s o s' oc, legal_step s o s' oc = true ->
  forallb wf_ptr (s_ptrs s') = true /\
  forallb (fun iw => fexists s' (FData (w_file (snd iw)))) (s_ws s') = true.
Proof.
  intros s o s' oc H. unfold legal_step in H.
  repeat (apply andb_true_iff in H; destruct H as [H ?]).
  split; assumption.
Qed.

Lemma legal_dir : forall s o s' oc, legal_step s o s' oc = true ->
  match o with
  | DCreate _ => s_fs s = None /\ s_ws s = []
  | _ => exists fs ib, s_fs s = Some fs /\ fget fs FIndex = Some ib
  end.
Proof.
  intros s o s' oc H. unfold legal_step in H.
  repeat (apply andb_true_iff in H; destruct H as [H ?]).
  destruct o; destruct (s_fs s) as [fs|] eqn:E; try discriminate;
    try (destruct (fget fs FIndex) as [ib|] eqn:E2; [eauto|discriminate]).
  destruct (s_ws s); [auto|discriminate].
Qed.

(* ------------------------------------------------------------------ growing directories *)
(* d' keeps the index and meta.json of d, and every data file of d is still there, possibly
   with bytes appended *)
Definition grows (d d' : dirst) : Prop :=
  match d, d' with
  | Some fs, Some fs' =>
      fget fs' FIndex = fget fs FIndex /\ fget fs' FMeta = fget fs FMeta /\
      forall k data, fget fs (FData k) = Some data -> exists x, fget fs' (FData k) = Some (data ++ x)
  | None, None => True
  | _, _ => False
  end.

Lemma grows_refl : forall d, grows d d.
Proof.
  destruct d as [fs|]; simpl; auto. repeat split; auto.
  intros k data H. exists []. rewrite app_nil_r. exact H.
Qed.

Lemma grows_trans : forall a b c, grows a b -> grows b c -> grows a c.
Proof.
  intros [fa|] [fb|] [fc|]; simpl; try tauto.
  intros [H1 [H2 H3]] [H4 [H5 H6]]. repeat split; try congruence.
  intros k data H. destruct (H3 k data H) as [x Hx]. destruct (H6 k _ Hx) as [y Hy].
  exists (x ++ y). rewrite app_assoc. exact Hy.
Qed.

Lemma inrb_grows : forall d d' p, grows d d' -> inrb d p = true -> inrb d' p = true.
Proof.
  intros [fs|] [fs'|] p; simpl; try tauto; try discriminate.
  intros [_ [_ H]] Hp. unfold inrb in *. simpl in *.
  destruct (fget fs (FData (p_file p))) as [data|] eqn:E; [|discriminate].
  destruct (H _ _ E) as [x Hx]. rewrite Hx. apply N.leb_le in Hp. apply N.leb_le.
  rewrite app_length, Nat2N.inj_add. lia.
Qed.

Lemma read_d_grows : forall d d' p, grows d d' -> inrb d p = true -> read_d d' p = read_d d p.
Proof.
  intros [fs|] [fs'|] p; simpl; try tauto; try discriminate.
  intros [_ [_ H]] Hp. unfold inrb, read_d in *. simpl in *.
  destruct (fget fs (FData (p_file p))) as [data|] eqn:E; [|discriminate].
  destruct (H _ _ E) as [x Hx]. rewrite Hx. apply N.leb_le in Hp.
  destruct (N.eqb (p_size p) 0); auto.
  assert (H1 : (p_off p + p_size p <=? N.of_nat (length data))%N = true) by (apply N.leb_le; exact Hp).
  assert (H2 : (p_off p + p_size p <=? N.of_nat (length (data ++ x)))%N = true).
  { apply N.leb_le. rewrite app_length, Nat2N.inj_add. lia. }
  rewrite H1, H2. f_equal. apply firstn_skipn_app_inside. lia.
Qed.

Lemma grows_view : forall d d', grows d d' -> disk_inr d -> view_of d' = view_of d.
Proof.
  intros d d' Hg Hin. destruct d as [fs|], d' as [fs'|]; simpl in Hg; try tauto.
  symmetry. destruct Hg as [H1 [H2 H3]]. apply view_ext; auto.
  intros p Hp. symmetry. apply read_d_grows; [simpl; auto|apply Hin; exact Hp].
Qed.

Lemma grows_index_ok : forall d d', grows d d' -> index_ok d -> index_ok d'.
Proof.
  intros d d' Hg Hi. destruct d as [fs|], d' as [fs'|]; simpl in Hg; try tauto.
  destruct Hi as [D [H1 [H2 H3]]]. exists D. destruct Hg as [G1 G2]. repeat split; try congruence.
  intros p Hp. eapply inrb_grows; [|apply H3; exact Hp]. simpl. auto.
Qed.

Lemma grows_widx : forall d d', grows d d' -> widx d' = widx d.
Proof.
  intros [fs|] [fs'|]; simpl; try tauto. intros [H _]. unfold widx. simpl. rewrite H. reflexivity.
Qed.

Lemma grows_disk_inr : forall d d', grows d d' -> index_ok d -> disk_inr d'.
Proof.
  intros d d' Hg Hi. pose proof (grows_index_ok _ _ Hg Hi) as Hi'.
  destruct d' as [fs'|]; [apply index_ok_inr; auto|]. intros p Hp. simpl in Hp. contradiction.
Qed.

(* a call after which (whatever prefix of its payload lands) the directory has only grown *)
Definition gop (d : dirst) (o : fsop) : Prop := forall t, grows d (apply d (torn o t)).

Lemma gop_apply : forall d o, gop d o -> grows d (apply d o).
Proof. intros d o H. rewrite <- (torn_full o (payload_len o)) by lia. apply H. Qed.

Lemma gop_calm : forall d o, gop d o -> disk_inr d -> calm d o.
Proof. intros d o Hg Hin t. apply grows_view; auto. Qed.

(* a list of such calls *)
Fixpoint gops (d : dirst) (es : list fsop) : Prop :=
  match es with
  | [] => True
  | o :: r => gop d o /\ gops (apply d o) r
  end.

Lemma gops_grows : forall es d, gops d es -> grows d (apply_all d es).
Proof.
  induction es as [|o r IH]; intros d H; simpl in *.
  - apply grows_refl.
  - destruct H as [H1 H2]. eapply grows_trans; [apply gop_apply; eauto|apply IH; auto].
Qed.

Lemma gops_all_same : forall es d, gops d es -> index_ok d -> all_same d es.
Proof.
  induction es as [|o r IH]; intros d H Hi.
  - apply all_same_nil.
  - destruct H as [H1 H2].
    assert (Hin : disk_inr d).
    { destruct d as [fs|]; [apply index_ok_inr; auto|intros p Hp; simpl in Hp; contradiction]. }
    apply all_same_cons; [apply gop_calm; auto|].
    apply IH; auto. eapply grows_index_ok; [apply gop_apply; eauto|auto].
Qed.

Lemma gops_app : forall a b d, gops d a -> gops (apply_all d a) b -> gops d (a ++ b).
Proof.
  induction a as [|o r IH]; intros b d Ha Hb; simpl in *; auto.
  destruct Ha as [H1 H2]. split; auto.
Qed.

Lemma gop_side : forall fs o, side_op o -> gop (Some fs) o.
Proof.
  intros fs o Hs t. assert (Hs' := side_op_torn o t Hs).
  assert (Hne : torn o t <> ORenameDir) by (intros E; rewrite E in Hs'; simpl in Hs'; contradiction).
  rewrite apply_some by auto. simpl. repeat split.
  - apply apply_files_untouched. apply side_not_touch; auto.
  - apply apply_files_untouched. apply side_not_touch; auto.
  - intros k data H. exists []. rewrite app_nil_r. rewrite apply_files_untouched; auto.
    apply side_not_touch; auto.
Qed.

Lemma gop_create_data : forall fs k, gop (Some fs) (OCreate (FData k)).
Proof.
  intros fs k t.
  change (apply (Some fs) (torn (OCreate (FData k)) t))
    with (Some (match fget fs (FData k) with Some _ => fs | None => fset fs (FData k) [] end)).
  destruct (fget fs (FData k)) eqn:E; [apply grows_refl|].
  simpl. repeat split; try (apply fget_fset_other; discriminate).
  intros k' data H. exists []. rewrite app_nil_r.
  rewrite fget_fset_other; auto. intros X; inversion X; subst. congruence.
Qed.

Lemma gop_create_index : forall fs ib, fget fs FIndex = Some ib -> gop (Some fs) (OCreate FIndex).
Proof.
  intros fs ib H t.
  change (apply (Some fs) (torn (OCreate FIndex) t))
    with (Some (match fget fs FIndex with Some _ => fs | None => fset fs FIndex [] end)).
  rewrite H. apply grows_refl.
Qed.

Lemma gop_append : forall fs k data bs b,
  fget fs (FData k) = Some data ->
  gop (Some fs) (OWrite b (FData k) (N.of_nat (length data)) bs).
Proof.
  intros fs k data bs b E t. simpl. rewrite E. rewrite Nat2N.id, write_at_end.
  simpl. repeat split; try (apply fget_fset_other; discriminate).
  intros k' d' H. destruct (N.eq_dec k' k) as [->|Hne].
  - rewrite fget_fset_same. rewrite E in H. inversion H; subst. eauto.
  - exists []. rewrite app_nil_r. rewrite fget_fset_other; auto. intros X; inversion X; congruence.
Qed.

(* ------------------------------------------------------------------ association lists *)
Lemma assoc_set_same : forall (A : Type) (l : list (N * A)) k a, assoc (assoc_set l k a) k = Some a.
Proof.
  induction l as [|[x b] r IH]; intros; simpl.
  - rewrite N.eqb_refl. reflexivity.
  - destruct (N.eqb x k) eqn:E; simpl; rewrite E; auto.
Qed.

Lemma assoc_set_other : forall (A : Type) (l : list (N * A)) k j a, k <> j -> assoc (assoc_set l k a) j = assoc l j.
Proof.
  induction l as [|[x b] r IH]; intros k j a Hne; simpl.
  - destruct (N.eqb_spec k j); [contradiction|reflexivity].
  - destruct (N.eqb_spec x k); simpl.
    + subst. destruct (N.eqb_spec k j); [contradiction|reflexivity].
    + destruct (N.eqb x j); auto.
Qed.

Lemma assoc_del_same : forall (A : Type) (l : list (N * A)) k, assoc (assoc_del l k) k = None.
Proof.
  induction l as [|[x b] r IH]; intros; simpl; auto.
  destruct (N.eqb x k) eqn:E; simpl; auto. rewrite E. auto.
Qed.

Lemma assoc_del_other : forall (A : Type) (l : list (N * A)) k j, k <> j -> assoc (assoc_del l k) j = assoc l j.
Proof.
  induction l as [|[x b] r IH]; intros k j Hne; simpl; auto.
  destruct (N.eqb_spec x k); simpl.
  - subst. destruct (N.eqb_spec k j); [contradiction|auto].
  - destruct (N.eqb x j); auto.
Qed.

Lemma assoc_in : forall (A : Type) (l : list (N * A)) k a, assoc l k = Some a -> In (k, a) l.
Proof.
  induction l as [|[x b] r IH]; intros k a H; simpl in *; [discriminate|].
  destruct (N.eqb_spec x k); [inversion H; subst; auto|right; auto].
Qed.

(* ------------------------------------------------------------------ calls that leave the windows alone *)
Definition wquiet (o : fsop) : Prop := forall w, win_step w o = w.

Lemma wquiet_fold : forall es w, Forall wquiet es -> fold_left win_step es w = w.
Proof.
  induction es as [|o r IH]; intros w H; simpl; auto.
  inversion H; subst. rewrite H2. apply IH. auto.
Qed.

Lemma wquiet_data_write : forall b k off bs, wquiet (OWrite b (FData k) off bs).
Proof. intros b k off bs w. reflexivity. Qed.
Lemma wquiet_counter_write : forall b off bs, wquiet (OWrite b FCounter off bs).
Proof. intros b off bs w. reflexivity. Qed.
Lemma wquiet_create : forall f, wquiet (OCreate f).
Proof. intros f w. reflexivity. Qed.

Definition step_good (s : st) (w : win) (o : dop) : Prop :=
  forall s' es oc, step s o = (s', es, oc) -> legal_step s o s' oc = true ->
    s_fs s' = apply_all (s_fs s) es /\ Inv s' (fold_left win_step es w) /\ cuts_ok (s_fs s) w es.

Lemma cuts_ok_nil : forall d w, cuts_ok d w [].
Proof. intros. apply all_same_cuts_ok. apply all_same_nil. Qed.

(* an operation that issued no call and changed nothing the invariant looks at *)
Lemma inv_clear : forall s w, Inv s w -> Inv (clear_out s) w.
Proof. intros s w [H1 H2 H3 H4 H5 H6 H7]. constructor; auto. Qed.

Lemma clear_out_id : forall s, s_out s = [] -> clear_out s = s.
Proof. intros [fs out ps hd c o u ws cap thr] H. simpl in H. subst. reflexivity. Qed.

Lemma wr_ok_grows_one : forall d d' x,
  grows d d' ->
  (exists data, dget d (FData (w_file x)) = Some data /\ (w_off x + w_len x <= N.of_nat (length data))%N) ->
  exists data, dget d' (FData (w_file x)) = Some data /\ (w_off x + w_len x <= N.of_nat (length data))%N.
Proof.
  intros [fs|] [fs'|] x Hg [data [H1 H2]]; simpl in *; try tauto; try discriminate.
  destruct Hg as [_ [_ Hg]]. destruct (Hg _ _ H1) as [y Hy]. exists (data ++ y). split; auto.
  rewrite app_length, Nat2N.inj_add. lia.
Qed.

Lemma mem_inr_grows : forall d d' (ps : list ptr),
  grows d d' -> (forall p, In p ps -> inrb d p = true) -> forall p, In p ps -> inrb d' p = true.
Proof. intros. eapply inrb_grows; eauto. Qed.

Lemma flen_data : forall s k data, dget (s_fs s) (FData k) = Some data -> flen s k = N.of_nat (length data).
Proof. intros s k data H. unfold flen. rewrite H. reflexivity. Qed.

(* ---- DWrite *)
Lemma step_write_good : forall s w wid bs, Inv s w -> step_good s w (DWrite wid bs).
Proof.
  intros s w wid bs HI s' es oc Hstep Hleg.
  destruct HI as [Hhead Hout Hidx Hmem Hwf Hwr Hwidx].
  destruct (legal_post _ _ _ _ Hleg) as [Hwf' Hex'].
  destruct (legal_dir _ _ _ _ Hleg) as [fs [ib [Hfs Hib]]].
  unfold step in Hstep. rewrite (clear_out_id s Hout) in Hstep.
  unfold do_write in Hstep.
  destruct (assoc (s_ws s) wid) as [x|] eqn:Ex.
  2:{ inversion Hstep; subst. rewrite (clear_out_id s Hout), Hout. simpl.
      split; [reflexivity|]. split; [constructor; auto|apply cuts_ok_nil]. }
  destruct (Hwr _ _ Ex) as [data [Hd Hle]].
  destruct bs as [|b0 bs0].
  - (* empty payload: no call *)
    inversion Hstep; subst. simpl. rewrite Hout. simpl. split; [reflexivity|]. split; [|apply cuts_ok_nil].
    constructor; simpl; auto.
    unfold wr_ok. simpl. intros id y Hy. destruct (N.eq_dec wid id) as [->|Hne].
    + rewrite assoc_set_same in Hy. inversion Hy; subst. simpl. exists data. split; auto. lia.
    + rewrite assoc_set_other in Hy by auto. apply (Hwr _ _ Hy).
  - set (bs := b0 :: bs0) in *.
    set (o := OWrite false (FData (w_file x)) (flen s (w_file x)) bs) in *.
    inversion Hstep; subst s' es oc. clear Hstep. simpl. rewrite Hout. simpl.
    assert (Hg : gop (s_fs s) o).
    { unfold o. rewrite (flen_data _ _ _ Hd). rewrite Hfs in *. simpl in Hd. apply gop_append. exact Hd. }
    assert (Hgr : grows (s_fs s) (apply (s_fs s) o)) by (apply gop_apply; exact Hg).
    split; [reflexivity|]. split.
    + constructor; simpl; auto.
      * eapply grows_index_ok; eauto.
      * unfold mem_inr. simpl. intros p Hp. eapply inrb_grows; eauto.
      * unfold wr_ok. simpl. intros id y Hy. destruct (N.eq_dec wid id) as [->|Hne].
        -- rewrite assoc_set_same in Hy. inversion Hy; subst y. simpl.
           unfold o. rewrite (flen_data _ _ _ Hd). rewrite Hfs in *. simpl in Hd. simpl. rewrite Hd.
           rewrite Nat2N.id, write_at_end. rewrite fget_fset_same. eexists. split; [reflexivity|].
           rewrite app_length, Nat2N.inj_add.
           change (N.pos (Pos.of_succ_nat (length bs0))) with (N.of_nat (length bs)). lia.
        -- rewrite assoc_set_other in Hy by auto. eapply wr_ok_grows_one; eauto.
      * rewrite Hwidx. symmetry. apply grows_widx. exact Hgr.
    + apply all_same_cuts_ok. apply (gops_all_same [o]); simpl; auto.
Qed.

(* ---- acquireWriter *)
Definition new_file_ops (k : N) : list fsop := [OWrite true FCounter 0 (le_bytes 4 k); OCreate (FData k)].

Lemma acquire_spec : forall s hint s' k size,
  acquire s hint = (s', k, size) ->
  s_ptrs s' = s_ptrs s /\ s_head s' = s_head s /\ s_ws s' = s_ws s /\
  s_cap s' = s_cap s /\ s_thr s' = s_thr s /\
  exists es, (es = [] \/ es = new_file_ops k) /\
             s_out s' = rev es ++ s_out s /\ s_fs s' = apply_all (s_fs s) es /\
             (size <= flen s' k)%N.
Proof.
  intros s hint s' k size H. unfold acquire in H.
  destruct (pick hint _) as [k1|] eqn:E1 in H.
  - inversion H; subst. simpl. repeat split; auto. exists []. simpl. repeat split; auto. apply N.le_refl.
  - destruct (pick hint _) as [k2|] eqn:E2 in H.
    + inversion H; subst. simpl. repeat split; auto. exists []. simpl. repeat split; auto. apply N.le_refl.
    + inversion H; subst. simpl. repeat split; auto. exists (new_file_ops (s_ctr s + 1)).
      simpl. repeat split; auto. apply N.le_0_l.
Qed.

Lemma gops_new_file : forall fs k, gops (Some fs) (new_file_ops k).
Proof.
  intros fs k. simpl. split; [apply gop_side; simpl; auto|].
  split; [|exact I].
  change (apply (Some fs) (OWrite true FCounter 0 (le_bytes 4 k)))
    with (Some (apply_files fs (OWrite true FCounter 0 (le_bytes 4 k)))).
  apply gop_create_data.
Qed.

Lemma wquiet_new_file : forall k, Forall wquiet (new_file_ops k).
Proof. intros k. repeat constructor. Qed.

Lemma inv_grown : forall s w s2 es,
  Inv s w -> gops (s_fs s) es -> Forall wquiet es ->
  s_fs s2 = apply_all (s_fs s) es -> s_ptrs s2 = s_ptrs s -> s_head s2 = s_head s -> s_out s2 = [] ->
  wr_ok s2 -> Inv s2 (fold_left win_step es w).
Proof.
  intros s w s2 es [Hhead Hout Hidx Hmem Hwf Hwr Hwidx] Hg Hq Hfs Hp Hh Ho Hw2.
  assert (Hgr := gops_grows _ _ Hg).
  rewrite wquiet_fold by auto.
  constructor; auto; try congruence.
  - rewrite Hfs. eapply grows_index_ok; eauto.
  - unfold mem_inr. rewrite Hfs, Hp. intros p Hin. eapply inrb_grows; eauto.
  - rewrite Hwidx, Hfs. symmetry. apply grows_widx. auto.
Qed.

Lemma wr_ok_grown : forall s s2 es,
  wr_ok s -> gops (s_fs s) es -> s_fs s2 = apply_all (s_fs s) es ->
  forall id x, assoc (s_ws s) id = Some x ->
    exists data, dget (s_fs s2) (FData (w_file x)) = Some data /\ (w_off x + w_len x <= N.of_nat (length data))%N.
Proof.
  intros s s2 es Hwr Hg Hfs id x Hx. rewrite Hfs.
  eapply wr_ok_grows_one; [apply gops_grows; eauto|eauto].
Qed.

Lemma legal_wfile : forall s' id x,
  forallb (fun iw => fexists s' (FData (w_file (snd iw)))) (s_ws s') = true ->
  assoc (s_ws s') id = Some x ->
  exists data, dget (s_fs s') (FData (w_file x)) = Some data.
Proof.
  intros s' id x H Hx. apply assoc_in in Hx. rewrite forallb_forall in H.
  specialize (H _ Hx). simpl in H. unfold fexists in H.
  destruct (dget (s_fs s') (FData (w_file x))) eqn:E; [eauto|discriminate].
Qed.

Lemma rev_rev_nil : forall (A : Type) (l : list A), rev (rev l ++ []) = l.
Proof. intros. rewrite app_nil_r. apply rev_involutive. Qed.

(* ---- DOpenW *)
Lemma step_openw_good : forall s w wid start md hint, Inv s w -> step_good s w (DOpenW wid start md hint).
Proof.
  intros s w wid start md hint HI s' es oc Hstep Hleg.
  pose proof HI as [Hhead Hout Hidx Hmem Hwf Hwr Hwidx].
  destruct (legal_post _ _ _ _ Hleg) as [Hwf' Hex'].
  destruct (legal_dir _ _ _ _ Hleg) as [fs [ib [Hfs Hib]]].
  unfold step in Hstep. rewrite (clear_out_id s Hout) in Hstep.
  unfold do_openw in Hstep.
  destruct (snd (usearch (s_ptrs s) (span0 start))).
  { inversion Hstep; subst. rewrite (clear_out_id s Hout), Hout. simpl.
    split; [reflexivity|]. split; [exact HI|apply cuts_ok_nil]. }
  destruct (acquire s hint) as [[s1 k] size] eqn:Ea.
  destruct (acquire_spec _ _ _ _ _ Ea) as [Hp [Hh [Hws [Hcap [Hthr [es0 [Hes [Ho [Hf Hsz]]]]]]]]].
  inversion Hstep; subst s' es oc. clear Hstep.
  simpl. rewrite Ho, Hout, rev_rev_nil.
  assert (Hg : gops (s_fs s) es0).
  { rewrite Hfs. destruct Hes as [->| ->]; [exact I|apply gops_new_file]. }
  assert (Hq : Forall wquiet es0).
  { destruct Hes as [->| ->]; [constructor|apply wquiet_new_file]. }
  split; [exact Hf|]. split.
  - eapply inv_grown; eauto.
    unfold wr_ok. simpl. intros id y Hy.
    destruct (N.eq_dec wid id) as [->|Hne].
    + rewrite assoc_set_same in Hy. inversion Hy; subst y. simpl.
      simpl in Hex'.
      destruct (legal_wfile _ id _ Hex' ltac:(simpl; apply assoc_set_same)) as [data Hd].
      simpl in Hd. exists data. split; auto.
      unfold flen in Hsz. rewrite Hd in Hsz. lia.
    + rewrite assoc_set_other in Hy by auto. rewrite Hws in Hy.
      eapply wr_ok_grown; eauto.
  - apply all_same_cuts_ok. apply gops_all_same; auto.
Qed.

(* ---- indexPersist.prepare + closure *)
Lemma persist_out : forall s sd,
  s_out (persist s sd) = rev (persist_ops (s_ptrs s) sd) ++ s_out s /\
  s_fs (persist s sd) = apply_all (s_fs s) (persist_ops (s_ptrs s) sd) /\
  s_ptrs (persist s sd) = s_ptrs s /\ s_head (persist s sd) = s_head s /\
  s_ws (persist s sd) = s_ws s /\ s_open (persist s sd) = s_open s /\ s_unop (persist s sd) = s_unop s /\
  s_ctr (persist s sd) = s_ctr s /\ s_cap (persist s sd) = s_cap s /\ s_thr (persist s sd) = s_thr s.
Proof. intros. unfold persist, persist_ops. simpl. repeat split; reflexivity. Qed.

Lemma persist_win_idx : forall w P sd, (sd <= length P)%nat ->
  wi_idxlen (fold_left win_step (persist_ops P sd) w) = N.of_nat (length (encode_ptrs P)).
Proof.
  intros w P sd Hsd. unfold persist_ops. simpl.
  rewrite !encode_ptrs_length, skipn_length. change ptr_size with 26%N. lia.
Qed.

Lemma persist_good : forall fs w D P sd,
  fget fs FIndex = Some (encode_ptrs D) ->
  wi_idxlen w = N.of_nat (length (encode_ptrs D)) ->
  (sd <= length P)%nat ->
  firstn sd D = firstn sd P ->
  cuts_ok (Some fs) w (persist_ops P sd) /\
  exists fs', apply_all (Some fs) (persist_ops P sd) = Some fs' /\
              fget fs' FIndex = Some (encode_ptrs P) /\
              (forall f, f <> FIndex -> fget fs' f = fget fs f).
Proof.
  intros fs w D P sd Hi Hw Hsd Hag.
  assert (Hb : firstn (26 * sd) (encode_ptrs D) = encode_ptrs (firstn sd P)).
  { rewrite firstn_encode, Hag. reflexivity. }
  split.
  - eapply persist_pair_cuts; eauto.
  - eapply persist_view; eauto.
Qed.

(* the state after a completed index rewrite *)
Lemma inv_persisted : forall s w s2 fs fs' es,
  Inv s w ->
  s_fs s = Some fs -> s_fs s2 = Some fs' ->
  fget fs' FIndex = Some (encode_ptrs (s_ptrs s2)) ->
  (forall f, f <> FIndex -> fget fs' f = fget fs f) ->
  forallb wf_ptr (s_ptrs s2) = true ->
  (forall p, In p (s_ptrs s2) -> inrb (Some fs) p = true) ->
  s_head s2 = O -> s_out s2 = [] -> s_ws s2 = s_ws s ->
  wi_idxlen (fold_left win_step es w) = N.of_nat (length (encode_ptrs (s_ptrs s2))) ->
  Inv s2 (fold_left win_step es w).
Proof.
  intros s w s2 fs fs' es [Hhead Hout Hidx Hmem Hwf Hwr Hwidx] Hfs Hfs2 Hi Hoth Hwf2 Hin Hh Ho Hws Hwin.
  assert (Hdata : forall p, inrb (Some fs') p = inrb (Some fs) p).
  { intros p. unfold inrb. simpl. rewrite Hoth by discriminate. reflexivity. }
  constructor; auto.
  - rewrite Hfs2. exists (s_ptrs s2). repeat split; auto.
    intros p Hp. rewrite Hdata. auto.
  - unfold mem_inr. rewrite Hfs2. intros p Hp. rewrite Hdata. auto.
  - unfold wr_ok. rewrite Hws, Hfs2. intros id x Hx.
    destruct (Hwr _ _ Hx) as [data [H1 H2]]. rewrite Hfs in H1. simpl in *.
    exists data. rewrite Hoth by discriminate. auto.
  - rewrite Hwin. unfold widx. rewrite Hfs2. simpl. rewrite Hi. reflexivity.
Qed.

Lemma inv_same_disk : forall s w s2,
  Inv s w -> s_fs s2 = s_fs s -> s_ptrs s2 = s_ptrs s -> s_head s2 = s_head s -> s_out s2 = [] ->
  wr_ok s2 -> Inv s2 w.
Proof.
  intros s w s2 [Hhead Hout Hidx Hmem Hwf Hwr Hwidx] Hf Hp Hh Ho Hw2.
  constructor; auto; try congruence.
  unfold mem_inr. rewrite Hf, Hp. exact Hmem.
Qed.

Lemma release_fields : forall s k,
  s_fs (release s k) = s_fs s /\ s_out (release s k) = s_out s /\ s_ptrs (release s k) = s_ptrs s /\
  s_head (release s k) = s_head s /\ s_ws (release s k) = s_ws s /\ s_cap (release s k) = s_cap s /\
  s_thr (release s k) = s_thr s /\ s_ctr (release s k) = s_ctr s.
Proof. intros. unfold release. destruct (assoc (s_open s) k); simpl; repeat split; reflexivity. Qed.

Lemma wr_ok_del : forall s s2 wid,
  wr_ok s -> s_fs s2 = s_fs s -> s_ws s2 = assoc_del (s_ws s) wid -> wr_ok s2.
Proof.
  intros s s2 wid Hwr Hf Hw id x Hx. rewrite Hw in Hx. rewrite Hf.
  destruct (N.eq_dec wid id) as [->|Hne].
  - rewrite assoc_del_same in Hx. discriminate.
  - rewrite assoc_del_other in Hx by auto. eauto.
Qed.

Lemma clear_out_fields : forall s,
  s_fs (clear_out s) = s_fs s /\ s_ptrs (clear_out s) = s_ptrs s /\ s_head (clear_out s) = s_head s /\
  s_ws (clear_out s) = s_ws s /\ s_out (clear_out s) = [].
Proof. intros. repeat split; reflexivity. Qed.

(* persisting the in-memory pointers of a state that satisfies the invariant, from position sd *)
Lemma persist_step : forall s w sd fs,
  Inv s w -> s_fs s = Some fs ->
  (sd <= length (s_ptrs s))%nat ->
  firstn sd (disk_ptrs (s_fs s)) = firstn sd (s_ptrs s) ->
  let es := persist_ops (s_ptrs s) sd in
  cuts_ok (s_fs s) w es /\
  Inv (clear_out (persist s sd)) (fold_left win_step es w) /\
  s_fs (persist s sd) = apply_all (s_fs s) es /\
  disk_ptrs (s_fs (persist s sd)) = s_ptrs s.
Proof.
  intros s w sd fs HI Hfs Hsd Hag es.
  pose proof HI as [Hhead Hout Hidx Hmem Hwf Hwr Hwidx].
  rewrite Hfs in Hidx. destruct Hidx as [D [HiD [HwfD HinD]]].
  rewrite Hfs in Hag. rewrite (index_ok_disk fs D HiD HwfD) in Hag.
  assert (Hw : wi_idxlen w = N.of_nat (length (encode_ptrs D))).
  { rewrite Hwidx. unfold widx. rewrite Hfs. simpl. rewrite HiD. reflexivity. }
  destruct (persist_good fs w D (s_ptrs s) sd HiD Hw Hsd Hag) as [Hc [fs' [Ha [Hi' Hoth]]]].
  destruct (persist_out s sd) as [Ho [Hf [Hp [Hh [Hws _]]]]].
  fold es in Ho, Hf, Hc, Ha.
  rewrite Hfs. split; [exact Hc|]. split; [|split].
  - destruct (clear_out_fields (persist s sd)) as [C1 [C2 [C3 [C4 C5]]]].
    apply (inv_persisted s w (clear_out (persist s sd)) fs fs' es).
    + exact HI.
    + exact Hfs.
    + rewrite C1, Hf, Hfs. exact Ha.
    + rewrite C2, Hp. exact Hi'.
    + exact Hoth.
    + rewrite C2, Hp. exact Hwf.
    + rewrite C2, Hp. intros p Hpin. specialize (Hmem p Hpin). rewrite Hfs in Hmem. exact Hmem.
    + rewrite C3, Hh. exact Hhead.
    + exact C5.
    + rewrite C4. exact Hws.
    + rewrite C2, Hp. apply persist_win_idx. exact Hsd.
  - rewrite <- Hfs. exact Hf.
  - rewrite Hf, Hfs, Ha. apply index_ok_disk; auto.
Qed.

(* ---- DCloseW *)
Lemma step_closew_good : forall s w wid, Inv s w -> step_good s w (DCloseW wid).
Proof.
  intros s w wid HI s' es oc Hstep Hleg.
  pose proof HI as [Hhead Hout Hidx Hmem Hwf Hwr Hwidx].
  destruct (legal_dir _ _ _ _ Hleg) as [fs [ib [Hfs Hib]]].
  unfold step in Hstep. rewrite (clear_out_id s Hout) in Hstep.
  unfold do_closew in Hstep.
  destruct (assoc (s_ws s) wid) as [x|] eqn:Ex.
  2:{ inversion Hstep; subst. rewrite (clear_out_id s Hout), Hout. simpl.
      split; [reflexivity|]. split; [exact HI|apply cuts_ok_nil]. }
  set (s1 := set_ws (release s (w_file x)) (assoc_del (s_ws s) wid)) in *.
  destruct (release_fields s (w_file x)) as [Rf [Ro [Rp [Rh [Rw _]]]]].
  assert (HI1 : Inv s1 w).
  { apply (inv_same_disk s w s1 HI); unfold s1; simpl; try congruence.
    apply (wr_ok_del s _ wid Hwr); simpl; congruence. }
  assert (Hfs1 : s_fs s1 = Some fs) by (unfold s1; simpl; congruence).
  destruct (w_mode x).
  - (* always-persist writer: nothing to flush *)
    inversion Hstep; subst s' es oc. simpl. rewrite Ro, Hout. simpl.
    split; [exact Rf|]. split; [|apply cuts_ok_nil].
    rewrite <- (clear_out_id s1) in HI1 by (simpl; congruence). exact HI1.
  - (* lazily persisted writer: Close persists the index *)
    inversion Hstep; subst s' es oc. clear Hstep.
    assert (Hh1 : s_head s1 = O) by (unfold s1; simpl; congruence).
    rewrite Hh1.
    destruct (persist_step s1 w O fs HI1 Hfs1 ltac:(lia) eq_refl) as [Hc [HI2 [Hf2 _]]].
    destruct (persist_out s1 O) as [Ho2 _].
    rewrite Ho2. simpl s_out. rewrite Ro, Hout, rev_rev_nil.
    replace (s_fs s) with (s_fs s1) by (simpl; congruence).
    split; [exact Hf2|]. split; [exact HI2|exact Hc].
  - inversion Hstep; subst s' es oc. simpl. rewrite Ro, Hout. simpl.
    split; [exact Rf|]. split; [|apply cuts_ok_nil].
    rewrite <- (clear_out_id s1) in HI1 by (simpl; congruence). exact HI1.
Qed.
