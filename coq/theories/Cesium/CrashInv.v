(* Cesium/CrashInv.v — the invariant of the persistence protocol and, for every operation,
   that each of its cut points outside the three windows shows the state before or after it. *)
From Coq Require Import List NArith ZArith Bool Arith Lia.
From Synnax Require Import Cesium.FsLog Cesium.Crash Cesium.CrashProofs Generated.Consts_C02.
Import ListNotations.

Lemma triple_inj : forall (A B C : Type) (a a' : A) (b b' : B) (c c' : C),
  (a, b, c) = (a', b', c') -> a' = a /\ b' = b /\ c' = c.
Proof. intros. inversion H. auto. Qed.

Ltac subst_eq E :=
  match type of E with
  | ?v = _ => is_var v; subst v
  | _ = ?v => is_var v; subst v
  | _ => idtac
  end.

Ltac step_inj H := let E1 := fresh in let E2 := fresh in let E3 := fresh in
  destruct (triple_inj _ _ _ _ _ _ _ _ _ H) as [E1 [E2 E3]];
  subst_eq E1; subst_eq E2; subst_eq E3.

Definition widx (d : dirst) : N :=
  match dget d FIndex with Some b => N.of_nat (length b) | None => 0%N end.

Definition mem_inr (s : st) : Prop := forall p, In p (s_ptrs s) -> inrb (s_fs s) p = true.

(* what a writer has tracked (start offset + bytes written) lies inside its file *)
Definition wr_ok (s : st) : Prop :=
  forall id x, assoc (s_ws s) id = Some x ->
    exists data, dget (s_fs s) (FData (w_file x)) = Some data /\
                 (w_off x + w_len x <= N.of_nat (length data))%N.

(* the index file is the canonical encoding of representable pointers that designate
   bytes inside existing files *)
Definition index_ok (d : dirst) : Prop :=
  match d with
  | None => True
  | Some fs => exists D, fget fs FIndex = Some (encode_ptrs D) /\ forallb wf_ptr D = true /\
                         forall p, In p D -> inrb d p = true
  end.

Record Inv (s : st) (w : win) : Prop := mkInv {
  inv_head : s_head s = O;
  inv_index : index_ok (s_fs s);
  inv_mem : mem_inr s;
  inv_wr : wr_ok s;
  inv_widx : wi_idxlen w = widx (s_fs s);
  inv_none : s_fs s = None -> s_ptrs s = []
}.

Lemma index_ok_disk : forall fs D,
  fget fs FIndex = Some (encode_ptrs D) -> forallb wf_ptr D = true -> disk_ptrs (Some fs) = D.
Proof. intros. unfold disk_ptrs. simpl. rewrite H. apply decode_encode. auto. Qed.

Lemma index_ok_inr : forall fs, index_ok (Some fs) -> disk_inr (Some fs).
Proof.
  intros fs [D [H1 [H2 H3]]] p Hp. rewrite (index_ok_disk fs D H1 H2) in Hp. auto.
Qed.

(* ------------------------------------------------------------------ legal_step projections *)
Lemma legal_post : forall s o s' oc, legal_step s o s' oc = true ->
  forallb wf_ptr (s_ptrs s') = true /\
  forallb (fun iw => fexists s' (FData (w_file (snd iw)))) (s_ws s') = true.
Proof.
  intros s o s' oc H. unfold legal_step in H.
  repeat (apply andb_true_iff in H; destruct H as [H ?]).
  split; assumption.
Qed.

Lemma legal_dir : forall s o s' oc, legal_step s o s' oc = true ->
  match o with
  | DCreate _ => s_fs s = None /\ s_ws s = []
  | _ => exists fs ib, s_fs s = Some fs /\ fget fs FIndex = Some ib
  end.
Proof.
  intros s o s' oc H. unfold legal_step in H.
  repeat (apply andb_true_iff in H; destruct H as [H ?]).
  destruct o; destruct (s_fs s) as [fs|] eqn:E; try discriminate;
    try (destruct (fget fs FIndex) as [ib|] eqn:E2; [eauto|discriminate]).
  destruct (s_ws s); [auto|discriminate].
Qed.

(* ------------------------------------------------------------------ growing directories *)
(* d' keeps the index and meta.json of d, and every data file of d is still there, possibly
   with bytes appended *)
Definition grows (d d' : dirst) : Prop :=
  match d, d' with
  | Some fs, Some fs' =>
      fget fs' FIndex = fget fs FIndex /\ fget fs' FMeta = fget fs FMeta /\
      forall k data, fget fs (FData k) = Some data -> exists x, fget fs' (FData k) = Some (data ++ x)
  | None, None => True
  | _, _ => False
  end.

Lemma grows_refl : forall d, grows d d.
Proof.
  destruct d as [fs|]; simpl; auto. repeat split; auto.
  intros k data H. exists []. rewrite app_nil_r. exact H.
Qed.

Lemma grows_trans : forall a b c, grows a b -> grows b c -> grows a c.
Proof.
  intros [fa|] [fb|] [fc|]; simpl; try tauto.
  intros [H1 [H2 H3]] [H4 [H5 H6]]. repeat split; try congruence.
  intros k data H. destruct (H3 k data H) as [x Hx]. destruct (H6 k _ Hx) as [y Hy].
  exists (x ++ y). rewrite app_assoc. exact Hy.
Qed.

Lemma inrb_grows : forall d d' p, grows d d' -> inrb d p = true -> inrb d' p = true.
Proof.
  intros [fs|] [fs'|] p; simpl; try tauto; try discriminate.
  intros [_ [_ H]] Hp. unfold inrb in *. simpl in *.
  destruct (fget fs (FData (p_file p))) as [data|] eqn:E; [|discriminate].
  destruct (H _ _ E) as [x Hx]. rewrite Hx. apply N.leb_le in Hp. apply N.leb_le.
  rewrite app_length, Nat2N.inj_add. lia.
Qed.

Lemma read_d_grows : forall d d' p, grows d d' -> inrb d p = true -> read_d d' p = read_d d p.
Proof.
  intros [fs|] [fs'|] p; simpl; try tauto; try discriminate.
  intros [_ [_ H]] Hp. unfold inrb, read_d in *. simpl in *.
  destruct (fget fs (FData (p_file p))) as [data|] eqn:E; [|discriminate].
  destruct (H _ _ E) as [x Hx]. rewrite Hx. apply N.leb_le in Hp.
  destruct (N.eqb (p_size p) 0); auto.
  assert (H1 : (p_off p + p_size p <=? N.of_nat (length data))%N = true) by (apply N.leb_le; exact Hp).
  assert (H2 : (p_off p + p_size p <=? N.of_nat (length (data ++ x)))%N = true).
  { apply N.leb_le. rewrite app_length, Nat2N.inj_add. lia. }
  rewrite H1, H2. f_equal. apply firstn_skipn_app_inside. lia.
Qed.

Lemma grows_view : forall d d', grows d d' -> disk_inr d -> view_of d' = view_of d.
Proof.
  intros d d' Hg Hin. destruct d as [fs|], d' as [fs'|]; simpl in Hg; try tauto.
  symmetry. destruct Hg as [H1 [H2 H3]]. apply view_ext; auto.
  intros p Hp. symmetry. apply read_d_grows; [simpl; auto|apply Hin; exact Hp].
Qed.

Lemma grows_index_ok : forall d d', grows d d' -> index_ok d -> index_ok d'.
Proof.
  intros d d' Hg Hi. destruct d as [fs|], d' as [fs'|]; simpl in Hg; try tauto.
  destruct Hi as [D [H1 [H2 H3]]]. exists D. destruct Hg as [G1 G2]. repeat split; try congruence.
  intros p Hp. eapply inrb_grows; [|apply H3; exact Hp]. simpl. auto.
Qed.

Lemma grows_widx : forall d d', grows d d' -> widx d' = widx d.
Proof.
  intros [fs|] [fs'|]; simpl; try tauto. intros [H _]. unfold widx. simpl. rewrite H. reflexivity.
Qed.

Lemma grows_disk_inr : forall d d', grows d d' -> index_ok d -> disk_inr d'.
Proof.
  intros d d' Hg Hi. pose proof (grows_index_ok _ _ Hg Hi) as Hi'.
  destruct d' as [fs'|]; [apply index_ok_inr; auto|]. intros p Hp. simpl in Hp. contradiction.
Qed.

(* a call after which (whatever prefix of its payload lands) the directory has only grown *)
Definition gop (d : dirst) (o : fsop) : Prop := forall t, grows d (apply d (torn o t)).

Lemma gop_apply : forall d o, gop d o -> grows d (apply d o).
Proof. intros d o H. rewrite <- (torn_full o (payload_len o)) by lia. apply H. Qed.

Lemma gop_calm : forall d o, gop d o -> disk_inr d -> calm d o.
Proof. intros d o Hg Hin t. apply grows_view; auto. Qed.

(* a list of such calls *)
Fixpoint gops (d : dirst) (es : list fsop) : Prop :=
  match es with
  | [] => True
  | o :: r => gop d o /\ gops (apply d o) r
  end.

Lemma gops_grows : forall es d, gops d es -> grows d (apply_all d es).
Proof.
  induction es as [|o r IH]; intros d H; simpl in *.
  - apply grows_refl.
  - destruct H as [H1 H2]. eapply grows_trans; [apply gop_apply; eauto|apply IH; auto].
Qed.

Lemma gops_all_same : forall es d, gops d es -> index_ok d -> all_same d es.
Proof.
  induction es as [|o r IH]; intros d H Hi.
  - apply all_same_nil.
  - destruct H as [H1 H2].
    assert (Hin : disk_inr d).
    { destruct d as [fs|]; [apply index_ok_inr; auto|intros p Hp; simpl in Hp; contradiction]. }
    apply all_same_cons; [apply gop_calm; auto|].
    apply IH; auto. eapply grows_index_ok; [apply gop_apply; eauto|auto].
Qed.

Lemma gops_app : forall a b d, gops d a -> gops (apply_all d a) b -> gops d (a ++ b).
Proof.
  induction a as [|o r IH]; intros b d Ha Hb; simpl in *; auto.
  destruct Ha as [H1 H2]. split; auto.
Qed.

Lemma gop_side : forall fs o, side_op o -> gop (Some fs) o.
Proof.
  intros fs o Hs t. assert (Hs' := side_op_torn o t Hs).
  assert (Hne : torn o t <> ORenameDir) by (intros E; rewrite E in Hs'; simpl in Hs'; contradiction).
  rewrite apply_some by auto. simpl. repeat split.
  - apply apply_files_untouched. apply side_not_touch; auto.
  - apply apply_files_untouched. apply side_not_touch; auto.
  - intros k data H. exists []. rewrite app_nil_r. rewrite apply_files_untouched; auto.
    apply side_not_touch; auto.
Qed.

Lemma gop_create_data : forall fs k, gop (Some fs) (OCreate (FData k)).
Proof.
  intros fs k t.
  change (apply (Some fs) (torn (OCreate (FData k)) t))
    with (Some (match fget fs (FData k) with Some _ => fs | None => fset fs (FData k) [] end)).
  destruct (fget fs (FData k)) eqn:E; [apply grows_refl|].
  simpl. repeat split; try (apply fget_fset_other; discriminate).
  intros k' data H. exists []. rewrite app_nil_r.
  rewrite fget_fset_other; auto. intros X; inversion X; subst. congruence.
Qed.

Lemma gop_create_index : forall fs ib, fget fs FIndex = Some ib -> gop (Some fs) (OCreate FIndex).
Proof.
  intros fs ib H t.
  change (apply (Some fs) (torn (OCreate FIndex) t))
    with (Some (match fget fs FIndex with Some _ => fs | None => fset fs FIndex [] end)).
  rewrite H. apply grows_refl.
Qed.

Lemma gop_append : forall fs k data bs b,
  fget fs (FData k) = Some data ->
  gop (Some fs) (OWrite b (FData k) (N.of_nat (length data)) bs).
Proof.
  intros fs k data bs b E t. simpl. rewrite E. rewrite Nat2N.id, write_at_end.
  simpl. repeat split; try (apply fget_fset_other; discriminate).
  intros k' d' H. destruct (N.eq_dec k' k) as [->|Hne].
  - rewrite fget_fset_same. rewrite E in H. inversion H; subst. eauto.
  - exists []. rewrite app_nil_r. rewrite fget_fset_other; auto. intros X; inversion X; congruence.
Qed.

(* ------------------------------------------------------------------ association lists *)
Lemma assoc_set_same : forall (A : Type) (l : list (N * A)) k a, assoc (assoc_set l k a) k = Some a.
Proof.
  induction l as [|[x b] r IH]; intros; simpl.
  - rewrite N.eqb_refl. reflexivity.
  - destruct (N.eqb x k) eqn:E; simpl; rewrite E; auto.
Qed.

Lemma assoc_set_other : forall (A : Type) (l : list (N * A)) k j a, k <> j -> assoc (assoc_set l k a) j = assoc l j.
Proof.
  induction l as [|[x b] r IH]; intros k j a Hne; simpl.
  - destruct (N.eqb_spec k j); [contradiction|reflexivity].
  - destruct (N.eqb_spec x k); simpl.
    + subst. destruct (N.eqb_spec k j); [contradiction|reflexivity].
    + destruct (N.eqb x j); auto.
Qed.

Lemma assoc_del_same : forall (A : Type) (l : list (N * A)) k, assoc (assoc_del l k) k = None.
Proof.
  induction l as [|[x b] r IH]; intros; simpl; auto.
  destruct (N.eqb x k) eqn:E; simpl; auto. rewrite E. auto.
Qed.

Lemma assoc_del_other : forall (A : Type) (l : list (N * A)) k j, k <> j -> assoc (assoc_del l k) j = assoc l j.
Proof.
  induction l as [|[x b] r IH]; intros k j Hne; simpl; auto.
  destruct (N.eqb_spec x k); simpl.
  - subst. destruct (N.eqb_spec k j); [contradiction|auto].
  - destruct (N.eqb x j); auto.
Qed.

Lemma assoc_in : forall (A : Type) (l : list (N * A)) k a, assoc l k = Some a -> In (k, a) l.
Proof.
  induction l as [|[x b] r IH]; intros k a H; simpl in *; [discriminate|].
  destruct (N.eqb_spec x k); [inversion H; subst; auto|right; auto].
Qed.

(* ------------------------------------------------------------------ calls that leave the windows alone *)
Definition wquiet (o : fsop) : Prop := forall w, win_step w o = w.

Lemma wquiet_fold : forall es w, Forall wquiet es -> fold_left win_step es w = w.
Proof.
  induction es as [|o r IH]; intros w H; simpl; auto.
  inversion H; subst. rewrite H2. apply IH. auto.
Qed.

Lemma wquiet_data_write : forall b k off bs, wquiet (OWrite b (FData k) off bs).
Proof. intros b k off bs w. reflexivity. Qed.
Lemma wquiet_counter_write : forall b off bs, wquiet (OWrite b FCounter off bs).
Proof. intros b off bs w. reflexivity. Qed.
Lemma wquiet_create : forall f, f <> FMeta -> wquiet (OCreate f).
Proof. intros f H w. destruct f; try reflexivity. contradiction. Qed.

(* did the operation rewrite the index ? *)
Definition idx_written (es : list fsop) : bool :=
  existsb (fun o => match o with OWrite _ FIndex _ _ => true | _ => false end) es.

Lemma idx_written_app : forall a b, idx_written (a ++ b) = idx_written a || idx_written b.
Proof. intros. unfold idx_written. apply existsb_app. Qed.

Lemma grows_disk_ptrs : forall d d', grows d d' -> disk_ptrs d' = disk_ptrs d.
Proof.
  intros [fs|] [fs'|]; simpl; try tauto. intros [H _]. unfold disk_ptrs. simpl. rewrite H. reflexivity.
Qed.

(* what one do_* function must establish: s0 is the state the operation starts from, s1 the
   state it returns *)
Definition do_good (s0 : st) (w : win) (o : dop) (s1 : st) (oc : outcome) : Prop :=
  legal_step s0 o (clear_out s1) oc = true ->
  exists es, s_out s1 = rev es ++ s_out s0 /\ s_fs s1 = apply_all (s_fs s0) es /\
             Inv s1 (fold_left win_step es w) /\ cuts_ok (s_fs s0) w es /\
             (idx_written es = true -> disk_ptrs (s_fs s1) = s_ptrs s1).

Definition step_good (s : st) (w : win) (o : dop) : Prop :=
  forall s' es oc, step s o = (s', es, oc) -> legal_step s o s' oc = true ->
    s_fs s' = apply_all (s_fs s) es /\ Inv s' (fold_left win_step es w) /\ cuts_ok (s_fs s) w es /\
    (idx_written es = true -> disk_ptrs (s_fs s') = s_ptrs s').

Lemma cuts_ok_nil : forall d w, cuts_ok d w [].
Proof. intros. apply all_same_cuts_ok. apply all_same_nil. Qed.

Lemma inv_clear : forall s w, Inv s w -> Inv (clear_out s) w.
Proof. intros s w [H1 H3 H4 H6 H7 H8]. constructor; auto. Qed.

Lemma legal_step_clear : forall s o s' oc, legal_step (clear_out s) o s' oc = legal_step s o s' oc.
Proof. intros. destruct o; reflexivity. Qed.

Lemma rev_rev_nil : forall (A : Type) (l : list A), rev (rev l ++ []) = l.
Proof. intros. rewrite app_nil_r. apply rev_involutive. Qed.

(* nothing issued, nothing changed *)
Lemma do_good_noop : forall s0 w o oc, Inv s0 w -> do_good s0 w o s0 oc.
Proof.
  intros s0 w o oc HI _. exists []. simpl.
  split; [reflexivity|]. split; [reflexivity|]. split; [exact HI|].
  split; [apply cuts_ok_nil|discriminate].
Qed.

Lemma wr_ok_grows_one : forall d d' x,
  grows d d' ->
  (exists data, dget d (FData (w_file x)) = Some data /\ (w_off x + w_len x <= N.of_nat (length data))%N) ->
  exists data, dget d' (FData (w_file x)) = Some data /\ (w_off x + w_len x <= N.of_nat (length data))%N.
Proof.
  intros [fs|] [fs'|] x Hg [data [H1 H2]]; simpl in *; try tauto; try discriminate.
  destruct Hg as [_ [_ Hg]]. destruct (Hg _ _ H1) as [y Hy]. exists (data ++ y). split; auto.
  rewrite app_length, Nat2N.inj_add. lia.
Qed.

Lemma flen_data : forall s k data, dget (s_fs s) (FData k) = Some data -> flen s k = N.of_nat (length data).
Proof. intros s k data H. unfold flen. rewrite H. reflexivity. Qed.

(* the state after issuing calls that only grow the directory *)
Lemma inv_grown : forall s w s2 es,
  Inv s w -> gops (s_fs s) es -> Forall wquiet es ->
  s_fs s2 = apply_all (s_fs s) es -> s_ptrs s2 = s_ptrs s -> s_head s2 = s_head s ->
  wr_ok s2 -> Inv s2 (fold_left win_step es w).
Proof.
  intros s w s2 es [Hhead Hidx Hmem Hwr Hwidx Hnone] Hg Hq Hfs Hp Hh Hw2.
  assert (Hgr := gops_grows _ _ Hg).
  rewrite wquiet_fold by auto.
  constructor; auto; try congruence.
  - rewrite Hfs. eapply grows_index_ok; eauto.
  - unfold mem_inr. rewrite Hfs, Hp. intros p Hin. eapply inrb_grows; eauto.
  - rewrite Hwidx, Hfs. symmetry. apply grows_widx. auto.
  - intros Hn. rewrite Hp. apply Hnone. rewrite Hfs in Hn. rewrite Hn in Hgr.
    destruct (s_fs s); [simpl in Hgr; contradiction|reflexivity].
Qed.

Lemma wr_ok_grown : forall s s2 es,
  wr_ok s -> gops (s_fs s) es -> s_fs s2 = apply_all (s_fs s) es ->
  forall id x, assoc (s_ws s) id = Some x ->
    exists data, dget (s_fs s2) (FData (w_file x)) = Some data /\ (w_off x + w_len x <= N.of_nat (length data))%N.
Proof.
  intros s s2 es Hwr Hg Hfs id x Hx. rewrite Hfs.
  eapply wr_ok_grows_one; [apply gops_grows; eauto|eauto].
Qed.

Lemma legal_wfile : forall s' id x,
  forallb (fun iw => fexists s' (FData (w_file (snd iw)))) (s_ws s') = true ->
  assoc (s_ws s') id = Some x ->
  exists data, dget (s_fs s') (FData (w_file x)) = Some data.
Proof.
  intros s' id x H Hx. apply assoc_in in Hx. rewrite forallb_forall in H.
  specialize (H _ Hx). simpl in H. unfold fexists in H.
  destruct (dget (s_fs s') (FData (w_file x))) eqn:E; [eauto|discriminate].
Qed.

Lemma inv_same_disk : forall s w s2,
  Inv s w -> s_fs s2 = s_fs s -> s_ptrs s2 = s_ptrs s -> s_head s2 = s_head s ->
  wr_ok s2 -> Inv s2 w.
Proof.
  intros s w s2 [Hhead Hidx Hmem Hwr Hwidx Hnone] Hf Hp Hh Hw2.
  constructor; auto; try congruence.
  - unfold mem_inr. rewrite Hf, Hp. exact Hmem.
  - rewrite Hf, Hp. exact Hnone.
Qed.

(* ---- DWrite *)
Lemma do_write_good : forall s0 w wid bs s1 oc,
  Inv s0 w -> do_write s0 wid bs = (s1, oc) -> do_good s0 w (DWrite wid bs) s1 oc.
Proof.
  intros s0 w wid bs s1 oc HI Hdo Hleg.
  pose proof HI as [Hhead Hidx Hmem Hwr Hwidx Hnone].
  destruct (legal_dir _ _ _ _ Hleg) as [fs [ib [Hfs Hib]]].
  unfold do_write in Hdo.
  destruct (assoc (s_ws s0) wid) as [x|] eqn:Ex.
  2:{ inversion Hdo; subst. exact (do_good_noop _ _ _ _ HI Hleg). }
  destruct (Hwr _ _ Ex) as [data [Hd Hle]].
  destruct bs as [|b0 bs0].
  - inversion Hdo; subst. exists []. simpl. split; [reflexivity|]. split; [reflexivity|]. split; [|split; [apply cuts_ok_nil|discriminate]].
    apply (inv_same_disk s0 w); simpl; auto.
    unfold wr_ok. simpl. intros id y Hy. destruct (N.eq_dec wid id) as [->|Hne].
    + rewrite assoc_set_same in Hy. inversion Hy; subst. simpl. exists data. split; auto. lia.
    + rewrite assoc_set_other in Hy by auto. apply (Hwr _ _ Hy).
  - remember (b0 :: bs0) as bs eqn:Hbs.
    assert (Hdo' : s1 = set_ws (emit s0 (OWrite false (FData (w_file x)) (flen s0 (w_file x)) bs))
                     (assoc_set (s_ws s0) wid
                        (mkWr (w_start x) (w_file x) (w_off x) (w_len x + N.of_nat (length bs)) (w_prev x)
                              (w_fsize x + N.of_nat (length bs)) (w_mode x))) /\ oc = ROk).
    { subst bs. simpl in Hdo. inversion Hdo. split; reflexivity. }
    destruct Hdo' as [-> ->]. clear Hdo.
    set (o := OWrite false (FData (w_file x)) (flen s0 (w_file x)) bs).
    assert (Hg : gop (s_fs s0) o).
    { unfold o. rewrite (flen_data _ _ _ Hd). rewrite Hfs in *. simpl in Hd. apply gop_append. exact Hd. }
    exists [o]. simpl. split; [reflexivity|]. split; [reflexivity|]. split.
    + apply (inv_grown s0 w _ [o]); [exact HI|simpl; auto|repeat constructor; apply wquiet_data_write
                                     |reflexivity|reflexivity|reflexivity|].
      * unfold wr_ok. simpl. intros id y Hy. destruct (N.eq_dec wid id) as [->|Hne].
        -- rewrite assoc_set_same in Hy. inversion Hy; subst y. simpl.
           unfold o. rewrite (flen_data _ _ _ Hd). rewrite Hfs in *. simpl in Hd. simpl. rewrite Hd.
           rewrite Nat2N.id, write_at_end. rewrite fget_fset_same. eexists. split; [reflexivity|].
           rewrite app_length, Nat2N.inj_add. lia.
        -- rewrite assoc_set_other in Hy by auto.
           eapply wr_ok_grows_one; [apply gop_apply; exact Hg|eauto].
    + split; [|unfold o; discriminate].
      apply all_same_cuts_ok. apply (gops_all_same [o]); simpl; auto.
Qed.

(* ---- DWriteFail: a short write is an append of the bytes that were stored *)
Lemma do_writefail_good : forall s0 w wid bs j s1 oc,
  Inv s0 w -> do_writefail s0 wid bs j = (s1, oc) -> do_good s0 w (DWriteFail wid bs j) s1 oc.
Proof.
  intros s0 w wid bs j s1 oc HI Hdo Hleg.
  unfold do_writefail in Hdo.
  destruct (do_write s0 wid (firstn j bs)) as [s' r] eqn:Ew.
  assert (Es : s' = s1) by (inversion Hdo; reflexivity). subst s'.
  apply (do_write_good s0 w wid (firstn j bs) s1 r HI Ew).
  (* the side conditions do not depend on which of the two operations it is *)
  exact Hleg.
Qed.

(* ---- acquireWriter *)
Definition new_file_ops (k : N) : list fsop := [OWrite true FCounter 0 (le_bytes 4 k); OCreate (FData k)].

Lemma acquire_spec : forall s hint s' k size,
  acquire s hint = (s', k, size) ->
  s_ptrs s' = s_ptrs s /\ s_head s' = s_head s /\ s_ws s' = s_ws s /\
  s_cap s' = s_cap s /\ s_thr s' = s_thr s /\
  exists es, (es = [] \/ es = new_file_ops k) /\
             s_out s' = rev es ++ s_out s /\ s_fs s' = apply_all (s_fs s) es /\
             (size <= flen s' k)%N.
Proof.
  intros s hint s' k size H. unfold acquire in H.
  destruct (pick hint _) as [k1|] eqn:E1 in H.
  - inversion H; subst. simpl. repeat split; auto. exists []. simpl. repeat split; auto. apply N.le_refl.
  - destruct (pick hint _) as [k2|] eqn:E2 in H.
    + inversion H; subst. simpl. repeat split; auto. exists []. simpl. repeat split; auto. apply N.le_refl.
    + inversion H; subst. simpl. repeat split; auto. exists (new_file_ops (s_ctr s + 1)).
      simpl. repeat split; auto. apply N.le_0_l.
Qed.

Lemma gops_new_file : forall fs k, gops (Some fs) (new_file_ops k).
Proof.
  intros fs k. simpl. split; [apply gop_side; simpl; auto|].
  split; [|exact I].
  change (apply (Some fs) (OWrite true FCounter 0 (le_bytes 4 k)))
    with (Some (apply_files fs (OWrite true FCounter 0 (le_bytes 4 k)))).
  apply gop_create_data.
Qed.

Lemma wquiet_new_file : forall k, Forall wquiet (new_file_ops k).
Proof. intros k. repeat constructor. Qed.

Lemma acquire_gops : forall fs es k, (es = [] \/ es = new_file_ops k) -> gops (Some fs) es /\ Forall wquiet es.
Proof.
  intros fs es k [->| ->].
  - split; [exact I|constructor].
  - split; [apply gops_new_file|apply wquiet_new_file].
Qed.

(* ---- DOpenW *)
Lemma do_openw_good : forall s0 w wid start md hint s1 oc,
  Inv s0 w -> do_openw s0 wid start md hint = (s1, oc) -> do_good s0 w (DOpenW wid start md hint) s1 oc.
Proof.
  intros s0 w wid start md hint s1 oc HI Hdo Hleg.
  pose proof HI as [Hhead Hidx Hmem Hwr Hwidx Hnone].
  destruct (legal_post _ _ _ _ Hleg) as [Hwf' Hex'].
  destruct (legal_dir _ _ _ _ Hleg) as [fs [ib [Hfs Hib]]].
  unfold do_openw in Hdo.
  destruct (snd (usearch (s_ptrs s0) (span0 start))).
  { inversion Hdo; subst. exact (do_good_noop _ _ _ _ HI Hleg). }
  destruct (acquire s0 hint) as [[sa k] size] eqn:Ea.
  destruct (acquire_spec _ _ _ _ _ Ea) as [Hp [Hh [Hws [Hcap [Hthr [es0 [Hes [Ho [Hf Hsz]]]]]]]]].
  inversion Hdo; subst s1 oc. clear Hdo.
  destruct (acquire_gops fs es0 k Hes) as [Hg Hq]. rewrite <- Hfs in Hg.
  exists es0. simpl. split; [exact Ho|]. split; [exact Hf|]. split.
  - apply (inv_grown s0 w _ es0); [exact HI|exact Hg|exact Hq|exact Hf|exact Hp|exact Hh|].
    unfold wr_ok. simpl. intros id y Hy.
    destruct (N.eq_dec wid id) as [->|Hne].
    + rewrite assoc_set_same in Hy. inversion Hy; subst y. simpl.
      simpl in Hex'.
      destruct (legal_wfile _ id _ Hex' ltac:(simpl; apply assoc_set_same)) as [data Hd].
      simpl in Hd. exists data. split; auto.
      unfold flen in Hsz. rewrite Hd in Hsz. lia.
    + rewrite assoc_set_other in Hy by auto. rewrite Hws in Hy.
      eapply wr_ok_grown; eauto.
  - split; [apply all_same_cuts_ok; apply gops_all_same; auto|].
    destruct Hes as [->| ->]; discriminate.
Qed.

(* ---- indexPersist.prepare + closure *)
Lemma persist_out : forall s sd,
  s_out (persist s sd) = rev (persist_ops (s_ptrs s) sd) ++ s_out s /\
  s_fs (persist s sd) = apply_all (s_fs s) (persist_ops (s_ptrs s) sd) /\
  s_ptrs (persist s sd) = s_ptrs s /\ s_head (persist s sd) = s_head s /\
  s_ws (persist s sd) = s_ws s /\ s_open (persist s sd) = s_open s /\ s_unop (persist s sd) = s_unop s /\
  s_ctr (persist s sd) = s_ctr s /\ s_cap (persist s sd) = s_cap s /\ s_thr (persist s sd) = s_thr s.
Proof. intros. unfold persist, persist_ops. simpl. repeat split; reflexivity. Qed.

Lemma persist_win_idx : forall w P sd, (sd <= length P)%nat ->
  wi_idxlen (fold_left win_step (persist_ops P sd) w) = N.of_nat (length (encode_ptrs P)).
Proof.
  intros w P sd Hsd. unfold persist_ops. simpl.
  rewrite !encode_ptrs_length, skipn_length. change ptr_size with 26%N. lia.
Qed.

Lemma persist_good : forall fs w D P sd,
  fget fs FIndex = Some (encode_ptrs D) ->
  wi_idxlen w = N.of_nat (length (encode_ptrs D)) ->
  (sd <= length P)%nat ->
  firstn sd D = firstn sd P ->
  cuts_ok (Some fs) w (persist_ops P sd) /\
  exists fs', apply_all (Some fs) (persist_ops P sd) = Some fs' /\
              fget fs' FIndex = Some (encode_ptrs P) /\
              (forall f, f <> FIndex -> fget fs' f = fget fs f).
Proof.
  intros fs w D P sd Hi Hw Hsd Hag.
  assert (Hb : firstn (26 * sd) (encode_ptrs D) = encode_ptrs (firstn sd P)).
  { rewrite firstn_encode, Hag. reflexivity. }
  split.
  - eapply persist_pair_cuts; eauto.
  - eapply persist_view; eauto.
Qed.

(* the state after a completed index rewrite *)
Lemma inv_persisted : forall s w s2 fs fs' w',
  Inv s w ->
  s_fs s = Some fs -> s_fs s2 = Some fs' ->
  fget fs' FIndex = Some (encode_ptrs (s_ptrs s2)) ->
  (forall f, f <> FIndex -> fget fs' f = fget fs f) ->
  forallb wf_ptr (s_ptrs s2) = true ->
  (forall p, In p (s_ptrs s2) -> inrb (Some fs) p = true) ->
  s_head s2 = O -> s_ws s2 = s_ws s ->
  wi_idxlen w' = N.of_nat (length (encode_ptrs (s_ptrs s2))) ->
  Inv s2 w'.
Proof.
  intros s w s2 fs fs' w' [Hhead Hidx Hmem Hwr Hwidx Hnone] Hfs Hfs2 Hi Hoth Hwf2 Hin Hh Hws Hwin.
  assert (Hdata : forall p, inrb (Some fs') p = inrb (Some fs) p).
  { intros p. unfold inrb. simpl. rewrite Hoth by discriminate. reflexivity. }
  constructor; auto.
  - rewrite Hfs2. exists (s_ptrs s2). repeat split; auto.
    intros p Hp. rewrite Hdata. auto.
  - unfold mem_inr. rewrite Hfs2. intros p Hp. rewrite Hdata. auto.
  - unfold wr_ok. rewrite Hws, Hfs2. intros id x Hx.
    destruct (Hwr _ _ Hx) as [data [H1 H2]]. rewrite Hfs in H1. simpl in *.
    exists data. rewrite Hoth by discriminate. auto.
  - rewrite Hwin. unfold widx. rewrite Hfs2. simpl. rewrite Hi. reflexivity.
  - rewrite Hfs2. discriminate.
Qed.

(* persisting the in-memory pointers of a state that satisfies the invariant, from position sd *)
Lemma persist_step : forall s w sd fs,
  Inv s w -> s_fs s = Some fs ->
  forallb wf_ptr (s_ptrs s) = true ->
  (sd <= length (s_ptrs s))%nat ->
  firstn sd (disk_ptrs (s_fs s)) = firstn sd (s_ptrs s) ->
  let es := persist_ops (s_ptrs s) sd in
  cuts_ok (s_fs s) w es /\
  Inv (persist s sd) (fold_left win_step es w) /\
  disk_ptrs (s_fs (persist s sd)) = s_ptrs s.
Proof.
  intros s w sd fs HI Hfs Hwf Hsd Hag es.
  pose proof HI as [Hhead Hidx Hmem Hwr Hwidx Hnone].
  rewrite Hfs in Hidx. destruct Hidx as [D [HiD [HwfD HinD]]].
  rewrite Hfs in Hag. rewrite (index_ok_disk fs D HiD HwfD) in Hag.
  assert (Hw : wi_idxlen w = N.of_nat (length (encode_ptrs D))).
  { rewrite Hwidx. unfold widx. rewrite Hfs. simpl. rewrite HiD. reflexivity. }
  destruct (persist_good fs w D (s_ptrs s) sd HiD Hw Hsd Hag) as [Hc [fs' [Ha [Hi' Hoth]]]].
  destruct (persist_out s sd) as [Ho [Hf [Hp [Hh [Hws _]]]]].
  fold es in Ho, Hf, Hc, Ha.
  rewrite Hfs. split; [exact Hc|]. split.
  - apply (inv_persisted s w (persist s sd) fs fs' (fold_left win_step es w)).
    + exact HI.
    + exact Hfs.
    + rewrite Hf, Hfs. exact Ha.
    + rewrite Hp. exact Hi'.
    + exact Hoth.
    + rewrite Hp. exact Hwf.
    + rewrite Hp. intros p Hpin. specialize (Hmem p Hpin). rewrite Hfs in Hmem. exact Hmem.
    + rewrite Hh. exact Hhead.
    + exact Hws.
    + rewrite Hp. apply persist_win_idx. exact Hsd.
  - rewrite Hf, Hfs, Ha. apply index_ok_disk; auto.
Qed.

Lemma release_fields : forall s k,
  s_fs (release s k) = s_fs s /\ s_out (release s k) = s_out s /\ s_ptrs (release s k) = s_ptrs s /\
  s_head (release s k) = s_head s /\ s_ws (release s k) = s_ws s /\ s_cap (release s k) = s_cap s /\
  s_thr (release s k) = s_thr s /\ s_ctr (release s k) = s_ctr s.
Proof. intros. unfold release. destruct (assoc (s_open s) k); simpl; repeat split; reflexivity. Qed.

Lemma wr_ok_del : forall s s2 wid,
  wr_ok s -> s_fs s2 = s_fs s -> s_ws s2 = assoc_del (s_ws s) wid -> wr_ok s2.
Proof.
  intros s s2 wid Hwr Hf Hw id x Hx. rewrite Hw in Hx. rewrite Hf.
  destruct (N.eq_dec wid id) as [->|Hne].
  - rewrite assoc_del_same in Hx. discriminate.
  - rewrite assoc_del_other in Hx by auto. eauto.
Qed.

(* ---- DCloseW *)
Lemma do_closew_good : forall s0 w wid s1 oc,
  Inv s0 w -> do_closew s0 wid = (s1, oc) -> do_good s0 w (DCloseW wid) s1 oc.
Proof.
  intros s0 w wid s1 oc HI Hdo Hleg.
  pose proof HI as [Hhead Hidx Hmem Hwr Hwidx Hnone].
  destruct (legal_dir _ _ _ _ Hleg) as [fs [ib [Hfs Hib]]].
  unfold do_closew in Hdo.
  destruct (assoc (s_ws s0) wid) as [x|] eqn:Ex.
  2:{ inversion Hdo; subst. exact (do_good_noop _ _ _ _ HI Hleg). }
  destruct (release_fields s0 (w_file x)) as [Rf [Ro [Rp [Rh [Rw _]]]]].
  remember (set_ws (release s0 (w_file x)) (assoc_del (s_ws s0) wid)) as sa eqn:Hsa.
  assert (Hf1 : s_fs sa = s_fs s0) by (subst sa; simpl; congruence).
  assert (Hp1 : s_ptrs sa = s_ptrs s0) by (subst sa; simpl; congruence).
  assert (Hh1 : s_head sa = O) by (subst sa; simpl; congruence).
  assert (Ho1 : s_out sa = s_out s0) by (subst sa; simpl; congruence).
  assert (Hw1 : s_ws sa = assoc_del (s_ws s0) wid) by (subst sa; reflexivity).
  assert (HI1 : Inv sa w).
  { apply (inv_same_disk s0 w sa HI); try congruence.
    apply (wr_ok_del s0 _ wid Hwr); congruence. }
  assert (Hfs1 : s_fs sa = Some fs) by congruence.
  rewrite Hh1 in Hdo.
  assert (Hnop : (sa, ROk) = (s1, oc) -> do_good s0 w (DCloseW wid) s1 oc).
  { intros E. inversion E; subst s1 oc. intros _. exists []. simpl.
    split; [exact Ho1|]. split; [exact Hf1|]. split; [exact HI1|].
    split; [apply cuts_ok_nil|discriminate]. }
  destruct (w_mode x); [exact (Hnop Hdo Hleg)| |exact (Hnop Hdo Hleg)].
  (* lazily persisted writer: Close persists the index *)
  inversion Hdo; subst s1 oc. clear Hdo.
  assert (Hwfa : forallb wf_ptr (s_ptrs sa) = true).
  { destruct (legal_post _ _ _ _ Hleg) as [Hwf' _].
    simpl in Hwf'. exact Hwf'. }
  destruct (persist_step sa w O fs HI1 Hfs1 Hwfa ltac:(lia) eq_refl) as [Hc [HI2 Hdk]].
  destruct (persist_out sa O) as [Ho2 [Hf2 [Hp2 _]]].
  exists (persist_ops (s_ptrs sa) 0).
  split; [rewrite Ho2, Ho1; reflexivity|].
  split; [rewrite Hf2, Hf1; reflexivity|].
  split; [exact HI2|]. split; [rewrite <- Hf1; exact Hc|].
  intros _. rewrite Hp2. exact Hdk.
Qed.

(* ---- index.insert / index.update only add the new pointer *)
Lemma in_firstn : forall (A : Type) (l : list A) i q, In q (firstn i l) -> In q l.
Proof.
  induction l as [|a l IH]; intros i q H; destruct i; simpl in *; try contradiction.
  destruct H; [left; auto|right; eauto].
Qed.

Lemma in_skipn : forall (A : Type) (l : list A) i q, In q (skipn i l) -> In q l.
Proof.
  induction l as [|a l IH]; intros i q H; destruct i; simpl in *; try contradiction; auto.
  right. eauto.
Qed.

Lemma in_splice : forall (A : Type) (l : list A) i j x q,
  In q (firstn i l ++ x :: skipn j l) -> q = x \/ In q l.
Proof.
  intros A l i j x q H. apply in_app_or in H. destruct H as [H|[H|H]].
  - right. eapply in_firstn; eauto.
  - left. auto.
  - right. eapply in_skipn; eauto.
Qed.

Lemma idx_insert_in : forall ps p ps' at_ q,
  idx_insert ps p = (ROk, ps', at_) -> In q ps' -> q = p \/ In q ps.
Proof.
  intros ps p ps' at_ q H Hq. unfold idx_insert in H.
  destruct (N.eqb (p_file p) 0); [discriminate|].
  destruct ps as [|f r]; [inversion H; subst; simpl in Hq; destruct Hq; [left; auto|contradiction]|].
  destruct (p_e (last (f :: r) f) <? p_s p)%Z.
  { inversion H; subst. change (f :: r ++ [p]) with ((f :: r) ++ [p]) in Hq.
    apply in_app_or in Hq. destruct Hq as [Hq|[Hq|[]]]; auto. }
  destruct (negb (p_e p <? p_s f)%Z).
  - destruct (usearch (f :: r) (ptr_tr p)) as [i ov]. destruct ov; [discriminate|].
    inversion H; subst. unfold insert_at in Hq. eapply in_splice; eauto.
  - inversion H; subst. simpl in Hq. destruct Hq; auto.
Qed.

Lemma idx_update_in : forall ps p ps' at_ q,
  idx_update ps p = (ROk, ps', at_) -> In q ps' -> q = p \/ In q ps.
Proof.
  intros ps p ps' at_ q H Hq. unfold idx_update in H.
  destruct ps as [|f r]; [discriminate|].
  destruct (getp (f :: r) _) as [oldp|]; [|discriminate].
  destruct (negb (p_s oldp =? p_s p)%Z); [discriminate|].
  destruct (_ || _); [discriminate|].
  inversion H; subst. unfold replace_at in Hq. eapply in_splice; eauto.
Qed.

Lemma u32_le : forall n, (u32 n <= n)%N.
Proof. intros. unfold u32. apply N.mod_le. discriminate. Qed.

(* ---- DCommit *)
(* the tail of commit: keep the file (a), or roll over to another file (b) *)
Lemma commit_keep : forall t w wid x x',
  Inv t w -> assoc (s_ws t) wid = Some x ->
  w_file x' = w_file x -> w_off x' = w_off x -> w_len x' = w_len x ->
  Inv (set_ws t (assoc_set (s_ws t) wid x')) w.
Proof.
  intros t w wid x x' HI Hx Hf Ho Hl.
  apply (inv_same_disk t w); simpl; auto.
  destruct HI as [_ _ _ Hwr _ _].
  unfold wr_ok. simpl. intros id y Hy. destruct (N.eq_dec wid id) as [->|Hne].
  - rewrite assoc_set_same in Hy. inversion Hy; subst y. rewrite Hf, Ho, Hl. eauto.
  - rewrite assoc_set_other in Hy by auto. eauto.
Qed.

Lemma commit_roll : forall t w wid x e hint s4 k size md fs,
  Inv t w -> s_fs t = Some fs -> assoc (s_ws t) wid = Some x ->
  acquire (release t (w_file x)) hint = (s4, k, size) ->
  let fin := set_ws s4 (assoc_set (s_ws s4) wid (mkWr e k size 0 0 size md)) in
  forallb (fun iw => fexists fin (FData (w_file (snd iw)))) (s_ws fin) = true ->
  exists es0, s_out fin = rev es0 ++ s_out t /\ s_fs fin = apply_all (s_fs t) es0 /\
              Inv fin (fold_left win_step es0 w) /\ all_same (s_fs t) es0 /\ s_ptrs fin = s_ptrs t /\
              idx_written es0 = false /\ disk_ptrs (s_fs fin) = disk_ptrs (s_fs t).
Proof.
  intros t w wid x e hint s4 k size md fs HI Hfs Hx Ea fin Hex.
  destruct (release_fields t (w_file x)) as [Rf [Ro [Rp [Rh [Rw _]]]]].
  destruct (acquire_spec _ _ _ _ _ Ea) as [Hp [Hh [Hws [_ [_ [es0 [Hes [Ho [Hf Hsz]]]]]]]]].
  destruct (acquire_gops fs es0 k Hes) as [Hg Hq]. rewrite <- Hfs in Hg.
  pose proof HI as [Hhead Hidx Hmem Hwr Hwidx Hnone].
  exists es0. unfold fin. simpl.
  split; [rewrite Ho, Ro; reflexivity|].
  split; [rewrite Hf, Rf; reflexivity|].
  split; [|split].
  - apply (inv_grown t w _ es0); simpl; try congruence.
    unfold wr_ok. simpl. intros id y Hy.
    destruct (N.eq_dec wid id) as [->|Hne].
    + rewrite assoc_set_same in Hy. inversion Hy; subst y. simpl.
      destruct (legal_wfile fin id _ Hex ltac:(unfold fin; simpl; apply assoc_set_same)) as [data Hd].
      unfold fin in Hd. simpl in Hd. exists data. split; auto.
      unfold flen in Hsz. rewrite Hd in Hsz. lia.
    + rewrite assoc_set_other in Hy by auto. rewrite Hws, Rw in Hy.
      eapply wr_ok_grown; eauto. congruence.
  - apply gops_all_same; auto.
  - split; [congruence|]. split; [destruct Hes as [->| ->]; reflexivity|].
    rewrite Hf, Rf. apply grows_disk_ptrs. apply gops_grows. exact Hg.
Qed.

Lemma do_commit_good : forall s0 w wid e hint s1 oc,
  Inv s0 w -> do_commit s0 wid e hint = (s1, oc) -> do_good s0 w (DCommit wid e hint) s1 oc.
Proof.
  intros s0 w wid e hint s1 oc HI Hdo Hleg.
  pose proof HI as [Hhead Hidx Hmem Hwr Hwidx Hnone].
  destruct (legal_post _ _ _ _ Hleg) as [Hwf' Hex'].
  destruct (legal_dir _ _ _ _ Hleg) as [fs [ib [Hfs Hib]]].
  unfold do_commit in Hdo.
  destruct (assoc (s_ws s0) wid) as [x|] eqn:Ex.
  2:{ inversion Hdo; subst. exact (do_good_noop _ _ _ _ HI Hleg). }
  destruct (N.eqb (w_len x) 0).
  { inversion Hdo; subst. exact (do_good_noop _ _ _ _ HI Hleg). }
  destruct (negb (w_prev x =? 0)%Z && negb (N.leb (real_cap s0) (w_fsize x)) && (e <? w_prev x)%Z).
  { inversion Hdo; subst. exact (do_good_noop _ _ _ _ HI Hleg). }
  destruct (negb (w_start x <? e)%Z).
  { inversion Hdo; subst. exact (do_good_noop _ _ _ _ HI Hleg). }
  remember (mkPtr (w_start x) e (w_file x) (u32 (w_off x)) (u32 (w_len x))) as p eqn:Hp.
  destruct (if (w_prev x =? 0)%Z then idx_insert (s_ptrs s0) p else idx_update (s_ptrs s0) p)
    as [[r ps] at_] eqn:Eidx.
  destruct r; try (inversion Hdo; subst; exact (do_good_noop _ _ _ _ HI Hleg)).
  (* the pointer list gained (at most) the new pointer, which lies inside the writer's file *)
  assert (Hin : forall q, In q ps -> q = p \/ In q (s_ptrs s0)).
  { intros q Hq. destruct (w_prev x =? 0)%Z; [eapply idx_insert_in|eapply idx_update_in]; eauto. }
  assert (Hpin : inrb (s_fs s0) p = true).
  { destruct (Hwr _ _ Ex) as [data [Hd Hle]]. unfold inrb. subst p. simpl. rewrite Hd.
    apply N.leb_le. pose proof (u32_le (w_off x)). pose proof (u32_le (w_len x)). lia. }
  remember (set_head (set_ptrs s0 ps) (Nat.min (s_head s0) at_)) as sa eqn:Hsa.
  assert (Hfa : s_fs sa = s_fs s0) by (subst sa; reflexivity).
  assert (Hoa : s_out sa = s_out s0) by (subst sa; reflexivity).
  assert (Hpa : s_ptrs sa = ps) by (subst sa; reflexivity).
  assert (Hwa : s_ws sa = s_ws s0) by (subst sa; reflexivity).
  assert (Hha : s_head sa = O) by (subst sa; simpl; rewrite Hhead; reflexivity).
  assert (HIa : Inv sa w).
  { constructor; auto; try congruence.
    - unfold mem_inr. rewrite Hfa, Hpa. intros q Hq. destruct (Hin q Hq) as [->|Hq']; auto.
    - unfold wr_ok. rewrite Hfa, Hwa. exact Hwr. }
  assert (Hfsa : s_fs sa = Some fs) by congruence.
  assert (Exa : assoc (s_ws sa) wid = Some x) by congruence.
  rewrite Hha in Hdo.
  (* persist or not *)
  assert (Hmid : exists sb es2,
            (match w_mode x with MLazy => sa | _ => persist sa 0 end) = sb /\
            s_out sb = rev es2 ++ s_out s0 /\ s_fs sb = apply_all (s_fs s0) es2 /\
            s_ptrs sb = ps /\ s_ws sb = s_ws s0 /\
            (forallb wf_ptr ps = true -> Inv sb (fold_left win_step es2 w) /\ cuts_ok (s_fs s0) w es2 /\
                                          (idx_written es2 = true -> disk_ptrs (s_fs sb) = ps))).
  { destruct (persist_out sa O) as [Ho2 [Hf2 [Hp2 [_ [Hw2 _]]]]].
    assert (Hper : exists sb es2, persist sa 0 = sb /\
            s_out sb = rev es2 ++ s_out s0 /\ s_fs sb = apply_all (s_fs s0) es2 /\
            s_ptrs sb = ps /\ s_ws sb = s_ws s0 /\
            (forallb wf_ptr ps = true -> Inv sb (fold_left win_step es2 w) /\ cuts_ok (s_fs s0) w es2 /\
                                          (idx_written es2 = true -> disk_ptrs (s_fs sb) = ps))).
    { exists (persist sa 0), (persist_ops (s_ptrs sa) 0).
      split; [reflexivity|]. split; [congruence|]. split; [congruence|]. split; [congruence|].
      split; [congruence|]. intros Hwfps.
      destruct (persist_step sa w O fs HIa Hfsa ltac:(congruence) ltac:(lia) eq_refl) as [Hc [HI2 Hdk]].
      split; [exact HI2|]. split; [rewrite <- Hfa; exact Hc|]. intros _. congruence. }
    destruct (w_mode x); try exact Hper.
    exists sa, []. simpl.
    split; [reflexivity|]. split; [exact Hoa|]. split; [exact Hfa|]. split; [exact Hpa|].
    split; [exact Hwa|]. intros _. split; [exact HIa|]. split; [apply cuts_ok_nil|discriminate]. }
  destruct Hmid as [sb [es2 [Esb [Hob [Hfb [Hpb [Hwb Hgood]]]]]]].
  rewrite Esb in Hdo.
  assert (Exb : assoc (s_ws sb) wid = Some x) by congruence.
  destruct (N.leb (real_cap s0) (w_fsize x)).
  - (* rollover: release, acquire another file *)
    destruct (acquire (release sb (w_file x)) hint) as [[s4 k] size] eqn:Ea.
    inversion Hdo; subst s1 oc. clear Hdo.
    assert (Hfsb : exists fsb, s_fs sb = Some fsb).
    { destruct (w_mode x); subst sb; try (destruct (persist_out sa O) as [_ [Hf2 _]]; rewrite Hf2, Hfsa;
        unfold persist_ops, apply_all; simpl; eauto); eauto. }
    destruct Hfsb as [fsb Hfsb].
    assert (Hwfps : forallb wf_ptr ps = true).
    { destruct (acquire_spec _ _ _ _ _ Ea) as [Hp4 _].
      destruct (release_fields sb (w_file x)) as [_ [_ [Rp _]]].
      simpl in Hwf'. rewrite Hp4, Rp, Hpb in Hwf'. exact Hwf'. }
    destruct (Hgood Hwfps) as [HIb [Hcb Hsy]].
    destruct (commit_roll sb _ wid x e hint s4 k size (w_mode x) fsb HIb Hfsb Exb Ea Hex')
      as [es0 [Ho0 [Hf0 [HI0 [Hsame [Hp0 [Hnw Hd0]]]]]]].
    exists (es2 ++ es0).
    split; [rewrite Ho0, Hob, rev_app_distr, app_assoc; reflexivity|].
    split; [rewrite Hf0, Hfb, apply_all_app; reflexivity|].
    split; [rewrite fold_left_app; exact HI0|].
    split.
    { apply cuts_ok_app; auto.
      + apply all_same_cuts_ok. rewrite <- Hfb. exact Hsame.
      + right. rewrite <- Hfb. apply all_same_end. exact Hsame. }
    rewrite idx_written_app, Hnw, orb_false_r. intros Hiw.
    rewrite Hd0, Hp0, Hpb. apply Hsy. exact Hiw.
  - inversion Hdo; subst s1 oc. clear Hdo.
    assert (Hwfps : forallb wf_ptr ps = true).
    { simpl in Hwf'. rewrite Hpb in Hwf'. exact Hwf'. }
    destruct (Hgood Hwfps) as [HIb [Hcb Hsy]].
    exists es2. simpl.
    split; [exact Hob|]. split; [exact Hfb|]. split; [eapply commit_keep; eauto|].
    split; [exact Hcb|]. intros Hiw. rewrite Hpb. apply Hsy. exact Hiw.
Qed.

(* ---- DCommitTF: the index Truncate failed, the pointer is committed in memory only *)
Lemma do_commit_tf_good : forall s0 w wid e s1 oc,
  Inv s0 w -> do_commit_tf s0 wid e = (s1, oc) -> do_good s0 w (DCommitTF wid e) s1 oc.
Proof.
  intros s0 w wid e s1 oc HI Hdo Hleg.
  pose proof HI as [Hhead Hidx Hmem Hwr Hwidx Hnone].
  destruct (legal_dir _ _ _ _ Hleg) as [fs [ib [Hfs Hib]]].
  unfold do_commit_tf in Hdo.
  destruct (assoc (s_ws s0) wid) as [x|] eqn:Ex.
  2:{ inversion Hdo; subst. exact (do_good_noop _ _ _ _ HI Hleg). }
  assert (Hlazy : w_mode x = MLazy -> do_good s0 w (DCommitTF wid e) s1 oc).
  { intros Hm. rewrite Hm in Hdo. intros Hl. exact (do_commit_good s0 w wid e 0%N s1 oc HI Hdo Hl). }
  destruct (w_mode x) eqn:Em; try (exact (Hlazy eq_refl Hleg)); clear Hlazy.
  - destruct (N.eqb (w_len x) 0).
    { inversion Hdo; subst. exact (do_good_noop _ _ _ _ HI Hleg). }
    destruct (negb (w_prev x =? 0)%Z && negb (N.leb (real_cap s0) (w_fsize x)) && (e <? w_prev x)%Z).
    { inversion Hdo; subst. exact (do_good_noop _ _ _ _ HI Hleg). }
    destruct (negb (w_start x <? e)%Z).
    { inversion Hdo; subst. exact (do_good_noop _ _ _ _ HI Hleg). }
    remember (mkPtr (w_start x) e (w_file x) (u32 (w_off x)) (u32 (w_len x))) as p eqn:Hp.
    destruct (if (w_prev x =? 0)%Z then idx_insert (s_ptrs s0) p else idx_update (s_ptrs s0) p)
      as [[r ps] at_] eqn:Eidx.
    destruct r; try (inversion Hdo; subst; exact (do_good_noop _ _ _ _ HI Hleg)).
    assert (Hin : forall q, In q ps -> q = p \/ In q (s_ptrs s0)).
    { intros q Hq. destruct (w_prev x =? 0)%Z; [eapply idx_insert_in|eapply idx_update_in]; eauto. }
    assert (Hpin : inrb (s_fs s0) p = true).
    { destruct (Hwr _ _ Ex) as [data [Hd Hle]]. unfold inrb. subst p. simpl. rewrite Hd.
      apply N.leb_le. pose proof (u32_le (w_off x)). pose proof (u32_le (w_len x)). lia. }
    inversion Hdo; subst s1 oc. clear Hdo.
    exists []. simpl. split; [reflexivity|]. split; [reflexivity|]. split; [|split; [apply cuts_ok_nil|discriminate]].
    constructor; simpl; auto; try congruence.
    + rewrite Hhead. reflexivity.
    + unfold mem_inr. simpl. intros q Hq. destruct (Hin q Hq) as [->|Hq']; auto.
  - destruct (N.eqb (w_len x) 0).
    { inversion Hdo; subst. exact (do_good_noop _ _ _ _ HI Hleg). }
    destruct (negb (w_prev x =? 0)%Z && negb (N.leb (real_cap s0) (w_fsize x)) && (e <? w_prev x)%Z).
    { inversion Hdo; subst. exact (do_good_noop _ _ _ _ HI Hleg). }
    destruct (negb (w_start x <? e)%Z).
    { inversion Hdo; subst. exact (do_good_noop _ _ _ _ HI Hleg). }
    remember (mkPtr (w_start x) e (w_file x) (u32 (w_off x)) (u32 (w_len x))) as p eqn:Hp.
    destruct (if (w_prev x =? 0)%Z then idx_insert (s_ptrs s0) p else idx_update (s_ptrs s0) p)
      as [[r ps] at_] eqn:Eidx.
    destruct r; try (inversion Hdo; subst; exact (do_good_noop _ _ _ _ HI Hleg)).
    assert (Hin : forall q, In q ps -> q = p \/ In q (s_ptrs s0)).
    { intros q Hq. destruct (w_prev x =? 0)%Z; [eapply idx_insert_in|eapply idx_update_in]; eauto. }
    assert (Hpin : inrb (s_fs s0) p = true).
    { destruct (Hwr _ _ Ex) as [data [Hd Hle]]. unfold inrb. subst p. simpl. rewrite Hd.
      apply N.leb_le. pose proof (u32_le (w_off x)). pose proof (u32_le (w_len x)). lia. }
    inversion Hdo; subst s1 oc. clear Hdo.
    exists []. simpl. split; [reflexivity|]. split; [reflexivity|]. split; [|split; [apply cuts_ok_nil|discriminate]].
    constructor; simpl; auto; try congruence.
    + rewrite Hhead. reflexivity.
    + unfold mem_inr. simpl. intros q Hq. destruct (Hin q Hq) as [->|Hq']; auto.
Qed.

(* ---- DDelete *)
Lemma getp_lt : forall ps i p, getp ps i = Some p -> (0 <= i)%Z /\ (Z.to_nat i < length ps)%nat.
Proof.
  intros ps i p H. unfold getp in H. destruct (Z.ltb_spec i 0); [discriminate|].
  split; auto. apply nth_error_Some. congruence.
Qed.

Lemma ptr_eqb_eq : forall a b, ptr_eqb a b = true -> a = b.
Proof.
  intros [s1 e1 f1 o1 z1] [s2 e2 f2 o2 z2] H. unfold ptr_eqb in H. simpl in H.
  repeat (apply andb_true_iff in H; destruct H as [H ?]).
  apply Z.eqb_eq in H. apply Z.eqb_eq in H3. apply N.eqb_eq in H2, H1, H0. subst. reflexivity.
Qed.

Lemma list_beq_eq : forall a b, list_beq ptr ptr_eqb a b = true -> a = b.
Proof.
  induction a as [|x a IH]; intros [|y b] H; simpl in H; try discriminate; auto.
  apply andb_true_iff in H. destruct H as [H1 H2]. f_equal; [apply ptr_eqb_eq|apply IH]; auto.
Qed.

(* a delete either changes nothing, or persists a list that agrees with the old one before
   the position it persists from *)
Lemma do_delete_shape : forall s a b res s1 oc,
  do_delete s a b res = (s1, oc) ->
  s1 = s \/
  exists ps', s1 = persist (set_ptrs s ps') (delete_start s a) /\
              firstn (delete_start s a) ps' = firstn (delete_start s a) (s_ptrs s) /\
              (delete_start s a <= length ps')%nat.
Proof.
  intros s a b res s1 oc H. unfold do_delete in H. unfold delete_start.
  destruct (usearch (s_ptrs s) (span0 a)) as [i exact] eqn:Eu.
  match type of H with (let '(_, _) := _ in _) = _ => idtac | _ => idtac end.
  set (ps := s_ptrs s) in *.
  match type of H with
  | context [match ?sr with Some _ => _ | None => _ end] =>
      destruct sr as [[[[sd startp] so] a']|] eqn:Esr
  end.
  2:{ left. inversion H; reflexivity. }
  assert (Hsd : sd = (if exact then i else i + 1)%Z /\ getp ps sd = Some startp).
  { destruct exact.
    - destruct (getp ps i) as [p0|] eqn:Eg; [|discriminate].
      destruct (zassoc res (p_s p0)) as [[[[so0 a0] e0] b0]|]; [|discriminate].
      inversion Esr; subst. auto.
    - destruct (i + 1 =? zlen ps)%Z; [discriminate|].
      destruct (getp ps (i + 1)) as [p0|] eqn:Eg; [|discriminate].
      inversion Esr; subst. auto. }
  destruct Hsd as [Hsd Hgs]. destruct (getp_lt _ _ _ Hgs) as [Hsd0 Hsdlt].
  destruct (usearch ps (span0 b)) as [j exact2] eqn:Eu2.
  match type of H with
  | context [match ?er with Some _ => _ | None => _ end] =>
      destruct er as [[[[ed endp] eo] b']|] eqn:Eer
  end.
  2:{ left. inversion H; reflexivity. }
  destruct (validate_delete sd ed so eo ps) as [[[go err] so'] eo'] eqn:Ev.
  destruct err; [left; inversion H; reflexivity|].
  destruct go; simpl in H; [|left; inversion H; reflexivity].
  right. rewrite <- Hsd.
  eexists. split; [inversion H; reflexivity|].
  set (kept := firstn (Z.to_nat sd) ps ++ skipn (Z.to_nat (ed + 1)) ps).
  assert (Hk : firstn (Z.to_nat sd) kept = firstn (Z.to_nat sd) ps).
  { unfold kept. rewrite firstn_app. rewrite firstn_length.
    replace (Z.to_nat sd - Nat.min (Z.to_nat sd) (length ps))%nat with 0%nat by lia.
    simpl. rewrite app_nil_r. apply firstn_firstn_le. lia. }
  assert (Hkl : length (firstn (Z.to_nat sd) kept) = Z.to_nat sd).
  { rewrite Hk, firstn_length. lia. }
  split.
  - rewrite firstn_app. rewrite Hkl, Nat.sub_diag. simpl. rewrite app_nil_r.
    rewrite firstn_firstn_le by lia. exact Hk.
  - rewrite app_length, Hkl. lia.
Qed.

Lemma do_delete_good : forall s0 w a b res s1 oc,
  Inv s0 w -> do_delete s0 a b res = (s1, oc) -> do_good s0 w (DDelete a b res) s1 oc.
Proof.
  intros s0 w a b res s1 oc HI Hdo Hleg.
  destruct (do_delete_shape _ _ _ _ _ _ Hdo) as [->|[ps' [-> [Hag Hlen]]]].
  { exact (do_good_noop _ _ _ _ HI Hleg). }
  pose proof HI as [Hhead Hidx Hmem Hwr Hwidx Hnone].
  destruct (legal_post _ _ _ _ Hleg) as [Hwf' _].
  destruct (legal_dir _ _ _ _ Hleg) as [fs [ib [Hfs Hib]]].
  assert (Hl2 : list_beq ptr ptr_eqb (firstn (delete_start s0 a) (disk_ptrs (s_fs s0)))
                                      (firstn (delete_start s0 a) (s_ptrs s0)) = true /\
                forallb (inrb (s_fs (clear_out (persist (set_ptrs s0 ps') (delete_start s0 a)))))
                        (s_ptrs (clear_out (persist (set_ptrs s0 ps') (delete_start s0 a)))) = true).
  { unfold legal_step in Hleg. rewrite Hfs, Hib in Hleg.
    apply andb_true_iff in Hleg. destruct Hleg as [_ Hlast].
    apply andb_true_iff in Hlast. rewrite Hfs. exact Hlast. }
  destruct Hl2 as [Hpre Hinr]. apply list_beq_eq in Hpre.
  set (n := delete_start s0 a) in *.
  remember (set_ptrs s0 ps') as sa eqn:Hsa.
  assert (Hfa : s_fs sa = s_fs s0) by (subst sa; reflexivity).
  assert (Hoa : s_out sa = s_out s0) by (subst sa; reflexivity).
  assert (Hpa : s_ptrs sa = ps') by (subst sa; reflexivity).
  assert (Hwa : s_ws sa = s_ws s0) by (subst sa; reflexivity).
  assert (Hha : s_head sa = O) by (subst sa; simpl; exact Hhead).
  destruct (persist_out sa n) as [Ho2 [Hf2 [Hp2 _]]].
  assert (Hwfps : forallb wf_ptr ps' = true).
  { simpl in Hwf'. congruence. }
  (* the data files are untouched by the index rewrite, so the post-condition on the final
     state gives the new pointers' ranges in the starting directory *)
  assert (Hrange : forall q, In q ps' -> inrb (s_fs s0) q = true).
  { intros q Hq.
    change (s_fs (clear_out (persist sa n))) with (s_fs (persist sa n)) in Hinr.
    change (s_ptrs (clear_out (persist sa n))) with (s_ptrs (persist sa n)) in Hinr.
    rewrite Hp2, Hpa in Hinr. rewrite forallb_forall in Hinr. specialize (Hinr q Hq).
    rewrite Hf2, Hfa, Hfs in Hinr. rewrite Hfs.
    rewrite Hfs in Hidx. destruct Hidx as [D [HiD [HwfD _]]].
    assert (Hb : firstn (26 * n) (encode_ptrs D) = encode_ptrs (firstn n (s_ptrs sa))).
    { rewrite firstn_encode. f_equal. rewrite Hpa, Hag, <- Hpre, Hfs.
      rewrite (index_ok_disk fs D HiD HwfD). reflexivity. }
    destruct (persist_view fs _ (s_ptrs sa) n HiD ltac:(rewrite Hpa; exact Hlen) Hb) as [fs' [Ha [_ Hoth]]].
    rewrite Ha in Hinr. unfold inrb in *. simpl in *. rewrite Hoth in Hinr by discriminate. exact Hinr. }
  assert (HIa : Inv sa w).
  { constructor; auto; try congruence.
    - unfold mem_inr. rewrite Hfa, Hpa. exact Hrange.
    - unfold wr_ok. rewrite Hfa, Hwa. exact Hwr. }
  assert (Hfsa : s_fs sa = Some fs) by congruence.
  destruct (persist_step sa w n fs HIa Hfsa ltac:(congruence) ltac:(rewrite Hpa; exact Hlen)
              ltac:(rewrite Hfa, Hpa, Hag; exact Hpre)) as [Hc [HI2 Hdk]].
  exists (persist_ops (s_ptrs sa) n).
  split; [rewrite Ho2, Hoa; reflexivity|].
  split; [rewrite Hf2, Hfa; reflexivity|].
  split; [exact HI2|]. split; [rewrite <- Hfa; exact Hc|].
  intros _. rewrite Hp2. exact Hdk.
Qed.

(* ---- DCreate *)
Definition create_ops (meta : bytes) : list fsop :=
  [OMkdir; OCreate FMetaTmp; OWrite false FMetaTmp 0 meta; ORename FMetaTmp FMeta; OCreate FIndex; OCreate FCounter].

Lemma legal_create : forall s meta s' oc, legal_step s (DCreate meta) s' oc = true -> s_fs s = None /\ s_ws s = [].
Proof. intros. exact (legal_dir _ _ _ _ H). Qed.

Lemma win_class_dir_nometa : forall i t g r, win_class (mkWin true false i t g r) = 1%nat.
Proof. reflexivity. Qed.

Lemma do_create_good : forall s0 w meta s1 oc,
  Inv s0 w -> do_create s0 meta = (s1, oc) -> do_good s0 w (DCreate meta) s1 oc.
Proof.
  intros s0 w meta s1 oc HI Hdo Hleg.
  destruct (legal_create _ _ _ _ Hleg) as [Hfs Hws].
  pose proof HI as [Hhead Hidx Hmem Hwr Hwidx Hnone].
  specialize (Hnone Hfs).
  destruct s0 as [fs out ps hd c o u ws cap thr]. simpl in *. subst fs ws ps hd.
  unfold do_create in Hdo. simpl in Hdo. inversion Hdo; subst s1 oc. clear Hdo.
  exists (create_ops meta). simpl.
  split; [reflexivity|]. split; [reflexivity|]. split; [|split; [|discriminate]].
  - constructor; simpl; auto; try discriminate; try (intros p []);
      try (exists []; simpl; repeat split; auto; intros p []).
  - intros m t Hm Ht Hc. unfold create_ops in *. simpl in Hm.
    destruct m as [|[|[|[|[|[|[|m]]]]]]]; try lia.
    + destruct Ht as [->|[o' [H1 H2]]]; [left; reflexivity|].
      simpl in H1. inversion H1; subst o'. simpl in H2. lia.
    + exfalso. unfold win_from in Hc. simpl in Hc.
      destruct t; simpl in Hc; discriminate.
    + exfalso. unfold win_from in Hc. simpl in Hc.
      destruct t; simpl in Hc; discriminate.
    + exfalso. unfold win_from in Hc. simpl in Hc.
      destruct t; simpl in Hc; discriminate.
    + right. destruct Ht as [->|[o' [H1 H2]]]; [reflexivity|].
      simpl in H1. inversion H1; subst o'. simpl in H2. lia.
    + right. destruct Ht as [->|[o' [H1 H2]]]; [reflexivity|].
      simpl in H1. inversion H1; subst o'. simpl in H2. lia.
    + right. destruct Ht as [->|[o' [H1 H2]]]; [reflexivity|].
      simpl in H1. discriminate.
Qed.

(* ---- DDelChan *)
Lemma do_delchan_good : forall s0 w s1 oc,
  Inv s0 w -> do_delchan s0 = (s1, oc) -> do_good s0 w DDelChan s1 oc.
Proof.
  intros s0 w s1 oc HI Hdo Hleg.
  destruct (legal_dir _ _ _ _ Hleg) as [fs [ib [Hfs Hib]]].
  unfold do_delchan in Hdo. inversion Hdo; subst s1 oc. clear Hdo.
  exists [ORenameDir; ORemoveDir]. simpl.
  split; [reflexivity|]. split; [reflexivity|]. split; [|split; [|discriminate]].
  - rewrite Hfs. simpl. constructor; simpl; auto.
    + intros p [].
    + intros id x Hx. discriminate.
  - intros m t Hm Ht Hc. simpl in Hm. rewrite Hfs.
    destruct m as [|[|[|m]]]; try lia.
    + destruct Ht as [->|[o' [H1 H2]]]; [left; reflexivity|].
      simpl in H1. inversion H1; subst o'. simpl in H2. lia.
    + right. destruct Ht as [->|[o' [H1 H2]]]; [reflexivity|].
      simpl in H1. inversion H1; subst o'. simpl in H2. lia.
    + right. destruct Ht as [->|[o' [H1 H2]]]; [reflexivity|].
      simpl in H1. discriminate.
Qed.

(* ---- DReopen: a clean restart loads exactly what is on disk *)
Lemma recover_spec : forall cap thr fs ib,
  fget fs FIndex = Some ib ->
  let r := recover cap thr (Some fs) in
  s_ptrs r = decode_ptrs ib /\ s_head r = O /\ s_ws r = [] /\
  ((s_out r = [] /\ s_fs r = Some fs) \/
   (s_out r = [OCreate FCounter] /\ s_fs r = apply (Some fs) (OCreate FCounter))).
Proof.
  intros cap thr fs ib Hib r. subst r. unfold recover, fresh, fexists. simpl. rewrite Hib. simpl.
  rewrite Hib. destruct (fget fs FCounter) eqn:Ec; simpl.
  - repeat split; auto.
  - split; [reflexivity|]. split; [reflexivity|]. split; [reflexivity|].
    right. rewrite Ec. split; reflexivity.
Qed.

Lemma do_reopen_good : forall s0 w s1 oc,
  Inv s0 w -> do_reopen s0 = (s1, oc) -> do_good s0 w DReopen s1 oc.
Proof.
  intros s0 w s1 oc HI Hdo Hleg.
  pose proof HI as [Hhead Hidx Hmem Hwr Hwidx Hnone].
  destruct (legal_dir _ _ _ _ Hleg) as [fs [ib [Hfs Hib]]].
  unfold do_reopen in Hdo.
  destruct (s_ws s0) eqn:Ews.
  2:{ inversion Hdo; subst. exact (do_good_noop _ _ _ _ HI Hleg). }
  rewrite Hfs in Hdo.
  destruct (recover_spec (s_cap s0) (s_thr s0) fs ib Hib) as [Hp [Hh [Hw Hcase]]].
  remember (recover (s_cap s0) (s_thr s0) (Some fs)) as r eqn:Hr.
  inversion Hdo; subst s1 oc. clear Hdo.
  rewrite Hfs in Hidx. destruct Hidx as [D [HiD [HwfD HinD]]].
  assert (HD : decode_ptrs ib = D).
  { rewrite HiD in Hib. inversion Hib. apply decode_encode. exact HwfD. }
  assert (Hes : exists es, (es = [] \/ es = [OCreate FCounter]) /\ s_out r = rev es /\ s_fs r = apply_all (Some fs) es).
  { destruct Hcase as [[H1 H2]|[H1 H2]]; [exists []|exists [OCreate FCounter]]; simpl; auto. }
  destruct Hes as [es [Hes [Ho Hf]]].
  assert (Hg : gops (Some fs) es /\ Forall wquiet es).
  { destruct Hes as [->| ->]; simpl; split; auto.
    - split; auto. apply gop_side. simpl. auto.
    - repeat constructor. }
  destruct Hg as [Hg Hq].
  exists es. simpl.
  split; [rewrite Ho; reflexivity|]. split; [rewrite Hf, Hfs; reflexivity|]. split.
  - rewrite wquiet_fold by auto.
    assert (Hgr := gops_grows _ _ Hg).
    constructor; simpl.
    + exact Hh.
    + rewrite Hf. eapply grows_index_ok; eauto. simpl. exists D. auto.
    + unfold mem_inr. simpl. rewrite Hp, HD, Hf. intros p Hpin. eapply inrb_grows; eauto.
    + unfold wr_ok. simpl. rewrite Hw. intros id x Hx. discriminate.
    + rewrite Hwidx, Hf, Hfs. symmetry. apply grows_widx. exact Hgr.
    + rewrite Hf. intros Hn. rewrite Hn in Hgr. simpl in Hgr. contradiction.
  - split; [|destruct Hes as [->| ->]; discriminate].
    rewrite Hfs. apply all_same_cuts_ok. apply gops_all_same; auto. simpl. exists D. auto.
Qed.

(* ------------------------------------------------------------------ garbage collection *)
Definition gc_side (o : fsop) : Prop :=
  match o with OCreate (FGc _) | OWrite _ (FGc _) _ _ => True | _ => False end.

Definition gc_op (o : fsop) : Prop :=
  match o with
  | OCreate (FGc _) | OWrite _ (FGc _) _ _ | ORename (FData _) (FTmp _)
  | ORename (FGc _) (FData _) | ORemove (FTmp _) => True
  | _ => False
  end.

Definition swap_ops (k : N) : list fsop :=
  [ORename (FData k) (FTmp k); ORename (FGc k) (FData k); ORemove (FTmp k)].

(* the calls of a GC pass before the index rewrite: copies into <k>.domain_gc files only,
   until the first file swap; from then on swaps, copies and removals *)
Definition gc_shape (es : list fsop) : Prop :=
  exists A B, es = A ++ B /\ Forall gc_side A /\ Forall gc_op B /\
              (B = [] \/ exists k r, B = ORename (FData k) (FTmp k) :: r).

Lemma gc_side_op : forall o, gc_side o -> gc_op o.
Proof. intros o H. destruct o as [|f|b f off bs|f n|f g|f| |]; simpl in *; try contradiction; destruct f; auto. Qed.

Lemma gc_shape_nil : gc_shape [].
Proof. exists [], []. repeat split; auto. Qed.

Lemma gc_shape_app_side : forall es X, gc_shape es -> Forall gc_side X -> gc_shape (es ++ X).
Proof.
  intros es X [A [B [-> [HA [HB Hc]]]]] HX. destruct Hc as [->|[k [r ->]]].
  - exists (A ++ X), []. rewrite !app_nil_r. repeat split; auto. apply Forall_app; auto.
  - exists A, ((ORename (FData k) (FTmp k) :: r) ++ X). rewrite app_assoc. repeat split; auto.
    + apply Forall_app. split; auto. eapply Forall_impl; [|exact HX]. apply gc_side_op.
    + right. exists k, (r ++ X). reflexivity.
Qed.

Lemma gc_shape_app_swap : forall es k, gc_shape es -> gc_shape (es ++ swap_ops k).
Proof.
  intros es k [A [B [-> [HA [HB Hc]]]]].
  assert (Hs : Forall gc_op (swap_ops k)) by (repeat constructor).
  destruct Hc as [->|[k' [r ->]]].
  - exists A, (swap_ops k). rewrite app_nil_r. repeat split; auto. right. exists k, (tl (swap_ops k)). reflexivity.
  - exists A, ((ORename (FData k') (FTmp k') :: r) ++ swap_ops k). rewrite app_assoc. repeat split; auto.
    + apply Forall_app. auto.
    + right. exists k', (r ++ swap_ops k). reflexivity.
Qed.

(* state components the GC pass leaves alone, and the coupling of s_out / s_fs *)
Definition emits_from (s s' : st) (X : list fsop) : Prop :=
  s_out s' = rev X ++ s_out s /\ s_fs s' = apply_all (s_fs s) X /\
  s_head s' = s_head s /\ s_ws s' = s_ws s /\ s_cap s' = s_cap s /\ s_thr s' = s_thr s.

Lemma emits_refl : forall s, emits_from s s [].
Proof. intros. repeat split; reflexivity. Qed.

Lemma emits_trans : forall a b c X Y, emits_from a b X -> emits_from b c Y -> emits_from a c (X ++ Y).
Proof.
  intros a b c X Y [H1 [H2 [H3 [H4 [H5 H6]]]]] [G1 [G2 [G3 [G4 [G5 G6]]]]].
  repeat split; try congruence.
  - rewrite G1, H1, rev_app_distr, app_assoc. reflexivity.
  - rewrite G2, H2, apply_all_app. reflexivity.
Qed.

Lemma emits_emit : forall s o, emits_from s (emit s o) [o].
Proof. intros. repeat split; reflexivity. Qed.

Lemma gc_copy_emits : forall ps s k wpos newoff dm s' n' dm',
  gc_copy s k ps wpos newoff dm = Some (s', n', dm') ->
  exists X, emits_from s s' X /\ Forall gc_side X /\ s_ptrs s' = s_ptrs s.
Proof.
  induction ps as [|p r IH]; intros s k wpos newoff dm s' n' dm' H; simpl in H.
  - inversion H; subst. exists []. split; [apply emits_refl|]. split; auto.
  - destruct (read_range s k (p_off p) (p_size p)) as [buf|]; [|discriminate].
    destruct buf as [|b0 buf0].
    + apply IH in H. exact H.
    + apply IH in H. destruct H as [X [HX [HF HP]]].
      exists (OWrite false (FGc k) wpos (b0 :: buf0) :: X). split; [|split].
      * change (OWrite false (FGc k) wpos (b0 :: buf0) :: X) with ([OWrite false (FGc k) wpos (b0 :: buf0)] ++ X).
        eapply emits_trans; [apply emits_emit|exact HX].
      * constructor; simpl; auto.
      * exact HP.
Qed.

Lemma gc_file_emits : forall s k s' ab,
  gc_file s k = (s', ab) ->
  exists X, emits_from s s' X /\
            (Forall gc_side X \/ exists Y, X = Y ++ swap_ops k /\ Forall gc_side Y).
Proof.
  intros s k s' ab H. unfold gc_file in H.
  match type of H with
  | (if ?c then _ else _) = _ => destruct c
  end.
  { inversion H; subst. exists []. split; [|left; constructor].
    destruct (nmem k (s_unop s)); repeat split; reflexivity. }
  set (s0 := set_unop s (nremove k (s_unop s))) in *.
  set (s1 := if fexists s0 (FGc k) then s0 else emit s0 (OCreate (FGc k))) in *.
  assert (H1 : exists X1, emits_from s s1 X1 /\ Forall gc_side X1).
  { unfold s1. destruct (fexists s0 (FGc k)).
    - exists []. split; [repeat split; reflexivity|constructor].
    - exists [OCreate (FGc k)]. split; [repeat split; reflexivity|repeat constructor]. }
  destruct H1 as [X1 [HE1 HS1]].
  destruct (gc_copy s1 k _ 0%N 0%N []) as [[[s2 n2] dm]|] eqn:Ec.
  2:{ inversion H; subst. exists X1. split; [exact HE1|left; exact HS1]. }
  destruct (gc_copy_emits _ _ _ _ _ _ _ _ _ Ec) as [X2 [HE2 [HS2 _]]].
  inversion H; subst s' ab. clear H.
  exists ((X1 ++ X2) ++ swap_ops k). split.
  - eapply emits_trans; [eapply emits_trans; eauto|].
    match goal with |- emits_from s2 (emit ?s6 ?o3) _ => idtac end.
    repeat split; try reflexivity.
    + simpl. match goal with |- context [if ?c then _ else _] => destruct c end; reflexivity.
    + simpl. match goal with |- context [if ?c then _ else _] => destruct c end; reflexivity.
    + simpl. match goal with |- context [if ?c then _ else _] => destruct c end; reflexivity.
    + simpl. match goal with |- context [if ?c then _ else _] => destruct c end; reflexivity.
    + simpl. match goal with |- context [if ?c then _ else _] => destruct c end; reflexivity.
    + simpl. match goal with |- context [if ?c then _ else _] => destruct c end; reflexivity.
  - right. exists (X1 ++ X2). split; auto. apply Forall_app; auto.
Qed.

Lemma gc_loop_emits : forall keys s s' ab,
  gc_loop s keys = (s', ab) ->
  exists X, emits_from s s' X /\ forall es, gc_shape es -> gc_shape (es ++ X).
Proof.
  induction keys as [|k r IH]; intros s s' ab H; simpl in H.
  - inversion H; subst. exists []. split; [apply emits_refl|]. intros es He. rewrite app_nil_r. exact He.
  - destruct (assoc (s_open s) k).
    + apply IH in H. exact H.
    + destruct (negb (fexists s (FData k))).
      * inversion H; subst. exists []. split; [apply emits_refl|]. intros es He. rewrite app_nil_r. exact He.
      * destruct (gc_file s k) as [s1 ab1] eqn:Ef.
        destruct (gc_file_emits _ _ _ _ Ef) as [X1 [HE1 HS1]].
        assert (Hsh : forall es, gc_shape es -> gc_shape (es ++ X1)).
        { intros es He. destruct HS1 as [HS|[Y [-> HY]]].
          - apply gc_shape_app_side; auto.
          - rewrite app_assoc. apply gc_shape_app_swap. apply gc_shape_app_side; auto. }
        destruct ab1.
        -- inversion H; subst. exists X1. split; auto.
        -- apply IH in H. destruct H as [X2 [HE2 HS2]].
           exists (X1 ++ X2). split; [eapply emits_trans; eauto|].
           intros es He. rewrite app_assoc. apply HS2. apply Hsh. exact He.
Qed.

(* window and view facts about the calls of a GC pass *)
Lemma gc_side_side : forall o, gc_side o -> side_op o.
Proof. intros o H. destruct o as [|f|b f off bs|f n|f g|f| |]; simpl in *; try contradiction; destruct f; simpl; auto. Qed.

Lemma side_wquiet : forall o, side_op o -> wquiet o.
Proof.
  intros o H w. destruct o as [|f|b f off bs|f n|f g|f| |]; simpl in H; try contradiction.
  - destruct f; simpl in H; try contradiction; reflexivity.
  - destruct f; simpl in H; try contradiction; reflexivity.
  - destruct f; simpl in H; try contradiction; reflexivity.
  - destruct H as [H1 H2]. destruct f; simpl in H1; try contradiction; destruct g; simpl in H2; try contradiction; reflexivity.
  - reflexivity.
  - reflexivity.
Qed.

Lemma gops_side : forall es fs, Forall side_op es -> gops (Some fs) es.
Proof.
  induction es as [|o r IH]; intros fs H; cbn [gops]; auto.
  inversion H; subst. split; [apply gop_side; auto|].
  assert (Hne : o <> ORenameDir) by (intros ->; simpl in H2; contradiction).
  rewrite apply_some by auto. apply IH. auto.
Qed.

Definition gcT (o : fsop) : Prop := gc_op o \/ exists n, o = OTrunc FIndex n.

Lemma gc_flag_step : forall w o, gcT o -> wi_gc w = true -> wi_gc (win_step w o) = true.
Proof.
  intros w o [H|[n ->]] Hw; [|simpl; exact Hw].
  destruct o as [|f|b f off bs|f n|f g|f| |]; simpl in H; try contradiction.
  - destruct f; try contradiction. simpl. exact Hw.
  - destruct f; try contradiction. simpl. exact Hw.
  - destruct f; try contradiction; destruct g; try contradiction; simpl; auto.
  - destruct f; try contradiction. simpl. exact Hw.
Qed.

Lemma gc_flag_fold : forall l w, Forall gcT l -> wi_gc w = true -> wi_gc (fold_left win_step l w) = true.
Proof.
  induction l as [|o r IH]; intros w H Hw; simpl; auto.
  inversion H; subst. apply IH; auto. apply gc_flag_step; auto.
Qed.

Lemma win_class_gc : forall w, wi_gc w = true -> win_class w <> 0%nat.
Proof.
  intros w H. unfold win_class. rewrite H.
  destruct (wi_dir w && negb (wi_meta w)); [discriminate|].
  destruct (wi_torn w); [discriminate|]. destruct (wi_trunc w); discriminate.
Qed.

Lemma win_torn_gc : forall w o, wi_gc (win_torn w o) = wi_gc w.
Proof. intros w o. destruct o as [|f|b f off bs|f n|f g|f| |]; simpl; auto. destruct f; reflexivity. Qed.

(* a call list that opens with a file swap and ends with the index WriteAt: every cut
   strictly inside it lies in the GC window *)
Lemma cuts_ok_gc_window : forall d w k r W,
  Forall gcT r ->
  cuts_ok d w ((ORename (FData k) (FTmp k) :: r) ++ [W]).
Proof.
  intros d w k r W Hr m t Hm Ht Hc.
  set (M := ORename (FData k) (FTmp k) :: r) in *.
  destruct m as [|m'].
  - left. destruct Ht as [->|[o [H1 H2]]]; [reflexivity|].
    simpl in H1. inversion H1; subst o. simpl in H2. lia.
  - destruct (Nat.le_gt_cases (S m') (length M)) as [Hle|Hgt].
    + exfalso. apply (win_class_gc (win_from w (M ++ [W]) (S m') t)); [|exact Hc].
      unfold win_from.
      assert (Hflag : wi_gc (fold_left win_step (firstn (S m') (M ++ [W])) w) = true).
      { rewrite firstn_app. replace (S m' - length M)%nat with 0%nat by lia. simpl firstn at 2.
        rewrite app_nil_r. unfold M. simpl firstn. simpl fold_left.
        apply gc_flag_fold; [|reflexivity].
        apply Forall_forall. intros o Ho. apply in_firstn in Ho.
        rewrite Forall_forall in Hr. auto. }
      destruct t; [exact Hflag|].
      destruct (nth_error (M ++ [W]) (S m')) as [o'|] eqn:En.
      * rewrite win_torn_gc. exact Hflag.
      * exact Hflag.
    + right. rewrite app_length in Hm. change (length [W]) with 1%nat in Hm.
      assert (Hl : S m' = length (M ++ [W])).
      { rewrite app_length. change (length [W]) with 1%nat. lia. }
      rewrite Hl. rewrite crash_image_end. reflexivity.
Qed.

Lemma gc_op_keeps_index : forall X fs, Forall gc_op X ->
  exists fsX, apply_all (Some fs) X = Some fsX /\ fget fsX FIndex = fget fs FIndex.
Proof.
  induction X as [|o r IH]; intros fs H.
  - exists fs. split; reflexivity.
  - inversion H; subst.
    assert (Hne : o <> ORenameDir) by (intros ->; simpl in H2; contradiction).
    rewrite apply_all_cons, apply_some by auto.
    destruct (IH (apply_files fs o) H3) as [fsX [H4 H5]].
    exists fsX. split; auto. rewrite H5. apply apply_files_untouched.
    destruct o as [|f|b f off bs|f n|f g|f| |]; simpl in *; try contradiction; auto.
    + destruct f; try contradiction; discriminate.
    + destruct f; try contradiction; discriminate.
    + destruct f; try contradiction; destruct g; try contradiction; intros [E|E]; discriminate.
    + destruct f; try contradiction; discriminate.
Qed.

Lemma gc_op_idxlen : forall X w, Forall gc_op X -> wi_idxlen (fold_left win_step X w) = wi_idxlen w.
Proof.
  induction X as [|o r IH]; intros w H; simpl; auto.
  inversion H; subst. rewrite IH by auto.
  destruct o as [|f|b f off bs|f n|f g|f| |]; simpl in H2; try contradiction.
  - destruct f; try contradiction; reflexivity.
  - destruct f; try contradiction; reflexivity.
  - destruct f; try contradiction; destruct g; try contradiction; reflexivity.
  - reflexivity.
Qed.

Lemma gc_cuts : forall fs w ib X P,
  index_ok (Some fs) -> fget fs FIndex = Some ib -> wi_idxlen w = N.of_nat (length ib) ->
  gc_shape X ->
  cuts_ok (Some fs) w (X ++ persist_ops P 0).
Proof.
  intros fs w ib X P Hok Hib Hw [A [B [-> [HA [HB Hc]]]]].
  assert (HAs : Forall side_op A) by (eapply Forall_impl; [apply gc_side_side|exact HA]).
  assert (HAg : gops (Some fs) A) by (apply gops_side; exact HAs).
  assert (HAsame : all_same (Some fs) A) by (apply gops_all_same; auto).
  assert (HAq : fold_left win_step A w = w).
  { apply wquiet_fold. eapply Forall_impl; [apply side_wquiet|exact HAs]. }
  assert (HAop : Forall gc_op A) by (eapply Forall_impl; [apply gc_side_op|exact HA]).
  destruct (gc_op_keeps_index A fs HAop) as [fsA [HfA HiA]].
  rewrite <- app_assoc.
  apply cuts_ok_app.
  - apply all_same_cuts_ok. exact HAsame.
  - rewrite HAq, HfA. destruct Hc as [->|[k [r ->]]].
    + simpl. eapply persist_pair_cuts.
      * rewrite HiA. exact Hib.
      * exact Hw.
      * lia.
      * reflexivity.
    + unfold persist_ops.
      change ((ORename (FData k) (FTmp k) :: r) ++
              [OTrunc FIndex (N.of_nat (length P) * ptr_size);
               OWrite true FIndex (N.of_nat 0 * ptr_size) (encode_ptrs (skipn 0 P))])
        with ((ORename (FData k) (FTmp k) :: r) ++
              ([OTrunc FIndex (N.of_nat (length P) * ptr_size)] ++
               [OWrite true FIndex (N.of_nat 0 * ptr_size) (encode_ptrs (skipn 0 P))])).
      rewrite app_assoc.
      change ((ORename (FData k) (FTmp k) :: r) ++ [OTrunc FIndex (N.of_nat (length P) * ptr_size)])
        with (ORename (FData k) (FTmp k) :: (r ++ [OTrunc FIndex (N.of_nat (length P) * ptr_size)])).
      apply cuts_ok_gc_window.
      apply Forall_app. split.
      * inversion HB; subst. eapply Forall_impl; [|exact H2]. intros o Ho. left. exact Ho.
      * constructor; [right; eexists; reflexivity|constructor].
  - left. apply all_same_end. exact HAsame.
Qed.

Lemma do_gc_good : forall s0 w s1 oc,
  Inv s0 w -> do_gc s0 = (s1, oc) -> do_good s0 w DGC s1 oc.
Proof.
  intros s0 w s1 oc HI Hdo Hleg.
  pose proof HI as [Hhead Hidx Hmem Hwr Hwidx Hnone].
  destruct (legal_post _ _ _ _ Hleg) as [Hwf' Hex'].
  destruct (legal_dir _ _ _ _ Hleg) as [fs [ib [Hfs Hib]]].
  assert (Hl3 : oc = ROk /\ forallb (inrb (s_fs (clear_out s1))) (s_ptrs (clear_out s1)) = true /\
                forallb (fun iw => N.leb (w_off (snd iw) + w_len (snd iw)) (flen (clear_out s1) (w_file (snd iw))))
                        (s_ws (clear_out s1)) = true).
  { unfold legal_step in Hleg. rewrite Hfs, Hib in Hleg.
    apply andb_true_iff in Hleg. destruct Hleg as [_ Hlast].
    apply andb_true_iff in Hlast. destruct Hlast as [Hlast H3].
    apply andb_true_iff in Hlast. destruct Hlast as [H1 H2].
    split; [|split; assumption]. destruct oc; simpl in H1; try discriminate. reflexivity. }
  destruct Hl3 as [-> [Hinr Hwle]].
  unfold do_gc in Hdo.
  set (sg := set_open s0 _) in Hdo.
  destruct (gc_loop sg (nseq1 (s_ctr sg))) as [sl ab] eqn:El.
  destruct ab; [inversion Hdo|].
  inversion Hdo; subst s1. clear Hdo.
  destruct (gc_loop_emits _ _ _ _ El) as [X [[Ho [Hf [Hh [Hw' _]]]] Hsh]].
  specialize (Hsh [] gc_shape_nil). simpl in Hsh.
  assert (Hfg : s_fs sg = s_fs s0) by reflexivity.
  assert (Hog : s_out sg = s_out s0) by reflexivity.
  assert (Hhg : s_head sg = s_head s0) by reflexivity.
  assert (Hwg : s_ws sg = s_ws s0) by reflexivity.
  destruct (persist_out sl O) as [Ho2 [Hf2 [Hp2 [Hh2 [Hw2 _]]]]].
  set (P := s_ptrs sl) in *.
  assert (HXop : Forall gc_op X).
  { destruct Hsh as [A [B [-> [HA [HB _]]]]]. apply Forall_app. split; auto.
    eapply Forall_impl; [apply gc_side_op|exact HA]. }
  destruct (gc_op_keeps_index X fs HXop) as [fsX [HfX HiX]].
  assert (Hw0 : wi_idxlen w = N.of_nat (length ib)).
  { rewrite Hwidx. unfold widx. rewrite Hfs. simpl. rewrite Hib. reflexivity. }
  rewrite Hfs in Hidx.
  assert (Hper : exists fs', apply_all (Some fsX) (persist_ops P 0) = Some fs' /\
                             fget fs' FIndex = Some (encode_ptrs P) /\
                             (forall f, f <> FIndex -> fget fs' f = fget fsX f)).
  { eapply persist_view; [rewrite HiX; exact Hib|lia|reflexivity]. }
  destruct Hper as [fs' [Ha [Hi' Hoth]]].
  assert (Hfinal : s_fs (persist sl 0) = Some fs').
  { rewrite Hf2, Hf, Hfg, Hfs, HfX. exact Ha. }
  exists (X ++ persist_ops P 0).
  split; [rewrite Ho2, Ho, Hog, rev_app_distr, app_assoc; reflexivity|].
  split; [rewrite Hf2, Hf, Hfg, apply_all_app; reflexivity|].
  split.
  - change (s_fs (clear_out (persist sl 0))) with (s_fs (persist sl 0)) in Hinr, Hwle.
    change (s_ptrs (clear_out (persist sl 0))) with (s_ptrs (persist sl 0)) in Hinr, Hwf'.
    rewrite forallb_forall in Hinr.
    constructor.
    + rewrite Hh2, Hh, Hhg. exact Hhead.
    + rewrite Hfinal. exists (s_ptrs (persist sl 0)). rewrite Hp2. split; [exact Hi'|].
      split; [rewrite <- Hp2; exact Hwf'|].
      intros p Hp. rewrite <- Hfinal. apply Hinr. rewrite Hp2. exact Hp.
    + unfold mem_inr. intros p Hp. apply Hinr. exact Hp.
    + unfold wr_ok. intros id x Hx.
      destruct (legal_wfile _ id x Hex' Hx) as [data Hd].
      change (s_fs (clear_out (persist sl 0))) with (s_fs (persist sl 0)) in Hd.
      exists data. split; auto.
      rewrite forallb_forall in Hwle. apply assoc_in in Hx. specialize (Hwle _ Hx). simpl in Hwle.
      apply N.leb_le in Hwle. unfold flen in Hwle.
      change (s_fs (clear_out (persist sl 0))) with (s_fs (persist sl 0)) in Hwle.
      rewrite Hd in Hwle. exact Hwle.
    + rewrite fold_left_app. rewrite persist_win_idx by lia.
      unfold widx. rewrite Hfinal. simpl. rewrite Hi'. reflexivity.
    + rewrite Hfinal. discriminate.
  - split; [rewrite Hfs; eapply gc_cuts; eauto|].
    intros _. rewrite Hfinal, Hp2. apply index_ok_disk; [exact Hi'|].
    change (s_ptrs (clear_out (persist sl 0))) with (s_ptrs (persist sl 0)) in Hwf'.
    rewrite Hp2 in Hwf'. exact Hwf'.
Qed.
