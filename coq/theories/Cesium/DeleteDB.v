(* Cesium/DeleteDB.v — cesium.DB.DeleteTimeRange on the database: the index-channel guard,
   the frame property (channels not named are untouched), and exactness of the deletion on
   the data channels named, stated on reads. *)
From Coq Require Import ZArith List Bool Lia.
From Synnax Require Import Cesium.Store Cesium.StoreProofs Cesium.IndexSearch Cesium.Distance
  Cesium.Stamp Cesium.DeleteModel Cesium.GCModel Cesium.DeleteBase Cesium.DeleteSearch
  Cesium.DeleteDistance Cesium.DeleteOffsets Cesium.DeleteContent Cesium.DeleteExact
  Cesium.ReadExact Cesium.GCProofs.
Import ListNotations.
Local Open Scope Z_scope.

(* ------------------------------------------------------------------ the database invariant *)
(* every channel is well formed and aligned with the stamps of its index channel; index keys
   name index channels; an index channel is its own index *)
Definition chan_in_db_ok (d : db) (k : Z) (c : chan) : Prop :=
  widx (index_doms d c) /\ chan_ok (allst (index_doms d c)) c /\
  (exists i, alookup (c_index c) d = Some i /\ c_isidx i = true) /\
  (c_isidx c = true -> c_index c = k).

Definition db_ok (d : db) : Prop :=
  forall k c, alookup k d = Some c -> chan_in_db_ok d k c.

(* the stored content of channel k: every sample with its stamp *)
Definition content_of (d : db) (k : Z) : list (Z * sample) :=
  match alookup k d with
  | Some c => content (allst (index_doms d c)) c
  | None => []
  end.

(* DB.Read for one channel with the iterator error exposed *)
Definition read_res (d : db) (k : Z) (b : tr) : res (list rseries) :=
  match alookup k d with
  | Some c => read_chan_res (index_doms d c) c b
  | None => Ok []
  end.

Definition stamps_of_db (d : db) (k : Z) : list Z :=
  match alookup k d with
  | Some c => allst (index_doms d c)
  | None => []
  end.

Lemma read_of_res d k b : read d k b = match read_res d k b with Ok l => l | Err _ => [] end.
Proof.
  unfold read, read_res. destruct (alookup k d); [apply read_chan_of_res|reflexivity].
Qed.

(* reads see the content: the samples stamped inside the requested range *)
Theorem read_res_content d k rs re l :
  db_ok d -> 0 <= rs < re -> re <= MAXTS -> read_res d k (TR rs re) = Ok l ->
  read_content (stamps_of_db d k) l = filter (inside_r rs re) (content_of d k).
Proof.
  intros Hok Hr HM. unfold read_res, stamps_of_db, content_of.
  destruct (alookup k d) as [c|] eqn:E.
  - destruct (Hok k c E) as (Hw & Hc & _). apply read_exact_ok; assumption.
  - intros [= <-]. reflexivity.
Qed.

(* ------------------------------------------------------------------ updating one channel *)
Lemma set_ptrs_static c ps :
  c_isidx (set_ptrs c ps) = c_isidx c /\ c_index (set_ptrs c ps) = c_index c /\
  c_var (set_ptrs c ps) = c_var c /\ c_dens (set_ptrs c ps) = c_dens c /\
  c_files (set_ptrs c ps) = c_files c.
Proof. repeat split. Qed.

Lemma dom_delete_shape fx P c t c' :
  dom_delete fx P c t = Ok c' -> exists ps, c' = set_ptrs c ps.
Proof.
  unfold dom_delete.
  destruct (usearch (doms c) (point (t_s t))) as [sd0 sx].
  destruct (negb sx && _); [intros [= <-]; exists (c_ptrs c); symmetry; apply set_ptrs_same|].
  destruct (znth (c_ptrs c) _) as [sp|]; [|discriminate].
  destruct (if sx then _ else _) as [[so a']|e]; simpl; [|discriminate].
  destruct (usearch (doms c) (point (t_e t))) as [ed ex].
  destruct (negb ex && _); [intros [= <-]; exists (c_ptrs c); symmetry; apply set_ptrs_same|].
  destruct (znth (c_ptrs c) ed) as [ep|]; [|discriminate].
  destruct (if ex then _ else _) as [[eo b']|e]; simpl; [|discriminate].
  destruct (validate_delete fx (c_ptrs c) _ ed so eo).
  - intros [= <-]. exists (c_ptrs c). symmetry. apply set_ptrs_same.
  - intros [= <-]. eexists. reflexivity.
  - discriminate.
Qed.

Lemma unary_delete_shape fx P c t c' :
  unary_delete fx P c t = Ok c' -> exists ps, c' = set_ptrs c ps.
Proof.
  unfold unary_delete. destruct (negb (tr_valid t)); [discriminate|].
  destruct (tr_is_zero t); [discriminate|]. apply dom_delete_shape.
Qed.

Lemma tr_valid_le a b : - 9223372036854775808 <= b - a < 9223372036854775808 ->
  tr_valid (TR a b) = true -> a <= b.
Proof. unfold tr_valid, tspan. simpl. intros _ H. apply Z.leb_le in H. lia. Qed.

(* replacing a data channel does not change any channel's index *)
Lemma index_doms_aset d k c c' x :
  alookup k d = Some c -> c_isidx c = false ->
  (exists i, alookup (c_index x) d = Some i /\ c_isidx i = true) ->
  index_doms (aset k c' d) x = index_doms d x.
Proof.
  intros Hk Hdata (i & Hi & Hix). unfold index_doms.
  assert (Hne : c_index x <> k) by (intros Heq; rewrite Heq, Hk in Hi; inversion Hi; subst; congruence).
  rewrite alookup_aset_ne by exact Hne. reflexivity.
Qed.

Lemma filter_filter_same {A} (f : A -> bool) l : filter f (filter f l) = filter f l.
Proof.
  induction l as [|x l IH]; simpl; [reflexivity|].
  destruct (f x) eqn:E; simpl; rewrite ?E, IH; reflexivity.
Qed.

(* ------------------------------------------------------------------ deleting from data channels *)
(* one data channel *)
Lemma delete_one_data d k c a b d' :
  db_ok d -> alookup k d = Some c -> c_isidx c = false ->
  delete_one true d k (TR a b) = Ok d' ->
  db_ok d' /\ (forall k', alookup k' d' <> None <-> alookup k' d <> None) /\
  (forall k' x, alookup k' d' = Some x -> index_doms d' x = match alookup k' d with Some y => index_doms d y | None => [] end) /\
  (forall k', k' <> k -> alookup k' d' = alookup k' d) /\
  content_of d' k = filter (outside_ab a b) (content_of d k) /\
  (exists c', alookup k d' = Some c' /\ c_isidx c' = false).
Proof.
  intros Hok Hk Hdata. unfold delete_one. rewrite Hk.
  destruct (unary_delete true (index_doms d c) c (TR a b)) as [c'|e] eqn:Eu; simpl; [|discriminate].
  intros [= <-].
  destruct (unary_delete_shape _ _ _ _ _ Eu) as [ps Hc']. 
  destruct (Hok k c Hk) as (Hw & Hc & Hix & Hself).
  unfold unary_delete in Eu. destruct (negb (tr_valid (TR a b))) eqn:Ev; [discriminate|].
  destruct (tr_is_zero (TR a b)); [discriminate|].
  assert (Hab : a <= b).
  { apply negb_false_iff in Ev. unfold tr_valid, tspan in Ev. simpl in Ev. apply Z.leb_le in Ev. lia. }
  destruct (dom_delete_exact (index_doms d c) c a b c' Hw Hc Hab Eu) as (Hc'ok & Hcont & _).
  assert (Hstat : c_isidx c' = c_isidx c /\ c_index c' = c_index c) by (subst c'; split; reflexivity).
  destruct Hstat as [Hs1 Hs2].
  assert (Hidx : forall y x, alookup y d = Some x -> index_doms (aset k c' d) x = index_doms d x).
  { intros y x Hy. destruct (Hok y x Hy) as (_ & _ & Hix' & _). eapply index_doms_aset; eauto. }
  assert (Hidx' : index_doms (aset k c' d) c' = index_doms d c).
  { unfold index_doms. rewrite Hs2. destruct Hix as (i & Hi & Hii).
    assert (c_index c <> k) by (intros Heq; rewrite Heq, Hk in Hi; inversion Hi; subst; congruence).
    rewrite alookup_aset_ne by assumption. reflexivity. }
  split; [|split; [|split; [|split; [|split]]]].
  - (* the invariant *)
    intros y x Hy. destruct (Z.eq_dec y k) as [->|Hne].
    + rewrite alookup_aset_eq in Hy. inversion Hy; subst x. unfold chan_in_db_ok.
      rewrite Hidx'. split; [exact Hw|]. split; [exact Hc'ok|]. split.
      * destruct Hix as (i & Hi & Hii). rewrite Hs2. exists i. split; [|exact Hii].
        assert (c_index c <> k) by (intros Heq; rewrite Heq, Hk in Hi; inversion Hi; subst; congruence).
        rewrite alookup_aset_ne by assumption. exact Hi.
      * rewrite Hs1. congruence.
    + rewrite alookup_aset_ne in Hy by exact Hne. destruct (Hok y x Hy) as (Hw' & Hc'' & Hix' & Hself').
      unfold chan_in_db_ok. rewrite (Hidx y x Hy). split; [exact Hw'|]. split; [exact Hc''|]. split; [|exact Hself'].
      destruct Hix' as (i & Hi & Hii). exists i. split; [|exact Hii].
      assert (c_index x <> k) by (intros Heq; rewrite Heq, Hk in Hi; inversion Hi; subst; congruence).
      rewrite alookup_aset_ne by assumption. exact Hi.
  - intros k'. destruct (Z.eq_dec k' k) as [->|Hne].
    + rewrite alookup_aset_eq, Hk. split; intros _; discriminate.
    + rewrite alookup_aset_ne by exact Hne. reflexivity.
  - intros k' x Hx. destruct (Z.eq_dec k' k) as [->|Hne].
    + rewrite alookup_aset_eq in Hx. inversion Hx; subst x. rewrite Hk. exact Hidx'.
    + rewrite alookup_aset_ne in Hx by exact Hne. rewrite Hx. apply (Hidx k' x Hx).
  - intros k' Hne. apply alookup_aset_ne. exact Hne.
  - unfold content_of. rewrite alookup_aset_eq, Hk, Hidx'. exact Hcont.
  - exists c'. split; [apply alookup_aset_eq|congruence].
Qed.

Definition is_data (d : db) (k : Z) : Prop := exists c, alookup k d = Some c /\ c_isidx c = false.

Lemma content_of_same d d' k :
  alookup k d' = alookup k d ->
  (forall x, alookup k d' = Some x -> index_doms d' x = index_doms d x) ->
  content_of d' k = content_of d k /\ stamps_of_db d' k = stamps_of_db d k.
Proof.
  intros E Hi. unfold content_of, stamps_of_db. rewrite E in *.
  destruct (alookup k d) as [x|]; [|auto]. rewrite (Hi x eq_refl). auto.
Qed.

(* several data channels, in the order of the call *)
Lemma delete_data_ok a b : forall ks d d',
  db_ok d -> (forall k, In k ks -> is_data d k) ->
  delete_data true d ks (TR a b) = (d', None) ->
  db_ok d' /\
  (forall k, content_of d' k = if existsb (Z.eqb k) ks then filter (outside_ab a b) (content_of d k)
                               else content_of d k) /\
  (forall k, stamps_of_db d' k = stamps_of_db d k) /\
  (forall k, alookup k d' <> None <-> alookup k d <> None) /\
  (forall k, ~ In k ks -> alookup k d' = alookup k d).
Proof.
  induction ks as [|k ks IH]; intros d d' Hok Hdata; simpl.
  - intros [= <-]. split; [exact Hok|]. split; [intros; reflexivity|]. split; [intros; reflexivity|].
    split; [intros; tauto|intros; reflexivity].
  - destruct (Hdata k (or_introl eq_refl)) as (c & Hk & Hc).
    destruct (delete_one true d k (TR a b)) as [d1|e] eqn:E1; [|discriminate].
    destruct (delete_one_data d k c a b d1 Hok Hk Hc E1) as (Hok1 & Hkeys1 & Hidx1 & Hoth1 & Hcont1 & (c1 & Hk1 & Hc1)).
    intros Hrest.
    assert (Hdata1 : forall k', In k' ks -> is_data d1 k').
    { intros k' Hk'. destruct (Z.eq_dec k' k) as [->|Hne]; [exists c1; auto|].
      destruct (Hdata k' (or_intror Hk')) as (x & Hx & Hxd). exists x. rewrite Hoth1 by exact Hne. auto. }
    destruct (IH d1 d' Hok1 Hdata1 Hrest) as (Hok' & Hcont' & Hst' & Hkeys' & Hoth').
    (* facts about the first step, per channel *)
    assert (Hstep : forall k', stamps_of_db d1 k' = stamps_of_db d k' /\
               content_of d1 k' = if k' =? k then filter (outside_ab a b) (content_of d k') else content_of d k').
    { intros k'. destruct (k' =? k) eqn:Ek.
      - apply Z.eqb_eq in Ek. subst k'. split; [|exact Hcont1].
        unfold stamps_of_db. rewrite Hk1, Hk. rewrite (Hidx1 k c1 Hk1), Hk. reflexivity.
      - apply Z.eqb_neq in Ek.
        destruct (content_of_same d d1 k' (Hoth1 k' Ek)) as [A B]; [|auto].
        intros x Hx. rewrite (Hidx1 k' x Hx). rewrite <- (Hoth1 k' Ek), Hx. reflexivity. }
    split; [exact Hok'|]. split; [|split; [|split]].
    + intros k'. rewrite Hcont'. destruct (Hstep k') as [_ Hc1']. rewrite Hc1'.
      destruct (k' =? k) eqn:Ek; simpl.
      * destruct (existsb (Z.eqb k') ks); [apply filter_filter_same|reflexivity].
      * reflexivity.
    + intros k'. rewrite Hst'. apply Hstep.
    + intros k'. rewrite Hkeys'. apply Hkeys1.
    + intros k' Hnin. rewrite Hoth' by (intros H; apply Hnin; right; exact H).
      apply Hoth1. intros ->. apply Hnin. left. reflexivity.
Qed.

(* ------------------------------------------------------------------ classification *)
Lemma classify_spec d : forall chs ix da,
  classify d chs = Some (ix, da) ->
  (forall k, In k da -> is_data d k) /\
  (forall k, In k ix -> exists c, alookup k d = Some c /\ c_isidx c = true) /\
  (forall k, In k chs <-> In k ix \/ In k da).
Proof.
  induction chs as [|k chs IH]; intros ix da; simpl.
  - intros [= <- <-]. repeat split; try (intros ? []); tauto.
  - destruct (alookup k d) as [c|] eqn:Ek; [|discriminate].
    destruct (classify d chs) as [[ix' da']|]; [|discriminate].
    destruct (IH ix' da' eq_refl) as (A & B & C).
    destruct (c_isidx c) eqn:Ec; intros [= <- <-].
    + split; [exact A|]. split.
      * intros k' [<-|Hk']; [exists c; auto|apply B; exact Hk'].
      * intros k'. simpl. rewrite C. tauto.
    + split.
      * intros k' [<-|Hk']; [exists c; auto|apply A; exact Hk'].
      * split; [exact B|]. intros k'. simpl. rewrite C. tauto.
Qed.

(* an unknown channel: nothing is deleted *)
Lemma delete_unknown_channel fx d chs t :
  classify d chs = None -> delete_time_range fx d chs t = (d, Some ENotFound).
Proof. intros H. unfold delete_time_range. rewrite H. reflexivity. Qed.

Lemma classify_none d chs :
  (exists k, In k chs /\ alookup k d = None) -> classify d chs = None.
Proof.
  induction chs as [|k chs IH]; intros (k' & Hin & Hk'); [contradiction|]. simpl.
  destruct Hin as [->|Hin].
  - rewrite Hk'. reflexivity.
  - rewrite IH by eauto. destruct (alookup k d); reflexivity.
Qed.

(* ------------------------------------------------------------------ the index-channel guard *)
(* refused exactly when a dependant has data for the range; the refusal changes nothing more *)
Theorem index_guard fx d k r t :
  delete_index fx d (k :: r) t =
  if dependants_have_data d k t then (d, Some EConflict)
  else match delete_one fx d k t with
       | Ok d' => delete_index fx d' r t
       | Err e => (d, Some e)
       end.
Proof. reflexivity. Qed.

(* channels that are not named are never modified, whatever the outcome *)
Lemma delete_one_other fx d k t d' k' : delete_one fx d k t = Ok d' -> k' <> k -> alookup k' d' = alookup k' d.
Proof.
  unfold delete_one. destruct (alookup k d) as [c|]; [|intros [= <-]; reflexivity].
  destruct (unary_delete fx (index_doms d c) c t); simpl; [|discriminate].
  intros [= <-] Hne. apply alookup_aset_ne. exact Hne.
Qed.

Lemma delete_data_other fx t k' : forall ks d d' e,
  delete_data fx d ks t = (d', e) -> ~ In k' ks -> alookup k' d' = alookup k' d.
Proof.
  induction ks as [|k ks IH]; intros d d' e; simpl.
  - intros [= <- _]. reflexivity.
  - destruct (delete_one fx d k t) as [d1|e1] eqn:E1.
    + intros H Hnin. rewrite (IH d1 d' e H) by (intros Hi; apply Hnin; right; exact Hi).
      eapply delete_one_other; [exact E1|]. intros ->. apply Hnin. left. reflexivity.
    + intros [= <- _] _. reflexivity.
Qed.

Lemma delete_index_other fx t k' : forall ks d d' e,
  delete_index fx d ks t = (d', e) -> ~ In k' ks -> alookup k' d' = alookup k' d.
Proof.
  induction ks as [|k ks IH]; intros d d' e; simpl.
  - intros [= <- _]. reflexivity.
  - destruct (dependants_have_data d k t); [intros [= <- _]; reflexivity|].
    destruct (delete_one fx d k t) as [d1|e1] eqn:E1.
    + intros H Hnin. rewrite (IH d1 d' e H) by (intros Hi; apply Hnin; right; exact Hi).
      eapply delete_one_other; [exact E1|]. intros ->. apply Hnin. left. reflexivity.
    + intros [= <- _] _. reflexivity.
Qed.

Theorem delete_frame fx d chs t d' e k :
  delete_time_range fx d chs t = (d', e) -> ~ In k chs -> alookup k d' = alookup k d.
Proof.
  unfold delete_time_range. destruct (classify d chs) as [[ix da]|] eqn:Ec; [|intros [= <- _]; reflexivity].
  destruct (classify_spec d chs ix da Ec) as (_ & _ & Hin).
  destruct (delete_data fx d da t) as [d1 [e1|]] eqn:Ed.
  - intros [= <- _] Hnin. eapply delete_data_other; eauto. intros H. apply Hnin. apply Hin. auto.
  - intros Hi Hnin. rewrite (delete_index_other fx t k ix d1 d' e Hi) by (intros H; apply Hnin; apply Hin; auto).
    eapply delete_data_other; eauto. intros H. apply Hnin. apply Hin. auto.
Qed.

(* ------------------------------------------------------------------ the statement on reads *)
Lemma classify_all_data d : forall chs,
  (forall k, In k chs -> is_data d k) -> classify d chs = Some ([], chs).
Proof.
  induction chs as [|k chs IH]; intros H; simpl; [reflexivity|].
  destruct (H k (or_introl eq_refl)) as (c & Hk & Hc). rewrite Hk, IH, Hc by (intros; apply H; right; assumption).
  reflexivity.
Qed.

Lemma filter_comm {A} (f g : A -> bool) l : filter f (filter g l) = filter g (filter f l).
Proof.
  induction l as [|x l IH]; simpl; [reflexivity|].
  destruct (f x) eqn:Ef, (g x) eqn:Eg; simpl; rewrite ?Ef, ?Eg, IH; reflexivity.
Qed.

(* DeleteTimeRange over data channels: the invariant is kept, the content of every named
   channel loses exactly the samples stamped in [a,b), everything else is untouched *)
Theorem delete_data_channels_exact d chs a b d' :
  db_ok d -> (forall k, In k chs -> is_data d k) ->
  delete_time_range true d chs (TR a b) = (d', None) ->
  db_ok d' /\
  (forall k, content_of d' k = if existsb (Z.eqb k) chs then filter (outside_ab a b) (content_of d k)
                               else content_of d k) /\
  (forall k, stamps_of_db d' k = stamps_of_db d k) /\
  (forall k, ~ In k chs -> alookup k d' = alookup k d).
Proof.
  intros Hok Hdata. unfold delete_time_range. rewrite (classify_all_data d chs Hdata).
  destruct (delete_data true d chs (TR a b)) as [d1 [e|]] eqn:Ed; [discriminate|].
  simpl. intros [= <-].
  destruct (delete_data_ok a b chs d d1 Hok Hdata Ed) as (A & B & C & _ & E). auto.
Qed.

(* ... and on reads: whenever the reads before and after succeed, the (stamp, sample) pairs
   read after the deletion are those read before minus the pairs stamped in [a,b) for a named
   channel, and the same pairs for any other channel, for every range [rs, re) *)
Theorem reads_after_delete d chs a b d' k rs re l l' :
  db_ok d -> (forall k, In k chs -> is_data d k) ->
  delete_time_range true d chs (TR a b) = (d', None) ->
  0 <= rs < re -> re <= MAXTS ->
  read_res d k (TR rs re) = Ok l -> read_res d' k (TR rs re) = Ok l' ->
  read_content (stamps_of_db d' k) l' =
  if existsb (Z.eqb k) chs then filter (outside_ab a b) (read_content (stamps_of_db d k) l)
  else read_content (stamps_of_db d k) l.
Proof.
  intros Hok Hdata Hdel Hr HM Hl Hl'.
  destruct (delete_data_channels_exact d chs a b d' Hok Hdata Hdel) as (Hok' & Hcont & Hst & _).
  rewrite (read_res_content d' k rs re l' Hok' Hr HM Hl'), (read_res_content d k rs re l Hok Hr HM Hl).
  rewrite Hcont. destruct (existsb (Z.eqb k) chs); [apply filter_comm|reflexivity].
Qed.

(* ------------------------------------------------------------------ the guard, on samples *)
Lemma content_in_ptr G c ts s :
  In (ts, s) (content G c) -> exists p, In p (c_ptrs c) /\ t_s (p_tr p) <= ts < t_e (p_tr p).
Proof.
  unfold content. intros H. apply in_flat_map in H as (p & Hp & Hin). exists p. split; [exact Hp|].
  unfold ptr_content in Hin. apply in_combine_l in Hin. apply stamps_in_range in Hin. exact Hin.
Qed.

Lemma alookup_in {A} k (v : A) l : alookup k l = Some v -> In (k, v) l.
Proof.
  induction l as [|[k' v'] l IH]; simpl; [discriminate|].
  destruct (k =? k') eqn:E; [apply Z.eqb_eq in E; intros [= ->]; left; congruence|intros H; right; auto].
Qed.

(* a channel holding a sample stamped in [a,b) "has data for" [a,b) *)
Lemma has_data_of_point G c a b ts p :
  chan_ok G c -> a < b -> In p (c_ptrs c) -> t_s (p_tr p) <= ts < t_e (p_tr p) -> a <= ts < b ->
  dom_has_data_for c (TR a b) = true.
Proof.
  intros Hok Hab Hp Hr Hts.
  assert (Hs : sorted_ptrs (c_ptrs c)) by apply Hok.
  pose proof (sdoms_doms c Hs) as Hsd.
  destruct (sorted_ptrs_index _ Hs) as [Hne Hord].
  assert (Hrng : forall q, In q (c_ptrs c) -> 0 <= t_s (p_tr q) /\ t_e (p_tr q) <= MAXTS /\ t_s (p_tr q) < t_e (p_tr q)).
  { intros q Hq. pose proof (ok_rng G c Hok) as H1. rewrite Forall_forall in H1. destruct (H1 q Hq).
    pose proof (sorted_ptrs_nonempty _ Hs) as H2. rewrite Forall_forall in H2. pose proof (H2 q Hq). lia. }
  assert (Hbounds : forall q, In q (c_ptrs c) -> overlaps (p_tr q) (TR 0 MAXTS) = true).
  { intros q Hq. destruct (Hrng q Hq) as (A & B & C). rewrite overlaps_ne by (unfold MAXTS in *; lia).
    apply Z.ltb_lt. unfold MAXTS in *. lia. }
  unfold dom_has_data_for, di_open. simpl t_s.
  apply In_znth in Hp as [ip Hip].
  destruct (usearch (doms c) (point a)) as [j ex] eqn:Eu.
  pose proof (usearch_point (doms c) a Hsd) as Hu. rewrite Eu in Hu.
  assert (Hgoal : forall q pre rest, In q (c_ptrs c) -> doms c = pre ++ dom_of c q :: rest ->
            di_seek_ge (doms c) (DI (TR 0 MAXTS) 0 zero_dom false) a = (DI (TR 0 MAXTS) (zlen pre) (dom_of c q) true, true) ->
            overlaps (p_tr q) (TR a b) = true ->
            (let '(i1, ok1) := di_seek_ge (doms c) (DI (TR 0 MAXTS) 0 zero_dom false) a in
             if ok1 && overlaps (di_tr i1) (TR a b) then true
             else let '(i2, ok2) := di_seek_le (doms c) (DI (TR 0 MAXTS) 0 zero_dom false) b in
                  ok2 && overlaps (di_tr i2) (TR a b)) = true).
  { intros q pre rest Hq HD Hseek Ho. rewrite Hseek. unfold di_tr. simpl. rewrite Ho. reflexivity. }
  destruct ex; simpl in Hu.
  - destruct Hu as (dq & Hdq & Hinq). apply doms_znth_inv in Hdq as (q & Hq & ->).
    destruct (widx_find (doms c) j (dom_of c q) (doms_znth c j q Hq)) as (pre & rest & HD & Hl).
    pose proof (znth_In _ _ _ Hq) as Hqin.
    apply (Hgoal q pre rest Hqin HD).
    + apply (seek_ge_inside (doms c) pre (dom_of c q) rest); auto. simpl. apply Hbounds. exact Hqin.
    + destruct (Hrng q Hqin) as (_ & _ & C). unfold dom_s, dom_e in Hinq. simpl in Hinq.
      rewrite overlaps_ne by lia. apply Z.ltb_lt. lia.
  - destruct Hu as (Hj & Hbefore & Hafter).
    (* p lies after position j *)
    assert (Hjp : j < ip).
    { destruct (Z_lt_le_dec j ip); [assumption|exfalso].
      pose proof (Hbefore ip (dom_of c p) (doms_znth c ip p Hip) ltac:(lia)) as H. unfold dom_e in H. simpl in H. lia. }
    pose proof (znth_Some _ _ _ Hip) as Hipr.
    destruct (znth_in_range (c_ptrs c) (j + 1) ltac:(lia)) as [q Hq].
    pose proof (znth_In _ _ _ Hq) as Hqin.
    destruct (widx_find (doms c) (j + 1) (dom_of c q) (doms_znth c _ q Hq)) as (pre & rest & HD & Hl).
    pose proof (Hafter (j + 1) (dom_of c q) (doms_znth c _ q Hq) ltac:(lia)) as Haq. unfold dom_s in Haq. simpl in Haq.
    assert (Hqp : t_s (p_tr q) <= t_s (p_tr p)).
    { destruct (Z.eq_dec (j + 1) ip) as [Heq|Hne2]; [rewrite Heq, Hip in Hq; inversion Hq; lia|].
      pose proof (Hord (j + 1) ip q p Hq Hip ltac:(lia)). destruct (Hrng q Hqin) as (_ & _ & C). lia. }
    apply (Hgoal q pre rest Hqin HD).
    + unfold di_seek_ge, search_ge. cbn [di_b di_cur]. rewrite Eu.
      assert (HzD : zlen (doms c) = zlen (c_ptrs c)) by (unfold doms, zlen; rewrite map_length; reflexivity).
      destruct (j =? zlen (doms c)) eqn:E0; [apply Z.eqb_eq in E0; lia|].
      rewrite (di_reload_at (doms c) (TR 0 MAXTS) (j + 1) zero_dom (dom_of c q) (doms_znth c _ q Hq) ltac:(lia)).
      simpl d_tr. rewrite (Hbounds q Hqin). rewrite <- Hl. reflexivity.
    + destruct (Hrng q Hqin) as (_ & _ & C). rewrite overlaps_ne by lia. apply Z.ltb_lt. lia.
Qed.

Lemma has_data_of_sample G c a b ts s :
  chan_ok G c -> a < b -> In (ts, s) (content G c) -> a <= ts < b ->
  dom_has_data_for c (TR a b) = true.
Proof.
  intros Hok Hab Hin Hts. destruct (content_in_ptr G c ts s Hin) as (p & Hp & Hr).
  eapply has_data_of_point; eauto.
Qed.

(* conversely: a channel that has no data for [a,b) has no domain overlapping it *)
Lemma no_data_no_overlap G c a b p :
  chan_ok G c -> a < b -> dom_has_data_for c (TR a b) = false -> In p (c_ptrs c) ->
  t_e (p_tr p) <= a \/ b <= t_s (p_tr p).
Proof.
  intros Hok Hab Hno Hp.
  destruct (Z_le_gt_dec (t_e (p_tr p)) a) as [H1|H1]; [left; exact H1|].
  destruct (Z_le_gt_dec b (t_s (p_tr p))) as [H2|H2]; [right; exact H2|]. exfalso.
  assert (Hne : t_s (p_tr p) < t_e (p_tr p)).
  { pose proof (sorted_ptrs_nonempty _ (wf_sorted c (ok_wf G c Hok))) as Hn. rewrite Forall_forall in Hn. auto. }
  pose proof (has_data_of_point G c a b (Z.max (t_s (p_tr p)) a) p Hok Hab Hp ltac:(lia) ltac:(lia)). congruence.
Qed.

(* a dependant with a sample in [a,b): the index channel's deletion is refused *)
Theorem index_guard_on_samples d k k' c' a b ts s r fx :
  db_ok d -> alookup k' d = Some c' -> k' <> k -> c_index c' = k -> a < b ->
  In (ts, s) (content_of d k') -> a <= ts < b ->
  delete_index fx d (k :: r) (TR a b) = (d, Some EConflict).
Proof.
  intros Hok Hk' Hne Hix Hab Hin Hts. rewrite index_guard.
  assert (Hdep : dependants_have_data d k (TR a b) = true).
  { unfold dependants_have_data. apply existsb_exists. exists (k', c'). split; [apply alookup_in; exact Hk'|].
    simpl. destruct (k' =? k) eqn:E; [apply Z.eqb_eq in E; contradiction|]. rewrite Hix, Z.eqb_refl. simpl.
    unfold has_data_for. apply orb_true_iff. right.
    destruct (Hok k' c' Hk') as (_ & Hc & _). unfold content_of in Hin. rewrite Hk' in Hin.
    eapply has_data_of_sample; eauto. }
  rewrite Hdep. reflexivity.
Qed.
