(* Cesium/ReadProofs.v — SeekFirst puts the view where the stored content of the bounds begins;
   a forward traversal from it visits every in-bounds sample exactly once; DB.Read of a channel
   (SeekFirst; Next(TimeSpanMax)...) returns exactly the stored samples of the range. *)
From Coq Require Import ZArith List Bool Lia Sorting.Sorted.
From Synnax Require Import Cesium.LayoutOk Cesium.Store Cesium.StoreProofs Cesium.IndexSearch Cesium.IndexSearchProofs
     Cesium.Distance Cesium.Stamp Cesium.DomIterProofs Cesium.UnaryIter Cesium.UnaryIterViews
     Cesium.DistanceProofs Cesium.UnaryIterExact Cesium.SliceProofs Cesium.UnaryIterSpec Cesium.Read
     Cesium.UnaryIterViewsRun Cesium.UnaryIterRun Cesium.TruthProofs Cesium.UnaryWrite.
Import ListNotations.
Local Open Scope Z_scope.

Lemma last_default {A} (l : list A) x d1 d2 : last (x :: l) d1 = last (x :: l) d2.
Proof. revert x. induction l as [|y l IH]; intros x; [reflexivity|]. cbn [last] in *. apply IH. Qed.

Section Reads.
Variable P D : list dom.
Variable var : bool.
Variable chunk : Z.
Hypothesis HL : layout_ok P D.

Notation truth := (layout_assoc P D).

Lemma HD : lay D. Proof. apply HL. Qed.
Lemma Htruth_asc : asc truth. Proof. apply layout_assoc_asc; apply HL. Qed.

(* ---- SeekFirst ---- *)
Lemma seek_first_spec i : inv i -> u_err i = None \/ True ->
  let i0 := fst (u_seek_first D i) in
  let b := u_b i in
  inv i0 /\ u_b i0 = b /\ u_err i0 = None /\ u_frame i0 = [] /\
  exists p0, u_view i0 = TR p0 p0 /\ t_s b <= p0 <= t_e b /\ read_spec truth (TR (t_s b) p0) = [].
Proof.
  intros (Hs & Hb) _. cbv zeta. destruct Hb as (V1 & V2 & V3).
  unfold u_seek_first, di_seek_first.
  pose proof (seek_ge_b D (u_di i) (t_s (di_b (u_di i)))) as SB.
  pose proof (seek_ge_spec D (u_di i) (t_s (di_b (u_di i))) HD) as SG. cbv zeta in SG.
  unfold synced in Hs. rewrite Hs in *.
  set (k := dcnt (t_s (u_b i)) D) in *.
  assert (ENDED : forall j d, znth D j = Some d -> j < k -> t_e (d_tr d) <= t_s (u_b i))
    by (intros j d Hj Hlt; apply (lay_dcnt D (t_s (u_b i)) HD j d Hj); exact Hlt).
  destruct (di_seek_ge D (u_di i) (t_s (u_b i))) as [dd ok] eqn:SEEK. cbn [fst snd] in *.
  assert (COMMON : inv (u_seek_reset (u_set_di i dd) (t_s (bound_by (di_tr dd) (u_b i)))) /\
                   u_b (u_seek_reset (u_set_di i dd) (t_s (bound_by (di_tr dd) (u_b i)))) = u_b i).
  { split; [|reflexivity]. split; [unfold synced, u_seek_reset, u_set_di; cbn; rewrite SB; reflexivity|].
    unfold u_seek_reset, u_set_di. cbn. repeat split; assumption. }
  destruct COMMON as (I0 & B0). split; [exact I0|]. split; [exact B0|].
  split; [reflexivity|]. split; [reflexivity|].
  exists (t_s (bound_by (di_tr dd) (u_b i))).
  split; [unfold u_seek_reset; cbn [u_view]; apply point_eq|].
  destruct (bound_by_spec (di_tr dd) (u_b i) V2) as (A1 & A2 & _).
  split; [lia|].
  (* nothing stored between the start of the bounds and the view *)
  destruct (znth D k) as [p|] eqn:Hk.
  - pose proof (lay_nth_wf D HD _ _ Hk) as Wp. unfold dwf in Wp.
    destruct (overlaps (d_tr p) (u_b i)) eqn:Ob.
    + inversion SG; subst dd ok. unfold di_tr. cbn [di_cur].
      destruct (Z.eq_dec (t_s (u_b i)) (t_e (u_b i))) as [Eb|Nb].
      * apply read_spec_empty. cbn [t_s t_e]. destruct (bound_by_spec (d_tr p) (u_b i) V2) as (a1 & a2 & _). lia.
      * rewrite (overlaps_nonempty (d_tr p) (u_b i) Wp ltac:(lia)) in Ob. apply Z.ltb_lt in Ob.
        rewrite bound_by_inter by lia. cbn [t_s].
        destruct (Z_le_gt_dec (t_s (d_tr p)) (t_s (u_b i))) as [Hle|Hgt].
        -- apply read_spec_empty. cbn [t_s t_e]. lia.
        -- rewrite Z.max_l by lia. apply (read_spec_no_domain P D _ HD). cbn [t_s t_e].
           intros d Hd. destruct (In_znth_lt _ _ Hd) as (j & Rj & Hj).
           destruct (Z_lt_ge_dec j k) as [Hjk|Hjk]; [right; apply (ENDED j d Hj Hjk)|left].
           destruct (Z.eq_dec j k) as [->|Njk]; [assert (d = p) by congruence; subst; lia|].
           destruct (lay_nth D HD k j p d Hk Hj ltac:(lia)) as (X1 & X2 & X3). lia.
    + (* no domain of D overlaps the bounds at all *)
      apply (read_spec_no_domain P D _ HD). cbn [t_s t_e].
      assert (Hpe : t_s (u_b i) < t_e (d_tr p)).
      { destruct (Z_lt_ge_dec (t_s (u_b i)) (t_e (d_tr p))); [assumption|].
        assert (k < k) by (apply (lay_dcnt D (t_s (u_b i)) HD k p Hk); lia). lia. }
      intros d Hd. destruct (In_znth_lt _ _ Hd) as (j & Rj & Hj).
      destruct (Z_lt_ge_dec j k) as [Hjk|Hjk]; [right; apply (ENDED j d Hj Hjk)|left].
      assert (Hps : t_e (u_b i) <= t_s (d_tr p)).
      { destruct (Z.eq_dec (t_s (u_b i)) (t_e (u_b i))) as [Eb|Nb].
        - rewrite (overlaps_valid (d_tr p) (u_b i) Wp V2) in Ob.
          destruct (t_s (u_b i) =? t_e (u_b i)) eqn:Q; zb; [|lia].
          unfold contains_stamp in Ob. apply andb_false_iff in Ob. destruct Ob; zb; lia.
        - rewrite (overlaps_nonempty (d_tr p) (u_b i) Wp ltac:(lia)) in Ob. apply Z.ltb_ge in Ob. lia. }
      destruct (Z.eq_dec j k) as [->|Njk]; [assert (d = p) by congruence; subst; lia|].
      destruct (lay_nth D HD k j p d Hk Hj ltac:(lia)) as (X1 & X2 & X3). lia.
  - apply (read_spec_no_domain P D _ HD). cbn [t_s t_e]. intros d Hd. right.
    destruct (In_znth_lt _ _ Hd) as (j & Rj & Hj). apply (ENDED j d Hj).
    apply znth_None in Hk. pose proof (dcnt_range (t_s (u_b i)) D) as R0. fold k in R0. lia.
Qed.

(* SeekFirst reports false only if no data domain overlaps the bounds *)
Lemma seek_first_fail i : inv i -> snd (u_seek_first D i) = false -> read_spec truth (u_b i) = [].
Proof.
  intros (Hs & (V1 & V2 & V3)) Hf.
  unfold u_seek_first, di_seek_first in Hf.
  pose proof (seek_ge_spec D (u_di i) (t_s (di_b (u_di i))) HD) as SG. cbv zeta in SG.
  unfold synced in Hs. rewrite Hs in *.
  set (k := dcnt (t_s (u_b i)) D) in *.
  assert (ENDED : forall j d, znth D j = Some d -> j < k -> t_e (d_tr d) <= t_s (u_b i))
    by (intros j d Hj Hlt; apply (lay_dcnt D (t_s (u_b i)) HD j d Hj); exact Hlt).
  destruct (di_seek_ge D (u_di i) (t_s (u_b i))) as [dd ok] eqn:SEEK. cbn [fst snd] in *. subst ok.
  apply (read_spec_no_domain P D _ HD).
  destruct (znth D k) as [p|] eqn:Hk.
  - pose proof (lay_nth_wf D HD _ _ Hk) as Wp. unfold dwf in Wp.
    destruct (overlaps (d_tr p) (u_b i)) eqn:Ob; [inversion SG|].
    assert (Hpe : t_s (u_b i) < t_e (d_tr p)).
    { destruct (Z_lt_ge_dec (t_s (u_b i)) (t_e (d_tr p))); [assumption|].
      assert (k < k) by (apply (lay_dcnt D (t_s (u_b i)) HD k p Hk); lia). lia. }
    intros d Hd. destruct (In_znth_lt _ _ Hd) as (j & Rj & Hj).
    destruct (Z_lt_ge_dec j k) as [Hjk|Hjk]; [right; apply (ENDED j d Hj Hjk)|left].
    assert (Hps : t_e (u_b i) <= t_s (d_tr p)).
    { destruct (Z.eq_dec (t_s (u_b i)) (t_e (u_b i))) as [Eb|Nb].
      - rewrite (overlaps_valid (d_tr p) (u_b i) Wp V2) in Ob.
        destruct (t_s (u_b i) =? t_e (u_b i)) eqn:Q; zb; [|lia].
        unfold contains_stamp in Ob. apply andb_false_iff in Ob. destruct Ob; zb; lia.
      - rewrite (overlaps_nonempty (d_tr p) (u_b i) Wp ltac:(lia)) in Ob. apply Z.ltb_ge in Ob. lia. }
    destruct (Z.eq_dec j k) as [->|Njk]; [assert (d = p) by congruence; subst; lia|].
    destruct (lay_nth D HD k j p d Hk Hj ltac:(lia)) as (X1 & X2 & X3). lia.
  - intros d Hd. right. destruct (In_znth_lt _ _ Hd) as (j & Rj & Hj). apply (ENDED j d Hj).
    apply znth_None in Hk. pose proof (dcnt_range (t_s (u_b i)) D) as R0. fold k in R0. lia.
Qed.

(* ---- DB.Read of one channel ---- *)
Lemma read_loop_S f i acc :
  read_loop (S f) P D var i acc =
  let i' := u_next P D var DEFAULT_CHUNK false i MAXTS in
  if u_valid i' then read_loop f P D var i' (acc ++ u_frame i') else acc.
Proof. reflexivity. Qed.

Definition read_one (t : tr) : list series :=
  let '(i, ok) := u_seek_first D (u_open t) in
  if negb ok then [] else read_loop (4 + length D) P D var i [].

Theorem read_one_exact t : valid_bounds t -> 0 <= t_s t ->
  frame_data (read_one t) = read_spec truth t.
Proof.
  intros Hb H0. unfold read_one.
  assert (Hi : inv (u_open t)) by (split; [reflexivity|exact Hb]).
  pose proof (seek_first_spec (u_open t) Hi (or_intror I)) as SF. cbv zeta in SF.
  pose proof (seek_first_fail (u_open t) Hi) as FAIL.
  destruct (u_seek_first D (u_open t)) as [i0 ok0]. cbn [fst snd] in *.
  change (u_b (u_open t)) with t in *.
  destruct ok0; cbn [negb]; [|rewrite FAIL by reflexivity; reflexivity].
  destruct SF as (I0 & B0 & E0 & F0 & p0 & V0 & R0 & N0).
  destruct Hb as (V1 & V2 & V3).
  replace (read_spec truth t) with (read_spec truth (TR (t_s t) (t_e t))) by (destruct t; reflexivity).
  rewrite <- (read_spec_adjacent truth (t_s t) p0 (t_e t) Htruth_asc ltac:(lia)). rewrite N0. cbn [app].
  (* first Next(TimeSpanMax) *)
  replace (4 + length D)%nat with (S (S (2 + length D)))%nat by lia. rewrite read_loop_S. cbv zeta.
  unfold u_next. cbv iota.
  destruct (next_exact P D var DEFAULT_CHUNK HL i0 MAXTS I0) as (I1 & X1).
  assert (NE : MAXTS =? AUTO = false) by reflexivity.
  unfold u_next_fix in *. rewrite NE in *. unfold at_end in *. rewrite V0, B0 in *. cbn [t_e] in *.
  destruct (p0 =? t_e t) eqn:AE; zb.
  - (* already at the end of the bounds *)
    unfold u_valid, has_data, u_reset. cbn [u_frame]. cbn [andb].
    rewrite read_spec_empty; [reflexivity|cbn; lia].
  - set (i1 := step_fwd P D var i0 MAXTS) in *.
    destruct (step_fwd_view P D var i0 MAXTS) as (V1' & B1 & _). fold i1 in V1', B1.
    rewrite V0, B0 in V1'. cbn [t_e] in V1'.
    assert (VIEW : u_view i1 = TR p0 (t_e t)).
    { rewrite V1'. destruct (span_range_fwd p0 MAXTS ltac:(unfold MAXTS; lia) ltac:(lia)) as (S1 & S2 & _).
      rewrite bound_by_inter by (unfold MAXTS in *; lia).
      f_equal; [lia|].
      assert (t_e t <= t_e (span_range p0 MAXTS)).
      { unfold span_range. rewrite make_valid_valid; cbn [t_s t_e].
        - unfold add_clamp, MAXTS, MINI64 in *. zcases; cbn [andb]; lia.
        - destruct (add_clamp_nonneg p0 MAXTS ltac:(unfold MAXTS; lia) ltac:(lia)) as [[? ?] _]. lia. }
      lia. }
    assert (E1 : u_err i1 = None).
    { destruct (step_fwd_exact P D var HL i0 MAXTS I0 E0) as (_ & _).
      destruct (body_exact P D var HL true (u_reset i0 (bound_by (span_range (t_e (u_view i0)) MAXTS) (u_b i0)))) as (Ee & _);
        try reflexivity.
      - destruct I0 as [S0 _]. exact S0.
      - cbn. rewrite B0. repeat split; assumption.
      - cbn [u_b u_view u_reset]. apply clip_in_bounds. rewrite B0. repeat split; assumption.
      - cbn. exact E0.
      - exact Ee. }
    specialize (X1 E1). rewrite VIEW in X1.
    destruct (u_valid i1) eqn:VAL.
    + (* second Next: at the end, nothing more *)
      cbn [app].
      assert (AT : (t_e (u_view i1) =? t_e (u_b i1)) = true) by (rewrite VIEW, B1, B0; cbn [t_e]; apply Z.eqb_refl).
      fold (at_end i1) in AT.
      assert (STOP : forall f acc, read_loop (S f) P D var i1 acc = acc).
      { intros f acc. rewrite read_loop_S. cbv zeta. unfold u_next. cbv iota. unfold u_next_fix. rewrite AT.
        unfold u_valid, has_data, u_reset. cbn [u_frame andb]. reflexivity. }
      rewrite STOP. exact X1.
    + unfold u_valid, has_data in VAL. rewrite E1 in VAL. rewrite andb_true_r in VAL.
      destruct (u_frame i1) eqn:FR; [|discriminate]. rewrite <- X1. reflexivity.
Qed.

(* ---- forward traversal ---- *)
Definition fwd_cmd (c : cmd) : Prop := match c with Next s => 0 <= s | NextAuto => True | _ => False end.

Lemma fwd_cmd_ok c : fwd_cmd c -> cmd_ok c.
Proof. destruct c; simpl; auto; intros []. Qed.

Lemma fwd_traverse : forall steps i e0,
  inv i -> u_err i = None -> t_e (u_view i) = e0 -> t_s (u_b i) <= e0 <= t_e (u_b i) ->
  Forall fwd_cmd steps ->
  let os := u_run P D var chunk false i steps in
  Forall (fun o => o_err o = 0) os ->
  exists e1, e0 <= e1 <= t_e (u_b i) /\
    e1 = t_e (o_view (last os (observe i true))) /\
    concat (map (fun o => frame_data (o_frame o)) os) = read_spec truth (TR e0 e1).
Proof.
  induction steps as [|c cs IH]; intros i e0 Hi He Hv Hin Hst os Herr.
  - exists e0. subst os. cbn. split; [lia|]. split; [symmetry; exact Hv|]. rewrite read_spec_empty; [reflexivity|cbn; lia].
  - apply Forall_cons_iff in Hst. destruct Hst as [Hc Hcs]. subst os. cbn [u_run] in *.
    destruct (cmd_exact P D var chunk HL i c Hi (fwd_cmd_ok c Hc)) as (I1 & X1).
    pose proof (step_bounds P D var chunk i c) as B1.
    assert (SPEC : let i' := fst (u_step P D var chunk false i c) in
                   u_b i' = u_b i /\ (errored i' = false -> in_bounds (u_b i) (u_view i') /\ t_s (u_view i') = e0)).
    { destruct Hi as (Hs & Hb). destruct c; cbn [fwd_cmd] in Hc; try contradiction; cbn [u_step fst]; unfold u_next; cbv iota.
      - destruct (next_fix_spec P D var chunk i span Hb (or_introl Hc)) as (B & _ & Q).
        split; [exact B|]. intros E. destruct (Q E) as (Q1 & Q2). split; [exact Q1|]. rewrite Q2; lia.
      - destruct (next_fix_spec P D var chunk i AUTO Hb (or_intror eq_refl)) as (B & _ & Q).
        split; [exact B|]. intros E. destruct (Q E) as (Q1 & Q2). split; [exact Q1|]. rewrite Q2; lia. }
    destruct (u_step P D var chunk false i c) as [i1 ok1]. cbn [fst] in *. cbv zeta in SPEC.
    destruct SPEC as (Bb & SP).
    apply Forall_cons_iff in Herr. destruct Herr as [H0 Herr].
    assert (E1 : u_err i1 = None).
    { unfold observe in H0. cbn [o_err] in H0. destruct (u_err i1) as [e|]; [exfalso; exact (err_code_nonzero e H0)|reflexivity]. }
    assert (Er : errored i1 = false) by (unfold errored; rewrite E1; reflexivity).
    destruct (SP Er) as ((a1 & a2 & a3) & St).
    specialize (IH i1 (t_e (u_view i1)) I1 E1 eq_refl ltac:(rewrite Bb; lia) Hcs Herr).
    destruct IH as (e1 & R1 & L1 & C1). rewrite Bb in R1.
    exists e1. split; [lia|]. split.
    + rewrite L1. destruct (u_run P D var chunk false i1 cs) as [|o l] eqn:RUN; [reflexivity|].
      change (last (observe i1 ok1 :: o :: l) (observe i true)) with (last (o :: l) (observe i true)).
      rewrite (last_default l o (observe i true) (observe i1 true)). reflexivity.
    + cbn [map concat]. rewrite C1. unfold observe at 1. cbn [o_frame].
      rewrite (X1 E1). rewrite (tr_eta (u_view i1)) at 1. rewrite St.
      apply read_spec_adjacent; [exact Htruth_asc|lia].
Qed.

End Reads.

(* A full forward traversal: SeekFirst, then forward steps of any spans (explicit or automatic)
   none of which reports an error, the last view reaching the end of the bounds: the values
   returned, concatenated, are the stored samples of the bounds — each exactly once, in order. *)
Theorem full_traversal_fwd : forall P D var chunk b steps,
  layout_ok P D -> valid_bounds b -> Forall fwd_cmd steps ->
  let os := u_run P D var chunk false (u_open b) (SeekFirst :: steps) in
  Forall (fun o => o_err o = 0) os ->
  t_e (o_view (last os (observe (u_open b) true))) = t_e b ->
  concat (map (fun o => frame_data (o_frame o)) os) = read_spec (layout_assoc P D) b.
Proof.
  intros P D var chunk b steps HL Hb Hst os Herr Hlast. subst os.
  assert (Hi : inv (u_open b)) by (split; [reflexivity|exact Hb]).
  destruct (seek_first_spec P D HL (u_open b) Hi (or_intror I)) as (I0 & B0 & E0 & F0 & p0 & V0 & R0 & N0).
  cbn [u_run] in *. cbn [u_step] in *.
  destruct (u_seek_first D (u_open b)) as [i0 ok0]. cbn [fst] in *.
  change (u_b (u_open b)) with b in *.
  apply Forall_cons_iff in Herr. destruct Herr as [_ Herr].
  destruct (fwd_traverse P D var chunk HL steps i0 p0 I0 E0 ltac:(rewrite V0; reflexivity) ltac:(rewrite B0; lia) Hst Herr)
    as (e1 & R1 & L1 & C1).
  cbn [map concat]. unfold observe at 1. cbn [o_frame]. rewrite F0. cbn [frame_data map concat app].
  rewrite C1.
  assert (e1 = t_e b).
  { rewrite L1. rewrite <- Hlast. destruct (u_run P D var chunk false i0 steps) as [|o l] eqn:RUN.
    - cbn [last]. unfold observe. cbn [o_view]. reflexivity.
    - change (last (observe i0 ok0 :: o :: l) (observe (u_open b) true)) with (last (o :: l) (observe (u_open b) true)).
      rewrite (last_default l o (observe (u_open b) true) (observe i0 true)). reflexivity. }
  subst e1. rewrite H in *. replace (read_spec (layout_assoc P D) b) with (read_spec (layout_assoc P D) (TR (t_s b) (t_e b))) by (destruct b; reflexivity).
  rewrite <- (read_spec_adjacent (layout_assoc P D) (t_s b) p0 (t_e b)); [|apply layout_assoc_asc; apply HL|lia].
  rewrite N0. reflexivity.
Qed.
