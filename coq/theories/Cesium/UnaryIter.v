(* Cesium/UnaryIter.v — unary.Iterator (cesium/internal/unary/iterator.go) over the data
   domains [D] of one channel whose index channel has the domains [P] ([D = P] for an
   index channel).  Offsets are kept in sample units: for a fixed-density channel the byte
   offset is density * sample index, for a variable-length one it is the offset table
   entry; [var] selects the behaviour on a negative sample index (density arithmetic
   yields a negative byte offset, the table lookup panics).  No proofs in this file. *)
From Coq Require Import ZArith List Bool.
From Synnax Require Import Cesium.Store Cesium.IndexSearch Cesium.Distance Cesium.Stamp.
Import ListNotations.
Local Open Scope Z_scope.

Record series := Ser { sr_tr : tr; sr_data : list Z }.

Record uiter := UI {
  u_b : tr;            (* bounds *)
  u_view : tr;
  u_frame : list series;
  u_err : option err;
  u_di : diter         (* internal domain iterator over D *)
}.

Section Iter.
Variable P : list dom.      (* index channel domains *)
Variable D : list dom.      (* this channel's domains *)
Variable var : bool.        (* variable-length data type *)
Variable chunk : Z.         (* AutoChunkSize after Override (0 -> 1e5 is done by the caller) *)
Variable legacy : bool.     (* true: the stepping code of the pinned upstream tree, before the fix in /repo
                               (internal iterator not repositioned, chunk loops of autoNext/autoPrev) *)

Definition AUTO : Z := -1.

Definition u_reset (i : uiter) (v : tr) : uiter := UI (u_b i) v [] (u_err i) (u_di i).
Definition u_seek_reset (i : uiter) (ts : Z) : uiter := UI (u_b i) (point ts) [] None (u_di i).
Definition u_set_err (i : uiter) (e : err) : uiter := UI (u_b i) (u_view i) (u_frame i) (Some e) (u_di i).
Definition u_set_di (i : uiter) (d : diter) : uiter := UI (u_b i) (u_view i) (u_frame i) (u_err i) d.
Definition u_set_view (i : uiter) (v : tr) : uiter := UI (u_b i) v (u_frame i) (u_err i) (u_di i).

Definition u_open (b : tr) : uiter :=
  u_seek_reset (UI b (TR 0 0) [] None (di_open b)) (t_e b).
Definition u_set_bounds (i : uiter) (b : tr) : uiter :=
  u_seek_reset (UI b (u_view i) (u_frame i) (u_err i) (di_set_bounds (u_di i) b)) (t_e b).

Definition has_data (i : uiter) : bool := match u_frame i with [] => false | _ => true end.
Definition u_valid (i : uiter) : bool :=
  has_data i && match u_err i with None => true | Some _ => false end.
Definition cur_tr (i : uiter) : tr := di_tr (u_di i).

Definition u_seek_first (i : uiter) : uiter * bool :=
  let '(d, ok) := di_seek_first D (u_di i) in
  (u_seek_reset (u_set_di i d) (t_s (bound_by (di_tr d) (u_b i))), ok).
Definition u_seek_last (i : uiter) : uiter * bool :=
  let '(d, ok) := di_seek_last D (u_di i) in
  (u_seek_reset (u_set_di i d) (t_e (bound_by (di_tr d) (u_b i))), ok).
Definition u_seek_le (i : uiter) (ts : Z) : uiter * bool :=
  let '(d, ok) := di_seek_le D (u_di i) ts in
  let i := u_set_di i d in
  if overlaps (di_tr d) (point ts) then (u_seek_reset i ts, ok)
  else (u_seek_reset i (t_e (bound_by (di_tr d) (u_b i))), ok).
Definition u_seek_ge (i : uiter) (ts : Z) : uiter * bool :=
  let '(d, ok) := di_seek_ge D (u_di i) ts in
  let i := u_set_di i d in
  if overlaps (di_tr d) (point ts) then (u_seek_reset i ts, ok)
  else (u_seek_reset i (t_s (bound_by (di_tr d) (u_b i))), ok).

(* offsetResolver.byteOffset in sample units *)
Definition boff (total idx : Z) : res Z :=
  if total <=? idx then Ok total
  else if (idx <? 0) && var then Err EPanic
  else Ok idx.

(* Iterator.read: the series clipped to the view with [size] samples from [off] *)
Definition u_read (i : uiter) (off size : Z) : res series :=
  if size <? 0 then Err EPanic else
  let l := d_data (di_cur (u_di i)) in
  let data := if (off <? 0) || (zlen l <=? off) then []
              else firstn (Z.to_nat size) (skipn (Z.to_nat off) l) in
  Ok (Ser (bound_by (cur_tr i) (u_view i)) data).

Definition u_insert (i : uiter) (s : series) : uiter :=
  match sr_data s with
  | [] => i
  | _ =>
      let f := u_frame i in
      let app := match last (map Some f) None with
                 | None => true
                 | Some l => t_e (sr_tr l) <=? t_s (sr_tr s)
                 end in
      UI (u_b i) (u_view i) (if app then f ++ [s] else s :: f) (u_err i) (u_di i)
  end.

Definition pick_sample_offset (a : dapprox) : Z :=
  if da_exact a || da_se a then da_hi a
  else if da_ee a then da_lo a
  else (da_lo a + da_hi a) ÷ 2.

Definition approximate_start (i : uiter) : res dapprox :=
  let c := cur_tr i in
  let target := point (t_s c) in
  let target := if t_s c <? t_s (u_view i) then TR (t_s target) (t_s (u_view i)) else target in
  distance P target true.

Definition approximate_end (i : uiter) : res dapprox :=
  let c := cur_tr i in
  let total := dlen (di_cur (u_di i)) in
  if t_e (u_view i) <? t_e c then distance P (TR (t_s c) (t_e (u_view i))) true
  else Ok (DA total total false false).

Definition slice_domain (i : uiter) : res (Z * Z) :=
  let total := dlen (di_cur (u_di i)) in
  do sa <- approximate_start i;
  do so <- boff total (pick_sample_offset sa);
  do ea <- approximate_end i;
  do eo <- boff total (pick_sample_offset ea);
  Ok (so, eo - so).

(* accumulate: returns false when the iterator must stop moving *)
Definition accumulate (i : uiter) : uiter * bool :=
  if negb (overlaps (cur_tr i) (u_view i)) then (i, false) else
  match slice_domain i with
  | Err e => (u_set_err i e, false)
  | Ok (off, size) =>
      match u_read i off size with
      | Err e => (u_set_err i e, false)
      | Ok s => (u_insert i s, true)
      end
  end.

Definition satisfied (i : uiter) : bool :=
  match u_frame i with
  | [] => false
  | f0 :: _ =>
      match last (map Some (u_frame i)) None with
      | None => false
      | Some l => tr_eqb (u_view i) (TR (t_s (sr_tr f0)) (t_e (sr_tr l)))
      end
  end.

Definition at_start (i : uiter) : bool := t_s (u_view i) =? t_s (u_b i).
Definition at_end (i : uiter) : bool := t_e (u_view i) =? t_e (u_b i).

(* for internal.Next() && accumulate() && !satisfied() {} *)
Fixpoint acc_loop (fwd : bool) (fuel : nat) (i : uiter) : uiter :=
  match fuel with
  | O => i
  | S f =>
      let '(d, ok) := (if fwd then di_next else di_prev) D (u_di i) in
      let i := u_set_di i d in
      if negb ok then i else
      let '(i, ok) := accumulate i in
      if negb ok then i else
      if satisfied i then i else acc_loop fwd f i
  end.

(* Next with an explicit span, after the atEnd test *)
Definition next_span (i : uiter) (span : Z) : uiter :=
  let i := u_reset i (bound_by (span_range (t_e (u_view i)) span) (u_b i)) in
  if (tspan (u_view i) =? 0) || (t_e (u_view i) <=? t_s (cur_tr i)) then i else
  let '(i, _) := accumulate i in
  if satisfied i || match u_err i with Some _ => true | None => false end then i
  else acc_loop true (S (length D)) i.

Definition prev_span (i : uiter) (span : Z) : uiter :=
  let i := u_reset i (bound_by (span_range (t_s (u_view i)) (-1 * span)) (u_b i)) in
  if (tspan (u_view i) =? 0) || (t_e (cur_tr i) <=? t_s (u_view i)) then i else
  let '(i, _) := accumulate i in
  if satisfied i || match u_err i with Some _ => true | None => false end then i
  else acc_loop false (S (length D)) i.

(* the chunk loop of autoNext *)
Fixpoint auto_next_loop (fuel : nat) (i : uiter) (nrem : Z) : uiter :=
  match fuel with
  | O => i
  | S f =>
      if negb (overlaps (cur_tr i) (u_view i)) then
        let '(d, ok) := di_next D (u_di i) in
        let i := u_set_di i d in
        if negb ok then i else auto_next_loop f i nrem
      else
        let total := dlen (di_cur (u_di i)) in
        match approximate_start i with
        | Err e => u_set_err i e
        | Ok sa =>
            let ss := if negb (da_exact sa) && negb (da_se sa) then da_lo sa else da_hi sa in
            match (do so <- boff total ss; do eo <- boff total (ss + nrem);
                   do s <- u_read i so (eo - so); Ok s) with
            | Err e => u_set_err i e
            | Ok s =>
                let nrem := nrem - zlen (sr_data s) in
                let i := u_insert i s in
                if nrem <=? 0 then i else
                let '(d, ok) := di_next D (u_di i) in
                let i := u_set_di i d in
                if negb ok then i else auto_next_loop f i nrem
            end
        end
  end.

Definition auto_next (i : uiter) : uiter :=
  let i := u_set_view i (TR (t_e (u_view i)) (t_e (u_view i))) in
  match stamp P (t_s (u_view i)) chunk false with
  | Err e => u_set_err i e
  | Ok ea =>
      if t_e (u_b i) <? s_lo ea then
        (* return i.Next(ctx, view.Start.Span(bounds.End)) *)
        let span := t_e (u_b i) - t_s (u_view i) in
        if at_end i then u_reset i (point (t_e (u_b i)))
        else if span =? AUTO then i (* unreachable: would recurse *)
        else next_span i span
      else
        let i := u_set_view i (TR (t_s (u_view i)) (s_lo ea)) in
        let i := u_reset i (bound_by (u_view i) (u_b i)) in
        auto_next_loop (2 * S (length D)) i chunk
  end.

Fixpoint auto_prev_loop (fuel : nat) (i : uiter) (start_exact : bool) (nrem : Z) : uiter :=
  match fuel with
  | O => i
  | S f =>
      if negb (overlaps (cur_tr i) (u_view i)) then
        let '(d, ok) := di_prev D (u_di i) in
        let i := u_set_di i d in
        if negb ok then i else auto_prev_loop f i start_exact nrem
      else
        let total := dlen (di_cur (u_di i)) in
        match approximate_end i with
        | Err e => u_set_err i e
        | Ok ea =>
            (* verbatim: the test uses the Stamp approximation of the outer scope *)
            let es := if negb start_exact && negb (da_se ea) then da_lo ea else da_hi ea in
            let ss := if es - nrem <? 0 then 0 else es - nrem in
            match (do eo <- boff total es; do so <- boff total ss;
                   do s <- u_read i so (eo - so); Ok s) with
            | Err e => u_set_err i e
            | Ok s =>
                let nrem := nrem - zlen (sr_data s) in
                let i := u_insert i s in
                if nrem <=? 0 then i else
                let '(d, ok) := di_prev D (u_di i) in
                let i := u_set_di i d in
                if negb ok then i else auto_prev_loop f i start_exact nrem
            end
        end
  end.

Definition auto_prev (i : uiter) : uiter :=
  let i := u_set_view i (TR (t_s (u_view i)) (t_s (u_view i))) in
  match stamp P (t_s (u_view i)) (- chunk) false with
  | Err e => u_set_err i e
  | Ok sa =>
      if s_lo sa <? t_s (u_b i) then
        let span := t_e (u_view i) - t_s (u_b i) in
        if at_start i then u_reset i (point (t_s (u_b i)))
        else if span =? AUTO then i
        else prev_span i span
      else
        let i := u_set_view i (TR (s_lo sa + 1) (t_e (u_view i))) in
        let i := u_reset i (bound_by (u_view i) (u_b i)) in
        auto_prev_loop (2 * S (length D)) i (s_exact sa) chunk
  end.

Definition u_next_legacy (i : uiter) (span : Z) : uiter :=
  if at_end i then u_reset i (point (t_e (u_b i)))
  else if span =? AUTO then auto_next i
  else next_span i span.

Definition u_prev_legacy (i : uiter) (span : Z) : uiter :=
  if at_start i then u_reset i (point (t_s (u_b i)))
  else if span =? AUTO then auto_prev i
  else prev_span i span.

(* ---- the stepping code of /repo (after the fix): every step positions the internal
   iterator from its view; an AutoSpan step only resolves its span through the index and is
   then sliced like any other step ---- *)
(* the part of Next / Prev after the view has been reset *)
Definition fwd_body (i : uiter) : uiter :=
  if tspan (u_view i) =? 0 then i else
  let '(d, ok) := di_seek_ge D (u_di i) (t_s (u_view i)) in
  let i := u_set_di i d in
  if negb ok then i else
  if t_e (u_view i) <=? t_s (cur_tr i) then i else
  let '(i, _) := accumulate i in
  if satisfied i || match u_err i with Some _ => true | None => false end then i
  else acc_loop true (S (length D)) i.

Definition bwd_body (i : uiter) : uiter :=
  if tspan (u_view i) =? 0 then i else
  let '(d, ok) := di_seek_le D (u_di i) (t_e (u_view i) - 1) in
  let i := u_set_di i d in
  if negb ok then i else
  if t_e (cur_tr i) <=? t_s (u_view i) then i else
  let '(i, _) := accumulate i in
  if satisfied i || match u_err i with Some _ => true | None => false end then i
  else acc_loop false (S (length D)) i.

Definition step_fwd (i : uiter) (span : Z) : uiter :=
  fwd_body (u_reset i (bound_by (span_range (t_e (u_view i)) span) (u_b i))).

Definition step_bwd (i : uiter) (span : Z) : uiter :=
  bwd_body (u_reset i (bound_by (span_range (t_s (u_view i)) (-1 * span)) (u_b i))).

(* autoNextSpan / autoPrevSpan: the span, or the iterator carrying the Stamp error *)
Definition auto_next_span (i : uiter) : uiter + Z :=
  match stamp P (t_e (u_view i)) chunk false with
  | Err e => inl (u_set_err (u_reset i (point (t_e (u_view i)))) e)
  | Ok a => inr (Z.max (s_lo a - t_e (u_view i)) 0)
  end.
Definition auto_prev_span (i : uiter) : uiter + Z :=
  match stamp P (t_s (u_view i)) (- chunk) false with
  | Err e => inl (u_set_err (u_reset i (point (t_s (u_view i)))) e)
  | Ok a => inr (Z.max (t_s (u_view i) - (s_lo a + 1)) 0)
  end.

Definition u_next_fix (i : uiter) (span : Z) : uiter :=
  if at_end i then u_reset i (point (t_e (u_b i)))
  else if span =? AUTO then
    match auto_next_span i with inl i' => i' | inr sp => step_fwd i sp end
  else step_fwd i span.

Definition u_prev_fix (i : uiter) (span : Z) : uiter :=
  if at_start i then u_reset i (point (t_s (u_b i)))
  else if span =? AUTO then
    match auto_prev_span i with inl i' => i' | inr sp => step_bwd i sp end
  else step_bwd i span.

Definition u_next (i : uiter) (span : Z) : uiter :=
  if legacy then u_next_legacy i span else u_next_fix i span.
Definition u_prev (i : uiter) (span : Z) : uiter :=
  if legacy then u_prev_legacy i span else u_prev_fix i span.

(* ---- commands ---- *)
Inductive cmd :=
| SeekFirst | SeekLast | SeekLE (ts : Z) | SeekGE (ts : Z)
| Next (span : Z) | Prev (span : Z) | NextAuto | PrevAuto | SetBounds (b : tr).

Definition u_step (i : uiter) (c : cmd) : uiter * bool :=
  match c with
  | SeekFirst => u_seek_first i
  | SeekLast => u_seek_last i
  | SeekLE ts => u_seek_le i ts
  | SeekGE ts => u_seek_ge i ts
  | Next s => let i := u_next i s in (i, u_valid i)
  | Prev s => let i := u_prev i s in (i, u_valid i)
  | NextAuto => let i := u_next i AUTO in (i, u_valid i)
  | PrevAuto => let i := u_prev i AUTO in (i, u_valid i)
  | SetBounds b => (u_set_bounds i b, true)
  end.

(* observation after a command *)
Record obs := Obs { o_ok : bool; o_valid : bool; o_view : tr; o_err : Z; o_frame : list series }.
Definition observe (i : uiter) (ok : bool) : obs :=
  Obs ok (u_valid i) (u_view i) (match u_err i with None => 0 | Some e => err_code e end) (u_frame i).

Fixpoint u_run (i : uiter) (cs : list cmd) : list obs :=
  match cs with
  | [] => []
  | c :: rest => let '(i', ok) := u_step i c in observe i' ok :: u_run i' rest
  end.

End Iter.
