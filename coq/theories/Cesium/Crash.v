(* Cesium/Crash.v — the persistence protocol of one cesium channel directory, as the Go code
   issues it: which file-system calls each operation makes, in which order, and what
   cesium.Open / domain.Open reconstructs from the bytes it finds (recover).

   Copied from (pinned tree):
     cesium/internal/domain/index_persist.go  encode / decode / prepare (Truncate THEN WriteAt)
     cesium/internal/domain/index.go          insert / update / unprotectedSearch / searchLE / searchGE
     cesium/internal/domain/writer.go         OpenWriter / Write / commit / Close
     cesium/internal/domain/file_controller.go acquireWriter / newWriter / scanUnopenedFiles / gcWriters / rejuvenate
     cesium/internal/domain/delete.go         Delete / validateDelete / GarbageCollect / garbageCollectFile
     cesium/internal/domain/db.go             Open (load)
     cesium/internal/domain/iterator.go       SeekFirst / Next / SeekLE / reload
     cesium/internal/meta/meta.go             Create (tmp, write, rename)
     cesium/delete.go                         DeleteChannel (rename dir, remove)
     x/go/io/counter.go                       Int32Counter (4-byte LE at offset 0)
     x/go/telem/time_range.go                 OverlapsWith / ContainsStamp / ContainsRange
   The model is parametrised by the abstract history of the layers above (commit end stamps,
   the byte offsets the unary layer resolves for a delete): these are operation arguments.
   Model only: no proofs. *)
From Coq Require Import List NArith ZArith Bool Arith.
From Synnax Require Import Cesium.FsLog Generated.Consts_C02.
Import ListNotations.
Local Open Scope Z_scope.

(* ------------------------------------------------------------------ numbers / encoding *)
Definition two64 : Z := 18446744073709551616.
Definition two63 : Z := 9223372036854775808.
Definition two32 : N := 4294967296%N.
Definition u64 (z : Z) : N := Z.to_N (z mod two64).
Definition i64 (n : N) : Z := let z := Z.of_N n in if z <? two63 then z else z - two64.
Definition wrap64 (z : Z) : Z := i64 (u64 z).
Definition u32 (n : N) : N := (n mod two32)%N.
Definition ts_max : Z := two63 - 1.

Fixpoint le_bytes (w : nat) (n : N) : bytes :=
  match w with O => [] | S w' => (n mod 256)%N :: le_bytes w' (n / 256)%N end.
Fixpoint le_val (bs : bytes) : N :=
  match bs with [] => 0%N | b :: r => (b + 256 * le_val r)%N end.

Record ptr := mkPtr { p_s : Z; p_e : Z; p_file : N; p_off : N; p_size : N }.

Definition ptr_eqb (a b : ptr) : bool :=
  (p_s a =? p_s b) && (p_e a =? p_e b) && N.eqb (p_file a) (p_file b) &&
  N.eqb (p_off a) (p_off b) && N.eqb (p_size a) (p_size b).

Definition psz : nat := N.to_nat ptr_size.

Definition enc_ptr (p : ptr) : bytes :=
  le_bytes 8 (u64 (p_s p)) ++ le_bytes 8 (u64 (p_e p)) ++ le_bytes 2 (p_file p) ++
  le_bytes 4 (p_off p) ++ le_bytes 4 (p_size p).

Definition slice (bs : bytes) (a b : nat) : bytes := firstn (b - a) (skipn a bs).

Definition dec_ptr (bs : bytes) : ptr :=
  mkPtr (i64 (le_val (slice bs 0 8))) (i64 (le_val (slice bs 8 16)))
        (le_val (slice bs 16 18)) (le_val (slice bs 18 22)) (le_val (slice bs 22 26)).

Definition encode_ptrs (ps : list ptr) : bytes := flat_map enc_ptr ps.

Fixpoint dec_n (n : nat) (bs : bytes) : list ptr :=
  match n with
  | O => []
  | S m => dec_ptr (firstn psz bs) :: dec_n m (skipn psz bs)
  end.
(* pointerCodec.decode: len(b)/26 whole records, the remainder is ignored, no validation *)
Definition decode_ptrs (bs : bytes) : list ptr := dec_n (length bs / psz) bs.

(* ------------------------------------------------------------------ telem.TimeRange *)
Notation trange := (Z * Z)%type.
Definition tr_valid (t : trange) : bool := 0 <=? wrap64 (snd t - fst t).
Definition mkvalid (t : trange) : trange := if tr_valid t then t else (snd t, fst t).
Definition contains_stamp (t : trange) (x : Z) : bool := (fst t <=? x) && (x <? snd t).
Definition contains_range (t r : trange) : bool := (fst t <=? fst r) && (snd r <=? snd t).
Definition tr_eqb (a b : trange) : bool := (fst a =? fst b) && (snd a =? snd b).
Definition overlaps (t r : trange) : bool :=
  if tr_eqb t r then true else
  let vt := mkvalid t in
  let vr := mkvalid r in
  if fst vr =? fst vt then true else
  if (snd vr =? fst vt) || (fst vr =? snd vt) then false else
  contains_stamp t (snd vr) || contains_stamp t (fst vr) ||
  contains_stamp vr (fst t) || contains_stamp vr (snd t).

Fixpoint list_beq (A : Type) (f : A -> A -> bool) (a b : list A) : bool :=
  match a, b with
  | [], [] => true
  | x :: r, y :: r' => f x y && list_beq A f r r'
  | _, _ => false
  end.

Definition ptr_tr (p : ptr) : trange := (p_s p, p_e p).
Definition span0 (x : Z) : trange := (x, x).

(* ------------------------------------------------------------------ index search *)
Fixpoint usearch_go (fuel : nat) (ps : list ptr) (tr : trange) (lo hi : Z) : Z * bool :=
  match fuel with
  | O => (hi, false)
  | S f =>
      if hi <? lo then (hi, false) else
      let mid := (lo + hi) / 2 in
      match nth_error ps (Z.to_nat mid) with
      | None => (hi, false)
      | Some p =>
          if overlaps (ptr_tr p) tr then (mid, true)
          else if fst tr <? p_s p then usearch_go f ps tr lo (mid - 1)
          else usearch_go f ps tr (mid + 1) hi
      end
  end.

Definition zlen {A} (l : list A) : Z := Z.of_nat (length l).

(* index.unprotectedSearch *)
Definition usearch (ps : list ptr) (tr : trange) : Z * bool :=
  match ps with
  | [] => (-1, false)
  | _ => usearch_go (S (length ps)) ps tr 0 (zlen ps - 1)
  end.

Definition getp (ps : list ptr) (i : Z) : option ptr :=
  if i <? 0 then None else nth_error ps (Z.to_nat i).

Definition search_le (ps : list ptr) (x : Z) : Z := fst (usearch ps (span0 x)).
Definition search_ge (ps : list ptr) (x : Z) : Z :=
  let '(i, exact) := usearch ps (span0 x) in
  if exact then i else if i =? zlen ps then -1 else i + 1.

Definition insert_at {A} (l : list A) (i : nat) (x : A) : list A := firstn i l ++ x :: skipn i l.
Definition replace_at {A} (l : list A) (i : nat) (x : A) : list A := firstn i l ++ x :: skipn (S i) l.

Inductive outcome := ROk | RConflict | RErr | RSkip.
Definition outcome_eqb (a b : outcome) : bool :=
  match a, b with ROk, ROk | RConflict, RConflict | RErr, RErr | RSkip, RSkip => true | _, _ => false end.

(* index.insert (position only; persistence is issued by the caller) *)
Definition idx_insert (ps : list ptr) (p : ptr) : outcome * list ptr * nat :=
  if N.eqb (p_file p) 0 then (RErr, ps, O) else
  match ps with
  | [] => (ROk, [p], O)
  | first :: _ =>
      let lastp := last ps first in
      if p_e lastp <? p_s p then (ROk, ps ++ [p], length ps)
      else if negb (p_e p <? p_s first) then
        let '(i, ov) := usearch ps (ptr_tr p) in
        if ov then (RConflict, ps, O)
        else let at_ := Z.to_nat (i + 1) in (ROk, insert_at ps at_ p, at_)
      else (ROk, p :: ps, O)
  end.

(* index.update *)
Definition idx_update (ps : list ptr) (p : ptr) : outcome * list ptr * nat :=
  match ps with
  | [] => (RErr, ps, O)
  | first :: _ =>
      let lastI := zlen ps - 1 in
      let lastp := last ps first in
      let at_ := if p_s p =? p_s lastp then lastI else fst (usearch ps (span0 (p_s p))) in
      match getp ps at_ with
      | None => (RErr, ps, O)
      | Some oldp =>
          if negb (p_s oldp =? p_s p) then (RErr, ps, O) else
          let nxt := if at_ =? lastI then false
                     else match getp ps (at_ + 1) with Some q => overlaps (ptr_tr q) (ptr_tr p) | None => false end in
          let prv := if at_ =? 0 then false
                     else match getp ps (at_ - 1) with Some q => overlaps (ptr_tr q) (ptr_tr p) | None => false end in
          if prv || nxt then (RConflict, ps, O)
          else (ROk, replace_at ps (Z.to_nat at_) p, Z.to_nat at_)
      end
  end.

(* ------------------------------------------------------------------ state *)
Inductive mode := MAlways | MLazy | MManual.

Record wr := mkWr { w_start : Z; w_file : N; w_off : N; w_len : N; w_prev : Z; w_fsize : N; w_mode : mode }.

Record st := mkSt {
  s_fs : dirst;                 (* the channel directory on disk *)
  s_out : list fsop;            (* calls issued by the current operation, most recent first *)
  s_ptrs : list ptr;            (* index.mu.pointers *)
  s_head : nat;                 (* index.persistHead (starts at 0, only ever lowered) *)
  s_ctr : N;                    (* fileController.counter *)
  s_open : list (N * bool);     (* fileController.writers.open : key -> in use *)
  s_unop : list N;              (* fileController.writers.unopened *)
  s_ws : list (N * wr);         (* open domain writers, by script id *)
  s_cap : N;                    (* the file size cap cesium was opened with *)
  s_thr : Z                     (* int64(GCThreshold * float32(FileSize)) *)
}.

Definition set_fs_out (s : st) fs out := mkSt fs out (s_ptrs s) (s_head s) (s_ctr s) (s_open s) (s_unop s) (s_ws s) (s_cap s) (s_thr s).
Definition set_ptrs (s : st) ps := mkSt (s_fs s) (s_out s) ps (s_head s) (s_ctr s) (s_open s) (s_unop s) (s_ws s) (s_cap s) (s_thr s).
Definition set_head (s : st) h := mkSt (s_fs s) (s_out s) (s_ptrs s) h (s_ctr s) (s_open s) (s_unop s) (s_ws s) (s_cap s) (s_thr s).
Definition set_ctr (s : st) c := mkSt (s_fs s) (s_out s) (s_ptrs s) (s_head s) c (s_open s) (s_unop s) (s_ws s) (s_cap s) (s_thr s).
Definition set_open (s : st) o := mkSt (s_fs s) (s_out s) (s_ptrs s) (s_head s) (s_ctr s) o (s_unop s) (s_ws s) (s_cap s) (s_thr s).
Definition set_unop (s : st) u := mkSt (s_fs s) (s_out s) (s_ptrs s) (s_head s) (s_ctr s) (s_open s) u (s_ws s) (s_cap s) (s_thr s).
Definition set_ws (s : st) w := mkSt (s_fs s) (s_out s) (s_ptrs s) (s_head s) (s_ctr s) (s_open s) (s_unop s) w (s_cap s) (s_thr s).

(* the only way the model touches the disk: issue one call *)
Definition emit (s : st) (o : fsop) : st := set_fs_out s (apply (s_fs s) o) (o :: s_out s).
Definition emits (s : st) (l : list fsop) : st := fold_left emit l s.

Definition round_ratio (num den x : N) : N := ((2 * num * x + den) / (2 * den))%N.
(* domain.Config.Override: FileSize = round(0.8 * cap) *)
Definition nominal (s : st) : N := round_ratio nominal_num nominal_den (s_cap s).
(* fileController.realFileSizeCap = round(1.25 * FileSize) *)
Definition real_cap (s : st) : N := round_ratio real_num real_den (nominal s).

Definition dget (d : dirst) (f : fname) : option bytes :=
  match d with Some fs => fget fs f | None => None end.
Definition flen (s : st) (k : N) : N :=
  match dget (s_fs s) (FData k) with Some d => N.of_nat (length d) | None => 0%N end.
Definition fexists (s : st) (f : fname) : bool :=
  match dget (s_fs s) f with Some _ => true | None => false end.

Fixpoint assoc {A} (l : list (N * A)) (k : N) : option A :=
  match l with [] => None | (x, a) :: r => if N.eqb x k then Some a else assoc r k end.
Fixpoint assoc_set {A} (l : list (N * A)) (k : N) (a : A) : list (N * A) :=
  match l with
  | [] => [(k, a)]
  | (x, b) :: r => if N.eqb x k then (x, a) :: r else (x, b) :: assoc_set r k a
  end.
Fixpoint assoc_del {A} (l : list (N * A)) (k : N) : list (N * A) :=
  match l with [] => [] | (x, b) :: r => if N.eqb x k then assoc_del r k else (x, b) :: assoc_del r k end.
Definition nmem (k : N) (l : list N) : bool := existsb (N.eqb k) l.
Definition nremove (k : N) (l : list N) : list N := filter (fun x => negb (N.eqb x k)) l.

(* indexPersist.prepare(start) followed by the returned closure:
   Truncate(len(pointers)*26) THEN WriteAt(encode(pointers[start:]), start*26) *)
Definition persist (s : st) (start : nat) : st :=
  let n := N.of_nat (length (s_ptrs s)) in
  let s1 := emit s (OTrunc FIndex (n * ptr_size)%N) in
  emit s1 (OWrite true FIndex (N.of_nat start * ptr_size)%N (encode_ptrs (skipn start (s_ptrs s)))).

(* ------------------------------------------------------------------ file controller *)
Definition pick (hint : N) (cands : list N) : option N :=
  match cands with
  | [] => None
  | c :: _ => Some (if nmem hint cands then hint else c)
  end.

(* acquireWriter / newWriter.  hint: the key the implementation chose where Go's map
   iteration order decides among several equally eligible files (0 = no hint). *)
Definition acquire (s : st) (hint : N) : st * N * N :=
  let free := map fst (filter (fun kb => negb (snd kb) && N.ltb (flen s (fst kb)) (nominal s)) (s_open s)) in
  match pick hint free with
  | Some k => (set_open s (assoc_set (s_open s) k true), k, flen s k)
  | None =>
      let notlast := filter (fun k => negb (N.eqb k (s_ctr s))) (s_unop s) in
      let cands := match notlast with [] => filter (N.eqb (s_ctr s)) (s_unop s) | _ => notlast end in
      match pick hint cands with
      | Some k =>
          let s1 := set_unop s (nremove k (s_unop s)) in
          (set_open s1 (assoc_set (s_open s1) k true), k, flen s k)
      | None =>
          let k := (s_ctr s + 1)%N in
          let s1 := emit (set_ctr s k) (OWrite true FCounter 0 (le_bytes 4 k)) in
          let s2 := emit s1 (OCreate (FData k)) in
          (set_open s2 (assoc_set (s_open s2) k true), k, 0%N)
      end
  end.

Definition release (s : st) (k : N) : st :=
  match assoc (s_open s) k with
  | Some _ => set_open s (assoc_set (s_open s) k false)
  | None => s
  end.

(* ------------------------------------------------------------------ operations *)
Inductive dop :=
| DCreate (meta : bytes)
| DOpenW (w : N) (start : Z) (md : mode) (hint : N)
| DWrite (w : N) (bs : bytes)
| DCommit (w : N) (e : Z) (hint : N)
| DCloseW (w : N)
| DDelete (a b : Z) (res : list (Z * (N * Z * N * Z)))
    (* res: for a domain starting at the key, what the unary layer's calculateStartOffset(a)
       and calculateEndOffset(b) return: (start byte offset, snapped a, end byte offset, snapped b) *)
| DGC
| DReopen
| DDelChan
| DWriteFail (w : N) (bs : bytes) (j : nat)
    (* an I/O fault that does not kill the process: File.Write stored only the first j bytes
       of bs and returned an error (short write, e.g. disk full) *)
| DCommitTF (w : N) (e : Z).
    (* a commit whose index persist failed at its first call: Truncate returned an error
       (nothing reached the file) *)

Definition fresh (cap : N) (thr : Z) (fs : dirst) : st := mkSt fs [] [] O 0%N [] [] [] cap thr.

(* meta.Create then domain.Open on the new directory *)
Definition do_create (s : st) (meta : bytes) : st * outcome :=
  let s0 := emit s OMkdir in
  let s1 := match dget (s_fs s0) FMetaTmp with
            | Some [] => s0
            | Some _ => emit s0 (OTrunc FMetaTmp 0)
            | None => emit s0 (OCreate FMetaTmp)
            end in
  let s2 := emit s1 (OWrite false FMetaTmp 0 meta) in
  let s3 := emit s2 (ORename FMetaTmp FMeta) in
  let s4 := if fexists s3 FIndex then s3 else emit s3 (OCreate FIndex) in
  let s5 := if fexists s4 FCounter then s4 else emit s4 (OCreate FCounter) in
  (s5, ROk).

Definition do_openw (s : st) (w : N) (start : Z) (md : mode) (hint : N) : st * outcome :=
  if snd (usearch (s_ptrs s) (span0 start)) then (s, RConflict) else
  let '(s1, k, size) := acquire s hint in
  (set_ws s1 (assoc_set (s_ws s1) w (mkWr start k size 0 0 size md)), ROk).

(* File.Write through the pooled handle: the handle's write position is the end of the file
   (files are created empty or opened O_APPEND, and the pool hands a file to one writer at a
   time) *)
Definition do_write (s : st) (w : N) (bs : bytes) : st * outcome :=
  match assoc (s_ws s) w with
  | None => (s, RSkip)
  | Some x =>
      let n := N.of_nat (length bs) in
      let s1 := match bs with
                | [] => s
                | _ => emit s (OWrite false (FData (w_file x)) (flen s (w_file x)) bs)
                end in
      (set_ws s1 (assoc_set (s_ws s1) w
         (mkWr (w_start x) (w_file x) (w_off x) (w_len x + n) (w_prev x) (w_fsize x + n) (w_mode x))), ROk)
  end.

(* A short write.  The j bytes are in the append-only file; trackedWriteCloser.Write adds
   the returned count to its length whether or not File.Write also returned an error
   (x/go/io/tracked.go), and domain.Writer.Write does the same with fileSize and len, so the
   writer's tracked position stays the end of the file and the next holder of the pooled
   handle (tryAcquire -> Reset: offset += len) starts exactly there.  The caller gets the
   error. *)
Definition do_writefail (s : st) (w : N) (bs : bytes) (j : nat) : st * outcome :=
  let '(s', r) := do_write s w (firstn j bs) in
  (s', match r with ROk => RErr | _ => r end).

Definition do_commit (s : st) (w : N) (e : Z) (hint : N) : st * outcome :=
  match assoc (s_ws s) w with
  | None => (s, RSkip)
  | Some x =>
      if N.eqb (w_len x) 0 then (s, ROk) else
      let switching := N.leb (real_cap s) (w_fsize x) in
      if negb (w_prev x =? 0) && negb switching && (e <? w_prev x) then (s, RErr) else
      if negb (w_start x <? e) then (s, RErr) else
      let p := mkPtr (w_start x) e (w_file x) (u32 (w_off x)) (u32 (w_len x)) in
      let '(r, ps, at_) := if w_prev x =? 0 then idx_insert (s_ptrs s) p else idx_update (s_ptrs s) p in
      match r with
      | ROk =>
          let s1 := set_head (set_ptrs s ps) (Nat.min (s_head s) at_) in
          let s2 := match w_mode x with MLazy => s1 | _ => persist s1 (s_head s1) end in
          if switching then
            let s3 := release s2 (w_file x) in
            let '(s4, k, size) := acquire s3 hint in
            (set_ws s4 (assoc_set (s_ws s4) w (mkWr e k size 0 0 size (w_mode x))), ROk)
          else
            (set_ws s2 (assoc_set (s_ws s2) w
               (mkWr (w_start x) (w_file x) (w_off x) (w_len x) e (w_fsize x) (w_mode x))), ROk)
      | _ => (s, r)
      end
  end.

(* Writer.commit when indexPersist's Truncate returns an error: index.insert / index.update
   have already changed the in-memory pointers, the closure returns the error before its
   WriteAt, and commit returns it before the rollover and before prevCommit is updated.
   The pointer stays committed in memory, unpersisted.  (A lazily persisted commit does
   not touch the file, so there is nothing to fail.) *)
Definition do_commit_tf (s : st) (w : N) (e : Z) : st * outcome :=
  match assoc (s_ws s) w with
  | None => (s, RSkip)
  | Some x =>
      match w_mode x with
      | MLazy => do_commit s w e 0
      | _ =>
          if N.eqb (w_len x) 0 then (s, ROk) else
          let switching := N.leb (real_cap s) (w_fsize x) in
          if negb (w_prev x =? 0) && negb switching && (e <? w_prev x) then (s, RErr) else
          if negb (w_start x <? e) then (s, RErr) else
          let p := mkPtr (w_start x) e (w_file x) (u32 (w_off x)) (u32 (w_len x)) in
          let '(r, ps, at_) := if w_prev x =? 0 then idx_insert (s_ptrs s) p else idx_update (s_ptrs s) p in
          match r with
          | ROk => (set_head (set_ptrs s ps) (Nat.min (s_head s) at_), RErr)
          | _ => (s, r)
          end
      end
  end.

Definition do_closew (s : st) (w : N) : st * outcome :=
  match assoc (s_ws s) w with
  | None => (s, RSkip)
  | Some x =>
      let s1 := set_ws (release s (w_file x)) (assoc_del (s_ws s) w) in
      match w_mode x with
      | MLazy => (persist s1 (s_head s1), ROk)
      | _ => (s1, ROk)
      end
  end.

Fixpoint zassoc {A} (l : list (Z * A)) (k : Z) : option A :=
  match l with [] => None | (x, a) :: r => if x =? k then Some a else zassoc r k end.

(* validateDelete: returns (proceed?, error?, clamped start offset, clamped end offset) *)
Definition validate_delete (sp ep : Z) (so eo : Z) (ps : list ptr) : bool * bool * Z * Z :=
  if sp =? zlen ps then (false, false, so, eo) else
  if ep =? -1 then (false, false, so, eo) else
  let so := Z.max so 0 in
  let eo := Z.max eo 0 in
  match getp ps sp, getp ps ep with
  | Some p1, Some p2 =>
      let l1 := Z.of_N (p_size p1) in
      let l2 := Z.of_N (p_size p2) in
      let so := Z.min so l1 in
      let eo := Z.min eo l2 in
      if (ep <? sp) && (negb (sp =? ep + 1) || negb (so =? 0) || negb (eo =? 0)) then (false, true, so, eo) else
      if (sp =? ep) && (l1 <? so + eo) then (false, true, so, eo) else
      if ((sp =? ep - 1) && (so =? l2) && (eo =? l2)) || ((sp =? ep) && (so + eo =? l1))
      then (false, false, so, eo)
      else (true, false, so, eo)
  | _, _ => (false, true, so, eo)     (* index out of range: the Go code would panic *)
  end.

(* domain.DB.Delete *)
Definition do_delete (s : st) (a b : Z) (res : list (Z * (N * Z * N * Z))) : st * outcome :=
  let ps := s_ptrs s in
  let '(i, exact) := usearch ps (span0 a) in
  let start_r :=
    if exact then
      match getp ps i with
      | Some p => match zassoc res (p_s p) with
                  | Some (so, a', _, _) => Some (i, p, Z.of_N so, a')
                  | None => None
                  end
      | None => None
      end
    else if i + 1 =? zlen ps then None
    else match getp ps (i + 1) with Some p => Some (i + 1, p, 0, p_s p) | None => None end in
  match start_r with
  | None => (s, if exact then RErr else ROk)      (* delete nothing, or resolver answer missing *)
  | Some (sd, startp, so, a') =>
      let '(j, exact2) := usearch ps (span0 b) in
      let end_r :=
        if exact2 then
          match getp ps j with
          | Some p => match zassoc res (p_s p) with
                      | Some (_, _, eo, b') => Some (j, p, Z.of_N (p_size p) - Z.of_N eo, b')
                      | None => None
                      end
          | None => None
          end
        else if j =? -1 then None
        else match getp ps j with Some p => Some (j, p, 0, p_e p) | None => None end in
      match end_r with
      | None => (s, if exact2 then RErr else ROk)
      | Some (ed, endp, eo, b') =>
          let '(go, err, so, eo) := validate_delete sd ed so eo ps in
          if err then (s, RErr) else
          if negb go then (s, ROk) else
          let sdn := Z.to_nat sd in
          let kept := firstn sdn ps ++ skipn (Z.to_nat (ed + 1)) ps in
          let np1 := if so =? 0 then []
                     else [mkPtr (p_s startp) a' (p_file startp) (p_off startp) (u32 (Z.to_N so))] in
          let np2 := if eo =? 0 then []
                     else [mkPtr b' (p_e endp) (p_file endp)
                                 (u32 (p_off endp + p_size endp + two32 - u32 (Z.to_N eo)))
                                 (u32 (Z.to_N eo))] in
          let ps' := firstn sdn kept ++ np1 ++ np2 ++ skipn sdn kept in
          (persist (set_ptrs s ps') sdn, ROk)
      end
  end.

(* ------------------------------------------------------------------ garbage collection *)
Definition read_range (s : st) (k off size : N) : option bytes :=
  match dget (s_fs s) (FData k) with
  | None => None
  | Some d =>
      if N.ltb off (N.of_nat (length d)) && N.leb (off + size) (N.of_nat (length d))
      then Some (firstn (N.to_nat size) (skipn (N.to_nat off) d))
      else None
  end.

Fixpoint dmap_set (m : list (trange * N)) (k : trange) (v : N) : list (trange * N) :=
  match m with
  | [] => [(k, v)]
  | (x, y) :: r => if tr_eqb x k then (x, v) :: r else (x, y) :: dmap_set r k v
  end.
Fixpoint dmap_resolve (m : list (trange * N)) (r : trange) : option N :=
  match m with
  | [] => None
  | (x, d) :: m' => if contains_range x r then Some d else dmap_resolve m' r
  end.

(* the copy loop of garbageCollectFile: returns None when a ReadAt fails (GC aborts) *)
Fixpoint gc_copy (s : st) (k : N) (ps : list ptr) (wpos : N) (newoff : N) (dm : list (trange * N))
  : option (st * N * list (trange * N)) :=
  match ps with
  | [] => Some (s, newoff, dm)
  | p :: r =>
      match read_range s k (p_off p) (p_size p) with
      | None => None
      | Some buf =>
          let s1 := match buf with [] => s | _ => emit s (OWrite false (FGc k) wpos buf) end in
          let dm1 := if N.eqb newoff (p_off p) then dm
                     else dmap_set dm (ptr_tr p) (u32 (p_off p + two32 - newoff)) in
          gc_copy s1 k r (wpos + N.of_nat (length buf))%N (u32 (newoff + N.of_nat (length buf))) dm1
      end
  end.

(* garbageCollectFile(key, size): (state, aborted?) *)
Definition gc_file (s : st) (k : N) : st * bool :=
  let size := Z.of_N (flen s k) in
  let was_unop := nmem k (s_unop s) in
  let s0 := set_unop s (nremove k (s_unop s)) in
  let mine := filter (fun p => N.eqb (p_file p) k) (s_ptrs s0) in
  let tomb := size - fold_left (fun acc p => acc + Z.of_N (p_size p)) mine 0 in
  if tomb <? s_thr s0 then ((if was_unop then set_unop s0 (s_unop s0 ++ [k]) else s0), false) else
  let s1 := if fexists s0 (FGc k) then s0 else emit s0 (OCreate (FGc k)) in
  match gc_copy s1 k mine 0 0 [] with
  | None => (s1, true)
  | Some (s2, _, dm) =>
      let ps' := map (fun p =>
                   if N.eqb (p_file p) k then
                     match dmap_resolve dm (ptr_tr p) with
                     | Some d => mkPtr (p_s p) (p_e p) (p_file p) (u32 (p_off p + two32 - d)) (p_size p)
                     | None => p
                     end
                   else p) (s_ptrs s2) in
      let s3 := set_ptrs s2 ps' in
      let s4 := emit s3 (ORename (FData k) (FTmp k)) in
      let s5 := emit s4 (ORename (FGc k) (FData k)) in
      let s6 := if N.ltb (flen s5 k) (nominal s5) then set_unop s5 (s_unop s5 ++ [k]) else s5 in
      (emit s6 (ORemove (FTmp k)), false)
  end.

Fixpoint gc_loop (s : st) (keys : list N) : st * bool :=
  match keys with
  | [] => (s, false)
  | k :: r =>
      match assoc (s_open s) k with
      | Some _ => gc_loop s r
      | None =>
          if negb (fexists s (FData k)) then (s, true) else
          let '(s1, ab) := gc_file s k in
          if ab then (s1, true) else gc_loop s1 r
      end
  end.

Definition nseq1 (n : N) : list N := map N.of_nat (seq 1 (N.to_nat n)).

(* domain.DB.GarbageCollect *)
Definition do_gc (s : st) : st * outcome :=
  (* gcWriters: close the free writers of oversize files *)
  let s0 := set_open s (filter (fun kb => negb (N.leb (nominal s) (flen s (fst kb)) && negb (snd kb))) (s_open s)) in
  let '(s1, ab) := gc_loop s0 (nseq1 (s_ctr s0)) in
  if ab then (s1, RErr) else (persist s1 O, ROk).

(* ------------------------------------------------------------------ recover *)
(* what domain.Open reconstructs from the directory: index.domain decoded without any
   validation, counter.domain (fewer than 4 bytes read as 0), the files that may still take
   a writer.  It creates index.domain / counter.domain when they are missing. *)
Definition load_counter (d : dirst) : N :=
  match dget d FCounter with
  | Some bs => if (length bs <? 4)%nat then 0%N else le_val (firstn 4 bs)
  | None => 0%N
  end.

Definition recover (cap : N) (thr : Z) (d : dirst) : st :=
  let s0 := fresh cap thr d in
  let s1 := if fexists s0 FIndex then s0 else emit s0 (OCreate FIndex) in
  let ps := match dget (s_fs s1) FIndex with Some bs => decode_ptrs bs | None => [] end in
  let s2 := set_ptrs s1 ps in
  let s3 := if fexists s2 FCounter then s2 else emit s2 (OCreate FCounter) in
  let c := load_counter (s_fs s3) in
  let s4 := set_ctr s3 c in
  set_unop s4 (filter (fun k => fexists s4 (FData k) && N.ltb (flen s4 k) (nominal s4)) (nseq1 c)).

Definition do_reopen (s : st) : st * outcome :=
  match s_ws s with
  | [] => let r := recover (s_cap s) (s_thr s) (s_fs s) in (set_fs_out r (s_fs r) (s_out r ++ s_out s), ROk)
  | _ => (s, RErr)
  end.

Definition do_delchan (s : st) : st * outcome :=
  let s1 := emit (emit s ORenameDir) ORemoveDir in
  (set_fs_out (fresh (s_cap s) (s_thr s) (s_fs s1)) (s_fs s1) (s_out s1), ROk).

Definition clear_out (s : st) : st := set_fs_out s (s_fs s) [].

(* one operation: new state, the calls it issued in issue order, its outcome *)
Definition step (s : st) (o : dop) : st * list fsop * outcome :=
  let s := clear_out s in
  let '(s', r) :=
    match o with
    | DCreate meta => do_create s meta
    | DOpenW w start md hint => do_openw s w start md hint
    | DWrite w bs => do_write s w bs
    | DCommit w e hint => do_commit s w e hint
    | DCloseW w => do_closew s w
    | DDelete a b res => do_delete s a b res
    | DGC => do_gc s
    | DReopen => do_reopen s
    | DDelChan => do_delchan s
    | DWriteFail w bs j => do_writefail s w bs j
    | DCommitTF w e => do_commit_tf s w e
    end in
  (clear_out s', rev (s_out s'), r).

Fixpoint run (s : st) (h : list dop) : st * list (list fsop) * list outcome :=
  match h with
  | [] => (s, [], [])
  | o :: r =>
      let '(s1, es, oc) := step s o in
      let '(s2, ess, ocs) := run s1 r in
      (s2, es :: ess, oc :: ocs)
  end.

Definition init (cap : N) (thr : Z) : st := fresh cap thr None.

(* the complete mutation log of a history *)
Definition fslog (cap : N) (thr : Z) (h : list dop) : list fsop :=
  concat (snd (fst (run (init cap thr) h))).

(* ------------------------------------------------------------------ reading back *)
(* Iterator.reload with Bounds = TimeRangeMax *)
Definition bounds_max : trange := (0, ts_max).
Definition reload (ps : list ptr) (pos : Z) : option ptr :=
  if pos =? -1 then None else
  match getp ps pos with
  | Some p => if overlaps (ptr_tr p) bounds_max then Some p else None
  | None => None
  end.

(* the bytes a pointer designates (Reader over a section of <file>.domain) *)
Definition read_d (d : dirst) (p : ptr) : option bytes :=
  match dget d (FData (p_file p)) with
  | None => None
  | Some data =>
      if N.eqb (p_size p) 0 then Some [] else
      if N.leb (p_off p + p_size p) (N.of_nat (length data))
      then Some (firstn (N.to_nat (p_size p)) (skipn (N.to_nat (p_off p)) data))
      else None
  end.
Definition read_ptr (s : st) (p : ptr) : option bytes := read_d (s_fs s) p.

(* index.refresh: DB.newReader re-reads the pointer of the domain (same time range, same
   file) from the index after it acquired the file reader *)
Definition refresh (ps : list ptr) (p : ptr) : ptr :=
  let '(i, ok) := usearch ps (ptr_tr p) in
  if ok then
    match getp ps i with
    | Some cur => if tr_eqb (ptr_tr cur) (ptr_tr p) && N.eqb (p_file cur) (p_file p) then cur else p
    | None => p
    end
  else p.

Fixpoint list_from (fuel : nat) (s : st) (pos : Z) : list (Z * Z * option bytes) :=
  match fuel with
  | O => []
  | S f =>
      match reload (s_ptrs s) pos with
      | None => []
      | Some p => (p_s p, p_e p, read_ptr s (refresh (s_ptrs s) p)) :: list_from f s (pos + 1)
      end
  end.

(* SeekFirst; Next* over TimeRangeMax, with the bytes of every domain visited *)
Definition dlist (s : st) : list (Z * Z * option bytes) :=
  list_from (S (length (s_ptrs s))) s (search_ge (s_ptrs s) 0).

(* SeekLE(x) lands on a domain containing x *)
Definition seek_found (s : st) (x : Z) : option trange :=
  match reload (s_ptrs s) (search_le (s_ptrs s) x) with
  | Some p => if contains_stamp (ptr_tr p) x then Some (ptr_tr p) else None
  | None => None
  end.

(* ------------------------------------------------------------------ what a restart sees *)
(* the pointers domain.Open loads: index.domain decoded as it is *)
Definition disk_ptrs (d : dirst) : list ptr :=
  match dget d FIndex with Some bs => decode_ptrs bs | None => [] end.
Definition has_meta (d : dirst) : bool := match dget d FMeta with Some _ => true | None => false end.

(* the content of the directory as cesium serves it after a restart: is the channel there
   (None: no directory), can it be opened (meta.json present), and every pointer of the
   decoded index with the bytes it designates *)
Record view := mkView { v_meta : bool; v_doms : list (ptr * option bytes) }.

Definition view_of (d : dirst) : option view :=
  match d with
  | None => None
  | Some _ => Some (mkView (has_meta d) (map (fun p => (p, read_d d p)) (disk_ptrs d)))
  end.

(* ------------------------------------------------------------------ the three windows *)
(* Recognised on the mutation log of one directory.  wi_trunc: an index Truncate that
   changed the file length has been issued and its WriteAt has not completed;
   wi_gc: GC renamed a data file away and the index has not been rewritten since;
   wi_torn: the image ends in a torn index WriteAt; dir/meta: the directory exists / has
   its meta.json. *)
Record win := mkWin { wi_dir : bool; wi_meta : bool; wi_idxlen : N; wi_trunc : bool; wi_gc : bool; wi_torn : bool }.
Definition win0 : win := mkWin false false 0 false false false.

Definition win_step (w : win) (o : fsop) : win :=
  match o with
  | OMkdir => mkWin true false 0 false false false
  | ORenameDir => win0
  | ORename _ FMeta | OCreate FMeta => mkWin (wi_dir w) true (wi_idxlen w) (wi_trunc w) (wi_gc w) false
  | OTrunc FIndex n => mkWin (wi_dir w) (wi_meta w) n (wi_trunc w || negb (N.eqb n (wi_idxlen w))) (wi_gc w) false
  | OWrite _ FIndex off bs =>
      mkWin (wi_dir w) (wi_meta w) (N.max (wi_idxlen w) (off + N.of_nat (length bs))) false false false
  | ORename (FData _) (FTmp _) => mkWin (wi_dir w) (wi_meta w) (wi_idxlen w) (wi_trunc w) true false
  | _ => w
  end.

Definition win_torn (w : win) (o : fsop) : win :=
  match o with
  | OWrite _ FIndex _ _ => mkWin (wi_dir w) (wi_meta w) (wi_idxlen w) (wi_trunc w) (wi_gc w) true
  | _ => w
  end.

(* classes: 1 = channel directory without meta.json, 2 = between a length-changing index
   Truncate and its WriteAt, 3 = torn index WriteAt, 4 = between GC's file swap and the
   index rewrite, 0 = outside every window *)
Definition win_class (w : win) : nat :=
  if wi_dir w && negb (wi_meta w) then 1%nat
  else if wi_torn w then 3%nat
  else if wi_trunc w then 2%nat
  else if wi_gc w then 4%nat
  else 0%nat.

Definition win_after (l : list fsop) : win := fold_left win_step l win0.

(* window state of the crash image (k, t) of a log *)
Definition win_image (log : list fsop) (k t : nat) : win :=
  let w := win_after (firstn k log) in
  match t, nth_error log k with
  | S _, Some o => win_torn w o
  | _, _ => w
  end.

(* ------------------------------------------------------------------ side conditions *)
(* Decidable conditions on a history under which the theorems are stated; each is
   evaluated on every generated case by the correspondence check. *)
Definition in_i64 (z : Z) : bool := (- two63 <=? z) && (z <? two63).
Definition wf_ptr (p : ptr) : bool :=
  in_i64 (p_s p) && in_i64 (p_e p) && N.ltb (p_file p) 65536 && N.ltb (p_off p) two32 && N.ltb (p_size p) two32.

Definition inrb (d : dirst) (p : ptr) : bool :=
  match dget d (FData (p_file p)) with
  | Some data => N.leb (p_off p + p_size p) (N.of_nat (length data))
  | None => false
  end.

Fixpoint distinct (l : list N) : bool :=
  match l with [] => true | x :: r => negb (nmem x r) && distinct r end.

(* the position a delete persists from, when it changes the index (mirrors do_delete) *)
Definition delete_start (s : st) (a : Z) : nat :=
  let '(i, exact) := usearch (s_ptrs s) (span0 a) in
  Z.to_nat (if exact then i else i + 1).

Definition legal_step (s : st) (o : dop) (s' : st) (oc : outcome) : bool :=
  (* operations come in a sensible order: a directory is created once, used while it exists *)
  match o, s_fs s with
  | DCreate _, None => match s_ws s with [] => true | _ => false end
  | DCreate _, Some _ => false
  | _, None => false
  | _, Some fs => match fget fs FIndex with Some _ => true | None => false end
  end &&
  (* every pointer is representable in the 26-byte record *)
  forallb wf_ptr (s_ptrs s') &&
  (* the file a writer holds exists *)
  forallb (fun iw => fexists s' (FData (w_file (snd iw)))) (s_ws s') &&
  match o with
  | DGC =>
      (* GC completed and its result is well formed (C04's subject): pointers inside the
         rewritten files, writers' tracked positions inside theirs *)
      outcome_eqb oc ROk && forallb (inrb (s_fs s')) (s_ptrs s') &&
      forallb (fun iw => N.leb (w_off (snd iw) + w_len (snd iw)) (flen s' (w_file (snd iw)))) (s_ws s')
  | DDelete a _ _ =>
      (* everything before the position the delete persists from is already on disk
         (cesium's control gate keeps deletes off the range of an open writer) *)
      let n := delete_start s a in
      list_beq ptr ptr_eqb (firstn n (disk_ptrs (s_fs s))) (firstn n (s_ptrs s)) &&
      (* the pointers a delete leaves designate bytes inside their files (C04's subject) *)
      forallb (inrb (s_fs s')) (s_ptrs s')
  | DOpenW w _ _ _ => match assoc (s_ws s) w with None => true | Some _ => false end
  | DReopen => match s_ws s with [] => true | _ => false end
  | _ => true
  end.

Fixpoint legal_run (s : st) (h : list dop) : bool :=
  match h with
  | [] => true
  | o :: r => let '(s', _, oc) := step s o in legal_step s o s' oc && legal_run s' r
  end.

Definition legal (cap : N) (thr : Z) (h : list dop) : bool := legal_run (init cap thr) h.
