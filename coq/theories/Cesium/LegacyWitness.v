(* Cesium/LegacyWitness.v — concrete layouts and command sequences on which the stepping code
   of the pinned upstream tree ([legacy = true]) violates the statement of C10, and on which
   the code /repo carries ([legacy = false]) satisfies it.  Evaluated by vm_compute. *)
From Coq Require Import ZArith List Bool.
From Synnax Require Import Cesium.Store Cesium.IndexSearch Cesium.Distance Cesium.Stamp Cesium.UnaryIter
     Cesium.UnaryWrite Cesium.Read Monitors.Mon_C10.
Import ListNotations.
Local Open Scope Z_scope.

(* an index channel written by two sessions: [10,21) with stamps 12 15 20 (writer start before
   the first sample) and [30,36) with stamps 30 31 35 *)
Definition w_idx : list dom := [Dom (TR 10 21) [12; 15; 20]; Dom (TR 30 36) [30; 31; 35]].
(* its data channel *)
Definition w_dat : list dom := [Dom (TR 10 21) [100; 101; 102]; Dom (TR 30 36) [103; 104; 105]].
Definition w_truth : assoc := [(12, 100); (15, 101); (20, 102); (30, 103); (31, 104); (35, 105)].
Definition w_bounds : tr := TR 0 MAXTS.

Definition w_obs (legacy : bool) (chunk : Z) (cmds : list cmd) : list obs :=
  u_run w_idx w_dat false chunk legacy (u_open w_bounds) cmds.
Definition w_ok (legacy : bool) (chunk : Z) (cmds : list cmd) : bool :=
  ok_C10 w_truth w_bounds cmds (w_obs legacy chunk cmds).

(* (a) automatic steps from a view that does not start on a sample return the sample at the
       view end and return it again on the next step *)
Definition lw_auto : list cmd := [SeekFirst; NextAuto; NextAuto].
(* (b) a forward walk loses the rest of a domain after a view without samples *)
Definition lw_skip : list cmd := [SeekFirst; Next 3; Next 1; Next 100].
(* (c) a step back after the domain iterator ran off the end returns nothing *)
Definition lw_back : list cmd := [SeekFirst; Next 1000; Next 5; Prev 990].

Lemma legacy_auto_refuted : w_ok true 2 lw_auto = false.
Proof. vm_compute. reflexivity. Qed.
Lemma legacy_skip_refuted : w_ok true 2 lw_skip = false.
Proof. vm_compute. reflexivity. Qed.
Lemma legacy_back_refuted : w_ok true 2 lw_back = false.
Proof. vm_compute. reflexivity. Qed.
Lemma fixed_witnesses_ok :
  w_ok false 2 lw_auto = true /\ w_ok false 2 lw_skip = true /\ w_ok false 2 lw_back = true.
Proof. vm_compute. auto. Qed.

(* (d) Distance over contiguous index domains: a range ending exactly at the end of the second
       domain was reported discontinuous by the upstream loop *)
Definition w_idx3 : list dom :=
  [Dom (TR 0 41) [0; 10; 20; 30; 40]; Dom (TR 41 91) [50; 60; 70; 80; 90]; Dom (TR 91 141) [100; 110; 120; 130; 140]].
Lemma legacy_distance_refuted :
  distance_legacy w_idx3 (TR 0 91) true = Err EDisc /\
  distance w_idx3 (TR 0 91) true = Ok (DA 9 10 true false).
Proof. vm_compute. auto. Qed.

(* (e) the known finding that stays: backwardStamp reads one stamp past the previous domain *)
Lemma backward_stamp_eof : stamp w_idx3 110 (-1) false = Err EEOF.
Proof. vm_compute. reflexivity. Qed.
(* ... and, when the wanted sample is the first of the first domain, the lower bound of the
   approximation would need a domain before it *)
Lemma backward_stamp_first : stamp w_idx3 51 (-6) false = Err EDisc.
Proof. vm_compute. reflexivity. Qed.
