(* Cesium/SliceProofs.v — sliceDomain is exact: for a data domain d that lies inside one index
   domain q and holds one sample per index stamp of its range, the series accumulated for a
   view v carries exactly the samples whose stamps lie in d ∩ v. *)
From Coq Require Import ZArith List Bool Lia Sorting.Sorted.
From Synnax Require Import Cesium.Store Cesium.StoreProofs Cesium.IndexSearch Cesium.IndexSearchProofs
     Cesium.Distance Cesium.Stamp Cesium.DomIterProofs Cesium.UnaryIter Cesium.DistanceProofs
     Cesium.UnaryIterExact Cesium.Read Cesium.LayoutOk.
Import ListNotations.
Local Open Scope Z_scope.

(* ---- counting and filtering on lists of stamps ---- *)

Lemma cnt_lt_cons ts x l : cnt_lt ts (x :: l) = (if x <? ts then 1 else 0) + cnt_lt ts l.
Proof. unfold cnt_lt, zlen. simpl. destruct (x <? ts); simpl length; lia. Qed.

Lemma cnt_lt_all_ge ts l : Forall (fun x => ts <= x) l -> cnt_lt ts l = 0.
Proof.
  induction 1 as [|x l Hx _ IH]; [reflexivity|]. rewrite cnt_lt_cons, IH.
  destruct (x <? ts) eqn:E; zb; lia.
Qed.

Lemma inc_tail x l : inc (x :: l) -> inc l /\ Forall (fun y => x < y) l.
Proof. intros H. inversion H; subst. split; assumption. Qed.

(* the pairs of (stamps, data) whose stamp lies in [lo, hi) are a contiguous segment of data *)
Lemma segment_of_range : forall (St data : list Z) lo hi,
  inc St -> length St = length data -> lo <= hi ->
  map snd (filter (fun p => contains_stamp (TR lo hi) (fst p)) (combine St data)) =
  firstn (Z.to_nat (cnt_lt hi St - cnt_lt lo St)) (skipn (Z.to_nat (cnt_lt lo St)) data).
Proof.
  induction St as [|x St IH]; intros data lo hi HI HL Hlh.
  - simpl. destruct data; [|discriminate]. unfold cnt_lt, zlen. simpl. reflexivity.
  - destruct data as [|y data]; [discriminate|]. simpl in HL. injection HL as HL.
    destruct (inc_tail _ _ HI) as [HI' HF].
    rewrite !cnt_lt_cons. cbn [combine filter fst]. unfold contains_stamp at 1. cbn [t_s t_e].
    pose proof (cnt_lt_range lo St) as Rl. pose proof (cnt_lt_range hi St) as Rh.
    destruct (x <? lo) eqn:E1; zb.
    + assert (E2 : (x <? hi) = true) by (apply Z.ltb_lt; lia). rewrite E2.
      assert (E3 : (lo <=? x) = false) by (apply Z.leb_gt; lia). rewrite E3. cbn [andb].
      rewrite (IH data lo hi HI' HL Hlh).
      replace (1 + cnt_lt hi St - (1 + cnt_lt lo St)) with (cnt_lt hi St - cnt_lt lo St) by lia.
      replace (Z.to_nat (1 + cnt_lt lo St)) with (S (Z.to_nat (cnt_lt lo St))) by lia. reflexivity.
    + assert (E3 : (lo <=? x) = true) by (apply Z.leb_le; lia). rewrite E3. cbn [andb].
      assert (Cl : cnt_lt lo St = 0).
      { apply cnt_lt_all_ge. eapply Forall_impl; [|exact HF]. simpl. intros; lia. }
      rewrite Cl. cbn [Z.to_nat skipn Z.add].
      destruct (x <? hi) eqn:E2; zb.
      * cbn [map snd]. rewrite (IH data lo hi HI' HL Hlh). rewrite Cl. cbn [Z.to_nat skipn].
        replace (1 + cnt_lt hi St - 0) with (1 + cnt_lt hi St) by lia.
        replace (Z.to_nat (1 + cnt_lt hi St)) with (S (Z.to_nat (cnt_lt hi St))) by lia.
        rewrite Z.sub_0_r. reflexivity.
      * assert (Ch : cnt_lt hi St = 0).
        { apply cnt_lt_all_ge. eapply Forall_impl; [|exact HF]. simpl. intros; lia. }
        rewrite (IH data lo hi HI' HL Hlh). rewrite Ch, Cl. reflexivity.
Qed.

(* counting below t inside a range [a, e) of any list *)
Lemma cnt_lt_stamps_in a e t l : a <= t <= e ->
  cnt_lt t (stamps_in (TR a e) l) = cnt_lt t l - cnt_lt a l.
Proof.
  intros H. induction l as [|x l IH]; [reflexivity|].
  unfold stamps_in in *. cbn [filter]. unfold contains_stamp at 1. cbn [t_s t_e].
  rewrite !(cnt_lt_cons _ x l).
  destruct (a <=? x) eqn:E1, (x <? e) eqn:E2; zb; cbn [andb]; rewrite ?cnt_lt_cons, IH;
    destruct (x <? t) eqn:E3, (x <? a) eqn:E4; zb; lia.
Qed.

Lemma stamps_in_len a e l : a <= e -> zlen (stamps_in (TR a e) l) = cnt_lt e l - cnt_lt a l.
Proof.
  intros H. induction l as [|x l IH]; [reflexivity|].
  unfold stamps_in in *. cbn [filter]. unfold contains_stamp at 1. cbn [t_s t_e].
  rewrite !(cnt_lt_cons _ x l).
  destruct (a <=? x) eqn:E1, (x <? e) eqn:E2; zb; cbn [andb];
    try (unfold zlen in *; cbn [length]; rewrite Nat2Z.inj_succ); rewrite IH;
    destruct (x <? a) eqn:E4; zb; lia.
Qed.

Lemma tr_eta (t : tr) : t = TR (t_s t) (t_e t).
Proof. destruct t; reflexivity. Qed.

Lemma inc_filter f l : inc l -> inc (filter f l).
Proof.
  induction 1 as [|x l S IH F]; simpl; [constructor|].
  destruct (f x); [|exact IH]. constructor; [exact IH|].
  rewrite Forall_forall in *. intros y Hy. apply filter_In in Hy. apply F, Hy.
Qed.

Lemma firstn_skipn_nil {A} (l : list A) n : (length l <= n)%nat -> forall m, firstn m (skipn n l) = [].
Proof. intros H m. rewrite skipn_all2 by exact H. destruct m; reflexivity. Qed.

(* ---- one data domain over an index on which Distance resolves its range ---- *)

(* Distance resolves every range [a, t), t <= e, to the number of index stamps in it *)
Definition dist_ok (P : list dom) (a e : Z) : Prop :=
  forall t, a <= t <= e ->
  exists da, distance P (TR a t) true = Ok da /\
             pick_sample_offset da = cnt_lt t (stamps_of P) - cnt_lt a (stamps_of P).

Section Slice.
Variable P : list dom.
Variable var : bool.
Variable d : dom.
Hypothesis Hd : t_s (d_tr d) < t_e (d_tr d).
Hypothesis Hdist : dist_ok P (t_s (d_tr d)) (t_e (d_tr d)).
Hypothesis Hal : dlen d = zlen (stamps_in (d_tr d) (stamps_of P)).   (* one sample per index stamp *)

Variable v : tr.
Hypothesis Hv : t_s v < t_e v.
Hypothesis Hov : overlaps (d_tr d) v = true.

Let Q := stamps_of P.
Let ds := t_s (d_tr d).
Let de := t_e (d_tr d).
Let lo := Z.max ds (t_s v).
Let hi := Z.min de (t_e v).

Lemma ov_facts : ds < t_e v /\ t_s v < de /\ lo < hi /\ ds <= lo /\ hi <= de.
Proof.
  rewrite (overlaps_nonempty (d_tr d) v Hd Hv) in Hov. apply Z.ltb_lt in Hov.
  unfold lo, hi, ds, de. lia.
Qed.

Lemma total_cnt : dlen d = cnt_lt de Q - cnt_lt ds Q.
Proof.
  rewrite Hal. rewrite (tr_eta (d_tr d)). fold ds de. apply stamps_in_len. unfold ds, de. lia.
Qed.

Lemma cnt_mono a t : a <= t -> cnt_lt a Q <= cnt_lt t Q.
Proof.
  intros H. unfold cnt_lt, zlen.
  assert (Hl : forall l : list Z, (length (filter (fun x : Z => (x <? a)%Z) l) <= length (filter (fun x : Z => (x <? t)%Z) l))%nat).
  { induction l as [|x l IH]; simpl; [lia|]. destruct (x <? a)%Z eqn:Q1, (x <? t)%Z eqn:Q2; zb; simpl; lia. }
  specialize (Hl Q). lia.
Qed.

(* the offsets computed by sliceDomain *)
Definition offA : Z := cnt_lt lo Q - cnt_lt ds Q.
Definition offB : Z := cnt_lt hi Q - cnt_lt ds Q.

Lemma dist_to t : ds <= t <= de ->
  exists da, distance P (TR ds t) true = Ok da /\ pick_sample_offset da = cnt_lt t Q - cnt_lt ds Q.
Proof. intros Ht. apply Hdist. exact Ht. Qed.

Theorem dser_exact :
  dser P var d v =
  Ok (Ser (TR lo hi) (firstn (Z.to_nat (offB - offA)) (skipn (Z.to_nat offA) (d_data d)))).
Proof.
  destruct ov_facts as (F1 & F2 & F3 & F4 & F5).
  pose proof total_cnt as TC.
  pose proof (cnt_mono ds lo F4) as M1. pose proof (cnt_mono lo hi ltac:(lia)) as M2.
  pose proof (cnt_mono hi de F5) as M3.
  unfold dser, slice_domain.
  (* start *)
  assert (AS : exists da, approximate_start P (mk_it d v) = Ok da /\ pick_sample_offset da = offA).
  { unfold approximate_start, cur_tr, di_tr, mk_it. cbn [u_di di_cur u_view]. rewrite point_eq. fold ds.
    cbn [t_s]. unfold offA, lo.
    destruct (ds <? t_s v) eqn:E; zb.
    - rewrite Z.max_r by lia. apply dist_to. lia.
    - rewrite Z.max_l by lia. destruct (dist_to ds ltac:(lia)) as (da & H1 & H2). exists da. split; [exact H1|]. lia. }
  destruct AS as (da & -> & PA). cbn [rbind]. rewrite PA.
  assert (DL : dlen (di_cur (u_di (mk_it d v))) = dlen d) by reflexivity. rewrite DL.
  assert (BA : boff var (dlen d) offA = Ok offA).
  { unfold boff. unfold offA, offB in *.
    destruct (dlen d <=? cnt_lt lo Q - cnt_lt ds Q) eqn:E; zb.
    - f_equal. lia.
    - destruct ((cnt_lt lo Q - cnt_lt ds Q <? 0) && var) eqn:E2; [|reflexivity].
      apply andb_true_iff in E2. destruct E2 as [E2 _]. zb. lia. }
  rewrite BA. cbn [rbind].
  assert (AE : exists da, approximate_end P (mk_it d v) = Ok da /\ pick_sample_offset da = offB).
  { unfold approximate_end, cur_tr, di_tr, mk_it. cbn [u_di di_cur u_view]. fold ds de. unfold offB, hi.
    destruct (t_e v <? de) eqn:E; zb.
    - rewrite Z.min_r by lia. apply dist_to. lia.
    - rewrite Z.min_l by lia. eexists. split; [reflexivity|].
      unfold pick_sample_offset, da_exact. cbn [da_lo da_hi]. rewrite Z.eqb_refl. cbn [orb]. exact TC. }
  destruct AE as (db & -> & PB). cbn [rbind]. rewrite PB.
  assert (BB : boff var (dlen d) offB = Ok offB).
  { unfold boff. unfold offA, offB in *.
    destruct (dlen d <=? cnt_lt hi Q - cnt_lt ds Q) eqn:E; zb.
    - f_equal. lia.
    - destruct ((cnt_lt hi Q - cnt_lt ds Q <? 0) && var) eqn:E2; [|reflexivity].
      apply andb_true_iff in E2. destruct E2 as [E2 _]. zb. lia. }
  rewrite BB. cbn [rbind].
  unfold u_read. unfold offA, offB in *.
  destruct (cnt_lt hi Q - cnt_lt ds Q - (cnt_lt lo Q - cnt_lt ds Q) <? 0) eqn:E; zb; [lia|].
  f_equal. f_equal.
  - unfold cur_tr, di_tr, mk_it. cbn [u_di di_cur u_view].
    rewrite bound_by_inter by (fold ds de; lia). reflexivity.
  - cbn [mk_it u_di di_cur]. fold (dlen d).
    destruct ((cnt_lt lo Q - cnt_lt ds Q <? 0) || (zlen (d_data d) <=? cnt_lt lo Q - cnt_lt ds Q)) eqn:E2; [|reflexivity].
    apply orb_true_iff in E2. destruct E2 as [E2|E2]; zb; [lia|].
    symmetry. apply firstn_skipn_nil. unfold dlen, zlen in *. lia.
Qed.

End Slice.
