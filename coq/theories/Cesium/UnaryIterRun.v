(* Cesium/UnaryIterRun.v — exactness for every command sequence: after each command that does
   not report an error the frame holds exactly the stored samples of the reported view. *)
From Coq Require Import ZArith List Bool Lia Sorting.Sorted.
From Synnax Require Import Cesium.LayoutOk Cesium.Store Cesium.StoreProofs Cesium.IndexSearch Cesium.IndexSearchProofs
     Cesium.Distance Cesium.Stamp Cesium.DomIterProofs Cesium.UnaryIter Cesium.UnaryIterViews
     Cesium.DistanceProofs Cesium.UnaryIterExact Cesium.SliceProofs Cesium.UnaryIterSpec Cesium.Read
     Cesium.UnaryIterViewsRun.
Import ListNotations.
Local Open Scope Z_scope.

Section Run.
Variable P D : list dom.
Variable var : bool.
Variable chunk : Z.
Hypothesis HL : layout_ok P D.

Notation truth := (layout_assoc P D).
Notation step := (u_step P D var chunk false).

(* the domain iterator keeps the bounds of the unary iterator *)
Lemma accumulate_di i : u_di (fst (accumulate P var i)) = u_di i.
Proof. apply (accumulate_keeps P var i). Qed.

Lemma acc_loop_synced fwd fuel : forall i, di_b (u_di (acc_loop P D var fwd fuel i)) = di_b (u_di i).
Proof.
  induction fuel as [|f IH]; intros i; [reflexivity|]. cbn [acc_loop].
  assert (Hd : di_b (fst ((if fwd then di_next else di_prev) D (u_di i))) = di_b (u_di i))
    by (destruct fwd; [apply next_b|apply prev_b]).
  destruct ((if fwd then di_next else di_prev) D (u_di i)) as [d ok]. cbn [fst] in Hd.
  destruct ok; cbn [negb]; [|exact Hd].
  pose proof (accumulate_di (u_set_di i d)) as A.
  destruct (accumulate P var (u_set_di i d)) as [i1 ok1]. cbn [fst] in A.
  assert (H1 : di_b (u_di i1) = di_b (u_di i)) by (rewrite A; exact Hd).
  destruct ok1; cbn [negb]; [|exact H1]. destruct (satisfied i1); [exact H1|]. rewrite IH. exact H1.
Qed.

Lemma fwd_body_synced i : di_b (u_di (fwd_body P D var i)) = di_b (u_di i).
Proof.
  unfold fwd_body. destruct (tspan (u_view i) =? 0); [reflexivity|].
  pose proof (seek_ge_b D (u_di i) (t_s (u_view i))) as S.
  destruct (di_seek_ge D (u_di i) (t_s (u_view i))) as [d ok]. cbn [fst] in S.
  destruct ok; cbn [negb]; [|exact S].
  destruct (t_e (u_view (u_set_di i d)) <=? t_s (cur_tr (u_set_di i d))); [exact S|].
  pose proof (accumulate_di (u_set_di i d)) as A.
  destruct (accumulate P var (u_set_di i d)) as [i1 ok1]. cbn [fst] in A.
  assert (H1 : di_b (u_di i1) = di_b (u_di i)) by (rewrite A; exact S).
  destruct (satisfied i1 || _); [exact H1|]. rewrite acc_loop_synced. exact H1.
Qed.

Lemma bwd_body_synced i : di_b (u_di (bwd_body P D var i)) = di_b (u_di i).
Proof.
  unfold bwd_body. destruct (tspan (u_view i) =? 0); [reflexivity|].
  pose proof (seek_le_b D (u_di i) (t_e (u_view i) - 1)) as S.
  destruct (di_seek_le D (u_di i) (t_e (u_view i) - 1)) as [d ok]. cbn [fst] in S.
  destruct ok; cbn [negb]; [|exact S].
  destruct (t_e (cur_tr (u_set_di i d)) <=? t_s (u_view (u_set_di i d))); [exact S|].
  pose proof (accumulate_di (u_set_di i d)) as A.
  destruct (accumulate P var (u_set_di i d)) as [i1 ok1]. cbn [fst] in A.
  assert (H1 : di_b (u_di i1) = di_b (u_di i)) by (rewrite A; exact S).
  destruct (satisfied i1 || _); [exact H1|]. rewrite acc_loop_synced. exact H1.
Qed.

Definition inv (i : uiter) : Prop := synced i /\ valid_bounds (u_b i).
(* what an observation without error guarantees *)
Definition exact (i : uiter) : Prop :=
  u_err i = None -> frame_data (u_frame i) = read_spec truth (u_view i).

Lemma clip_in_bounds b ts sp : valid_bounds b -> in_bounds b (bound_by (span_range ts sp) b).
Proof.
  intros (V1 & V2 & V3). destruct (bound_by_spec (span_range ts sp) b V2) as (a & b' & c & d & e).
  assert (Hv : t_s (span_range ts sp) <= t_e (span_range ts sp)).
  { unfold span_range. remember (add_clamp ts sp) as cc. unfold make_valid, tr_valid, tspan. cbn [t_s t_e].
    destruct (0 <=? cc - ts) eqn:Q; zb; cbn [t_s t_e]; lia. }
  specialize (e Hv). unfold in_bounds. lia.
Qed.

Lemma point_exact a ts : read_spec a (point ts) = [].
Proof. rewrite point_eq. apply read_spec_empty. simpl. lia. Qed.

Lemma step_fwd_exact i sp : inv i -> u_err i = None ->
  inv (step_fwd P D var i sp) /\ exact (step_fwd P D var i sp).
Proof.
  intros (Hs & Hb) He. unfold step_fwd.
  set (v' := bound_by (span_range (t_e (u_view i)) sp) (u_b i)).
  set (i0 := u_reset i v').
  assert (I0 : synced i0 /\ u_b i0 = u_b i /\ u_view i0 = v' /\ u_err i0 = None /\ u_frame i0 = [])
    by (unfold i0, u_reset, synced; cbn; auto).
  destruct I0 as (S0 & B0 & V0 & E0 & F0).
  assert (IB : in_bounds (u_b i0) (u_view i0)) by (rewrite B0, V0; apply clip_in_bounds; exact Hb).
  destruct (body_exact P D var HL true i0 S0 ltac:(rewrite B0; exact Hb) IB E0 F0) as (E1 & X1).
  cbv zeta in E1, X1.
  destruct (fwd_body_keeps P D var i0) as (KV & KB & _).
  split.
  - split; [unfold synced; rewrite fwd_body_synced, KB; exact S0|rewrite KB, B0; exact Hb].
  - intros _. rewrite X1, KV. reflexivity.
Qed.

Lemma step_bwd_exact i sp : inv i -> u_err i = None ->
  inv (step_bwd P D var i sp) /\ exact (step_bwd P D var i sp).
Proof.
  intros (Hs & Hb) He. unfold step_bwd.
  set (v' := bound_by (span_range (t_s (u_view i)) (-1 * sp)) (u_b i)).
  set (i0 := u_reset i v').
  assert (I0 : synced i0 /\ u_b i0 = u_b i /\ u_view i0 = v' /\ u_err i0 = None /\ u_frame i0 = [])
    by (unfold i0, u_reset, synced; cbn; auto).
  destruct I0 as (S0 & B0 & V0 & E0 & F0).
  assert (IB : in_bounds (u_b i0) (u_view i0)) by (rewrite B0, V0; apply clip_in_bounds; exact Hb).
  destruct (body_exact P D var HL false i0 S0 ltac:(rewrite B0; exact Hb) IB E0 F0) as (E1 & X1).
  cbv zeta in E1, X1.
  destruct (bwd_body_keeps P D var i0) as (KV & KB & _).
  split.
  - split; [unfold synced; rewrite bwd_body_synced, KB; exact S0|rewrite KB, B0; exact Hb].
  - intros _. rewrite X1, KV. reflexivity.
Qed.

(* a state that carries an error keeps it through steps, so [exact] is vacuous there; the
   invariant is needed nevertheless *)
Lemma step_fwd_inv i sp : inv i -> inv (step_fwd P D var i sp).
Proof.
  intros (Hs & Hb). unfold step_fwd.
  set (i0 := u_reset i (bound_by (span_range (t_e (u_view i)) sp) (u_b i))).
  destruct (fwd_body_keeps P D var i0) as (KV & KB & _).
  split; [unfold synced; rewrite fwd_body_synced, KB; exact Hs|rewrite KB; exact Hb].
Qed.
Lemma step_bwd_inv i sp : inv i -> inv (step_bwd P D var i sp).
Proof.
  intros (Hs & Hb). unfold step_bwd.
  set (i0 := u_reset i (bound_by (span_range (t_s (u_view i)) (-1 * sp)) (u_b i))).
  destruct (bwd_body_keeps P D var i0) as (KV & KB & _).
  split; [unfold synced; rewrite bwd_body_synced, KB; exact Hs|rewrite KB; exact Hb].
Qed.

Lemma errored_sticky_fwd i sp : u_err i <> None -> u_err (step_fwd P D var i sp) <> None.
Proof.
  intros H. destruct (step_fwd_view P D var i sp) as (_ & _ & E).
  unfold errored in E. destruct (u_err i); [|contradiction]. specialize (E eq_refl).
  destruct (u_err (step_fwd P D var i sp)); [discriminate|discriminate].
Qed.
Lemma errored_sticky_bwd i sp : u_err i <> None -> u_err (step_bwd P D var i sp) <> None.
Proof.
  intros H. destruct (step_bwd_view P D var i sp) as (_ & _ & E).
  unfold errored in E. destruct (u_err i); [|contradiction]. specialize (E eq_refl).
  destruct (u_err (step_bwd P D var i sp)); [discriminate|discriminate].
Qed.

Lemma next_exact i span : inv i -> inv (u_next_fix P D var chunk i span) /\ exact (u_next_fix P D var chunk i span).
Proof.
  intros Hi. unfold u_next_fix.
  destruct (at_end i).
  - split; [exact Hi|]. intros _. unfold u_reset. cbn [u_frame u_view]. rewrite point_exact. reflexivity.
  - assert (STEP : forall sp, inv (step_fwd P D var i sp) /\ exact (step_fwd P D var i sp)).
    { intros sp. destruct (u_err i) eqn:E.
      - split; [apply step_fwd_inv; exact Hi|]. intros H. exfalso. apply (errored_sticky_fwd i sp); [congruence|exact H].
      - apply step_fwd_exact; assumption. }
    destruct (span =? AUTO); [|apply STEP].
    unfold auto_next_span. destruct (stamp P (t_e (u_view i)) chunk false); [apply STEP|].
    split; [exact Hi|]. intros H. discriminate.
Qed.

Lemma prev_exact i span : inv i -> inv (u_prev_fix P D var chunk i span) /\ exact (u_prev_fix P D var chunk i span).
Proof.
  intros Hi. unfold u_prev_fix.
  destruct (at_start i).
  - split; [exact Hi|]. intros _. unfold u_reset. cbn [u_frame u_view]. rewrite point_exact. reflexivity.
  - assert (STEP : forall sp, inv (step_bwd P D var i sp) /\ exact (step_bwd P D var i sp)).
    { intros sp. destruct (u_err i) eqn:E.
      - split; [apply step_bwd_inv; exact Hi|]. intros H. exfalso. apply (errored_sticky_bwd i sp); [congruence|exact H].
      - apply step_bwd_exact; assumption. }
    destruct (span =? AUTO); [|apply STEP].
    unfold auto_prev_span. destruct (stamp P (t_s (u_view i)) (- chunk) false); [apply STEP|].
    split; [exact Hi|]. intros H. discriminate.
Qed.

Lemma seek_exact (i : uiter) d ts : inv i -> di_b d = di_b (u_di i) ->
  inv (u_seek_reset (u_set_di i d) ts) /\ exact (u_seek_reset (u_set_di i d) ts).
Proof.
  intros (Hs & Hb) Hd. split.
  - split; [unfold synced, u_seek_reset, u_set_di; cbn; rewrite Hd; exact Hs|exact Hb].
  - intros _. unfold u_seek_reset. cbn [u_frame u_view]. rewrite point_exact. reflexivity.
Qed.

Lemma cmd_exact i c : inv i -> cmd_ok c -> inv (fst (step i c)) /\ exact (fst (step i c)).
Proof.
  intros Hi Hc. destruct c; cbn [u_step].
  - unfold u_seek_first, di_seek_first. pose proof (seek_ge_b D (u_di i) (t_s (di_b (u_di i)))) as B.
    destruct (di_seek_ge D (u_di i) (t_s (di_b (u_di i)))) as [d ok]. cbn [fst] in *. apply seek_exact; assumption.
  - unfold u_seek_last, di_seek_last. pose proof (seek_le_b D (u_di i) (wrap64 (t_e (di_b (u_di i)) - 1))) as B.
    destruct (di_seek_le D (u_di i) _) as [d ok]. cbn [fst] in *. apply seek_exact; assumption.
  - unfold u_seek_le. pose proof (seek_le_b D (u_di i) ts) as B.
    destruct (di_seek_le D (u_di i) ts) as [d ok]. cbn [fst] in B.
    destruct (overlaps (di_tr d) (point ts)); cbn [fst]; apply seek_exact; assumption.
  - unfold u_seek_ge. pose proof (seek_ge_b D (u_di i) ts) as B.
    destruct (di_seek_ge D (u_di i) ts) as [d ok]. cbn [fst] in B.
    destruct (overlaps (di_tr d) (point ts)); cbn [fst]; apply seek_exact; assumption.
  - cbn [fst]. apply next_exact; assumption.
  - cbn [fst]. apply prev_exact; assumption.
  - cbn [fst]. apply next_exact; assumption.
  - cbn [fst]. apply prev_exact; assumption.
  - cbn [fst]. split.
    + split; [reflexivity|exact Hc].
    + intros _. unfold u_set_bounds, u_seek_reset. cbn [u_frame u_view]. rewrite point_exact. reflexivity.
Qed.

(* every observation of a run *)
Definition obs_exact (o : obs) : Prop :=
  o_err o = 0 -> frame_data (o_frame o) = read_spec truth (o_view o).

Lemma err_code_nonzero e : err_code e <> 0.
Proof. destruct e; discriminate. Qed.

Lemma run_exact : forall cmds i, inv i -> Forall cmd_ok cmds ->
  Forall obs_exact (u_run P D var chunk false i cmds).
Proof.
  induction cmds as [|c cs IH]; intros i Hi Hcs; [constructor|].
  apply Forall_cons_iff in Hcs. destruct Hcs as [Hc Hcs].
  cbn [u_run]. destruct (cmd_exact i c Hi Hc) as (I' & X').
  destruct (step i c) as [i' ok]. cbn [fst] in *.
  constructor; [|apply IH; assumption].
  unfold obs_exact, observe. cbn [o_err o_frame o_view]. intros H0. apply X'.
  destruct (u_err i') as [e|]; [exfalso; exact (err_code_nonzero e H0)|reflexivity].
Qed.

End Run.

Theorem step_exact_all : forall P D var chunk b cmds,
  layout_ok P D -> valid_bounds b -> Forall cmd_ok cmds ->
  Forall (fun o => o_err o = 0 ->
            frame_data (o_frame o) = read_spec (layout_assoc P D) (o_view o) /\
            o_valid o = negb (match o_frame o with [] => true | _ => false end))
         (u_run P D var chunk false (u_open b) cmds).
Proof.
  intros P D var chunk b cmds HL Hb Hc.
  assert (Hi : inv (u_open b)) by (split; [reflexivity|exact Hb]).
  pose proof (run_exact P D var chunk HL cmds (u_open b) Hi Hc) as R.
  assert (V : forall cs i, Forall (fun o => o_err o = 0 ->
             o_valid o = negb (match o_frame o with [] => true | _ => false end))
             (u_run P D var chunk false i cs)).
  { induction cs as [|c cs IH]; intros i; [constructor|]. cbn [u_run].
    destruct (u_step P D var chunk false i c) as [i' ok]. constructor; [|apply IH].
    unfold observe, u_valid, has_data. cbn [o_err o_valid o_frame]. intros H0.
    destruct (u_err i') as [e|]; [exfalso; exact (err_code_nonzero e H0)|].
    destruct (u_frame i'); reflexivity. }
  specialize (V cmds (u_open b)).
  rewrite Forall_forall in *. intros o Ho H0. split; [apply R; assumption|].
  exact (V o Ho H0).
Qed.
