(* The index.domain persistence protocol of one domain database
   (cesium/internal/domain/index_persist.go, index.go insert/update, delete.go Delete/GarbageCollect,
   writer.go Close).

   Code shape:  a caller, holding the index lock, changes the in-memory pointer list and calls
       persist := idx.indexPersist.prepare(start)       -- encodes pointers[start:], remembers len(pointers)
   then (after releasing the index lock, except Delete/GC which keep it) runs
       persist()                                         -- Truncate(len*size); WriteAt(encoded, start*size)
   The file lock [ip.p] is taken either inside prepare (LockInPrepare: the code since fix 39ba064) or only inside
   the returned function (LockAtWrite: the code before it, finding F74).  Lazy commits (auto-commit with a persist
   interval) change the pointer list without persisting; Writer.Close flushes the whole index.

   The model is executable; proofs are in PersistOrderProofs.v. *)
From Coq Require Import List ZArith Bool Arith Lia.
Import ListNotations.
Open Scope nat_scope.

Inductive protocol := LockInPrepare | LockAtWrite.

(* what prepare(start) captures *)
Record snap := mkSnap { sn_start : nat; sn_len : nat; sn_data : list Z }.
Definition take_snap (start : nat) (m : list Z) : snap := mkSnap start (length m) (skipn start m).

(* File.Truncate(n): cut, or extend with zero bytes *)
Definition resize (n : nat) (d : list Z) : list Z := firstn n d ++ repeat 0%Z (n - length d).
(* persist(): Truncate(len) then WriteAt(data, start) *)
Definition write_snap (d : list Z) (s : snap) : list Z :=
  firstn (sn_start s) (resize (sn_len s) d) ++ sn_data s.

(* One critical section under the index lock.
   Mutate pos new p : pointers := pointers[:pos] ++ new (insert / update / delete / GC rewrite at position pos: everything
                      below pos is untouched); p = Some start: prepare(start) in the same critical section,
                      p = None: a lazy commit, nothing is persisted now.
   Flush start      : Writer.Close of a lazily persisting writer: prepare(start) with no change. *)
Inductive op :=
| Mutate (pos : nat) (new : list Z) (p : option nat)
| Flush (start : nat).

Inductive event :=
| EPrepare (t : nat) (o : op)      (* thread t runs the critical section of o *)
| EWrite (t : nat).                (* thread t runs the function prepare returned *)

Record st := mkSt {
  mem : list Z;                    (* idx.mu.pointers *)
  disk : list Z;                   (* index.domain *)
  pend : list (nat * snap);        (* prepared, not yet written: thread -> snapshot *)
  holder : option nat              (* who holds the file lock between prepare and write (LockInPrepare only) *)
}.

Definition init (m : list Z) : st := mkSt m m [] None.

Fixpoint lookup (t : nat) (l : list (nat * snap)) : option snap :=
  match l with
  | [] => None
  | (u, s) :: r => if Nat.eqb t u then Some s else lookup t r
  end.
Fixpoint remove (t : nat) (l : list (nat * snap)) : list (nat * snap) :=
  match l with
  | [] => []
  | (u, s) :: r => if Nat.eqb t u then remove t r else (u, s) :: remove t r
  end.

(* well-formed critical sections: the position exists, and a persist starts at or below the change
   (writers persist from persistHead = 0, Delete from the first pointer it replaced, GC from 0) *)
Definition op_ok (m : list Z) (o : op) : bool :=
  match o with
  | Mutate pos _ (Some s) => (pos <=? length m) && (s <=? pos)
  | Mutate pos _ None => pos <=? length m
  | Flush s => s <=? length m
  end.

Definition apply_op (m : list Z) (o : op) : list Z :=
  match o with Mutate pos new _ => firstn pos m ++ new | Flush _ => m end.
Definition persist_of (o : op) : option nat :=
  match o with Mutate _ _ p => p | Flush s => Some s end.

(* None: the event is not enabled in this state (ill-formed, or the thread would block) *)
Definition step (p : protocol) (s : st) (e : event) : option st :=
  match e with
  | EPrepare t o =>
      if negb (op_ok (mem s) o) then None
      else match lookup t (pend s) with
      | Some _ => None                              (* a thread runs one persist at a time *)
      | None =>
        let m' := apply_op (mem s) o in
        match persist_of o with
        | None => Some (mkSt m' (disk s) (pend s) (holder s))
        | Some start =>
          match p, holder s with
          | LockInPrepare, Some _ => None           (* blocked on ip.p.Lock() inside prepare *)
          | LockInPrepare, None => Some (mkSt m' (disk s) ((t, take_snap start m') :: pend s) (Some t))
          | LockAtWrite, h => Some (mkSt m' (disk s) ((t, take_snap start m') :: pend s) h)
          end
        end
      end
  | EWrite t =>
      match lookup t (pend s) with
      | None => None
      | Some sn =>
        (* LockAtWrite: Lock; Truncate; WriteAt; Unlock run as one step (the file lock makes them atomic) *)
        Some (mkSt (mem s) (write_snap (disk s) sn) (remove t (pend s))
                   (match p with LockInPrepare => None | LockAtWrite => holder s end))
      end
  end.

Fixpoint run (p : protocol) (s : st) (es : list event) : option st :=
  match es with
  | [] => Some s
  | e :: r => match step p s e with Some s' => run p s' r | None => None end
  end.

Definition quiescent (s : st) : bool := match pend s with [] => true | _ => false end.

(* every change is persisted in its own critical section *)
Definition eager (e : event) : bool :=
  match e with EPrepare _ (Mutate _ _ None) => false | _ => true end.

(* the schedule of finding F74: two commits, the older snapshot written last *)
Definition f74_schedule : list event :=
  [EPrepare 1 (Mutate 0 [7%Z] (Some 0)); EPrepare 2 (Mutate 1 [8%Z] (Some 0)); EWrite 2; EWrite 1].
