(* Cesium/TruthProofs.v — the stored content [layout_assoc] of a well-formed layout: its stamps
   lie in the ranges of the data domains and ascend; reading adjacent ranges concatenates. *)
From Coq Require Import ZArith List Bool Lia Sorting.Sorted.
From Synnax Require Import Cesium.LayoutOk Cesium.Store Cesium.StoreProofs Cesium.IndexSearchProofs Cesium.DomIterProofs
     Cesium.DistanceProofs Cesium.UnaryIterExact Cesium.SliceProofs Cesium.UnaryIterSpec Cesium.Read.
Import ListNotations.
Local Open Scope Z_scope.

Definition asc (a : assoc) : Prop := StronglySorted (fun p q => fst p < fst q) a.

Lemma combine_asc S data : inc S -> asc (combine S data).
Proof.
  revert data. induction S as [|x S IH]; intros data HI; [constructor|].
  destruct data as [|y data]; [constructor|]. cbn [combine].
  inversion HI as [|? ? HI' F]; subst. constructor; [apply IH, HI'|].
  apply Forall_forall. intros [x' y'] Hin. apply in_combine_l in Hin. rewrite Forall_forall in F. cbn [fst]. apply F, Hin.
Qed.

Lemma dom_assoc_in Q d p : In p (dom_assoc Q d) -> t_s (d_tr d) <= fst p < t_e (d_tr d).
Proof.
  unfold dom_assoc. destruct p as [x y]. intros H. apply in_combine_l in H.
  apply filter_In in H. destruct H as [_ C]. unfold contains_stamp in C. apply andb_true_iff in C.
  destruct C; zb. cbn [fst]. lia.
Qed.

Lemma asc_app a1 a2 : asc a1 -> asc a2 -> (forall p q, In p a1 -> In q a2 -> fst p < fst q) -> asc (a1 ++ a2).
Proof.
  intros S1 S2 C. induction S1 as [|p a1 S1 IH F]; [exact S2|].
  cbn [app]. constructor.
  - apply IH. intros x y Hx Hy. apply C; [right; exact Hx|exact Hy].
  - apply Forall_forall. intros x Hx. apply in_app_or in Hx. destruct Hx as [Hx|Hx].
    + rewrite Forall_forall in F. apply F, Hx.
    + apply C; [left; reflexivity|exact Hx].
Qed.

Lemma iwf_stamps q x : iwf q -> In x (d_data q) -> t_s (d_tr q) <= x < t_e (d_tr q).
Proof. intros [_ F] H. rewrite Forall_forall in F. apply F, H. Qed.

Lemma inc_app l1 l2 : inc l1 -> inc l2 -> (forall x y, In x l1 -> In y l2 -> x < y) -> inc (l1 ++ l2).
Proof.
  intros A B C. induction A as [|x l1 A IHA FA]; [exact B|]. cbn [app]. constructor.
  - apply IHA. intros u w Hu Hw. apply C; [right; exact Hu|exact Hw].
  - apply Forall_forall. intros u Hu. apply in_app_or in Hu. destruct Hu as [Hu|Hu].
    + rewrite Forall_forall in FA. apply FA, Hu.
    + apply C; [left; reflexivity|exact Hu].
Qed.

(* all stamps of a well-formed index ascend *)
Lemma ilay_inc_stamps P : ilay P -> inc (stamps_of P).
Proof.
  intros [[W S] I]. clear W. unfold stamps_of. induction P as [|q P' IH]; [constructor|].
  cbn [map concat]. apply Forall_cons_iff in I. destruct I as [Iq I'].
  inversion S as [|? ? S' F]; subst.
  apply inc_app; [apply Iq|apply IH; assumption|].
  intros x y Hx Hy. apply in_concat in Hy. destruct Hy as (l & Hl & Hy). apply in_map_iff in Hl.
  destruct Hl as (q' & <- & Hq'). rewrite Forall_forall in F, I'.
  pose proof (iwf_stamps q x Iq Hx). pose proof (iwf_stamps q' y (I' q' Hq') Hy).
  specialize (F q' Hq'). unfold dbefore in F. lia.
Qed.

Lemma layout_assoc_asc P D : inc (stamps_of P) -> lay D -> asc (layout_assoc P D).
Proof.
  intros HP HD. unfold layout_assoc.
  assert (IQ : forall d, inc (stamps_in (d_tr d) (stamps_of P))) by (intros d; apply inc_filter; exact HP).
  destruct HD as [W S]. induction D as [|d D IH]; [constructor|].
  cbn [flat_map]. apply Forall_cons_iff in W. destruct W as [Wd W']. inversion S as [|? ? S' F]; subst.
  apply asc_app.
  - apply combine_asc, IQ.
  - apply IH; assumption.
  - intros p q Hp Hq. apply in_flat_map in Hq. destruct Hq as (d' & Hd' & Hq).
    pose proof (dom_assoc_in _ _ _ Hp). pose proof (dom_assoc_in _ _ _ Hq).
    rewrite Forall_forall in F. specialize (F d' Hd'). unfold dbefore in F. lia.
Qed.

(* reading [x, y) then [y, z) of an ascending list is reading [x, z) *)
Lemma read_spec_adjacent a x y z : asc a -> x <= y <= z ->
  read_spec a (TR x y) ++ read_spec a (TR y z) = read_spec a (TR x z).
Proof.
  intros S H. unfold read_spec, in_range, contains_stamp. cbn [t_s t_e].
  induction S as [|p a S IH F]; [reflexivity|].
  cbn [filter].
  destruct (x <=? fst p) eqn:E1, (fst p <? y) eqn:E2, (y <=? fst p) eqn:E3, (fst p <? z) eqn:E4; zb;
    cbn [andb map app]; try lia; try exact IH; try (f_equal; exact IH).
  (* p in [y, z): nothing of the rest lies in [x, y) *)
  assert (N : filter (fun p0 : Z * Z => (x <=? fst p0) && (fst p0 <? y)) a = []).
  { apply filter_none. intros q Hq. rewrite Forall_forall in F. specialize (F q Hq).
    apply andb_false_iff. right. apply Z.ltb_ge. lia. }
  rewrite N in *. cbn [map app] in *. f_equal. exact IH.
Qed.

(* no stored stamp in a range that no data domain overlaps *)
Lemma read_spec_no_domain P D t : lay D ->
  (forall d, In d D -> t_e t <= t_s (d_tr d) \/ t_e (d_tr d) <= t_s t) ->
  read_spec (layout_assoc P D) t = [].
Proof.
  intros HD H. unfold read_spec. rewrite filter_none; [reflexivity|].
  intros p Hp. unfold layout_assoc in Hp. apply in_flat_map in Hp. destruct Hp as (d & Hd & Hp).
  pose proof (dom_assoc_in _ _ _ Hp). specialize (H d Hd).
  unfold in_range, contains_stamp. zcases; cbn [andb]; try reflexivity; lia.
Qed.
