(* Cesium/DomainInv.v — the C03 invariant of the domain database model and its
   preservation by every operation; consequences (clean failure, conflicting opens and
   commits, the iterator sees every domain). *)
From stdpp Require Import gmap.
From Coq Require Import ZArith NArith List Bool Lia Sorted.
From Synnax Require Import Common.Telem Common.TelemProofs Cesium.Domain Cesium.DomainProofs.
Import ListNotations.
Local Open Scope Z_scope.

(* ------------------------------------------------------------------ files *)
Lemma nth_error_firstn_lt {A} (l : list A) : forall n i, (i < n)%nat -> nth_error (firstn n l) i = nth_error l i.
Proof.
  induction l as [|x l IH]; intros n i H; destruct n, i; simpl; try reflexivity; try lia.
  apply IH. lia.
Qed.
Lemma nth_error_skipn_add {A} (l : list A) : forall n i, nth_error (skipn n l) i = nth_error l (n + i).
Proof.
  induction l as [|x l IH]; intros n i; destruct n; simpl; try reflexivity.
  - destruct i; reflexivity.
  - apply IH.
Qed.

Lemma get_file_Some fs k f : get_file fs k = Some f -> (k <> 0)%N /\ In f fs.
Proof.
  unfold get_file. destruct (N.eqb_spec k 0); [discriminate|]. intros H. split; [assumption|].
  eapply nth_error_In; eauto.
Qed.

Lemma get_set_same fs k f f0 : get_file fs k = Some f0 -> get_file (set_file fs k f) k = Some f.
Proof.
  unfold get_file, set_file. destruct (N.eqb_spec k 0); [discriminate|]. intros H. rewrite H.
  assert (Hlt : (N.to_nat (k - 1) < length fs)%nat) by (apply nth_error_Some; congruence).
  rewrite nth_error_app2; rewrite firstn_length; [|lia].
  replace (N.to_nat (k - 1) - Init.Nat.min (N.to_nat (k - 1)) (length fs))%nat with 0%nat by lia.
  reflexivity.
Qed.

Lemma get_set_other fs k k' f : k <> k' -> get_file (set_file fs k f) k' = get_file fs k'.
Proof.
  intros Hne. unfold get_file, set_file. destruct (N.eqb_spec k' 0); [reflexivity|].
  destruct (N.eqb_spec k 0); [reflexivity|].
  destruct (nth_error fs (N.to_nat (k - 1))) eqn:E; [|reflexivity].
  assert (Hlt : (N.to_nat (k - 1) < length fs)%nat) by (apply nth_error_Some; congruence).
  set (a := N.to_nat (k - 1)) in *. set (b := N.to_nat (k' - 1)).
  assert (Hab : a <> b) by (subst a b; lia).
  destruct (Nat.lt_ge_cases b a) as [Hlt'|Hge].
  - rewrite nth_error_app1 by (rewrite firstn_length; lia). apply nth_error_firstn_lt; lia.
  - rewrite nth_error_app2 by (rewrite firstn_length; lia). rewrite firstn_length.
    replace (b - Init.Nat.min a (length fs))%nat with (S (b - S a)) by lia. simpl.
    rewrite nth_error_skipn_add. f_equal. lia.
Qed.

Lemma In_set_file fs k f x : In x (set_file fs k f) -> x = f \/ In x fs.
Proof.
  unfold set_file. destruct (k =? 0)%N; [auto|].
  destruct (nth_error fs (N.to_nat (k - 1))); [|auto].
  intros H. apply in_app_or in H. destruct H as [H|[H|H]]; [right; eapply In_firstn; eauto|auto|right; eapply In_skipn; eauto].
Qed.

Lemma Forall_set_file (P : file -> Prop) fs k f : Forall P fs -> P f -> Forall P (set_file fs k f).
Proof.
  rewrite !Forall_forall. intros H Hf x Hx. apply In_set_file in Hx. destruct Hx as [->|Hx]; auto.
Qed.

Lemma length_set_file fs k f : length (set_file fs k f) = length fs.
Proof.
  unfold set_file. destruct (k =? 0)%N; [reflexivity|].
  destruct (nth_error fs (N.to_nat (k - 1))) eqn:E; [|reflexivity].
  assert (Hlt : (N.to_nat (k - 1) < length fs)%nat) by (apply nth_error_Some; congruence).
  rewrite app_length, firstn_length. simpl. rewrite skipn_length. lia.
Qed.

(* every file keeps its key and its bytes, possibly with more bytes appended *)
Definition file_le (f f' : file) : Prop := exists sfx, f_data f' = f_data f ++ sfx.
Definition files_le (fs fs' : list file) : Prop :=
  forall k f, get_file fs k = Some f -> exists f', get_file fs' k = Some f' /\ file_le f f'.

Lemma file_le_refl f : file_le f f.
Proof. exists []. rewrite app_nil_r. reflexivity. Qed.

Lemma files_le_refl fs : files_le fs fs.
Proof. intros k f H. exists f. split; [assumption|apply file_le_refl]. Qed.

Lemma files_le_trans a b c : files_le a b -> files_le b c -> files_le a c.
Proof.
  intros H1 H2 k f Hf. destruct (H1 k f Hf) as (f' & Hf' & [s1 Hs1]).
  destruct (H2 k f' Hf') as (f'' & Hf'' & [s2 Hs2]). exists f''. split; [assumption|].
  exists (s1 ++ s2). rewrite Hs2, Hs1, app_assoc. reflexivity.
Qed.

Lemma files_le_set fs k f0 f : get_file fs k = Some f0 -> file_le f0 f -> files_le fs (set_file fs k f).
Proof.
  intros H0 Hle k' x Hx. destruct (N.eq_dec k k') as [<-|Hne].
  - rewrite H0 in Hx. inversion Hx; subst. exists f. split; [eapply get_set_same; eauto|assumption].
  - exists x. rewrite get_set_other by assumption. split; [assumption|apply file_le_refl].
Qed.

Lemma files_le_app fs f : files_le fs (fs ++ [f]).
Proof.
  intros k x Hx. exists x. split; [|apply file_le_refl]. unfold get_file in *.
  destruct (k =? 0)%N; [discriminate|]. rewrite nth_error_app1; [assumption|].
  apply nth_error_Some. congruence.
Qed.

Definition file_ok (f : file) : Prop := (f_off f + f_len f = f_size f)%N.
Definition file_small (f : file) : Prop := (f_size f < 2 ^ 32)%N.

Lemma first_eligible_get nominal fs : forall k0 k,
  first_eligible nominal fs k0 = Some k ->
  (k0 <= k)%N /\ exists f, nth_error fs (N.to_nat (k - k0)) = Some f /\ eligible nominal f = true.
Proof.
  induction fs as [|x l IH]; intros k0 k; simpl; [discriminate|].
  destruct (eligible nominal x) eqn:E.
  - intros H. inversion H; subst. split; [lia|]. exists x. replace (N.to_nat (k - k)) with 0%nat by lia. auto.
  - intros H. apply IH in H. destruct H as (Hle & f & Hf & He). split; [lia|]. exists f.
    replace (N.to_nat (k - k0)) with (S (N.to_nat (k - (k0 + 1)))) by lia. auto.
Qed.

(* acquireWriter keeps every file's bytes, keeps the tracked-writer bookkeeping
   consistent, and hands out an existing or a brand-new key *)
Lemma acquire_spec nominal fs choice k size fs' :
  acquire nominal fs choice = (k, size, fs') ->
  Forall file_ok fs -> Forall file_small fs ->
  Forall file_ok fs' /\ Forall file_small fs' /\ files_le fs fs'.
Proof.
  intros Hacq Hok Hsm.
  assert (Htake : forall k0 f0, get_file fs k0 = Some f0 ->
            Forall file_ok (set_file fs k0 (try_acquire f0)) /\
            Forall file_small (set_file fs k0 (try_acquire f0)) /\
            files_le fs (set_file fs k0 (try_acquire f0))).
  { intros k0 f0 H0. destruct (get_file_Some _ _ _ H0) as [_ Hin].
    rewrite Forall_forall in Hok, Hsm. pose proof (Hok _ Hin) as Hf. pose proof (Hsm _ Hin) as Hs.
    split; [|split].
    - apply Forall_set_file; [rewrite Forall_forall; assumption|].
      unfold file_ok, try_acquire, f_size in *. simpl. lia.
    - apply Forall_set_file; [rewrite Forall_forall; assumption|]. exact Hs.
    - eapply files_le_set; eauto. exists []. simpl. rewrite app_nil_r. reflexivity. }
  assert (Hfb : forall r, (match first_eligible nominal fs 1%N with
            | Some k1 => match get_file fs k1 with
                         | Some f => (k1, f_size f, set_file fs k1 (try_acquire f))
                         | None => (0%N, 0%N, fs) end
            | None => ((N.of_nat (length fs) + 1)%N, 0%N, fs ++ [mkFile [] 0 0 true]) end) = r ->
            r = (k, size, fs') ->
            Forall file_ok fs' /\ Forall file_small fs' /\ files_le fs fs').
  { intros r Hr Hrk. subst r. destruct (first_eligible nominal fs 1%N) as [k1|].
    - destruct (get_file fs k1) as [f1|] eqn:E1.
      + inversion Hrk; subst. apply Htake; assumption.
      + inversion Hrk; subst. repeat split; auto using files_le_refl.
    - inversion Hrk; subst. split; [|split].
      + apply Forall_app. split; [assumption|]. repeat constructor.
      + apply Forall_app. split; [assumption|]. repeat constructor.
      + apply files_le_app. }
  unfold acquire in Hacq.
  destruct (get_file fs choice) as [f|] eqn:Ec.
  - destruct (eligible nominal f).
    + inversion Hacq; subst. apply Htake; assumption.
    + eapply Hfb; eauto.
  - eapply Hfb; eauto.
Qed.

Lemma release_spec fs k :
  Forall file_ok fs -> Forall file_small fs ->
  Forall file_ok (release fs k) /\ Forall file_small (release fs k) /\ files_le fs (release fs k).
Proof.
  intros Hok Hsm. unfold release. destruct (get_file fs k) as [f|] eqn:E.
  - destruct (get_file_Some _ _ _ E) as [_ Hin]. rewrite Forall_forall in Hok, Hsm.
    pose proof (Hok _ Hin). pose proof (Hsm _ Hin). split; [|split].
    + apply Forall_set_file; [rewrite Forall_forall; assumption|assumption].
    + apply Forall_set_file; [rewrite Forall_forall; assumption|assumption].
    + eapply files_le_set; eauto. exists []. simpl. rewrite app_nil_r. reflexivity.
  - auto using files_le_refl.
Qed.

(* ------------------------------------------------------------------ the invariant *)
(* the pointer's bytes lie within its file *)
Definition ptr_in_files (fs : list file) (p : pointer) : Prop :=
  exists f, get_file fs (p_file p) = Some f /\ (p_off p + p_size p <= f_size f)%N /\ (0 < p_size p)%N.
Definition writer_ok (wr : writer) : Prop := ts_in_range (w_start wr) /\ ts_in_range (w_end wr).

(* C03 invariant: committed ranges are time-ordered, pairwise non-overlapping, non-empty
   ([idx_ok]) and lie within their files; plus the bookkeeping that keeps it inductive. *)
Definition Inv (st : db) : Prop :=
  idx_ok (d_ptrs st) /\
  Forall (ptr_in_files (d_files st)) (d_ptrs st) /\
  Forall file_ok (d_files st) /\ Forall file_small (d_files st) /\
  map_Forall (fun _ wr => writer_ok wr) (d_writers st).

(* operations the theorems quantify over: stamps are representable non-negative int64
   values and no data file reaches 2^32 bytes (pointer offsets are uint32 in the Go code) *)
Definition op_in_range (o : op) : Prop :=
  match o with
  | Open _ s e _ => ts_in_range s /\ ts_in_range e
  | Commit _ e _ => ts_in_range e
  | Delete a b => ts_in_range a /\ ts_in_range b
  | Write _ _ | Close _ => True
  end.
Definition legal (st : db) (o : op) : Prop :=
  op_in_range o /\
  match o with
  | Write w d => forall wr f, d_writers st !! w = Some wr -> get_file (d_files st) (w_file wr) = Some f ->
                              (f_size f + N.of_nat (length d) < 2 ^ 32)%N
  | _ => True
  end.
Fixpoint legal_run (st : db) (ops : list op) : Prop :=
  match ops with
  | [] => True
  | o :: rest => legal st o /\ legal_run (fst (step st o)) rest
  end.

Lemma Inv_init nominal cap : Inv (init nominal cap).
Proof.
  unfold Inv, init. simpl. split; [apply idx_ok_nil|]. split; [constructor|]. split; [constructor|].
  split; [constructor|]. apply map_Forall_empty.
Qed.

Lemma ptr_in_files_le fs fs' p : files_le fs fs' -> ptr_in_files fs p -> ptr_in_files fs' p.
Proof.
  intros Hle (f & Hf & Hb & Hs). destruct (Hle _ _ Hf) as (f' & Hf' & [sfx Hsfx]).
  exists f'. split; [assumption|]. split; [|assumption].
  unfold f_size in *. rewrite Hsfx, app_length. lia.
Qed.

Lemma Forall_ptr_in_files_le fs fs' ps :
  files_le fs fs' -> Forall (ptr_in_files fs) ps -> Forall (ptr_in_files fs') ps.
Proof. intros Hle. apply Forall_impl. intros p. apply ptr_in_files_le. assumption. Qed.

Lemma Forall_spliced {A} (P : A -> Prop) ps n m x :
  Forall P ps -> P x -> Forall P (firstn n ps ++ x :: skipn m ps).
Proof.
  rewrite !Forall_forall. intros H Hx y Hy. apply in_app_or in Hy.
  destruct Hy as [Hy|[<-|Hy]]; [apply H; eapply In_firstn; eauto|assumption|apply H; eapply In_skipn; eauto].
Qed.

Lemma u32_small n : (n < 2 ^ 32)%N -> u32 n = n.
Proof. intros H. unfold u32. apply N.mod_small. assumption. Qed.

Lemma get_ge_in ps ts p : get_ge ps ts = Some p -> In p ps.
Proof.
  unfold get_ge. destruct (usearch ps (ts_span_range ts 0)) as [i [|]].
  - apply getp_In.
  - destruct (i =? zlen ps); [discriminate|apply getp_In].
Qed.

(* ---- open / write / close ---- *)
Lemma open_inv st w s e k : Inv st -> ts_in_range s -> ts_in_range e -> Inv (fst (open_writer st w s e k)).
Proof.
  intros HI Hs He. pose proof HI as (Hidx & Hpf & Hfo & Hfs & Hw). unfold open_writer.
  destruct (d_writers st !! w); [exact HI|].
  destruct (negb (cfg_validate s e)); [exact HI|].
  destruct (idx_overlap (d_ptrs st) (cfg_domain s e)); [exact HI|].
  destruct (acquire (d_nominal st) (d_files st) k) as [[k' size] fs'] eqn:Ea.
  destruct (acquire_spec _ _ _ _ _ _ Ea Hfo Hfs) as (Hfo' & Hfs' & Hle). simpl.
  split; [assumption|]. split; [eapply Forall_ptr_in_files_le; eauto|]. split; [assumption|]. split; [assumption|].
  apply map_Forall_insert_2; [|assumption]. split; simpl; [assumption|].
  destruct (negb (ts_is_zero e)); [assumption|].
  destruct (get_ge (d_ptrs st) s) as [p|] eqn:Eg.
  - apply get_ge_in in Eg. destruct Hidx as [_ Hwf]. rewrite Forall_forall in Hwf.
    destruct (Hwf _ Eg) as [[Hr _] _]. exact Hr.
  - unfold ts_in_range, ts_min, ts_max. lia.
Qed.

Lemma write_inv st w d : Inv st -> legal st (Write w d) -> Inv (fst (write st w d)).
Proof.
  intros HI [_ Hleg]. pose proof HI as (Hidx & Hpf & Hfo & Hfs & Hw). unfold write.
  destruct (d_writers st !! w) as [wr|] eqn:Ew; [|exact HI].
  destruct (w_closed wr); [exact HI|].
  destruct (get_file (d_files st) (w_file wr)) as [f|] eqn:Ef; [|exact HI].
  simpl. specialize (Hleg wr f eq_refl Ef).
  destruct (get_file_Some _ _ _ Ef) as [_ Hin].
  rewrite Forall_forall in Hfo. pose proof (Hfo _ Hin) as Hf. rewrite <- Forall_forall in Hfo.
  set (f' := mkFile (f_data f ++ d) (f_off f) (f_len f + N.of_nat (length d))%N (f_inuse f)).
  assert (Hle : files_le (d_files st) (set_file (d_files st) (w_file wr) f')).
  { eapply files_le_set; eauto. exists d. reflexivity. }
  split; [assumption|]. split; [eapply Forall_ptr_in_files_le; eauto|].
  split; [|split].
  - apply Forall_set_file; [assumption|]. unfold file_ok, f_size in *. simpl. rewrite app_length. lia.
  - apply Forall_set_file; [assumption|]. unfold file_small, f_size in *. simpl. rewrite app_length. lia.
  - apply map_Forall_insert_2; [|assumption]. apply (Hw w wr Ew).
Qed.

Lemma close_inv st w : Inv st -> Inv (fst (close_writer st w)).
Proof.
  intros HI. pose proof HI as (Hidx & Hpf & Hfo & Hfs & Hw). unfold close_writer.
  destruct (d_writers st !! w) as [wr|] eqn:Ew; [|exact HI].
  destruct (w_closed wr); [exact HI|]. simpl.
  destruct (release_spec (d_files st) (w_file wr) Hfo Hfs) as (Hfo' & Hfs' & Hle).
  split; [assumption|]. split; [eapply Forall_ptr_in_files_le; eauto|]. split; [assumption|]. split; [assumption|].
  apply map_Forall_insert_2; [|assumption]. apply (Hw w wr Ew).
Qed.

(* ---- commit ---- *)
Lemma commit_inv st w e k : Inv st -> ts_in_range e -> Inv (fst (commit st w e k)).
Proof.
  intros HI He. pose proof HI as (Hidx & Hpf & Hfo & Hfs & Hw). unfold commit.
  destruct (d_writers st !! w) as [wr|] eqn:Ew; [|assumption].
  destruct (w_closed wr); [assumption|].
  destruct (w_preset wr && (w_end wr <? e)); [assumption|].
  destruct (get_file (d_files st) (w_file wr)) as [f|] eqn:Ef; [|assumption].
  destruct (N.eqb_spec (f_len f) 0) as [|Hlen]; [assumption|].
  destruct (resolve_commit_end (d_cap st) wr e) as [ce sw] eqn:Er.
  destruct (validate_commit_range wr ce sw) eqn:Ev; [simpl|assumption].
  destruct (Hw w wr Ew) as [Hws Hwe].
  assert (Hce : ts_in_range ce).
  { unfold resolve_commit_end in Er. destruct (d_cap st <=? w_fsize wr)%N; [inversion Er; subst; assumption|].
    destruct (w_preset wr); inversion Er; subst; assumption. }
  assert (Hlt : w_start wr < ce).
  { unfold validate_commit_range in Ev.
    destruct (negb (ts_is_zero (w_prev wr)) && negb (sw && w_preset wr) && (ce <? w_prev wr)); [discriminate|].
    destruct (Z.ltb_spec (w_start wr) ce); [assumption|discriminate]. }
  destruct (get_file_Some _ _ _ Ef) as [Hk Hin].
  rewrite Forall_forall in Hfo, Hfs. pose proof (Hfo _ Hin) as Hf. pose proof (Hfs _ Hin) as Hsm.
  rewrite <- Forall_forall in Hfo, Hfs. unfold file_ok, file_small in Hf, Hsm.
  set (ptr := mkPtr (mkTR (w_start wr) ce) (w_file wr) (u32 (f_off f)) (u32 (f_len f))).
  assert (Hpwf : ptr_wf ptr) by (split; [split; assumption|assumption]).
  assert (Hpif : ptr_in_files (d_files st) ptr).
  { exists f. split; [assumption|]. simpl. rewrite !u32_small by lia. lia. }
  assert (Hres : forall ps', (if ts_is_zero (w_prev wr) then insert (d_ptrs st) ptr else update (d_ptrs st) ptr) = inl ps' ->
                 idx_ok ps' /\ Forall (ptr_in_files (d_files st)) ps').
  { intros ps' Hr. destruct (ts_is_zero (w_prev wr)).
    - destruct (insert_ok _ _ _ Hidx Hpwf Hr) as (Hok' & n & ->). split; [assumption|].
      apply Forall_spliced; assumption.
    - destruct (update_ok _ _ _ Hidx Hpwf Hr) as (Hok' & n & old & _ & _ & ->). split; [assumption|].
      apply Forall_spliced; assumption. }
  destruct (if ts_is_zero (w_prev wr) then insert (d_ptrs st) ptr else update (d_ptrs st) ptr) as [ps'|err];
    [|assumption].
  destruct (Hres ps' eq_refl) as [Hok' Hpf'].
  destruct sw.
  - destruct (release_spec (d_files st) (w_file wr) Hfo Hfs) as (Hfo1 & Hfs1 & Hle1).
    destruct (acquire (d_nominal st) (release (d_files st) (w_file wr)) k) as [[k' size] fs2] eqn:Ea.
    destruct (acquire_spec _ _ _ _ _ _ Ea Hfo1 Hfs1) as (Hfo2 & Hfs2 & Hle2). simpl.
    split; [assumption|].
    split; [apply (Forall_ptr_in_files_le (d_files st)); [eapply files_le_trans; eauto|assumption]|].
    split; [assumption|]. split; [assumption|].
    apply map_Forall_insert_2; [|assumption]. split; assumption.
  - simpl. split; [assumption|]. split; [assumption|]. split; [assumption|]. split; [assumption|].
    apply map_Forall_insert_2; [|assumption]. split; assumption.
Qed.

(* ---- delete ---- *)
Lemma usearch_point_exact ps t i :
  idx_ok ps -> ts_in_range t -> usearch ps (ts_span_range t 0) = (i, true) ->
  exists s, getp ps i = Some s /\ p_start s <= t < p_end s.
Proof.
  intros Hok Ht Hu. rewrite span_range0 in Hu by assumption.
  pose proof (usearch_spec ps (mkTR t t) Hok ltac:(split; assumption) ltac:(simpl; lia)) as Hs.
  rewrite Hu in Hs. destruct Hs as (s & Hg & Hov). exists s. split; [assumption|].
  pose proof (idx_ok_wf _ _ _ Hok Hg) as [Hr Hlt]. unfold p_start, p_end in *.
  assert (Hm : overlaps_math (p_tr s) (mkTR t t)).
  { apply overlaps_with_spec; [assumption|split; assumption|lia|simpl; lia|assumption]. }
  unfold overlaps_math in Hm. simpl in Hm. lia.
Qed.

Lemma usearch_point_inexact ps t i :
  idx_ok ps -> ts_in_range t -> usearch ps (ts_span_range t 0) = (i, false) ->
  -1 <= i < zlen ps /\
  (forall j p, getp ps j = Some p -> j <= i -> p_end p <= t) /\
  (forall j p, getp ps j = Some p -> i < j -> t < p_start p).
Proof.
  intros Hok Ht Hu. rewrite span_range0 in Hu by assumption.
  pose proof (usearch_spec ps (mkTR t t) Hok ltac:(split; assumption) ltac:(simpl; lia)) as Hs.
  rewrite Hu in Hs. destruct Hs as (Hi & HL & HR). simpl in *. split; [assumption|]. split; [assumption|].
  intros j p Hj Hlt. apply (HR j p Hj Hlt).
Qed.

Definition clampz (x hi : Z) : Z := Z.min (Z.max x 0) hi.

Lemma validate_delete_true ps sd ed so eo ie so' eo' s e :
  getp ps sd = Some s -> getp ps ed = Some e ->
  validate_delete ps sd ed so eo = (true, ie, so', eo') ->
  so' = clampz so (Z.of_N (p_size s)) /\ eo' = clampz eo (Z.of_N (p_size e)) /\
  (sd <= ed \/ (sd = ed + 1 /\ so' = 0 /\ eo' = 0)) /\
  (sd = ed -> so' + eo' < Z.of_N (p_size s)).
Proof.
  intros Hs He. unfold validate_delete.
  destruct (sd =? zlen ps); [discriminate|]. destruct (ed =? -1); [discriminate|].
  rewrite Hs, He.
  set (so1 := if so <? 0 then 0 else so). set (eo1 := if eo <? 0 then 0 else eo).
  set (sl := Z.of_N (p_size s)). set (el := Z.of_N (p_size e)).
  set (so2 := if sl <? so1 then sl else so1). set (eo2 := if el <? eo1 then el else eo1).
  assert (Hso2 : so2 = clampz so sl).
  { unfold so2, so1, clampz. destruct (Z.ltb_spec so 0); [destruct (Z.ltb_spec sl 0)|destruct (Z.ltb_spec sl so)]; lia. }
  assert (Heo2 : eo2 = clampz eo el).
  { unfold eo2, eo1, clampz. destruct (Z.ltb_spec eo 0); [destruct (Z.ltb_spec el 0)|destruct (Z.ltb_spec el eo)]; lia. }
  destruct ((ed <? sd) && (negb (sd =? ed + 1) || negb (so2 =? 0) || negb (eo2 =? 0))) eqn:C1; [discriminate|].
  destruct ((sd =? ed) && (sl <? so2 + eo2)) eqn:C2; [discriminate|].
  destruct ((sd =? ed - 1) && (so2 =? el) && (eo2 =? el) || (sd =? ed) && (so2 + eo2 =? sl)) eqn:C3; [discriminate|].
  intros H. inversion H; subst so' eo' ie. split; [assumption|]. split; [assumption|].
  apply orb_false_iff in C3. destruct C3 as [_ C3].
  split.
  - destruct (Z.ltb_spec ed sd) as [Hlt|Hge]; [|left; lia]. right. simpl in C1.
    apply orb_false_iff in C1. destruct C1 as [C1 C1c]. apply orb_false_iff in C1. destruct C1 as [C1a C1b].
    apply negb_false_iff in C1a, C1b, C1c. apply Z.eqb_eq in C1a, C1b, C1c. lia.
  - intros Heq. subst ed. rewrite Z.eqb_refl in C2, C3. simpl in C2, C3.
    apply Z.ltb_ge in C2. apply Z.eqb_neq in C3. rewrite Hs in He. inversion He; subst e. subst sl el. lia.
Qed.

Lemma firstn_app_exact {A} (l1 l2 : list A) n : length l1 = n -> firstn n (l1 ++ l2) = l1.
Proof. intros <-. rewrite firstn_app, Nat.sub_diag, firstn_all. simpl. apply app_nil_r. Qed.
Lemma skipn_app_exact {A} (l1 l2 : list A) n : length l1 = n -> skipn n (l1 ++ l2) = l2.
Proof. intros <-. rewrite skipn_app, Nat.sub_diag, skipn_all. reflexivity. Qed.

Lemma u32z_small z : 0 <= z < 2 ^ 32 -> u32z z = Z.to_N z.
Proof. intros H. unfold u32z. rewrite Z.mod_small by lia. reflexivity. Qed.

Lemma u32_sub_small a n : (n <= a)%N -> (a < 2 ^ 32)%N -> u32_sub a n = (a - n)%N.
Proof.
  intros Hle Ha. unfold u32_sub. rewrite u32_small by lia.
  replace (a + 2 ^ 32 - n)%N with ((a - n) + 1 * 2 ^ 32)%N by lia.
  rewrite N.mod_add by lia. apply N.mod_small. lia.
Qed.

(* Delete with the linear resolvers keeps the index well formed and within the files,
   whatever the bounds (inverted, in gaps, inside one domain, across many). *)
Lemma delete_lin_inv fs ps a b :
  idx_ok ps -> Forall (ptr_in_files fs) ps -> Forall file_small fs ->
  ts_in_range a -> ts_in_range b ->
  idx_ok (fst (delete lin_resolver lin_resolver ps a b)) /\
  Forall (ptr_in_files fs) (fst (delete lin_resolver lin_resolver ps a b)).
Proof.
  intros Hok Hpf Hsm Ha Hb. unfold delete.
  destruct (usearch ps (ts_span_range a 0)) as [sd0 exs] eqn:Eus.
  (* normalise the start part *)
  assert (Hstart :
    (exists sd s so a', (if exs then
        match getp ps sd0 with
        | Some s => match lin_resolver (p_start s) a with
                    | Some (so, a') => inl (Some (sd0, s, so, a')) | None => inr (RErr EOther) end
        | None => inr (RErr EOther) end
      else let sd := sd0 + 1 in
        if sd =? zlen ps then inl None
        else match getp ps sd with Some s => inl (Some (sd, s, 0, p_start s)) | None => inr (RErr EOther) end)
       = (inl (Some (sd, s, so, a')) : option (Z * pointer * Z * Z) + res) /\
      getp ps sd = Some s /\ ts_in_range a' /\
      (0 < so -> p_start s < a' /\ a' <= p_end s /\ so = a' - p_start s /\ a' = a /\ a < p_end s) /\
      (so <= 0 -> so = 0) /\ p_start s <= a' /\ (exs = false -> a < p_start s)) \/
    (exists r, (if exs then
        match getp ps sd0 with
        | Some s => match lin_resolver (p_start s) a with
                    | Some (so, a') => inl (Some (sd0, s, so, a')) | None => inr (RErr EOther) end
        | None => inr (RErr EOther) end
      else let sd := sd0 + 1 in
        if sd =? zlen ps then inl None
        else match getp ps sd with Some s => inl (Some (sd, s, 0, p_start s)) | None => inr (RErr EOther) end)
       = (r : option (Z * pointer * Z * Z) + res) /\ (r = inl None \/ exists x, r = inr x))).
  { destruct exs.
    - destruct (usearch_point_exact _ _ _ Hok Ha Eus) as (s & Hg & Hr). rewrite Hg. simpl.
      left. exists sd0, s, (a - p_start s), a. split; [reflexivity|]. split; [assumption|]. split; [assumption|].
      repeat split; try lia; try discriminate.
    - destruct (usearch_point_inexact _ _ _ Hok Ha Eus) as (Hi & HL & HR). simpl.
      destruct (Z.eqb_spec (sd0 + 1) (zlen ps)); [right; eexists; split; [reflexivity|auto]|].
      destruct (getp_lookup ps (sd0 + 1)) as [s Hg]; [lia|]. rewrite Hg.
      left. exists (sd0 + 1), s, 0, (p_start s). split; [reflexivity|]. split; [assumption|].
      pose proof (idx_ok_wf _ _ _ Hok Hg) as [[Hr _] Hlt].
      split; [exact Hr|]. repeat split; try lia. intros _. apply (HR (sd0 + 1) s Hg). lia. }
  destruct Hstart as [(sd & s & so & a' & -> & Hgs & Ha' & Hso_pos & Hso_np & Hsa' & Hinex_s)|(r & -> & [->|[x ->]])];
    [|simpl; auto|simpl; auto].
  destruct (usearch ps (ts_span_range b 0)) as [ed0 exe] eqn:Eue.
  assert (Hend :
    (exists ed e eo b', (if exe then
        match getp ps ed0 with
        | Some e => match lin_resolver (p_start e) b with
                    | Some (eo, b') => inl (Some (ed0, e, Z.of_N (p_size e) - eo, b')) | None => inr (RErr EOther) end
        | None => inr (RErr EOther) end
      else if ed0 =? -1 then inl None
        else match getp ps ed0 with Some e => inl (Some (ed0, e, 0, p_end e)) | None => inr (RErr EOther) end)
       = (inl (Some (ed, e, eo, b')) : option (Z * pointer * Z * Z) + res) /\
      getp ps ed = Some e /\ ts_in_range b' /\
      (0 < eo -> p_start e <= b' /\ b' < p_end e /\ eo = Z.of_N (p_size e) - (b' - p_start e) /\ b' = b) /\
      b' <= p_end e /\ (exe = false -> p_end e <= b /\ eo = 0)) \/
    (exists r, (if exe then
        match getp ps ed0 with
        | Some e => match lin_resolver (p_start e) b with
                    | Some (eo, b') => inl (Some (ed0, e, Z.of_N (p_size e) - eo, b')) | None => inr (RErr EOther) end
        | None => inr (RErr EOther) end
      else if ed0 =? -1 then inl None
        else match getp ps ed0 with Some e => inl (Some (ed0, e, 0, p_end e)) | None => inr (RErr EOther) end)
       = (r : option (Z * pointer * Z * Z) + res) /\ (r = inl None \/ exists x, r = inr x))).
  { destruct exe.
    - destruct (usearch_point_exact _ _ _ Hok Hb Eue) as (e & Hg & Hr). rewrite Hg. simpl.
      left. exists ed0, e, (Z.of_N (p_size e) - (b - p_start e)), b. split; [reflexivity|]. split; [assumption|].
      split; [assumption|]. repeat split; try lia; try discriminate.
    - destruct (usearch_point_inexact _ _ _ Hok Hb Eue) as (Hi & HL & HR).
      destruct (Z.eqb_spec ed0 (-1)); [right; eexists; split; [reflexivity|auto]|].
      destruct (getp_lookup ps ed0) as [e Hg]; [lia|]. rewrite Hg.
      left. exists ed0, e, 0, (p_end e). split; [reflexivity|]. split; [assumption|].
      pose proof (idx_ok_wf _ _ _ Hok Hg) as [[_ Hr] Hlt].
      split; [exact Hr|]. repeat split; try lia. apply (HL ed0 e Hg). lia. }
  destruct Hend as [(ed & e & eo & b' & -> & Hge & Hb' & Heo_pos & Heb' & Hinex_e)|(r & -> & [->|[x ->]])];
    [|simpl; auto|simpl; auto].
  destruct (validate_delete ps sd ed so eo) as [[[ok ie] so'] eo'] eqn:Ev.
  destruct ok; [|simpl; auto]. simpl.
  destruct (validate_delete_true _ _ _ _ _ _ _ _ _ _ Hgs Hge Ev) as (Hso' & Heo' & Hord & Hsame).
  pose proof (getp_Some _ _ _ Hgs) as Hsdr. pose proof (getp_Some _ _ _ Hge) as Hedr.
  pose proof (idx_ok_wf _ _ _ Hok Hgs) as [[Hsr1 Hsr2] Hslt].
  pose proof (idx_ok_wf _ _ _ Hok Hge) as [[Her1 Her2] Helt].
  (* the list is a splice of ps *)
  assert (Hlen1 : length (firstn (Z.to_nat sd) ps) = Z.to_nat sd).
  { rewrite firstn_length. unfold zlen in *. lia. }
  rewrite (firstn_app_exact _ _ _ Hlen1), (skipn_app_exact _ _ _ Hlen1).
  (* facts about pointers in files *)
  rewrite Forall_forall in Hpf.
  pose proof (Hpf s (getp_In _ _ _ Hgs)) as (fS & HfS & HbS & HzS).
  pose proof (Hpf e (getp_In _ _ _ Hge)) as (fE & HfE & HbE & HzE).
  rewrite Forall_forall in Hsm.
  pose proof (Hsm fS (proj2 (get_file_Some _ _ _ HfS))) as HsmS.
  pose proof (Hsm fE (proj2 (get_file_Some _ _ _ HfE))) as HsmE.
  unfold file_small in HsmS, HsmE.
  rewrite <- Forall_forall in Hpf.
  set (new_s := if so' =? 0 then [] else [mkPtr (mkTR (p_start s) a') (p_file s) (p_off s) (u32z so')]).
  set (new_e := if eo' =? 0 then []
                else [mkPtr (mkTR b' (p_end e)) (p_file e) (u32_sub (u32 (p_off e + p_size e)) (u32z eo')) (u32z eo')]).
  unfold clampz in Hso', Heo'.
  assert (Hsed : sd <= ed + 1) by lia.
  assert (Hse_le : sd <= ed -> p_end s <= p_end e /\ p_start s <= p_start e).
  { intros Hle. destruct (Z.eq_dec sd ed) as [->|Hne].
    - rewrite Hgs in Hge. inversion Hge; subst. lia.
    - pose proof (idx_ok_lookup_lt _ Hok sd ed s e Hgs Hge ltac:(lia)). lia. }
  assert (Hmid_ok : idx_ok (new_s ++ new_e) /\
                    (forall m, In m (new_s ++ new_e) -> p_start s <= p_start m /\ p_end m <= p_end e /\ sd <= ed) /\
                    Forall (ptr_in_files fs) (new_s ++ new_e)).
  { assert (HS : so' <> 0 -> ptr_wf (mkPtr (mkTR (p_start s) a') (p_file s) (p_off s) (u32z so')) /\
                 ptr_in_files fs (mkPtr (mkTR (p_start s) a') (p_file s) (p_off s) (u32z so')) /\ 0 < so).
    { intros Hnz. assert (0 < so) by lia. destruct (Hso_pos H) as (? & ? & ? & ? & ?).
      split; [split; [split; assumption|simpl; unfold p_start, p_end; simpl; lia]|]. split; [|assumption].
      exists fS. simpl. split; [assumption|]. rewrite u32z_small by lia. lia. }
    assert (HE : eo' <> 0 -> ptr_wf (mkPtr (mkTR b' (p_end e)) (p_file e) (u32_sub (u32 (p_off e + p_size e)) (u32z eo')) (u32z eo')) /\
                 ptr_in_files fs (mkPtr (mkTR b' (p_end e)) (p_file e) (u32_sub (u32 (p_off e + p_size e)) (u32z eo')) (u32z eo')) /\ 0 < eo).
    { intros Hnz. assert (0 < eo) by lia. destruct (Heo_pos H) as (? & ? & ? & ?).
      split; [split; [split; assumption|simpl; unfold p_start, p_end; simpl; lia]|]. split; [|assumption].
      exists fE. simpl. split; [assumption|]. rewrite u32z_small by lia. rewrite u32_small by lia.
      rewrite u32_sub_small by lia. lia. }
    assert (Hab : so' <> 0 -> eo' <> 0 -> a' <= b').
    { intros H1 H2. destruct (HS H1) as (_ & _ & Hp1). destruct (HE H2) as (_ & _ & Hp2).
      destruct (Hso_pos Hp1) as (? & ? & ? & ? & ?). destruct (Heo_pos Hp2) as (? & ? & ? & ?).
      destruct Hord as [Hle|(? & ? & ?)]; [|lia].
      destruct (Z.eq_dec sd ed) as [Heq|Hne].
      - specialize (Hsame Heq). subst ed. rewrite Hgs in Hge. inversion Hge; subst e. lia.
      - pose proof (idx_ok_lookup_lt _ Hok sd ed s e Hgs Hge ltac:(lia)). lia. }
    assert (Hle_needed : so' <> 0 \/ eo' <> 0 -> sd <= ed) by (destruct Hord as [?|(? & ? & ?)]; lia).
    unfold new_s, new_e.
    destruct (Z.eqb_spec so' 0) as [Hs0|Hs0]; destruct (Z.eqb_spec eo' 0) as [He0|He0]; simpl.
    - split; [apply idx_ok_nil|]. split; [intros ? []|constructor].
    - destruct (HE He0) as (Hw & Hf & _). split; [|split].
      + apply idx_ok_cons. split; [assumption|]. split; [apply idx_ok_nil|intros ? []].
      + intros m [<-|[]]. destruct (Heo_pos ltac:(lia)) as (? & ? & ? & ?).
        specialize (Hse_le ltac:(lia)). unfold p_start, p_end in *. simpl. lia.
      + constructor; [assumption|constructor].
    - destruct (HS Hs0) as (Hw & Hf & _). split; [|split].
      + apply idx_ok_cons. split; [assumption|]. split; [apply idx_ok_nil|intros ? []].
      + intros m [<-|[]]. destruct (Hso_pos ltac:(lia)) as (? & ? & ? & ? & ?).
        specialize (Hse_le ltac:(lia)). unfold p_start, p_end in *. simpl. lia.
      + constructor; [assumption|constructor].
    - destruct (HS Hs0) as (Hw1 & Hf1 & _). destruct (HE He0) as (Hw2 & Hf2 & _).
      specialize (Hab Hs0 He0). split; [|split].
      + apply idx_ok_cons. split; [assumption|]. split.
        * apply idx_ok_cons. split; [assumption|]. split; [apply idx_ok_nil|intros ? []].
        * intros x [<-|[]]. unfold before, p_start, p_end. simpl. assumption.
      + destruct (Hso_pos ltac:(lia)) as (? & ? & ? & ? & ?). destruct (Heo_pos ltac:(lia)) as (? & ? & ? & ?).
        specialize (Hse_le ltac:(lia)).
        intros m [<-|[<-|[]]]; unfold p_start, p_end in *; simpl; lia.
      + constructor; [assumption|]. constructor; [assumption|constructor]. }
  destruct Hmid_ok as (Hmid & Hbounds & Hmidf).
  replace (new_s ++ new_e ++ skipn (Z.to_nat (ed + 1)) ps) with ((new_s ++ new_e) ++ skipn (Z.to_nat (ed + 1)) ps)
    by (rewrite app_assoc; reflexivity).
  split.
  - apply idx_ok_splice; auto; try lia.
    + intros x m Hx Hm. destruct (Hbounds m Hm) as (H1 & _ & _).
      destruct (In_firstn_getp ps sd x ltac:(lia) Hx) as (j & Hj & Hg).
      pose proof (idx_ok_lookup_lt _ Hok j sd x s Hg Hgs ltac:(lia)). unfold before. lia.
    + intros m y Hm Hy. destruct (Hbounds m Hm) as (_ & H2 & _).
      destruct (In_skipn_getp ps (ed + 1) y ltac:(lia) Hy) as (j & Hj & Hg).
      pose proof (idx_ok_lookup_lt _ Hok ed j e y Hge Hg ltac:(lia)). unfold before. lia.
  - rewrite Forall_forall in *. intros x Hx. apply in_app_or in Hx. destruct Hx as [Hx|Hx].
    + apply Hpf. eapply In_firstn; eauto.
    + apply in_app_or in Hx. destruct Hx as [Hx|Hx]; [apply Hmidf; assumption|].
      apply Hpf. eapply In_skipn; eauto.
Qed.
