(* Cesium/DomainInv.v — the C03 invariant of the domain database model and its
   preservation by every operation; consequences (clean failure, conflicting opens and
   commits, the iterator sees every domain). *)
From stdpp Require Import gmap.
From Coq Require Import ZArith NArith List Bool Lia Sorted.
From Synnax Require Import Common.Telem Common.TelemProofs Cesium.Domain Cesium.DomainProofs.
Import ListNotations.
Local Open Scope Z_scope.

(* ------------------------------------------------------------------ files *)
Lemma nth_error_firstn_lt {A} (l : list A) : forall n i, (i < n)%nat -> nth_error (firstn n l) i = nth_error l i.
Proof.
  induction l as [|x l IH]; intros n i H; destruct n, i; simpl; try reflexivity; try lia.
  apply IH. lia.
Qed.
Lemma nth_error_skipn_add {A} (l : list A) : forall n i, nth_error (skipn n l) i = nth_error l (n + i).
Proof.
  induction l as [|x l IH]; intros n i; destruct n; simpl; try reflexivity.
  - destruct i; reflexivity.
  - apply IH.
Qed.

Lemma get_file_Some fs k f : get_file fs k = Some f -> (k <> 0)%N /\ In f fs.
Proof.
  unfold get_file. destruct (N.eqb_spec k 0); [discriminate|]. intros H. split; [assumption|].
  eapply nth_error_In; eauto.
Qed.

Lemma get_set_same fs k f f0 : get_file fs k = Some f0 -> get_file (set_file fs k f) k = Some f.
Proof.
  unfold get_file, set_file. destruct (N.eqb_spec k 0); [discriminate|]. intros H. rewrite H.
  assert (Hlt : (N.to_nat (k - 1) < length fs)%nat) by (apply nth_error_Some; congruence).
  rewrite nth_error_app2; rewrite firstn_length; [|lia].
  replace (N.to_nat (k - 1) - Init.Nat.min (N.to_nat (k - 1)) (length fs))%nat with 0%nat by lia.
  reflexivity.
Qed.

Lemma get_set_other fs k k' f : k <> k' -> get_file (set_file fs k f) k' = get_file fs k'.
Proof.
  intros Hne. unfold get_file, set_file. destruct (N.eqb_spec k' 0); [reflexivity|].
  destruct (N.eqb_spec k 0); [reflexivity|].
  destruct (nth_error fs (N.to_nat (k - 1))) eqn:E; [|reflexivity].
  assert (Hlt : (N.to_nat (k - 1) < length fs)%nat) by (apply nth_error_Some; congruence).
  set (a := N.to_nat (k - 1)) in *. set (b := N.to_nat (k' - 1)).
  assert (Hab : a <> b) by (subst a b; lia).
  destruct (Nat.lt_ge_cases b a) as [Hlt'|Hge].
  - rewrite nth_error_app1 by (rewrite firstn_length; lia). apply nth_error_firstn_lt; lia.
  - rewrite nth_error_app2 by (rewrite firstn_length; lia). rewrite firstn_length.
    replace (b - Init.Nat.min a (length fs))%nat with (S (b - S a)) by lia. simpl.
    rewrite nth_error_skipn_add. f_equal. lia.
Qed.

Lemma In_set_file fs k f x : In x (set_file fs k f) -> x = f \/ In x fs.
Proof.
  unfold set_file. destruct (k =? 0)%N; [auto|].
  destruct (nth_error fs (N.to_nat (k - 1))); [|auto].
  intros H. apply in_app_or in H. destruct H as [H|[H|H]]; [right; eapply In_firstn; eauto|auto|right; eapply In_skipn; eauto].
Qed.

Lemma Forall_set_file (P : file -> Prop) fs k f : Forall P fs -> P f -> Forall P (set_file fs k f).
Proof.
  rewrite !Forall_forall. intros H Hf x Hx. apply In_set_file in Hx. destruct Hx as [->|Hx]; auto.
Qed.

Lemma length_set_file fs k f : length (set_file fs k f) = length fs.
Proof.
  unfold set_file. destruct (k =? 0)%N; [reflexivity|].
  destruct (nth_error fs (N.to_nat (k - 1))) eqn:E; [|reflexivity].
  assert (Hlt : (N.to_nat (k - 1) < length fs)%nat) by (apply nth_error_Some; congruence).
  rewrite app_length, firstn_length. simpl. rewrite skipn_length. lia.
Qed.

(* every file keeps its key and its bytes, possibly with more bytes appended *)
Definition file_le (f f' : file) : Prop := exists sfx, f_data f' = f_data f ++ sfx.
Definition files_le (fs fs' : list file) : Prop :=
  forall k f, get_file fs k = Some f -> exists f', get_file fs' k = Some f' /\ file_le f f'.

Lemma file_le_refl f : file_le f f.
Proof. exists []. rewrite app_nil_r. reflexivity. Qed.

Lemma files_le_refl fs : files_le fs fs.
Proof. intros k f H. exists f. split; [assumption|apply file_le_refl]. Qed.

Lemma files_le_trans a b c : files_le a b -> files_le b c -> files_le a c.
Proof.
  intros H1 H2 k f Hf. destruct (H1 k f Hf) as (f' & Hf' & [s1 Hs1]).
  destruct (H2 k f' Hf') as (f'' & Hf'' & [s2 Hs2]). exists f''. split; [assumption|].
  exists (s1 ++ s2). rewrite Hs2, Hs1, app_assoc. reflexivity.
Qed.

Lemma files_le_set fs k f0 f : get_file fs k = Some f0 -> file_le f0 f -> files_le fs (set_file fs k f).
Proof.
  intros H0 Hle k' x Hx. destruct (N.eq_dec k k') as [<-|Hne].
  - rewrite H0 in Hx. inversion Hx; subst. exists f. split; [eapply get_set_same; eauto|assumption].
  - exists x. rewrite get_set_other by assumption. split; [assumption|apply file_le_refl].
Qed.

Lemma files_le_app fs f : files_le fs (fs ++ [f]).
Proof.
  intros k x Hx. exists x. split; [|apply file_le_refl]. unfold get_file in *.
  destruct (k =? 0)%N; [discriminate|]. rewrite nth_error_app1; [assumption|].
  apply nth_error_Some. congruence.
Qed.

Definition file_ok (f : file) : Prop := (f_off f + f_len f = f_size f)%N.
Definition file_small (f : file) : Prop := (f_size f < 2 ^ 32)%N.

Lemma first_eligible_get nominal fs : forall k0 k,
  first_eligible nominal fs k0 = Some k ->
  (k0 <= k)%N /\ exists f, nth_error fs (N.to_nat (k - k0)) = Some f /\ eligible nominal f = true.
Proof.
  induction fs as [|x l IH]; intros k0 k; simpl; [discriminate|].
  destruct (eligible nominal x) eqn:E.
  - intros H. inversion H; subst. split; [lia|]. exists x. replace (N.to_nat (k - k)) with 0%nat by lia. auto.
  - intros H. apply IH in H. destruct H as (Hle & f & Hf & He). split; [lia|]. exists f.
    replace (N.to_nat (k - k0)) with (S (N.to_nat (k - (k0 + 1)))) by lia. auto.
Qed.

(* acquireWriter keeps every file's bytes, keeps the tracked-writer bookkeeping
   consistent, and hands out an existing or a brand-new key *)
Lemma acquire_spec nominal fs choice k size fs' :
  acquire nominal fs choice = (k, size, fs') ->
  Forall file_ok fs -> Forall file_small fs ->
  Forall file_ok fs' /\ Forall file_small fs' /\ files_le fs fs'.
Proof.
  intros Hacq Hok Hsm.
  assert (Htake : forall k0 f0, get_file fs k0 = Some f0 ->
            Forall file_ok (set_file fs k0 (try_acquire f0)) /\
            Forall file_small (set_file fs k0 (try_acquire f0)) /\
            files_le fs (set_file fs k0 (try_acquire f0))).
  { intros k0 f0 H0. destruct (get_file_Some _ _ _ H0) as [_ Hin].
    rewrite Forall_forall in Hok, Hsm. pose proof (Hok _ Hin) as Hf. pose proof (Hsm _ Hin) as Hs.
    split; [|split].
    - apply Forall_set_file; [rewrite Forall_forall; assumption|].
      unfold file_ok, try_acquire, f_size in *. simpl. lia.
    - apply Forall_set_file; [rewrite Forall_forall; assumption|]. exact Hs.
    - eapply files_le_set; eauto. exists []. simpl. rewrite app_nil_r. reflexivity. }
  assert (Hfb : forall r, (match first_eligible nominal fs 1%N with
            | Some k1 => match get_file fs k1 with
                         | Some f => (k1, f_size f, set_file fs k1 (try_acquire f))
                         | None => (0%N, 0%N, fs) end
            | None => ((N.of_nat (length fs) + 1)%N, 0%N, fs ++ [mkFile [] 0 0 true]) end) = r ->
            r = (k, size, fs') ->
            Forall file_ok fs' /\ Forall file_small fs' /\ files_le fs fs').
  { intros r Hr Hrk. subst r. destruct (first_eligible nominal fs 1%N) as [k1|].
    - destruct (get_file fs k1) as [f1|] eqn:E1.
      + inversion Hrk; subst. apply Htake; assumption.
      + inversion Hrk; subst. repeat split; auto using files_le_refl.
    - inversion Hrk; subst. split; [|split].
      + apply Forall_app. split; [assumption|]. repeat constructor.
      + apply Forall_app. split; [assumption|]. repeat constructor.
      + apply files_le_app. }
  unfold acquire in Hacq.
  destruct (get_file fs choice) as [f|] eqn:Ec.
  - destruct (eligible nominal f).
    + inversion Hacq; subst. apply Htake; assumption.
    + eapply Hfb; eauto.
  - eapply Hfb; eauto.
Qed.

Lemma release_spec fs k :
  Forall file_ok fs -> Forall file_small fs ->
  Forall file_ok (release fs k) /\ Forall file_small (release fs k) /\ files_le fs (release fs k).
Proof.
  intros Hok Hsm. unfold release. destruct (get_file fs k) as [f|] eqn:E.
  - destruct (get_file_Some _ _ _ E) as [_ Hin]. rewrite Forall_forall in Hok, Hsm.
    pose proof (Hok _ Hin). pose proof (Hsm _ Hin). split; [|split].
    + apply Forall_set_file; [rewrite Forall_forall; assumption|assumption].
    + apply Forall_set_file; [rewrite Forall_forall; assumption|assumption].
    + eapply files_le_set; eauto. exists []. simpl. rewrite app_nil_r. reflexivity.
  - auto using files_le_refl.
Qed.

(* ------------------------------------------------------------------ the invariant *)
(* the pointer's bytes lie within its file *)
Definition ptr_in_files (fs : list file) (p : pointer) : Prop :=
  exists f, get_file fs (p_file p) = Some f /\ (p_off p + p_size p <= f_size f)%N /\ (0 < p_size p)%N.
Definition writer_ok (wr : writer) : Prop := ts_in_range (w_start wr) /\ ts_in_range (w_end wr).

(* C03 invariant: committed ranges are time-ordered, pairwise non-overlapping, non-empty
   ([idx_ok]) and lie within their files; plus the bookkeeping that keeps it inductive. *)
Definition Inv (st : db) : Prop :=
  idx_ok (d_ptrs st) /\
  Forall (ptr_in_files (d_files st)) (d_ptrs st) /\
  Forall file_ok (d_files st) /\ Forall file_small (d_files st) /\
  map_Forall (fun _ wr => writer_ok wr) (d_writers st).

(* operations the theorems quantify over: stamps are representable non-negative int64
   values and no data file reaches 2^32 bytes (pointer offsets are uint32 in the Go code) *)
Definition op_in_range (o : op) : Prop :=
  match o with
  | Open _ s e _ => ts_in_range s /\ ts_in_range e
  | Commit _ e _ => ts_in_range e
  | Delete a b => ts_in_range a /\ ts_in_range b
  | Write _ _ | Close _ => True
  end.
Definition legal (st : db) (o : op) : Prop :=
  op_in_range o /\
  match o with
  | Write w d => forall wr f, d_writers st !! w = Some wr -> get_file (d_files st) (w_file wr) = Some f ->
                              (f_size f + N.of_nat (length d) < 2 ^ 32)%N
  | _ => True
  end.
Fixpoint legal_run (st : db) (ops : list op) : Prop :=
  match ops with
  | [] => True
  | o :: rest => legal st o /\ legal_run (fst (step st o)) rest
  end.

Lemma Inv_init nominal cap : Inv (init nominal cap).
Proof.
  unfold Inv, init. simpl. split; [apply idx_ok_nil|]. split; [constructor|]. split; [constructor|].
  split; [constructor|]. apply map_Forall_empty.
Qed.

Lemma ptr_in_files_le fs fs' p : files_le fs fs' -> ptr_in_files fs p -> ptr_in_files fs' p.
Proof.
  intros Hle (f & Hf & Hb & Hs). destruct (Hle _ _ Hf) as (f' & Hf' & [sfx Hsfx]).
  exists f'. split; [assumption|]. split; [|assumption].
  unfold f_size in *. rewrite Hsfx, app_length. lia.
Qed.

Lemma Forall_ptr_in_files_le fs fs' ps :
  files_le fs fs' -> Forall (ptr_in_files fs) ps -> Forall (ptr_in_files fs') ps.
Proof. intros Hle. apply Forall_impl. intros p. apply ptr_in_files_le. assumption. Qed.

Lemma Forall_spliced {A} (P : A -> Prop) ps n m x :
  Forall P ps -> P x -> Forall P (firstn n ps ++ x :: skipn m ps).
Proof.
  rewrite !Forall_forall. intros H Hx y Hy. apply in_app_or in Hy.
  destruct Hy as [Hy|[<-|Hy]]; [apply H; eapply In_firstn; eauto|assumption|apply H; eapply In_skipn; eauto].
Qed.

Lemma u32_small n : (n < 2 ^ 32)%N -> u32 n = n.
Proof. intros H. unfold u32. apply N.mod_small. assumption. Qed.

Lemma get_ge_in ps ts p : get_ge ps ts = Some p -> In p ps.
Proof.
  unfold get_ge. destruct (usearch ps (ts_span_range ts 0)) as [i [|]].
  - apply getp_In.
  - destruct (i =? zlen ps); [discriminate|apply getp_In].
Qed.

(* ---- open / write / close ---- *)
Lemma open_inv st w s e k : Inv st -> ts_in_range s -> ts_in_range e -> Inv (fst (open_writer st w s e k)).
Proof.
  intros HI Hs He. pose proof HI as (Hidx & Hpf & Hfo & Hfs & Hw). unfold open_writer.
  destruct (d_writers st !! w); [exact HI|].
  destruct (negb (cfg_validate s e)); [exact HI|].
  destruct (idx_overlap (d_ptrs st) (cfg_domain s e)); [exact HI|].
  destruct (acquire (d_nominal st) (d_files st) k) as [[k' size] fs'] eqn:Ea.
  destruct (acquire_spec _ _ _ _ _ _ Ea Hfo Hfs) as (Hfo' & Hfs' & Hle). simpl.
  split; [assumption|]. split; [eapply Forall_ptr_in_files_le; eauto|]. split; [assumption|]. split; [assumption|].
  apply map_Forall_insert_2; [|assumption]. split; simpl; [assumption|].
  destruct (negb (ts_is_zero e)); [assumption|].
  destruct (get_ge (d_ptrs st) s) as [p|] eqn:Eg.
  - apply get_ge_in in Eg. destruct Hidx as [_ Hwf]. rewrite Forall_forall in Hwf.
    destruct (Hwf _ Eg) as [[Hr _] _]. exact Hr.
  - unfold ts_in_range, ts_min, ts_max. lia.
Qed.

Lemma write_inv st w d : Inv st -> legal st (Write w d) -> Inv (fst (write st w d)).
Proof.
  intros HI [_ Hleg]. pose proof HI as (Hidx & Hpf & Hfo & Hfs & Hw). unfold write.
  destruct (d_writers st !! w) as [wr|] eqn:Ew; [|exact HI].
  destruct (w_closed wr); [exact HI|].
  destruct (get_file (d_files st) (w_file wr)) as [f|] eqn:Ef; [|exact HI].
  simpl. specialize (Hleg wr f eq_refl Ef).
  destruct (get_file_Some _ _ _ Ef) as [_ Hin].
  rewrite Forall_forall in Hfo. pose proof (Hfo _ Hin) as Hf. rewrite <- Forall_forall in Hfo.
  set (f' := mkFile (f_data f ++ d) (f_off f) (f_len f + N.of_nat (length d))%N (f_inuse f)).
  assert (Hle : files_le (d_files st) (set_file (d_files st) (w_file wr) f')).
  { eapply files_le_set; eauto. exists d. reflexivity. }
  split; [assumption|]. split; [eapply Forall_ptr_in_files_le; eauto|].
  split; [|split].
  - apply Forall_set_file; [assumption|]. unfold file_ok, f_size in *. simpl. rewrite app_length. lia.
  - apply Forall_set_file; [assumption|]. unfold file_small, f_size in *. simpl. rewrite app_length. lia.
  - apply map_Forall_insert_2; [|assumption]. apply (Hw w wr Ew).
Qed.

Lemma close_inv st w : Inv st -> Inv (fst (close_writer st w)).
Proof.
  intros HI. pose proof HI as (Hidx & Hpf & Hfo & Hfs & Hw). unfold close_writer.
  destruct (d_writers st !! w) as [wr|] eqn:Ew; [|exact HI].
  destruct (w_closed wr); [exact HI|]. simpl.
  destruct (release_spec (d_files st) (w_file wr) Hfo Hfs) as (Hfo' & Hfs' & Hle).
  split; [assumption|]. split; [eapply Forall_ptr_in_files_le; eauto|]. split; [assumption|]. split; [assumption|].
  apply map_Forall_insert_2; [|assumption]. apply (Hw w wr Ew).
Qed.

(* ---- commit ---- *)
Lemma commit_inv st w e k : Inv st -> ts_in_range e -> Inv (fst (commit st w e k)).
Proof.
  intros HI He. pose proof HI as (Hidx & Hpf & Hfo & Hfs & Hw). unfold commit.
  destruct (d_writers st !! w) as [wr|] eqn:Ew; [|assumption].
  destruct (w_closed wr); [assumption|].
  destruct (w_preset wr && (w_end wr <? e)); [assumption|].
  destruct (get_file (d_files st) (w_file wr)) as [f|] eqn:Ef; [|assumption].
  destruct (N.eqb_spec (f_len f) 0) as [|Hlen]; [assumption|].
  destruct (resolve_commit_end (d_cap st) wr e) as [ce sw] eqn:Er.
  destruct (validate_commit_range wr ce sw) eqn:Ev; [simpl|assumption].
  destruct (Hw w wr Ew) as [Hws Hwe].
  assert (Hce : ts_in_range ce).
  { unfold resolve_commit_end in Er. destruct (d_cap st <=? w_fsize wr)%N; [inversion Er; subst; assumption|].
    destruct (w_preset wr); inversion Er; subst; assumption. }
  assert (Hlt : w_start wr < ce).
  { unfold validate_commit_range in Ev.
    destruct (negb (ts_is_zero (w_prev wr)) && negb (sw && w_preset wr) && (ce <? w_prev wr)); [discriminate|].
    destruct (Z.ltb_spec (w_start wr) ce); [assumption|discriminate]. }
  destruct (get_file_Some _ _ _ Ef) as [Hk Hin].
  rewrite Forall_forall in Hfo, Hfs. pose proof (Hfo _ Hin) as Hf. pose proof (Hfs _ Hin) as Hsm.
  rewrite <- Forall_forall in Hfo, Hfs. unfold file_ok, file_small in Hf, Hsm.
  set (ptr := mkPtr (mkTR (w_start wr) ce) (w_file wr) (u32 (f_off f)) (u32 (f_len f))).
  assert (Hpwf : ptr_wf ptr) by (split; [split; assumption|assumption]).
  assert (Hpif : ptr_in_files (d_files st) ptr).
  { exists f. split; [assumption|]. simpl. rewrite !u32_small by lia. lia. }
  assert (Hres : forall ps', (if ts_is_zero (w_prev wr) then insert (d_ptrs st) ptr else update (d_ptrs st) ptr) = inl ps' ->
                 idx_ok ps' /\ Forall (ptr_in_files (d_files st)) ps').
  { intros ps' Hr. destruct (ts_is_zero (w_prev wr)).
    - destruct (insert_ok _ _ _ Hidx Hpwf Hr) as (Hok' & n & ->). split; [assumption|].
      apply Forall_spliced; assumption.
    - destruct (update_ok _ _ _ Hidx Hpwf Hr) as (Hok' & n & old & _ & _ & ->). split; [assumption|].
      apply Forall_spliced; assumption. }
  destruct (if ts_is_zero (w_prev wr) then insert (d_ptrs st) ptr else update (d_ptrs st) ptr) as [ps'|err];
    [|assumption].
  destruct (Hres ps' eq_refl) as [Hok' Hpf'].
  destruct sw.
  - destruct (release_spec (d_files st) (w_file wr) Hfo Hfs) as (Hfo1 & Hfs1 & Hle1).
    destruct (acquire (d_nominal st) (release (d_files st) (w_file wr)) k) as [[k' size] fs2] eqn:Ea.
    destruct (acquire_spec _ _ _ _ _ _ Ea Hfo1 Hfs1) as (Hfo2 & Hfs2 & Hle2). simpl.
    split; [assumption|].
    split; [apply (Forall_ptr_in_files_le (d_files st)); [eapply files_le_trans; eauto|assumption]|].
    split; [assumption|]. split; [assumption|].
    apply map_Forall_insert_2; [|assumption]. split; assumption.
  - simpl. split; [assumption|]. split; [assumption|]. split; [assumption|]. split; [assumption|].
    apply map_Forall_insert_2; [|assumption]. split; assumption.
Qed.
