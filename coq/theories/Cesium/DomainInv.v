(* Cesium/DomainInv.v — the C03 invariant of the domain database model and its
   preservation by every operation; consequences (clean failure, conflicting opens and
   commits, the iterator sees every domain). *)
From stdpp Require Import gmap.
From Coq Require Import ZArith NArith List Bool Lia Sorted.
From Synnax Require Import Common.Telem Common.TelemProofs Cesium.Domain Cesium.DomainProofs.
Import ListNotations.
Local Open Scope Z_scope.

(* ------------------------------------------------------------------ files *)
Lemma nth_error_firstn_lt {A} (l : list A) : forall n i, (i < n)%nat -> nth_error (firstn n l) i = nth_error l i.
Proof.
  induction l as [|x l IH]; intros n i H; destruct n, i; simpl; try reflexivity; try lia.
  apply IH. lia.
Qed.
Lemma nth_error_skipn_add {A} (l : list A) : forall n i, nth_error (skipn n l) i = nth_error l (n + i).
Proof.
  induction l as [|x l IH]; intros n i; destruct n; simpl; try reflexivity.
  - destruct i; reflexivity.
  - apply IH.
Qed.

Lemma get_file_Some fs k f : get_file fs k = Some f -> (k <> 0)%N /\ In f fs.
Proof.
  unfold get_file. destruct (N.eqb_spec k 0); [discriminate|]. intros H. split; [assumption|].
  eapply nth_error_In; eauto.
Qed.

Lemma get_set_same fs k f f0 : get_file fs k = Some f0 -> get_file (set_file fs k f) k = Some f.
Proof.
  unfold get_file, set_file. destruct (N.eqb_spec k 0); [discriminate|]. intros H. rewrite H.
  assert (Hlt : (N.to_nat (k - 1) < length fs)%nat) by (apply nth_error_Some; congruence).
  rewrite nth_error_app2; rewrite firstn_length; [|lia].
  replace (N.to_nat (k - 1) - Init.Nat.min (N.to_nat (k - 1)) (length fs))%nat with 0%nat by lia.
  reflexivity.
Qed.

Lemma get_set_other fs k k' f : k <> k' -> get_file (set_file fs k f) k' = get_file fs k'.
Proof.
  intros Hne. unfold get_file, set_file. destruct (N.eqb_spec k' 0); [reflexivity|].
  destruct (N.eqb_spec k 0); [reflexivity|].
  destruct (nth_error fs (N.to_nat (k - 1))) eqn:E; [|reflexivity].
  assert (Hlt : (N.to_nat (k - 1) < length fs)%nat) by (apply nth_error_Some; congruence).
  set (a := N.to_nat (k - 1)) in *. set (b := N.to_nat (k' - 1)).
  assert (Hab : a <> b) by (subst a b; lia).
  destruct (Nat.lt_ge_cases b a) as [Hlt'|Hge].
  - rewrite nth_error_app1 by (rewrite firstn_length; lia). apply nth_error_firstn_lt; lia.
  - rewrite nth_error_app2 by (rewrite firstn_length; lia). rewrite firstn_length.
    replace (b - Init.Nat.min a (length fs))%nat with (S (b - S a)) by lia. simpl.
    rewrite nth_error_skipn_add. f_equal. lia.
Qed.

Lemma In_set_file fs k f x : In x (set_file fs k f) -> x = f \/ In x fs.
Proof.
  unfold set_file. destruct (k =? 0)%N; [auto|].
  destruct (nth_error fs (N.to_nat (k - 1))); [|auto].
  intros H. apply in_app_or in H. destruct H as [H|[H|H]]; [right; eapply In_firstn; eauto|auto|right; eapply In_skipn; eauto].
Qed.

Lemma Forall_set_file (P : file -> Prop) fs k f : Forall P fs -> P f -> Forall P (set_file fs k f).
Proof.
  rewrite !Forall_forall. intros H Hf x Hx. apply In_set_file in Hx. destruct Hx as [->|Hx]; auto.
Qed.

Lemma length_set_file fs k f : length (set_file fs k f) = length fs.
Proof.
  unfold set_file. destruct (k =? 0)%N; [reflexivity|].
  destruct (nth_error fs (N.to_nat (k - 1))) eqn:E; [|reflexivity].
  assert (Hlt : (N.to_nat (k - 1) < length fs)%nat) by (apply nth_error_Some; congruence).
  rewrite app_length, firstn_length. simpl. rewrite skipn_length. lia.
Qed.

(* every file keeps its key and its bytes, possibly with more bytes appended *)
Definition file_le (f f' : file) : Prop := exists sfx, f_data f' = f_data f ++ sfx.
Definition files_le (fs fs' : list file) : Prop :=
  forall k f, get_file fs k = Some f -> exists f', get_file fs' k = Some f' /\ file_le f f'.

Lemma file_le_refl f : file_le f f.
Proof. exists []. rewrite app_nil_r. reflexivity. Qed.

Lemma files_le_refl fs : files_le fs fs.
Proof. intros k f H. exists f. split; [assumption|apply file_le_refl]. Qed.

Lemma files_le_trans a b c : files_le a b -> files_le b c -> files_le a c.
Proof.
  intros H1 H2 k f Hf. destruct (H1 k f Hf) as (f' & Hf' & [s1 Hs1]).
  destruct (H2 k f' Hf') as (f'' & Hf'' & [s2 Hs2]). exists f''. split; [assumption|].
  exists (s1 ++ s2). rewrite Hs2, Hs1, app_assoc. reflexivity.
Qed.

Lemma files_le_set fs k f0 f : get_file fs k = Some f0 -> file_le f0 f -> files_le fs (set_file fs k f).
Proof.
  intros H0 Hle k' x Hx. destruct (N.eq_dec k k') as [<-|Hne].
  - rewrite H0 in Hx. inversion Hx; subst. exists f. split; [eapply get_set_same; eauto|assumption].
  - exists x. rewrite get_set_other by assumption. split; [assumption|apply file_le_refl].
Qed.

Lemma files_le_app fs f : files_le fs (fs ++ [f]).
Proof.
  intros k x Hx. exists x. split; [|apply file_le_refl]. unfold get_file in *.
  destruct (k =? 0)%N; [discriminate|]. rewrite nth_error_app1; [assumption|].
  apply nth_error_Some. congruence.
Qed.

Definition file_ok (f : file) : Prop := (f_off f + f_len f = f_size f)%N.
Definition file_small (f : file) : Prop := (f_size f < 2 ^ 32)%N.

Lemma first_eligible_get nominal fs : forall k0 k,
  first_eligible nominal fs k0 = Some k ->
  (k0 <= k)%N /\ exists f, nth_error fs (N.to_nat (k - k0)) = Some f /\ eligible nominal f = true.
Proof.
  induction fs as [|x l IH]; intros k0 k; simpl; [discriminate|].
  destruct (eligible nominal x) eqn:E.
  - intros H. inversion H; subst. split; [lia|]. exists x. replace (N.to_nat (k - k)) with 0%nat by lia. auto.
  - intros H. apply IH in H. destruct H as (Hle & f & Hf & He). split; [lia|]. exists f.
    replace (N.to_nat (k - k0)) with (S (N.to_nat (k - (k0 + 1)))) by lia. auto.
Qed.

(* acquireWriter keeps every file's bytes, keeps the tracked-writer bookkeeping
   consistent, and hands out an existing or a brand-new key *)
Lemma acquire_spec nominal fs choice k size fs' :
  acquire nominal fs choice = (k, size, fs') ->
  Forall file_ok fs -> Forall file_small fs ->
  Forall file_ok fs' /\ Forall file_small fs' /\ files_le fs fs'.
Proof.
  intros Hacq Hok Hsm.
  assert (Htake : forall k0 f0, get_file fs k0 = Some f0 ->
            Forall file_ok (set_file fs k0 (try_acquire f0)) /\
            Forall file_small (set_file fs k0 (try_acquire f0)) /\
            files_le fs (set_file fs k0 (try_acquire f0))).
  { intros k0 f0 H0. destruct (get_file_Some _ _ _ H0) as [_ Hin].
    rewrite Forall_forall in Hok, Hsm. pose proof (Hok _ Hin) as Hf. pose proof (Hsm _ Hin) as Hs.
    split; [|split].
    - apply Forall_set_file; [rewrite Forall_forall; assumption|].
      unfold file_ok, try_acquire, f_size in *. simpl. lia.
    - apply Forall_set_file; [rewrite Forall_forall; assumption|]. exact Hs.
    - eapply files_le_set; eauto. exists []. simpl. rewrite app_nil_r. reflexivity. }
  assert (Hfb : forall r, (match first_eligible nominal fs 1%N with
            | Some k1 => match get_file fs k1 with
                         | Some f => (k1, f_size f, set_file fs k1 (try_acquire f))
                         | None => (0%N, 0%N, fs) end
            | None => ((N.of_nat (length fs) + 1)%N, 0%N, fs ++ [mkFile [] 0 0 true]) end) = r ->
            r = (k, size, fs') ->
            Forall file_ok fs' /\ Forall file_small fs' /\ files_le fs fs').
  { intros r Hr Hrk. subst r. destruct (first_eligible nominal fs 1%N) as [k1|].
    - destruct (get_file fs k1) as [f1|] eqn:E1.
      + inversion Hrk; subst. apply Htake; assumption.
      + inversion Hrk; subst. repeat split; auto using files_le_refl.
    - inversion Hrk; subst. split; [|split].
      + apply Forall_app. split; [assumption|]. repeat constructor.
      + apply Forall_app. split; [assumption|]. repeat constructor.
      + apply files_le_app. }
  unfold acquire in Hacq.
  destruct (get_file fs choice) as [f|] eqn:Ec.
  - destruct (eligible nominal f).
    + inversion Hacq; subst. apply Htake; assumption.
    + eapply Hfb; eauto.
  - eapply Hfb; eauto.
Qed.

Lemma release_spec fs k :
  Forall file_ok fs -> Forall file_small fs ->
  Forall file_ok (release fs k) /\ Forall file_small (release fs k) /\ files_le fs (release fs k).
Proof.
  intros Hok Hsm. unfold release. destruct (get_file fs k) as [f|] eqn:E.
  - destruct (get_file_Some _ _ _ E) as [_ Hin]. rewrite Forall_forall in Hok, Hsm.
    pose proof (Hok _ Hin). pose proof (Hsm _ Hin). split; [|split].
    + apply Forall_set_file; [rewrite Forall_forall; assumption|assumption].
    + apply Forall_set_file; [rewrite Forall_forall; assumption|assumption].
    + eapply files_le_set; eauto. exists []. simpl. rewrite app_nil_r. reflexivity.
  - auto using files_le_refl.
Qed.

(* ------------------------------------------------------------------ the invariant *)
(* the pointer's bytes lie within its file *)
Definition ptr_in_files (fs : list file) (p : pointer) : Prop :=
  exists f, get_file fs (p_file p) = Some f /\ (p_off p + p_size p <= f_size f)%N /\ (0 < p_size p)%N.
Definition writer_ok (wr : writer) : Prop := ts_in_range (w_start wr) /\ ts_in_range (w_end wr).

(* C03 invariant: committed ranges are time-ordered, pairwise non-overlapping, non-empty
   ([idx_ok]) and lie within their files; plus the bookkeeping that keeps it inductive. *)
Definition Inv (st : db) : Prop :=
  idx_ok (d_ptrs st) /\
  Forall (ptr_in_files (d_files st)) (d_ptrs st) /\
  Forall file_ok (d_files st) /\ Forall file_small (d_files st) /\
  map_Forall (fun _ wr => writer_ok wr) (d_writers st).

(* operations the theorems quantify over: stamps are representable non-negative int64
   values and no data file reaches 2^32 bytes (pointer offsets are uint32 in the Go code) *)
Definition wop_in_range (x : wop) : Prop :=
  match x with
  | WOpen _ s e _ => ts_in_range s /\ ts_in_range e
  | WCommit _ e _ => ts_in_range e
  | WWrite _ _ | WClose _ => True
  end.
Definition write_fits (st : db) (w : N) (d : list N) : Prop :=
  forall wr f, d_writers st !! w = Some wr -> get_file (d_files st) (w_file wr) = Some f ->
               (f_size f + N.of_nat (length d) < 2 ^ 32)%N.
Definition wlegal (st : db) (x : wop) : Prop :=
  wop_in_range x /\ match x with WWrite w d => write_fits st w d | _ => True end.
Fixpoint wlegal_run (st : db) (ws : list wop) : Prop :=
  match ws with
  | [] => True
  | x :: rest => wlegal st x /\ wlegal_run (fst (wstep st x)) rest
  end.

(* Side conditions of a delete with writer operations inside its resolvers: the nested
   operations are legal where they run, and they leave the two domains the delete has
   already captured (the one holding its start, the one holding its end) as they were —
   i.e. the concurrent commits insert new domains or extend domains other than those
   two.  (unary.DB.delete's control gate keeps writers on the deleted range out.) *)
Definition delc_legal (st : db) (a b : Z) (sops eops : list wop) : Prop :=
  match delete_start lin_resolver (d_ptrs st) a with
  | inl (Some (sd, s, so, a')) =>
      let called1 := snd (usearch (d_ptrs st) (ts_span_range a 0)) in
      let st1 := if called1 then wrun st sops else st in
      (called1 = true -> wlegal_run st sops) /\
      match delete_end lin_resolver (d_ptrs st1) b with
      | inl (Some (ed, e, eo, b')) =>
          let called2 := snd (usearch (d_ptrs st1) (ts_span_range b 0)) in
          let st2 := if called2 then wrun st1 eops else st1 in
          (called2 = true -> wlegal_run st1 eops) /\ In s (d_ptrs st2) /\ In e (d_ptrs st2)
      | _ => True
      end
  | _ => True
  end.

Definition op_in_range (o : op) : Prop :=
  match o with
  | Open _ s e _ => ts_in_range s /\ ts_in_range e
  | Commit _ e _ => ts_in_range e
  | Delete a b | DeleteC a b _ _ => ts_in_range a /\ ts_in_range b
  | Write _ _ | Close _ | Reopen => True
  end.
Definition legal (st : db) (o : op) : Prop :=
  op_in_range o /\
  match o with
  | Write w d => write_fits st w d
  | DeleteC a b sops eops => delc_legal st a b sops eops
  | _ => True
  end.
Fixpoint legal_run (st : db) (ops : list op) : Prop :=
  match ops with
  | [] => True
  | o :: rest => legal st o /\ legal_run (fst (step st o)) rest
  end.

Lemma Inv_init nominal cap : Inv (init nominal cap).
Proof.
  unfold Inv, init. simpl. split; [apply idx_ok_nil|]. split; [constructor|]. split; [constructor|].
  split; [constructor|]. apply map_Forall_empty.
Qed.

Lemma ptr_in_files_le fs fs' p : files_le fs fs' -> ptr_in_files fs p -> ptr_in_files fs' p.
Proof.
  intros Hle (f & Hf & Hb & Hs). destruct (Hle _ _ Hf) as (f' & Hf' & [sfx Hsfx]).
  exists f'. split; [assumption|]. split; [|assumption].
  unfold f_size in *. rewrite Hsfx, app_length. lia.
Qed.

Lemma Forall_ptr_in_files_le fs fs' ps :
  files_le fs fs' -> Forall (ptr_in_files fs) ps -> Forall (ptr_in_files fs') ps.
Proof. intros Hle. apply Forall_impl. intros p. apply ptr_in_files_le. assumption. Qed.

Lemma Forall_spliced {A} (P : A -> Prop) ps n m x :
  Forall P ps -> P x -> Forall P (firstn n ps ++ x :: skipn m ps).
Proof.
  rewrite !Forall_forall. intros H Hx y Hy. apply in_app_or in Hy.
  destruct Hy as [Hy|[<-|Hy]]; [apply H; eapply In_firstn; eauto|assumption|apply H; eapply In_skipn; eauto].
Qed.

Lemma u32_small n : (n < 2 ^ 32)%N -> u32 n = n.
Proof. intros H. unfold u32. apply N.mod_small. assumption. Qed.

Lemma get_ge_in ps ts p : get_ge ps ts = Some p -> In p ps.
Proof.
  unfold get_ge. destruct (usearch ps (ts_span_range ts 0)) as [i [|]].
  - apply getp_In.
  - destruct (i =? zlen ps); [discriminate|apply getp_In].
Qed.

(* ---- open / write / close ---- *)
Lemma open_inv st w s e k : Inv st -> ts_in_range s -> ts_in_range e -> Inv (fst (open_writer st w s e k)).
Proof.
  intros HI Hs He. pose proof HI as (Hidx & Hpf & Hfo & Hfs & Hw). unfold open_writer.
  destruct (d_writers st !! w); [exact HI|].
  destruct (negb (cfg_validate s e)); [exact HI|].
  destruct (idx_overlap (d_ptrs st) (cfg_domain s e)); [exact HI|].
  destruct (acquire (d_nominal st) (d_files st) k) as [[k' size] fs'] eqn:Ea.
  destruct (acquire_spec _ _ _ _ _ _ Ea Hfo Hfs) as (Hfo' & Hfs' & Hle). simpl.
  split; [assumption|]. split; [eapply Forall_ptr_in_files_le; eauto|]. split; [assumption|]. split; [assumption|].
  apply map_Forall_insert_2; [|assumption]. split; simpl; [assumption|].
  destruct (negb (ts_is_zero e)); [assumption|].
  destruct (get_ge (d_ptrs st) s) as [p|] eqn:Eg.
  - apply get_ge_in in Eg. destruct Hidx as [_ Hwf]. rewrite Forall_forall in Hwf.
    destruct (Hwf _ Eg) as [[Hr _] _]. exact Hr.
  - unfold ts_in_range, ts_min, ts_max. lia.
Qed.

Lemma write_inv st w d : Inv st -> legal st (Write w d) -> Inv (fst (write st w d)).
Proof.
  intros HI [_ Hleg]. pose proof HI as (Hidx & Hpf & Hfo & Hfs & Hw). unfold write.
  destruct (d_writers st !! w) as [wr|] eqn:Ew; [|exact HI].
  destruct (w_closed wr); [exact HI|].
  destruct (get_file (d_files st) (w_file wr)) as [f|] eqn:Ef; [|exact HI].
  simpl. specialize (Hleg wr f Ew Ef).
  destruct (get_file_Some _ _ _ Ef) as [_ Hin].
  rewrite Forall_forall in Hfo. pose proof (Hfo _ Hin) as Hf. rewrite <- Forall_forall in Hfo.
  set (f' := mkFile (f_data f ++ d) (f_off f) (f_len f + N.of_nat (length d))%N (f_inuse f)).
  assert (Hle : files_le (d_files st) (set_file (d_files st) (w_file wr) f')).
  { eapply files_le_set; eauto. exists d. reflexivity. }
  split; [assumption|]. split; [eapply Forall_ptr_in_files_le; eauto|].
  split; [|split].
  - apply Forall_set_file; [assumption|]. unfold file_ok, f_size in *. simpl. rewrite app_length. lia.
  - apply Forall_set_file; [assumption|]. unfold file_small, f_size in *. simpl. rewrite app_length. lia.
  - apply map_Forall_insert_2; [|assumption]. apply (Hw w wr Ew).
Qed.

Lemma close_inv st w : Inv st -> Inv (fst (close_writer st w)).
Proof.
  intros HI. pose proof HI as (Hidx & Hpf & Hfo & Hfs & Hw). unfold close_writer.
  destruct (d_writers st !! w) as [wr|] eqn:Ew; [|exact HI].
  destruct (w_closed wr); [exact HI|]. simpl.
  destruct (release_spec (d_files st) (w_file wr) Hfo Hfs) as (Hfo' & Hfs' & Hle).
  split; [assumption|]. split; [eapply Forall_ptr_in_files_le; eauto|]. split; [assumption|]. split; [assumption|].
  apply map_Forall_insert_2; [|assumption]. apply (Hw w wr Ew).
Qed.

(* ---- commit ---- *)
Lemma commit_inv st w e k : Inv st -> ts_in_range e -> Inv (fst (commit st w e k)).
Proof.
  intros HI He. pose proof HI as (Hidx & Hpf & Hfo & Hfs & Hw). unfold commit.
  destruct (d_writers st !! w) as [wr|] eqn:Ew; [|assumption].
  destruct (w_closed wr); [assumption|].
  destruct (w_preset wr && (w_end wr <? e)); [assumption|].
  destruct (get_file (d_files st) (w_file wr)) as [f|] eqn:Ef; [|assumption].
  destruct (N.eqb_spec (f_len f) 0) as [|Hlen]; [assumption|].
  destruct (resolve_commit_end (d_cap st) wr e) as [ce sw] eqn:Er.
  destruct (validate_commit_range wr ce sw) eqn:Ev; [simpl|assumption].
  destruct (Hw w wr Ew) as [Hws Hwe].
  assert (Hce : ts_in_range ce).
  { unfold resolve_commit_end in Er. destruct (d_cap st <=? w_fsize wr)%N; [inversion Er; subst; assumption|].
    destruct (w_preset wr); inversion Er; subst; assumption. }
  assert (Hlt : w_start wr < ce).
  { unfold validate_commit_range in Ev.
    destruct (negb (ts_is_zero (w_prev wr)) && negb (sw && w_preset wr) && (ce <? w_prev wr)); [discriminate|].
    destruct (Z.ltb_spec (w_start wr) ce); [assumption|discriminate]. }
  destruct (get_file_Some _ _ _ Ef) as [Hk Hin].
  rewrite Forall_forall in Hfo, Hfs. pose proof (Hfo _ Hin) as Hf. pose proof (Hfs _ Hin) as Hsm.
  rewrite <- Forall_forall in Hfo, Hfs. unfold file_ok, file_small in Hf, Hsm.
  set (ptr := mkPtr (mkTR (w_start wr) ce) (w_file wr) (u32 (f_off f)) (u32 (f_len f))).
  assert (Hpwf : ptr_wf ptr) by (split; [split; assumption|assumption]).
  assert (Hpif : ptr_in_files (d_files st) ptr).
  { exists f. split; [assumption|]. simpl. rewrite !u32_small by lia. lia. }
  assert (Hres : forall ps', (if ts_is_zero (w_prev wr) then insert (d_ptrs st) ptr else update (d_ptrs st) ptr) = inl ps' ->
                 idx_ok ps' /\ Forall (ptr_in_files (d_files st)) ps').
  { intros ps' Hr. destruct (ts_is_zero (w_prev wr)).
    - destruct (insert_ok _ _ _ Hidx Hpwf Hr) as (Hok' & n & ->). split; [assumption|].
      apply Forall_spliced; assumption.
    - destruct (update_ok _ _ _ Hidx Hpwf Hr) as (Hok' & n & old & _ & _ & ->). split; [assumption|].
      apply Forall_spliced; assumption. }
  destruct (if ts_is_zero (w_prev wr) then insert (d_ptrs st) ptr else update (d_ptrs st) ptr) as [ps'|err];
    [|assumption].
  destruct (Hres ps' eq_refl) as [Hok' Hpf'].
  destruct sw.
  - destruct (release_spec (d_files st) (w_file wr) Hfo Hfs) as (Hfo1 & Hfs1 & Hle1).
    destruct (acquire (d_nominal st) (release (d_files st) (w_file wr)) k) as [[k' size] fs2] eqn:Ea.
    destruct (acquire_spec _ _ _ _ _ _ Ea Hfo1 Hfs1) as (Hfo2 & Hfs2 & Hle2). simpl.
    split; [assumption|].
    split; [apply (Forall_ptr_in_files_le (d_files st)); [eapply files_le_trans; eauto|assumption]|].
    split; [assumption|]. split; [assumption|].
    apply map_Forall_insert_2; [|assumption]. split; assumption.
  - simpl. split; [assumption|]. split; [assumption|]. split; [assumption|]. split; [assumption|].
    apply map_Forall_insert_2; [|assumption]. split; assumption.
Qed.

(* ---- delete ---- *)
Lemma usearch_point_exact ps t i :
  idx_ok ps -> ts_in_range t -> usearch ps (ts_span_range t 0) = (i, true) ->
  exists s, getp ps i = Some s /\ p_start s <= t < p_end s.
Proof.
  intros Hok Ht Hu. rewrite span_range0 in Hu by assumption.
  pose proof (usearch_spec ps (mkTR t t) Hok ltac:(split; assumption) ltac:(simpl; lia)) as Hs.
  rewrite Hu in Hs. destruct Hs as (s & Hg & Hov). exists s. split; [assumption|].
  pose proof (idx_ok_wf _ _ _ Hok Hg) as [Hr Hlt]. unfold p_start, p_end in *.
  assert (Hm : overlaps_math (p_tr s) (mkTR t t)).
  { apply overlaps_with_spec; [assumption|split; assumption|lia|simpl; lia|assumption]. }
  unfold overlaps_math in Hm. simpl in Hm. lia.
Qed.

Lemma usearch_point_inexact ps t i :
  idx_ok ps -> ts_in_range t -> usearch ps (ts_span_range t 0) = (i, false) ->
  -1 <= i < zlen ps /\
  (forall j p, getp ps j = Some p -> j <= i -> p_end p <= t) /\
  (forall j p, getp ps j = Some p -> i < j -> t < p_start p).
Proof.
  intros Hok Ht Hu. rewrite span_range0 in Hu by assumption.
  pose proof (usearch_spec ps (mkTR t t) Hok ltac:(split; assumption) ltac:(simpl; lia)) as Hs.
  rewrite Hu in Hs. destruct Hs as (Hi & HL & HR). simpl in *. split; [assumption|]. split; [assumption|].
  intros j p Hj Hlt. apply (HR j p Hj Hlt).
Qed.

Definition clampz (x hi : Z) : Z := Z.min (Z.max x 0) hi.

Lemma validate_delete_true ps sd ed so eo ie so' eo' s e :
  getp ps sd = Some s -> getp ps ed = Some e ->
  validate_delete ps sd ed so eo = (true, ie, so', eo') ->
  so' = clampz so (Z.of_N (p_size s)) /\ eo' = clampz eo (Z.of_N (p_size e)) /\
  (sd <= ed \/ (sd = ed + 1 /\ so' = 0 /\ eo' = 0)) /\
  (sd = ed -> so' + eo' < Z.of_N (p_size s)).
Proof.
  intros Hs He. unfold validate_delete.
  destruct (sd =? zlen ps); [discriminate|]. destruct (ed =? -1); [discriminate|].
  rewrite Hs, He.
  set (so1 := if so <? 0 then 0 else so). set (eo1 := if eo <? 0 then 0 else eo).
  set (sl := Z.of_N (p_size s)). set (el := Z.of_N (p_size e)).
  set (so2 := if sl <? so1 then sl else so1). set (eo2 := if el <? eo1 then el else eo1).
  assert (Hso2 : so2 = clampz so sl).
  { unfold so2, so1, clampz. destruct (Z.ltb_spec so 0); [destruct (Z.ltb_spec sl 0)|destruct (Z.ltb_spec sl so)]; lia. }
  assert (Heo2 : eo2 = clampz eo el).
  { unfold eo2, eo1, clampz. destruct (Z.ltb_spec eo 0); [destruct (Z.ltb_spec el 0)|destruct (Z.ltb_spec el eo)]; lia. }
  destruct ((ed <? sd) && (negb (sd =? ed + 1) || negb (so2 =? 0) || negb (eo2 =? 0))) eqn:C1; [discriminate|].
  destruct ((sd =? ed) && (sl <? so2 + eo2)) eqn:C2; [discriminate|].
  destruct ((sd =? ed - 1) && (so2 =? sl) && (eo2 =? el) || (sd =? ed) && (so2 + eo2 =? sl)) eqn:C3; [discriminate|].
  intros H. inversion H; subst so' eo' ie. split; [assumption|]. split; [assumption|].
  apply orb_false_iff in C3. destruct C3 as [_ C3].
  split.
  - destruct (Z.ltb_spec ed sd) as [Hlt|Hge]; [|left; lia]. right. simpl in C1.
    apply orb_false_iff in C1. destruct C1 as [C1 C1c]. apply orb_false_iff in C1. destruct C1 as [C1a C1b].
    apply negb_false_iff in C1a, C1b, C1c. apply Z.eqb_eq in C1a, C1b, C1c. lia.
  - intros Heq. subst ed. rewrite Z.eqb_refl in C2, C3. simpl in C2, C3.
    apply Z.ltb_ge in C2. apply Z.eqb_neq in C3. rewrite Hs in He. inversion He; subst e. subst sl el. lia.
Qed.

Lemma firstn_app_exact {A} (l1 l2 : list A) n : length l1 = n -> firstn n (l1 ++ l2) = l1.
Proof. intros <-. rewrite firstn_app, Nat.sub_diag, firstn_all. simpl. apply app_nil_r. Qed.
Lemma skipn_app_exact {A} (l1 l2 : list A) n : length l1 = n -> skipn n (l1 ++ l2) = l2.
Proof. intros <-. rewrite skipn_app, Nat.sub_diag, skipn_all. reflexivity. Qed.

Lemma u32z_small z : 0 <= z < 2 ^ 32 -> u32z z = Z.to_N z.
Proof. intros H. unfold u32z. rewrite Z.mod_small by lia. reflexivity. Qed.

Lemma u32_sub_small a n : (n <= a)%N -> (a < 2 ^ 32)%N -> u32_sub a n = (a - n)%N.
Proof.
  intros Hle Ha. unfold u32_sub. rewrite u32_small by lia.
  replace (a + 2 ^ 32 - n)%N with ((a - n) + 1 * 2 ^ 32)%N by lia.
  rewrite N.mod_add by lia. apply N.mod_small. lia.
Qed.

(* what the start stage delivers (linear resolver) *)
Lemma delete_start_spec ps a sd s so a' :
  idx_ok ps -> ts_in_range a ->
  delete_start lin_resolver ps a = inl (Some (sd, s, so, a')) ->
  getp ps sd = Some s /\ ts_in_range a' /\
  (0 < so -> p_start s < a' /\ a' <= p_end s /\ so = a' - p_start s /\ a' = a /\ a < p_end s) /\
  (so <= 0 -> so = 0) /\ p_start s <= a'.
Proof.
  intros Hok Ha. unfold delete_start.
  destruct (usearch ps (ts_span_range a 0)) as [sd0 [|]] eqn:Eus.
  - destruct (usearch_point_exact _ _ _ Hok Ha Eus) as (s0 & Hg & Hr). rewrite Hg. simpl.
    intros H. inversion H; subst. split; [assumption|]. split; [assumption|]. repeat split; lia.
  - destruct (usearch_point_inexact _ _ _ Hok Ha Eus) as (Hi & HL & HR). simpl.
    destruct (Z.eqb_spec (sd0 + 1) (zlen ps)); [discriminate|].
    destruct (getp_lookup ps (sd0 + 1)) as [s0 Hg]; [lia|]. rewrite Hg.
    intros H. inversion H; subst. split; [assumption|].
    pose proof (idx_ok_wf _ _ _ Hok Hg) as [[Hr _] Hlt]. split; [exact Hr|]. repeat split; lia.
Qed.

Lemma delete_end_spec ps b ed e eo b' :
  idx_ok ps -> ts_in_range b ->
  delete_end lin_resolver ps b = inl (Some (ed, e, eo, b')) ->
  getp ps ed = Some e /\ ts_in_range b' /\
  (0 < eo -> p_start e <= b' /\ b' < p_end e /\ eo = Z.of_N (p_size e) - (b' - p_start e) /\ b' = b) /\
  b' <= p_end e.
Proof.
  intros Hok Hb. unfold delete_end.
  destruct (usearch ps (ts_span_range b 0)) as [ed0 [|]] eqn:Eue.
  - destruct (usearch_point_exact _ _ _ Hok Hb Eue) as (e0 & Hg & Hr). rewrite Hg. simpl.
    intros H. inversion H; subst. split; [assumption|]. split; [assumption|]. repeat split; lia.
  - destruct (usearch_point_inexact _ _ _ Hok Hb Eue) as (Hi & HL & HR).
    destruct (Z.eqb_spec ed0 (-1)); [discriminate|].
    destruct (getp_lookup ps ed0) as [e0 Hg]; [lia|]. rewrite Hg.
    intros H. inversion H; subst. split; [assumption|].
    pose proof (idx_ok_wf _ _ _ Hok Hg) as [[_ Hr] Hlt]. split; [exact Hr|]. repeat split; lia.
Qed.

Lemma delete_apply_inv fs ps sd s so a' ed e eo b' :
  idx_ok ps -> Forall (ptr_in_files fs) ps -> Forall file_small fs ->
  getp ps sd = Some s -> ts_in_range a' ->
  (0 < so -> p_start s < a' /\ a' <= p_end s /\ so = a' - p_start s) ->
  getp ps ed = Some e -> ts_in_range b' ->
  (0 < eo -> p_start e <= b' /\ b' < p_end e /\ eo = Z.of_N (p_size e) - (b' - p_start e)) ->
  idx_ok (fst (delete_apply ps sd s so a' ed e eo b')) /\
  Forall (ptr_in_files fs) (fst (delete_apply ps sd s so a' ed e eo b')).
Proof.
  intros Hok Hpf Hsm Hgs Ha' Hso_pos Hge Hb' Heo_pos. unfold delete_apply.
  destruct (validate_delete ps sd ed so eo) as [[[ok ie] so'] eo'] eqn:Ev.
  destruct ok; [|simpl; auto]. simpl.
  destruct (validate_delete_true _ _ _ _ _ _ _ _ _ _ Hgs Hge Ev) as (Hso' & Heo' & Hord & Hsame).
  pose proof (getp_Some _ _ _ Hgs) as Hsdr. pose proof (getp_Some _ _ _ Hge) as Hedr.
  pose proof (idx_ok_wf _ _ _ Hok Hgs) as [[Hsr1 Hsr2] Hslt].
  pose proof (idx_ok_wf _ _ _ Hok Hge) as [[Her1 Her2] Helt].
  assert (Hlen1 : length (firstn (Z.to_nat sd) ps) = Z.to_nat sd).
  { rewrite firstn_length. unfold zlen in *. lia. }
  rewrite (firstn_app_exact _ _ _ Hlen1), (skipn_app_exact _ _ _ Hlen1).
  rewrite Forall_forall in Hpf.
  pose proof (Hpf s (getp_In _ _ _ Hgs)) as (fS & HfS & HbS & HzS).
  pose proof (Hpf e (getp_In _ _ _ Hge)) as (fE & HfE & HbE & HzE).
  rewrite Forall_forall in Hsm.
  pose proof (Hsm fS (proj2 (get_file_Some _ _ _ HfS))) as HsmS.
  pose proof (Hsm fE (proj2 (get_file_Some _ _ _ HfE))) as HsmE.
  unfold file_small in HsmS, HsmE.
  rewrite <- Forall_forall in Hpf.
  set (new_s := if so' =? 0 then [] else [mkPtr (mkTR (p_start s) a') (p_file s) (p_off s) (u32z so')]).
  set (new_e := if eo' =? 0 then []
                else [mkPtr (mkTR b' (p_end e)) (p_file e) (u32_sub (u32 (p_off e + p_size e)) (u32z eo')) (u32z eo')]).
  unfold clampz in Hso', Heo'.
  assert (Hsed : sd <= ed + 1) by lia.
  assert (Hse_le : sd <= ed -> p_end s <= p_end e /\ p_start s <= p_start e).
  { intros Hle. destruct (Z.eq_dec sd ed) as [->|Hne].
    - rewrite Hgs in Hge. inversion Hge; subst. lia.
    - pose proof (idx_ok_lookup_lt _ Hok sd ed s e Hgs Hge ltac:(lia)). lia. }
  assert (Hmid_ok : idx_ok (new_s ++ new_e) /\
                    (forall m, In m (new_s ++ new_e) -> p_start s <= p_start m /\ p_end m <= p_end e /\ sd <= ed) /\
                    Forall (ptr_in_files fs) (new_s ++ new_e)).
  { assert (HS : so' <> 0 -> ptr_wf (mkPtr (mkTR (p_start s) a') (p_file s) (p_off s) (u32z so')) /\
                 ptr_in_files fs (mkPtr (mkTR (p_start s) a') (p_file s) (p_off s) (u32z so')) /\ 0 < so).
    { intros Hnz. assert (H : 0 < so) by lia. destruct (Hso_pos H) as (? & ? & ?).
      split; [split; [split; assumption|unfold p_start, p_end in *; simpl; lia]|]. split; [|assumption].
      exists fS. simpl. split; [assumption|]. rewrite u32z_small by lia. lia. }
    assert (HE : eo' <> 0 -> ptr_wf (mkPtr (mkTR b' (p_end e)) (p_file e) (u32_sub (u32 (p_off e + p_size e)) (u32z eo')) (u32z eo')) /\
                 ptr_in_files fs (mkPtr (mkTR b' (p_end e)) (p_file e) (u32_sub (u32 (p_off e + p_size e)) (u32z eo')) (u32z eo')) /\ 0 < eo).
    { intros Hnz. assert (H : 0 < eo) by lia. destruct (Heo_pos H) as (? & ? & ?).
      split; [split; [split; assumption|unfold p_start, p_end in *; simpl; lia]|]. split; [|assumption].
      exists fE. simpl. split; [assumption|]. rewrite u32z_small by lia. rewrite u32_small by lia.
      rewrite u32_sub_small by lia. lia. }
    assert (Hab : so' <> 0 -> eo' <> 0 -> a' <= b').
    { intros H1 H2. destruct (HS H1) as (_ & _ & Hp1). destruct (HE H2) as (_ & _ & Hp2).
      destruct (Hso_pos Hp1) as (? & ? & ?). destruct (Heo_pos Hp2) as (? & ? & ?).
      destruct Hord as [Hle|(? & ? & ?)]; [|lia].
      destruct (Z.eq_dec sd ed) as [Heq|Hne].
      - specialize (Hsame Heq). subst ed. rewrite Hgs in Hge. inversion Hge; subst e. lia.
      - pose proof (idx_ok_lookup_lt _ Hok sd ed s e Hgs Hge ltac:(lia)). lia. }
    unfold new_s, new_e.
    destruct (Z.eqb_spec so' 0) as [Hs0|Hs0]; destruct (Z.eqb_spec eo' 0) as [He0|He0]; simpl.
    - split; [apply idx_ok_nil|]. split; [intros ? []|constructor].
    - destruct (HE He0) as (Hw & Hf & Hp). split; [|split].
      + apply idx_ok_cons. split; [assumption|]. split; [apply idx_ok_nil|intros ? []].
      + intros m [<-|[]]. destruct (Heo_pos Hp) as (? & ? & ?).
        assert (Hle : sd <= ed) by (destruct Hord as [?|(? & ? & ?)]; lia).
        specialize (Hse_le Hle). unfold p_start, p_end in *. simpl. lia.
      + constructor; [assumption|constructor].
    - destruct (HS Hs0) as (Hw & Hf & Hp). split; [|split].
      + apply idx_ok_cons. split; [assumption|]. split; [apply idx_ok_nil|intros ? []].
      + intros m [<-|[]]. destruct (Hso_pos Hp) as (? & ? & ?).
        assert (Hle : sd <= ed) by (destruct Hord as [?|(? & ? & ?)]; lia).
        specialize (Hse_le Hle). unfold p_start, p_end in *. simpl. lia.
      + constructor; [assumption|constructor].
    - destruct (HS Hs0) as (Hw1 & Hf1 & Hp1). destruct (HE He0) as (Hw2 & Hf2 & Hp2).
      specialize (Hab Hs0 He0). split; [|split].
      + apply idx_ok_cons. split; [assumption|]. split.
        * apply idx_ok_cons. split; [assumption|]. split; [apply idx_ok_nil|intros ? []].
        * intros x [<-|[]]. unfold before, p_start, p_end. simpl. assumption.
      + destruct (Hso_pos Hp1) as (? & ? & ?). destruct (Heo_pos Hp2) as (? & ? & ?).
        assert (Hle : sd <= ed) by (destruct Hord as [?|(? & ? & ?)]; lia).
        specialize (Hse_le Hle).
        intros m [<-|[<-|[]]]; unfold p_start, p_end in *; simpl; lia.
      + constructor; [assumption|]. constructor; [assumption|constructor]. }
  destruct Hmid_ok as (Hmid & Hbounds & Hmidf).
  replace (new_s ++ new_e ++ skipn (Z.to_nat (ed + 1)) ps) with ((new_s ++ new_e) ++ skipn (Z.to_nat (ed + 1)) ps)
    by (rewrite app_assoc; reflexivity).
  split.
  - apply idx_ok_splice; auto; try lia.
    + intros x m Hx Hm. destruct (Hbounds m Hm) as (H1 & _ & _).
      destruct (In_firstn_getp ps sd x ltac:(lia) Hx) as (j & Hj & Hg).
      pose proof (idx_ok_lookup_lt _ Hok j sd x s Hg Hgs ltac:(lia)). unfold before. lia.
    + intros m y Hm Hy. destruct (Hbounds m Hm) as (_ & H2 & _).
      destruct (In_skipn_getp ps (ed + 1) y ltac:(lia) Hy) as (j & Hj & Hg).
      pose proof (idx_ok_lookup_lt _ Hok ed j e y Hge Hg ltac:(lia)). unfold before. lia.
  - rewrite Forall_forall in *. intros x Hx. apply in_app_or in Hx. destruct Hx as [Hx|Hx].
    + apply Hpf. eapply In_firstn; eauto.
    + apply in_app_or in Hx. destruct Hx as [Hx|Hx]; [apply Hmidf; assumption|].
      apply Hpf. eapply In_skipn; eauto.
Qed.

(* Delete with the linear resolvers keeps the index well formed and within the files,
   whatever the bounds (inverted, in gaps, inside one domain, across many). *)
Lemma delete_lin_inv fs ps a b :
  idx_ok ps -> Forall (ptr_in_files fs) ps -> Forall file_small fs ->
  ts_in_range a -> ts_in_range b ->
  idx_ok (fst (delete lin_resolver lin_resolver ps a b)) /\
  Forall (ptr_in_files fs) (fst (delete lin_resolver lin_resolver ps a b)).
Proof.
  intros Hok Hpf Hsm Ha Hb. unfold delete.
  destruct (delete_start lin_resolver ps a) as [[[[[sd s] so] a']|]|r] eqn:Es; [|simpl; auto|simpl; auto].
  destruct (delete_start_spec _ _ _ _ _ _ Hok Ha Es) as (Hgs & Ha' & Hso & _ & _).
  destruct (delete_end lin_resolver ps b) as [[[[[ed e] eo] b']|]|r] eqn:Ee; [|simpl; auto|simpl; auto].
  destruct (delete_end_spec _ _ _ _ _ _ Hok Hb Ee) as (Hge & Hb' & Heo & _).
  apply delete_apply_inv; try assumption.
  - intros H. destruct (Hso H) as (? & ? & ? & _). auto.
  - intros H. destruct (Heo H) as (? & ? & ? & _). auto.
Qed.

(* ------------------------------------------------------------------ writers acting during a delete *)
Lemma wstep_inv st x : Inv st -> wlegal st x -> Inv (fst (wstep st x)).
Proof.
  intros HI [Hr Hl]. destruct x as [w s e k|w d|w e k|w]; simpl.
  - destruct Hr. apply open_inv; assumption.
  - apply write_inv; [assumption|]. split; [exact I|exact Hl].
  - apply commit_inv; assumption.
  - apply close_inv; assumption.
Qed.

Lemma wrun_inv : forall ws st, Inv st -> wlegal_run st ws -> Inv (wrun st ws).
Proof.
  induction ws as [|x rest IH]; intros st HI Hl; simpl; [assumption|].
  destruct Hl as [Hl Hrest]. apply IH; [apply wstep_inv; assumption|assumption].
Qed.

Lemma wtrace_inv : forall ws st, Inv st -> wlegal_run st ws -> Forall (fun sr => Inv (fst sr)) (wtrace st ws).
Proof.
  induction ws as [|x rest IH]; intros st HI Hl; simpl; [constructor|].
  destruct Hl as [Hl Hrest]. constructor; [apply wstep_inv; assumption|].
  apply IH; [apply wstep_inv; assumption|assumption].
Qed.

Lemma ptr_eqb_eq p q : ptr_eqb p q = true <-> p = q.
Proof.
  unfold ptr_eqb. rewrite !andb_true_iff, tr_eqb_eq, !N.eqb_eq. destruct p, q; simpl. split.
  - intros [[[-> ->] ->] ->]. reflexivity.
  - intros H. inversion H. auto.
Qed.

Lemma overlaps_with_refl tr : overlaps_with tr tr = true.
Proof. unfold overlaps_with. rewrite (proj2 (tr_eqb_eq tr tr) eq_refl). reflexivity. Qed.

(* in a well-formed index a stored pointer overlapping a stored pointer is that pointer *)
Lemma idx_ok_overlap_same ps i x s :
  idx_ok ps -> getp ps i = Some x -> In s ps -> overlaps_with (p_tr x) (p_tr s) = true -> x = s.
Proof.
  intros Hok Hi Hin Hov. destruct (In_getp _ _ Hin) as [j Hj].
  pose proof (idx_ok_wf _ _ _ Hok Hi) as [Hxr Hxlt]. pose proof (idx_ok_wf _ _ _ Hok Hj) as [Hsr Hslt].
  unfold p_start, p_end in *.
  apply overlaps_with_spec in Hov; try assumption; try lia. unfold overlaps_math in Hov.
  destruct (Z.lt_trichotomy i j) as [H|[H|H]].
  - pose proof (idx_ok_lookup_lt _ Hok i j x s Hi Hj H). unfold p_start, p_end in *. lia.
  - subst j. congruence.
  - pose proof (idx_ok_lookup_lt _ Hok j i s x Hj Hi H). unfold p_start, p_end in *. lia.
Qed.

Lemma usearch_stored ps s : idx_ok ps -> In s ps ->
  exists i, usearch ps (p_tr s) = (i, true) /\ getp ps i = Some s.
Proof.
  intros Hok Hin. destruct (In_getp _ _ Hin) as [j Hj]. pose proof (idx_ok_wf _ _ _ Hok Hj) as [Hr Hlt].
  assert (Hord : tr_start (p_tr s) <= tr_end (p_tr s)) by (unfold p_start, p_end in *; lia).
  pose proof (usearch_spec ps (p_tr s) Hok Hr Hord) as Hs.
  pose proof (usearch_finds ps (p_tr s) s Hok Hr Hord Hin (overlaps_with_refl _)) as Hf.
  destruct (usearch ps (p_tr s)) as [i ex]. simpl in Hf. subst ex. destruct Hs as (x & Hx & Hov).
  exists i. split; [reflexivity|]. rewrite Hx. f_equal. eapply idx_ok_overlap_same; eauto.
Qed.

(* the re-resolution finds the captured pointers again, wherever concurrent commits moved them *)
Lemma repechage_start_finds ps sd s : idx_ok ps -> In s ps -> getp ps (repechage_start ps sd s) = Some s.
Proof.
  intros Hok Hin. unfold repechage_start. destruct (usearch_stored ps s Hok Hin) as (i & Hu & Hg).
  rewrite Hu. destruct (getp ps sd) as [x|] eqn:E; [|assumption].
  destruct (ptr_eqb x s) eqn:Eq; [|assumption]. apply ptr_eqb_eq in Eq. subst. assumption.
Qed.
Lemma repechage_end_finds ps ed e : idx_ok ps -> In e ps -> getp ps (repechage_end ps ed e) = Some e.
Proof.
  intros Hok Hin. unfold repechage_end. destruct (usearch_stored ps e Hok Hin) as (i & Hu & Hg).
  rewrite Hu. simpl. destruct (getp ps ed) as [x|] eqn:E; [|assumption].
  destruct (ptr_eqb x e) eqn:Eq; [|assumption]. apply ptr_eqb_eq in Eq. subst. assumption.
Qed.

Lemma delete_start_getp rs ps a sd s so a' :
  delete_start rs ps a = inl (Some (sd, s, so, a')) -> getp ps sd = Some s.
Proof.
  unfold delete_start. destruct (usearch ps (ts_span_range a 0)) as [sd0 [|]].
  - destruct (getp ps sd0) as [x|] eqn:E; [|discriminate]. destruct (rs (p_start x) a) as [[? ?]|]; [|discriminate].
    intros H. inversion H; subst. assumption.
  - simpl. destruct (sd0 + 1 =? zlen ps); [discriminate|].
    destruct (getp ps (sd0 + 1)) eqn:E; [|discriminate]. intros H. inversion H; subst. assumption.
Qed.
Lemma delete_end_getp re ps b ed e eo b' :
  delete_end re ps b = inl (Some (ed, e, eo, b')) -> getp ps ed = Some e.
Proof.
  unfold delete_end. destruct (usearch ps (ts_span_range b 0)) as [ed0 [|]].
  - destruct (getp ps ed0) as [x|] eqn:E; [|discriminate]. destruct (re (p_start x) b) as [[? ?]|]; [|discriminate].
    intros H. inversion H; subst. assumption.
  - destruct (ed0 =? -1); [discriminate|].
    destruct (getp ps ed0) eqn:E; [|discriminate]. intros H. inversion H; subst. assumption.
Qed.

Lemma with_ptrs_id st : with_ptrs st (d_ptrs st) = st.
Proof. destruct st; reflexivity. Qed.

(* without concurrent commits the re-resolution is the identity and DeleteC is Delete *)
Lemma delete_c_nil st a b : fst (delete_c st a b [] []) = step st (Delete a b).
Proof.
  unfold delete_c. simpl. unfold delete.
  destruct (delete_start lin_resolver (d_ptrs st) a) as [[[[[sd s] so] a']|]|r] eqn:Es;
    try (simpl; rewrite with_ptrs_id; reflexivity).
  assert (Hst1 : (if (usearch (d_ptrs st) (ts_span_range a 0)).2 then st else st) = st)
    by (destruct ((usearch (d_ptrs st) (ts_span_range a 0)).2); reflexivity).
  rewrite !Hst1.
  assert (Hst2 : (if (usearch (d_ptrs st) (ts_span_range b 0)).2 then st else st) = st)
    by (destruct ((usearch (d_ptrs st) (ts_span_range b 0)).2); reflexivity).
  rewrite !Hst2.
  destruct (delete_end lin_resolver (d_ptrs st) b) as [[[[[ed e] eo] b']|]|r] eqn:Ee;
    try (simpl; rewrite with_ptrs_id; reflexivity).
  pose proof (delete_start_getp _ _ _ _ _ _ _ Es) as Hs.
  pose proof (delete_end_getp _ _ _ _ _ _ _ Ee) as He.
  unfold repechage_start, repechage_end. rewrite Hs, He.
  rewrite (proj2 (ptr_eqb_eq s s) eq_refl), (proj2 (ptr_eqb_eq e e) eq_refl).
  destruct (delete_apply _ _ _ _ _ _ _ _ _) as [ps' r]. reflexivity.
Qed.

(* DeleteC keeps the invariant: the nested writer operations do (they are ordinary steps),
   and the delete proper is applied to the captured pointers at their re-resolved
   positions in the index as it is under the write lock. *)
Lemma delete_c_inv st a b sops eops :
  Inv st -> ts_in_range a -> ts_in_range b -> delc_legal st a b sops eops ->
  Inv (fst (fst (delete_c st a b sops eops))) /\
  Forall (fun sr => Inv (fst sr)) (snd (delete_c st a b sops eops)).
Proof.
  intros HI Ha Hb Hl. unfold delete_c, delc_legal in *.
  destruct (delete_start lin_resolver (d_ptrs st) a) as [[[[[sd s] so] a']|]|r] eqn:Es;
    [|simpl; auto|simpl; auto].
  destruct Hl as [Hl1 Hl].
  pose proof HI as (Hidx0 & _).
  destruct (delete_start_spec _ _ _ _ _ _ Hidx0 Ha Es) as (Hgs & Ha' & Hso & _ & _).
  set (called1 := snd (usearch (d_ptrs st) (ts_span_range a 0))) in *.
  set (st1 := if called1 then wrun st sops else st) in *.
  assert (HI1 : Inv st1) by (unfold st1; destruct called1; [apply wrun_inv; auto|assumption]).
  assert (Htr1 : Forall (fun sr => Inv (fst sr)) (if called1 then wtrace st sops else [])).
  { destruct called1; [apply wtrace_inv; auto|constructor]. }
  destruct (delete_end lin_resolver (d_ptrs st1) b) as [[[[[ed e] eo] b']|]|r] eqn:Ee;
    [|simpl; auto|simpl; auto].
  destruct Hl as (Hl2 & Hins & Hine).
  pose proof HI1 as (Hidx1 & _).
  destruct (delete_end_spec _ _ _ _ _ _ Hidx1 Hb Ee) as (Hge & Hb' & Heo & _).
  set (called2 := snd (usearch (d_ptrs st1) (ts_span_range b 0))) in *.
  set (st2 := if called2 then wrun st1 eops else st1) in *.
  assert (HI2 : Inv st2) by (unfold st2; destruct called2; [apply wrun_inv; auto|assumption]).
  assert (Htr2 : Forall (fun sr => Inv (fst sr)) (if called2 then wtrace st1 eops else [])).
  { destruct called2; [apply wtrace_inv; auto|constructor]. }
  pose proof HI2 as (Hidx2 & Hpf2 & Hfo2 & Hfs2 & Hw2).
  pose proof (repechage_start_finds (d_ptrs st2) sd s Hidx2 Hins) as Hs2.
  pose proof (repechage_end_finds (d_ptrs st2) ed e Hidx2 Hine) as He2.
  pose proof (delete_apply_inv (d_files st2) (d_ptrs st2) _ s so a' _ e eo b' Hidx2 Hpf2 Hfs2 Hs2 Ha'
                ltac:(intros H; destruct (Hso H) as (? & ? & ? & _); auto) He2 Hb'
                ltac:(intros H; destruct (Heo H) as (? & ? & ? & _); auto)) as [H1 H2].
  destruct (delete_apply (d_ptrs st2) _ s so a' _ e eo b') as [ps' r]. simpl in *.
  split; [|apply Forall_app; split; assumption].
  split; [assumption|]. split; [assumption|]. split; [assumption|]. split; assumption.
Qed.

(* ------------------------------------------------------------------ restart *)
Lemma files_le_unuse fs : files_le fs (map (fun f => mkFile (f_data f) (f_off f) (f_len f) false) fs).
Proof.
  intros k f Hf. unfold get_file in *. destruct (k =? 0)%N; [discriminate|].
  rewrite nth_error_map, Hf. simpl. eexists. split; [reflexivity|]. exists []. simpl. rewrite app_nil_r. reflexivity.
Qed.

Lemma reopen_inv st : Inv st -> Inv (reopen st).
Proof.
  intros (Hidx & Hpf & Hfo & Hfs & Hw). unfold reopen. split; [assumption|]. simpl.
  split; [eapply Forall_ptr_in_files_le; [apply files_le_unuse|assumption]|].
  split; [rewrite Forall_map; eapply Forall_impl; [|exact Hfo]; intros f H; exact H|].
  split; [rewrite Forall_map; eapply Forall_impl; [|exact Hfs]; intros f H; exact H|].
  intros w wr Hl. rewrite lookup_fmap in Hl. destruct (d_writers st !! w) as [wr0|] eqn:E; [|discriminate].
  simpl in Hl. inversion Hl; subst. apply (Hw w wr0 E).
Qed.

(* ------------------------------------------------------------------ every step, every history *)
Lemma step_inv st o : Inv st -> legal st o -> Inv (fst (step st o)).
Proof.
  intros HI Hl. destruct o as [w s e k|w d|w e k|w|a b|a b sops eops|]; simpl.
  - destruct Hl as [[Hs He] _]. apply open_inv; assumption.
  - apply write_inv; assumption.
  - destruct Hl as [He _]. apply commit_inv; assumption.
  - apply close_inv; assumption.
  - destruct Hl as [[Ha Hb] _]. destruct HI as (Hidx & Hpf & Hfo & Hfs & Hw).
    pose proof (delete_lin_inv (d_files st) (d_ptrs st) a b Hidx Hpf Hfs Ha Hb) as [H1 H2].
    destruct (delete lin_resolver lin_resolver (d_ptrs st) a b) as [ps' r]. simpl in *.
    split; [assumption|]. split; [assumption|]. split; [assumption|]. split; assumption.
  - destruct Hl as [[Ha Hb] Hd]. apply delete_c_inv; assumption.
  - apply reopen_inv; assumption.
Qed.

(* the states in which the operations nested in a DeleteC leave the database *)
Lemma step_nested_inv st o : Inv st -> legal st o -> Forall (fun sr => Inv (fst sr)) (step_nested st o).
Proof.
  intros HI Hl. destruct o; simpl; try constructor.
  destruct Hl as [[Ha Hb] Hd]. apply delete_c_inv; assumption.
Qed.

Theorem run_inv : forall ops st, Inv st -> legal_run st ops -> Inv (run st ops).
Proof.
  induction ops as [|o rest IH]; intros st HI Hl; simpl; [assumption|].
  destruct Hl as [Hl Hrest]. apply IH; [apply step_inv; assumption|assumption].
Qed.

(* every intermediate state of a history *)
Lemma trace_inv : forall ops st, Inv st -> legal_run st ops -> Forall (fun sr => Inv (fst sr)) (trace st ops).
Proof.
  induction ops as [|o rest IH]; intros st HI Hl; simpl; [constructor|].
  destruct Hl as [Hl Hrest]. constructor; [apply step_inv; assumption|].
  apply IH; [apply step_inv; assumption|assumption].
Qed.

(* ------------------------------------------------------------------ clean failure *)
(* An operation that returns an error (or addresses a non-existent writer) changes nothing
   at all: pointers, files, writers. *)
Definition nested_free (o : op) : Prop :=
  match o with DeleteC _ _ sops eops => sops = [] /\ eops = [] | _ => True end.

Lemma step_fail_unchanged st o st' r : nested_free o -> step st o = (st', r) -> r <> ROk -> st' = st.
Proof.
  intros Hnf. assert (Hdel : forall a b, step st (Delete a b) = (st', r) -> r <> ROk -> st' = st).
  { intros a b. simpl.
    destruct (delete lin_resolver lin_resolver (d_ptrs st) a b) as [ps' r'] eqn:Ed.
    intros H Hr. inversion H; subst. clear H.
    assert (ps' = d_ptrs st); [|subst; apply with_ptrs_id].
    unfold delete in Ed.
    destruct (delete_start _ _ _) as [[[[[sd s] so] a']|]|r0]; [|inversion Ed; auto|inversion Ed; auto].
    destruct (delete_end _ _ _) as [[[[[ed e] eo] b']|]|r0]; [|inversion Ed; auto|inversion Ed; auto].
    unfold delete_apply in Ed. destruct (validate_delete _ _ _ _ _) as [[[ok ie] so'] eo'].
    destruct ok; simpl in Ed; inversion Ed; subst; auto. congruence. }
  destruct o as [w s e k|w d|w e k|w|a b|a b sops eops|];
    [| | | |apply Hdel|destruct Hnf as [-> ->]; change (step st (DeleteC a b [] [])) with (fst (delete_c st a b [] []));
                       rewrite delete_c_nil; apply Hdel|simpl; intros H; inversion H; congruence]; simpl.
  - unfold open_writer. destruct (d_writers st !! w); [intros H; inversion H; auto|].
    destruct (negb (cfg_validate s e)); [intros H; inversion H; auto|].
    destruct (idx_overlap _ _); [intros H; inversion H; auto|].
    destruct (acquire _ _ _) as [[? ?] ?]. intros H; inversion H; subst. congruence.
  - unfold write. destruct (d_writers st !! w) as [wr|]; [|intros H; inversion H; auto].
    destruct (w_closed wr); [intros H; inversion H; auto|].
    destruct (get_file _ _); intros H; inversion H; subst; auto. congruence.
  - unfold commit. destruct (d_writers st !! w) as [wr|]; [|intros H; inversion H; auto].
    destruct (w_closed wr); [intros H; inversion H; auto|].
    destruct (w_preset wr && _); [intros H; inversion H; auto|].
    destruct (get_file _ _) as [f|]; [|intros H; inversion H; auto].
    destruct (f_len f =? 0)%N; [intros H; inversion H; auto|].
    destruct (resolve_commit_end _ _ _) as [ce sw].
    destruct (negb (validate_commit_range wr ce sw)); [intros H; inversion H; auto|].
    destruct (if ts_is_zero (w_prev wr) then _ else _) as [ps'|err]; [|intros H; inversion H; auto].
    destruct sw.
    + destruct (acquire _ _ _) as [[? ?] ?]. intros H; inversion H; subst. congruence.
    + intros H; inversion H; subst. congruence.
  - unfold close_writer. destruct (d_writers st !! w) as [wr|]; [|intros H; inversion H; auto].
    destruct (w_closed wr); intros H; inversion H; subst; auto; congruence.
Qed.

Lemma last_cons_default {A} (l : list A) : forall x d, last (x :: l) d = last l x.
Proof. induction l as [|y l IH]; intros x d; [reflexivity|]. change (last (y :: l) d = last (y :: l) x). rewrite !IH. reflexivity. Qed.

Lemma wtrace_last : forall ws st, last (map fst (wtrace st ws)) st = wrun st ws.
Proof.
  induction ws as [|x rest IH]; intros st; [reflexivity|].
  simpl wtrace. simpl map. rewrite last_cons_default. simpl wrun. apply IH.
Qed.

Lemma last_app_default {A} (l1 l2 : list A) d : last (l1 ++ l2) d = last l2 (last l1 d).
Proof.
  revert d. induction l1 as [|x l IH]; intros d; [reflexivity|].
  simpl app. rewrite !last_cons_default. apply IH.
Qed.

(* A DeleteC that returns an error leaves the database as the writer operations nested in
   it left it: the delete proper changed nothing. *)
Lemma delete_c_fail st a b sops eops :
  let '(st', r, tr) := delete_c st a b sops eops in r <> ROk -> st' = last (map fst tr) st.
Proof.
  unfold delete_c.
  destruct (delete_start lin_resolver (d_ptrs st) a) as [[[[[sd s] so] a']|]|r] eqn:Es;
    [|intros; reflexivity|intros; reflexivity].
  set (called1 := snd (usearch (d_ptrs st) (ts_span_range a 0))).
  set (st1 := if called1 then wrun st sops else st).
  set (tr1 := if called1 then wtrace st sops else []).
  assert (H1 : last (map fst tr1) st = st1).
  { unfold tr1, st1. destruct called1; [apply wtrace_last|reflexivity]. }
  destruct (delete_end lin_resolver (d_ptrs st1) b) as [[[[[ed e] eo] b']|]|r] eqn:Ee;
    [|intros; symmetry; assumption|intros; symmetry; assumption].
  set (called2 := snd (usearch (d_ptrs st1) (ts_span_range b 0))).
  set (st2 := if called2 then wrun st1 eops else st1).
  set (tr2 := if called2 then wtrace st1 eops else []).
  assert (H2 : last (map fst (tr1 ++ tr2)) st = st2).
  { unfold tr2, st2. destruct called2; [|rewrite app_nil_r; assumption].
    rewrite map_app, last_app_default, H1. apply wtrace_last. }
  unfold delete_apply. destruct (validate_delete _ _ _ _ _) as [[[ok ie] so'] eo'].
  destruct ok; simpl; intros Hr; [congruence|]. rewrite with_ptrs_id. symmetry. assumption.
Qed.

(* ------------------------------------------------------------------ the iterator sees everything *)
Lemma iter_from_all bounds : forall ps pre,
  (forall p, In p ps -> overlaps_with (p_tr p) bounds = true) ->
  forall fuel, (length ps < fuel)%nat ->
  iter_from fuel (pre ++ ps) bounds (zlen pre) = ps.
Proof.
  induction ps as [|x l IH]; intros pre Hov fuel Hf.
  - destruct fuel; [reflexivity|]. simpl. pose proof (zlen_nonneg pre).
    destruct (Z.eqb_spec (zlen pre) (-1)); [lia|]. rewrite app_nil_r.
    destruct (getp pre (zlen pre)) eqn:E; [apply getp_Some in E; lia|reflexivity].
  - destruct fuel; [simpl in Hf; lia|]. simpl. pose proof (zlen_nonneg pre).
    destruct (Z.eqb_spec (zlen pre) (-1)); [lia|].
    rewrite getp_app_r by lia. replace (zlen pre - zlen pre) with 0 by lia. rewrite getp_cons_0.
    rewrite (Hov x (or_introl eq_refl)). f_equal.
    replace (pre ++ x :: l) with ((pre ++ [x]) ++ l) by (rewrite <- app_assoc; reflexivity).
    replace (zlen pre + 1) with (zlen (pre ++ [x])) by (rewrite zlen_app; unfold zlen; simpl; lia).
    apply IH; [intros p Hp; apply Hov; right; assumption|simpl in Hf; lia].
Qed.

(* On a well-formed index the enumeration through an iterator over TimeRangeMax returns
   every pointer, in order: everything committed is readable. *)
Lemma iter_all_complete ps : idx_ok ps -> iter_all ps tr_max = ps.
Proof.
  intros Hok. unfold iter_all.
  assert (Hge : search_ge ps (tr_start tr_max) = 0).
  { unfold search_ge. simpl tr_start.
    assert (H0 : ts_in_range ts_min) by (unfold ts_in_range, ts_min, ts_max; lia).
    destruct (usearch ps (ts_span_range ts_min 0)) as [i [|]] eqn:Eu.
    - destruct (usearch_point_exact _ _ _ Hok H0 Eu) as (s & Hg & Hr).
      pose proof (idx_ok_wf _ _ _ Hok Hg) as [[[Hs0 _] _] Hlt]. pose proof (getp_Some _ _ _ Hg) as Hi.
      destruct (Z.eq_dec i 0); [assumption|]. exfalso.
      destruct (getp_lookup ps 0) as [f Hf]; [lia|].
      pose proof (idx_ok_lookup_lt _ Hok 0 i f s Hf Hg ltac:(lia)).
      pose proof (idx_ok_wf _ _ _ Hok Hf) as [[[Hf0 _] _] Hflt]. unfold p_start, p_end, ts_min in *. lia.
    - destruct (usearch_point_inexact _ _ _ Hok H0 Eu) as (Hi & HL & _).
      assert (i = -1).
      { destruct (Z.eq_dec i (-1)); [assumption|]. exfalso.
        destruct (getp_lookup ps i) as [f Hf]; [lia|]. pose proof (HL i f Hf ltac:(lia)).
        pose proof (idx_ok_wf _ _ _ Hok Hf) as [[[Hf0 _] _] Hflt]. unfold p_start, p_end, ts_min in *. lia. }
      subst i. pose proof (zlen_nonneg ps). destruct (Z.eqb_spec (-1) (zlen ps)); lia. }
  rewrite Hge. apply (iter_from_all tr_max ps []); [|lia].
  intros p Hp. destruct (In_getp _ _ Hp) as [j Hj]. pose proof (idx_ok_wf _ _ _ Hok Hj) as [[[? ?] [? ?]] Hlt].
  apply overlaps_with_spec.
  - split; split; assumption.
  - unfold tr_max, tr_in_range, ts_in_range, ts_min, ts_max; simpl; lia.
  - unfold p_start, p_end in *. lia.
  - simpl. unfold ts_min, ts_max. lia.
  - unfold overlaps_math, p_start, p_end in *. simpl. unfold ts_min, ts_max in *. right. lia.
Qed.

Lemma readable_all st : Inv st ->
  readable st = map (fun p => (p_tr p, p_size p, content (d_files st) p)) (d_ptrs st).
Proof. intros (Hok & _). unfold readable. rewrite iter_all_complete by assumption. reflexivity. Qed.

(* ------------------------------------------------------------------ conflicting opens *)
(* A writer whose start lies inside existing data is refused, whatever end it presets:
   an inverted preset end is rejected by WriterConfig.Validate, everything else by the
   overlap search.  Nothing changes. *)
Lemma open_inside_fails st w s e k p :
  Inv st -> ts_in_range s -> ts_in_range e -> d_writers st !! w = None ->
  In p (d_ptrs st) -> contains_stamp (p_tr p) s = true ->
  step st (Open w s e k) = (st, RErr (if cfg_validate s e then EConflict else EOther)).
Proof.
  intros (Hok & _) Hs He Hw Hin Hc. simpl. unfold open_writer. rewrite Hw.
  destruct (cfg_validate s e) eqn:Ev; [simpl|reflexivity].
  apply contains_stamp_spec in Hc.
  destruct (In_getp _ _ Hin) as [j Hj]. pose proof (idx_ok_wf _ _ _ Hok Hj) as [Hpr Hplt].
  unfold p_start, p_end in *.
  assert (Hdom : exists d, cfg_domain s e = d /\ tr_in_range d /\ tr_start d = s /\ s <= tr_end d).
  { unfold cfg_domain. destruct (ts_is_zero e) eqn:Ez.
    - rewrite span_range0 by assumption. eexists; split; [reflexivity|]. simpl. repeat split; try apply Hs; lia.
    - eexists; split; [reflexivity|]. simpl. unfold cfg_validate in Ev. rewrite Ez in Ev. simpl in Ev.
      apply negb_true_iff, Z.ltb_ge in Ev. repeat split; try apply Hs; try apply He; lia. }
  destruct Hdom as (d & -> & Hdr & Hds & Hde).
  assert (Hov : idx_overlap (d_ptrs st) d = true).
  { unfold idx_overlap. apply (usearch_finds _ _ p); try assumption; [lia|].
    apply overlaps_with_spec; try assumption; [lia|lia|]. unfold overlaps_math. lia. }
  rewrite Hov. reflexivity.
Qed.

(* ------------------------------------------------------------------ conflicting commits *)
Section commit_facts.
  Variables (st : db) (w : N) (wr : writer) (f : file) (e : Z) (k : N) (ce : Z) (sw : bool).
  Hypothesis Hw : d_writers st !! w = Some wr.
  Hypothesis Hopen : w_closed wr = false.
  Hypothesis Hbound : w_preset wr && (w_end wr <? e) = false.
  Hypothesis Hf : get_file (d_files st) (w_file wr) = Some f.
  Hypothesis Hdata : f_len f <> 0%N.
  Hypothesis Hres : resolve_commit_end (d_cap st) wr e = (ce, sw).

  Lemma commit_unfold :
    commit st w e k =
    if negb (validate_commit_range wr ce sw) then (st, RErr EValidation)
    else
      let ptr := mkPtr (mkTR (w_start wr) ce) (w_file wr) (u32 (f_off f)) (u32 (f_len f)) in
      match (if ts_is_zero (w_prev wr) then insert (d_ptrs st) ptr else update (d_ptrs st) ptr) with
      | inr err => (st, RErr err)
      | inl ps' =>
          if sw then
            let fs1 := release (d_files st) (w_file wr) in
            let '(k', size, fs2) := acquire (d_nominal st) fs1 k in
            (with_writer (with_files (with_ptrs st ps') fs2) w
               (mkW ce (w_end wr) (w_preset wr) 0 k' size false), ROk)
          else
            (with_writer (with_ptrs st ps') w
               (mkW (w_start wr) (w_end wr) (w_preset wr) ce (w_file wr) (w_fsize wr) false), ROk)
      end.
  Proof.
    unfold commit. rewrite Hw, Hopen, Hbound, Hf.
    destruct (N.eqb_spec (f_len f) 0); [contradiction|]. rewrite Hres. reflexivity.
  Qed.

  (* a commit that moves backwards is refused with a validation error (the one exception,
     by design: a preset-end writer switching files commits the given stamp) *)
  Lemma commit_backwards_fails :
    w_prev wr <> 0 -> sw && w_preset wr = false -> ce < w_prev wr ->
    commit st w e k = (st, RErr EValidation).
  Proof.
    intros Hp Hsp Hlt. rewrite commit_unfold. unfold validate_commit_range.
    unfold ts_is_zero, ts_min. destruct (Z.eqb_spec (w_prev wr) 0); [contradiction|]. rewrite Hsp.
    destruct (Z.ltb_spec ce (w_prev wr)); [reflexivity|lia].
  Qed.

  (* a commit that does not end after the writer's start is refused *)
  Lemma commit_not_after_start_fails :
    ce <= w_start wr -> commit st w e k = (st, RErr EValidation).
  Proof.
    intros Hle. rewrite commit_unfold. unfold validate_commit_range.
    destruct (negb (ts_is_zero (w_prev wr)) && negb (sw && w_preset wr) && (ce <? w_prev wr)); [reflexivity|].
    destruct (Z.ltb_spec (w_start wr) ce); [lia|reflexivity].
  Qed.

  (* a commit whose range overlaps another domain is refused with a validation-class error
     and changes nothing.  [q] is any stored pointer other than the writer's own one (the
     pointer with the writer's start, present once the writer has committed). *)
  Lemma commit_overlap_fails q :
    Inv st -> ts_in_range e ->
    (w_prev wr <> 0 -> exists i own, getp (d_ptrs st) i = Some own /\ p_start own = w_start wr) ->
    In q (d_ptrs st) -> (w_prev wr <> 0 -> p_start q <> w_start wr) ->
    overlaps_math (p_tr q) (mkTR (w_start wr) ce) ->
    exists err, commit st w e k = (st, RErr err) /\ is_validation (RErr err) = true.
  Proof.
    intros (Hidx & Hpf & Hfo & Hfs & Hwr) He Hown Hq Hqn Hov. rewrite commit_unfold.
    destruct (validate_commit_range wr ce sw) eqn:Ev; [simpl|exists EValidation; auto].
    destruct (Hwr w wr Hw) as [Hws Hwe].
    assert (Hce : ts_in_range ce).
    { unfold resolve_commit_end in Hres. destruct (d_cap st <=? w_fsize wr)%N; [inversion Hres; subst; assumption|].
      destruct (w_preset wr); inversion Hres; subst; assumption. }
    assert (Hlt : w_start wr < ce).
    { unfold validate_commit_range in Ev.
      destruct (negb (ts_is_zero (w_prev wr)) && negb (sw && w_preset wr) && (ce <? w_prev wr)); [discriminate|].
      destruct (Z.ltb_spec (w_start wr) ce); [assumption|discriminate]. }
    set (ptr := mkPtr (mkTR (w_start wr) ce) (w_file wr) (u32 (f_off f)) (u32 (f_len f))).
    assert (Hpwf : ptr_wf ptr) by (split; [split; assumption|assumption]).
    destruct (get_file_Some _ _ _ Hf) as [Hk _].
    unfold ts_is_zero, ts_min. destruct (Z.eqb_spec (w_prev wr) 0) as [Hz|Hnz].
    - rewrite (insert_conflict (d_ptrs st) ptr q Hidx Hpwf Hk Hq Hov). exists EConflict. auto.
    - destruct (Hown Hnz) as (i & own & Hgi & Hso).
      rewrite (update_conflict (d_ptrs st) ptr i own q Hidx Hpwf Hgi Hso Hq (Hqn Hnz) Hov).
      exists EConflict. auto.
  Qed.
End commit_facts.

(* The pinned upstream validateCommitRange accepted a backwards commit on every file
   switch (finding F18); the repaired one refuses it unless the writer has a preset end. *)
Lemma upstream_backwards_refuted :
  exists wr e, w_prev wr <> 0 /\ e < w_prev wr /\ w_preset wr = false /\
    validate_commit_range_upstream wr e true = true /\ validate_commit_range wr e true = false.
Proof.
  exists (mkW 12 ts_max false 100 1 10 false), 40. repeat split; try discriminate; reflexivity.
Qed.

(* Without WriterConfig.Validate (upstream returned nil, finding F19) the overlap check
   alone lets a writer open at the start of an existing domain when its preset end is
   inverted. *)
Lemma upstream_inverted_end_refuted :
  exists p s e, contains_stamp (p_tr p) s = true /\ cfg_validate_upstream s e = true /\
    idx_overlap [p] (cfg_domain s e) = false /\ cfg_validate s e = false.
Proof.
  exists (mkPtr (mkTR 5 40) 1 0 3), 5, 1. repeat split; vm_compute; reflexivity.
Qed.

(* ------------------------------------------------------------------ committed bytes never change *)
Lemma content_le fs fs' p : files_le fs fs' -> ptr_in_files fs p -> content fs' p = content fs p.
Proof.
  intros Hle (f & Hf & Hb & _). destruct (Hle _ _ Hf) as (f' & Hf' & [sfx Hs]).
  unfold content. rewrite Hf, Hf', Hs. unfold f_size in Hb.
  rewrite skipn_app, firstn_app, skipn_length.
  replace (N.to_nat (p_size p) - (length (f_data f) - N.to_nat (p_off p)))%nat with 0%nat by lia.
  simpl. rewrite app_nil_r. reflexivity.
Qed.

Lemma readable_le st st' :
  Inv st -> d_ptrs st' = d_ptrs st -> files_le (d_files st) (d_files st') -> readable st' = readable st.
Proof.
  intros (Hok & Hpf & _) Hp Hle. unfold readable. rewrite Hp. apply map_ext_in.
  intros p Hp'. rewrite (content_le _ _ p Hle); [reflexivity|].
  rewrite Forall_forall in Hpf. apply Hpf. rewrite <- (iter_all_complete _ Hok). assumption.
Qed.

(* Opening, writing (uncommitted bytes) and closing never change what can be read. *)
Lemma noncommit_preserves_readable st o :
  Inv st -> match o with Open _ _ _ _ | Write _ _ | Close _ => True | _ => False end ->
  d_ptrs (fst (step st o)) = d_ptrs st /\ readable (fst (step st o)) = readable st.
Proof.
  intros HI Ho. pose proof HI as (Hidx & Hpf & Hfo & Hfs & Hw).
  assert (Hgoal : d_ptrs (fst (step st o)) = d_ptrs st /\ files_le (d_files st) (d_files (fst (step st o)))).
  { destruct o as [w s e k|w d|w e k|w|a b|a b sops eops|]; try contradiction; simpl.
    - unfold open_writer. destruct (d_writers st !! w); [split; [reflexivity|apply files_le_refl]|].
      destruct (negb (cfg_validate s e)); [split; [reflexivity|apply files_le_refl]|].
      destruct (idx_overlap _ _); [split; [reflexivity|apply files_le_refl]|].
      destruct (acquire (d_nominal st) (d_files st) k) as [[k' size] fs'] eqn:Ea.
      destruct (acquire_spec _ _ _ _ _ _ Ea Hfo Hfs) as (_ & _ & Hle). simpl. auto.
    - unfold write. destruct (d_writers st !! w) as [wr|]; [|split; [reflexivity|apply files_le_refl]].
      destruct (w_closed wr); [split; [reflexivity|apply files_le_refl]|].
      destruct (get_file (d_files st) (w_file wr)) as [f|] eqn:Ef; [|split; [reflexivity|apply files_le_refl]].
      simpl. split; [reflexivity|]. eapply files_le_set; eauto. exists d. reflexivity.
    - unfold close_writer. destruct (d_writers st !! w) as [wr|]; [|split; [reflexivity|apply files_le_refl]].
      destruct (w_closed wr); [split; [reflexivity|apply files_le_refl]|]. simpl.
      destruct (release_spec (d_files st) (w_file wr) Hfo Hfs) as (_ & _ & Hle). auto. }
  destruct Hgoal as [Hp Hle]. split; [assumption|]. apply readable_le; assumption.
Qed.

(* ------------------------------------------------------------------ decidable legality *)
Definition wop_in_rangeb (x : wop) : bool :=
  match x with
  | WOpen _ s e _ => ts_in_rangeb s && ts_in_rangeb e
  | WCommit _ e _ => ts_in_rangeb e
  | WWrite _ _ | WClose _ => true
  end.
Definition write_fitsb (st : db) (w : N) (d : list N) : bool :=
  match d_writers st !! w with
  | Some wr => match get_file (d_files st) (w_file wr) with
               | Some f => (f_size f + N.of_nat (length d) <? 2 ^ 32)%N
               | None => true
               end
  | None => true
  end.
Definition wlegalb (st : db) (x : wop) : bool :=
  wop_in_rangeb x && match x with WWrite w d => write_fitsb st w d | _ => true end.
Fixpoint wlegal_runb (st : db) (ws : list wop) : bool :=
  match ws with
  | [] => true
  | x :: rest => wlegalb st x && wlegal_runb (fst (wstep st x)) rest
  end.
Definition delc_legalb (st : db) (a b : Z) (sops eops : list wop) : bool :=
  match delete_start lin_resolver (d_ptrs st) a with
  | inl (Some (sd, s, so, a')) =>
      let called1 := snd (usearch (d_ptrs st) (ts_span_range a 0)) in
      let st1 := if called1 then wrun st sops else st in
      (negb called1 || wlegal_runb st sops) &&
      match delete_end lin_resolver (d_ptrs st1) b with
      | inl (Some (ed, e, eo, b')) =>
          let called2 := snd (usearch (d_ptrs st1) (ts_span_range b 0)) in
          let st2 := if called2 then wrun st1 eops else st1 in
          (negb called2 || wlegal_runb st1 eops) &&
          existsb (fun x => ptr_eqb x s) (d_ptrs st2) && existsb (fun x => ptr_eqb x e) (d_ptrs st2)
      | _ => true
      end
  | _ => true
  end.
Definition op_in_rangeb (o : op) : bool :=
  match o with
  | Open _ s e _ => ts_in_rangeb s && ts_in_rangeb e
  | Commit _ e _ => ts_in_rangeb e
  | Delete a b | DeleteC a b _ _ => ts_in_rangeb a && ts_in_rangeb b
  | Write _ _ | Close _ | Reopen => true
  end.
Definition legalb (st : db) (o : op) : bool :=
  op_in_rangeb o &&
  match o with
  | Write w d => write_fitsb st w d
  | DeleteC a b sops eops => delc_legalb st a b sops eops
  | _ => true
  end.
Fixpoint legal_runb (st : db) (ops : list op) : bool :=
  match ops with
  | [] => true
  | o :: rest => legalb st o && legal_runb (fst (step st o)) rest
  end.

Lemma write_fitsb_sound st w d : write_fitsb st w d = true -> write_fits st w d.
Proof.
  unfold write_fitsb, write_fits. intros H wr f Hw Hf. rewrite Hw, Hf in H. apply N.ltb_lt. assumption.
Qed.

Lemma wlegalb_sound st x : wlegalb st x = true -> wlegal st x.
Proof.
  unfold wlegalb, wlegal. rewrite andb_true_iff. intros [Hr Hw]. split.
  - destruct x; simpl in *; try exact I;
      repeat rewrite andb_true_iff in Hr; repeat rewrite ts_in_rangeb_spec in Hr; assumption.
  - destruct x; try exact I. apply write_fitsb_sound. assumption.
Qed.

Lemma wlegal_runb_sound : forall ws st, wlegal_runb st ws = true -> wlegal_run st ws.
Proof.
  induction ws as [|x rest IH]; intros st H; simpl in *; [exact I|].
  apply andb_true_iff in H. destruct H as [H1 H2]. split; [apply wlegalb_sound; assumption|apply IH; assumption].
Qed.

Lemma existsb_ptr_eqb_In ps s : existsb (fun x => ptr_eqb x s) ps = true -> In s ps.
Proof.
  rewrite existsb_exists. intros (x & Hin & He). apply ptr_eqb_eq in He. subst. assumption.
Qed.

Lemma delc_legalb_sound st a b sops eops : delc_legalb st a b sops eops = true -> delc_legal st a b sops eops.
Proof.
  unfold delc_legalb, delc_legal.
  destruct (delete_start lin_resolver (d_ptrs st) a) as [[[[[sd s] so] a']|]|r]; try (intros; exact I).
  rewrite andb_true_iff. intros [H1 H2]. split.
  - intros Hc. rewrite Hc in H1. simpl in H1. apply wlegal_runb_sound. assumption.
  - destruct (delete_end lin_resolver _ b) as [[[[[ed e] eo] b']|]|r]; try exact I.
    rewrite !andb_true_iff in H2. destruct H2 as [[H2 H3] H4]. split; [|split].
    + intros Hc. rewrite Hc in H2. simpl in H2. apply wlegal_runb_sound. assumption.
    + apply existsb_ptr_eqb_In. assumption.
    + apply existsb_ptr_eqb_In. assumption.
Qed.

Lemma legalb_sound st o : legalb st o = true -> legal st o.
Proof.
  unfold legalb, legal. rewrite andb_true_iff. intros [Hr Hw]. split.
  - destruct o; simpl in *; try exact I;
      repeat rewrite andb_true_iff in Hr; repeat rewrite ts_in_rangeb_spec in Hr; assumption.
  - destruct o; try exact I; [apply write_fitsb_sound|apply delc_legalb_sound]; assumption.
Qed.

Lemma legal_runb_sound : forall ops st, legal_runb st ops = true -> legal_run st ops.
Proof.
  induction ops as [|o rest IH]; intros st H; simpl in *; [exact I|].
  apply andb_true_iff in H. destruct H as [H1 H2]. split; [apply legalb_sound; assumption|apply IH; assumption].
Qed.

(* ------------------------------------------------------------------ the writer's own pointer *)
(* A live writer that has committed (prevCommit <> 0) finds a pointer with its start in the
   index.  This holds in every history whose deletes stay at or before the start of every
   open writer — what unary.DB.delete's control gate enforces. *)
Definition own_present (ps : list pointer) (wr : writer) : Prop :=
  w_closed wr = false -> w_prev wr <> 0 -> exists own, In own ps /\ p_start own = w_start wr.
Definition Coh (st : db) : Prop := map_Forall (fun _ wr => own_present (d_ptrs st) wr) (d_writers st).
Definition gated (st : db) (o : op) : Prop :=
  match o with
  | Delete _ b => map_Forall (fun _ wr => w_closed wr = false -> b <= w_start wr) (d_writers st)
  | DeleteC _ b sops eops =>
      (* no writer acts during a gated delete: the gate covers [a, b) and writers hold
         [start, MAX), so only writers starting at or after b could, and the coherence
         proof below does not need them *)
      sops = [] /\ eops = [] /\
      map_Forall (fun _ wr => w_closed wr = false -> b <= w_start wr) (d_writers st)
  | _ => True
  end.
Fixpoint gated_run (st : db) (ops : list op) : Prop :=
  match ops with
  | [] => True
  | o :: rest => gated st o /\ gated_run (fst (step st o)) rest
  end.

Lemma own_present_mono ps ps' wr :
  (forall q, In q ps -> exists q', In q' ps' /\ p_start q' = p_start q) ->
  own_present ps wr -> own_present ps' wr.
Proof.
  intros Hm Ho Hc Hp. destruct (Ho Hc Hp) as (own & Hin & Hs).
  destruct (Hm own Hin) as (q' & Hq' & Hs'). exists q'. split; [assumption|congruence].
Qed.

Lemma insert_mem ps p ps' : idx_ok ps -> ptr_wf p -> insert ps p = inl ps' ->
  In p ps' /\ forall q, In q ps -> In q ps'.
Proof.
  intros Hok Hwf H. destruct (insert_ok _ _ _ Hok Hwf H) as (_ & n & ->). split.
  - apply in_or_app. right. left. reflexivity.
  - intros q Hq. rewrite <- (firstn_skipn n ps) in Hq. apply in_app_or in Hq.
    apply in_or_app. destruct Hq; [left|right; right]; assumption.
Qed.

Lemma update_mem ps p ps' : idx_ok ps -> ptr_wf p -> update ps p = inl ps' ->
  In p ps' /\ forall q, In q ps -> exists q', In q' ps' /\ p_start q' = p_start q.
Proof.
  intros Hok Hwf H. destruct (update_ok _ _ _ Hok Hwf H) as (_ & k & old & Hg & Hs & ->).
  assert (Hp : In p (firstn (Z.to_nat k) ps ++ p :: skipn (S (Z.to_nat k)) ps)).
  { apply in_or_app. right. left. reflexivity. }
  split; [assumption|]. intros q Hq.
  assert (Hdec : ps = firstn (Z.to_nat k) ps ++ old :: skipn (S (Z.to_nat k)) ps).
  { pose proof (getp_Some _ _ _ Hg) as Hk. unfold getp in Hg. destruct (Z.ltb_spec k 0); [lia|].
    rewrite <- (firstn_skipn (Z.to_nat k) ps) at 1. f_equal.
    clear -Hg. revert Hg. generalize (Z.to_nat k). induction ps as [|x l IH]; intros [|n] Hg; simpl in *; try discriminate.
    - inversion Hg. reflexivity.
    - apply IH. assumption. }
  rewrite Hdec in Hq. apply in_app_or in Hq. destruct Hq as [Hq|[<-|Hq]].
  - exists q. split; [apply in_or_app; left; assumption|reflexivity].
  - exists p. split; [assumption|congruence].
  - exists q. split; [apply in_or_app; right; right; assumption|reflexivity].
Qed.

Lemma delete_end_cases ps b ed e eo b' :
  idx_ok ps -> ts_in_range b ->
  delete_end lin_resolver ps b = inl (Some (ed, e, eo, b')) ->
  getp ps ed = Some e /\
  ((p_start e <= b < p_end e /\ eo = Z.of_N (p_size e) - (b - p_start e) /\ b' = b) \/
   (p_end e <= b /\ eo = 0 /\ b' = p_end e)).
Proof.
  intros Hok Hb. unfold delete_end.
  destruct (usearch ps (ts_span_range b 0)) as [ed0 [|]] eqn:Eue.
  - destruct (usearch_point_exact _ _ _ Hok Hb Eue) as (e0 & Hg & Hr). rewrite Hg. simpl.
    intros H. inversion H; subst. split; [assumption|]. left. repeat split; lia.
  - destruct (usearch_point_inexact _ _ _ Hok Hb Eue) as (Hi & HL & HR).
    destruct (Z.eqb_spec ed0 (-1)); [discriminate|].
    destruct (getp_lookup ps ed0) as [e0 Hg]; [lia|]. rewrite Hg.
    intros H. inversion H; subst. split; [assumption|]. right.
    split; [apply (HL ed e Hg); lia|]. split; reflexivity.
Qed.

(* a gated delete keeps (a pointer with the start of) every pointer starting at or after b *)
Lemma delete_keeps_after fs ps a b own :
  idx_ok ps -> Forall (ptr_in_files fs) ps -> Forall file_small fs ->
  ts_in_range a -> ts_in_range b ->
  In own ps -> b <= p_start own ->
  exists own', In own' (fst (delete lin_resolver lin_resolver ps a b)) /\ p_start own' = p_start own.
Proof.
  intros Hok Hpf Hsm Ha Hb Hin Hge. unfold delete.
  assert (Hsame : exists own', In own' ps /\ p_start own' = p_start own) by (exists own; auto).
  destruct (delete_start lin_resolver ps a) as [[[[[sd s] so] a']|]|r] eqn:Es; [|simpl; auto|simpl; auto].
  destruct (delete_start_spec _ _ _ _ _ _ Hok Ha Es) as (Hgs & Ha' & Hso & _ & _).
  destruct (delete_end lin_resolver ps b) as [[[[[ed e] eo] b']|]|r] eqn:Ee; [|simpl; auto|simpl; auto].
  destruct (delete_end_cases _ _ _ _ _ _ Hok Hb Ee) as (Hgee & Hcase).
  unfold delete_apply.
  destruct (validate_delete ps sd ed so eo) as [[[ok ie] so'] eo'] eqn:Ev.
  destruct ok; [|simpl; auto]. simpl.
  destruct (validate_delete_true _ _ _ _ _ _ _ _ _ _ Hgs Hgee Ev) as (Hso' & Heo' & Hord & _).
  pose proof (getp_Some _ _ _ Hgs) as Hsdr. pose proof (getp_Some _ _ _ Hgee) as Hedr.
  assert (Hlen1 : length (firstn (Z.to_nat sd) ps) = Z.to_nat sd).
  { rewrite firstn_length. unfold zlen in *. lia. }
  rewrite (firstn_app_exact _ _ _ Hlen1), (skipn_app_exact _ _ _ Hlen1).
  destruct (In_getp _ _ Hin) as [j Hj]. pose proof (getp_Some _ _ _ Hj) as Hjr.
  pose proof (idx_ok_wf _ _ _ Hok Hj) as [_ Holt]. pose proof (idx_ok_wf _ _ _ Hok Hgee) as [_ Helt].
  destruct (Z_lt_le_dec ed j) as [Hlt|Hle].
  - (* untouched: after the end domain *)
    exists own. split; [|reflexivity]. apply in_or_app. right. apply in_or_app. right. apply in_or_app. right.
    rewrite <- (firstn_skipn (Z.to_nat (ed + 1)) ps) in Hj.
    rewrite getp_app_r in Hj; rewrite zlen_firstn in * by lia; [|lia]. eapply getp_In; eauto.
  - assert (j = ed /\ p_start e = b /\ b' = b /\ eo = Z.of_N (p_size e)) as (-> & Hsb & -> & ->).
    { destruct (Z.eq_dec j ed) as [->|Hne].
      - rewrite Hgee in Hj. inversion Hj; subst own. destruct Hcase as [(? & ? & ?)|(? & ? & ?)]; [|lia].
        repeat split; lia.
      - pose proof (idx_ok_lookup_lt _ Hok j ed own e Hj Hgee ltac:(lia)).
        destruct Hcase as [(? & ? & ?)|(? & ? & ?)]; lia. }
    rewrite Hgee in Hj. inversion Hj; subst own.
    rewrite Forall_forall in Hpf. destruct (Hpf e (getp_In _ _ _ Hgee)) as (fE & _ & _ & Hz).
    unfold clampz in Heo'. assert (Hnz : eo' <> 0) by lia.
    destruct (Z.eqb_spec eo' 0); [contradiction|].
    eexists. split; [apply in_or_app; right; apply in_or_app; right; apply in_or_app; left; left; reflexivity|].
    unfold p_start. simpl. unfold p_start in Hsb. lia.
Qed.

Lemma step_coh st o : Inv st -> legal st o -> gated st o -> Coh st -> Coh (fst (step st o)).
Proof.
  intros HI Hl Hg HC. pose proof HI as (Hidx & Hpf & Hfo & Hfs & Hw).
  assert (Hdel : forall a b, ts_in_range a -> ts_in_range b ->
            map_Forall (fun _ wr => w_closed wr = false -> b <= w_start wr) (d_writers st) ->
            Coh (fst (step st (Delete a b)))).
  { intros a b Ha Hb Hg'. simpl.
    destruct (delete lin_resolver lin_resolver (d_ptrs st) a b) as [ps' r] eqn:Ed. unfold Coh. simpl.
    intros w0 wr0 Hw0 Hc Hp. destruct (HC w0 wr0 Hw0 Hc Hp) as (own & Hin & Hs).
    pose proof (Hg' w0 wr0 Hw0 Hc) as Hb0.
    destruct (delete_keeps_after (d_files st) (d_ptrs st) a b own Hidx Hpf Hfs Ha Hb Hin ltac:(lia)) as (own' & Hin' & Hs').
    rewrite Ed in Hin'. simpl in Hin'. exists own'. split; [assumption|congruence]. }
  destruct o as [w s e k|w d|w e k|w|a b|a b sops eops|]; simpl.
  7: { unfold Coh, reopen. simpl. intros w wr Hlk. rewrite lookup_fmap in Hlk.
       destruct (d_writers st !! w); [|discriminate]. simpl in Hlk. inversion Hlk; subst.
       intros Hc. simpl in Hc. discriminate. }
  - unfold open_writer. destruct (d_writers st !! w); [exact HC|].
    destruct (negb (cfg_validate s e)); [exact HC|]. destruct (idx_overlap _ _); [exact HC|].
    destruct (acquire _ _ _) as [[k' size] fs']. unfold Coh. simpl.
    apply map_Forall_insert_2; [|exact HC]. intros _ Hp. simpl in Hp. congruence.
  - unfold write. destruct (d_writers st !! w) as [wr|] eqn:Ew; [|exact HC].
    destruct (w_closed wr) eqn:Ec; [exact HC|]. destruct (get_file _ _); [|exact HC].
    unfold Coh. simpl. apply map_Forall_insert_2; [|exact HC].
    pose proof (HC w wr Ew) as Ho. intros _ Hp. simpl in *. apply Ho; assumption.
  - destruct Hl as [He _]. unfold commit. destruct (d_writers st !! w) as [wr|] eqn:Ew; [|exact HC].
    destruct (w_closed wr) eqn:Ec; [exact HC|]. destruct (w_preset wr && _); [exact HC|].
    destruct (get_file (d_files st) (w_file wr)) as [f|] eqn:Ef; [|exact HC].
    destruct (N.eqb_spec (f_len f) 0) as [|Hlen]; [exact HC|].
    destruct (resolve_commit_end (d_cap st) wr e) as [ce sw] eqn:Er.
    destruct (validate_commit_range wr ce sw) eqn:Ev; [simpl|exact HC].
    destruct (Hw w wr Ew) as [Hws Hwe].
    assert (Hce : ts_in_range ce).
    { unfold resolve_commit_end in Er. destruct (d_cap st <=? w_fsize wr)%N; [inversion Er; subst; assumption|].
      destruct (w_preset wr); inversion Er; subst; assumption. }
    assert (Hlt : w_start wr < ce).
    { unfold validate_commit_range in Ev.
      destruct (negb (ts_is_zero (w_prev wr)) && negb (sw && w_preset wr) && (ce <? w_prev wr)); [discriminate|].
      destruct (Z.ltb_spec (w_start wr) ce); [assumption|discriminate]. }
    set (ptr := mkPtr (mkTR (w_start wr) ce) (w_file wr) (u32 (f_off f)) (u32 (f_len f))).
    assert (Hpwf : ptr_wf ptr) by (split; [split; assumption|assumption]).
    assert (Hmem : forall ps', (if ts_is_zero (w_prev wr) then insert (d_ptrs st) ptr else update (d_ptrs st) ptr) = inl ps' ->
               In ptr ps' /\ forall q, In q (d_ptrs st) -> exists q', In q' ps' /\ p_start q' = p_start q).
    { intros ps' Hr. destruct (ts_is_zero (w_prev wr)).
      - destruct (insert_mem _ _ _ Hidx Hpwf Hr) as [H1 H2]. split; [assumption|].
        intros q Hq. exists q. auto.
      - apply update_mem; assumption. }
    destruct (if ts_is_zero (w_prev wr) then insert (d_ptrs st) ptr else update (d_ptrs st) ptr) as [ps'|err];
      [|exact HC].
    destruct (Hmem ps' eq_refl) as [Hptr Hkeep].
    assert (Hothers : map_Forall (fun _ wr0 => own_present ps' wr0) (d_writers st)).
    { intros w0 wr0 Hw0. eapply own_present_mono; [exact Hkeep|]. exact (HC w0 wr0 Hw0). }
    destruct sw.
    + destruct (acquire _ _ _) as [[k' size] fs2]. unfold Coh. simpl.
      apply map_Forall_insert_2; [|exact Hothers]. intros _ Hp. simpl in Hp. congruence.
    + unfold Coh. simpl. apply map_Forall_insert_2; [|exact Hothers].
      intros _ _. simpl. exists ptr. split; [assumption|reflexivity].
  - unfold close_writer. destruct (d_writers st !! w) as [wr|] eqn:Ew; [|exact HC].
    destruct (w_closed wr); [exact HC|]. unfold Coh. simpl.
    apply map_Forall_insert_2; [|exact HC]. intros Hc. simpl in Hc. discriminate.
  - destruct Hl as [[Ha Hb] _]. apply (Hdel a b Ha Hb Hg).
  - destruct Hl as [[Ha Hb] _]. destruct Hg as (-> & -> & Hg). rewrite delete_c_nil. apply (Hdel a b Ha Hb Hg).
Qed.

Theorem run_coh : forall ops st,
  Inv st -> Coh st -> legal_run st ops -> gated_run st ops -> Coh (run st ops).
Proof.
  induction ops as [|o rest IH]; intros st HI HC Hl Hg; simpl; [assumption|].
  destruct Hl as [Hl Hrest]. destruct Hg as [Hg Hgrest].
  apply IH; [apply step_inv|apply step_coh| |]; assumption.
Qed.

Lemma Coh_init nominal cap : Coh (init nominal cap).
Proof. unfold Coh, init. simpl. apply map_Forall_empty. Qed.

(* the form the commit lemma consumes *)
Lemma coh_own st w wr : Coh st -> d_writers st !! w = Some wr -> w_closed wr = false ->
  w_prev wr <> 0 -> exists i own, getp (d_ptrs st) i = Some own /\ p_start own = w_start wr.
Proof.
  intros HC Hw Hc Hp. destruct (HC w wr Hw Hc Hp) as (own & Hin & Hs).
  destruct (In_getp _ _ Hin) as [i Hi]. eauto.
Qed.

(* with the own pointer present, update never reaches its "inconceivable" branches *)
Lemma update_clean ps p k own :
  idx_ok ps -> ptr_wf p -> getp ps k = Some own -> p_start own = p_start p ->
  (exists ps', update ps p = inl ps') \/ update ps p = inr EConflict.
Proof.
  intros Hok Hwf Hk He. unfold update.
  destruct ps as [|x l] eqn:E; [apply getp_Some in Hk; unfold zlen in Hk; simpl in Hk; lia|].
  rewrite <- E in *. rewrite (update_position ps p k own Hok Hwf Hk He), Hk.
  destruct (Z.eqb_spec (p_start own) (p_start p)); [simpl|contradiction].
  destruct (negb (k =? 0) && _); [auto|]. destruct (negb (k =? zlen ps - 1) && _); [auto|]. left. eauto.
Qed.

(* In a state where the invariant and the own-pointer coherence hold, a commit never
   panics and never reports "range not found": it succeeds or fails with one of the
   declared error classes. *)
Lemma commit_clean st w e k : Inv st -> Coh st -> ts_in_range e ->
  snd (commit st w e k) <> RErr EPanic /\ snd (commit st w e k) <> RErr ENotFound.
Proof.
  intros HI HC He. pose proof HI as (Hidx & Hpf & Hfo & Hfs & Hw). unfold commit.
  destruct (d_writers st !! w) as [wr|] eqn:Ew; [|split; discriminate].
  destruct (w_closed wr) eqn:Ec; [split; discriminate|]. destruct (w_preset wr && _); [split; discriminate|].
  destruct (get_file (d_files st) (w_file wr)) as [f|] eqn:Ef; [|split; discriminate].
  destruct (N.eqb_spec (f_len f) 0) as [|Hlen]; [split; discriminate|].
  destruct (resolve_commit_end (d_cap st) wr e) as [ce sw] eqn:Er.
  destruct (validate_commit_range wr ce sw) eqn:Ev; [simpl|split; discriminate].
  destruct (Hw w wr Ew) as [Hws Hwe].
  assert (Hce : ts_in_range ce).
  { unfold resolve_commit_end in Er. destruct (d_cap st <=? w_fsize wr)%N; [inversion Er; subst; assumption|].
    destruct (w_preset wr); inversion Er; subst; assumption. }
  assert (Hlt : w_start wr < ce).
  { unfold validate_commit_range in Ev.
    destruct (negb (ts_is_zero (w_prev wr)) && negb (sw && w_preset wr) && (ce <? w_prev wr)); [discriminate|].
    destruct (Z.ltb_spec (w_start wr) ce); [assumption|discriminate]. }
  set (ptr := mkPtr (mkTR (w_start wr) ce) (w_file wr) (u32 (f_off f)) (u32 (f_len f))).
  assert (Hpwf : ptr_wf ptr) by (split; [split; assumption|assumption]).
  assert (Hr : (exists ps', (if ts_is_zero (w_prev wr) then insert (d_ptrs st) ptr else update (d_ptrs st) ptr) = inl ps') \/
               (if ts_is_zero (w_prev wr) then insert (d_ptrs st) ptr else update (d_ptrs st) ptr) = inr EConflict \/
               (if ts_is_zero (w_prev wr) then insert (d_ptrs st) ptr else update (d_ptrs st) ptr) = inr EOther).
  { unfold ts_is_zero, ts_min. destruct (Z.eqb_spec (w_prev wr) 0) as [Hz|Hnz].
    - unfold insert. destruct (p_file ptr =? 0)%N; [auto|].
      destruct (d_ptrs st) as [|x l] eqn:E; [left; eauto|]. rewrite <- E.
      destruct (after_last _ _); [left; eauto|]. destruct (negb (before_first _ _)); [|left; eauto].
      destruct (usearch _ _) as [i [|]]; [auto|left; eauto].
    - destruct (coh_own st w wr HC Ew Ec Hnz) as (i & own & Hg & Hs).
      destruct (update_clean (d_ptrs st) ptr i own Hidx Hpwf Hg Hs) as [H|H]; auto. }
  destruct Hr as [[ps' ->]|[->| ->]]; [|split; discriminate|split; discriminate].
  destruct sw; [destruct (acquire _ _ _) as [[? ?] ?]|]; split; discriminate.
Qed.

(* ------------------------------------------------------------------ which commits keep a captured domain *)
(* A writer operation leaves a stored pointer q as it is unless it is the commit of a
   writer that has already committed the domain starting where q starts (an update of q). *)
Definition no_update_of (st : db) (x : wop) (q : pointer) : Prop :=
  match x with
  | WCommit w _ _ => match d_writers st !! w with
                     | Some wr => w_prev wr = 0 \/ w_start wr <> p_start q
                     | None => True
                     end
  | _ => True
  end.
Fixpoint no_update_run (st : db) (ws : list wop) (q : pointer) : Prop :=
  match ws with
  | [] => True
  | x :: rest => no_update_of st x q /\ no_update_run (fst (wstep st x)) rest q
  end.

Lemma update_keeps ps p ps' q : idx_ok ps -> ptr_wf p -> update ps p = inl ps' ->
  In q ps -> p_start q <> p_start p -> In q ps'.
Proof.
  intros Hok Hwf H Hq Hne. destruct (update_ok _ _ _ Hok Hwf H) as (_ & k & old & Hg & Hs & ->).
  assert (Hdec : ps = firstn (Z.to_nat k) ps ++ old :: skipn (S (Z.to_nat k)) ps).
  { pose proof (getp_Some _ _ _ Hg) as Hk. unfold getp in Hg. destruct (Z.ltb_spec k 0); [lia|].
    rewrite <- (firstn_skipn (Z.to_nat k) ps) at 1. f_equal.
    clear -Hg. revert Hg. generalize (Z.to_nat k). induction ps as [|x l IH]; intros [|n] Hg; simpl in *; try discriminate.
    - inversion Hg. reflexivity.
    - apply IH. assumption. }
  rewrite Hdec in Hq. apply in_app_or in Hq. destruct Hq as [Hq|[<-|Hq]].
  - apply in_or_app. left. assumption.
  - congruence.
  - apply in_or_app. right. right. assumption.
Qed.

Lemma wstep_keeps st x q :
  Inv st -> wlegal st x -> no_update_of st x q -> In q (d_ptrs st) -> In q (d_ptrs (fst (wstep st x))).
Proof.
  intros HI [Hr _] Hn Hq. pose proof HI as (Hidx & Hpf & Hfo & Hfs & Hw).
  destruct x as [w s e k|w d|w e k|w]; simpl.
  - unfold open_writer. destruct (d_writers st !! w); [assumption|].
    destruct (negb (cfg_validate s e)); [assumption|]. destruct (idx_overlap _ _); [assumption|].
    destruct (acquire _ _ _) as [[? ?] ?]. assumption.
  - unfold write. destruct (d_writers st !! w) as [wr|]; [|assumption].
    destruct (w_closed wr); [assumption|]. destruct (get_file _ _); assumption.
  - simpl in Hn, Hr. unfold commit. destruct (d_writers st !! w) as [wr|] eqn:Ew; [|assumption].
    destruct (w_closed wr); [assumption|]. destruct (w_preset wr && _); [assumption|].
    destruct (get_file (d_files st) (w_file wr)) as [f|] eqn:Ef; [|assumption].
    destruct (N.eqb_spec (f_len f) 0) as [|Hlen]; [assumption|].
    destruct (resolve_commit_end (d_cap st) wr e) as [ce sw] eqn:Er.
    destruct (validate_commit_range wr ce sw) eqn:Ev; [simpl|assumption].
    destruct (Hw w wr Ew) as [Hws Hwe].
    assert (Hce : ts_in_range ce).
    { unfold resolve_commit_end in Er. destruct (d_cap st <=? w_fsize wr)%N; [inversion Er; subst; assumption|].
      destruct (w_preset wr); inversion Er; subst; assumption. }
    assert (Hlt : w_start wr < ce).
    { unfold validate_commit_range in Ev.
      destruct (negb (ts_is_zero (w_prev wr)) && negb (sw && w_preset wr) && (ce <? w_prev wr)); [discriminate|].
      destruct (Z.ltb_spec (w_start wr) ce); [assumption|discriminate]. }
    set (ptr := mkPtr (mkTR (w_start wr) ce) (w_file wr) (u32 (f_off f)) (u32 (f_len f))).
    assert (Hpwf : ptr_wf ptr) by (split; [split; assumption|assumption]).
    assert (Hk : forall ps', (if ts_is_zero (w_prev wr) then insert (d_ptrs st) ptr else update (d_ptrs st) ptr) = inl ps' ->
                 In q ps').
    { intros ps' Hres. unfold ts_is_zero, ts_min in Hres. destruct (Z.eqb_spec (w_prev wr) 0) as [Hz|Hnz].
      - destruct (insert_mem _ _ _ Hidx Hpwf Hres) as [_ H2]. auto.
      - apply (update_keeps _ _ _ q Hidx Hpwf Hres Hq). destruct Hn as [Hn|Hn]; [contradiction|].
        unfold ptr, p_start at 2. simpl. congruence. }
    destruct (if ts_is_zero (w_prev wr) then insert (d_ptrs st) ptr else update (d_ptrs st) ptr) as [ps'|err];
      [|assumption].
    specialize (Hk ps' eq_refl).
    destruct sw; [destruct (acquire _ _ _) as [[? ?] ?]|]; assumption.
  - unfold close_writer. destruct (d_writers st !! w) as [wr|]; [|assumption].
    destruct (w_closed wr); assumption.
Qed.

Lemma wrun_keeps : forall ws st q,
  Inv st -> wlegal_run st ws -> no_update_run st ws q -> In q (d_ptrs st) -> In q (d_ptrs (wrun st ws)).
Proof.
  induction ws as [|x rest IH]; intros st q HI Hl Hn Hq; simpl; [assumption|].
  destruct Hl as [Hl Hrest]. destruct Hn as [Hn Hnrest].
  apply IH; [apply wstep_inv; assumption|assumption|assumption|apply wstep_keeps; assumption].
Qed.

(* The stability clause of [delc_legal] follows when no nested commit updates the two
   captured domains (e.g. the nested writers are fresh: their commits insert new domains
   and extend only those). *)
Lemma delc_legal_intro st a b sops eops :
  Inv st -> ts_in_range a -> ts_in_range b ->
  (forall sd s so a', delete_start lin_resolver (d_ptrs st) a = inl (Some (sd, s, so, a')) ->
     let called1 := snd (usearch (d_ptrs st) (ts_span_range a 0)) in
     let st1 := if called1 then wrun st sops else st in
     (called1 = true -> wlegal_run st sops /\ no_update_run st sops s) /\
     forall ed e eo b', delete_end lin_resolver (d_ptrs st1) b = inl (Some (ed, e, eo, b')) ->
       let called2 := snd (usearch (d_ptrs st1) (ts_span_range b 0)) in
       (called2 = true -> wlegal_run st1 eops /\ no_update_run st1 eops s /\ no_update_run st1 eops e)) ->
  delc_legal st a b sops eops.
Proof.
  intros HI Ha Hb H. unfold delc_legal.
  destruct (delete_start lin_resolver (d_ptrs st) a) as [[[[[sd s] so] a']|]|r] eqn:Es; try exact I.
  destruct (H sd s so a' eq_refl) as [H1 H2]. clear H.
  pose proof (getp_In _ _ _ (delete_start_getp _ _ _ _ _ _ _ Es)) as Hs0.
  set (called1 := snd (usearch (d_ptrs st) (ts_span_range a 0))) in *.
  set (st1 := if called1 then wrun st sops else st) in *.
  assert (HI1 : Inv st1 /\ In s (d_ptrs st1)).
  { unfold st1. destruct called1; [|split; assumption]. destruct (H1 eq_refl) as [Hl Hn].
    split; [apply wrun_inv; assumption|apply wrun_keeps; assumption]. }
  destruct HI1 as [HI1 Hs1].
  split; [intros Hc; apply (H1 Hc)|].
  destruct (delete_end lin_resolver (d_ptrs st1) b) as [[[[[ed e] eo] b']|]|r] eqn:Ee; try exact I.
  specialize (H2 ed e eo b' eq_refl).
  pose proof (getp_In _ _ _ (delete_end_getp _ _ _ _ _ _ _ Ee)) as He1.
  set (called2 := snd (usearch (d_ptrs st1) (ts_span_range b 0))) in *.
  destruct called2.
  - destruct (H2 eq_refl) as (Hl & Hns & Hne). split; [intros _; assumption|].
    split; apply wrun_keeps; assumption.
  - split; [discriminate|]. split; assumption.
Qed.

(* ------------------------------------------------------------------ restart keeps everything committed *)
Lemma reopen_spec st : Inv st ->
  Inv (reopen st) /\ d_ptrs (reopen st) = d_ptrs st /\ readable (reopen st) = readable st /\
  map_Forall (fun _ wr => w_closed wr = true) (d_writers (reopen st)).
Proof.
  intros HI. split; [apply reopen_inv; assumption|]. split; [reflexivity|]. split.
  - apply readable_le; [assumption|reflexivity|apply files_le_unuse].
  - intros w wr Hl. unfold reopen in Hl. simpl in Hl. rewrite lookup_fmap in Hl.
    destruct (d_writers st !! w); [|discriminate]. simpl in Hl. inversion Hl. reflexivity.
Qed.
