(* Cesium/RelayMonitor.v — link between the checker and the monitor: every observation the
   model accepts passes the monitor's duplicate / reorder clauses (kinds 2 and 3). *)
From stdpp Require Import base list numbers.
From Coq Require Import NArith Bool List Lia Sorting.Sorted.
Import ListNotations.
From Synnax Require Import Common.Base Cesium.Relay Cesium.RelayProofs Cesium.RelayInv Cesium.RelayThms
     Monitors.Mon_C20.
Local Open Scope N_scope.

Lemma order_kinds_nil (inbox : list item) :
  List.NoDup (map itag inbox) ->
  (forall w, StronglySorted N.lt (map i_seq (filter (fun i => i_w i =? w) inbox))) ->
  order_kinds (map proj_item inbox) = [].
Proof.
  induction inbox as [|i r IH]; simpl; intros Hn Hs; [reflexivity|].
  inversion Hn; subst.
  assert (Hr : order_kinds (map proj_item r) = []).
  { apply IH; [exact H2|]. intros w. specialize (Hs w). simpl in Hs.
    destruct (i_w i =? w); [inversion Hs; assumption|exact Hs]. }
  rewrite Hr.
  assert (E2 : existsb (fun x : N * N * list N => (x.1.1 =? i_w i) && (x.1.2 =? i_seq i)) (map proj_item r) = false).
  { apply not_true_is_false. intros He. apply existsb_exists in He. destruct He as (x & Hx & Hc).
    apply in_map_iff in Hx. destruct Hx as (j & <- & Hj). simpl in Hc.
    apply andb_true_iff in Hc. destruct Hc as [A B]. apply N.eqb_eq in A. apply N.eqb_eq in B.
    apply H1. apply in_map_iff. exists j. split; [|exact Hj]. unfold itag. congruence. }
  assert (E3 : existsb (fun x : N * N * list N => (x.1.1 =? i_w i) && (x.1.2 <? i_seq i)) (map proj_item r) = false).
  { apply not_true_is_false. intros He. apply existsb_exists in He. destruct He as (x & Hx & Hc).
    apply in_map_iff in Hx. destruct Hx as (j & <- & Hj). simpl in Hc.
    apply andb_true_iff in Hc. destruct Hc as [A B]. apply N.ltb_lt in B.
    specialize (Hs (i_w i)). simpl in Hs. rewrite N.eqb_refl in Hs. simpl in Hs.
    inversion Hs; subst. rewrite Forall_forall in H4.
    assert (In (i_seq j) (map i_seq (filter (fun i0 => i_w i0 =? i_w i) r))).
    { apply in_map_iff. exists j. split; [reflexivity|]. apply filter_In. auto. }
    specialize (H4 _ H). lia. }
  rewrite E2, E3. reflexivity.
Qed.

Theorem accepted_ordered chans cap script obs :
  accepts chans cap script obs = true ->
  forall s its, In (s, its) obs -> order_kinds its = [].
Proof.
  intros Ha s its Hin. destruct (accepts_sound _ _ _ _ Ha) as (ls & st & Hr & _ & Ho & _).
  subst obs. unfold observe in Hin. apply in_map_iff in Hin. destruct Hin as ([s' x] & [= <- <-] & Hx).
  destruct (inbox_order _ _ _ _ _ _ _ _ Hr Hx) as (_ & _ & _ & Hn & Hs).
  apply order_kinds_nil; assumption.
Qed.
