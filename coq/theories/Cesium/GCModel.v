(* Cesium/GCModel.v — executable model for property C04, second part: garbage collection,
   the write path as far as deletes and GC depend on it, reopen, and the operation
   alphabet of the correspondence check.  Model only: no proofs here.

   Copied from /repo:
     cesium/internal/domain/delete.go   GarbageCollect (gcWriters, the 1..counter loop,
                                        hasWriter skip), garbageCollectFile (tombstone
                                        test against GCThreshold*FileSize, copy of the live
                                        pointers in index order, offsetDeltaMap keyed by time
                                        range, resolvePointerOffset by ContainsRange, file
                                        swap), cesium/delete.go garbageCollect (every channel)
     cesium/internal/domain/file_controller.go  which files have a pooled writer handle
                                        (writers.open): a handle is created by a write and
                                        closed by gcWriters when its file reached FileSize,
                                        or by closing the database
     cesium/internal/domain/db.go       Config.Override: FileSize := round(0.8 * cap)

   The write path is reduced to what a cesium.Writer does when it is opened, written once,
   committed once and closed, with no file rollover at the commit (the generator keeps
   frames smaller than realFileSizeCap - FileSize): the frame's bytes are appended to the
   acquired file, the commit end is the index high-water mark + 1 (writer owning the index
   channel) or Stamp(start, n-1) + 1, and one pointer is inserted per channel.  WHICH file
   acquireWriter hands out depends on Go map iteration order when several closed files are
   below the size limit; the file key is therefore an input of the operation, taken from
   the pointer the implementation persisted (every other field of that pointer is computed
   by the model and compared).  Write conflicts (overlapping ranges) are not modelled. *)
From Coq Require Import ZArith List Bool.
From Synnax Require Import Cesium.Store Cesium.IndexSearch Cesium.Distance Cesium.Stamp
  Cesium.DeleteModel.
Import ListNotations.
Local Open Scope Z_scope.

(* ------------------------------------------------------------------ configuration *)
Record gcfg := GCfg {
  g_fsz : Z;    (* domain.Config.FileSize *)
  g_thr : Z     (* int64(GCThreshold * float32(FileSize)) *)
}.

(* math.Round(0.8 * float64(cap)); 0.8*cap is never a tie *)
Definition fsz_of_cap (cap : Z) : Z := (8 * cap + 5) / 10.
(* the threshold in bytes, int64(GCThreshold * float32(FileSize)), is float32 arithmetic;
   it is an input of the model, computed by the runner's float32 emulation and cross-checked
   on every case against the value Go computes (reported by the harness) *)
Definition mk_gcfg (cap thr : Z) : gcfg := GCfg (fsz_of_cap cap) thr.

(* ------------------------------------------------------------------ garbage collection *)
Definition file_size (c : chan) (k : Z) : Z := bytes_of (file_of c k).

Fixpoint sum_sizes (ps : list ptr) : Z :=
  match ps with [] => 0 | p :: r => p_size p + sum_sizes r end.

(* offsetDeltaMap[tr] = delta *)
Fixpoint dm_set (t : tr) (d : Z) (m : list (tr * Z)) : list (tr * Z) :=
  match m with
  | [] => [(t, d)]
  | (t', d') :: r => if tr_eqb t t' then (t, d) :: r else (t', d') :: dm_set t d r
  end.

(* resolvePointerOffset: the first entry (in the model's list order; Go: map iteration
   order) whose time range contains the pointer's *)
Fixpoint resolve_delta (t : tr) (m : list (tr * Z)) : option Z :=
  match m with
  | [] => None
  | (k, d) :: r => if contains_range k t then Some d else resolve_delta t r
  end.

(* the copy loop: new file contents, delta map, next offset *)
Fixpoint gc_copy (c : chan) (ps : list ptr) (nf : list sample) (dm : list (tr * Z)) (noff : Z)
  : list sample * list (tr * Z) :=
  match ps with
  | [] => (nf, dm)
  | p :: r =>
      let dm' := if noff =? p_off p then dm else dm_set (p_tr p) (p_off p - noff) dm in
      gc_copy c r (nf ++ ptr_samples c p) dm' (noff + p_size p)
  end.

Definition remap_ptr (k : Z) (dm : list (tr * Z)) (p : ptr) : ptr :=
  if p_file p =? k then
    match resolve_delta (p_tr p) dm with
    | Some d => Ptr (p_tr p) (p_file p) (p_off p - d) (p_size p)
    | None => p
    end
  else p.

Definition on_file (k : Z) (p : ptr) : bool := p_file p =? k.

(* garbageCollectFile *)
Definition gc_file (g : gcfg) (c : chan) (k : Z) : chan :=
  let ps := filter (on_file k) (c_ptrs c) in
  let tomb := file_size c k - sum_sizes ps in
  if tomb <? g_thr g then c else
  let '(nf, dm) := gc_copy c ps [] [] 0 in
  Chan (c_isidx c) (c_index c) (c_var c) (c_dens c)
       (map (remap_ptr k dm) (c_ptrs c)) (aset k nf (c_files c)) (c_open c) (c_counter c).

Fixpoint gc_files (g : gcfg) (c : chan) (ks : list Z) : chan :=
  match ks with
  | [] => c
  | k :: r => gc_files g (if existsb (Z.eqb k) (c_open c) then c else gc_file g c k) r
  end.

Definition file_keys (c : chan) : list Z :=
  map (fun i => Z.of_nat i + 1) (seq 0 (Z.to_nat (c_counter c))).

(* domain.DB.GarbageCollect *)
Definition gc_chan (g : gcfg) (c : chan) : chan :=
  (* gcWriters: close the pooled handles of files that reached FileSize *)
  let open' := filter (fun k => file_size c k <? g_fsz g) (c_open c) in
  let c := Chan (c_isidx c) (c_index c) (c_var c) (c_dens c) (c_ptrs c) (c_files c) open'
                (c_counter c) in
  gc_files g c (file_keys c).

Definition gc_db (g : gcfg) (d : db) : db := map (fun kc => (fst kc, gc_chan g (snd kc))) d.

(* ------------------------------------------------------------------ reopen *)
(* Close + Open: pointers are reloaded from index.domain (identical to the in-memory
   list: every operation of this alphabet persists before it returns), every pooled
   handle is gone *)
Definition reopen_chan (c : chan) : chan :=
  Chan (c_isidx c) (c_index c) (c_var c) (c_dens c) (c_ptrs c) (c_files c) [] (c_counter c).
Definition reopen_db (d : db) : db := map (fun kc => (fst kc, reopen_chan (snd kc))) d.

(* ------------------------------------------------------------------ writes *)
Fixpoint insert_sorted (p : ptr) (ps : list ptr) : list ptr :=
  match ps with
  | [] => [p]
  | q :: r => if t_s (p_tr p) <? t_s (p_tr q) then p :: ps else q :: insert_sorted p r
  end.

(* Writer.Write: append the frame's bytes to file [fk]; returns the offset they start at *)
Definition append_chan (c : chan) (fk : Z) (smps : list sample) : chan * Z :=
  let off := file_size c fk in
  (Chan (c_isidx c) (c_index c) (c_var c) (c_dens c) (c_ptrs c)
        (aset fk (file_of c fk ++ smps) (c_files c))
        (if existsb (Z.eqb fk) (c_open c) then c_open c else fk :: c_open c)
        (Z.max (c_counter c) fk), off).

(* index.insert: a pointer overlapping an existing one is refused (write conflict) *)
Definition insert_conflict (c : chan) (t : tr) : bool :=
  existsb (fun q => overlaps (p_tr q) t) (c_ptrs c).

Definition commit_chan (c : chan) (start end_ fk off : Z) (smps : list sample) : chan * bool :=
  if insert_conflict c (TR start end_) then (c, true)
  else (set_ptrs c (insert_sorted (Ptr (TR start end_) fk off (bytes_of smps)) (c_ptrs c)), false).

(* one channel's part of a frame: channel key, acquired file key, samples *)
Definition wpart := (Z * Z * list sample)%type.

Fixpoint append_all (d : db) (ws : list wpart) : db * list Z :=
  match ws with
  | [] => (d, [])
  | (k, fk, smps) :: r =>
      match alookup k d with
      | None => let '(d', offs) := append_all d r in (d', 0 :: offs)
      | Some c =>
          let '(c', off) := append_chan c fk smps in
          let '(d', offs) := append_all (aset k c' d) r in (d', off :: offs)
      end
  end.

(* every channel commits on its own; a conflict on one does not stop the others *)
Fixpoint commit_all (d : db) (start end_ : Z) (ws : list wpart) (offs : list Z) : db * bool :=
  match ws, offs with
  | (k, fk, smps) :: r, off :: ro =>
      match alookup k d with
      | None => commit_all d start end_ r ro
      | Some c =>
          let '(c', bad) := commit_chan c start end_ fk off smps in
          let '(d', bad') := commit_all (aset k c' d) start end_ r ro in
          (d', bad || bad')
      end
  | _, _ => (d, false)
  end.

(* domain.DB.OpenWriter: the writer's start lies inside an existing domain *)
Definition open_conflict (d : db) (start : Z) (ws : list wpart) : bool :=
  existsb (fun w => match alookup (fst (fst w)) d with
                    | Some c => snd (usearch (doms c) (point start))
                    | None => true
                    end) ws.

(* idxWriter.resolveCommitEnd + 1 *)
Definition commit_end (d : db) (start : Z) (ws : list wpart) : res Z :=
  match find (fun w => match alookup (fst (fst w)) d with
                       | Some c => c_isidx c | None => false end) ws with
  | Some (_, _, stamps) =>
      (* writingToIdx: the index high-water mark *)
      match last (map Some stamps) None with
      | Some s => Ok (s_val s + 1)
      | None => Err EValidation
      end
  | None =>
      match ws with
      | [] => Err EValidation
      | (k, _, smps) :: _ =>
          match alookup k d with
          | None => Err ENotFound
          | Some c =>
              do a <- stamp (index_doms d c) start (zlen smps - 1) true;
              if s_exact a then Ok (s_lo a + 1) else Err EDisc
          end
      end
  end.

Definition write_db (d : db) (start : Z) (ws : list wpart) : db * option err :=
  if open_conflict d start ws then (d, Some EValidation) else
  let '(d1, offs) := append_all d ws in
  match commit_end d1 start ws with
  | Err e => (d1, Some e)
  | Ok e => let '(d2, bad) := commit_all d1 start e ws offs in
            (d2, if bad then Some EValidation else None)
  end.

(* ------------------------------------------------------------------ operations *)
Inductive op :=
| OWrite (start : Z) (ws : list wpart)
| ODelete (chs : list Z) (a b : Z)
| OGC
| OReopen.

Definition step (fx : bool) (g : gcfg) (d : db) (o : op) : db * option err :=
  match o with
  | OWrite start ws => write_db d start ws
  | ODelete chs a b => delete_time_range fx d chs (TR a b)
  | OGC => (gc_db g d, None)
  | OReopen => (reopen_db d, None)
  end.

Fixpoint run (fx : bool) (g : gcfg) (d : db) (ops : list op) : db :=
  match ops with
  | [] => d
  | o :: r => run fx g (fst (step fx g d o)) r
  end.

(* channel declaration: key, index key, is-index, variable, density *)
Definition chdecl := (Z * Z * bool * bool * Z)%type.
Definition init_db (cs : list chdecl) : db :=
  map (fun x => let '(k, ix, isidx, var, dens) := x in
                (k, Chan isidx ix var dens [] [] [] 0)) cs.
