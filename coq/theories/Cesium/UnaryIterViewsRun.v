(* Cesium/UnaryIterViewsRun.v — clauses (2) and (3) of the C10 monitor hold for every command
   sequence of the model: step views lie inside the bounds and consecutive steps in one
   direction are adjacent (unless the iterator reports an error). *)
From Coq Require Import ZArith List Bool Lia.
From Synnax Require Import Cesium.Store Cesium.StoreProofs Cesium.IndexSearch Cesium.Distance Cesium.Stamp
     Cesium.UnaryIter Cesium.UnaryIterViews Cesium.UnaryWrite Cesium.Read Monitors.Mon_C10.
Import ListNotations.
Local Open Scope Z_scope.

Definition cmd_ok (c : cmd) : Prop :=
  match c with
  | Next s | Prev s => 0 <= s
  | SetBounds b => valid_bounds b
  | _ => True
  end.

Section Run.
Variable P D : list dom.
Variable var : bool.
Variable chunk : Z.

Notation step := (u_step P D var chunk false).
Notation run := (u_run P D var chunk false).

Lemma errored_obs i ok : (o_err (observe i ok) =? 0) = negb (errored i).
Proof. unfold observe, errored. simpl. destruct (u_err i) as [e|]; [destruct e|]; reflexivity. Qed.

Definition next_bounds (b : tr) (c : cmd) : tr := match c with SetBounds nb => nb | _ => b end.

(* bounds after a command *)
Lemma step_bounds i c : u_b (fst (step i c)) = next_bounds (u_b i) c.
Proof.
  destruct c; simpl.
  - unfold u_seek_first. destruct (di_seek_first D (u_di i)); reflexivity.
  - unfold u_seek_last. destruct (di_seek_last D (u_di i)); reflexivity.
  - unfold u_seek_le. destruct (di_seek_le D (u_di i) ts). destruct (overlaps _ _); reflexivity.
  - unfold u_seek_ge. destruct (di_seek_ge D (u_di i) ts). destruct (overlaps _ _); reflexivity.
  - apply next_fix_bounds.
  - apply prev_fix_bounds.
  - apply next_fix_bounds.
  - apply prev_fix_bounds.
  - reflexivity.
Qed.

Lemma valid_next_bounds b c : valid_bounds b -> cmd_ok c -> valid_bounds (next_bounds b c).
Proof. intros Hb Hc. destruct c; simpl; auto. Qed.

(* a step that ends without an error has its view inside the bounds *)
Lemma step_within i c : valid_bounds (u_b i) -> cmd_ok c ->
  let '(i', ok) := step i c in within_ok (next_bounds (u_b i) c) c (observe i' ok) = true.
Proof.
  intros Hb Hc.
  assert (W : forall i', u_b i' = u_b i -> (errored i' = false -> in_bounds (u_b i) (u_view i')) ->
              forall ok cc, is_step cc = true -> next_bounds (u_b i) cc = u_b i ->
              within_ok (next_bounds (u_b i) cc) cc (observe i' ok) = true).
  { intros i' B I ok cc Hs Hn. unfold within_ok. rewrite Hs, errored_obs. simpl.
    destruct (errored i') eqn:E; simpl; [reflexivity|].
    rewrite Hn. destruct (I eq_refl) as (a & b & c'). simpl.
    apply andb_true_iff; split; [apply andb_true_iff; split|]; apply Z.leb_le; lia. }
  destruct c; simpl; try reflexivity;
  try (destruct (u_seek_first D i)); try (destruct (u_seek_last D i));
  try (destruct (u_seek_le D i ts)); try (destruct (u_seek_ge D i ts)); try reflexivity.
  - destruct (next_fix_spec P D var chunk i span Hb (or_introl Hc)) as (B & _ & I).
    apply (W _ B (fun e => proj1 (I e)) _ (Next span)); reflexivity.
  - destruct (prev_fix_spec P D var chunk i span Hb (or_introl Hc)) as (B & _ & I).
    apply (W _ B (fun e => proj1 (I e)) _ (Prev span)); reflexivity.
  - destruct (next_fix_spec P D var chunk i AUTO Hb (or_intror eq_refl)) as (B & _ & I).
    apply (W _ B (fun e => proj1 (I e)) _ NextAuto); reflexivity.
  - destruct (prev_fix_spec P D var chunk i AUTO Hb (or_intror eq_refl)) as (B & _ & I).
    apply (W _ B (fun e => proj1 (I e)) _ PrevAuto); reflexivity.
Qed.

(* what the next command may rely on: after a step without error the view is in bounds *)
Definition after_ok (c : cmd) (i : uiter) : Prop :=
  is_step c = true -> errored i = false -> in_bounds (u_b i) (u_view i).

Lemma step_after i c : valid_bounds (u_b i) -> cmd_ok c -> after_ok c (fst (step i c)).
Proof.
  intros Hb Hc Hs He. destruct c; simpl in Hs; try discriminate; simpl in *.
  - destruct (next_fix_spec P D var chunk i span Hb (or_introl Hc)) as (B & _ & I). rewrite B. apply I, He.
  - destruct (prev_fix_spec P D var chunk i span Hb (or_introl Hc)) as (B & _ & I). rewrite B. apply I, He.
  - destruct (next_fix_spec P D var chunk i AUTO Hb (or_intror eq_refl)) as (B & _ & I). rewrite B. apply I, He.
  - destruct (prev_fix_spec P D var chunk i AUTO Hb (or_intror eq_refl)) as (B & _ & I). rewrite B. apply I, He.
Qed.

Lemma step_adjacent i c0 ok0 c : valid_bounds (u_b i) -> cmd_ok c -> after_ok c0 i ->
  let '(i', ok) := step i c in adjacent_ok c0 c (observe i ok0) (observe i' ok) = true.
Proof.
  intros Hb Hc Ha.
  assert (FW : forall span, (0 <= span \/ span = AUTO) -> is_fwd c0 = true -> forall ok,
     adjacent_ok c0 (if span =? AUTO then NextAuto else Next span) (observe i ok0)
                 (observe (u_next_fix P D var chunk i span) ok) = true).
  { intros span Hsp F ok. unfold adjacent_ok. rewrite errored_obs.
    destruct (next_fix_spec P D var chunk i span Hb Hsp) as (B & St & I).
    destruct (errored (u_next_fix P D var chunk i span)) eqn:E; simpl; [reflexivity|].
    assert (E0 : errored i = false) by (destruct (errored i) eqn:Q; [specialize (St eq_refl); congruence|reflexivity]).
    destruct (I eq_refl) as (_ & Adj).
    assert (Hs : is_step c0 = true) by (unfold is_step; rewrite F; reflexivity).
    destruct (Ha Hs E0) as (a & b & c').
    rewrite F. assert (Hb0 : is_bwd c0 = false) by (destruct c0; simpl in *; congruence).
    rewrite Hb0. destruct (span =? AUTO); simpl; rewrite Adj by lia; rewrite Z.eqb_refl; reflexivity. }
  assert (BW : forall span, (0 <= span \/ span = AUTO) -> is_bwd c0 = true -> forall ok,
     adjacent_ok c0 (if span =? AUTO then PrevAuto else Prev span) (observe i ok0)
                 (observe (u_prev_fix P D var chunk i span) ok) = true).
  { intros span Hsp F ok. unfold adjacent_ok. rewrite errored_obs.
    destruct (prev_fix_spec P D var chunk i span Hb Hsp) as (B & St & I).
    destruct (errored (u_prev_fix P D var chunk i span)) eqn:E; simpl; [reflexivity|].
    assert (E0 : errored i = false) by (destruct (errored i) eqn:Q; [specialize (St eq_refl); congruence|reflexivity]).
    destruct (I eq_refl) as (_ & Adj).
    assert (Hs : is_step c0 = true) by (unfold is_step; rewrite F; apply orb_true_r).
    destruct (Ha Hs E0) as (a & b & c').
    rewrite F. assert (Hb0 : is_fwd c0 = false) by (destruct c0; simpl in *; congruence).
    rewrite Hb0. destruct (span =? AUTO); simpl; rewrite Adj by lia; rewrite Z.eqb_refl; reflexivity. }
  assert (NS : forall cc o', is_step cc = false -> adjacent_ok c0 cc (observe i ok0) o' = true).
  { intros cc o' Hn. unfold adjacent_ok. destruct (negb (o_err o' =? 0)); [reflexivity|].
    unfold is_step in Hn. apply orb_false_iff in Hn. destruct Hn as [H1 H2]. rewrite H1, H2, !andb_false_r. reflexivity. }
  destruct c; simpl;
  try (destruct (u_seek_first D i)); try (destruct (u_seek_last D i));
  try (destruct (u_seek_le D i ts)); try (destruct (u_seek_ge D i ts)); try (apply NS; reflexivity).
  - destruct (is_fwd c0) eqn:F.
    + assert (Hne : (span =? AUTO) = false) by (apply Z.eqb_neq; unfold AUTO; simpl in Hc; lia).
      specialize (FW span (or_introl Hc) eq_refl (u_valid (u_next_fix P D var chunk i span))). rewrite Hne in FW. exact FW.
    + unfold adjacent_ok. destruct (negb _); [reflexivity|]. rewrite F. simpl. rewrite andb_false_r. reflexivity.
  - destruct (is_bwd c0) eqn:F.
    + assert (Hne : (span =? AUTO) = false) by (apply Z.eqb_neq; unfold AUTO; simpl in Hc; lia).
      specialize (BW span (or_introl Hc) eq_refl (u_valid (u_prev_fix P D var chunk i span))). rewrite Hne in BW. exact BW.
    + unfold adjacent_ok. destruct (negb _); [reflexivity|]. rewrite F. simpl. rewrite andb_false_r. reflexivity.
  - destruct (is_fwd c0) eqn:F.
    + exact (FW AUTO (or_intror eq_refl) eq_refl _).
    + unfold adjacent_ok. destruct (negb _); [reflexivity|]. rewrite F. simpl. rewrite andb_false_r. reflexivity.
  - destruct (is_bwd c0) eqn:F.
    + exact (BW AUTO (or_intror eq_refl) eq_refl _).
    + unfold adjacent_ok. destruct (negb _); [reflexivity|]. rewrite F. simpl. rewrite andb_false_r. reflexivity.
Qed.

(* the run: views_trace of the monitor accepts the model's observations *)
Lemma views_trace_run : forall cmds i prev,
  valid_bounds (u_b i) -> Forall cmd_ok cmds ->
  match prev with
  | Some (c0, o0) => exists ok0, o0 = observe i ok0 /\ after_ok c0 i
  | None => True
  end ->
  views_trace (u_b i) prev (combine cmds (run i cmds)) = true.
Proof.
  induction cmds as [|c cs IH]; intros i prev Hb Hcs Hp; [reflexivity|].
  inversion Hcs as [|? ? Hc Hcs']; subst.
  cbn [u_run]. pose proof (step_within i c Hb Hc) as W.
  pose proof (step_bounds i c) as B. pose proof (step_after i c Hb Hc) as A.
  assert (ADJ : match prev with
                | Some (c0, o0) => let '(i', ok) := step i c in adjacent_ok c0 c o0 (observe i' ok) = true
                | None => True end).
  { destruct prev as [[c0 o0]|]; [|exact I]. destruct Hp as (ok0 & -> & Ha).
    apply (step_adjacent i c0 ok0 c Hb Hc Ha). }
  destruct (step i c) as [i' ok] eqn:S. cbn [fst] in B, A. cbn [combine views_trace].
  fold (next_bounds (u_b i) c). rewrite W. cbn [andb].
  replace (match prev with Some (c0, o0) => adjacent_ok c0 c o0 (observe i' ok) | None => true end) with true
    by (destruct prev as [[c0 o0]|]; [symmetry; exact ADJ|reflexivity]).
  cbn [andb]. rewrite <- B. apply IH.
  - rewrite B. apply valid_next_bounds; assumption.
  - assumption.
  - exists ok. split; [reflexivity|exact A].
Qed.

End Run.

(* for every layout, channel kind, chunk size, valid bounds and command sequence *)
Theorem views_adjacent_and_bounded : forall P D var chunk b cmds,
  valid_bounds b -> Forall cmd_ok cmds ->
  views_trace b None (combine cmds (u_run P D var chunk false (u_open b) cmds)) = true.
Proof.
  intros. assert (Hb : u_b (u_open b) = b) by reflexivity.
  rewrite <- Hb at 1. apply views_trace_run; [rewrite Hb; assumption|assumption|exact I].
Qed.
