(* Cesium/SingleSession.v — write -> read refinement for one writer session: an index channel
   and one data channel (any data type kind), a fresh database, any start >= 0, any number of
   frames, commits at any points, no file rollover (the bytes written stay below the cap).
   After the session every read of either channel returns exactly the samples of the frames
   written before the last commit whose stamps lie in the range — the [committed]
   specification. *)
From Coq Require Import ZArith List Bool Lia Sorting.Sorted.
From Synnax Require Import Cesium.LayoutOk Cesium.Store Cesium.StoreProofs Cesium.IndexSearch
     Cesium.IndexSearchProofs Cesium.Distance Cesium.Stamp Cesium.DomIterProofs Cesium.UnaryIter
     Cesium.UnaryIterViews Cesium.DistanceProofs Cesium.UnaryIterExact Cesium.SliceProofs
     Cesium.UnaryIterSpec Cesium.Read Cesium.UnaryIterViewsRun Cesium.UnaryIterRun Cesium.TruthProofs
     Cesium.UnaryWrite Cesium.ReadProofs Cesium.LayoutCheck.
Import ListNotations.
Local Open Scope Z_scope.

(* session operations after OpenWriter: a frame (index stamps, data values) or a commit *)
Inductive sop := SWrite (st vs : list Z) | SCommit.
Definition sop_wop (o : sop) : wop :=
  match o with SWrite st vs => WWrite [(1, st); (2, vs)] | SCommit => WCommit end.

Lemma read_chan_one d k t :
  read_chan d k t = let '(P, D, var) := chan_layout d k in read_one P D var t.
Proof. unfold read_chan, read_one. destruct (chan_layout d k) as [[P D] var]. reflexivity. Qed.

Lemma chan_layout_idx D1 D2 kind t1 t2 :
  chan_layout [Chan 1 0 0 D1 t1; Chan 2 1 kind D2 t2] 1 = (D1, D1, false).
Proof. reflexivity. Qed.
Lemma chan_layout_dat D1 D2 kind t1 t2 :
  chan_layout [Chan 1 0 0 D1 t1; Chan 2 1 kind D2 t2] 2 = (D1, D2, is_var kind).
Proof. reflexivity. Qed.

Section Session.
Variable cap kind start : Z.
Hypothesis Hstart : 0 <= start.

Let R := real_cap (nominal_size (if cap =? 0 then DEFAULT_CAP else cap)).

(* the state of the model while the session is open *)
Definition sstate (S V : list Z) (D1 D2 : list dom) (prev hwm : Z) (unc : bool) (last_ : Z) : state :=
  St cap
     [Chan 1 0 0 D1 (bytes_of 0 S); Chan 2 1 kind D2 (bytes_of kind V)]
     (Some (W start false
        [G 1 true
           [WC 1 start prev S (bytes_of 0 S) (bytes_of 0 S) (zlen S);
            WC 2 start prev V (bytes_of kind V) (bytes_of kind V) (zlen V)]
           hwm (zlen S) unc last_])).

Lemma acquire_zero n k i kd D : acquire n (Chan k i kd D 0) = (Chan k i kd D 0, 0).
Proof. unfold acquire. cbn [c_tail c_key c_idx c_kind c_doms]. destruct (0 <? n); reflexivity. Qed.

Lemma open_state :
  op_open (init_state cap [(1, 0, 0); (2, 1, kind)]) [1; 2] start false =
  (sstate [] [] [] [] 0 start false start, 0).
Proof.
  unfold op_open, init_state, close_writer, nominal_of, mk_chan. cbn -[acquire nominal_size].
  unfold open_chan. cbn -[acquire nominal_size]. rewrite !acquire_zero. cbn -[acquire nominal_size].
  rewrite !acquire_zero. cbn -[acquire nominal_size]. reflexivity.
Qed.

Lemma bytes_of_app k a b : bytes_of k (a ++ b) = bytes_of k a + bytes_of k b.
Proof.
  unfold bytes_of. rewrite fold_left_app.
  assert (G : forall l acc, fold_left (fun acc v => acc + sample_bytes k v) l acc =
                            acc + fold_left (fun acc v => acc + sample_bytes k v) l 0).
  { induction l as [|x l IH]; intros acc; cbn [fold_left]; [lia|]. rewrite IH, (IH (0 + _)). lia. }
  rewrite G. reflexivity.
Qed.

Lemma ndigits_pos v : 1 <= ndigits v.
Proof.
  unfold ndigits. generalize 20%nat. intros n. revert v. induction n as [|n IH]; intros v; cbn [ndigits_go]; [lia|].
  destruct (v <? 10); [lia|]. specialize (IH (v / 10)). lia.
Qed.

Lemma sample_bytes_pos k v : 0 < sample_bytes k v.
Proof.
  unfold sample_bytes. pose proof (ndigits_pos v).
  pose proof (Z.mod_pos_bound v 4 ltac:(lia)). pose proof (Z.mod_pos_bound v 3 ltac:(lia)).
  destruct (k =? 0); [lia|]. destruct (k =? 1); [lia|]. destruct (k =? 2); [lia|]. destruct (v =? 0); [lia|]. destruct (k =? 3); lia.
Qed.

Lemma bytes_of_nonneg k l : 0 <= bytes_of k l.
Proof.
  induction l as [|x l IH] using rev_ind; [cbn; lia|]. rewrite bytes_of_app.
  unfold bytes_of at 2. cbn [fold_left]. pose proof (sample_bytes_pos k x). lia.
Qed.

Lemma bytes_of_pos k l : l <> [] -> 0 < bytes_of k l.
Proof.
  destruct l as [|x l]; [contradiction|]. intros _. change (x :: l) with ([x] ++ l). rewrite bytes_of_app.
  unfold bytes_of at 1. cbn [fold_left]. pose proof (sample_bytes_pos k x). pose proof (bytes_of_nonneg k l). lia.
Qed.

Lemma zlen_app {A} (a b : list A) : zlen (a ++ b) = zlen a + zlen b.
Proof. unfold zlen. rewrite app_length. lia. Qed.
Lemma zlen_pos {A} (l : list A) : l <> [] -> 0 < zlen l.
Proof. destruct l; [contradiction|]. intros _. unfold zlen. cbn [length]. lia. Qed.

Lemma idx_update_single s e e' old new :
  idx_update [Dom (TR s e) old] (Dom (TR s e') new) = Ok [Dom (TR s e') new].
Proof. unfold idx_update. cbn. rewrite !Z.eqb_refl. cbn. rewrite !Z.eqb_refl. cbn. reflexivity. Qed.

Opaque bytes_of zlen last app.

(* one frame *)
Lemma write_state S V D1 D2 prev hwm unc last_ st vs :
  zlen st = zlen vs -> st <> [] ->
  w_step (sstate S V D1 D2 prev hwm unc last_) (WWrite [(1, st); (2, vs)]) =
  (sstate (S ++ st) (V ++ vs) D1 D2 prev (last st hwm) true last_, (0, 0)).
Proof.
  intros Hl Hne. unfold sstate. cbn.
  unfold group_write, validate_write. cbn. rewrite Hl, !Z.eqb_refl. cbn.
  assert (Hz : (zlen vs =? 0) = false) by (apply Z.eqb_neq; rewrite <- Hl; pose proof (zlen_pos st Hne); lia).
  rewrite Hz. cbn. rewrite !bytes_of_app, !zlen_app, Hl. reflexivity.
Qed.

(* what has been committed so far: the commit end and the samples committed *)
Definition com := option (Z * list Z * list Z).
Definition doms1 (C : com) : list dom := match C with Some (e, Sc, _) => [Dom (TR start e) Sc] | None => [] end.
Definition doms2 (C : com) : list dom := match C with Some (e, _, Vc) => [Dom (TR start e) Vc] | None => [] end.
Definition prevof (C : com) : Z := match C with Some (e, _, _) => e | None => 0 end.
Definition cstate (S V : list Z) (C : com) (hwm : Z) (unc : bool) (last_ : Z) : state :=
  sstate S V (doms1 C) (doms2 C) (prevof C) hwm unc last_.

Lemma commit_noop S V C hwm unc last_ : (S = [] \/ unc = false) ->
  exists e, w_step (cstate S V C hwm unc last_) WCommit = (cstate S V C hwm unc last_, (0, e)).
Proof.
  intros H. unfold cstate, sstate. cbn. unfold group_commit. cbn.
  assert (Hc : (zlen S =? 0) || negb unc = true).
  { destruct H as [H|H]; subst; [reflexivity|apply orb_true_r]. }
  rewrite Hc. cbn. eexists. reflexivity.
Qed.

Lemma commit_state S V C hwm last_ :
  S <> [] -> V <> [] -> bytes_of 0 S < R -> bytes_of kind V < R ->
  start <= hwm -> prevof C <= hwm + 1 -> (forall e Sc Vc, C = Some (e, Sc, Vc) -> 0 < e) ->
  exists e, w_step (cstate S V C hwm true last_) WCommit =
            (cstate S V (Some (hwm + 1, S, V)) hwm false (hwm + 1), (0, e)).
Proof.
  intros HS HV B1 B2 Hh Hp Hc. unfold cstate, sstate. cbn. unfold group_commit. cbn.
  assert (Hz : (zlen S =? 0) = false) by (apply Z.eqb_neq; pose proof (zlen_pos S HS); lia).
  rewrite Hz. cbn -[idx_update idx_insert]. unfold commit_chan, nominal_of. cbn -[idx_update idx_insert]. fold R.
  assert (Z1 : (bytes_of 0 S =? 0) = false) by (apply Z.eqb_neq; pose proof (bytes_of_pos 0 S HS); lia).
  assert (Z2 : (bytes_of kind V =? 0) = false) by (apply Z.eqb_neq; pose proof (bytes_of_pos kind V HV); lia).
  assert (Z3 : negb (prevof C =? 0) && (hwm + 1 <? prevof C) = false) by (apply andb_false_iff; right; apply Z.ltb_ge; lia).
  assert (Z4 : negb (start <? hwm + 1) = false) by (apply negb_false_iff, Z.ltb_lt; lia).
  assert (Z5 : (R <=? bytes_of 0 S) = false) by (apply Z.leb_gt; lia).
  assert (Z6 : (R <=? bytes_of kind V) = false) by (apply Z.leb_gt; lia).
  rewrite Z1, Z3, Z4.
  destruct C as [[[e Sc] Vc]|]; cbn [prevof doms1 doms2] in *.
  - assert (Ze : (e =? 0) = false) by (apply Z.eqb_neq; specialize (Hc e Sc Vc eq_refl); lia).
    rewrite Ze. rewrite idx_update_single. cbn -[idx_update idx_insert]. rewrite Z5. cbn -[idx_update idx_insert].
    rewrite ?Z2, ?Z3, ?Z4, ?Ze, ?idx_update_single. cbn -[idx_update idx_insert]. rewrite ?Z6. cbn.
    eexists. reflexivity.
  - cbn -[idx_update idx_insert]. rewrite Z5. cbn -[idx_update idx_insert].
    rewrite ?Z2, ?Z4. cbn -[idx_update idx_insert]. rewrite ?Z6. cbn.
    eexists. reflexivity.
Qed.

Lemma close_state S V C hwm unc last_ :
  s_db (fst (w_step (cstate S V C hwm unc last_) WClose)) =
  [Chan 1 0 0 (doms1 C) (bytes_of 0 S); Chan 2 1 kind (doms2 C) (bytes_of kind V)].
Proof. reflexivity. Qed.

(* ---- the session as a simple specification: a commit makes everything written visible ---- *)
Record abs := Abs { a_S : list Z; a_V : list Z; a_C : com; a_hwm : Z; a_unc : bool; a_last : Z }.
Definition abs0 : abs := Abs [] [] None start false start.
Definition abs_step (a : abs) (o : sop) : abs :=
  match o with
  | SWrite st vs => Abs (a_S a ++ st) (a_V a ++ vs) (a_C a) (last st (a_hwm a)) true (a_last a)
  | SCommit =>
      match a_S a, a_unc a with
      | _ :: _, true => Abs (a_S a) (a_V a) (Some (a_hwm a + 1, a_S a, a_V a)) (a_hwm a) false (a_hwm a + 1)
      | _, _ => a
      end
  end.
Definition abs_run (ops : list sop) : abs := fold_left abs_step ops abs0.
Definition abs_state (a : abs) : state := cstate (a_S a) (a_V a) (a_C a) (a_hwm a) (a_unc a) (a_last a).

(* legality of one operation after the prefix summarised by a *)
Definition legal_op (a : abs) (o : sop) : Prop :=
  match o with
  | SWrite st vs => zlen st = zlen vs /\ st <> [] /\ inc (a_S a ++ st) /\ Forall (fun x => start <= x) st
  | SCommit => True
  end.
Fixpoint legal (a : abs) (ops : list sop) : Prop :=
  match ops with
  | [] => True
  | o :: r => legal_op a o /\ legal (abs_step a o) r
  end.
(* no file rollover: everything written stays below the real file-size cap *)
Definition fits (a : abs) : Prop := bytes_of 0 (a_S a) < R /\ bytes_of kind (a_V a) < R.

Transparent last app zlen.

Lemma last_cons_ne {A} (x : A) l d : l <> [] -> last (x :: l) d = last l d.
Proof. destruct l; [contradiction|reflexivity]. Qed.

Lemma last_app_ne {A} (l1 l2 : list A) d : l2 <> [] -> last (l1 ++ l2) d = last l2 d.
Proof.
  intros H. induction l1 as [|x l1 IH]; [reflexivity|].
  cbn [app]. rewrite last_cons_ne; [exact IH|].
  destruct l1; cbn [app]; [exact H|discriminate].
Qed.

Lemma last_default_ne {A} (l : list A) d1 d2 : l <> [] -> last l d1 = last l d2.
Proof. destruct l; [contradiction|]. intros _. apply last_default. Qed.

(* what the invariant records about an abstract state *)
Definition ainv (a : abs) : Prop :=
  zlen (a_S a) = zlen (a_V a) /\ inc (a_S a) /\ Forall (fun x => start <= x) (a_S a) /\
  a_hwm a = last (a_S a) start /\
  match a_C a with
  | None => True
  | Some (e, Sc, Vc) =>
      Sc <> [] /\ zlen Sc = zlen Vc /\ e = last Sc start + 1 /\
      (exists S', a_S a = Sc ++ S') /\ (exists V', a_V a = Vc ++ V')
  end.

Lemma last_in {A} (b : A) l d : In (last (b :: l) d) (b :: l).
Proof.
  revert b. induction l as [|c l IH]; intros b; [left; reflexivity|].
  change (last (b :: c :: l) d) with (last (c :: l) d). right. apply IH.
Qed.

Lemma inc_last_max l d : inc l -> forall x, In x l -> x <= last l d.
Proof.
  induction 1 as [|a l S IH F]; intros x Hx; [destruct Hx|].
  destruct l as [|b l'].
  - destruct Hx as [<-|[]]. cbn. lia.
  - change (last (a :: b :: l') d) with (last (b :: l') d).
    destruct Hx as [<-|Hx]; [|apply IH, Hx].
    rewrite Forall_forall in F. pose proof (F _ (last_in b l' d)). lia.
Qed.

Lemma inc_app_l l1 l2 : inc (l1 ++ l2) -> inc l1.
Proof.
  induction l1 as [|x l1 IH]; intros H; [constructor|]. inversion H as [|? ? H1 F]; subst.
  constructor; [apply IH, H1|]. rewrite Forall_forall in *. intros y Hy. apply F. apply in_or_app. left. exact Hy.
Qed.

Lemma hwm_ge a : ainv a -> start <= a_hwm a.
Proof.
  intros (_ & HI & HF & Hh & _). rewrite Hh. destruct (a_S a) as [|x l] eqn:E; [cbn; lia|].
  rewrite Forall_forall in HF. apply HF. apply last_in.
Qed.

Lemma ainv_step a o : ainv a -> legal_op a o -> ainv (abs_step a o).
Proof.
  intros (HL & HI & HF & Hh & HC) Hl. destruct o as [st vs|]; cbn [abs_step legal_op] in *.
  - destruct Hl as (L1 & L2 & L3 & L4). unfold ainv. cbn [a_S a_V a_C a_hwm].
    split; [rewrite !zlen_app; lia|]. split; [exact L3|]. split; [apply Forall_app; split; assumption|].
    split; [rewrite last_app_ne by exact L2; apply last_default_ne; exact L2|].
    destruct (a_C a) as [[[e Sc] Vc]|]; [|exact I].
    destruct HC as (C1 & C2 & C3 & (S' & C4) & (V' & C5)).
    split; [exact C1|]. split; [exact C2|]. split; [exact C3|]. split.
    + exists (S' ++ st). rewrite C4, app_assoc. reflexivity.
    + exists (V' ++ vs). rewrite C5, app_assoc. reflexivity.
  - destruct (a_S a) as [|x l] eqn:ES; [unfold ainv; rewrite ES; auto|].
    destruct (a_unc a); [|unfold ainv; rewrite ES; auto].
    unfold ainv. cbn [a_S a_V a_C a_hwm]. try rewrite ES in *.
    split; [exact HL|]. split; [exact HI|]. split; [exact HF|]. split; [exact Hh|].
    split; [discriminate|]. split; [exact HL|]. split; [rewrite Hh; reflexivity|].
    split; [exists []; rewrite app_nil_r; reflexivity|exists []; rewrite app_nil_r; reflexivity].
Qed.

Lemma abs_step_grows a o : exists s' v', a_S (abs_step a o) = a_S a ++ s' /\ a_V (abs_step a o) = a_V a ++ v'.
Proof.
  destruct o as [st vs|]; cbn [abs_step].
  - exists st, vs. split; reflexivity.
  - exists [], []. rewrite !app_nil_r. destruct (a_S a) eqn:E, (a_unc a); cbn [a_S a_V]; rewrite ?E; split; reflexivity.
Qed.

Lemma fits_mono ops : forall a, fits (fold_left abs_step ops a) -> fits a.
Proof.
  induction ops as [|o r IH]; intros a H; [exact H|]. cbn [fold_left] in H. apply IH in H.
  destruct (abs_step_grows a o) as (s' & v' & E1 & E2). unfold fits in *. rewrite E1, E2 in H.
  rewrite !bytes_of_app in H. pose proof (bytes_of_nonneg 0 s'). pose proof (bytes_of_nonneg kind v'). lia.
Qed.

Lemma prefix_last_le Sc S' : inc (Sc ++ S') -> Sc <> [] -> last Sc start <= last (Sc ++ S') start.
Proof.
  intros HI Hne. apply inc_last_max; [exact HI|]. apply in_or_app. left.
  destruct Sc as [|b l]; [contradiction|]. apply last_in.
Qed.

Lemma session_step a o : ainv a -> legal_op a o -> fits (abs_step a o) ->
  exists e, w_step (abs_state a) (sop_wop o) = (abs_state (abs_step a o), (0, e)).
Proof.
  intros HA Hl Hf. pose proof HA as (HL & HI & HF & Hh & HC).
  destruct o as [st vs|]; cbn [sop_wop abs_step legal_op] in *.
  - destruct Hl as (L1 & L2 & _). exists 0. unfold abs_state, cstate. cbn [a_S a_V a_C a_hwm a_unc a_last].
    apply write_state; assumption.
  - destruct (a_S a) as [|x l] eqn:ES.
    + unfold abs_state. rewrite ?ES. apply commit_noop. left. reflexivity.
    + destruct (a_unc a) eqn:EU.
      * unfold abs_state. cbn [a_S a_V a_C a_hwm a_unc a_last]. rewrite ?ES, ?EU.
        unfold fits in Hf. cbn [a_S a_V] in Hf.
        assert (HV : a_V a <> []).
        { intros E. rewrite E in HL. Transparent zlen. unfold zlen in HL. cbn in HL. Opaque zlen. lia. }
        apply commit_state; try (apply Hf); try assumption; try discriminate.
        -- pose proof (hwm_ge a HA). lia.
        -- destruct (a_C a) as [[[e Sc] Vc]|]; cbn [prevof]; [|pose proof (hwm_ge a HA); lia].
           destruct HC as (C1 & C2 & C3 & (S' & C4) & _). rewrite Hh, C3, C4.
           rewrite C4 in HI. pose proof (prefix_last_le Sc S' HI C1). lia.
        -- intros e Sc Vc EC. rewrite EC in HC. destruct HC as (C1 & C2 & C3 & (S' & C4) & _).
           subst e. assert (start <= last Sc start); [|lia].
           rewrite Forall_forall in HF. apply HF. rewrite C4. apply in_or_app. left.
           destruct Sc as [|b l']; [contradiction|]. apply last_in.
      * unfold abs_state. rewrite ?ES, ?EU. apply commit_noop. right. reflexivity.
Qed.

Lemma session_run : forall ops a, ainv a -> legal a ops -> fits (fold_left abs_step ops a) ->
  exists outs, w_run (abs_state a) (map sop_wop ops) = (abs_state (fold_left abs_step ops a), outs) /\
               Forall (fun o => fst o = 0) outs.
Proof.
  induction ops as [|o r IH]; intros a HA Hl Hf.
  - exists []. split; [reflexivity|constructor].
  - cbn [legal] in Hl. destruct Hl as [Hl1 Hl2]. cbn [fold_left] in *.
    destruct (session_step a o HA Hl1 (fits_mono r _ Hf)) as (e & Hs).
    destruct (IH (abs_step a o) (ainv_step a o HA Hl1) Hl2 Hf) as (outs & Hr & Ho).
    exists ((0, e) :: outs). cbn [map w_run]. rewrite Hs, Hr. split; [reflexivity|constructor; [reflexivity|exact Ho]].
Qed.

(* ---- the layout a session leaves behind ---- *)
Lemma filter_all {A} (f : A -> bool) l : (forall x, In x l -> f x = true) -> filter f l = l.
Proof.
  induction l as [|x l IH]; intros H; [reflexivity|]. cbn [filter]. rewrite (H x) by (left; reflexivity).
  f_equal. apply IH. intros y Hy. apply H. right. exact Hy.
Qed.

Lemma committed_layout Sc X : Sc <> [] -> inc Sc -> Forall (fun x => start <= x) Sc -> zlen X = zlen Sc ->
  let e := last Sc start + 1 in
  let q := Dom (TR start e) Sc in
  let d := Dom (TR start e) X in
  layout_ok [q] [d] /\ layout_assoc [q] [d] = combine Sc X.
Proof.
  intros Hne HI HF HX e q d.
  assert (Hle : forall x, In x Sc -> start <= x < e).
  { intros x Hx. rewrite Forall_forall in HF. pose proof (HF x Hx). pose proof (inc_last_max Sc start HI x Hx). unfold e. lia. }
  assert (Hse : start < e).
  { destruct Sc as [|b l]; [contradiction|]. pose proof (Hle _ (last_in b l start)). unfold e in *. lia. }
  assert (Wq : iwf q) by (split; [exact HI|apply Forall_forall; exact Hle]).
  assert (HP : ilay [q]).
  { split; [split; [constructor; [exact Hse|constructor]|constructor; [constructor|constructor]]|constructor; [exact Wq|constructor]]. }
  assert (ST : stamps_in (TR start e) (stamps_of [q]) = Sc).
  { unfold stamps_of. cbn [map concat d_data q]. rewrite app_nil_r. unfold stamps_in. apply filter_all.
    intros x Hx. specialize (Hle x Hx). unfold contains_stamp. cbn [t_s t_e].
    apply andb_true_iff. split; [apply Z.leb_le|apply Z.ltb_lt]; lia. }
  split.
  - split; [apply ilay_inc_stamps, HP|]. split.
    + split; [constructor; [exact Hse|constructor]|constructor; [constructor|constructor]].
    + constructor; [|constructor]. split.
      * cbn [d_tr d t_s t_e]. apply (dist_ok_one_domain [q] 0 q start e HP eq_refl); cbn [d_tr q t_s t_e]; lia.
      * cbn [d_tr d]. rewrite ST. unfold dlen. cbn [d_data d]. exact HX.
  - unfold layout_assoc, dom_assoc. cbn [flat_map d_tr d d_data]. rewrite ST, app_nil_r. reflexivity.
Qed.

Lemma empty_layout : layout_ok [] [] /\ layout_assoc [] [] = [].
Proof.
  split; [|reflexivity]. split; [constructor|]. split; [split; constructor|constructor].
Qed.

Lemma w_run_app st l1 l2 :
  w_run st (l1 ++ l2) =
  let '(st1, o1) := w_run st l1 in let '(st2, o2) := w_run st1 l2 in (st2, o1 ++ o2).
Proof.
  revert st. induction l1 as [|o l1 IH]; intros st.
  - cbn [app w_run]. destruct (w_run st l2); reflexivity.
  - cbn [app w_run]. destruct (w_step st o) as [st1 x]. rewrite IH.
    destruct (w_run st1 l1) as [st2 o1]. destruct (w_run st2 l2) as [st3 o2]. reflexivity.
Qed.

(* what the session made visible *)
Definition visible (ops : list sop) : list Z * list Z :=
  match a_C (abs_run ops) with Some (_, Sc, Vc) => (Sc, Vc) | None => ([], []) end.

Definition session_history (ops : list sop) : list wop :=
  WOpen [1; 2] start false :: map sop_wop ops ++ [WClose].

Lemma ainv0 : ainv abs0.
Proof. unfold ainv, abs0. cbn. repeat split; constructor. Qed.

Lemma final_db ops : legal abs0 ops -> fits (abs_run ops) ->
  let r := w_run (init_state cap [(1, 0, 0); (2, 1, kind)]) (session_history ops) in
  Forall (fun o => fst o = 0) (snd r) /\
  exists t1 t2, s_db (fst r) = [Chan 1 0 0 (doms1 (a_C (abs_run ops))) t1; Chan 2 1 kind (doms2 (a_C (abs_run ops))) t2].
Proof.
  intros Hl Hf.
  destruct (session_run ops abs0 ainv0 Hl Hf) as (outs & Hr & Ho).
  assert (E : w_run (init_state cap [(1, 0, 0); (2, 1, kind)]) (session_history ops) =
              (close_writer (abs_state (abs_run ops)), (0, 0) :: outs ++ [(0, 0)])).
  { unfold session_history.
    change (w_run (init_state cap [(1, 0, 0); (2, 1, kind)]) (WOpen [1; 2] start false :: map sop_wop ops ++ [WClose]))
      with (let '(st1, x) := (let '(st', e) := op_open (init_state cap [(1, 0, 0); (2, 1, kind)]) [1; 2] start false in (st', (e, 0))) in
            let '(st2, xs) := w_run st1 (map sop_wop ops ++ [WClose]) in (st2, x :: xs)).
    rewrite open_state.
    change (sstate [] [] [] [] 0 start false start) with (abs_state abs0).
    rewrite w_run_app, Hr. fold (abs_run ops). reflexivity. }
  cbv zeta. rewrite E. cbn [fst snd]. split.
  - constructor; [reflexivity|]. apply Forall_app. split; [exact Ho|]. constructor; [reflexivity|constructor].
  - eexists _, _. reflexivity.
Qed.

(* The refinement for one session: every step of the history succeeds, and afterwards every
   read of the index channel and of the data channel returns exactly the visible samples whose
   index stamps lie in the range. *)
Theorem single_session_exact ops : legal abs0 ops -> fits (abs_run ops) ->
  let r := w_run (init_state cap [(1, 0, 0); (2, 1, kind)]) (session_history ops) in
  let '(Sc, Vc) := visible ops in
  Forall (fun o => fst o = 0) (snd r) /\
  forall t, valid_bounds t -> 0 <= t_s t ->
    frame_data (read_chan (s_db (fst r)) 1 t) = read_spec (combine Sc Sc) t /\
    frame_data (read_chan (s_db (fst r)) 2 t) = read_spec (combine Sc Vc) t.
Proof.
  intros Hl Hf. cbv zeta. destruct (final_db ops Hl Hf) as (Hcodes & t1 & t2 & Hdb).
  assert (HA : ainv (abs_run ops)).
  { unfold abs_run. clear Hf Hcodes Hdb. revert Hl. generalize ainv0. generalize abs0.
    induction ops as [|o r IH]; intros a HA Hl; [exact HA|]. cbn [fold_left legal] in *.
    destruct Hl as [H1 H2]. apply IH; [apply ainv_step; assumption|exact H2]. }
  unfold visible. destruct HA as (HL & HI & HF & Hh & HC).
  destruct (a_C (abs_run ops)) as [[[e Sc] Vc]|] eqn:EC.
  - destruct HC as (C1 & C2 & C3 & (S' & C4) & (V' & C5)).
    assert (ISc : inc Sc) by (rewrite C4 in HI; apply (inc_app_l Sc S' HI)).
    assert (FSc : Forall (fun x => start <= x) Sc) by (rewrite C4 in HF; apply Forall_app in HF; apply HF).
    destruct (committed_layout Sc Sc C1 ISc FSc eq_refl) as (L1 & A1).
    destruct (committed_layout Sc Vc C1 ISc FSc (eq_sym C2)) as (L2 & A2).
    cbv zeta in L1, A1, L2, A2. rewrite <- C3 in L1, A1, L2, A2.
    split; [exact Hcodes|]. intros t Ht H0. rewrite Hdb. rewrite !read_chan_one, chan_layout_idx, chan_layout_dat.
    cbn [doms1 doms2]. split.
    + rewrite <- A1. apply (read_one_exact _ _ _ L1 t Ht H0).
    + rewrite <- A2. apply (read_one_exact _ _ _ L2 t Ht H0).
  - destruct empty_layout as (L0 & A0).
    split; [exact Hcodes|]. intros t Ht H0. rewrite Hdb. rewrite !read_chan_one, chan_layout_idx, chan_layout_dat.
    cbn [doms1 doms2 combine]. split.
    + change (read_spec [] t) with (read_spec (layout_assoc [] []) t). apply (read_one_exact _ _ _ L0 t Ht H0).
    + change (read_spec [] t) with (read_spec (layout_assoc [] []) t). apply (read_one_exact _ _ _ L0 t Ht H0).
Qed.

Opaque last app zlen.

End Session.
